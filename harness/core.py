"""Shared machinery of /verif/check: Coq build + audit, case evaluation inside Coq,
verdict protocol (DESIGN.md 2.3), known findings, replay files and evidence.

Nothing here imports pdb2pqr; property modules do.
"""

from __future__ import annotations

import fcntl
import hashlib
import json
import os
import random
import re
import shutil
import subprocess
import sys
import tempfile
import time
from pathlib import Path

VERIF = Path(__file__).resolve().parent.parent
REPO = Path(os.environ.get("VERIF_REPO", "/repo"))
COQ = VERIF / "coq"
GEN = COQ / "Generated"
EVIDENCE = VERIF / "evidence"
REPLAYS = VERIF / "replays"
CORPUS = VERIF / "corpus"
KNOWN = VERIF / "known_findings.json"
LOGICAL = "PV"
PER_FILE_TIMEOUT = int(os.environ.get("VERIF_COQC_TIMEOUT", "900"))  # seconds per .v file

FORBIDDEN = re.compile(
    r"\b(Admitted|admit|Axiom|Axioms|Parameter|Parameters|Conjecture|Conjectures|"
    r"Hypothesis|Hypotheses|Variable|Variables|Admit Obligations)\b|Unset Guard|"
    r"bypass_check|type-in-type|impredicative-set|Unset Universe Checking|"
    r"Unset Positivity|native_compute"
)

KERNEL_TB = (
    "Coq 8.16.1 kernel and vm_compute (no native_compute); coqc full .vo builds, "
    "Print Assumptions parsed for every property theorem"
)


# --------------------------------------------------------------------------
# small utilities


def sha(obj) -> str:
    return hashlib.sha256(json.dumps(obj, sort_keys=True, default=str).encode()).hexdigest()[:16]


def write_if_changed(path: Path, text: str) -> bool:
    path.parent.mkdir(parents=True, exist_ok=True)
    if path.exists() and path.read_text() == text:
        return False
    tmp = path.with_name(f".{path.name}.{os.getpid()}.tmp")  # atomic: concurrent checks share coq/Generated
    tmp.write_text(text)
    os.replace(tmp, path)
    return True


def coq_string(s: str) -> str:
    """A Coq string literal for an ASCII string (quotes doubled). Control
    characters other than \\n are rejected: the models never need them."""
    for ch in s:
        o = ord(ch)
        if o > 126 or (o < 32 and ch not in "\n\t\r"):
            raise ValueError(f"non-printable char {o} in Coq string")
    return '"' + s.replace('"', '""') + '"'


def coq_string_bytes(s: str) -> str:
    """String literal built from ascii codes - safe for any byte < 256."""
    if all(32 <= ord(c) <= 126 for c in s):
        return coq_string(s) + "%string"
    return "(bs [" + ";".join(str(ord(c)) for c in s) + "]%N)"


def coq_list(items, scope: str = "") -> str:
    body = "; ".join(items)
    return f"[{body}]" + (f"%{scope}" if scope else "")


def coq_Z(n: int) -> str:
    if abs(n) >= 1 << 60:  # hex literals parse in linear time
        return f"(-{hex(-n)})%Z" if n < 0 else f"{hex(n)}%Z"
    return f"({n})%Z" if n < 0 else f"{n}%Z"


def float_hex(f: float) -> str:
    """PrimFloat literal for a python float (hex, exact)."""
    if f != f:
        return "nan"
    if f in (float("inf"), float("-inf")):
        return "infinity" if f > 0 else "neg_infinity"
    h = f.hex()
    return f"({h})%float" if h.startswith("-") else f"{h}%float"


class Lock:
    def __init__(self, path: Path):
        self.path = path

    def __enter__(self):
        self.fh = open(self.path, "w")
        fcntl.flock(self.fh, fcntl.LOCK_EX)
        return self

    def __exit__(self, *a):
        fcntl.flock(self.fh, fcntl.LOCK_UN)
        self.fh.close()


# --------------------------------------------------------------------------
# Coq build / audit / evaluation


def coq_project_text() -> str:
    files = sorted(
        str(p.relative_to(COQ))
        for p in COQ.rglob("*.v")
        if "Generated/cases_" not in str(p) and "/scratch/" not in str(p)
    )
    return f"-Q . {LOGICAL}\n-arg -w -arg -all\n" + "\n".join(files) + "\n"


def ensure_generated():
    """Bootstrap for a fresh restore: every check regenerates the tables it is ABOUT from /repo itself, but property
    files also import tables of other properties (C06 imports C02's States, C03 the E2E name table ...).  If one of
    the shared generated files is missing, run the generators once the way setup.sh does (all tables, from the
    current REPO)."""
    gen = COQ / "Generated"
    essential = ["States.v", "Stages.v", "E2ENames.v", "FF_AMBER.v", "Topology.v", "Titration.v", "MovesTable.v", "FlipTable.v", "Survivors.v", "C03Table.v", "C05Table.v"]
    if all((gen / f).exists() for f in essential):
        return
    gen.mkdir(parents=True, exist_ok=True)
    env = {**os.environ, "VERIF_REPO": str(REPO), "PYTHONPATH": f"{REPO}:{VERIF}"}
    for script in ("all.py", "c03_table.py", "c05_table.py", "e2e_names.py"):
        f = VERIF / "gen" / script
        if f.exists():
            try:
                subprocess.run([sys.executable, str(f)], capture_output=True, text=True, timeout=900, env=env, cwd=str(VERIF))
            except Exception:  # noqa  (the check that needs the table reports generator-broken / proof-broken itself)
                pass


def ensure_makefile():
    txt = coq_project_text()
    changed = write_if_changed(COQ / "_CoqProject", txt)
    if changed or not (COQ / "Makefile").exists():
        subprocess.run(
            ["coq_makefile", "-f", "_CoqProject", "-o", "Makefile"],
            cwd=COQ,
            check=True,
            capture_output=True,
        )


class BuildResult:
    def __init__(self, ok, log, failed_file=None, failed_line=None, failed_decl=None, err=""):
        self.ok = ok
        self.log = log
        self.failed_file = failed_file
        self.failed_line = failed_line
        self.failed_decl = failed_decl
        self.err = err

    def describe(self):
        if self.ok:
            return "build ok"
        return f"{self.failed_file}:{self.failed_line} in {self.failed_decl}: {self.err[:400]}"


DECL_RE = re.compile(
    r"^\s*(?:Local\s+|Global\s+|#\[[^\]]*\]\s*)*(Theorem|Lemma|Corollary|Example|Definition|Fixpoint|Fact|Remark|Proposition|Instance|Function)\s+([A-Za-z0-9_']+)"
)


def enclosing_decl(vfile: Path, line: int) -> str:
    try:
        lines = vfile.read_text().splitlines()
    except OSError:
        return "?"
    for i in range(min(line, len(lines)) - 1, -1, -1):
        m = DECL_RE.match(lines[i])
        if m:
            return m.group(2)
    return "?"


def coq_make(targets: list[str], timeout: int = 1500, jobs: int = 16) -> BuildResult:
    """Full .vo build of the given targets (and what they depend on)."""
    with Lock(COQ / ".build.lock"):
        ensure_makefile()
        try:
            p = subprocess.run(
                ["timeout", str(timeout), "make", f"-j{jobs}", "--no-print-directory", f"TIMECMD=timeout {PER_FILE_TIMEOUT}"] + targets,
                cwd=COQ,
                capture_output=True,
                text=True,
            )
        except Exception as e:  # pragma: no cover
            return BuildResult(False, str(e), err=str(e))
    log = p.stdout + p.stderr
    if p.returncode == 0:
        return BuildResult(True, log)
    m = re.search(r'File "\./([^"]+)", line (\d+), characters [\d-]+:\n((?:.*\n?){1,12})', log)
    if m:
        f, ln, err = m.group(1), int(m.group(2)), m.group(3)
        return BuildResult(False, log, f, ln, enclosing_decl(COQ / f, ln), err.strip())
    return BuildResult(False, log, err=log[-600:])


def coqc_file(vfile: Path, timeout: int = 600) -> tuple[int, str]:
    """Compile one file (already-built dependencies), returning (rc, output)."""
    p = subprocess.run(
        ["timeout", str(timeout), "coqc", "-Q", ".", LOGICAL, "-w", "-all", str(vfile.relative_to(COQ))],
        cwd=COQ,
        capture_output=True,
        text=True,
    )
    return p.returncode, p.stdout + p.stderr


def parse_assumptions(output: str) -> list[list[str]]:
    """Split coqc output into one axiom list per Print Assumptions command."""
    res = []
    cur = None
    for line in output.splitlines():
        if line.startswith("Closed under the global context"):
            if cur is not None:
                res.append(cur)
                cur = None
            res.append([])
        elif line.startswith("Axioms:"):
            if cur is not None:
                res.append(cur)
            cur = []
        elif cur is not None:
            m = re.match(r"^([A-Za-z_][\w.']*)\s*(:|$)", line)
            if m and not line.startswith(" "):
                cur.append(m.group(1))
    if cur is not None:
        res.append(cur)
    return res


def audit_sources(files: list[Path]) -> list[str]:
    """Forbidden-token audit over the Coq sources (comments stripped)."""
    bad = []
    for f in files:
        txt = f.read_text()
        txt = strip_coq_comments(txt)
        in_section = 0
        for n, line in enumerate(txt.splitlines(), 1):
            if re.match(r"\s*Section\b", line):
                in_section += 1
            if re.match(r"\s*End\b", line) and in_section:
                in_section -= 1
            for m in FORBIDDEN.finditer(line):
                tok = m.group(0)
                if tok in ("Variable", "Variables", "Hypothesis", "Hypotheses") and in_section:
                    continue  # section-local: discharged as a premise at End
                bad.append(f"{f.relative_to(COQ)}:{n}: {tok}")
    return bad


def strip_coq_comments(txt: str) -> str:
    out = []
    depth = 0
    i = 0
    in_str = False
    while i < len(txt):
        c = txt[i]
        if depth == 0 and c == '"':
            in_str = not in_str
            out.append(c)
            i += 1
            continue
        if not in_str and txt.startswith("(*", i):
            depth += 1
            i += 2
            continue
        if not in_str and depth and txt.startswith("*)", i):
            depth -= 1
            i += 2
            continue
        if depth == 0:
            out.append(c)
        elif c == "\n":
            out.append(c)
        i += 1
    return "".join(out)


def transitive_sources(vfile: Path) -> list[Path]:
    """All PV.* sources a file depends on (via Require lines), incl. itself."""
    seen: dict[Path, None] = {}

    def go(f: Path):
        if f in seen or not f.exists():
            return
        seen[f] = None
        txt = strip_coq_comments(f.read_text())
        for m in re.finditer(r"(?:From\s+PV\s+)?Require\s+(?:Import|Export)?\s*([^.]*(?:\.[A-Za-z][\w.]*)*)\.", txt):
            pass
        for m in re.finditer(r"\bPV\.([A-Za-z0-9_]+(?:\.[A-Za-z0-9_]+)+)", txt):
            go(COQ / (m.group(1).replace(".", "/") + ".v"))
        for m in re.finditer(r"From\s+PV\s+Require\s+(?:Import\s+|Export\s+)?([^.]+(?:\.[A-Za-z0-9_]+)*)\s*\.", txt):
            for mod in m.group(1).split():
                go(COQ / (mod.replace(".", "/") + ".v"))

    go(vfile)
    return list(seen)


def run_cases(name: str, header: str, evals: list[str], timeout: int = 600, chunk: int = 400) -> list[str]:
    """Evaluate Coq terms with vm_compute, one result string per term.

    Each term must have type `string` (use a show function of the model). The
    result lines are returned un-escaped. Cases are sharded into files of
    `chunk` terms compiled in parallel. A failure to compile raises."""
    GEN.mkdir(exist_ok=True)
    # the header's PV.* requirements must be compiled: never rely on leftovers of another build
    deps = []
    for m in re.finditer(r"From\s+PV\s+Require\s+(?:Import\s+|Export\s+)?([^.]+(?:\.[A-Za-z0-9_]+)*)\s*\.", strip_coq_comments(header)):
        deps += [mod.replace(".", "/") + ".vo" for mod in m.group(1).split()]
    for m in re.finditer(r"Require\s+(?:Import\s+|Export\s+)?((?:PV\.[\w.]+\s*)+)\.", strip_coq_comments(header)):
        deps += [mod[3:].replace(".", "/") + ".vo" for mod in m.group(1).split()]
    deps = [d for d in dict.fromkeys(deps) if (COQ / d[:-1]).exists()]
    if deps and any(not (COQ / d).exists() or (COQ / d).stat().st_mtime < (COQ / d[:-1]).stat().st_mtime for d in deps):
        r = coq_make(deps)
        if not r.ok:
            raise CoqEvalError(f"{name}: model files needed by the cases did not build: {r.describe()}")
    shards = [evals[i : i + chunk] for i in range(0, len(evals), chunk)] or [[]]
    files = []
    for k, sh in enumerate(shards):
        body = [header, "Set Printing Width 2000000000.", "Set Printing Depth 2000000000."]
        for t in sh:
            body.append(f'Eval vm_compute in ({t}).')
        f = GEN / f"cases_{name}_{k}.v"
        f.write_text("\n".join(body) + "\n")
        files.append(f)
    procs = []
    outs: list[str] = []
    maxpar = 12
    for i in range(0, len(files), maxpar):
        procs = [
            subprocess.Popen(
                ["timeout", str(timeout), "coqc", "-Q", ".", LOGICAL, "-w", "-all", str(f.relative_to(COQ))],
                cwd=COQ,
                stdout=subprocess.PIPE,
                stderr=subprocess.STDOUT,
                text=True,
            )
            for f in files[i : i + maxpar]
        ]
        for p, f in zip(procs, files[i : i + maxpar]):
            o, _ = p.communicate()
            if p.returncode != 0:
                raise CoqEvalError(f"{f.name}: rc={p.returncode}\n{o[-1500:]}")
            outs.append(o)
    for f in files:
        for ext in (".v", ".vo", ".vok", ".vos", ".glob"):
            q = f.with_suffix(ext)
            if q.exists():
                q.unlink()
        aux = f.parent / ("." + f.stem + ".aux")
        if aux.exists():
            aux.unlink()
    results = []
    for o in outs:
        results.extend(parse_eval_strings(o))
    if len(results) != len(evals):
        raise CoqEvalError(f"{name}: expected {len(evals)} results, parsed {len(results)}\n{outs[0][:800] if outs else ''}")
    return results


class CoqEvalError(Exception):
    pass


def parse_eval_strings(out: str) -> list[str]:
    """Parse `     = "...."\\n     : string` blocks."""
    res = []
    i = 0
    while True:
        j = out.find('     = "', i)
        if j < 0:
            break
        k = j + len('     = "')
        buf = []
        while True:
            c = out[k]
            if c == '"':
                if out[k + 1 : k + 2] == '"':
                    buf.append('"')
                    k += 2
                    continue
                break
            buf.append(c)
            k += 1
        res.append("".join(buf))
        i = k + 1
    return res


# --------------------------------------------------------------------------
# known findings


def load_known() -> list[dict]:
    if KNOWN.exists():
        return json.loads(KNOWN.read_text())["findings"]
    return []


# --------------------------------------------------------------------------
# check context


class Ctx:
    def __init__(self, prop: str, tier: str, seed: int):
        self.prop = prop
        self.tier = tier
        self.seed = seed
        self.rng = random.Random(f"{prop}:{seed}")
        self.t0 = time.time()
        self.thorough = tier == "thorough"
        self.obligations: list[str] = []
        self.discharged: list[str] = []
        self.axioms: dict[str, list[str]] = {}
        self.broken: list[dict] = []  # proof or correspondence breaks
        self.failures: list[dict] = []  # concrete property failures on the impl
        self.known_hits: dict[str, int] = {}
        self.cov = {
            "evaluations": 0,
            "distinct_nontrivial": 0,
            "rule": "",
            "samples": [],
            "distribution": {},
            "correspondence_cases": 0,
            "correspondence_disagreements": 0,
        }
        self._distinct: set[str] = set()
        self.assumptions: list[str] = []
        self.trusted: list[str] = [KERNEL_TB]
        self.notes: list[str] = []
        self.known = [k for k in load_known() if k["property"] == prop]
        self.scratch = None

    # -- scratch dir outside /repo and /verif
    def scratch_dir(self) -> Path:
        if self.scratch is None:
            base = os.environ.get("VERIF_SCRATCH") or tempfile.gettempdir()
            self.scratch = Path(tempfile.mkdtemp(prefix=f"pv_{self.prop}_", dir=base))
        return self.scratch

    def cleanup(self):
        if self.scratch and self.scratch.exists():
            shutil.rmtree(self.scratch, ignore_errors=True)

    # -- coverage accounting
    def count(self, key: str, n: int = 1):
        d = self.cov["distribution"]
        d[key] = d.get(key, 0) + n

    def evaluated(self, case_key, nontrivial: bool, n: int = 1):
        self.cov["evaluations"] += n
        if nontrivial:
            k = case_key if isinstance(case_key, str) else sha(case_key)
            if k not in self._distinct:
                self._distinct.add(k)
        self.cov["distinct_nontrivial"] = len(self._distinct)

    def sample(self, s, limit: int = 6):
        if len(self.cov["samples"]) < limit:
            self.cov["samples"].append(s)

    # -- findings
    def broke(self, kind: str, what: str, detail: str = "", case=None):
        """kind: proof-broken | correspondence-broken | generator-broken"""
        self.broken.append({"kind": kind, "what": what, "detail": detail[:3000], "case": case})

    def fail(self, signature: dict, what: str, case: dict):
        """A concrete failure of the property on the implementation.
        `signature` is matched against known_findings.json."""
        for k in self.known:
            if k.get("status") == "known" and sig_match(k["signature"], signature):
                self.known_hits[k["id"]] = self.known_hits.get(k["id"], 0) + 1
                return False
        self.failures.append({"signature": signature, "what": what, "case": case})
        return True

    def elapsed(self):
        return time.time() - self.t0


def sig_match(known_sig: dict, sig: dict) -> bool:
    """Every key of the known signature must be present and equal (or match a
    regex given as '/.../')."""
    for k, v in known_sig.items():
        if k not in sig:
            return False
        sv = sig[k]
        if isinstance(v, str) and len(v) > 2 and v.startswith("/") and v.endswith("/"):
            if not re.search(v[1:-1], str(sv)):
                return False
        elif isinstance(v, list):
            if sv not in v:
                return False
        elif sv != v:
            return False
    return True


def write_replay(ctx: Ctx, payload: dict) -> Path:
    d = REPLAYS / ctx.prop
    d.mkdir(parents=True, exist_ok=True)
    payload = dict(payload)
    payload.setdefault("property", ctx.prop)
    payload.setdefault("seed", ctx.seed)
    p = d / f"{sha(payload)}.json"
    p.write_text(json.dumps(payload, indent=1, default=str))
    return p


def finish(ctx: Ctx, meta: dict) -> int:
    """Verdict + evidence. Returns the process exit code."""
    rc = 0
    lines = []
    for k in ctx.known:
        if k.get("status") == "known":
            hits = ctx.known_hits.get(k["id"], 0)
            lines.append(f"KNOWN-FINDING: property={ctx.prop} {k['id']}: {k['what']} (reproduced {hits}x this run)")
    nviol = 0
    if ctx.failures:
        # one VIOLATION line per distinct signature
        seen = set()
        for f in ctx.failures:
            s = sha(f["signature"])
            if s in seen:
                continue
            seen.add(s)
            rp = write_replay(
                ctx,
                {
                    "kind": "impl-failure",
                    "signature": f["signature"],
                    "what": f["what"],
                    "case": f["case"],
                    "broken": ctx.broken[:5],
                },
            )
            lines.append(f"VIOLATION property={ctx.prop} replay={rp}")
            nviol += 1
            rc = 1
    elif ctx.broken:
        rp = write_replay(
            ctx,
            {
                "kind": ctx.broken[0]["kind"],
                "no_longer_checks": [b["what"] for b in ctx.broken],
                "broken": ctx.broken[:20],
            },
        )
        lines.append(f"VIOLATION property={ctx.prop} replay={rp} no-failing-input-found")
        nviol = 1
        rc = 1
    cov = dict(ctx.cov)
    cov["obligations"] = len(ctx.obligations)
    cov["discharged"] = len(ctx.discharged)
    cov["obligation_names"] = ctx.obligations
    cov["axioms_per_theorem"] = ctx.axioms
    cov["checker_cmd"] = (
        f"cd /verif/coq && make (coq_makefile, full .vo) && coqc Properties/{ctx.prop}.v "
        "(Print Assumptions audit) ; ./check " + ctx.prop + " --tier " + ctx.tier
    )
    cov["trusted_base"] = ctx.trusted
    cov["broken"] = [b["what"] for b in ctx.broken]
    cov["known_findings_reproduced"] = ctx.known_hits
    cov["notes"] = ctx.notes
    ev = {
        "property_id": ctx.prop,
        "tier": ctx.tier,
        "seed": ctx.seed,
        "level": meta["level"],
        "coverage": cov,
        "assumptions": ctx.assumptions,
        "wall_s": round(ctx.elapsed(), 2),
        "violations": nviol,
    }
    EVIDENCE.mkdir(exist_ok=True)
    (EVIDENCE / f"{ctx.prop}.json").write_text(json.dumps(ev, indent=1, default=str) + "\n")
    for ln in lines:
        print(ln)
    print(
        f"[{ctx.prop}] tier={ctx.tier} seed={ctx.seed} obligations={len(ctx.obligations)} "
        f"discharged={len(ctx.discharged)} corr_cases={cov['correspondence_cases']} "
        f"evaluations={cov['evaluations']} distinct_nontrivial={cov['distinct_nontrivial']} "
        f"violations={nviol} wall={ev['wall_s']}s -> exit {rc}"
    )
    ctx.cleanup()
    return rc


# --------------------------------------------------------------------------
# the standard proof stage


def proof_stage(ctx: Ctx, prop_file: str, theorems: list[str], allowed_axioms: list[str], extra_targets=()):
    """Build Properties/<prop_file>.vo, audit sources and Print Assumptions.

    `theorems` = names expected to be printed (in order) by Print Assumptions in
    the property file. Each is one obligation."""
    vfile = COQ / "Properties" / f"{prop_file}.v"
    ctx.obligations.extend(theorems)
    res = coq_make([f"Properties/{prop_file}.vo", *extra_targets])
    if not res.ok:
        ctx.broke(
            "proof-broken",
            f"{res.failed_file or 'build'}:{res.failed_decl or '?'}",
            res.describe(),
        )
        return False
    srcs = transitive_sources(vfile)
    bad = audit_sources(srcs)
    if bad:
        ctx.broke("proof-broken", "audit: forbidden tokens", "\n".join(bad))
        return False
    rc, out = coqc_file(vfile)
    if rc != 0:
        ctx.broke("proof-broken", f"Properties/{prop_file}.v", out[-1500:])
        return False
    # property file must contain only Theorem/exact/Print Assumptions
    ptxt = strip_coq_comments(vfile.read_text())
    printed = re.findall(r"Print Assumptions\s+([\w.']+)\s*\.", ptxt)
    missing = [t for t in theorems if t not in printed]
    if missing:
        ctx.broke("proof-broken", "property theorems missing from property file", ", ".join(missing))
        return False
    ass = parse_assumptions(out)
    if len(ass) != len(printed):
        ctx.broke("proof-broken", "Print Assumptions output not parsed", out[-1500:])
        return False
    ok = True
    for name, axs in zip(printed, ass):
        ctx.axioms[name] = axs
        extra = [a for a in axs if not any(a == al or a.endswith("." + al) for al in allowed_axioms)]
        if extra:
            ctx.broke("proof-broken", f"{name}: unexpected axioms", ", ".join(extra))
            ok = False
        elif name in theorems:
            ctx.discharged.append(name)
    if ctx.thorough and ok and os.environ.get("VERIF_NO_COQCHK") != "1":
        ok = coqchk_stage(ctx, prop_file, allowed_axioms) and ok
    if allowed_axioms:
        ctx.trusted.append("standard-library axioms allowed for this property: " + ", ".join(allowed_axioms))
    ctx.trusted.append(f"Coq sources audited ({len(srcs)} files): no Admitted/admit/Axiom/Parameter/Conjecture, no global Variable/Hypothesis, no disabled checks")
    return ok


# axioms that coqchk lists for the LOADED LIBRARIES (not necessarily used by a theorem):
# the standard library's real-number / classical / extensionality axioms.
LIB_AXIOM_RE = re.compile(
    r"^(Coq\.Reals\.|Coq\.Logic\.(Classical|FunctionalExtensionality|ProofIrrelevance|Eqdep|JMeq|"
    r"ClassicalEpsilon|ClassicalFacts|ChoiceFacts|Epsilon|IndefiniteDescription|PropExtensionality|ClassicalDescription|ClassicalChoice|ClassicalUniqueChoice|Description|Diaconescu|RelationalChoice)|"
    r"Coq\.(Floats|Numbers\.Cyclic\.Int63|Array|Strings\.PrimString)\.)"
)


def coqchk_stage(ctx: Ctx, prop_file: str, allowed_axioms: list[str], timeout: int = 2400) -> bool:
    """Independent re-check of the property's compiled file and everything it
    depends on (thorough tier): coqchk -o, axiom summary parsed."""
    try:
        p = subprocess.run(
            ["timeout", str(timeout), "coqchk", "-silent", "-o", "-Q", ".", LOGICAL, f"{LOGICAL}.Properties.{prop_file}"],
            cwd=COQ,
            capture_output=True,
            text=True,
        )
    except Exception as e:  # pragma: no cover
        ctx.broke("proof-broken", "coqchk could not run", str(e))
        return False
    out = p.stdout + p.stderr
    if p.returncode != 0:
        ctx.broke("proof-broken", f"coqchk rejects Properties/{prop_file}.vo (rc={p.returncode})", out[-2000:])
        return False
    m = re.search(r"\* Axioms:(.*?)\n\s*\n\* Constants/Inductives relying on type-in-type:(.*?)\n\s*\n\* Constants/Inductives relying on unsafe \(co\)fixpoints:(.*?)\n\s*\n\* Inductives whose positivity is assumed:(.*?)\n", out, re.S)
    if not m:
        ctx.broke("proof-broken", "coqchk summary not parsed", out[-1500:])
        return False
    axioms = [a.strip() for a in m.group(1).split("\n") if a.strip() and a.strip() != "<none>"]
    unsafe = [x.strip() for g in (2, 3, 4) for x in m.group(g).split("\n") if x.strip() and x.strip() != "<none>"]
    ours = [a for a in axioms if a.startswith(LOGICAL + ".")]
    foreign = [
        a
        for a in axioms
        if not a.startswith(LOGICAL + ".")
        and not LIB_AXIOM_RE.match(a)
        and not any(a == al or a.endswith("." + al) for al in allowed_axioms)
    ]
    ok = True
    if ours or unsafe:
        ctx.broke("proof-broken", "coqchk: axioms or unchecked definitions in the development", "\n".join(ours + unsafe))
        ok = False
    if foreign:
        ctx.broke("proof-broken", "coqchk: unexpected library axioms in the loaded context", "\n".join(foreign))
        ok = False
    ctx.cov["coqchk"] = {"axioms_in_loaded_context": axioms, "unsafe": unsafe, "ok": ok}
    ctx.trusted.append(
        "coqchk -o re-checked the property's .vo and its dependencies; axioms of the loaded libraries: "
        + (", ".join(axioms) if axioms else "none")
    )
    return ok
