"""Monitor of the cell list on real pdb2pqr histories (C14, discipline half).

Monkeypatches (only while active): Cells.{assign_cells,add_cell,remove_cell,
get_near_cells}, structures.Atom.__setattr__ (x/y/z writes), Residue.remove_atom.
Every get_near_cells answer is compared with a brute-force search over the
atoms currently in the biomolecule; each discrepancy is diagnosed to the call
site of the undisciplined operation that caused it.
"""

import sys
from contextlib import contextmanager

PRIMS = {"add_cell", "remove_cell", "get_near_cells", "assign_cells", "__setattr__", "remove_atom", "create_atom", "rotate_tetrahedral", "set_dihedral_angle", "add_atom", "wrapper", "_w_setattr", "_w_remove_atom", "_w_add", "_w_remove", "_w_query", "_w_assign", "_w_atom_init", "ev"}


def call_site(skip_prims=True, depth=2):
    f = sys._getframe(depth)
    while f is not None:
        code = f.f_code
        fn = code.co_filename
        if "/pdb2pqr/" in fn and not (skip_prims and code.co_name in PRIMS):
            mod = fn.split("/pdb2pqr/")[-1][:-3].replace("/", ".")
            return f"{mod}.{getattr(code, 'co_qualname', code.co_name)}"
        f = f.f_back
    return "?"


def key_of(size, x, y, z):
    def k(v):
        return (int(v) - 1) // size * size if v < 0 else int(v) // size * size

    return (k(x), k(y), k(z))


# ---- use sites: which atom is a returned block of neighbours used for -------------------
# A get_near_cells result is handed back as a NearList that remembers the atom it was queried
# for.  Every use site iterates the block with the subject atom in a local variable; when an
# iteration starts, the monitor compares "what the block contains" with a brute-force search
# around the SUBJECT within the cutoff that site applies (never more than the cell size).
USE_SITES = {
    # code name of the function that iterates the block: (local variable holding the subject, cutoff or None = cell size)
    # third entry: partners the site discards before looking at the distance ("residue" = atoms of the
    # subject's own residue, "bonded" = same residue and bonded to the subject); they do not count
    "optimize_hydrogens": ("atom", 4.3, "residue"),
    "find_nearby_atoms": ("atom", "bump", "bonded"),
    "get_bump_score_atom": ("atom", "bump", "bonded"),
    "get_closest_atom": ("atom", None, "residue"),
    "finalize": (("bondedatom", "atom"), None, None),  # Carboxylic.finalize / Alcoholic.finalize
}


class NearList(list):
    __slots__ = ("q_atom", "q_cells", "q_tick", "q_mon")

    def __iter__(self):
        m = self.q_mon
        if m is not None and m.active:
            try:
                m.use(self, sys._getframe(1))
            except Exception as e:  # the monitor must never change the run
                m.use_errors.append(f"{type(e).__name__}: {e}")
        return list.__iter__(self)


class CellMonitor:
    def __init__(self, max_bruteforce=None):
        self.queries = 0
        self.misses = []  # dicts
        self.ghosts = []
        self.ops = {"add": 0, "remove": 0, "query": 0, "assign": 0, "write_registered": 0, "removed_registered": 0, "double_add": 0}
        self.sites_hist = {}
        self.biomol = {}  # id(cells) -> biomolecule
        self.last_write = {}  # id(atom) -> site of last coordinate write while registered
        self.last_unreg = {}  # id(atom) -> site of last remove_cell
        self.removed = {}  # id(atom) -> site of residue removal while registered
        self.trace = []  # (op, atom-id, ...) for model replay (bounded)
        self.trace_limit = 200000
        self.atom_ids = {}
        self.max_bruteforce = max_bruteforce
        self.nontrivial_queries = 0
        # latent breaches: atoms whose registration no longer matches the structure. They make SOME
        # query answer wrong for as long as the same Cells object keeps being queried, whether or not
        # a query near them is actually issued.
        self.stale_removed = {}  # id(atom) -> (atom, site)
        self.stale_moved = {}  # id(atom) -> (atom, site)
        self.latent = []
        self._latent_seen = set()
        # call-site event log for the protocol-shape check (c14.py): (letter, atom id, site)
        #   A add   B add of a registered atom   R remove   W write (unregistered atom)
        #   X write on a REGISTERED atom   Q query   N new Atom object   D remove_atom (unregistered)
        #   G remove_atom of a REGISTERED atom   S assign_cells
        # use-site check
        self.active = False
        self.tick = 0  # bumped by every add/remove/coordinate write/atom creation or removal
        self.uses = 0
        self.uses_checked = 0  # uses that needed a fresh brute-force search
        self.uses_other_atom = 0  # block queried for one atom, used for another
        self.use_findings = []
        self.use_unknown = {}
        self.use_errors = []
        self._use_seen = set()
        self.events = []
        self.events_limit = 400000
        self.record_events = True

    def ev(self, letter, atom, site=None):
        if self.record_events and len(self.events) < self.events_limit:
            self.events.append((letter, self.aid(atom) if atom is not None else -1, site if site is not None else call_site(skip_prims=True, depth=3)))

    def use(self, block, frame):
        """A block of neighbours starts being iterated in `frame`."""
        self.uses += 1
        code = frame.f_code
        spec = USE_SITES.get(code.co_name) if "/pdb2pqr/" in code.co_filename else None
        fn = code.co_filename
        site = f"{fn.split('/pdb2pqr/')[-1][:-3].replace('/', '.').replace('hydrogens.__init__', 'hydrogens')}.{getattr(code, 'co_qualname', code.co_name)}" if "/pdb2pqr/" in fn else code.co_name
        if spec is None:
            if "/pdb2pqr/" in fn and code.co_name != "get_near_cells":
                self.use_unknown[site] = self.use_unknown.get(site, 0) + 1
            return
        var, cutoff, skip = spec
        subject = None
        for v in (var if isinstance(var, tuple) else (var,)):
            if v in frame.f_locals:
                subject = frame.f_locals[v]
                break
        if subject is None:
            self.use_unknown[site + ":no-subject"] = self.use_unknown.get(site + ":no-subject", 0) + 1
            return
        same = subject is block.q_atom
        if not same:
            self.uses_other_atom += 1
        if same and block.q_tick == self.tick:
            return  # nothing changed since the query, which was itself compared with brute force
        cells = block.q_cells
        bio = self.biomol.get(id(cells))
        if bio is None or getattr(subject, "cell", None) is None:
            return
        size = float(cells.cellsize)
        if cutoff == "bump":
            from pdb2pqr.config import BUMP_HEAVY_SIZE

            cutoff = 2.0 * BUMP_HEAVY_SIZE
        cut = min(size, cutoff) if cutoff is not None else size
        self.uses_checked += 1
        have = {id(b) for b in block}
        sx, sy, sz = subject.x, subject.y, subject.z
        c2 = cut * cut
        for residue in bio.residues:
            for b in residue.atoms:
                if b is subject or id(b) in have:
                    continue
                if skip == "residue" and b.residue is subject.residue:
                    continue
                if skip == "bonded" and b.residue is subject.residue and (b in subject.bonds or subject in b.bonds):
                    continue
                dx, dy, dz = b.x - sx, b.y - sy, b.z - sz
                d2 = dx * dx + dy * dy + dz * dz
                if d2 < c2:
                    key = (site, same)
                    if key in self._use_seen and len(self.use_findings) >= 3:
                        continue
                    self._use_seen.add(key)
                    self.use_findings.append({
                        "site": site, "condition": "partner-within-cutoff-not-examined",
                        "atom": _name(subject), "atom_xyz": [sx, sy, sz], "partner": _name(b), "partner_xyz": [b.x, b.y, b.z],
                        "distance": d2 ** 0.5, "cutoff": cut, "block_queried_for": _name(block.q_atom),
                        "why": "block was queried for another atom" if not same else "structure changed between query and use",
                    })

    def aid(self, atom):
        i = self.atom_ids.get(id(atom))
        if i is None:
            i = len(self.atom_ids)
            self.atom_ids[id(atom)] = i
            self._keep = getattr(self, "_keep", [])
            self._keep.append(atom)  # keep alive so ids stay unique
        return i

    def log(self, *ev):
        if len(self.trace) < self.trace_limit:
            self.trace.append(ev)

    def hist(self, kind, site):
        k = f"{kind}@{site}"
        self.sites_hist[k] = self.sites_hist.get(k, 0) + 1


@contextmanager
def monitor(mon: CellMonitor):
    from pdb2pqr import cells as pcells
    from pdb2pqr import residue as presidue
    from pdb2pqr import structures as pstruct

    C = pcells.Cells
    o_assign, o_add, o_remove, o_query = C.assign_cells, C.add_cell, C.remove_cell, C.get_near_cells
    o_setattr = pstruct.Atom.__setattr__ if "__setattr__" in pstruct.Atom.__dict__ else None
    o_remove_atom = presidue.Residue.remove_atom
    o_atom_init = pstruct.Atom.__init__

    def _w_atom_init(self, *a, **k):
        mon.tick += 1
        r = o_atom_init(self, *a, **k)
        if mon.ops["assign"]:
            mon.ev("N", self)
        return r

    def _w_assign(self, biomolecule):
        mon.biomol[id(self)] = biomolecule
        mon.ops["assign"] += 1
        mon.log("assign", id(self), self.cellsize)
        mon.ev("S", None)
        return o_assign(self, biomolecule)

    def _w_add(self, atom):
        mon.tick += 1
        mon.ops["add"] += 1
        if getattr(atom, "cell", None) is not None:
            mon.ops["double_add"] += 1
            mon.hist("double-add", call_site())
            mon.ev("B", atom)
        else:
            mon.ev("A", atom)
        r = o_add(self, atom)
        mon.log("add", mon.aid(atom), atom.x, atom.y, atom.z)
        return r

    def _w_remove(self, atom):
        mon.tick += 1
        mon.ops["remove"] += 1
        if getattr(atom, "cell", None) is not None:
            mon.last_unreg[id(atom)] = call_site()
        mon.log("remove", mon.aid(atom))
        mon.ev("R", atom)
        return o_remove(self, atom)

    def _w_query(self, atom):
        res = NearList(o_query(self, atom))
        res.q_atom, res.q_cells, res.q_tick, res.q_mon = atom, self, mon.tick, mon
        mon.ops["query"] += 1
        mon.queries += 1
        bio = mon.biomol.get(id(self))
        mon.log("query", mon.aid(atom), tuple(mon.aid(b) for b in res))
        mon.ev("Q", atom)
        if bio is None or getattr(atom, "cell", None) is None:
            return res
        size = self.cellsize
        ax, ay, az = atom.x, atom.y, atom.z
        s2 = float(size) * float(size)
        current = {}
        want = []
        for residue in bio.residues:
            for b in residue.atoms:
                current[id(b)] = b
                if b is atom:
                    continue
                dx, dy, dz = b.x - ax, b.y - ay, b.z - az
                if dx * dx + dy * dy + dz * dz < s2:
                    want.append(b)
        got = {id(b) for b in res}
        if want:
            mon.nontrivial_queries += 1
        qsite = call_site()
        for gid, (g, site) in list(mon.stale_removed.items()):
            if gid in current or g.__dict__.get("cell") is None:
                mon.stale_removed.pop(gid, None)  # back in the structure, or unregistered meanwhile
            elif g in self.cellmap.get(g.cell, []) and (site, "ghost") not in mon._latent_seen:
                mon._latent_seen.add((site, "ghost"))
                mon.latent.append({"kind": "latent-ghost", "cause": "removed-from-residue-while-registered", "site": site, "atom": _name(g), "query": qsite})
        for mid, (m, site) in list(mon.stale_moved.items()):
            c = m.__dict__.get("cell")
            if c is None or c == key_of(size, m.x, m.y, m.z):
                mon.stale_moved.pop(mid, None)
            elif mid in current and m in self.cellmap.get(c, []) and (site, "miss") not in mon._latent_seen:
                mon._latent_seen.add((site, "miss"))
                mon.latent.append({"kind": "latent-miss", "cause": "moved-while-registered", "site": site, "atom": _name(m), "query": qsite})
        for b in want:
            if id(b) not in got:
                mon.misses.append(diagnose_miss(mon, self, atom, b, qsite))
        for b in res:
            if id(b) not in current:
                mon.ghosts.append(diagnose_ghost(mon, self, atom, b, qsite))
        return res

    def _w_setattr(self, name, value):
        if name in ("x", "y", "z"):
            mon.tick += 1
        if name in ("x", "y", "z") and self.__dict__.get("cell") is not None and self.__dict__.get(name) != value:
            mon.ops["write_registered"] += 1
            mon.last_write[id(self)] = call_site()
            mon.hist("write-registered", mon.last_write[id(self)])
            mon.log("write", mon.aid(self), name, value)
            mon.stale_moved[id(self)] = (self, mon.last_write[id(self)])
            mon.ev("X", self, mon.last_write[id(self)])
        elif name in ("x", "y", "z") and id(self) in mon.atom_ids:
            mon.log("write", mon.aid(self), name, value)
            if "cell" in self.__dict__:
                mon.ev("W", self)
        if o_setattr:
            o_setattr(self, name, value)
        else:
            object.__setattr__(self, name, value)

    def _w_remove_atom(self, atomname):
        mon.tick += 1
        atom = self.map.get(atomname)
        if atom is not None and getattr(atom, "cell", None) is not None:
            mon.ops["removed_registered"] += 1
            mon.removed[id(atom)] = call_site()
            mon.hist("removed-registered", mon.removed[id(atom)])
            mon.aid(atom)
            mon.stale_removed[id(atom)] = (atom, mon.removed[id(atom)])
            mon.ev("G", atom, mon.removed[id(atom)])
        elif atom is not None and mon.ops["assign"]:
            mon.ev("D", atom)
        return o_remove_atom(self, atomname)

    C.assign_cells, C.add_cell, C.remove_cell, C.get_near_cells = _w_assign, _w_add, _w_remove, _w_query
    pstruct.Atom.__setattr__ = _w_setattr
    presidue.Residue.remove_atom = _w_remove_atom
    pstruct.Atom.__init__ = _w_atom_init
    mon.active = True
    try:
        yield mon
    finally:
        mon.active = False
        C.assign_cells, C.add_cell, C.remove_cell, C.get_near_cells = o_assign, o_add, o_remove, o_query
        if o_setattr:
            pstruct.Atom.__setattr__ = o_setattr
        else:
            del pstruct.Atom.__setattr__
        presidue.Residue.remove_atom = o_remove_atom
        pstruct.Atom.__init__ = o_atom_init


def _name(atom):
    r = getattr(atom, "residue", None)
    return f"{getattr(r, 'name', '?')}{getattr(r, 'res_seq', '')}:{atom.name}"


def diagnose_miss(mon, cells, a, b, qsite):
    size = cells.cellsize
    if b.cell is None:
        site = mon.last_unreg.get(id(b))
        if site is None:
            return {"kind": "miss", "cause": "never-registered", "site": "?", "atom": _name(b), "query": qsite}
        return {"kind": "miss", "cause": "unregistered-but-present", "site": site, "atom": _name(b), "query": qsite}
    if b.cell != key_of(size, b.x, b.y, b.z):
        return {"kind": "miss", "cause": "moved-while-registered", "site": mon.last_write.get(id(b), "?"), "atom": _name(b), "query": qsite}
    if a.cell != key_of(size, a.x, a.y, a.z):
        return {"kind": "miss", "cause": "moved-while-registered", "site": mon.last_write.get(id(a), "?"), "atom": _name(a), "query": qsite}
    if b not in cells.cellmap.get(b.cell, []):
        return {"kind": "miss", "cause": "cell-list-corrupt", "site": mon.last_unreg.get(id(b), "?"), "atom": _name(b), "query": qsite}
    return {"kind": "miss", "cause": "bucket-or-scan", "site": "cells.Cells", "atom": _name(b), "query": qsite}


def diagnose_ghost(mon, cells, a, g, qsite):
    site = mon.removed.get(id(g))
    if site is not None:
        return {"kind": "ghost", "cause": "removed-from-residue-while-registered", "site": site, "atom": _name(g), "query": qsite}
    return {"kind": "ghost", "cause": "listed-but-not-in-biomolecule", "site": "?", "atom": _name(g), "query": qsite}
