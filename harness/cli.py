"""Command line of /verif/check (see DESIGN.md 2.3 for the decision protocol)."""

import argparse
import importlib
import json
import os
import sys
import traceback
from pathlib import Path

sys.path.insert(0, str(Path(__file__).resolve().parent.parent))
from harness import core  # noqa: E402


def load(prop):
    return importlib.import_module(f"harness.props.{prop.lower()}")


def run_one(prop, tier, seed, replay=None):
    core.ensure_generated()
    mod = load(prop)
    ctx = core.Ctx(prop, tier, seed)
    try:
        if replay:
            data = json.loads(Path(replay).read_text())
            return mod.replay(ctx, data)
        mod.run(ctx)
    except Exception as e:  # a crash of the machinery is a broken check, reported as such
        ctx.broke("harness-error", f"{type(e).__name__}: {e}", traceback.format_exc())
    finally:
        pass
    return core.finish(ctx, mod.META)


def main():
    import logging

    logging.getLogger().addHandler(logging.NullHandler())
    logging.getLogger().setLevel(logging.ERROR)
    ap = argparse.ArgumentParser()
    ap.add_argument("prop")
    ap.add_argument("--tier", default=os.environ.get("VERIF_TIER", "quick"), choices=["quick", "thorough"])
    ap.add_argument("--replay")
    ap.add_argument("--seed", type=int, default=int(os.environ.get("VERIF_SEED", "0")))
    a = ap.parse_args()
    if os.environ.get("VERIF_TIER") in ("quick", "thorough") and "--tier" not in sys.argv:
        a.tier = os.environ["VERIF_TIER"]
    if a.prop == "all":
        rc = 0
        for p in sorted(x.stem.upper() for x in (core.VERIF / "harness" / "props").glob("c[0-9]*.py")):
            rc |= run_one(p, a.tier, a.seed)
        sys.exit(rc)
    sys.exit(run_one(a.prop.upper(), a.tier, a.seed, a.replay))


if __name__ == "__main__":
    main()
