#!/bin/bash
# usage: thorough_all.sh props...   (thorough tier, seed 0, 3 at a time; logs in /tmp/th)
cd /verif; mkdir -p /tmp/th
for p in "$@"; do echo "$p"; done | xargs -P 3 -L 1 bash -c 'VERIF_SEED=0 timeout 5400 ./check $0 --tier thorough > /tmp/th/$0.log 2>&1; echo "$0 thorough rc=$? $(tail -1 /tmp/th/$0.log | cut -c1-160)" >> /tmp/th/summary.txt'
