#!/bin/bash
# tools/commit_excl.sh "<message>" [PROP ...]  - commit everything except files owned by the listed
# properties (work in progress by a sub-agent); known_findings.json is merged with HEAD's fragments for them.
set -e
cd /verif
MSG=$1; shift
declare -A OWN
OWN[C02]="coq/Model/States.v coq/Proofs/States.v coq/Properties/C02.v gen/states.py"
OWN[C03]="coq/Model/NameProtocol.v coq/Proofs/NameProtocol.v coq/Properties/C03.v gen/c03_table.py"
OWN[C05]="coq/Model/Placement.v coq/Proofs/Placement.v coq/Properties/C05.v gen/c05_table.py"
OWN[C06]="coq/Model/Titration.v coq/Proofs/Titration.v coq/Properties/C06.v gen/titration.py"
OWN[C07]="coq/Model/Group.v coq/Model/PdbRead.v coq/Model/PdbSpec.v coq/Proofs/Group.v coq/Proofs/Ingest.v coq/Proofs/PdbRead.v coq/Proofs/C07Witness.v coq/Properties/C07.v"
OWN[C08]="coq/Model/PqrFormat.v coq/Proofs/PqrFormat.v coq/Properties/C08.v"
OWN[C09]="coq/Proofs/StagesC09.v coq/Proofs/PipelineC09.v coq/Proofs/PqrFormatC09.v coq/Properties/C09.v"
OWN[C10]="coq/Model/CifLine.v coq/Proofs/CifLine.v coq/Properties/C10.v"
OWN[C12]="coq/Proofs/StagesC12.v coq/Proofs/PipelineC12.v coq/Properties/C12.v"
OWN[C16]="coq/Model/Peoe.v coq/Proofs/Peoe.v coq/Properties/C16.v"
OWN[C17]="coq/Model/Psize.v coq/Proofs/Psize.v coq/Properties/C17.v"
/venv/bin/python tools/mkknown.py >/dev/null
/venv/bin/python tools/mkmanifest.py
/venv/bin/python tools/mkstatus.py >/dev/null
git add -A
HOLD=""
for P in "$@"; do
  p=$(echo $P | tr A-Z a-z)
  for f in ${OWN[$P]:-} harness/props/$p.py known/$P.json corpus/$P notes/$P.md evidence/$P.json; do
    git reset -q -- $f 2>/dev/null || true
  done
  HOLD="$HOLD $P"
done
if [ -n "$HOLD" ]; then
  cp known_findings.json /tmp/known_work.json
  /venv/bin/python - $HOLD <<'PY'
import json,subprocess,sys
from pathlib import Path
hold=set(sys.argv[1:]); out=[]
for f in sorted(Path('/verif/known').glob('*.json')):
    if f.stem in hold:
        try: txt=subprocess.check_output(['git','-C','/verif','show',f'HEAD:known/{f.stem}.json'],text=True,stderr=subprocess.DEVNULL)
        except subprocess.CalledProcessError: continue
        out.extend(json.loads(txt)['findings'])
    else: out.extend(json.loads(f.read_text())['findings'])
Path('/verif/known_findings.json').write_text(json.dumps({'findings':out},indent=1)+'\n')
PY
  git add known_findings.json
fi
git commit -qm "$MSG"
[ -n "$HOLD" ] && cp /tmp/known_work.json known_findings.json
git log --oneline | head -1
