"""Regenerate /verif/MANIFEST.json from the META of each harness/props/cXX.py."""
import importlib
import json
import sys
from pathlib import Path

ROOT = Path(__file__).resolve().parent.parent
sys.path.insert(0, str(ROOT))
ALL = [f"C{n:02d}" for n in range(1, 19)]
NA_REASONS = json.loads((ROOT / "tools" / "not_applicable.json").read_text())
BASE = json.loads(Path("/root/.vp/BASELINE.json").read_text())["cmd"] if Path("/root/.vp/BASELINE.json").exists() else ""

READY = set((ROOT / "tools" / "ready.txt").read_text().split())
checks, na = [], []
for p in ALL:
    f = ROOT / "harness" / "props" / f"{p.lower()}.py"
    if not f.exists() or p not in READY:
        na.append({"property_id": p, "reason": NA_REASONS.get(p, "no check built yet (work in progress; see DESIGN.md 4 for the planned model)")})
        continue
    m = importlib.import_module(f"harness.props.{p.lower()}").META
    checks.append(
        {
            "property_id": p,
            "quick_cmd": f"./check {p} --tier quick",
            "thorough_cmd": f"./check {p} --tier thorough",
            "evidence_file": f"/verif/evidence/{p}.json",
            "replay_cmd_template": f"./check {p} --replay {{path}}",
            "engine": "coq-model+correspondence",
            "level_claimed": {"category": m["level"], "text": m["level_text"], "design_ref": m["design_ref"]},
            "level_note": m["level_note"],
            "technique": m["technique"],
        }
    )
man = {
    "version": 1,
    "setup_cmd": "./setup.sh",
    "hooks": {
        "guard": "PDB2PQR_VERIF",
        "enable": "environment only: no source hooks in /repo; monitors are monkeypatches applied by /verif/harness when PDB2PQR_VERIF=1",
        "baseline_off_cmd": "cd /repo && /venv/bin/python -m pytest -ra -q -p no:cacheprovider --timeout=900 --continue-on-collection-errors",
        "source_commits": [],
        "add_only": True,
    },
    "engines": [
        {
            "name": "coq-model+correspondence",
            "path": "/verif/check",
            "serves_properties": [c["property_id"] for c in checks],
            "kind_free_text": "Coq 8.16.1 theorems about executable Gallina models (hand-written or regenerated from /repo), tied to the code on every run by differential execution (vm_compute vs the Python implementation) and by generated tables; plus model-independent oracles searching for failing inputs",
        }
    ],
    "checks": checks,
    "not_applicable": na,
    "notes": "See DESIGN.md. VERIF_SEED seeds the single PRNG; VERIF_TIER overrides --tier.",
}
(ROOT / "MANIFEST.json").write_text(json.dumps(man, indent=1) + "\n")
print(f"{len(checks)} checks, {len(na)} not_applicable")
