#!/bin/bash
# usage: fresh_all.sh [setup|nosetup] props...  : each property alone in a fresh `git archive HEAD` copy of /verif
# against /repo (what a fresh restore sees). Logs in /tmp/fr.
MODE=$1; shift
mkdir -p /tmp/fr
for p in "$@"; do echo "$p"; done | xargs -P 3 -L 1 bash -c '
P=$0; D=$(mktemp -d /tmp/fr_${P}_XXXX); mkdir -p $D/verif; git -C /verif archive HEAD | tar -x -m -C $D/verif; cd $D/verif
if [ "'$MODE'" = setup ]; then timeout 3000 ./setup.sh > $D/setup.txt 2>&1; fi
VERIF_REPO=/repo VERIF_SEED=0 timeout 3000 ./check $P --tier quick > $D/out.txt 2>&1; rc=$?
echo "$P fresh-'$MODE' rc=$rc $(tail -1 $D/out.txt | cut -c1-150)" >> /tmp/fr/summary.txt
grep -E "^VIOLATION" $D/out.txt | head -3 >> /tmp/fr/summary.txt
cp $D/out.txt /tmp/fr/$P.'$MODE'.txt; cd /; rm -rf $D'
