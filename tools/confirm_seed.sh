#!/bin/bash
# tools/confirm_seed.sh <PROP> <name> <worktree> <outdir-with patch.diff,demo.py,meta.json> [mode]
# 1. confirm the seeded change myself in the scratch worktree: baseline passes, demo FAILS with
#    the change and PASSES without it;  2. run the check (isolated copy of /verif) against it;
# 3. store everything under /verif/seeded/<name>/ .
set -u
P=$1; NAME=$2; WT=$3; OUT=$4; MODE=${5:-head}
DST=/verif/seeded/$NAME; mkdir -p $DST
cp $OUT/patch.diff $OUT/demo.py $DST/ 2>/dev/null
LOG=$DST/confirm.log; : > $LOG
cd $WT
git checkout -q -- . ; git stash list >/dev/null
cp $OUT/demo.py $WT/demo.py
echo "## demo on unchanged tree" >> $LOG
timeout 1200 /venv/bin/python demo.py >> $LOG 2>&1; rc_clean=$?
echo "rc=$rc_clean" >> $LOG
git apply $OUT/patch.diff || { echo "patch does not apply" >> $LOG; exit 2; }
echo "## demo on changed tree" >> $LOG
timeout 1200 /venv/bin/python demo.py >> $LOG 2>&1; rc_seed=$?
echo "rc=$rc_seed" >> $LOG
rm -f $WT/demo.py
echo "## baseline on changed tree" >> $LOG
VERIF_REPO=$WT timeout 1500 /venv/bin/python /verif/tools/baseline.py >> $LOG 2>&1; rc_base=$?
echo "rc=$rc_base" >> $LOG
echo "## check (quick, seed 0, /verif $MODE) against changed tree" >> $LOG
/verif/tools/try_seed.sh $P $WT quick 0 $MODE > $DST/check_quick.txt 2>&1
caught=$(grep -c "^VIOLATION property=$P" $DST/check_quick.txt)
head -c 3000 $DST/check_quick.txt >> $LOG
/venv/bin/python - "$P" "$NAME" "$OUT" "$DST" "$rc_clean" "$rc_seed" "$rc_base" "$caught" <<'PY'
import json,sys
P,NAME,OUT,DST,rc_clean,rc_seed,rc_base,caught=sys.argv[1:]
try: meta=json.load(open(OUT+"/meta.json"))
except Exception: meta={}
meta.update({"property":P,"name":NAME,
 "confirmed":{"demo_passes_on_unchanged_tree":rc_clean=="0","demo_fails_on_changed_tree":rc_seed not in("0",),"baseline_passes_on_changed_tree":rc_base=="0"},
 "check_quick_violation_lines":int(caught),
 "what_i_ran":["demo.py on the unchanged worktree (rc=%s)"%rc_clean,"git apply patch.diff; demo.py (rc=%s)"%rc_seed,"tools/baseline.py (151 pinned tests) on the changed tree (rc=%s)"%rc_base,"tools/try_seed.sh %s <worktree> quick 0 -> %s VIOLATION line(s), see check_quick.txt"%(P,caught)]})
json.dump(meta,open(DST+"/meta.json","w"),indent=1)
print(NAME, meta["confirmed"], "caught" if int(caught) else "MISSED")
PY
