"""Run /repo's pinned baseline (guard off) and compare with BASELINE.json stable_pass."""
import json, os, subprocess, sys, tempfile, xml.etree.ElementTree as ET
b = json.load(open("/root/.vp/BASELINE.json"))
out = tempfile.mktemp(suffix=".xml")
env = dict(os.environ); env.pop("PDB2PQR_VERIF", None); env["PYTHONHASHSEED"]="0"
extra = sys.argv[1:]
subprocess.run(["/venv/bin/python","-m","pytest","-q","-p","no:cacheprovider","--timeout=900","--continue-on-collection-errors",f"--junitxml={out}",*extra],cwd=os.environ.get("VERIF_REPO","/repo"),env=env,stdout=open("/tmp/baseline.log","w"),stderr=subprocess.STDOUT)
passed=set()
for tc in ET.parse(out).getroot().iter("testcase"):
    if not any(c.tag in ("failure","error","skipped") for c in tc):
        passed.add(f"{tc.get('classname')}::{tc.get('name')}")
os.unlink(out)
want=set(b["stable_pass"])
missing=sorted(want-passed)
print(f"baseline stable_pass={len(want)} passed_now={len(passed)} missing={len(missing)}")
for m in missing[:20]: print("  MISSING", m)
sys.exit(1 if missing else 0)
