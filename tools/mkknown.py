"""Merge known/Cxx.json fragments into /verif/known_findings.json (the single
committed known-findings file read by the checks). Run by hand, never by a check."""
import json
from pathlib import Path

ROOT = Path(__file__).resolve().parent.parent
out = []
for f in sorted((ROOT / "known").glob("*.json")):
    out.extend(json.loads(f.read_text())["findings"])
ids = [x["id"] for x in out]
assert len(ids) == len(set(ids)), "duplicate finding ids"
(ROOT / "known_findings.json").write_text(json.dumps({"findings": out}, indent=1) + "\n")
print(len(out), "findings")
