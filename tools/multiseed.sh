#!/bin/bash
# usage: multiseed.sh "seeds" props...
cd /verif
seeds=$1; shift
for s in $seeds; do for p in "$@"; do echo "$p $s"; done; done | xargs -P 3 -L 1 bash -c 'VERIF_SEED=$1 timeout 1800 ./check $0 > /tmp/ms/$0.s$1.log 2>&1; echo "$0 seed=$1 rc=$?" >> /tmp/ms/summary.txt'
