"""Regenerate the machine-written part of DESIGN.md (section 11, between the markers
<!-- STATUS:BEGIN --> and <!-- STATUS:END -->) from the check modules' META/THEOREMS,
known_findings.json and seeded/*/meta.json. Hand-written text lives outside the markers."""
import importlib
import json
import sys
from pathlib import Path

ROOT = Path(__file__).resolve().parent.parent
sys.path.insert(0, str(ROOT))
READY = set((ROOT / "tools" / "ready.txt").read_text().split())
known = json.loads((ROOT / "known_findings.json").read_text())["findings"]
out = []
nseeds = len(list((ROOT / "seeded").glob("*/meta.json")))
out.append(f"Seeded changes stored: {nseeds}.")
out.append("")
out.append("| id | in manifest | level | property theorems (Print Assumptions audited) | findings (known / fixed) | seeded changes (caught/total) |")
out.append("|---|---|---|---|---|---|")
details = []
for n in range(1, 19):
    p = f"C{n:02d}"
    f = ROOT / "harness" / "props" / f"{p.lower()}.py"
    kn = [k for k in known if k["property"] == p]
    nk = [k["id"] for k in kn if k["status"] == "known"]
    nf = [k["id"] for k in kn if k["status"] == "fixed"]
    seeds = sorted((ROOT / "seeded").glob(f"{p}-*/meta.json"))
    sm = [json.loads(s.read_text()) for s in seeds]
    caught = sum(1 for m in sm if m.get("check_quick_violation_lines", 0) > 0 or m.get("caught_by"))
    if not f.exists():
        out.append(f"| {p} | no | - | - | {', '.join(nk) or '-'} / {', '.join(nf) or '-'} | {caught}/{len(sm)} |")
        continue
    try:
        mod = importlib.import_module(f"harness.props.{p.lower()}")
        th = list(getattr(mod, "THEOREMS", []))
        meta = mod.META
    except Exception as e:  # module mid-edit
        out.append(f"| {p} | {'yes' if p in READY else 'no'} | ? | (module does not import: {type(e).__name__}) | | |")
        continue
    out.append(
        f"| {p} | {'yes' if p in READY else 'no'} | {meta['level']} | {len(th)} | {', '.join(nk) or '-'} / {', '.join(nf) or '-'} | {caught}/{len(sm)} |"
    )
    axs = set()
    ev = ROOT / "evidence" / f"{p}.json"
    if ev.exists():
        try:
            for v in json.loads(ev.read_text())["coverage"].get("axioms_per_theorem", {}).values():
                axs.update(v)
        except Exception:
            pass
    axline = ("*Axioms reported by `Print Assumptions` (last run).* " + (", ".join(f"`{a}`" for a in sorted(axs)) if axs else "none - every property theorem is closed under the global context") + "\n")
    details.append(f"**{p}** ({meta['level']}). {meta['level_text']}\n\n*Technique.* {meta['technique']}\n\n*Trusted / assumed.* {meta['level_note']}\n\n" + axline + "\n*Theorems.* " + ", ".join(f"`{t}`" for t in th) + "\n")
    for m in sm:
        how = m.get("caught_by") or ("quick check: VIOLATION" if m.get("check_quick_violation_lines", 0) > 0 else "MISSED by the quick check")
        details.append(f"*Seeded change `{m.get('name')}`.* {m.get('summary','')[:600]} — needs: {m.get('needs','')[:400]} — **{how}**.\n")
fl = ["### Findings on the unchanged tree (from `known_findings.json`)", "",
      "`fixed` = repaired by the named `fix:` commit in /repo (the entry suppresses nothing; the check reports the violation again if it returns); `known` = recorded, reported as `KNOWN-FINDING` with its reproduction count, any other violation of the property is still a VIOLATION.", "",
      "| id | status | commit | what |", "|---|---|---|---|"]
for k in known:
    what = k["what"].replace("|", "/")
    fl.append(f"| {k['id']} | {k['status']} | {k.get('commit', '')} | {what[:420]} |")
txt = "\n".join(out) + "\n\n" + "\n".join(fl) + "\n\n### Per property\n\n" + "\n".join(details)
d = (ROOT / "DESIGN.md").read_text()
b, e = "<!-- STATUS:BEGIN -->", "<!-- STATUS:END -->"
if b in d and e in d:
    d = d[: d.index(b) + len(b)] + "\n" + txt + "\n" + d[d.index(e) :]
    (ROOT / "DESIGN.md").write_text(d)
    print("DESIGN.md section 11 regenerated")
else:
    print(txt)
