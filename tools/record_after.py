#!/usr/bin/env python3
"""record_after.py NAME after_file "caught_by text" : record a re-evaluation of a stored seed after a strengthening."""
import json, re, shutil, sys
from pathlib import Path
name, after, text = sys.argv[1], Path(sys.argv[2]), sys.argv[3]
d = Path("/verif/seeded") / name
m = json.loads((d / "meta.json").read_text())
out = after.read_text(errors="replace")
n = len(re.findall(r"^VIOLATION property=", out, re.M))
shutil.copy(after, d / "check_quick_after_strengthening.txt")
if "check_quick_violation_lines_before_strengthening" not in m:
    m["check_quick_violation_lines_before_strengthening"] = m.get("check_quick_violation_lines", 0)
m["check_quick_violation_lines"] = n
m["caught_by"] = text
w = m.get("what_i_ran")
extra = f"after the strengthening: tools/try_seed.sh {m['property']} <worktree> quick 0 work -> {n} VIOLATION line(s), see check_quick_after_strengthening.txt"
if isinstance(w, list): w.append(extra)
else: m["what_i_ran"] = [str(w), extra]
(d / "meta.json").write_text(json.dumps(m, indent=1))
print(name, "violation lines now", n)
