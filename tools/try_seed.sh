#!/bin/bash
# tools/try_seed.sh <PROP> <tree> [tier] [seed] [work|head]
# Run ./check PROP in an ISOLATED copy of /verif against the pdb2pqr tree <tree>
# (a scratch worktree with a seeded change applied). Nothing in /verif or /repo is touched.
# mode head (default): the committed /verif (git archive HEAD), rebuilt from scratch;
# mode work: the working tree incl. build products.
set -u
P=$1; TREE=$2; TIER=${3:-quick}; SEED=${4:-0}; MODE=${5:-head}
D=$(mktemp -d /tmp/ev_${P}_XXXX)
mkdir -p $D/verif
if [ "$MODE" = work ]; then rsync -a --exclude .git --exclude replays /verif/ $D/verif/
else git -C /verif archive HEAD | tar -x -m -C $D/verif; fi
cd $D/verif
VERIF_REPO=$TREE VERIF_SEED=$SEED timeout 3000 ./check $P --tier $TIER > $D/out.txt 2>&1
rc=$?
grep -E "VIOLATION|KNOWN-FINDING|^\[$P\]" $D/out.txt | cut -c1-300
echo "rc=$rc"
for f in $(grep -o "replay=[^ ]*" $D/out.txt | cut -d= -f2 | head -3); do echo "--- $f"; head -c 1800 $f; echo; done
[ -n "${KEEP:-}" ] && echo "kept $D" || { cd /; rm -rf $D; }
