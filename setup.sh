#!/bin/bash
# MANIFEST.setup_cmd: build every Coq file that does not depend on /repo, offline.
set -e
cd "$(dirname "$0")"
export PYTHONPATH="${VERIF_REPO:-/repo}:$PWD"
mkdir -p coq/Generated evidence replays
# tables generated from /repo (regenerated again by every check)
if ls gen/*.py >/dev/null 2>&1; then
  /venv/bin/python gen/all.py || echo "setup: generators failed (checks will report)"
  # stand-alone table generators that the checks call themselves (C03, C05); here only so that setup builds their files too
  for g in gen/c03_table.py gen/c05_table.py; do
    [ -f "$g" ] && { /venv/bin/python "$g" >/dev/null 2>&1 || echo "setup: $g failed (its check will report)"; }
  done
fi
/venv/bin/python - <<'PY'
import sys
sys.path.insert(0, ".")
from harness import core
core.ensure_makefile()
PY
cd coq
timeout 3000 make -j16 -k --no-print-directory "TIMECMD=timeout 900" 2>&1 | grep -v "^Closed under\|^COQDEP\|^COQC" | tail -40
if [ "${PIPESTATUS[0]}" = 0 ]; then echo "setup ok"; else echo "setup: some Coq files did not build; the checks that need them will report proof-broken"; fi
