(* Python-string primitives used by several models: whitespace split, join,
   slices, padding. Definitions and their characterising lemmas. *)
From Coq Require Import String Ascii List Arith NArith ZArith Lia Bool.
Import ListNotations.
Local Open Scope string_scope.

(* ---- characters ------------------------------------------------------- *)

(* str.split() / str.strip() whitespace restricted to ASCII:
   \t \n \v \f \r, \x1c-\x1f, space *)
Definition is_ws (c : ascii) : bool :=
  let n := N_of_ascii c in
  ((9 <=? n) && (n <=? 13))%N || ((28 <=? n) && (n <=? 32))%N.

Definition bs (l : list N) : string :=
  fold_right (fun n s => String (ascii_of_N n) s) EmptyString l.

Definition nl : string := String (ascii_of_N 10) EmptyString.
Definition sp : ascii := " "%char.

Definition is_empty (s : string) : bool :=
  match s with EmptyString => true | _ => false end.

Fixpoint all_chars (p : ascii -> bool) (s : string) : bool :=
  match s with EmptyString => true | String c r => p c && all_chars p r end.

Fixpoint any_char (p : ascii -> bool) (s : string) : bool :=
  match s with EmptyString => false | String c r => p c || any_char p r end.

(* ---- split() ---------------------------------------------------------- *)

Definition cons_ne (h : string) (t : list string) : list string :=
  if is_empty h then t else h :: t.

(* (leading non-blank prefix, remaining tokens) *)
Fixpoint toks (s : string) : string * list string :=
  match s with
  | EmptyString => (EmptyString, [])
  | String c r =>
      let (h, t) := toks r in
      if is_ws c then (EmptyString, cons_ne h t) else (String c h, t)
  end.

(* Python: s.split() *)
Definition tokens (s : string) : list string :=
  let (h, t) := toks s in cons_ne h t.

Lemma cons_ne_app h t u : (cons_ne h t ++ u = cons_ne h (t ++ u))%list.
Proof. unfold cons_ne; destruct (is_empty h); reflexivity. Qed.

Lemma toks_app_ws a w b :
  is_ws w = true ->
  toks (a ++ String w b) = (fst (toks a), (snd (toks a) ++ tokens b)%list).
Proof.
  intros Hw. induction a as [|c a IH]; simpl.
  - rewrite Hw. unfold tokens. destruct (toks b) as [h t]. reflexivity.
  - rewrite IH. destruct (toks a) as [h t]; simpl.
    destruct (is_ws c); simpl; [rewrite cons_ne_app|]; reflexivity.
Qed.

Theorem tokens_app_ws a w b :
  is_ws w = true -> tokens (a ++ String w b) = (tokens a ++ tokens b)%list.
Proof.
  intros Hw. unfold tokens at 1 2. rewrite (toks_app_ws _ _ _ Hw).
  destruct (toks a) as [h t]; simpl. symmetry; apply cons_ne_app.
Qed.

Lemma tokens_empty : tokens "" = [].
Proof. reflexivity. Qed.

Lemma tokens_ws_prefix w b : is_ws w = true -> tokens (String w b) = tokens b.
Proof. intros H. apply (tokens_app_ws "" w b H). Qed.

Lemma app_empty_r (s : string) : s ++ "" = s.
Proof. induction s; simpl; congruence. Qed.

Lemma app_assoc_s (a b c : string) : (a ++ b) ++ c = a ++ (b ++ c).
Proof. induction a; simpl; congruence. Qed.

Lemma tokens_ws_suffix a w : is_ws w = true -> tokens (a ++ String w "") = tokens a.
Proof. intros H. rewrite (tokens_app_ws _ _ _ H). simpl. apply app_nil_r. Qed.

(* a string with no blank and at least one char is exactly one token *)
Lemma toks_noblank s : any_char is_ws s = false -> toks s = (s, []).
Proof.
  induction s as [|c s IH]; simpl; intros H; [reflexivity|].
  apply orb_false_iff in H as [Hc Hs]. rewrite (IH Hs), Hc. reflexivity.
Qed.

Lemma tokens_single s :
  any_char is_ws s = false -> is_empty s = false -> tokens s = [s].
Proof.
  intros H1 H2. unfold tokens. rewrite (toks_noblank _ H1). unfold cons_ne.
  rewrite H2. reflexivity.
Qed.

(* ---- join ------------------------------------------------------------- *)

Fixpoint join (sep : string) (l : list string) : string :=
  match l with
  | [] => ""
  | [x] => x
  | x :: r => x ++ sep ++ join sep r
  end.

Lemma tokens_join_sp (l : list string) :
  tokens (join " " l) = concat (map tokens l).
Proof.
  induction l as [|x [|y r] IH].
  - reflexivity.
  - simpl. rewrite app_nil_r. reflexivity.
  - change (join " " (x :: y :: r)) with (x ++ String sp (join " " (y :: r))).
    rewrite tokens_app_ws by reflexivity. rewrite IH. reflexivity.
Qed.

(* ---- slices, padding --------------------------------------------------- *)

Fixpoint take (n : nat) (s : string) : string :=
  match n, s with
  | S k, String c r => String c (take k r)
  | _, _ => ""
  end.

Fixpoint drop (n : nat) (s : string) : string :=
  match n, s with
  | S k, String _ r => drop k r
  | _, _ => s
  end.

(* s[a:b] for 0 <= a <= b *)
Definition slice (a b : nat) (s : string) : string := take (b - a) (drop a s).

Fixpoint repeat_char (c : ascii) (n : nat) : string :=
  match n with 0 => "" | S k => String c (repeat_char c k) end.

(* str.ljust(w) / str.rjust(w) with blanks *)
Definition ljust (w : nat) (s : string) : string := s ++ repeat_char sp (w - String.length s).
Definition rjust (w : nat) (s : string) : string := repeat_char sp (w - String.length s) ++ s.

Lemma length_app (a b : string) : String.length (a ++ b) = String.length a + String.length b.
Proof. induction a; simpl; lia. Qed.

Lemma length_repeat c n : String.length (repeat_char c n) = n.
Proof. induction n; simpl; lia. Qed.

Lemma length_take n s : String.length (take n s) = Nat.min n (String.length s).
Proof. revert s; induction n; intros [|c r]; simpl; auto. Qed.

Lemma length_drop n s : String.length (drop n s) = String.length s - n.
Proof. revert s; induction n; intros [|c r]; simpl; auto. Qed.

Lemma take_app_exact (a b : string) : take (String.length a) (a ++ b) = a.
Proof. induction a; simpl; [destruct b; reflexivity | congruence]. Qed.

Lemma drop_app_exact (a b : string) : drop (String.length a) (a ++ b) = b.
Proof. induction a; simpl; auto. Qed.

Lemma take_drop (n : nat) (s : string) : take n s ++ drop n s = s.
Proof. revert s; induction n; intros [|c r]; simpl; try reflexivity. now rewrite IHn. Qed.

Lemma length_ljust w s : String.length (ljust w s) = Nat.max w (String.length s).
Proof. unfold ljust. rewrite length_app, length_repeat. lia. Qed.

Lemma length_rjust w s : String.length (rjust w s) = Nat.max w (String.length s).
Proof. unfold rjust. rewrite length_app, length_repeat. lia. Qed.

(* strip(): remove leading and trailing whitespace *)
Fixpoint lstrip (s : string) : string :=
  match s with
  | String c r => if is_ws c then lstrip r else s
  | EmptyString => s
  end.

Fixpoint rstrip (s : string) : string :=
  match s with
  | EmptyString => EmptyString
  | String c r =>
      let r' := rstrip r in
      if is_ws c && is_empty r' then EmptyString else String c r'
  end.

Definition strip (s : string) : string := rstrip (lstrip s).

(* string equality as bool *)
Definition seqb := String.eqb.

Fixpoint mem_str (x : string) (l : list string) : bool :=
  match l with [] => false | y :: r => String.eqb x y || mem_str x r end.

(* startswith *)
Fixpoint prefix_of (p s : string) : bool :=
  match p, s with
  | EmptyString, _ => true
  | String a p', String b s' => Ascii.eqb a b && prefix_of p' s'
  | _, _ => false
  end.
