(* Decimal rendering and parsing of integers (str(n), int(s) for plain
   optionally-signed digit strings), with the round trip. *)
From Coq Require Import String Ascii List ZArith DecimalString DecimalZ DecimalPos Decimal Lia.
Import ListNotations.

Definition Z_to_string (z : Z) : string := NilZero.string_of_int (Z.to_int z).

Definition Z_of_string (s : string) : option Z :=
  option_map Z.of_int (NilZero.int_of_string s).

Lemma to_int_not_nil z : Z.to_int z <> Pos Nil /\ Z.to_int z <> Neg Nil.
Proof.
  destruct z as [|p|p]; simpl; split; try discriminate.
  - intros H. injection H as H. exact (DecimalPos.Unsigned.to_uint_nonnil p H).
  - intros H. injection H as H. exact (DecimalPos.Unsigned.to_uint_nonnil p H).
Qed.

Theorem Z_of_to_string z : Z_of_string (Z_to_string z) = Some z.
Proof.
  unfold Z_of_string, Z_to_string.
  destruct (to_int_not_nil z) as [H1 H2].
  rewrite (NilZero.isi _ H1 H2). simpl. now rewrite DecimalZ.of_to.
Qed.
