(* Proofs about the model of Debump.debump_residue (C04).
   Everything is proved for ALL oracles (all score / conflict / measurement answers, over any
   world type), all residues (dihedral lists) and all initial angle lists. *)
From Coq Require Import List PArith Bool Arith ZArith Lia.
From Coq Require Import Reals Lra.
From PV Require Import Model.ForceField Model.Topology Model.Moves Model.Quatfit Model.Debump.
From PV Require Import Proofs.Moves.
Import ListNotations.

(* ------------------------------------------------------------------ *)
(* (b), (c): any list of rotation operations is rigid                    *)

Section Rigid.
  Variables A P D : Type.
  Variable dist : P -> P -> D.
  Variable rotf : P -> P -> A -> P -> P.
  Hypothesis rotf_iso : forall pb pc d x y, dist (rotf pb pc d x) (rotf pb pc d y) = dist x y.
  Hypothesis rotf_fix_b : forall pb pc d, rotf pb pc d pb = pb.
  Hypothesis rotf_fix_c : forall pb pc d, rotf pb pc d pc = pc.

  Variable keep : id -> bool.
  Variable g : graph.
  Variable dihs : list dihedral.
  Hypothesis dihs_ok : forall d, In d dihs -> rigid_ok keep g (d_b d) (d_c d) (d_mov d) = true.

  Lemma apply_op_pos' pos op d :
    nth_error dihs (fst op) = Some d ->
    apply_op rotf dihs pos op = pos' P (rotf (pos (d_b d)) (pos (d_c d)) (snd op)) (d_mov d) pos.
  Proof. intros E. unfold apply_op. rewrite E. reflexivity. Qed.

  Lemma apply_op_bond pos op u v :
    In u (nodes g) -> In v (nbrs g u) -> keep u = true -> keep v = true ->
    dist (apply_op rotf dihs pos op u) (apply_op rotf dihs pos op v) = dist (pos u) (pos v).
  Proof.
    intros Hu Hv Ku Kv. destruct (nth_error dihs (fst op)) as [d|] eqn:E.
    - rewrite (apply_op_pos' pos op d E).
      apply (bond_preserved P D dist _ (rotf_iso _ _ _) keep g (d_b d) (d_c d) (d_mov d) pos
               (rotf_fix_b _ _ _) (rotf_fix_c _ _ _) (dihs_ok d (nth_error_In _ _ E))); assumption.
    - unfold apply_op. rewrite E. reflexivity.
  Qed.

  Lemma apply_op_angle pos op u v w :
    In v (nodes g) -> In u (nbrs g v) -> In w (nbrs g v) ->
    keep u = true -> keep v = true -> keep w = true ->
    dist (apply_op rotf dihs pos op u) (apply_op rotf dihs pos op w) = dist (pos u) (pos w).
  Proof.
    intros Hv Hu Hw Ku Kv Kw. destruct (nth_error dihs (fst op)) as [d|] eqn:E.
    - rewrite (apply_op_pos' pos op d E).
      apply (angle_preserved P D dist _ (rotf_iso _ _ _) keep g (d_b d) (d_c d) (d_mov d) pos
               (rotf_fix_b _ _ _) (rotf_fix_c _ _ _) (dihs_ok d (nth_error_In _ _ E)) u v w); assumption.
    - unfold apply_op. rewrite E. reflexivity.
  Qed.

  Theorem apply_ops_bond ops : forall pos u v,
    In u (nodes g) -> In v (nbrs g u) -> keep u = true -> keep v = true ->
    dist (apply_ops rotf dihs ops pos u) (apply_ops rotf dihs ops pos v) = dist (pos u) (pos v).
  Proof.
    induction ops as [|op rest IH]; intros pos u v Hu Hv Ku Kv; [reflexivity|].
    unfold apply_ops in *. cbn [fold_left]. rewrite IH by assumption. apply apply_op_bond; assumption.
  Qed.

  Theorem apply_ops_angle ops : forall pos u v w,
    In v (nodes g) -> In u (nbrs g v) -> In w (nbrs g v) ->
    keep u = true -> keep v = true -> keep w = true ->
    dist (apply_ops rotf dihs ops pos u) (apply_ops rotf dihs ops pos w) = dist (pos u) (pos w).
  Proof.
    induction ops as [|op rest IH]; intros pos u v w Hv Hu Hw Ku Kv Kw; [reflexivity|].
    unfold apply_ops in *. cbn [fold_left]. rewrite (IH _ u v w) by assumption. apply (apply_op_angle pos op u v w); assumption.
  Qed.
End Rigid.

(* frame: needs no hypothesis on the motion at all *)
Lemma apply_ops_frame (A P : Type) (rotf : P -> P -> A -> P -> P) (dihs : list dihedral) ops : forall pos a,
  (forall d, In d dihs -> mem a (d_mov d) = false) ->
  apply_ops rotf dihs ops pos a = pos a.
Proof.
  induction ops as [|op rest IH]; intros pos a Ha; [reflexivity|].
  unfold apply_ops in *. cbn [fold_left]. rewrite IH by assumption.
  unfold apply_op. destruct (nth_error dihs (fst op)) as [d|] eqn:E; [|reflexivity].
  rewrite (Ha d (nth_error_In _ _ E)). reflexivity.
Qed.

(* ------------------------------------------------------------------ *)
(* a proof principle for the control flow: whatever relation between    *)
(* states is reflexive, transitive and holds across each elementary     *)
(* step holds across scan / attempt / attempts                          *)

Section Control.
  Context {A : Type} (ar : Arith A) {W : Type} (o : oracle A W).
  Variable dihs : list dihedral.

  Definition scan_state (r : scan_out A W) : dstate A W :=
    match r with ScanTrue st => st | ScanDone st _ _ _ => st end.
  Definition att_state (r : att_out A W) : dstate A W :=
    match r with AttTrue st => st | AttError st => st | AttNext st _ _ _ => st end.
  Definition err_state (st : dstate A W) : dstate A W :=
    mkst (st_dih st) (st_ops st) (st_calls st) true (st_w st).
  Definition has_angle (n : nat) (st : dstate A W) : Prop :=
    exists x, nth_error (st_dih st) n = Some (Some x).

  Section Rel.
    Variable R : dstate A W -> dstate A W -> Prop.
    Hypothesis R_refl : forall st, R st st.
    Hypothesis R_trans : forall a b c, R a b -> R b c -> R a c.

    Section OneIndex.
      Variable n : nat.
      Hypothesis R_score : forall st, R st (with_w st (snd (o_score A W o (st_w st) n))).
      Hypothesis R_conf : forall st, R st (with_w st (snd (o_conf A W o (st_w st)))).
      Hypothesis R_set : forall st a, R st (set_dihedral_angle ar o st n a).
      Hypothesis R_err : forall st, ~ has_angle n st -> R st (err_state st).

      Lemma scan_rel fuel : forall i orig st bs ba fd,
        R st (scan_state (scan ar o fuel i n orig st bs ba fd)).
      Proof.
        induction fuel as [|f IH]; intros i orig st bs ba fd; [apply R_refl|].
        cbn [scan].
        set (st1 := set_dihedral_angle ar o st n (step_angle ar orig i)).
        assert (H1 : R st st1) by apply R_set.
        pose proof (R_score st1) as H2.
        destruct (o_score A W o (st_w st1) n) as [score w2]. cbn [snd] in H2.
        set (st2 := with_w st1 w2) in *.
        assert (H12 : R st st2) by (eapply R_trans; eassumption).
        destruct (a_eqb A ar score (a_zero A ar)).
        - pose proof (R_conf st2) as H3. cbn [st_w with_w st2] in H3.
          destruct (o_conf A W o w2) as [cn w3]. cbn [snd] in H3.
          destruct cn; cbn [scan_state]; eapply R_trans; eassumption.
        - destruct (a_ltb A ar score bs);
            [destruct (a_ltb A ar (a_small A ar) (a_abs A ar (a_sub A ar bs score)))|];
            (eapply R_trans; [exact H12 | apply IH]).
      Qed.

      Lemma attempt_rel st : R st (att_state (attempt ar o st n)).
      Proof.
        unfold attempt.
        pose proof (R_score st) as H1.
        destruct (o_score A W o (st_w st) n) as [bs w1]. cbn [snd] in H1.
        set (st1 := with_w st w1) in *.
        destruct (nth_error (st_dih st1) n) as [[orig|]|] eqn:E.
        - pose proof (scan_rel (DEBUMP_ANGLE_STEPS - 1) 1 orig st1 bs orig false) as H2.
          destruct (scan ar o (DEBUMP_ANGLE_STEPS - 1) 1 n orig st1 bs orig false) as [st'|st2 ba bsc fd];
            cbn [scan_state] in H2.
          + cbn [att_state]. eapply R_trans; eassumption.
          + pose proof (R_set st2 ba) as H3.
            pose proof (R_conf (set_dihedral_angle ar o st2 n ba)) as H4.
            destruct (o_conf A W o (st_w (set_dihedral_angle ar o st2 n ba))) as [cn w4]. cbn [snd] in H4.
            cbn [att_state]. eapply R_trans; [exact H1|]. eapply R_trans; [exact H2|]. eapply R_trans; eassumption.
        - cbn [att_state]. eapply R_trans; [exact H1|]. apply (R_err st1).
          intros [x Hx]. rewrite E in Hx. discriminate.
        - cbn [att_state]. eapply R_trans; [exact H1|]. apply (R_err st1).
          intros [x Hx]. rewrite E in Hx. discriminate.
      Qed.
    End OneIndex.

    Hypothesis R_score : forall n st, R st (with_w st (snd (o_score A W o (st_w st) n))).
    Hypothesis R_conf : forall st, R st (with_w st (snd (o_conf A W o (st_w st)))).
    Hypothesis R_set : forall n st a, R st (set_dihedral_angle ar o st n a).
    Hypothesis R_err : forall st, R st (err_state st).

    Lemma attempts_rel fuel : forall st old conf, R st (snd (attempts ar o dihs fuel st old conf)).
    Proof.
      induction fuel as [|f IH]; intros st old conf; [apply R_refl|].
      cbn [attempts]. destruct (pick_dihedral_angle dihs (st_dih st) conf old) as [n|]; [|apply R_refl].
      pose proof (attempt_rel n (R_score n) R_conf (R_set n) (fun s _ => R_err s) st) as H.
      destruct (attempt ar o st n) as [st'|st'|st' ba fd cn]; cbn [att_state snd] in *; try exact H.
      eapply R_trans; [exact H | apply IH].
    Qed.
  End Rel.

  (* ---------------------------------------------------------------- *)
  (* (d) the number of set_dihedral_angle calls                          *)

  Lemma set_ops_length st n a :
    List.length (st_ops (set_dihedral_angle ar o st n a)) <= S (List.length (st_ops st)).
  Proof.
    unfold set_dihedral_angle. destruct (nth_error (st_dih st) n) as [[x|]|]; cbn [st_ops]; try lia.
    destruct (o_set A W o (st_w st) n a (a_sub A ar a x)). cbn [st_ops length]. lia.
  Qed.

  Lemma scan_ops_length fuel : forall i n orig st bs ba fd,
    List.length (st_ops (scan_state (scan ar o fuel i n orig st bs ba fd))) <= List.length (st_ops st) + fuel.
  Proof.
    induction fuel as [|f IH]; intros i n orig st bs ba fd; [cbn [scan scan_state]; lia|].
    cbn [scan].
    pose proof (set_ops_length st n (step_angle ar orig i)) as H1.
    set (st1 := set_dihedral_angle ar o st n (step_angle ar orig i)) in *.
    destruct (o_score A W o (st_w st1) n) as [score w2].
    destruct (a_eqb A ar score (a_zero A ar)).
    - destruct (o_conf A W o w2) as [cn w3]. destruct cn; cbn [scan_state with_w st_ops]; lia.
    - assert (H2 : forall bs' ba' fd', List.length (st_ops (scan_state (scan ar o f (S i) n orig (with_w st1 w2) bs' ba' fd')))
                                       <= List.length (st_ops st) + S f).
      { intros. etransitivity; [apply IH|]. cbn [with_w st_ops]. lia. }
      destruct (a_ltb A ar score bs);
        [destruct (a_ltb A ar (a_small A ar) (a_abs A ar (a_sub A ar bs score)))|]; apply H2.
  Qed.

  Lemma attempt_ops_length st n :
    List.length (st_ops (att_state (attempt ar o st n))) <= List.length (st_ops st) + DEBUMP_ANGLE_STEPS.
  Proof.
    unfold attempt. destruct (o_score A W o (st_w st) n) as [bs w1].
    destruct (nth_error (st_dih (with_w st w1)) n) as [[orig|]|]; cbn [att_state st_ops with_w]; try lia.
    pose proof (scan_ops_length (DEBUMP_ANGLE_STEPS - 1) 1 n orig (with_w st w1) bs orig false) as H.
    destruct (scan ar o (DEBUMP_ANGLE_STEPS - 1) 1 n orig (with_w st w1) bs orig false) as [st'|st2 ba bsc fd];
      cbn [scan_state with_w st_ops] in H; cbn [att_state].
    - unfold DEBUMP_ANGLE_STEPS in *. lia.
    - pose proof (set_ops_length st2 n ba) as H2.
      destruct (o_conf A W o (st_w (set_dihedral_angle ar o st2 n ba))) as [cn w4].
      cbn [att_state with_w st_ops]. unfold DEBUMP_ANGLE_STEPS in *. lia.
  Qed.

  Lemma attempts_ops_length fuel : forall st old conf,
    List.length (st_ops (snd (attempts ar o dihs fuel st old conf))) <= List.length (st_ops st) + fuel * DEBUMP_ANGLE_STEPS.
  Proof.
    induction fuel as [|f IH]; intros st old conf; [cbn [attempts snd]; lia|].
    cbn [attempts]. destruct (pick_dihedral_angle dihs (st_dih st) conf old) as [n|]; [|cbn [snd]; lia].
    pose proof (attempt_ops_length st n) as H.
    destruct (attempt ar o st n) as [st'|st'|st' ba fd cn]; cbn [att_state snd] in *; try lia.
    etransitivity; [apply IH|]. lia.
  Qed.

  Theorem debump_terminates_within angles w conf :
    List.length (ops_of (snd (debump_residue ar o dihs angles w conf))) <= DEBUMP_ANGLE_TEST_COUNT * DEBUMP_ANGLE_STEPS.
  Proof.
    unfold debump_residue, ops_of. rewrite rev_length.
    etransitivity; [apply attempts_ops_length|]. cbn [st_ops length]. lia.
  Qed.

  (* calls and ops are recorded together *)
  Definition calls_match (st : dstate A W) : Prop :=
    map fst (st_calls st) = map fst (st_ops st).

  Lemma calls_match_run angles w conf : calls_match (snd (debump_residue ar o dihs angles w conf)).
  Proof.
    unfold debump_residue.
    apply (attempts_rel (fun a b => calls_match a -> calls_match b)); try (intros; tauto); try (intros; solve [eauto]).
    - intros n st a H. unfold set_dihedral_angle, calls_match in *.
      destruct (nth_error (st_dih st) n) as [[x|]|]; cbn [st_ops st_calls]; try exact H.
      destruct (o_set A W o (st_w st) n a (a_sub A ar a x)). cbn [st_ops st_calls map fst]. now rewrite H.
    - reflexivity.
  Qed.

  Lemma calls_length_run angles w conf :
    let st := snd (debump_residue ar o dihs angles w conf) in
    List.length (calls_of st) = List.length (ops_of st).
  Proof.
    cbv zeta. unfold calls_of, ops_of. rewrite !rev_length.
    pose proof (calls_match_run angles w conf) as H. unfold calls_match in H.
    rewrite <- (map_length fst (st_calls _)), H, map_length. reflexivity.
  Qed.

  (* ---------------------------------------------------------------- *)
  (* the error paths of the model (TypeError / IndexError in the code)   *)
  (* are never taken, and every rotation is about a dihedral that exists *)

  Lemma count_hits_bn cf mov i best bn :
    snd (count_hits cf mov i best bn) = bn \/ snd (count_hits cf mov i best bn) = Some i.
  Proof.
    unfold count_hits.
    assert (G : forall l acc, (snd acc = bn \/ snd acc = Some i) ->
              let r := fold_left (fun (acc : nat * nat * option nat) name =>
                 let '(score, best, bestnum) := acc in
                 if mem name mov then
                   let s := S score in
                   if Nat.ltb best s then (s, s, Some i) else (s, best, bestnum)
                 else acc) l acc in snd r = bn \/ snd r = Some i).
    { induction l as [|x t IH]; intros acc Hacc; [exact Hacc|]. cbn [fold_left]. apply IH.
      destruct acc as [[sc b] bnn]. cbn [snd] in *. destruct (mem x mov); [|exact Hacc].
      destruct (Nat.ltb b (S sc)); cbn [snd]; [right; reflexivity | exact Hacc]. }
    specialize (G cf (0, best, bn) (or_introl eq_refl)). cbv zeta in G.
    destruct (fold_left _ cf (0, best, bn)) as [[s b] bnn]. exact G.
  Qed.

  Lemma pick_loop_some (angles : list (option A)) cf old test : forall best bn n,
    (forall k, bn = Some k -> exists x, nth_error angles k = Some (Some x)) ->
    pick_loop dihs angles cf old test best bn = Some n -> exists x, nth_error angles n = Some (Some x).
  Proof.
    induction test as [|i rest IH]; intros best bn n Hbn H; cbn [pick_loop] in H; [apply Hbn; exact H|].
    destruct (match old with Some o0 => Nat.eqb i o0 | None => false end); [eapply IH; eassumption|].
    destruct (nth_error angles i) as [[x|]|] eqn:E; try (eapply IH; eassumption).
    destruct (list_eqb cf (match nth_error dihs i with Some d => d_mov d | None => [] end)).
    - inversion H; subst. eauto.
    - pose proof (count_hits_bn cf (match nth_error dihs i with Some d => d_mov d | None => [] end) i best bn) as Hc.
      destruct (count_hits cf _ i best bn) as [b' bn']. cbn [snd] in Hc.
      eapply IH; [|exact H]. intros k Hk. destruct Hc as [-> | ->]; [apply Hbn; exact Hk|].
      inversion Hk; subst. eauto.
  Qed.

  Lemma pick_some (angles : list (option A)) cf old n :
    pick_dihedral_angle dihs angles cf old = Some n -> exists x, nth_error angles n = Some (Some x).
  Proof. unfold pick_dihedral_angle. apply pick_loop_some. intros k Hk. discriminate. Qed.

  Lemma pick_lt (angles : list (option A)) cf old n :
    pick_dihedral_angle dihs angles cf old = Some n -> n < List.length angles.
  Proof. intros H. destruct (pick_some _ _ _ _ H) as [x Hx]. apply nth_error_Some. rewrite Hx. discriminate. Qed.

  Lemma nth_error_upd {X : Type} (l : list X) : forall n k (x : X),
    nth_error (upd n x l) k = if Nat.eqb k n then (match nth_error l k with Some _ => Some x | None => None end) else nth_error l k.
  Proof.
    induction l as [|y t IH]; intros n k x.
    - destruct n, k; cbn [upd nth_error Nat.eqb]; try reflexivity. destruct (Nat.eqb k n); reflexivity.
    - destruct n, k; cbn [upd nth_error Nat.eqb]; try reflexivity. apply IH.
  Qed.

  Lemma upd_length {X : Type} (l : list X) : forall n (x : X), List.length (upd n x l) = List.length l.
  Proof. induction l as [|y t IH]; intros [|n] x; cbn [upd length]; auto. Qed.

  (* what one set_dihedral_angle call on an index holding an angle does *)
  Lemma set_spec st n a old :
    nth_error (st_dih st) n = Some (Some old) ->
    let diff := a_sub A ar a old in
    let r := o_set A W o (st_w st) n a diff in
    set_dihedral_angle ar o st n a =
      mkst (upd n (Some (fst r)) (st_dih st)) ((n, diff) :: st_ops st) ((n, a) :: st_calls st) (st_err st) (snd r).
  Proof.
    intros E. unfold set_dihedral_angle. rewrite E. cbv zeta.
    destruct (o_set A W o (st_w st) n a (a_sub A ar a old)). reflexivity.
  Qed.

  Definition sound_at (n : nat) (st : dstate A W) : Prop := has_angle n st /\ st_err st = false.

  Lemma set_sound n st a : sound_at n st -> sound_at n (set_dihedral_angle ar o st n a).
  Proof.
    intros [[x Hx] He]. rewrite (set_spec st n a x Hx). cbv zeta. split; [|exact He].
    unfold has_angle. cbn [st_dih]. rewrite nth_error_upd, Nat.eqb_refl, Hx. eauto.
  Qed.

  Lemma attempt_sound st n : sound_at n st -> sound_at n (att_state (attempt ar o st n)).
  Proof.
    apply (attempt_rel (fun a b => sound_at n a -> sound_at n b) (fun _ H => H) (fun a b c H1 H2 H => H2 (H1 H)) n).
    - intros s H. exact H.
    - intros s H. exact H.
    - intros s a. apply set_sound.
    - intros s Hn [Hs _]. contradiction.
  Qed.

  Lemma attempts_no_error fuel : forall st old conf,
    st_err st = false -> st_err (snd (attempts ar o dihs fuel st old conf)) = false.
  Proof.
    induction fuel as [|f IH]; intros st old conf He; [exact He|].
    cbn [attempts]. destruct (pick_dihedral_angle dihs (st_dih st) conf old) as [n|] eqn:Ep; [|exact He].
    pose proof (attempt_sound st n (conj (pick_some _ _ _ _ Ep) He)) as [_ H].
    destruct (attempt ar o st n) as [st'|st'|st' ba fd cn]; cbn [att_state snd] in *; try exact H.
    apply IH. exact H.
  Qed.

  Theorem debump_no_error angles w conf : st_err (snd (debump_residue ar o dihs angles w conf)) = false.
  Proof. unfold debump_residue. apply attempts_no_error. reflexivity. Qed.

  (* every rotation is about an index inside residue.dihedrals *)
  Definition ops_in_range (st : dstate A W) : Prop :=
    Forall (fun op => fst op < List.length (st_dih st)) (st_ops st).

  Lemma debump_ops_in_range angles w conf :
    let st := snd (debump_residue ar o dihs angles w conf) in
    List.length (st_dih st) = List.length angles /\ Forall (fun op => fst op < List.length angles) (ops_of st).
  Proof.
    cbv zeta. unfold debump_residue, ops_of.
    assert (H : let st := snd (attempts ar o dihs DEBUMP_ANGLE_TEST_COUNT (mkst angles [] [] false w) None conf) in
                List.length (st_dih st) = List.length angles /\ Forall (fun op => fst op < List.length angles) (st_ops st)).
    { apply (attempts_rel (fun a b => (List.length (st_dih a) = List.length angles /\ Forall (fun op => fst op < List.length angles) (st_ops a)) ->
                                      (List.length (st_dih b) = List.length angles /\ Forall (fun op => fst op < List.length angles) (st_ops b))));
        try (intros; tauto); try (intros; solve [eauto]).
      - intros n st a [HL HF]. unfold set_dihedral_angle.
        destruct (nth_error (st_dih st) n) as [[x|]|] eqn:E; cbn [st_dih st_ops]; try (split; assumption).
        destruct (o_set A W o (st_w st) n a (a_sub A ar a x)). cbn [st_dih st_ops]. rewrite upd_length.
        split; [exact HL|]. constructor; [|exact HF]. cbn [fst]. rewrite <- HL. apply nth_error_Some. rewrite E. discriminate.
      - cbn [st_dih st_ops]. split; [reflexivity | constructor]. }
    cbv zeta in H. destruct H as [HL HF]. split; [exact HL|]. apply Forall_rev. exact HF.
  Qed.

  Theorem debump_terminates_full angles w conf :
    let st := snd (debump_residue ar o dihs angles w conf) in
    List.length (ops_of st) <= DEBUMP_ANGLE_TEST_COUNT * DEBUMP_ANGLE_STEPS /\
    List.length (calls_of st) = List.length (ops_of st) /\
    st_err st = false /\
    List.length (st_dih st) = List.length angles /\
    Forall (fun op => fst op < List.length angles) (ops_of st).
  Proof.
    exact (conj (debump_terminates_within angles w conf)
          (conj (calls_length_run angles w conf)
          (conj (debump_no_error angles w conf) (debump_ops_in_range angles w conf)))).
  Qed.
End Control.

(* ------------------------------------------------------------------ *)
(* (a) with geometry as the oracle, the coordinates after the run are    *)
(* the rotations of the op list applied in order to the initial ones    *)

Section Geometry.
  Context {A P : Type} (ar : Arith A).
  Variable rotf : P -> P -> A -> P -> P.
  Variable dihs : list dihedral.
  Variable score_fn : (id -> P) -> nat -> A.
  Variable conf_fn : (id -> P) -> list id.
  Variable meas_fn : (id -> P) -> nat -> A.
  Let og := geo_oracle rotf dihs score_fn conf_fn meas_fn.

  Theorem debump_ops_are_rotations angles pos0 conf :
    let st := snd (debump_residue ar og dihs angles pos0 conf) in
    st_w st = apply_ops rotf dihs (ops_of st) pos0.
  Proof.
    cbv zeta. unfold debump_residue, ops_of.
    apply (attempts_rel ar og dihs
             (fun a b => st_w a = apply_ops rotf dihs (rev (st_ops a)) pos0 ->
                         st_w b = apply_ops rotf dihs (rev (st_ops b)) pos0));
      try (intros; tauto); try (intros; solve [eauto]).
    - intros n st a H. unfold set_dihedral_angle.
      destruct (nth_error (st_dih st) n) as [[x|]|]; cbn [st_w st_ops]; try exact H.
      unfold og, geo_oracle. cbn [o_set st_w st_ops rev].
      unfold apply_ops in *. rewrite fold_left_app. cbn [fold_left]. rewrite <- H. reflexivity.
  Qed.
End Geometry.

(* (b), (c) for the run: the coordinates AFTER debump_residue, for any geometric oracle *)
Section GeometryRigid.
  Context {A P D : Type} (ar : Arith A).
  Variable dist : P -> P -> D.
  Variable rotf : P -> P -> A -> P -> P.
  Hypothesis rotf_iso : forall pb pc d x y, dist (rotf pb pc d x) (rotf pb pc d y) = dist x y.
  Hypothesis rotf_fix_b : forall pb pc d, rotf pb pc d pb = pb.
  Hypothesis rotf_fix_c : forall pb pc d, rotf pb pc d pc = pc.
  Variable keep : id -> bool.
  Variable g : graph.
  Variable dihs : list dihedral.
  Hypothesis dihs_ok : forall d, In d dihs -> rigid_ok keep g (d_b d) (d_c d) (d_mov d) = true.
  Variable score_fn : (id -> P) -> nat -> A.
  Variable conf_fn : (id -> P) -> list id.
  Variable meas_fn : (id -> P) -> nat -> A.

  Theorem debump_rigid angles pos0 conf :
    let pos1 := st_w (snd (debump_residue ar (geo_oracle rotf dihs score_fn conf_fn meas_fn) dihs angles pos0 conf)) in
    (forall u v, In u (nodes g) -> In v (nbrs g u) -> keep u = true -> keep v = true ->
                 dist (pos1 u) (pos1 v) = dist (pos0 u) (pos0 v)) /\
    (forall u v w, In v (nodes g) -> In u (nbrs g v) -> In w (nbrs g v) ->
                   keep u = true -> keep v = true -> keep w = true ->
                   dist (pos1 u) (pos1 w) = dist (pos0 u) (pos0 w)).
  Proof.
    cbv zeta. rewrite (debump_ops_are_rotations ar rotf dihs score_fn conf_fn meas_fn angles pos0 conf). split.
    - intros u v. apply (apply_ops_bond A P D dist rotf rotf_iso rotf_fix_b rotf_fix_c keep g dihs dihs_ok).
    - intros u v w. apply (apply_ops_angle A P D dist rotf rotf_iso rotf_fix_b rotf_fix_c keep g dihs dihs_ok).
  Qed.
End GeometryRigid.

Theorem debump_backbone_fixed (A P : Type) (ar : Arith A) (rotf : P -> P -> A -> P -> P) (dihs : list dihedral)
        (score_fn : (id -> P) -> nat -> A) (conf_fn : (id -> P) -> list id) (meas_fn : (id -> P) -> nat -> A)
        angles pos0 conf a :
  (forall d, In d dihs -> mem a (d_mov d) = false) ->
  st_w (snd (debump_residue ar (geo_oracle rotf dihs score_fn conf_fn meas_fn) dihs angles pos0 conf)) a = pos0 a.
Proof.
  intros Ha. rewrite (debump_ops_are_rotations ar rotf dihs score_fn conf_fn meas_fn angles pos0 conf).
  apply apply_ops_frame. exact Ha.
Qed.

(* the dihedral list of a template meets the hypothesis of debump_rigid when the table check holds *)
Lemma template_dihedrals_ok keep nm nt ct g dl :
  forallb (dihedral_ok keep nm nt ct g) dl = true ->
  forall d, In d (template_dihedrals nm nt ct g dl) ->
  rigid_ok keep g (d_b d) (d_c d) (d_mov d) = true /\
  existsb (fun a => mem a (nm_backbone nm)) (d_mov d) = false.
Proof.
  intros H d Hd. unfold template_dihedrals in Hd. rewrite forallb_forall in H.
  destruct (ranks nm nt ct g) as [rk|] eqn:E; [|destruct Hd].
  apply in_map_iff in Hd. destruct Hd as [[[[a b] c] e] [<- Hin]].
  specialize (H _ Hin). unfold dihedral_ok in H. rewrite E in H.
  apply andb_true_iff in H. destruct H as [H1 H2]. cbn [d_b d_c d_mov]. split; [exact H1|].
  apply negb_true_iff in H2. exact H2.
Qed.

(* ------------------------------------------------------------------ *)
(* (e) net rotation, over the reals, when the dihedral measured after a  *)
(* rotation is the requested angle modulo 360 degrees                   *)

Local Open Scope R_scope.

Definition cong360 (x y : R) : Prop := exists k : Z, x - y = 360 * IZR k.

Lemma cong360_refl x : cong360 x x.
Proof. exists 0%Z. simpl. lra. Qed.

Lemma cong360_step sum old a0 a m :
  cong360 sum (old - a0) -> cong360 m a -> cong360 (sum + (a - old)) (m - a0).
Proof.
  intros [k1 H1] [k2 H2]. exists (k1 - k2)%Z. rewrite minus_IZR. lra.
Qed.

Fixpoint sum_deltas (k : nat) (ops : list (nat * R)) : R :=
  match ops with
  | [] => 0
  | (n, d) :: t => (if Nat.eqb n k then d else 0) + sum_deltas k t
  end.

Section NetRotation.
  Context {W : Type} (o : oracle R W).
  Variable dihs : list dihedral.
  (* the measured dihedral is the requested one up to whole turns *)
  Hypothesis ideal : forall w n req d, cong360 (fst (o_set R W o w n req d)) req.

  Variable angles0 : list (option R).

  (* for every dihedral: (sum of all rotation angles applied to it) = (stored angle now) -
     (stored angle at the start), modulo 360; a dihedral that had no value has none now *)
  Definition net_inv (st : dstate R W) : Prop :=
    forall k, match nth_error angles0 k, nth_error (st_dih st) k with
              | Some (Some a0), Some (Some cur) => cong360 (sum_deltas k (st_ops st)) (cur - a0)
              | Some None, Some None => sum_deltas k (st_ops st) = 0
              | None, None => sum_deltas k (st_ops st) = 0
              | _, _ => False
              end.

  Lemma set_net_inv n st a : net_inv st -> net_inv (set_dihedral_angle RArith o st n a).
  Proof.
    intros H. destruct (nth_error (st_dih st) n) as [[old|]|] eqn:E.
    2,3: unfold set_dihedral_angle; rewrite E; exact H.
    rewrite (set_spec RArith o st n a old E). cbv zeta. intros k. specialize (H k).
    cbn [st_dih st_ops sum_deltas]. rewrite nth_error_upd. rewrite (Nat.eqb_sym k n).
    destruct (Nat.eqb n k) eqn:Enk.
    - apply Nat.eqb_eq in Enk. subst k. rewrite E in *.
      destruct (nth_error angles0 n) as [[a0|]|]; try contradiction.
      cbn [a_sub RArith]. rewrite Rplus_comm. apply cong360_step; [exact H | apply ideal].
    - destruct (nth_error angles0 k) as [[a0|]|], (nth_error (st_dih st) k) as [[cur|]|]; try contradiction;
        rewrite Rplus_0_l; exact H.
  Qed.

  Theorem debump_net_rotation w conf :
    net_inv (mkst angles0 [] [] false w) ->
    net_inv (snd (debump_residue RArith o dihs angles0 w conf)).
  Proof.
    unfold debump_residue.
    apply (attempts_rel RArith o dihs (fun a b => net_inv a -> net_inv b)); try (intros; tauto); try (intros; solve [eauto]).
    intros n st a. apply set_net_inv.
  Qed.

  Lemma net_inv_init w : net_inv (mkst angles0 [] [] false w).
  Proof.
    intros k. cbn [st_dih st_ops sum_deltas]. destruct (nth_error angles0 k) as [[a0|]|]; try reflexivity.
    replace (a0 - a0) with 0 by lra. apply cong360_refl.
  Qed.

  Theorem debump_net_rotation_full w conf : net_inv (snd (debump_residue RArith o dihs angles0 w conf)).
  Proof. apply debump_net_rotation. apply net_inv_init. Qed.

  (* one attempt that does not return True ends with set_dihedral_angle(anglenum, bestangle):
     the last call requests bestangle, the stored angle is bestangle modulo 360, and
     bestangle is the angle the attempt started from unless an improvement was found *)
  Lemma scan_found_false fuel : forall i n orig st bs ba fd st' ba' bs' ,
    scan RArith o fuel i n orig st bs ba fd = ScanDone st' ba' bs' false -> fd = false /\ ba' = ba.
  Proof.
    induction fuel as [|f IH]; intros i n orig st bs ba fd st' ba' bs' H; cbn [scan] in H.
    - inversion H; subst. split; reflexivity.
    - destruct (o_score R W o (st_w (set_dihedral_angle RArith o st n (step_angle RArith orig i))) n) as [score w2].
      destruct (a_eqb R RArith score (a_zero R RArith)).
      + destruct (o_conf R W o w2) as [cn w3]. destruct cn; discriminate.
      + destruct (a_ltb R RArith score bs);
          [destruct (a_ltb R RArith (a_small R RArith) (a_abs R RArith (a_sub R RArith bs score)))|].
        * apply IH in H. destruct H as [H _]. discriminate.
        * apply IH in H. exact H.
        * apply IH in H. exact H.
  Qed.

  Theorem attempt_ends_at_bestangle st n orig st' ba fd cn :
    nth_error (st_dih st) n = Some (Some orig) ->
    attempt RArith o st n = AttNext st' ba fd cn ->
    hd_error (st_calls st') = Some (n, ba) /\
    (exists m, nth_error (st_dih st') n = Some (Some m) /\ cong360 m ba) /\
    (fd = false -> ba = orig).
  Proof.
    intros E H. unfold attempt in H.
    destruct (o_score R W o (st_w st) n) as [bs w1].
    cbn [with_w st_dih] in H. rewrite E in H.
    pose proof (scan_rel RArith o (fun a b => has_angle n a -> has_angle n b) (fun _ h => h) (fun a b c h1 h2 h => h2 (h1 h)) n
                         (fun s h => h) (fun s h => h)) as HS.
    assert (Hset : forall s a, has_angle n s -> has_angle n (set_dihedral_angle RArith o s n a)).
    { intros s a [x Hx]. rewrite (set_spec RArith o s n a x Hx). cbv zeta. unfold has_angle. cbn [st_dih].
      rewrite nth_error_upd, Nat.eqb_refl, Hx. eauto. }
    specialize (HS Hset (DEBUMP_ANGLE_STEPS - 1)%nat 1%nat orig (with_w st w1) bs orig false).
    destruct (scan RArith o (DEBUMP_ANGLE_STEPS - 1) 1 n orig (with_w st w1) bs orig false) as [s|st2 ba2 bs2 fd2] eqn:ES;
      [discriminate|].
    cbn [scan_state] in HS. destruct HS as [old Hold]; [exists orig; exact E|].
    pose proof (set_spec RArith o st2 n ba2 old Hold) as Hsp. cbv zeta in Hsp.
    destruct (o_conf R W o (st_w (set_dihedral_angle RArith o st2 n ba2))) as [cn' w4].
    inversion H; subst st' ba fd cn. clear H.
    rewrite Hsp. cbn [with_w st_calls st_dih hd_error]. split; [reflexivity|]. split.
    - exists (fst (o_set R W o (st_w st2) n ba2 (a_sub R RArith ba2 old))). split; [|apply ideal].
      rewrite nth_error_upd, Nat.eqb_refl, Hold. reflexivity.
    - intros ->. apply scan_found_false in ES. destruct ES as [_ ->]. reflexivity.
  Qed.
End NetRotation.

(* ------------------------------------------------------------------ *)
(* non-vacuity: a concrete residue with two dihedrals and an answer      *)
(* sequence with a fruitless attempt, an accepted one and a final one   *)
(* that returns True                                                    *)

Local Close Scope R_scope.
Local Open Scope Z_scope.

(* N=1 CA=2 C=3 CB=4 CG=5 CD=6; chi1 = N CA CB CG, chi2 = CA CB CG CD *)
Definition ex_graph : graph :=
  [(1, [2]); (2, [1; 3; 4]); (3, [2]); (4, [2; 5]); (5, [4; 6]); (6, [5])]%positive.
Definition ex_dihs : list dihedral :=
  [mkdihedral 2 4 [5; 6]; mkdihedral 4 5 [6]]%positive.
Definition ex_angles : list (option Z) := [Some (-60); Some 175].

(* the measured dihedral = the requested angle (the scan of attempt 1 walks chi2 through all 71
   trial angles and the final call returns it to 175) *)
Definition ex_script : script Z :=
  mkscript
    (* scores: attempt 1 on chi2: 10, then 71 worse; attempt 2 on chi1: 10, 5 (kept), 0 (conflicts remain);
       attempt 3 on chi2: 10, 0 (no conflicts left) *)
    ((10 :: repeat 11 71) ++ [10; 5; 0] ++ [10; 0])
    [[5; 6]; [6]; [6]; []]%positive
    (map (step_angle ZAr 175) (seq 1 71) ++ [175] ++ [-55; -50; -50] ++ [180])
    false.

Lemma debump_nonvacuous :
  forallb (fun d => rigid_ok (fun _ => true) ex_graph (d_b d) (d_c d) (d_mov d)) ex_dihs = true /\
  (let '(r, st) := debump_residue ZAr (script_oracle 0) ex_dihs ex_angles ex_script [6%positive] in
   r = true /\ st_err st = false /\ sc_under (st_w st) = false /\
   sc_scores (st_w st) = [] /\ sc_confs (st_w st) = [] /\ sc_meas (st_w st) = [] /\
   map fst (ops_of st) = (repeat 1 72 ++ repeat 0 3 ++ [1])%nat%list /\
   (* the fruitless attempt ends by requesting the angle it started from, the accepted one at its best angle *)
   nth_error (calls_of st) 71 = Some (1%nat, 175) /\
   nth_error (calls_of st) 74 = Some (0%nat, -50) /\
   (* its 72 rotation angles sum to 0 *)
   fold_left Z.add (map snd (firstn 72 (ops_of st))) 0 = 0 /\
   st_dih st = [Some (-50); Some 180]) /\
  (* an oracle over R meeting the hypothesis of the net-rotation theorem *)
  (forall w n req d, cong360 (fst (o_set R unit (mkoracle R unit (fun w _ => (0%R, w)) (fun w => ([], w)) (fun w _ req _ => (req, w))) w n req d)) req).
Proof.
  split; [vm_compute; reflexivity|]. split; [vm_compute; repeat split; reflexivity|].
  intros w n req d. cbn [o_set fst]. apply cong360_refl.
Qed.
