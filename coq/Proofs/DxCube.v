(* Lemmas about the DX -> cube model (C18). *)
From Coq Require Import String Ascii List Arith NArith ZArith Lia Bool.
From Coq Require Import ZifyBool ZifyNat.
From PV Require Import Lib.Strings Model.DxCube.
Import ListNotations.
Ltac Zify.zify_post_hook ::= Z.div_mod_to_equations.

Section Chunks.
  Variable V : Type.

  (* list-recursive description of the loop, used only in proofs *)
  Fixpoint chunk_spec (fuel : nat) (l : list V) : list (list V * bool) :=
    match fuel with
    | 0 => []
    | S f =>
        match l with
        | [] => []
        | _ => if 6 <? length l then (firstn 6 l, true) :: chunk_spec f (skipn 6 l)
               else [(l, false)]
        end
    end.

  Lemma skipn_add (a b : nat) (l : list V) : skipn (a + b) l = skipn b (skipn a l).
  Proof.
    revert l; induction a as [|a IH]; intros l; simpl; [reflexivity|].
    destruct l; [now rewrite skipn_nil | apply IH].
  Qed.

  Lemma chunk_at_suffix (vals : list V) k :
    k <= length vals ->
    chunk_at V vals k =
      if 6 <? length (skipn k vals) then (firstn 6 (skipn k vals), true)
      else (skipn k vals, false).
  Proof.
    intros Hk. unfold chunk_at, lslice. rewrite skipn_length.
    replace (k + 6 - k) with 6 by lia.
    destruct (k + 6 <? length vals) eqn:E1; destruct (6 <? length vals - k) eqn:E2;
      try reflexivity; lia.
  Qed.

  Lemma chunks_as_spec (vals : list V) c k :
    k <= length vals -> c = (length vals - k + 5) / 6 ->
    map (chunk_at V vals) (range6 k c) = chunk_spec c (skipn k vals).
  Proof.
    revert k; induction c as [|c IH]; intros k Hk Hc; [reflexivity|].
    cbn [range6 map chunk_spec].
    rewrite (chunk_at_suffix vals k Hk).
    assert (Hlen : length (skipn k vals) = length vals - k) by apply skipn_length.
    destruct (skipn k vals) as [|x xs] eqn:Es.
    - simpl in Hlen. exfalso. lia.
    - rewrite <- Es in *. destruct (6 <? length (skipn k vals)) eqn:E6.
      + f_equal. rewrite <- skipn_add. apply IH; lia.
      + assert (c = 0) by lia. subst c. reflexivity.
  Qed.

  Theorem chunks_spec (vals : list V) :
    chunks V vals = chunk_spec ((length vals + 5) / 6) vals.
  Proof.
    unfold chunks, starts.
    rewrite (chunks_as_spec vals ((length vals + 5) / 6) 0).
    - reflexivity.
    - lia.
    - rewrite Nat.sub_0_r. reflexivity.
  Qed.

  Lemma chunk_spec_concat f (l : list V) :
    (length l + 5) / 6 <= f -> concat (map fst (chunk_spec f l)) = l.
  Proof.
    revert l; induction f as [|f IH]; intros l Hf.
    - destruct l; [reflexivity | cbn [length] in Hf; lia].
    - cbn [chunk_spec]. destruct l as [|x xs]; [reflexivity|].
      destruct (6 <? length (x :: xs)) eqn:E6.
      + cbn [map fst concat]. rewrite IH.
        * apply firstn_skipn.
        * rewrite skipn_length. lia.
      + simpl. now rewrite app_nil_r.
  Qed.

  (* every value is written, once, in order *)
  Theorem chunks_concat (vals : list V) : concat (map fst (chunks V vals)) = vals.
  Proof. rewrite chunks_spec. apply chunk_spec_concat. lia. Qed.

  (* shape: full lines of exactly 6 followed by "\n", then one last line of
     1..6 values without "\n"; nothing at all for an empty grid *)
  Inductive shaped : list (list V * bool) -> Prop :=
  | shaped_last l : 1 <= length l <= 6 -> shaped [(l, false)]
  | shaped_full l r : length l = 6 -> shaped r -> shaped ((l, true) :: r).

  Lemma chunk_spec_shaped f (l : list V) :
    l <> [] -> (length l + 5) / 6 <= f -> shaped (chunk_spec f l).
  Proof.
    revert l; induction f as [|f IH]; intros l Hne Hf.
    - destruct l; [congruence | cbn [length] in Hf; lia].
    - cbn [chunk_spec]. destruct l as [|x xs]; [congruence|].
      destruct (6 <? length (x :: xs)) eqn:E6.
      + apply shaped_full.
        * rewrite firstn_length. lia.
        * apply IH.
          -- intros E. apply (f_equal (@length V)) in E. rewrite skipn_length in E. cbn [length] in *. lia.
          -- rewrite skipn_length. lia.
      + apply shaped_last. cbn [length] in *. lia.
  Qed.

  Theorem chunks_shaped (vals : list V) : vals <> [] -> shaped (chunks V vals).
  Proof. intros H. rewrite chunks_spec. apply chunk_spec_shaped; [exact H | lia]. Qed.

  Theorem chunks_nil : chunks V [] = [].
  Proof. reflexivity. Qed.
End Chunks.

Lemma concat_cons_s x l : String.concat "" (x :: l) = (x ++ String.concat "" l)%string.
Proof. destruct l; simpl; [now rewrite Strings.app_empty_r | reflexivity]. Qed.

Lemma concat_app_s a b :
  String.concat "" (a ++ b) = (String.concat "" a ++ String.concat "" b)%string.
Proof.
  induction a as [|x a IH]; [reflexivity|].
  change ((x :: a) ++ b) with (x :: (a ++ b)). rewrite !concat_cons_s, IH.
  now rewrite Strings.app_assoc_s.
Qed.

Section Text.
  Variable V : Type.
  Variable pfloat : string -> V.
  Variable pint : string -> Z.
  Variables (fmtE fmtF : V -> string) (fmtI : Z -> string).
  (* the printed form of a value is one whitespace-free token [core v]
     possibly surrounded by blanks (what "< 13.5E" produces) *)
  Variable core : V -> string.
  Hypothesis fmtE_token : forall v, tokens (fmtE v) = [core v].

  Lemma tokens_join_fmt (l : list V) : tokens (join " " (map fmtE l)) = map core l.
  Proof.
    rewrite tokens_join_sp, map_map. induction l as [|x r IH]; [reflexivity|].
    simpl. rewrite fmtE_token, IH. reflexivity.
  Qed.

  Lemma tokens_concat_lines (cs : list (list V * bool)) :
    shaped V cs \/ cs = [] ->
    tokens (String.concat "" (map (chunk_text V fmtE) cs)) = map core (concat (map fst cs)).
  Proof.
    intros [H | ->]; [|reflexivity].
    induction H as [l Hl | l r Hl Hr IH].
    - simpl. unfold chunk_text; simpl. rewrite !Strings.app_empty_r, app_nil_r. apply tokens_join_fmt.
    - cbn [map String.concat fst concat].
      assert (Hr' : map (chunk_text V fmtE) r <> []) by (inversion Hr; discriminate).
      destruct (map (chunk_text V fmtE) r) as [|y ys] eqn:Er; [congruence|].
      unfold chunk_text at 1; cbn [fst snd]. unfold nl.
      change ("" ++ ?x)%string with x.
      rewrite Strings.app_assoc_s. cbn [append].
      rewrite tokens_app_ws by reflexivity.
      rewrite tokens_join_fmt, map_app. f_equal. exact IH.
  Qed.

  (* the text written after the atom lines tokenises to exactly the grid
     values, in order: none lost, none duplicated, none invented *)
  Theorem body_tokens (d : dx V) :
    tokens (String.concat "" (cube_body V fmtE d)) = map core (dx_values V d).
  Proof.
    unfold cube_body. rewrite tokens_concat_lines.
    - now rewrite chunks_concat.
    - destruct (dx_values V d) eqn:E; [right; reflexivity | left; apply chunks_shaped; congruence].
  Qed.


  (* ---- header --------------------------------------------------------- *)
  Variables (coreF : V -> string) (coreI : Z -> string).
  Hypothesis fmtF_token : forall v, tokens (fmtF v) = [coreF v].
  Hypothesis fmtI_token : forall n, tokens (fmtI n) = [coreI n].

  Lemma vec_line_tokens lead t a b c :
    tokens lead = [t] ->
    tokens (vec_line V fmtF lead (a, b, c)) = [t; coreF a; coreF b; coreF c].
  Proof.
    intros Hl. unfold vec_line, nl. cbn [append].
    rewrite tokens_app_ws by reflexivity. rewrite Hl.
    rewrite tokens_app_ws by reflexivity. rewrite fmtF_token.
    rewrite tokens_app_ws by reflexivity. rewrite fmtF_token.
    rewrite tokens_ws_suffix by reflexivity. rewrite fmtF_token. reflexivity.
  Qed.

  Definition atom_fields (a : atom V) : list string :=
    [coreI (a_serial V a); coreF (a_charge V a); coreF (a_x V a); coreF (a_y V a); coreF (a_z V a)].

  Lemma atom_line_tokens a : tokens (atom_line V fmtF fmtI a) = atom_fields a.
  Proof.
    unfold atom_line, nl, atom_fields. cbn [append].
    rewrite tokens_app_ws by reflexivity. rewrite fmtI_token.
    rewrite tokens_app_ws by reflexivity. rewrite fmtF_token.
    rewrite tokens_app_ws by reflexivity. rewrite fmtF_token.
    rewrite tokens_app_ws by reflexivity. rewrite fmtF_token.
    rewrite tokens_ws_suffix by reflexivity. rewrite fmtF_token. reflexivity.
  Qed.

  (* lines 3..6 carry natoms+origin and the NEGATED counts with the spacing
     vectors in order; then exactly one line per atom, in order *)
  Theorem header_fields comment d atoms hdr :
    cube_header V fmtF fmtI comment d atoms = Some hdr ->
    exists ox oy oz nx ny nz s0 s1 s2 rest,
      dx_origin V d = Some (ox, oy, oz) /\ dx_counts V d = Some (nx, ny, nz) /\
      dx_deltas V d = s0 :: s1 :: s2 :: rest /\
      map tokens (skipn 2 hdr) =
        ([coreI (Z.of_nat (length atoms)); coreF ox; coreF oy; coreF oz]
         :: (coreI (- nx) :: map coreF [fst (fst s0); snd (fst s0); snd s0])
         :: (coreI (- ny) :: map coreF [fst (fst s1); snd (fst s1); snd s1])
         :: (coreI (- nz) :: map coreF [fst (fst s2); snd (fst s2); snd s2])
         :: map atom_fields atoms).
  Proof.
    unfold cube_header. intros H.
    destruct (dx_origin V d) as [[[ox oy] oz]|]; [|discriminate].
    destruct (dx_counts V d) as [[[nx ny] nz]|]; [|discriminate].
    destruct (dx_deltas V d) as [|[[a0 b0] c0] [|[[a1 b1] c1] [|[[a2 b2] c2] rest]]]; try discriminate.
    injection H as <-.
    exists ox, oy, oz, nx, ny, nz, (a0, b0, c0), (a1, b1, c1), (a2, b2, c2), rest.
    repeat split. cbn [List.app skipn map fst snd].
    pose proof (fun n a b c => vec_line_tokens _ _ a b c (fmtI_token n)) as Hv.
    unfold vec_line in Hv. cbn [append] in Hv. rewrite !Hv.
    repeat f_equal. rewrite map_map. apply map_ext. intros a. apply atom_line_tokens.
  Qed.

  (* ---- read_dx ------------------------------------------------------- *)

  Definition keyword (k : string) : bool :=
    mem_str k ["#"; "attribute"; "component"; "object"; "origin"; "delta"]%string.

  Definition is_data (line : string) : bool :=
    match tokens line with [] => false | k :: _ => negb (keyword k) end.

  Definition data_tokens (lines : list string) : list string :=
    concat (map tokens (filter is_data lines)).

  Lemma dx_line_values d line d' :
    dx_line V pfloat pint d line = Some d' ->
    dx_values V d' = (dx_values V d ++ (if is_data line then map pfloat (tokens line) else []))%list.
  Proof.
    unfold dx_line, is_data, keyword, w.
    destruct (tokens line) as [|k ws] eqn:Et; [discriminate|].
    cbn [mem_str].
    destruct (k =? "#")%string; [intros [= <-]; now rewrite app_nil_r|].
    destruct (k =? "attribute")%string; [intros [= <-]; now rewrite app_nil_r|].
    destruct (k =? "component")%string; [intros [= <-]; now rewrite app_nil_r|].
    cbn [orb].
    destruct (k =? "object")%string.
    { cbn [orb negb]. destruct (nth_error (k :: ws) 1); [|discriminate].
      destruct (s =? "1")%string.
      - destruct (nth_error (k :: ws) 5), (nth_error (k :: ws) 6), (nth_error (k :: ws) 7);
          try discriminate; intros [= <-]; simpl; now rewrite app_nil_r.
      - intros [= <-]; now rewrite app_nil_r. }
    destruct (k =? "origin")%string.
    { cbn [orb negb]. destruct (nth_error (k :: ws) 1), (nth_error (k :: ws) 2), (nth_error (k :: ws) 3);
        try discriminate; intros [= <-]; simpl; now rewrite app_nil_r. }
    destruct (k =? "delta")%string.
    { cbn [orb negb]. destruct (nth_error (k :: ws) 1), (nth_error (k :: ws) 2), (nth_error (k :: ws) 3);
        try discriminate; intros [= <-]; simpl; now rewrite app_nil_r. }
    cbn [orb negb]. intros [= <-]. reflexivity.
  Qed.

  Lemma read_dx_from_values lines : forall d d',
    read_dx_from V pfloat pint d lines = Some d' ->
    dx_values V d' = (dx_values V d ++ map pfloat (data_tokens lines))%list.
  Proof.
    induction lines as [|l r IH]; intros d d' H.
    - injection H as <-. unfold data_tokens; simpl. now rewrite app_nil_r.
    - cbn [read_dx_from] in H.
      destruct (dx_line V pfloat pint d l) as [d1|] eqn:E1; [|discriminate].
      rewrite (IH _ _ H), (dx_line_values _ _ _ E1).
      unfold data_tokens. cbn [filter]. destruct (is_data l).
      + cbn [map concat]. now rewrite map_app, app_assoc.
      + now rewrite app_nil_r.
  Qed.

  (* whenever read_dx returns at all, the values are exactly the tokens of the
     data lines, converted one by one, in file order - however many tokens a
     line holds (1, 3, 6, ...) *)
  Theorem read_dx_values lines d :
    read_dx V pfloat pint lines = Some d ->
    dx_values V d = map pfloat (data_tokens lines).
  Proof. intros H. apply read_dx_from_values in H. exact H. Qed.

  (* composition *)
  Theorem dx2cube_values lines d comment atoms text :
    read_dx V pfloat pint lines = Some d ->
    write_cube V fmtE fmtF fmtI comment d atoms = Some text ->
    exists hdr,
      cube_header V fmtF fmtI comment d atoms = Some hdr /\
      length hdr = 6 + length atoms /\
      text = (String.concat "" hdr ++ String.concat "" (cube_body V fmtE d))%string /\
      tokens (String.concat "" (cube_body V fmtE d)) = map core (map pfloat (data_tokens lines)).
  Proof.
    intros Hr Hw. unfold write_cube in Hw.
    destruct (cube_header V fmtF fmtI comment d atoms) as [hdr|] eqn:Eh; [|discriminate].
    exists hdr. split; [reflexivity|]. split.
    - unfold cube_header in Eh.
      destruct (dx_origin V d), (dx_counts V d) as [[[nx ny] nz]|], (dx_deltas V d) as [|s0 [|s1 [|s2 ?]]];
        try discriminate; injection Eh as <-; cbn [List.app length]; rewrite map_length; reflexivity.
    - split.
      + injection Hw as <-. apply concat_app_s.
      + rewrite body_tokens. now rewrite (read_dx_values _ _ Hr).
  Qed.
End Text.
