(* Proofs about Model/SSBridge.v (C13). *)
From Coq Require Import List Arith ZArith Bool Lia ZifyBool ZifyNat Permutation String.
From PV Require Import Model.SSBridge.
Import ListNotations.

(* ---- generic list facts -------------------------------------------------- *)

Lemma in_app_single {A} (l : list A) (a y : A) : In y (l ++ [a]) <-> In y l \/ y = a.
Proof.
  rewrite in_app_iff. cbn [In]. intuition.
Qed.

Lemma nodup_app_single {A} (l : list A) (a : A) : NoDup l -> ~ In a l -> NoDup (l ++ [a]).
Proof.
  induction l as [|x l IH]; intros Hn Hi; cbn [app].
  - constructor; [intros []|constructor].
  - inversion Hn as [|? ? Hx Hl]; subst. constructor.
    + rewrite in_app_single. intros [H|H]; [exact (Hx H)|]. subst. apply Hi. left. reflexivity.
    + apply IH; [exact Hl|]. intros H. apply Hi. right. exact H.
Qed.

Lemma nodup_all_equal_short {A} (l : list A) :
  NoDup l -> (forall y z, In y l -> In z l -> y = z) -> (List.length l <= 1)%nat.
Proof.
  intros Hn Heq. destruct l as [|a [|b t]]; cbn [List.length]; try lia.
  exfalso. inversion Hn as [|? ? Ha _]; subst. apply Ha.
  rewrite (Heq a b); [left; reflexivity|left; reflexivity|right; left; reflexivity].
Qed.

Lemma nonempty_false (l : list nat) : nonempty l = false <-> l = [].
Proof. destruct l; cbn; split; intros H; try reflexivity; discriminate. Qed.

(* ---- the double loop ----------------------------------------------------- *)

Section Loop.
  Variable close : nat -> nat -> bool.
  Hypothesis close_sym : forall a b, close a b = close b a.
  Variable keys : list nat.

  (* every recorded partner is a distinct key within the limit; membership is
     mutual; no partner is recorded twice *)
  Definition Inv (m : pmap) : Prop :=
    (forall x y, In y (m x) -> close x y = true /\ x <> y /\ In x keys /\ In y keys) /\
    (forall x y, In y (m x) -> In x (m y)) /\
    (forall x, NoDup (m x)).

  Lemma inv_pm0 : Inv pm0.
  Proof.
    unfold Inv, pm0. split; [|split].
    - intros x y [].
    - intros x y [].
    - intros x. constructor.
  Qed.

  Lemma upd_same m k v : upd m k v k = v.
  Proof. unfold upd. rewrite Nat.eqb_refl. reflexivity. Qed.

  Lemma upd_other m k v x : x <> k -> upd m k v x = m x.
  Proof. unfold upd. intros H. destruct (Nat.eqb x k) eqn:E; [apply Nat.eqb_eq in E; contradiction|reflexivity]. Qed.

  (* the state after one successful test in the inner loop *)
  Definition link (m : pmap) (a p : nat) : pmap := upd (upd m a (m a ++ [p])) p (m p ++ [a]).

  Lemma link_at_p m a p : link m a p p = m p ++ [a].
  Proof. unfold link. apply upd_same. Qed.

  Lemma link_at_a m a p : a <> p -> link m a p a = m a ++ [p].
  Proof. intros H. unfold link. rewrite upd_other by exact H. apply upd_same. Qed.

  Lemma link_else m a p x : x <> a -> x <> p -> link m a p x = m x.
  Proof. intros H1 H2. unfold link. rewrite upd_other by exact H2. apply upd_other. exact H1. Qed.

  Lemma link_in m a p x y : a <> p -> m a = [] ->
    (In y (link m a p x) <->
     (x = p /\ (In y (m p) \/ y = a)) \/ (x = a /\ y = p) \/ (x <> p /\ x <> a /\ In y (m x))).
  Proof.
    intros Hap Hma.
    destruct (Nat.eq_dec x p) as [->|Hxp].
    - rewrite link_at_p, in_app_single. split.
      + intros H. left. split; [reflexivity|exact H].
      + intros [[_ H]|[[E _]|[E _]]]; [exact H|exfalso; apply Hap; symmetry; exact E|exfalso; apply E; reflexivity].
    - destruct (Nat.eq_dec x a) as [->|Hxa].
      + rewrite link_at_a by exact Hap. rewrite Hma. cbn [app In]. split.
        * intros [<-|[]]. right. left. split; reflexivity.
        * intros [[E _]|[[_ ->]|[_ [E _]]]]; [contradiction|left; reflexivity|exfalso; apply E; reflexivity].
      + rewrite link_else by assumption. split.
        * intros H. right. right. repeat split; assumption.
        * intros [[E _]|[[E _]|[_ [_ H]]]]; [contradiction|contradiction|exact H].
  Qed.

  Lemma link_inv m a p :
    Inv m -> In a keys -> In p keys -> a <> p -> m a = [] -> close a p = true ->
    Inv (link m a p).
  Proof.
    intros (HS & HM & HN) Ha Hp Hap Hma Hc.
    assert (Hpa : ~ In a (m p)).
    { intros H. apply HM in H. rewrite Hma in H. exact H. }
    split; [|split].
    - (* soundness of entries *)
      intros x y H. apply (link_in m a p x y Hap Hma) in H.
      destruct H as [[-> [H| ->]]|[[-> ->]|(Hxp & Hxa & H)]].
      + apply HS. exact H.
      + rewrite close_sym. repeat split; try assumption. intros E. apply Hap. symmetry. exact E.
      + repeat split; assumption.
      + apply HS. exact H.
    - (* mutual membership *)
      intros x y H. apply (link_in m a p x y Hap Hma) in H. apply (link_in m a p y x Hap Hma).
      destruct H as [[-> [H| ->]]|[[-> ->]|(Hxp & Hxa & H)]].
      + right. right. pose proof (HS p y H) as (_ & Hne & _ & _).
        repeat split.
        * intros E. apply Hne. symmetry. exact E.
        * intros ->. exact (Hpa H).
        * apply HM. exact H.
      + right. left. split; reflexivity.
      + left. split; [reflexivity|right; reflexivity].
      + destruct (Nat.eq_dec y p) as [->|Hyp].
        * left. split; [reflexivity|left; apply HM; exact H].
        * destruct (Nat.eq_dec y a) as [->|Hya].
          -- exfalso. apply HM in H. rewrite Hma in H. exact H.
          -- right. right. repeat split; try assumption. apply HM. exact H.
    - (* no duplicates *)
      intros x.
      destruct (Nat.eq_dec x p) as [->|Hxp].
      + rewrite link_at_p. apply nodup_app_single; [apply HN|exact Hpa].
      + destruct (Nat.eq_dec x a) as [->|Hxa].
        * rewrite link_at_a by exact Hap. rewrite Hma. cbn [app]. constructor; [intros []|constructor].
        * rewrite link_else by assumption. apply HN.
  Qed.

  Lemma inner_inv a : In a keys ->
    forall ps m, incl ps keys -> Inv m -> Inv (inner close a ps m).
  Proof.
    intros Ha. induction ps as [|p r IH]; intros m Hincl Hinv; cbn [inner]; [exact Hinv|].
    assert (Hr : incl r keys) by (intros z Hz; apply Hincl; right; exact Hz).
    assert (Hp : In p keys) by (apply Hincl; left; reflexivity).
    destruct (Nat.eqb a p || nonempty (m a)) eqn:Eg; [apply IH; assumption|].
    apply orb_false_iff in Eg. destruct Eg as [Eap Ene].
    apply Nat.eqb_neq in Eap. apply nonempty_false in Ene.
    destruct (close a p) eqn:Ec; [|apply IH; assumption].
    apply IH; [exact Hr|]. apply link_inv; assumption.
  Qed.

  Lemma fold_inv : forall l m, incl l keys -> Inv m ->
    Inv (fold_left (fun m a => inner close a keys m) l m).
  Proof.
    induction l as [|a l IH]; intros m Hincl Hinv; cbn [fold_left]; [exact Hinv|].
    apply IH; [intros z Hz; apply Hincl; right; exact Hz|].
    apply inner_inv; [apply Hincl; left; reflexivity|apply incl_refl|exact Hinv].
  Qed.

  Lemma scan_inv : Inv (scan close keys).
  Proof. unfold scan. apply fold_inv; [apply incl_refl|apply inv_pm0]. Qed.

  (* lists never shrink to empty *)
  Lemma inner_grow a x : forall ps m, m x <> [] -> inner close a ps m x <> [].
  Proof.
    induction ps as [|p r IH]; intros m Hx; cbn [inner]; [exact Hx|].
    destruct (Nat.eqb a p || nonempty (m a)) eqn:Eg; [apply IH; exact Hx|].
    destruct (close a p); [|apply IH; exact Hx].
    apply IH. unfold upd.
    destruct (Nat.eqb x p); [destruct (m p); discriminate|].
    destruct (Nat.eqb x a); [destruct (m a); discriminate|exact Hx].
  Qed.

  (* an atom's own scan finds a partner if one exists *)
  Lemma inner_finds a : forall ps m,
    (exists j, In j ps /\ j <> a /\ close a j = true) -> inner close a ps m a <> [].
  Proof.
    induction ps as [|p r IH]; intros m (j & Hj & Hja & Hc); [destruct Hj|].
    destruct (m a) eqn:Ema; [|apply inner_grow; rewrite Ema; discriminate].
    cbn [inner]. rewrite Ema. cbn [nonempty]. rewrite orb_false_r.
    destruct (Nat.eqb a p) eqn:Eap.
    - apply Nat.eqb_eq in Eap. subst p. apply IH. exists j.
      destruct Hj as [<-|Hj]; [contradiction Hja; reflexivity|]. repeat split; assumption.
    - apply Nat.eqb_neq in Eap. destruct (close a p) eqn:Ec.
      + apply inner_grow. unfold upd.
        destruct (Nat.eqb a p) eqn:E2; [apply Nat.eqb_eq in E2; contradiction|].
        rewrite Nat.eqb_refl. discriminate.
      + apply IH. exists j. destruct Hj as [<-|Hj]; [rewrite Hc in Ec; discriminate|].
        repeat split; assumption.
  Qed.

  Lemma fold_nonempty x :
    (exists j, In j keys /\ j <> x /\ close x j = true) ->
    forall l m, (m x <> [] \/ In x l) ->
    fold_left (fun m a => inner close a keys m) l m x <> [].
  Proof.
    intros Hex. induction l as [|a l IH]; intros m H; cbn [fold_left].
    - destruct H as [H|[]]. exact H.
    - apply IH. destruct H as [H|[->|H]].
      + left. apply inner_grow. exact H.
      + left. apply inner_finds. exact Hex.
      + right. exact H.
  Qed.

  Lemma scan_nonempty x : In x keys ->
    (exists j, In j keys /\ j <> x /\ close x j = true) -> scan close keys x <> [].
  Proof.
    intros Hx Hex. unfold scan. apply fold_nonempty; [exact Hex|right; exact Hx].
  Qed.

  (* ---- characterisation of the final partner lists ---------------------- *)

  Lemma scan_isolated x :
    (forall k, In k keys -> k <> x -> close x k = false) -> scan close keys x = [].
  Proof.
    intros Hiso. destruct scan_inv as (HS & _ & _).
    destruct (scan close keys x) as [|y t] eqn:E; [reflexivity|exfalso].
    assert (Hy : In y (scan close keys x)) by (rewrite E; left; reflexivity).
    apply HS in Hy. destruct Hy as (Hc & Hne & _ & Hk).
    rewrite Hiso in Hc; [discriminate|exact Hk|]. intros ->. apply Hne. reflexivity.
  Qed.

  Definition at_most_one (x : nat) : Prop :=
    forall y z, In y keys -> In z keys -> y <> x -> z <> x ->
      close x y = true -> close x z = true -> y = z.

  Lemma scan_short x : at_most_one x -> (List.length (scan close keys x) <= 1)%nat.
  Proof.
    intros H1. destruct scan_inv as (HS & _ & HN).
    apply nodup_all_equal_short; [apply HN|].
    intros y z Hy Hz. apply HS in Hy. apply HS in Hz.
    destruct Hy as (Hcy & Hny & _ & Hky). destruct Hz as (Hcz & Hnz & _ & Hkz).
    apply H1; try assumption; intros ->; [apply Hny|apply Hnz]; reflexivity.
  Qed.

  Lemma scan_unique x j : In x keys -> In j keys -> j <> x -> close x j = true ->
    (forall k, In k keys -> k <> x -> k <> j -> close x k = false) ->
    scan close keys x = [j].
  Proof.
    intros Hx Hj Hjx Hc Hoth.
    assert (H1 : at_most_one x).
    { intros y z Hy Hz Hyx Hzx Hcy Hcz.
      destruct (Nat.eq_dec y j) as [->|Hyj]; destruct (Nat.eq_dec z j) as [->|Hzj]; try reflexivity.
      - rewrite Hoth in Hcz; [discriminate|assumption..].
      - rewrite Hoth in Hcy; [discriminate|assumption..].
      - rewrite Hoth in Hcy; [discriminate|assumption..]. }
    pose proof (scan_short x H1) as Hlen.
    assert (Hne : scan close keys x <> []).
    { apply scan_nonempty; [exact Hx|]. exists j. repeat split; assumption. }
    destruct scan_inv as (HS & _ & _).
    destruct (scan close keys x) as [|y [|z t]] eqn:E; [contradiction Hne; reflexivity| |cbn [List.length] in Hlen; lia].
    assert (Hy : In y (scan close keys x)) by (rewrite E; left; reflexivity).
    apply HS in Hy. destruct Hy as (Hcy & Hny & _ & Hky).
    destruct (Nat.eq_dec y j) as [->|Hyj]; [reflexivity|].
    rewrite Hoth in Hcy; [discriminate|exact Hky| |exact Hyj]. intros ->. apply Hny. reflexivity.
  Qed.

  (* with at most one sulfur in range the list is decided by the key *set* *)
  Lemma scan_decided x : In x keys -> at_most_one x ->
    (scan close keys x = [] /\ forall k, In k keys -> k <> x -> close x k = false) \/
    (exists j, scan close keys x = [j] /\ In j keys /\ j <> x /\ close x j = true).
  Proof.
    intros Hx H1. pose proof (scan_short x H1) as Hlen.
    destruct scan_inv as (HS & _ & _).
    destruct (scan close keys x) as [|y [|z t]] eqn:E; [left|right|cbn [List.length] in Hlen; lia].
    - split; [reflexivity|]. intros k Hk Hkx.
      destruct (close x k) eqn:Ec; [exfalso|reflexivity].
      apply (scan_nonempty x Hx); [|exact E]. exists k. repeat split; assumption.
    - exists y. assert (Hy : In y (scan close keys x)) by (rewrite E; left; reflexivity).
      apply HS in Hy. destruct Hy as (Hcy & Hny & _ & Hky).
      repeat split; try assumption. intros ->. apply Hny. reflexivity.
  Qed.
End Loop.

(* independence of the processing order *)
Lemma scan_perm close (close_sym : forall a b, close a b = close b a) keys keys' x :
  Permutation keys keys' -> In x keys -> at_most_one close keys x ->
  scan close keys' x = scan close keys x.
Proof.
  intros HP Hx H1.
  assert (Hx' : In x keys') by (eapply Permutation_in; eassumption).
  assert (H1' : at_most_one close keys' x).
  { intros y z Hy Hz. apply H1; eapply Permutation_in; try eassumption; apply Permutation_sym; exact HP. }
  destruct (scan_decided close close_sym keys x Hx H1) as [[E Hno]|(j & E & Hj & Hjx & Hc)];
  destruct (scan_decided close close_sym keys' x Hx' H1') as [[E' Hno']|(j' & E' & Hj' & Hjx' & Hc')];
  rewrite E, E'; try reflexivity.
  - rewrite Hno in Hc'; [discriminate| |exact Hjx'].
    eapply Permutation_in; [apply Permutation_sym; exact HP|exact Hj'].
  - rewrite Hno' in Hc; [discriminate| |exact Hjx]. eapply Permutation_in; eassumption.
  - f_equal. apply H1; try assumption.
    eapply Permutation_in; [apply Permutation_sym; exact HP|exact Hj'].
Qed.

(* ---- residue level ------------------------------------------------------- *)

Lemma in_sg_keys rs k : In k (sg_keys rs) <-> exists r, In r rs /\ c_sg r = true /\ c_id r = k.
Proof.
  unfold sg_keys. rewrite in_map_iff. split.
  - intros (r & E & Hr). apply filter_In in Hr. exists r. tauto.
  - intros (r & Hr & Hs & E). exists r. split; [exact E|]. apply filter_In. tauto.
Qed.

Lemma sg_keys_perm rs rs' : Permutation rs rs' -> Permutation (sg_keys rs) (sg_keys rs').
Proof.
  intros HP. unfold sg_keys. apply Permutation_map.
  induction HP as [|x l l' HP IH|x y l|l l' l'' HP1 IH1 HP2 IH2]; cbn [filter].
  - constructor.
  - destruct (c_sg x); [constructor|]; exact IH.
  - destruct (c_sg x), (c_sg y); try apply Permutation_refl. apply perm_swap.
  - eapply Permutation_trans; eassumption.
Qed.

(* the observable record is a function of the partner list and the residue *)
Definition out_of (ps : list nat) (r : cres) : cout :=
  let bonded := Nat.eqb (List.length ps) 1 in
  let partner := if bonded then hd_error ps else None in
  let hg1 := c_hg r && negb bonded in
  let ref_hg := match c_name r with CYS => negb bonded | _ => false end in
  let hg2 := hg1 || (ref_hg && negb bonded && c_build r) in
  let ff := if bonded || cname_eqb (c_name r) CYX || bonded then CYX
            else if cname_eqb (c_name r) CYM then CYM
            else if negb hg2 then CYX else c_name r in
  mkout ps bonded partner bonded hg2 ff.

Lemma ss_result_out close rs r : ss_result close rs r = out_of (partners_of close rs r) r.
Proof. reflexivity. Qed.

Section Residues.
  Variable close : nat -> nat -> bool.
  Hypothesis close_sym : forall a b, close a b = close b a.

  (* the property's hypothesis for a pair *)
  Definition exclusive_pair (rs : list cres) (ri rj : cres) : Prop :=
    In ri rs /\ In rj rs /\ c_sg ri = true /\ c_sg rj = true /\ c_id ri <> c_id rj /\
    close (c_id ri) (c_id rj) = true /\
    forall rk, In rk rs -> c_sg rk = true -> c_id rk <> c_id ri -> c_id rk <> c_id rj ->
      close (c_id ri) (c_id rk) = false /\ close (c_id rj) (c_id rk) = false.

  Lemma pair_partners rs ri rj : exclusive_pair rs ri rj ->
    partners_of close rs ri = [c_id rj] /\ partners_of close rs rj = [c_id ri].
  Proof.
    intros (Hi & Hj & Si & Sj & Hne & Hc & Hoth). unfold partners_of. rewrite Si, Sj.
    assert (Ki : In (c_id ri) (sg_keys rs)) by (apply in_sg_keys; exists ri; tauto).
    assert (Kj : In (c_id rj) (sg_keys rs)) by (apply in_sg_keys; exists rj; tauto).
    split; apply scan_unique; try assumption.
    - intros E. apply Hne. symmetry. exact E.
    - intros k Hk Hki Hkj. apply in_sg_keys in Hk. destruct Hk as (rk & Hrk & Sk & <-).
      apply Hoth; assumption.
    - rewrite close_sym. exact Hc.
    - intros k Hk Hkj Hki. apply in_sg_keys in Hk. destruct Hk as (rk & Hrk & Sk & <-).
      apply Hoth; assumption.
  Qed.

  Theorem ss_pair_symmetric rs ri rj : exclusive_pair rs ri rj ->
    let oi := ss_result close rs ri in
    let oj := ss_result close rs rj in
    o_partners oi = [c_id rj] /\ o_partners oj = [c_id ri] /\
    o_bonded oi = true /\ o_bonded oj = true /\
    o_partner oi = Some (c_id rj) /\ o_partner oj = Some (c_id ri) /\
    o_patched oi = true /\ o_patched oj = true /\
    o_ff oi = CYX /\ o_ff oj = CYX /\
    o_hg oi = false /\ o_hg oj = false.
  Proof.
    intros H. destruct (pair_partners rs ri rj H) as [Ei Ej].
    cbn zeta. rewrite !ss_result_out, Ei, Ej. unfold out_of. cbn [List.length Nat.eqb hd_error
      o_partners o_bonded o_partner o_patched o_ff o_hg negb orb andb].
    rewrite !andb_false_r. cbn [orb].
    destruct (c_name ri), (c_name rj); cbn; repeat split; reflexivity.
  Qed.

  Definition isolated (rs : list cres) (r : cres) : Prop :=
    forall rk, In rk rs -> c_sg rk = true -> c_id rk <> c_id r -> close (c_id r) (c_id rk) = false.

  Lemma isolated_partners rs r : isolated rs r -> partners_of close rs r = [].
  Proof.
    intros Hiso. unfold partners_of. destruct (c_sg r); [|reflexivity].
    apply scan_isolated; [exact close_sym|].
    intros k Hk Hkr. apply in_sg_keys in Hk. destruct Hk as (rk & Hrk & Sk & <-).
    apply Hiso; assumption.
  Qed.

  Theorem ss_isolated_free rs r :
    c_name r = CYS -> isolated rs r -> (c_hg r = true \/ c_build r = true) ->
    let o := ss_result close rs r in
    o_partners o = [] /\ o_bonded o = false /\ o_partner o = None /\ o_patched o = false /\
    o_hg o = true /\ o_ff o = CYS.
  Proof.
    intros Hn Hiso Hb. cbn zeta. rewrite ss_result_out, (isolated_partners rs r Hiso).
    unfold out_of. rewrite Hn. cbn [List.length Nat.eqb hd_error cname_eqb
      o_partners o_bonded o_partner o_patched o_ff o_hg negb orb andb].
    rewrite andb_true_r.
    assert (E : c_hg r || c_build r = true) by (destruct Hb as [-> | ->]; [reflexivity|apply orb_true_r]).
    rewrite E. cbn. repeat split; reflexivity.
  Qed.

  (* at most one sulfur in range of r's sulfur *)
  Definition at_most_one_res (rs : list cres) (r : cres) : Prop :=
    forall r1 r2, In r1 rs -> In r2 rs -> c_sg r1 = true -> c_sg r2 = true ->
      c_id r1 <> c_id r -> c_id r2 <> c_id r ->
      close (c_id r) (c_id r1) = true -> close (c_id r) (c_id r2) = true -> c_id r1 = c_id r2.

  Theorem ss_perm_invariant rs rs' r :
    Permutation rs rs' -> In r rs -> at_most_one_res rs r ->
    ss_result close rs' r = ss_result close rs r.
  Proof.
    intros HP Hr H1. rewrite !ss_result_out. f_equal.
    unfold partners_of. destruct (c_sg r) eqn:Sr; [|reflexivity].
    apply scan_perm; [exact close_sym|apply sg_keys_perm; exact HP| |].
    - apply in_sg_keys. exists r. tauto.
    - intros y z Hy Hz Hyx Hzx Hcy Hcz.
      apply in_sg_keys in Hy. destruct Hy as (r1 & Hr1 & S1 & <-).
      apply in_sg_keys in Hz. destruct Hz as (r2 & Hr2 & S2 & <-).
      apply (H1 r1 r2); assumption.
  Qed.

  (* whole structure: every sulfur has at most one sulfur in range *)
  Theorem ss_perm_invariant_all rs rs' :
    Permutation rs rs' -> (forall r, In r rs -> at_most_one_res rs r) ->
    Permutation (ss_results close rs) (ss_results close rs').
  Proof.
    intros HP H1. unfold ss_results.
    rewrite (map_ext_in (fun r => (c_id r, ss_result close rs r))
                        (fun r => (c_id r, ss_result close rs' r))).
    - apply Permutation_map. exact HP.
    - intros r Hr. f_equal. symmetry. apply ss_perm_invariant; [exact HP|exact Hr|apply H1; exact Hr].
  Qed.
End Residues.

(* chain labels and residue numbers are never read *)
Definition relabel (f : cres -> nat) (g : cres -> Z) (r : cres) : cres :=
  mkres (c_id r) (c_name r) (c_sg r) (c_hg r) (c_build r) (f r) (g r).

Lemma sg_keys_relabel f g rs : sg_keys (map (relabel f g) rs) = sg_keys rs.
Proof.
  unfold sg_keys. induction rs as [|r rs IH]; [reflexivity|].
  cbn [map filter relabel c_sg]. destruct (c_sg r); cbn [map c_id]; rewrite IH; reflexivity.
Qed.

Theorem ss_label_invariant close f g rs r :
  ss_result close (map (relabel f g) rs) (relabel f g r) = ss_result close rs r.
Proof.
  unfold ss_result, partners_of. rewrite sg_keys_relabel. reflexivity.
Qed.

(* ---- the integer instance ------------------------------------------------ *)

Lemma closeZ_sym tab a b : closeZ tab a b = closeZ tab b a.
Proof.
  unfold closeZ, dist2Z. destruct (coordZ tab a) as [[x1 y1] z1]. destruct (coordZ tab b) as [[x2 y2] z2].
  unfold zsq. f_equal. ring.
Qed.

(* ---- witnesses outside the hypothesis (a third sulfur in range) ---------- *)

Definition R (i : nat) : cres := mkres i CYS true false true 0 0%Z.

(* three sulfurs pairwise 2.0 A apart (milli-angstrom) *)
Definition tri_tab : list (nat * (Z * Z * Z)) :=
  [(0, (0, 0, 0)%Z); (1, (2000, 0, 0)%Z); (2, (1000, 1700, 0)%Z)].

Theorem ss_third_sulfur_order_dependent :
  exists (tab : list (nat * (Z * Z * Z))) (rs rs' : list cres) (r : cres),
    Permutation rs rs' /\ In r rs /\
    o_bonded (ss_result (closeZ tab) rs r) = false /\
    o_bonded (ss_result (closeZ tab) rs' r) = true.
Proof.
  exists tri_tab, [R 0; R 1; R 2], [R 2; R 1; R 0], (R 0).
  split; [|split; [left; reflexivity|split; vm_compute; reflexivity]].
  change [R 2; R 1; R 0] with (rev [R 0; R 1; R 2]). apply Permutation_rev.
Qed.

(* ... and then flagging is not mutual: 1 points at 0, 0 is not bonded *)
Theorem ss_third_sulfur_not_mutual :
  exists (tab : list (nat * (Z * Z * Z))) (rs : list cres) (ri rj : cres),
    In ri rs /\ In rj rs /\
    o_partner (ss_result (closeZ tab) rs ri) = Some (c_id rj) /\
    o_bonded (ss_result (closeZ tab) rs rj) = false /\
    o_partner (ss_result (closeZ tab) rs rj) = None.
Proof.
  exists tri_tab, [R 0; R 1; R 2], (R 1), (R 0).
  split; [right; left; reflexivity|split; [left; reflexivity|]].
  split; [|split]; vm_compute; reflexivity.
Qed.

(* a free CYS whose HG cannot be placed is named CYX (Appendix B quirk) *)
Theorem ss_free_unbuildable_named_CYX :
  exists (rs : list cres) (r : cres),
    In r rs /\ c_name r = CYS /\ isolated (closeZ []) rs r /\
    o_bonded (ss_result (closeZ []) rs r) = false /\
    o_hg (ss_result (closeZ []) rs r) = false /\
    o_ff (ss_result (closeZ []) rs r) = CYX.
Proof.
  exists [mkres 0 CYS true false false 0 0%Z], (mkres 0 CYS true false false 0 0%Z).
  split; [left; reflexivity|split; [reflexivity|split]].
  - intros rk [<-|[]] _ H. contradiction H. reflexivity.
  - split; [|split]; vm_compute; reflexivity.
Qed.
