(* Proofs for the moveable-set model (C04, C05): if the boolean graph
   conditions hold, moving exactly the set M by ANY isometry that fixes the two
   axis atoms preserves every bond length and every bond angle (all three
   pairwise distances of every bonded triple) among the atoms of interest. *)
From Coq Require Import List PArith Bool Arith.
From PV Require Import Model.ForceField Model.Topology Model.Moves.
Import ListNotations.

Lemma mem_In a l : mem a l = true <-> In a l.
Proof.
  unfold mem. rewrite existsb_exists. split.
  - intros [x [H1 H2]]. apply Pos.eqb_eq in H2. subst. exact H1.
  - intros H. exists a. split; [exact H | apply Pos.eqb_refl].
Qed.

Section Rigid.
  Variables P D : Type.
  Variable dist : P -> P -> D.
  Variable Rt : P -> P.                        (* the motion applied to the moved set *)
  Hypothesis Rt_iso : forall x y, dist (Rt x) (Rt y) = dist x y.

  Variable keep : id -> bool.
  Variable g : graph.
  Variables b c : id.
  Variable M : list id.
  Variable pos : id -> P.
  Hypothesis fix_b : Rt (pos b) = pos b.        (* the axis atoms are fixed points *)
  Hypothesis fix_c : Rt (pos c) = pos c.
  Hypothesis ok : rigid_ok keep g b c M = true.

  Definition pos' (a : id) : P := if inM M a then Rt (pos a) else pos a.

  Let Hclosed : cond_closed keep g c M = true.
  Proof. unfold rigid_ok in ok. rewrite !andb_true_iff in ok. tauto. Qed.
  Let Hpivot : cond_pivot keep g b c M = true.
  Proof. unfold rigid_ok in ok. rewrite !andb_true_iff in ok. tauto. Qed.
  Let Haxis : cond_axis b c M = true.
  Proof. unfold rigid_ok in ok. rewrite !andb_true_iff in ok. tauto. Qed.
  Let Hsym : cond_sym g = true.
  Proof. unfold rigid_ok in ok. rewrite !andb_true_iff in ok. tauto. Qed.

  (* atoms that follow Rt: the moved set and the two axis atoms *)
  Definition inT (a : id) : Prop := inM M a = true \/ a = b \/ a = c.

  Lemma pos'_T a : inT a -> pos' a = Rt (pos a).
  Proof.
    unfold pos'. intros [H | [-> | ->]].
    - now rewrite H.
    - destruct (inM M b); [reflexivity | now rewrite fix_b].
    - destruct (inM M c); [reflexivity | now rewrite fix_c].
  Qed.

  Lemma pair_T u v : inT u -> inT v -> dist (pos' u) (pos' v) = dist (pos u) (pos v).
  Proof. intros Hu Hv. rewrite (pos'_T _ Hu), (pos'_T _ Hv). apply Rt_iso. Qed.

  Lemma pair_U u v : inM M u = false -> inM M v = false -> dist (pos' u) (pos' v) = dist (pos u) (pos v).
  Proof. unfold pos'. intros -> ->. reflexivity. Qed.

  Lemma closed_use u v :
    In u (nodes g) -> keep u = true -> inM M u = true -> In v (nbrs g u) -> keep v = true ->
    inM M v = true \/ v = c.
  Proof.
    intros Hu Ku Mu Hv Kv. unfold cond_closed in Hclosed. rewrite forallb_forall in Hclosed.
    specialize (Hclosed u Hu). rewrite Ku, Mu in Hclosed. simpl in Hclosed.
    rewrite forallb_forall in Hclosed. specialize (Hclosed v Hv). rewrite Kv in Hclosed. simpl in Hclosed.
    apply orb_true_iff in Hclosed as [H | H]; [left; exact H | right; now apply Pos.eqb_eq in H].
  Qed.

  Lemma sym_use u v : In u (nodes g) -> In v (nbrs g u) -> In u (nbrs g v).
  Proof.
    intros Hu Hv. unfold cond_sym in Hsym. rewrite forallb_forall in Hsym.
    specialize (Hsym u Hu). rewrite forallb_forall in Hsym. specialize (Hsym v Hv).
    now apply mem_In in Hsym.
  Qed.

  Lemma nbrs_nonempty_node v u : In u (nbrs g v) -> In v (nodes g).
  Proof.
    unfold nbrs, nodes. destruct (find (fun p => Pos.eqb (fst p) v) g) as [p|] eqn:E; [|intros []].
    intros _. apply find_some in E as [E1 E2]. apply Pos.eqb_eq in E2. subst v.
    apply in_map. exact E1.
  Qed.

  Lemma pivot_use v : In v (nbrs g c) -> keep v = true -> inM M v = true \/ v = b.
  Proof.
    intros Hv Kv. unfold cond_pivot in Hpivot. rewrite forallb_forall in Hpivot.
    specialize (Hpivot v Hv). rewrite Kv in Hpivot. simpl in Hpivot.
    apply orb_true_iff in Hpivot as [H | H]; [left; exact H | right; now apply Pos.eqb_eq in H].
  Qed.

  Lemma c_not_moved : inM M c = false.
  Proof. unfold cond_axis in Haxis. apply andb_true_iff in Haxis as [_ H]. now apply negb_true_iff in H. Qed.

  (* classification of a bonded pair *)
  Lemma bond_class u v :
    In u (nodes g) -> In v (nbrs g u) -> keep u = true -> keep v = true ->
    (inT u /\ inT v) \/ (inM M u = false /\ inM M v = false).
  Proof.
    intros Hu Hv Ku Kv.
    destruct (inM M u) eqn:Mu.
    - left. split; [left; exact Mu|]. destruct (closed_use u v Hu Ku Mu Hv Kv) as [H | ->]; [left; exact H | right; right; reflexivity].
    - destruct (inM M v) eqn:Mv; [|right; split; reflexivity].
      left. pose proof (sym_use u v Hu Hv) as Huv.
      pose proof (nbrs_nonempty_node v u Huv) as Hvn.
      destruct (closed_use v u Hvn Kv Mv Huv Ku) as [H | ->]; [congruence|].
      split; [right; right; reflexivity | left; exact Mv].
  Qed.

  (* every bond length is preserved *)
  Theorem bond_preserved u v :
    In u (nodes g) -> In v (nbrs g u) -> keep u = true -> keep v = true ->
    dist (pos' u) (pos' v) = dist (pos u) (pos v).
  Proof.
    intros Hu Hv Ku Kv. destruct (bond_class u v Hu Hv Ku Kv) as [[H1 H2] | [H1 H2]];
      [apply pair_T | apply pair_U]; assumption.
  Qed.

  (* every bond angle u - v - w is preserved: the third side of the triangle
     keeps its length too *)
  Theorem angle_preserved u v w :
    In v (nodes g) -> In u (nbrs g v) -> In w (nbrs g v) ->
    keep u = true -> keep v = true -> keep w = true ->
    dist (pos' u) (pos' w) = dist (pos u) (pos w).
  Proof.
    intros Hv Hu Hw Ku Kv Kw.
    destruct (inM M v) eqn:Mv.
    - apply pair_T.
      + destruct (closed_use v u Hv Kv Mv Hu Ku) as [H | ->]; [left; exact H | right; right; reflexivity].
      + destruct (closed_use v w Hv Kv Mv Hw Kw) as [H | ->]; [left; exact H | right; right; reflexivity].
    - destruct (Pos.eq_dec v c) as [-> | Hvc].
      + apply pair_T.
        * destruct (pivot_use u Hu Ku) as [H | ->]; [left; exact H | right; left; reflexivity].
        * destruct (pivot_use w Hw Kw) as [H | ->]; [left; exact H | right; left; reflexivity].
      + apply pair_U.
        * destruct (inM M u) eqn:Mu; [|reflexivity]. exfalso.
          pose proof (sym_use v u Hv Hu) as Hvu. pose proof (nbrs_nonempty_node u v Hvu) as Hun.
          destruct (closed_use u v Hun Ku Mu Hvu Kv) as [H | H]; congruence.
        * destruct (inM M w) eqn:Mw; [|reflexivity]. exfalso.
          pose proof (sym_use v w Hv Hw) as Hvw. pose proof (nbrs_nonempty_node w v Hvw) as Hwn.
          destruct (closed_use w v Hwn Kw Mw Hvw Kv) as [H | H]; congruence.
  Qed.

  (* atoms outside the moved set keep their position exactly *)
  Theorem frame a : inM M a = false -> pos' a = pos a.
  Proof. unfold pos'. now intros ->. Qed.
End Rigid.
