(* C16: Mol2Molecule.assign_parameters under a relabelling of the atoms.

   Proofs/Peoe.v has the three ingredients
     - peoe_equivariant            (the PEOE kernel),
     - formal_charge_equivariant   (Mol2Atom.formal_charge),
     - the radius is looked up by atom type only,
   this file assembles them: permuting the atoms of a molecule permutes the
   (radius, charge) list of assign_parameters exactly (Leibniz equality of the
   rationals) and assign_parameters raises iff it raises on the original. *)
From Coq Require Import String List Arith ZArith QArith Bool Lia.
From PV Require Import Lib.Strings Model.Peoe Proofs.Peoe.
Import ListNotations.

(* ---- 1. the kernel reads ty and ch below n only --------------------------- *)

Section EquilibrateExt.
  Context {A : Type} (ops : Arith A) {T : Type} (chi : T -> A -> A).
  Context (n : nat) (ty1 ty2 : nat -> T) (bonds : list (nat * nat)) (ch1 ch2 : nat -> A).
  Context (damp scale : A) (ncyc : nat).
  Context (Hok : bonds_ok n bonds = true).
  Context (Hty : forall i, (i < n)%nat -> ty1 i = ty2 i).
  Context (Hch : forall i, (i < n)%nat -> ch1 i = ch2 i).

  Lemma delta_ext q k i :
    (i < n)%nat -> delta ops chi ty1 bonds damp q k i = delta ops chi ty2 bonds damp q k i.
  Proof.
    intros Hi. unfold delta. apply fold_left_ext_in. intros a j Hj.
    apply (nbrs_lt n bonds i j Hok) in Hj. unfold transfer.
    rewrite (Hty i Hi), (Hty j Hj). reflexivity.
  Qed.

  Lemma abs_qges_ext : abs_qges ops n ch1 = abs_qges ops n ch2.
  Proof.
    unfold abs_qges, atoms. apply fold_left_ext_in. intros a i Hi.
    apply in_seq in Hi. rewrite (Hch i) by lia. reflexivity.
  Qed.

  Lemma cycle_ext q k :
    cycle ops chi n ty1 bonds ch1 damp scale ncyc q k =
    cycle ops chi n ty2 bonds ch2 damp scale ncyc q k.
  Proof.
    unfold cycle, atoms. cbv zeta. rewrite abs_qges_ext. apply map_ext_in. intros i Hi.
    apply in_seq in Hi. rewrite (delta_ext _ k i) by lia.
    unfold efc. rewrite (Hch i) by lia. reflexivity.
  Qed.

  Lemma cycles_ext q k c :
    cycles ops chi n ty1 bonds ch1 damp scale ncyc q k c =
    cycles ops chi n ty2 bonds ch2 damp scale ncyc q k c.
  Proof.
    revert q k. induction c as [|c IH]; intros q k; cbn [cycles]; [reflexivity|].
    rewrite cycle_ext. apply IH.
  Qed.

  Lemma equilibrate_ext :
    equilibrate ops chi n ty1 bonds ch1 damp scale ncyc =
    equilibrate ops chi n ty2 bonds ch2 damp scale ncyc.
  Proof. unfold equilibrate. rewrite cycles_ext. reflexivity. Qed.
End EquilibrateExt.

(* ---- 2. all_some, forallb, combine by position ---------------------------- *)

Lemma all_some_nth {V} (l : list (option V)) r :
  all_some l = Some r -> forall i, nth_error l i = option_map Some (nth_error r i).
Proof.
  revert r. induction l as [|[v|] l IH]; cbn [all_some]; intros r H i; try discriminate.
  - injection H as <-. destruct i; reflexivity.
  - destruct (all_some l) as [r'|]; [|discriminate]. injection H as <-.
    destruct i; cbn [nth_error option_map]; [reflexivity | apply IH; reflexivity].
Qed.

Lemma all_some_none {V} (l : list (option V)) :
  all_some l = None -> exists i, nth_error l i = Some None.
Proof.
  induction l as [|[v|] l IH]; cbn [all_some]; intros H; try discriminate.
  - destruct (all_some l); [discriminate|]. destruct (IH eq_refl) as [i Hi]. exists (S i). exact Hi.
  - exists 0%nat. reflexivity.
Qed.

Lemma nth_error_combine {X Y} (a : list X) (b : list Y) k :
  nth_error (combine a b) k =
  match nth_error a k, nth_error b k with Some x, Some y => Some (x, y) | _, _ => None end.
Proof.
  revert b k. induction a as [|x a IH]; intros [|y b] [|k]; cbn [combine nth_error];
    try reflexivity; try (destruct (nth_error a k); reflexivity).
  apply IH.
Qed.

Lemma nth_error_map_seq {X} (f : nat -> X) n i :
  (i < n)%nat -> nth_error (map f (seq 0 n)) i = Some (f i).
Proof.
  intros H. rewrite (nth_error_nth' _ (f 0%nat)) by (rewrite map_length, seq_length; exact H).
  rewrite nth_map_seq by exact H. reflexivity.
Qed.

Lemma nth_of_nth_error {X} (l l' : list X) i j d :
  nth_error l i = nth_error l' j -> nth i l d = nth j l' d.
Proof.
  intros H. destruct (nth_error l i) as [x|] eqn:E.
  - rewrite (nth_error_nth _ _ d E). symmetry. apply nth_error_nth. symmetry. exact H.
  - symmetry in H. apply nth_error_None in E, H. rewrite !nth_overflow by assumption. reflexivity.
Qed.

Section Perm.
  Context (n : nat) (sigma tau : nat -> nat).
  Context (Hsigma : forall i, (i < n)%nat -> (sigma i < n)%nat).
  Context (Htau : forall k, (k < n)%nat -> (tau k < n)%nat).
  Context (Hts : forall i, (i < n)%nat -> tau (sigma i) = i).
  Context (Hst : forall k, (k < n)%nat -> sigma (tau k) = k).

  (* l' is l with the entry at position i moved to position sigma i *)
  Definition moved {X} (l l' : list X) : Prop :=
    length l = n /\ length l' = n /\
    forall i, (i < n)%nat -> nth_error l' (sigma i) = nth_error l i.

  Lemma moved_back {X} (l l' : list X) k :
    moved l l' -> (k < n)%nat -> nth_error l' k = nth_error l (tau k).
  Proof.
    intros [_ [_ H]] Hk. rewrite <- (H (tau k) (Htau k Hk)), (Hst k Hk). reflexivity.
  Qed.

  Lemma perm_all_some {V} (l l' : list (option V)) :
    moved l l' ->
    match all_some l, all_some l' with
    | Some r, Some r' => moved r r'
    | None, None => True
    | _, _ => False
    end.
  Proof.
    intros Hm. pose proof Hm as [Hl [Hl' Hrel]].
    destruct (all_some l) as [r|] eqn:E; destruct (all_some l') as [r'|] eqn:E'.
    - split; [|split].
      + rewrite (all_some_length _ _ E). exact Hl.
      + rewrite (all_some_length _ _ E'). exact Hl'.
      + intros i Hi. pose proof (all_some_nth _ _ E i) as H1.
        pose proof (all_some_nth _ _ E' (sigma i)) as H2.
        rewrite (Hrel i Hi), H1 in H2.
        destruct (nth_error r i), (nth_error r' (sigma i)); cbn [option_map] in H2; congruence.
    - apply all_some_none in E' as [k Hk].
      assert (Hkn : (k < n)%nat) by (rewrite <- Hl'; apply nth_error_Some; rewrite Hk; discriminate).
      rewrite (moved_back _ _ k Hm Hkn), (all_some_nth _ _ E) in Hk.
      destruct (nth_error r (tau k)); discriminate.
    - apply all_some_none in E as [i Hi].
      assert (Hin : (i < n)%nat) by (rewrite <- Hl; apply nth_error_Some; rewrite Hi; discriminate).
      rewrite <- (Hrel i Hin), (all_some_nth _ _ E') in Hi.
      destruct (nth_error r' (sigma i)); discriminate.
    - exact I.
  Qed.

  Lemma perm_forallb {X} (p : X -> bool) (l l' : list X) :
    moved l l' -> forallb p l' = forallb p l.
  Proof.
    intros Hm. pose proof Hm as [Hl [Hl' Hrel]].
    apply eq_iff_eq_true. rewrite !forallb_forall. split; intros H x Hx; apply H.
    - apply In_nth_error in Hx as [i Hi].
      assert (Hin : (i < n)%nat) by (rewrite <- Hl; apply nth_error_Some; rewrite Hi; discriminate).
      rewrite <- (Hrel i Hin) in Hi. exact (nth_error_In _ _ Hi).
    - apply In_nth_error in Hx as [k Hk].
      assert (Hkn : (k < n)%nat) by (rewrite <- Hl'; apply nth_error_Some; rewrite Hk; discriminate).
      rewrite (moved_back _ _ k Hm Hkn) in Hk. exact (nth_error_In _ _ Hk).
  Qed.

  Lemma moved_map {X Y} (f : X -> Y) (l l' : list X) : moved l l' -> moved (map f l) (map f l').
  Proof.
    intros [Hl [Hl' Hrel]]. split; [|split]; try (rewrite map_length; assumption).
    intros i Hi. rewrite !nth_error_map, (Hrel i Hi). reflexivity.
  Qed.

  Lemma moved_combine {X Y} (a a' : list X) (b b' : list Y) :
    moved a a' -> moved b b' ->
    forall i, (i < n)%nat -> nth_error (combine a' b') (sigma i) = nth_error (combine a b) i.
  Proof.
    intros [_ [_ Ha]] [_ [_ Hb]] i Hi. rewrite !nth_error_combine, (Ha i Hi), (Hb i Hi). reflexivity.
  Qed.
End Perm.

(* ---- 3. the relabelled molecule ------------------------------------------- *)

Section Relabel.
  Context (m : mol) (sigma tau : nat -> nat).
  Local Notation n := (m_n m).
  Context (Hsigma : forall i, (i < n)%nat -> (sigma i < n)%nat).
  Context (Htau : forall k, (k < n)%nat -> (tau k < n)%nat).
  Context (Hts : forall i, (i < n)%nat -> tau (sigma i) = i).
  Context (Hst : forall k, (k < n)%nat -> sigma (tau k) = k).
  Context (Hok : mol_ok m = true).

  Local Notation m' := (relabel m sigma tau).

  Lemma relabel_pairs : m_pairs m' = bonds' (m_pairs m) sigma.
  Proof.
    unfold m_pairs, bonds', relabel. cbn [m_bonds]. rewrite !map_map. reflexivity.
  Qed.

  Lemma relabel_ok : mol_ok m' = true.
  Proof.
    unfold mol_ok. rewrite relabel_n, relabel_pairs.
    apply (bonds'_ok n (m_pairs m) sigma Hsigma). exact Hok.
  Qed.

  Lemma relabel_ty_below k : (k < n)%nat -> m_ty m' k = m_ty m (tau k).
  Proof.
    intros Hk. unfold m_ty at 1. unfold relabel. cbn [m_types].
    rewrite nth_map_seq by exact Hk. reflexivity.
  Qed.

  Lemma moved_types : moved n sigma (m_types m) (m_types m').
  Proof.
    split; [reflexivity|]. split; [exact (relabel_n m sigma tau)|].
    intros i Hi. unfold relabel. cbn [m_types].
    rewrite nth_error_map_seq by (apply Hsigma, Hi). rewrite (Hts i Hi).
    unfold m_ty. symmetry. apply nth_error_nth'. exact Hi.
  Qed.

  Lemma moved_formal :
    moved n sigma (map (formal_charge2 m) (seq 0 n)) (map (formal_charge2 m') (seq 0 (m_n m'))).
  Proof.
    rewrite relabel_n.
    split; [now rewrite map_length, seq_length|]. split; [now rewrite map_length, seq_length|].
    intros i Hi. rewrite !nth_error_map_seq by (try apply Hsigma; exact Hi).
    rewrite (formal_charge_equivariant m sigma tau Hsigma Hts Hok i Hi). reflexivity.
  Qed.

  Lemma moved_equilibrate (fc2 fc2' : list Z) ncyc :
    moved n sigma fc2 fc2' ->
    moved n sigma (equilibrate_code QA m fc2 (damping QA) (scaling QA) ncyc)
                  (equilibrate_code QA m' fc2' (damping QA) (scaling QA) ncyc).
  Proof.
    intros Hfc. unfold equilibrate_code.
    split; [apply equilibrate_length|]. split; [rewrite equilibrate_length; apply relabel_n|].
    intros i Hi. rewrite relabel_n, relabel_pairs.
    rewrite (equilibrate_ext QA (chi_code QA) n (m_ty m') (ty' (m_ty m) tau)
               (bonds' (m_pairs m) sigma)
               (fun k => half QA (nth k fc2' 0%Z))
               (ch' (fun k => half QA (nth k fc2 0%Z)) tau)).
    - apply (peoe_equivariant QA QA_laws (chi_code QA) n (m_ty m) (m_pairs m)
               (fun k => half QA (nth k fc2 0%Z)) (damping QA) (scaling QA) ncyc sigma tau
               Hsigma Htau Hts Hok i Hi).
    - apply (bonds'_ok n (m_pairs m) sigma Hsigma). exact Hok.
    - intros k Hk. unfold ty'. apply relabel_ty_below, Hk.
    - intros k Hk. unfold ch'. f_equal. apply nth_of_nth_error.
      apply (moved_back n sigma tau Htau Hst _ _ k Hfc Hk).
  Qed.

  Theorem assign_parameters_moved ncyc :
    match assign_parameters_n QA m ncyc, assign_parameters_n QA m' ncyc with
    | Some ps, Some ps' => forall i, (i < n)%nat -> nth_error ps' (sigma i) = nth_error ps i
    | None, None => True
    | _, _ => False
    end.
  Proof.
    unfold assign_parameters_n. rewrite Hok, relabel_ok. cbn [negb].
    pose proof (perm_all_some n sigma tau Htau Hst _ _ (moved_map n sigma radius_of _ _ moved_types)) as Hrad.
    destruct (all_some (map radius_of (m_types m))) as [radii|];
      destruct (all_some (map radius_of (m_types m'))) as [radii'|]; try contradiction; [|exact I].
    unfold formal_charges2.
    pose proof (perm_all_some n sigma tau Htau Hst _ _ moved_formal) as Hfc.
    destruct (all_some (map (formal_charge2 m) (seq 0 n))) as [fc2|];
      destruct (all_some (map (formal_charge2 m') (seq 0 (m_n m')))) as [fc2'|]; try contradiction; [|exact I].
    rewrite (perm_forallb n sigma tau Htau Hst _ _ _ moved_types).
    destruct (forallb _ (m_types m)); cbn [negb]; [|exact I].
    apply moved_combine; [exact Hrad|]. apply moved_equilibrate. exact Hfc.
  Qed.
End Relabel.

(* ---- 4. the theorem -------------------------------------------------------- *)

Theorem assign_parameters_relabel :
  forall (m : mol) (ncyc : nat) (sigma tau : nat -> nat),
  (forall i, (i < m_n m)%nat -> (sigma i < m_n m)%nat) ->
  (forall k, (k < m_n m)%nat -> (tau k < m_n m)%nat) ->
  (forall i, (i < m_n m)%nat -> tau (sigma i) = i) ->
  (forall k, (k < m_n m)%nat -> sigma (tau k) = k) ->
  mol_ok m = true ->
  match assign_parameters_n QA m ncyc, assign_parameters_n QA (relabel m sigma tau) ncyc with
  | Some ps, Some ps' => forall i, (i < m_n m)%nat -> nth_error ps' (sigma i) = nth_error ps i
  | None, None => True
  | _, _ => False
  end.
Proof.
  intros m ncyc sigma tau Hsigma Htau Hts Hst Hok.
  exact (assign_parameters_moved m sigma tau Hsigma Htau Hts Hst Hok ncyc).
Qed.

(* not vacuous: methanol with C and O exchanged; both runs succeed, the two
   parameter lists differ as lists and agree through sigma *)
Definition methanol : mol :=
  mkmol ["C.3"; "O.3"; "H"; "H"; "H"; "H"]%string
        [(0, 1, Single); (0, 2, Single); (0, 3, Single); (0, 4, Single); (1, 5, Single)]%nat.
Definition swap01 (i : nat) : nat := match i with 0 => 1 | 1 => 0 | _ => i end%nat.

Example assign_parameters_relabel_witness :
  mol_ok methanol = true /\
  exists ps ps',
    assign_parameters_n QA methanol 2 = Some ps /\
    assign_parameters_n QA (relabel methanol swap01 swap01) 2 = Some ps' /\
    ps <> ps' /\
    nth_error ps' 1 = nth_error ps 0 /\ nth_error ps' 0 = nth_error ps 1.
Proof.
  split; [reflexivity|].
  destruct (assign_parameters_n QA methanol 2) as [ps|] eqn:E; [|vm_compute in E; discriminate].
  destruct (assign_parameters_n QA (relabel methanol swap01 swap01) 2) as [ps'|] eqn:E';
    [|vm_compute in E'; discriminate].
  exists ps, ps'. split; [reflexivity|]. split; [reflexivity|].
  vm_compute in E, E'. injection E as <-. injection E' as <-.
  split; [discriminate|]. split; reflexivity.
Qed.

Print Assumptions assign_parameters_relabel_witness.
Print Assumptions assign_parameters_relabel.
