(* C07, string level: lemmas about strip/slice, and what read_pdb returns. *)
From Coq Require Import String Ascii List Arith NArith ZArith Bool Lia.
From PV Require Import Lib.Strings Lib.Decimal Model.PdbRead.
Import ListNotations.
Local Open Scope string_scope.

(* ---- whitespace-only strings, strip ---------------------------------------- *)

Definition all_ws (s : string) : Prop := all_chars is_ws s = true.

Lemma all_ws_nil : all_ws "". Proof. reflexivity. Qed.

Lemma all_ws_cons c s : all_ws (String c s) <-> is_ws c = true /\ all_ws s.
Proof. unfold all_ws; simpl. apply andb_true_iff. Qed.

Lemma all_ws_app a b : all_ws a -> all_ws b -> all_ws (a ++ b).
Proof.
  induction a as [|c a IH]; simpl; intros Ha Hb; [exact Hb|].
  apply all_ws_cons in Ha as [Hc Ha]. apply all_ws_cons; auto.
Qed.

Lemma lstrip_all_ws s : all_ws s -> lstrip s = "".
Proof.
  induction s as [|c s IH]; simpl; intros H; [reflexivity|].
  apply all_ws_cons in H as [Hc Hs]. rewrite Hc. auto.
Qed.

Lemma rstrip_all_ws s : all_ws s -> rstrip s = "".
Proof.
  induction s as [|c s IH]; simpl; intros H; [reflexivity|].
  apply all_ws_cons in H as [Hc Hs]. rewrite (IH Hs), Hc. reflexivity.
Qed.

Lemma strip_all_ws s : all_ws s -> strip s = "".
Proof. intros H. unfold strip. rewrite (lstrip_all_ws _ H). reflexivity. Qed.

Lemma rstrip_app_ws s w : all_ws w -> rstrip (s ++ w) = rstrip s.
Proof.
  intros Hw. induction s as [|c s IH]; simpl.
  - apply rstrip_all_ws; exact Hw.
  - rewrite IH. reflexivity.
Qed.

Lemma lstrip_app s w :
  lstrip (s ++ w) = if is_empty (lstrip s) then lstrip w else lstrip s ++ w.
Proof.
  induction s as [|c s IH]; simpl; [reflexivity|].
  destruct (is_ws c); [exact IH | reflexivity].
Qed.

Theorem strip_app_ws s w : all_ws w -> strip (s ++ w) = strip s.
Proof.
  intros Hw. unfold strip. rewrite lstrip_app.
  destruct (lstrip s) as [|c r] eqn:E; cbn [is_empty].
  - rewrite (lstrip_all_ws _ Hw). reflexivity.
  - apply rstrip_app_ws; exact Hw.
Qed.

Lemma rstrip_decomp s : exists w, all_ws w /\ s = rstrip s ++ w.
Proof.
  induction s as [|c s [w [Hw E]]]; simpl.
  - exists "". split; reflexivity.
  - destruct (is_ws c && is_empty (rstrip s)) eqn:B.
    + apply andb_true_iff in B as [Hc He]. exists (String c s). split; [|reflexivity].
      apply all_ws_cons. split; [exact Hc|].
      destruct (rstrip s); [|discriminate]. simpl in E. rewrite E. exact Hw.
    + exists w. split; [exact Hw|]. simpl. rewrite <- E. reflexivity.
Qed.

(* a line without leading blanks is its stripped form plus trailing blanks *)
Lemma strip_decomp raw : lstrip raw = raw -> exists w, all_ws w /\ raw = strip raw ++ w.
Proof.
  intros H. unfold strip. rewrite H. apply rstrip_decomp.
Qed.

(* ---- take / drop / slice under trailing blanks ----------------------------- *)

Lemma all_ws_take n w : all_ws w -> all_ws (take n w).
Proof.
  revert n; induction w as [|c w IH]; intros [|n] H; simpl; try reflexivity.
  apply all_ws_cons in H as [Hc Hw]. apply all_ws_cons; auto.
Qed.

Lemma all_ws_drop n w : all_ws w -> all_ws (drop n w).
Proof.
  revert n; induction w as [|c w IH]; intros [|n] H; simpl; auto.
  apply all_ws_cons in H as [Hc Hw]. auto.
Qed.

Lemma take_nil n : take n "" = "".
Proof. destruct n; reflexivity. Qed.

Lemma drop_nil n : drop n "" = "".
Proof. destruct n; reflexivity. Qed.

Lemma take_app_ws k r w : all_ws w -> exists w', all_ws w' /\ take k (r ++ w) = take k r ++ w'.
Proof.
  intros Hw. revert k; induction r as [|c r IH]; intros k.
  - exists (take k w). split; [apply all_ws_take; exact Hw|]. rewrite take_nil. reflexivity.
  - destruct k as [|k]; simpl.
    + exists "". split; reflexivity.
    + destruct (IH k) as [w' [Hw' E]]. exists w'. split; [exact Hw'|]. rewrite E. reflexivity.
Qed.

Lemma strip_take_drop_app_ws s a k w :
  all_ws w -> strip (take k (drop a (s ++ w))) = strip (take k (drop a s)).
Proof.
  intros Hw. revert a; induction s as [|c s IH]; intros a.
  - simpl. rewrite drop_nil, take_nil.
    apply strip_all_ws. apply all_ws_take, all_ws_drop; exact Hw.
  - destruct a as [|a].
    + change (drop 0 (String c s ++ w)) with (String c s ++ w).
      change (drop 0 (String c s)) with (String c s).
      destruct (take_app_ws k (String c s) w Hw) as [w' [Hw' E]].
      rewrite E. apply strip_app_ws; exact Hw'.
    + simpl. apply IH.
Qed.

(* every stripped field read is blind to trailing blanks of the line *)
Theorem strip_slice_app_ws a b s w : all_ws w -> strip (slice a b (s ++ w)) = strip (slice a b s).
Proof. intros Hw. unfold slice. apply strip_take_drop_app_ws; exact Hw. Qed.

Lemma get_app_lt n s w c : String.get n s = Some c -> String.get n (s ++ w) = Some c.
Proof.
  revert n; induction s as [|d s IH]; intros [|n]; simpl; try discriminate; auto.
Qed.

Lemma slice1_get n s :
  slice n (S n) s = match String.get n s with Some c => String c "" | None => "" end.
Proof.
  unfold slice. replace (S n - n) with 1 by lia.
  revert s; induction n as [|n IH]; intros [|c s]; simpl; try reflexivity.
  apply IH.
Qed.

Lemma slice_take a b n s : b <= n -> slice a b (take n s) = slice a b s.
Proof.
  unfold slice. revert a b s; induction n as [|n IH]; intros a b s Hb.
  - replace (b - a) with 0 by lia. destruct (drop a (take 0 s)), (drop a s); reflexivity.
  - destruct s as [|c s]; [reflexivity|]. destruct a as [|a]; simpl.
    + destruct b as [|b]; simpl; [reflexivity|]. f_equal.
      specialize (IH 0 b s ltac:(lia)). simpl in IH. rewrite !Nat.sub_0_r in IH. exact IH.
    + destruct b as [|b]; [simpl; destruct (drop a (take n s)), (drop a s); reflexivity|].
      apply (IH a b s). lia.
Qed.

Lemma get_take i n s : i < n -> String.get i (take n s) = String.get i s.
Proof.
  revert i s; induction n as [|n IH]; intros i s Hi; [lia|].
  destruct s as [|c s]; [reflexivity|]. destruct i as [|i]; simpl; [reflexivity|].
  apply IH. lia.
Qed.

Lemma is_empty_true s : is_empty s = true -> s = "".
Proof. destruct s; [reflexivity | discriminate]. Qed.

(* ---- py_int, rec_name, fields depend on the stripped slice only ----------- *)

Lemma strip_strip s : strip (strip s) = strip s.
Proof.
  destruct (rstrip_decomp (lstrip s)) as [w [Hw E]].
  assert (H : strip (strip s ++ w) = strip (strip s)) by (apply strip_app_ws; exact Hw).
  unfold strip at 2 in H. rewrite <- E in H.
  (* strip (lstrip s) = strip s *)
  assert (L : strip (lstrip s) = strip s).
  { unfold strip. f_equal. clear. induction s as [|c s IH]; simpl; [reflexivity|].
    destruct (is_ws c) eqn:Hc; [exact IH|]. simpl. rewrite Hc. reflexivity. }
  rewrite L in H. symmetry. exact H.
Qed.

Lemma py_int_strip s : py_int (strip s) = py_int s.
Proof. unfold py_int. rewrite strip_strip. reflexivity. Qed.

Lemma py_int_ext s t : strip s = strip t -> py_int s = py_int t.
Proof. intros H. rewrite <- (py_int_strip s), <- (py_int_strip t), H. reflexivity. Qed.

Lemma rec_name_app_ws s w : all_ws w -> rec_name (s ++ w) = rec_name s.
Proof. intros H. unfold rec_name. apply strip_slice_app_ws; exact H. Qed.

(* ---- read_pdb ---------------------------------------------------------------- *)

Section Read.
  Variable fok : string -> bool.

  Definition five : list string := ["ATOM"; "HETATM"; "TER"; "END"; "MODEL"].

  Lemma outcome_rec_five l r : line_outcome fok l = ORec r -> mem_str (rec_name l) five = true.
  Proof.
    unfold line_outcome.
    destruct (negb (mem_str (rec_name l) known_records)); [discriminate|].
    destruct (rec_name l =? "ATOM") eqn:E1.
    { apply String.eqb_eq in E1. rewrite E1. reflexivity. }
    destruct (rec_name l =? "HETATM") eqn:E2.
    { apply String.eqb_eq in E2. rewrite E2. reflexivity. }
    destruct (rec_name l =? "TER") eqn:E3.
    { apply String.eqb_eq in E3. rewrite E3. reflexivity. }
    destruct (rec_name l =? "END") eqn:E4.
    { apply String.eqb_eq in E4. rewrite E4. reflexivity. }
    destruct (rec_name l =? "MODEL") eqn:E5.
    { apply String.eqb_eq in E5. rewrite E5. reflexivity. }
    discriminate.
  Qed.

  Lemma outcome_unknown l :
    mem_str (rec_name l) known_records = false -> line_outcome fok l = OErr.
  Proof. intros H. unfold line_outcome. rewrite H. reflexivity. Qed.

  (* the records one raw line contributes when its record name is not suppressed *)
  Definition recs_of_line (raw : string) : list rec :=
    let s := strip raw in
    if is_empty s then []
    else match line_outcome fok s with ORec r => [r] | _ => [] end.

  (* per line: not EOF; never raises; an errlist entry is never one of the five
     record names Biomolecule looks at *)
  Definition line_ok (raw : string) : bool :=
    negb (is_empty raw) &&
    (let s := strip raw in
     is_empty s ||
     match line_outcome fok s with
     | ORaise => false
     | OErr => negb (mem_str (rec_name s) five)
     | _ => true
     end).

  Definition no_five (errl : list string) : Prop :=
    forall n, mem_str n five = true -> mem_str n errl = false.

  Lemma mem_str_app x l1 l2 : mem_str x (l1 ++ l2)%list = mem_str x l1 || mem_str x l2.
  Proof. induction l1 as [|y l1 IH]; simpl; [reflexivity|]. rewrite IH. apply orb_assoc. Qed.

  Lemma read_loop_char lines :
    forall acc errl,
      forallb line_ok lines = true -> no_five errl ->
      exists errl', read_loop fok lines acc errl =
                    Some ((rev acc ++ flat_map recs_of_line lines)%list, errl').
  Proof.
    induction lines as [|raw rest IH]; intros acc errl Hok Hnf; simpl.
    - exists errl. rewrite app_nil_r. reflexivity.
    - simpl in Hok. apply andb_true_iff in Hok as [Hl Hrest].
      unfold line_ok in Hl. apply andb_true_iff in Hl as [Hne Hl].
      apply negb_true_iff in Hne. rewrite Hne.
      unfold recs_of_line. cbv zeta in *.
      destruct (is_empty (strip raw)) eqn:Eb.
      + simpl. apply IH; assumption.
      + cbn [orb] in Hl.
        destruct (mem_str (rec_name (strip raw)) errl) eqn:Em.
        * (* suppressed: then the line would not have produced a record *)
          destruct (line_outcome fok (strip raw)) eqn:Eo; simpl; try (apply IH; assumption).
          exfalso. apply outcome_rec_five in Eo. rewrite (Hnf _ Eo) in Em. discriminate.
        * destruct (line_outcome fok (strip raw)) eqn:Eo; cbn [app].
          -- apply IH; assumption.
          -- destruct (IH (r :: acc) errl Hrest Hnf) as [e' E]. exists e'. rewrite E.
             cbn [rev]. rewrite <- app_assoc. reflexivity.
          -- apply IH; [assumption|]. intros n Hn. rewrite mem_str_app, (Hnf _ Hn).
             cbn [mem_str orb]. rewrite orb_false_r.
             apply negb_true_iff in Hl.
             destruct (n =? rec_name (strip raw)) eqn:En; [|reflexivity].
             apply String.eqb_eq in En. subst n. rewrite Hn in Hl. discriminate.
          -- discriminate.
  Qed.

  Theorem read_pdb_char lines :
    forallb line_ok lines = true ->
    exists errl', read_pdb fok lines = Some (flat_map recs_of_line lines, errl').
  Proof.
    intros H. unfold read_pdb. destruct (read_loop_char lines [] [] H) as [e E].
    - intros n _. reflexivity.
    - exists e. exact E.
  Qed.

  (* ---- blank lines ----------------------------------------------------------- *)

  Definition blank_line (b : string) : Prop := is_empty b = false /\ strip b = "".

  Lemma read_loop_blank l1 b l2 :
    blank_line b ->
    forall acc errl, read_loop fok (l1 ++ b :: l2) acc errl = read_loop fok (l1 ++ l2) acc errl.
  Proof.
    intros [Hb Hs]. induction l1 as [|x l1 IH]; intros acc errl; simpl.
    - rewrite Hb, Hs. reflexivity.
    - destruct (is_empty x); [reflexivity|].
      destruct (is_empty (strip x)); [apply IH|].
      destruct (mem_str (rec_name (strip x)) errl); [apply IH|].
      destruct (line_outcome fok (strip x)); try apply IH; reflexivity.
  Qed.

  Theorem read_pdb_blank l1 b l2 :
    blank_line b -> read_pdb fok (l1 ++ b :: l2) = read_pdb fok (l1 ++ l2).
  Proof. intros H. apply read_loop_blank; exact H. Qed.

  (* ---- lines with an unknown record name ------------------------------------- *)

  (* errlists that agree on every known record name *)
  Definition err_equiv (e1 e2 : list string) : Prop :=
    forall n, mem_str n known_records = true -> mem_str n e1 = mem_str n e2.

  Lemma read_loop_err_equiv lines :
    forall acc e1 e2, err_equiv e1 e2 ->
      option_map fst (read_loop fok lines acc e1) = option_map fst (read_loop fok lines acc e2).
  Proof.
    induction lines as [|x rest IH]; intros acc e1 e2 He; simpl; [reflexivity|].
    destruct (is_empty x); [reflexivity|].
    destruct (is_empty (strip x)); [apply IH; exact He|].
    destruct (mem_str (rec_name (strip x)) known_records) eqn:Ek.
    - rewrite (He _ Ek).
      destruct (mem_str (rec_name (strip x)) e2); [apply IH; exact He|].
      destruct (line_outcome fok (strip x)); try (apply IH; exact He); [|reflexivity].
      apply IH. intros n Hn. rewrite !mem_str_app, (He _ Hn). reflexivity.
    - rewrite (outcome_unknown _ Ek).
      assert (Hadd : forall e, err_equiv e (e ++ [rec_name (strip x)])%list).
      { intros e n Hn. rewrite mem_str_app. simpl.
        destruct (n =? rec_name (strip x)) eqn:En.
        - apply String.eqb_eq in En. subst n. rewrite Hn in Ek. discriminate.
        - rewrite !orb_false_r. reflexivity. }
      assert (Htr : forall a b c, err_equiv a b -> err_equiv b c -> err_equiv a c).
      { intros a b c H1 H2 n Hn. rewrite (H1 _ Hn). apply H2; exact Hn. }
      assert (Hsy : forall a b, err_equiv a b -> err_equiv b a).
      { intros a b H1 n Hn. symmetry. apply H1; exact Hn. }
      destruct (mem_str (rec_name (strip x)) e1), (mem_str (rec_name (strip x)) e2);
        apply IH.
      + exact He.
      + eapply Htr; [exact He | apply Hadd].
      + eapply Htr; [apply Hsy, Hadd | exact He].
      + eapply Htr; [apply Hsy, Hadd |]. eapply Htr; [exact He | apply Hadd].
  Qed.

  Definition unknown_line (u : string) : Prop :=
    is_empty u = false /\ mem_str (rec_name (strip u)) known_records = false.

  Theorem read_pdb_unknown l1 u l2 :
    unknown_line u ->
    option_map fst (read_pdb fok (l1 ++ u :: l2)) = option_map fst (read_pdb fok (l1 ++ l2)).
  Proof.
    intros [Hu Hk]. unfold read_pdb. generalize (@nil rec) as acc. generalize (@nil string) as errl.
    induction l1 as [|x l1 IH]; intros errl acc; simpl.
    - rewrite Hu. destruct (is_empty (strip u)); [reflexivity|].
      destruct (mem_str (rec_name (strip u)) errl); [reflexivity|].
      rewrite (outcome_unknown _ Hk). apply read_loop_err_equiv.
      intros n Hn. rewrite mem_str_app. simpl.
      destruct (n =? rec_name (strip u)) eqn:En.
      + apply String.eqb_eq in En. subst n. rewrite Hn in Hk. discriminate.
      + rewrite !orb_false_r. reflexivity.
    - destruct (is_empty x); [reflexivity|].
      destruct (is_empty (strip x)); [apply IH|].
      destruct (mem_str (rec_name (strip x)) errl); [apply IH|].
      destruct (line_outcome fok (strip x)); try apply IH; reflexivity.
  Qed.

  (* ---- line endings, trailing blanks ------------------------------------------ *)

  Lemma read_loop_ext ls ls' :
    Forall2 (fun a b => is_empty a = is_empty b /\ strip a = strip b) ls ls' ->
    forall acc errl, read_loop fok ls acc errl = read_loop fok ls' acc errl.
  Proof.
    induction 1 as [|a b ls ls' [He Hs] _ IH]; intros acc errl; simpl; [reflexivity|].
    rewrite He, Hs. destruct (is_empty b); [reflexivity|].
    destruct (is_empty (strip b)); [apply IH|].
    destruct (mem_str (rec_name (strip b)) errl); [apply IH|].
    destruct (line_outcome fok (strip b)); try apply IH; reflexivity.
  Qed.

  (* two spellings of one line: the same body followed by blanks (\n, \r\n,
     padding, nothing), neither being the empty EOF sentinel *)
  Definition same_body (a b : string) : Prop :=
    exists body w1 w2, all_ws w1 /\ all_ws w2 /\ a = body ++ w1 /\ b = body ++ w2 /\
                       is_empty a = false /\ is_empty b = false.

  Theorem read_pdb_same_body ls ls' :
    Forall2 same_body ls ls' -> read_pdb fok ls = read_pdb fok ls'.
  Proof.
    intros H. apply read_loop_ext. induction H as [|a b ls ls' Hab _ IH]; constructor; [|exact IH].
    destruct Hab as [body [w1 [w2 [H1 [H2 [Ea [Eb [Na Nb]]]]]]]]. split; [congruence|].
    rewrite Ea, Eb, !strip_app_ws by assumption. reflexivity.
  Qed.

  (* ---- cutting a coordinate line after the coordinates ------------------------ *)

  Definition forget (a : atomrec) : atomrec :=
    mkA (a_het a) "" (a_serial a) (a_name a) (a_alt a) (a_resname a) (a_chain a) (a_resseq a)
        (a_icode a) (a_x a) (a_y a) (a_z a) "".

  Definition pforget (p : presult) : presult :=
    match p with POk a => POk (forget a) | _ => p end.

  (* exception class, identity and coordinate fields do not depend on columns > 54 *)
  Theorem parse_cols_take het src l n :
    54 <= n -> pforget (parse_cols fok het src (take n l)) = pforget (parse_cols fok het src l).
  Proof.
    intros Hn. unfold parse_cols, rec_name.
    rewrite !(slice_take _ _ n l) by lia.
    rewrite !(get_take _ n l) by lia.
    destruct (negb (strip (slice 0 6 l) =? (if het then "HETATM" else "ATOM"))); [reflexivity|].
    destruct (py_int (slice 6 11 l)); [|reflexivity].
    destruct (String.get 16 l); [|reflexivity].
    destruct (String.get 21 l); [|reflexivity].
    destruct (py_int (slice 22 26 l)); [|reflexivity].
    destruct (String.get 26 l); [|reflexivity].
    destruct (fok (strip (slice 30 38 l)) && fok (strip (slice 38 46 l)) && fok (strip (slice 46 54 l)));
      reflexivity.
  Qed.

End Read.

(* ---- readlines never yields the EOF sentinel -------------------------------- *)

Lemma cons_ne_no_empty h t : Forall (fun l => is_empty l = false) t ->
  Forall (fun l => is_empty l = false) (cons_ne h t).
Proof.
  intros H. unfold cons_ne. destruct (is_empty h) eqn:E; [exact H|]. constructor; assumption.
Qed.

Lemma rl_no_empty s : Forall (fun l => is_empty l = false) (snd (rl s)).
Proof.
  induction s as [|c s IH]; simpl; [constructor|].
  destruct (rl s) as [h t]. simpl in IH.
  match goal with |- context [if ?b then _ else _] => destruct b end; cbn [snd];
    [apply cons_ne_no_empty; exact IH | exact IH].
Qed.
