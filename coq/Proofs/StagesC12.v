(* Proofs/StagesC12.v - the C12 proof obligation on the GENERATED stage table.
   Moving print_pqr above the charge guard, wrapping a stage in a swallowing
   handler, or opening the output path early makes a lemma here fail. *)
From Coq Require Import String List Bool Arith.
From Coq Require Import ZArith.
From PV Require Import Model.Pipeline Proofs.Pipeline Generated.Stages.
From PV Require Model.States Generated.GuardC12.
Import ListNotations.
Local Open Scope string_scope.

(* only print_pqr may open the output path for writing; nothing is written to
   disk before it; every Compute / Rename / Render stage precedes it; no
   enclosing handler can swallow an exception *)
Lemma generated_c12_obligation : c12_obligation stages = true.
Proof. vm_compute. reflexivity. Qed.

(* The integrality guard must see the FINAL charges: it has to come after EVERY stage that can
   change a charge or the matched / missing atom lists (apply_force_field AND the --ligand block,
   which overwrites the ligand atoms' charges with the MOL2 ones).  In table terms: no Compute
   stage follows the last [raise_if_charge_err]; what follows may only rename, render, log,
   return or write.  (A guard moved up "to fail early" checks a total that the ligand block
   then changes: a non-integral ligand slips through and is written.) *)
Fixpoint after_last (n : string) (ds : list sdesc) : option (list sdesc) :=
  match ds with
  | [] => None
  | d :: r =>
    match after_last n r with
    | Some t => Some t
    | None => if String.eqb (sd_name d) n then Some r else None
    end
  end.

Definition guard_is_last_compute (ds : list sdesc) : bool :=
  match after_last "raise_if_charge_err" ds with
  | None => false
  | Some t => forallb (fun d => negb (kind_eqb (sd_kind d) Compute)) t
  end.

Lemma after_last_spec n ds t :
  after_last n ds = Some t ->
  exists pre g, ds = (pre ++ g :: t)%list /\ sd_name g = n /\ positions n t = [].
Proof.
  revert t. induction ds as [|d r IH]; intros t H; cbn in H; [discriminate|].
  destruct (after_last n r) as [t'|] eqn:E.
  - inversion H; subst t'. destruct (IH t eq_refl) as [pre [g [Hr [Hg Hp]]]].
    exists (d :: pre), g. subst r. auto.
  - destruct (String.eqb (sd_name d) n) eqn:En; [|discriminate]. inversion H; subst t.
    exists [], d. split; [reflexivity|]. split; [now apply String.eqb_eq|].
    clear - E. unfold positions. generalize 0.
    induction r as [|e r IH]; intros i; [reflexivity|]. cbn in E |- *.
    destruct (after_last n r) eqn:E2; [discriminate|].
    destruct (String.eqb (sd_name e) n); [discriminate|]. apply IH. reflexivity.
Qed.

(* every stage behind the last guard stage is not a Compute stage *)
Lemma guard_is_last_compute_spec ds :
  guard_is_last_compute ds = true ->
  exists pre g post, ds = (pre ++ g :: post)%list /\ sd_name g = "raise_if_charge_err"
    /\ forall d, In d post -> sd_kind d <> Compute.
Proof.
  unfold guard_is_last_compute. destruct (after_last "raise_if_charge_err" ds) as [t|] eqn:E; [|discriminate].
  intros H. destruct (after_last_spec _ _ _ E) as [pre [g [Hds [Hg _]]]].
  exists pre, g, t. split; [exact Hds|]. split; [exact Hg|].
  intros d Hd. rewrite forallb_forall in H. specialize (H d Hd).
  intros K. rewrite K in H. discriminate.
Qed.

(* the charge guard, the "no atom received parameters" guard (raise_if_matched_atoms,
   /repo 7917ee7), the parameter lookup and the structure checks are among the
   stages in front of the writer *)
Lemma generated_guard_before_writer :
  all_before "raise_if_charge_err" "print_pqr" stages = true
  /\ all_before "raise_if_matched_atoms" "print_pqr" stages = true
  /\ all_before "apply_force_field" "print_pqr" stages = true
  /\ all_before "is_repairable" "print_pqr" stages = true
  /\ all_before "check_files" "print_pqr" stages = true
  /\ all_before "check_options" "print_pqr" stages = true
  /\ all_before "get_molecule" "print_pqr" stages = true
  /\ guard_is_last_compute stages = true
  /\ all_before "apply_force_field" "raise_if_charge_err" stages = true
  /\ all_before "loop_residue_tot_charge" "loop_residue_charge" stages = true
  /\ all_before "assign_matched_atoms" "loop_residue_charge" stages = true
  /\ all_before "loop_residue_charge" "raise_if_charge_err" stages = true.
Proof. vm_compute. repeat split; reflexivity. Qed.

Lemma generated_no_partial_output :
  forall (C : Type) flt (c : C) f,
    ((exists j, j < writer_index stages /\ faulty (flt j) = true) ->
       snd (frun stages 0 flt c f) = f /\ exists i, fst (frun stages 0 flt c f) = Raised i)
    /\ ((forall k, k < length stages -> faulty (flt k) = false) ->
       frun stages 0 flt c f = (Finished, Complete c)).
Proof. intros C. apply no_partial_output, generated_c12_obligation. Qed.

(* the guard-order obligation is satisfiable and needed: a guard in front of the ligand block fails it *)
Example guard_order_nonvacuous :
  guard_is_last_compute
    [mk_sdesc "apply_force_field" "non_trivial" Compute [] [] [] false false;
     mk_sdesc "loop_residue_tot_charge" "non_trivial" Compute [] [] [] false false;
     mk_sdesc "raise_if_charge_err" "non_trivial" Compute [] [] [] false false;
     mk_sdesc "apply_name_scheme" "non_trivial" Rename [] [] [] false false;
     mk_sdesc "print_pqr" "main_driver" Output [] [] [("main.print_pqr", ["output_pqr"])] true false] = true
  /\ guard_is_last_compute
    [mk_sdesc "apply_force_field" "non_trivial" Compute [] [] [] false false;
     mk_sdesc "raise_if_charge_err" "non_trivial" Compute [] [] [] false false;
     mk_sdesc "loop_residue_tot_charge" "non_trivial" Compute [] [] [] false false;
     mk_sdesc "print_pqr" "main_driver" Output [] [] [("main.print_pqr", ["output_pqr"])] true false] = false
  /\ guard_is_last_compute [mk_sdesc "print_pqr" "main_driver" Output [] [] [] true false] = false.
Proof. repeat split; reflexivity. Qed.

(* The tolerance of the guard is the model's constant and nothing else: the call in
   main.non_trivial hands noninteger_charge the total only (or, explicitly, CHARGE_ERROR) - never
   a tolerance computed from the structure -, the default of utilities.noninteger_charge is
   CHARGE_ERROR, its test is |charge - round(charge)| > |tol|, and config.CHARGE_ERROR is exactly
   TOL / SCALE = 1e-3 of Model/States.v (guard_ok), the constant C12_guard_never_fires_<FF> and
   the differential tie of the guard block are stated against.  Generated/GuardC12.v is
   regenerated from the current sources (gen/guard_c12.py, fail-closed). *)
Definition guard_tolerance_ok : bool :=
  forallb (fun a => String.eqb a "CHARGE_ERROR" || String.eqb a "error_tol=CHARGE_ERROR") GuardC12.guard_extra_args
  && Nat.leb (List.length GuardC12.guard_extra_args) 1
  && String.eqb GuardC12.guard_default_tol "CHARGE_ERROR"
  && String.eqb GuardC12.guard_error_expr "abs(charge - round(charge))"
  && String.eqb GuardC12.guard_test "abs_error > abs(error_tol)"
  && Z.eqb GuardC12.charge_error_e8 States.TOL.

Lemma generated_guard_tolerance :
  guard_tolerance_ok = true /\ GuardC12.charge_error_e8 = States.TOL /\ (States.TOL * 1000 = States.SCALE)%Z.
Proof. vm_compute. repeat split; reflexivity. Qed.
