(* Proofs/StagesC12.v - the C12 proof obligation on the GENERATED stage table.
   Moving print_pqr above the charge guard, wrapping a stage in a swallowing
   handler, or opening the output path early makes a lemma here fail. *)
From Coq Require Import String List Bool Arith.
From PV Require Import Model.Pipeline Proofs.Pipeline Generated.Stages.
Import ListNotations.
Local Open Scope string_scope.

(* only print_pqr may open the output path for writing; nothing is written to
   disk before it; every Compute / Rename / Render stage precedes it; no
   enclosing handler can swallow an exception *)
Lemma generated_c12_obligation : c12_obligation stages = true.
Proof. vm_compute. reflexivity. Qed.

(* the charge guard, the "no atom received parameters" guard (raise_if_matched_atoms,
   /repo 7917ee7), the parameter lookup and the structure checks are among the
   stages in front of the writer *)
Lemma generated_guard_before_writer :
  all_before "raise_if_charge_err" "print_pqr" stages = true
  /\ all_before "raise_if_matched_atoms" "print_pqr" stages = true
  /\ all_before "apply_force_field" "print_pqr" stages = true
  /\ all_before "is_repairable" "print_pqr" stages = true
  /\ all_before "check_files" "print_pqr" stages = true
  /\ all_before "check_options" "print_pqr" stages = true
  /\ all_before "get_molecule" "print_pqr" stages = true.
Proof. vm_compute. repeat split; reflexivity. Qed.

Lemma generated_no_partial_output :
  forall (C : Type) flt (c : C) f,
    ((exists j, j < writer_index stages /\ faulty (flt j) = true) ->
       snd (frun stages 0 flt c f) = f /\ exists i, fst (frun stages 0 flt c f) = Raised i)
    /\ ((forall k, k < length stages -> faulty (flt k) = false) ->
       frun stages 0 flt c f = (Finished, Complete c)).
Proof. intros C. apply no_partial_output, generated_c12_obligation. Qed.
