(* C07, all line lists: read_pdb either raises or yields exactly the records of
   the lines; a coordinate line is read from the fixed-column text [spec_line]
   names (itself, or the line pdb.read_atom rebuilds); nothing is dropped
   silently under the syntactic guard G1'.  Cut positions of a coordinate line. *)
From Coq Require Import String Ascii List Arith NArith ZArith Bool Lia Permutation.
From PV Require Import Lib.Strings Lib.Decimal Model.PdbRead Model.Group Model.PdbSpec
  Proofs.PdbRead Proofs.Group Proofs.Ingest.
Import ListNotations.
Local Open Scope string_scope.
Local Open Scope list_scope.

Lemma get_none_len s : forall n, String.get n s = None -> String.length s <= n.
Proof.
  induction s as [|c s IH]; intros n H; simpl; [lia|].
  destruct n; simpl in H; [discriminate|]. specialize (IH n H). lia.
Qed.

Lemma get_some_len s : forall n c, String.get n s = Some c -> n < String.length s.
Proof.
  induction s as [|c s IH]; intros n d H; simpl in *; [discriminate|].
  destruct n; [lia|]. specialize (IH n d H). lia.
Qed.

Lemma get_lt_some s : forall n, n < String.length s -> exists c, String.get n s = Some c.
Proof.
  induction s as [|c s IH]; intros n H; simpl in *; [lia|].
  destruct n; [exists c; reflexivity|]. apply IH. lia.
Qed.

Lemma drop_all s : forall a, String.length s <= a -> drop a s = "".
Proof.
  induction s as [|c s IH]; intros a H; [apply drop_nil|].
  destruct a; simpl in *; [lia|]. apply IH. lia.
Qed.

(* cutting inside the slice keeps the part in front of the cut *)
Lemma slice_take_over a b n s : n <= b -> slice a b (take n s) = slice a n s.
Proof.
  unfold slice. revert a b s; induction n as [|n IH]; intros a b s Hb.
  - simpl. rewrite drop_nil, take_nil. reflexivity.
  - destruct s as [|c s]; [simpl; rewrite !drop_nil, !take_nil; reflexivity|].
    destruct b as [|b]; [lia|]. destruct a as [|a]; simpl.
    + f_equal. specialize (IH 0 b s ltac:(lia)). simpl in IH. rewrite !Nat.sub_0_r in IH. exact IH.
    + apply (IH a b s). lia.
Qed.

Section Ingest2.
  Variable fok : string -> bool.
  Variable tab : deftab.

  (* ---- when the column parser asks for the fallback -------------------------------- *)

  Lemma parse_cols_idx_len het src l :
    parse_cols fok het src l = PIdx -> String.length l <= (if het then 16 else 26).
  Proof.
    unfold parse_cols.
    destruct (negb (rec_name l =? (if het then "HETATM" else "ATOM"))); [discriminate|].
    destruct (py_int (slice 6 11 l)); [|discriminate].
    destruct (String.get 16 l) eqn:G16.
    2:{ intros _. apply get_none_len in G16. destruct het; lia. }
    destruct (String.get 21 l) eqn:G21.
    2:{ destruct het; [discriminate|]. intros _. apply get_none_len in G21. lia. }
    destruct (py_int (slice 22 26 l)); [|discriminate].
    destruct (String.get 26 l) eqn:G26.
    2:{ destruct het; [discriminate|]. intros _. apply get_none_len in G26. lia. }
    destruct (fok (strip (slice 30 38 l)) && fok (strip (slice 38 46 l)) && fok (strip (slice 46 54 l)));
      discriminate.
  Qed.

  Lemma parse_cols_ok_len het src l a : parse_cols fok het src l = POk a -> 26 < String.length l.
  Proof.
    intros H. destruct (parse_cols_inv fok het src l a H) as [? [? [? [? [c26 [_ [_ [_ [_ [_ [G _]]]]]]]]]]].
    apply get_some_len in G. exact G.
  Qed.

  Lemma fallback_len s nl : fallback_line fok s = Some nl -> 26 < String.length nl.
  Proof.
    unfold fallback_line.
    destruct (find5 fok (rev (tl (tokens s))) 0 0) as [iw|]; [|discriminate].
    destruct (nth_error (tokens s) (List.length (tokens s) - 1 - iw - 1)); [|discriminate].
    destruct (nth_error (tokens s) (List.length (tokens s) - 1 - iw)); [|discriminate].
    destruct (nth_error (tokens s) (List.length (tokens s) - 1 - iw + 1)); [|discriminate].
    destruct (nth_error (tokens s) (List.length (tokens s) - 1 - iw + 2)); [|discriminate].
    destruct (nth_error (tokens s) (List.length (tokens s) - 1 - iw + 3)); [|discriminate].
    destruct (nth_error (tokens s) (List.length (tokens s) - 1 - iw + 4)); [|discriminate].
    intros H. injection H as H. subst nl. rewrite !length_app, !length_rjust. cbn [String.length]. rewrite !length_app, !length_rjust. lia.
  Qed.

  (* what one coordinate line does: raises (also when it is too short for the column
     parser and has no five numbers), or is read from [eff_line] *)
  Lemma atom_outcome_cases het s :
    atom_outcome fok het s = ORaise \/
    (exists a l', atom_outcome fok het s = ORec (RAtom a) /\ eff_line fok het s = Some l' /\
                  parse_cols fok het s l' = POk a).
  Proof.
    unfold atom_outcome, eff_line.
    destruct (parse_cols fok het s s) as [a| |] eqn:Ep.
    - right. exists a, s. split; [reflexivity|]. split; [|exact Ep].
      apply parse_cols_ok_len in Ep.
      assert (E : ((if het then 16 else 26) <? String.length s)%nat = true)
        by (apply Nat.ltb_lt; destruct het; lia).
      rewrite E. reflexivity.
    - left; reflexivity.
    - apply parse_cols_idx_len in Ep.
      assert (E : ((if het then 16 else 26) <? String.length s)%nat = false)
        by (apply Nat.ltb_ge; exact Ep).
      rewrite E. unfold read_atom. destruct (fallback_line fok s) as [nl|] eqn:Ef.
      + destruct (parse_cols fok het s nl) as [a| |] eqn:Ep2.
        * right. exists a, nl. auto.
        * left; reflexivity.
        * left; reflexivity.
      + left; reflexivity.
  Qed.

  (* a line too short for the column parser without five numbers fails the read *)
  Lemma unrecoverable_raises het s :
    eff_line fok het s = None -> atom_outcome fok het s = ORaise.
  Proof.
    intros H. destruct (atom_outcome_cases het s) as [E|[a [l' [_ [E _]]]]]; [exact E|].
    rewrite H in E. discriminate.
  Qed.

  (* ---- line_outcome by record name ---------------------------------------------------- *)

  Lemma lo_coord s het : coord_het s = Some het -> line_outcome fok s = atom_outcome fok het s.
  Proof.
    unfold coord_het. destruct (rec_name s =? "ATOM") eqn:E1.
    - intros H; injection H as <-. apply String.eqb_eq in E1. unfold line_outcome. rewrite E1. reflexivity.
    - destruct (rec_name s =? "HETATM") eqn:E2; [|discriminate].
      intros H; injection H as <-. apply String.eqb_eq in E2. unfold line_outcome. rewrite E2. reflexivity.
  Qed.

  Lemma lo_noncoord s : coord_het s = None ->
    (forall a, line_outcome fok s <> ORec (RAtom a)) /\ line_outcome fok s <> ORaise.
  Proof.
    unfold coord_het, line_outcome. cbv zeta.
    destruct (rec_name s =? "ATOM"); [discriminate|].
    destruct (rec_name s =? "HETATM"); [discriminate|]. intros _.
    destruct (negb (mem_str (rec_name s) known_records)); [split; [intros a|]; discriminate|].
    destruct (rec_name s =? "TER"); [split; [intros a|]; discriminate|].
    destruct (rec_name s =? "END"); [split; [intros a|]; discriminate|].
    destruct (rec_name s =? "MODEL"); split; try intros a; discriminate.
  Qed.

  Lemma lo_model s : rec_name s = "MODEL" -> line_outcome fok s = ORec RModel.
  Proof. intros H. unfold line_outcome. rewrite H. reflexivity. Qed.

  Lemma lo_nonmodel s : (rec_name s =? "MODEL") = false -> line_outcome fok s <> ORec RModel.
  Proof.
    intros H. unfold line_outcome. cbv zeta. rewrite H.
    destruct (negb (mem_str (rec_name s) known_records)); [discriminate|].
    destruct (rec_name s =? "ATOM").
    { intros E. apply atom_outcome_rec in E as [a Ea]. discriminate. }
    destruct (rec_name s =? "HETATM").
    { intros E. apply atom_outcome_rec in E as [a Ea]. discriminate. }
    destruct (rec_name s =? "TER"); [discriminate|].
    destruct (rec_name s =? "END"); discriminate.
  Qed.

  Lemma atom_outcome_not_err het s : atom_outcome fok het s <> OErr.
  Proof.
    unfold atom_outcome. destruct (parse_cols fok het s s); try discriminate.
    destruct (read_atom fok het s); discriminate.
  Qed.

  (* errlist never receives one of the five record names Biomolecule reads *)
  Lemma lo_err_five s : line_outcome fok s = OErr -> mem_str (rec_name s) five = false.
  Proof.
    unfold line_outcome. cbv zeta. intros Ho.
    destruct (mem_str (rec_name s) known_records) eqn:Ek; cbn [negb] in Ho.
    - destruct (rec_name s =? "ATOM"); [exfalso; exact (atom_outcome_not_err _ _ Ho)|].
      destruct (rec_name s =? "HETATM"); [exfalso; exact (atom_outcome_not_err _ _ Ho)|].
      destruct (rec_name s =? "TER"); [discriminate|].
      destruct (rec_name s =? "END"); [discriminate|].
      destruct (rec_name s =? "MODEL"); discriminate.
    - simpl.
      destruct (rec_name s =? "ATOM") eqn:E; [apply String.eqb_eq in E; rewrite E in Ek; discriminate|].
      destruct (rec_name s =? "HETATM") eqn:E0; [apply String.eqb_eq in E0; rewrite E0 in Ek; discriminate|].
      destruct (rec_name s =? "TER") eqn:E1; [apply String.eqb_eq in E1; rewrite E1 in Ek; discriminate|].
      destruct (rec_name s =? "END") eqn:E2; [apply String.eqb_eq in E2; rewrite E2 in Ek; discriminate|].
      destruct (rec_name s =? "MODEL") eqn:E3; [apply String.eqb_eq in E3; rewrite E3 in Ek; discriminate|].
      reflexivity.
  Qed.

  Lemma lo_raise_coord s : line_outcome fok s = ORaise -> coord_het s <> None.
  Proof. intros H E. destruct (lo_noncoord s E) as [_ N]. exact (N H). Qed.

  Lemma coord_het_nonempty s het : coord_het s = Some het -> is_empty s = false.
  Proof. destruct s; [discriminate | reflexivity]. Qed.

  (* ---- read_pdb on ALL line lists ---------------------------------------------------------- *)

  Lemma g1_line_ok raw :
    chunk_ok raw = true -> raises fok raw = false -> line_ok fok raw = true.
  Proof.
    unfold chunk_ok, raises, line_ok. cbv zeta. intros Hc Hr.
    rewrite Hc. cbn [andb]. destruct (is_empty (strip raw)) eqn:Ee; [reflexivity|].
    cbn [negb andb orb] in *.
    destruct (line_outcome fok (strip raw)) eqn:Eo; try reflexivity; [|discriminate].
    apply negb_true_iff. exact (lo_err_five _ Eo).
  Qed.

  Lemma read_loop_raises lines : forall acc errl,
    mem_str "ATOM" errl = false -> mem_str "HETATM" errl = false ->
    forallb chunk_ok lines = true -> existsb (raises fok) lines = true ->
    read_loop fok lines acc errl = None.
  Proof.
    induction lines as [|x rest IH]; intros acc errl HA HH Hc Hr; [discriminate|].
    cbn [forallb existsb] in Hc, Hr. apply andb_true_iff in Hc as [Hx Hc].
    cbn [read_loop]. unfold chunk_ok in Hx. apply negb_true_iff in Hx. rewrite Hx.
    unfold raises in Hr at 1. cbv zeta in Hr.
    destruct (is_empty (strip x)) eqn:Ee; [cbn [negb andb orb] in Hr; apply IH; assumption|].
    cbn [negb andb] in Hr.
    destruct (line_outcome fok (strip x)) eqn:Eo.
    - (* OSkip *) cbn [orb] in Hr. destruct (mem_str (rec_name (strip x)) errl); apply IH; assumption.
    - cbn [orb] in Hr. destruct (mem_str (rec_name (strip x)) errl); apply IH; assumption.
    - (* OErr: the name added is neither ATOM nor HETATM *)
      cbn [orb] in Hr. destruct (mem_str (rec_name (strip x)) errl); [apply IH; assumption|].
      assert (Hn : coord_het (strip x) = None).
      { destruct (coord_het (strip x)) as [het|] eqn:Ec; [|reflexivity].
        rewrite (lo_coord _ _ Ec) in Eo. exfalso. exact (atom_outcome_not_err _ _ Eo). }
      unfold coord_het in Hn.
      destruct (rec_name (strip x) =? "ATOM") eqn:E1; [discriminate|].
      destruct (rec_name (strip x) =? "HETATM") eqn:E2; [discriminate|].
      apply IH; try assumption; rewrite mem_str_app; cbn [mem_str].
      + rewrite HA. rewrite String.eqb_sym, E1. reflexivity.
      + rewrite HH. rewrite String.eqb_sym, E2. reflexivity.
    - (* ORaise: a coordinate line, never suppressed *)
      assert (Hm : mem_str (rec_name (strip x)) errl = false).
      { pose proof (lo_raise_coord _ Eo) as Hc'. unfold coord_het in Hc'.
        destruct (rec_name (strip x) =? "ATOM") eqn:E1; [apply String.eqb_eq in E1; rewrite E1; exact HA|].
        destruct (rec_name (strip x) =? "HETATM") eqn:E2; [apply String.eqb_eq in E2; rewrite E2; exact HH|].
        exfalso. apply Hc'. reflexivity. }
      rewrite Hm. reflexivity.
  Qed.

  Theorem read_total lines :
    forallb chunk_ok lines = true ->
    if existsb (raises fok) lines then read_pdb fok lines = None
    else exists e, read_pdb fok lines = Some (flat_map (line_recs fok) lines, e).
  Proof.
    intros Hc. destruct (existsb (raises fok) lines) eqn:Er.
    - apply read_loop_raises; auto.
    - apply read_pdb_char. apply forallb_forall. intros x Hx.
      rewrite forallb_forall in Hc.
      apply g1_line_ok; [apply Hc, Hx|].
      destruct (raises fok x) eqn:E; [|reflexivity].
      assert (X : existsb (raises fok) lines = true) by (apply existsb_exists; exists x; auto).
      rewrite X in Er. discriminate.
  Qed.

  (* ---- lines vs records ------------------------------------------------------------------------ *)

  (* the atom was read by fixed columns from the text [spec_line] names *)
  Definition cols_of (a : atomrec) (l : string) : Prop :=
    rident a = line_ident l /\
    a_resname a = strip (slice 17 20 l) /\
    Some (a_serial a) = py_int (slice 6 11 l) /\
    a_x a = strip (slice 30 38 l) /\ a_y a = strip (slice 38 46 l) /\ a_z a = strip (slice 46 54 l).

  Definition reads2 (a : atomrec) (raw : string) : Prop :=
    a_src a = strip raw /\ exists l', spec_line fok raw = Some l' /\ cols_of a l'.

  Lemma parse_cols_cols het src l a : parse_cols fok het src l = POk a -> a_src a = src /\ cols_of a l.
  Proof.
    intros Hp. destruct (parse_cols_inv fok het src l a Hp)
      as [serial [c16 [c21 [resseq [c26 [_ [I1 [G16 [G21 [I2 [G26 Ea]]]]]]]]]]].
    subst a. split; [reflexivity|]. unfold cols_of, rident, line_ident.
    cbn [a_src a_chain a_resseq a_icode a_name a_resname a_serial a_x a_y a_z].
    rewrite !slice1_get, G21, G26, I1, I2. unfold char_field. repeat split.
  Qed.

  Lemma coord_line2 raw :
    is_coord2 raw = true -> raises fok raw = false ->
    exists a, line_recs fok raw = [RAtom a] /\ reads2 a raw.
  Proof.
    unfold is_coord2, raises, spec_line, line_recs, reads2, spec_line. cbv zeta.
    destruct (coord_het (strip raw)) as [het|] eqn:Ec; [|discriminate]. intros _ Hr.
    rewrite (coord_het_nonempty _ _ Ec) in *. cbn [negb andb] in Hr.
    rewrite (lo_coord _ _ Ec) in *.
    destruct (atom_outcome_cases het (strip raw)) as [H|[a [l' [H [He Hp]]]]].
    - rewrite H in Hr. discriminate.
    - rewrite H. exists a. split; [reflexivity|].
      destruct (parse_cols_cols _ _ _ _ Hp) as [Hs Hcol]. split; [exact Hs|].
      exists l'. split; [exact He | exact Hcol].
  Qed.

  Lemma noncoord_line2 raw : is_coord2 raw = false -> atoms_of (line_recs fok raw) = [].
  Proof.
    unfold is_coord2, line_recs. cbv zeta. intros Hc.
    destruct (coord_het (strip raw)) eqn:Ec; [discriminate|].
    destruct (is_empty (strip raw)); [reflexivity|].
    destruct (lo_noncoord _ Ec) as [N _].
    destruct (line_outcome fok (strip raw)) as [|r| |] eqn:Eo; try reflexivity.
    destruct r as [a| | |]; try reflexivity. exfalso. exact (N a eq_refl).
  Qed.

  Lemma model_line2 raw : is_model2 raw = true -> line_recs fok raw = [RModel].
  Proof.
    unfold is_model2, line_recs. cbv zeta. intros Hi.
    apply String.eqb_eq in Hi.
    destruct (is_empty (strip raw)) eqn:Ee.
    { apply is_empty_true in Ee. rewrite Ee in Hi. discriminate. }
    rewrite (lo_model _ Hi). reflexivity.
  Qed.

  Lemma nonmodel_line2 raw : is_model2 raw = false -> ~ In RModel (line_recs fok raw).
  Proof.
    unfold is_model2, line_recs. cbv zeta. intros Hi.
    destruct (is_empty (strip raw)); [intros []|].
    destruct (line_outcome fok (strip raw)) as [|r| |] eqn:Eo; [intros [] | | intros [] | intros []].
    intros [Hr|[]]. subst r. exact (lo_nonmodel _ Hi Eo).
  Qed.

  Lemma first_model2_sub seen lines x : In x (first_model2 seen lines) -> In x lines.
  Proof.
    revert seen; induction lines as [|l r IH]; intros seen; simpl; [tauto|].
    destruct (is_model2 l).
    - destruct seen; [intros []|]. intros [H|H]; [left; exact H | right; eapply IH; exact H].
    - intros [H|H]; [left; exact H | right; eapply IH; exact H].
  Qed.

  Lemma fm_first_model2 lines : forall nm seen,
    (nm = 0 /\ seen = false) \/ (nm = 1 /\ seen = true) ->
    fm nm (flat_map (line_recs fok) lines) = flat_map (line_recs fok) (first_model2 seen lines).
  Proof.
    induction lines as [|l r IH]; intros nm seen Hs; [reflexivity|].
    cbn [flat_map first_model2].
    destruct (is_model2 l) eqn:Em.
    - rewrite (model_line2 l Em). cbn [app fm].
      destruct Hs as [[-> ->]|[-> ->]]; cbn [Nat.leb]; [|reflexivity].
      cbn [flat_map]. rewrite (model_line2 l Em). cbn [app]. f_equal.
      apply IH; right; split; reflexivity.
    - rewrite fm_app_nomodel by (apply nonmodel_line2; assumption).
      cbn [flat_map]. f_equal. apply IH; assumption.
  Qed.

  Lemma atoms_lines2 ls :
    existsb (raises fok) ls = false ->
    Forall2 reads2 (atoms_of (flat_map (line_recs fok) ls)) (filter is_coord2 ls).
  Proof.
    induction ls as [|l r IH]; intros Hr; simpl; [constructor|].
    simpl in Hr. apply orb_false_iff in Hr as [Hrl Hr].
    rewrite atoms_of_app. destruct (is_coord2 l) eqn:Ec.
    - destruct (coord_line2 l Ec Hrl) as [a [E R]]. rewrite E. simpl.
      constructor; [exact R | apply IH; assumption].
    - rewrite (noncoord_line2 l Ec). simpl. apply IH; assumption.
  Qed.

  Lemma reads2_ident a l : reads2 a l -> rident a = line_ident2 fok l.
  Proof. intros [_ [l' [E [R _]]]]. unfold line_ident2. rewrite E. exact R. Qed.

  Lemma kept_lines2 az ls :
    Forall2 reads2 az ls ->
    forall seenA seenI, map rident seenA = seenI ->
      Forall2 reads2 (keep_first same_ident seenA az) (first_listed2 fok seenI ls).
  Proof.
    induction 1 as [|a l az ls R _ IH]; intros seenA seenI Hs; simpl; [constructor|].
    pose proof (reads2_ident a l R) as Ri.
    assert (E : existsb (same_ident a) seenA = existsb (ident_eqb (line_ident2 fok l)) seenI).
    { subst seenI. rewrite <- Ri. clear. induction seenA as [|s S IHs]; simpl; [reflexivity|].
      rewrite IHs. reflexivity. }
    rewrite E. destruct (existsb (ident_eqb (line_ident2 fok l)) seenI).
    - apply IH; exact Hs.
    - constructor; [exact R|]. apply IH. simpl. rewrite Ri, Hs. reflexivity.
  Qed.

  Lemma reads2_src az ls : Forall2 reads2 az ls -> map a_src az = map strip ls.
  Proof.
    induction 1 as [|a l az ls [R _] _ IH]; simpl; [reflexivity|]. rewrite R, IH. reflexivity.
  Qed.

  Lemma existsb_sub {A} (f : A -> bool) l l' :
    (forall x, In x l' -> In x l) -> existsb f l = false -> existsb f l' = false.
  Proof.
    intros H1 H2. destruct (existsb f l') eqn:E; [|reflexivity].
    apply existsb_exists in E as [x [Hx Fx]].
    assert (X : existsb f l = true) by (apply existsb_exists; exists x; auto).
    rewrite X in H2. discriminate.
  Qed.

  Lemma spec_atoms2 lines :
    g1' lines = true -> existsb (raises fok) lines = false ->
    Forall2 reads2
      (keep_first same_ident [] (atoms_of (fm 0 (flat_map (line_recs fok) lines))))
      (cols_read2 fok lines).
  Proof.
    intros Hg Hr.
    rewrite (fm_first_model2 lines 0 false) by auto.
    unfold cols_read2. apply kept_lines2; [|reflexivity].
    apply atoms_lines2.
    eapply existsb_sub; [|exact Hr]. intros x. apply first_model2_sub.
  Qed.

  (* ---- C07_loud_or_complete ------------------------------------------------------------------ *)

  Theorem loud_or_complete lines :
    guard2 fok tab lines = true ->
    if existsb (raises fok) lines
    then ingest fok tab false lines = Raised "ValueError"
    else exists rs, ingest fok tab false lines = Done rs /\
           Permutation (map a_src (all_atoms rs)) (map strip (cols_read2 fok lines)).
  Proof.
    unfold guard2. intros H. apply andb_true_iff in H as [Hg H]. cbv zeta in H.
    apply andb_true_iff in H as [Hin Hal].
    pose proof (read_total lines Hg) as Rt.
    destruct (existsb (raises fok) lines) eqn:Er.
    - unfold ingest. rewrite Rt. reflexivity.
    - destruct Rt as [e Er'].
      destruct (group_complete string a_src (fun _ _ => eq_refl) (fun _ _ => eq_refl)
                  (fun _ _ => eq_refl) (fun _ _ => eq_refl) tab _ Hin Hal) as [rs [Gr P]].
      exists rs. split.
      + unfold ingest. rewrite Er', Gr. reflexivity.
      + rewrite <- (reads2_src _ _ (spec_atoms2 lines Hg Er)). exact P.
  Qed.

  (* every atom carries the column fields of the fixed-column text of a selected line *)
  Theorem atom_fields2 lines rs :
    guard2 fok tab lines = true -> ingest fok tab false lines = Done rs ->
    forall a, In a (all_atoms rs) ->
      exists l l', In l (cols_read2 fok lines) /\ spec_line fok l = Some l' /\
        a_src a = strip l /\
        Some (a_serial a) = py_int (slice 6 11 l') /\
        a_chain a = strip (slice 21 22 l') /\
        Some (a_resseq a) = py_int (slice 22 26 l') /\
        a_icode a = strip (slice 26 27 l') /\
        a_x a = strip (slice 30 38 l') /\ a_y a = strip (slice 38 46 l') /\
        a_z a = strip (slice 46 54 l').
  Proof.
    intros Hgd Hi a Ha. pose proof (loud_or_complete lines Hgd) as L.
    unfold guard2 in Hgd. apply andb_true_iff in Hgd as [Hg H]. cbv zeta in H.
    apply andb_true_iff in H as [Hin Hal].
    destruct (existsb (raises fok) lines) eqn:Er; [rewrite L in Hi; discriminate|].
    pose proof (read_total lines Hg) as Rt. rewrite Er in Rt. destruct Rt as [e Er'].
    destruct (group_complete _ fields (fun _ _ => eq_refl) (fun _ _ => eq_refl)
                (fun _ _ => eq_refl) (fun _ _ => eq_refl) tab _ Hin Hal) as [rs' [Gr P]].
    unfold ingest in Hi. rewrite Er', Gr in Hi. injection Hi as Hi. subst rs'.
    assert (Hf : In (fields a) (map fields (all_atoms rs))) by (apply in_map; exact Ha).
    apply (Permutation_in _ P) in Hf. apply in_map_iff in Hf as [b [Eb Hb]].
    pose proof (spec_atoms2 lines Hg Er) as F2.
    assert (Hl : exists l, In l (cols_read2 fok lines) /\ reads2 b l).
    { clear - Hb F2. induction F2 as [|x l xs ls R _ IH]; [destruct Hb|].
      destruct Hb as [Hb|Hb]; [subst x; exists l; split; [left; reflexivity | exact R]|].
      destruct (IH Hb) as [l' [I' R']]. exists l'. split; [right; exact I' | exact R']. }
    destruct Hl as [l [Il [R1 [l' [El [R2 [R3 [R4 [R5 [R6 R7]]]]]]]]]]. exists l, l'.
    split; [exact Il|]. split; [exact El|].
    unfold fields in Eb. injection Eb as E1 E2 E3 E4 E5 E6 E7 E8.
    unfold rident, line_ident in R2. injection R2 as I1 I2 I3 I4.
    rewrite <- E1, <- E2, <- E3, <- E4, <- E5, <- E6, <- E7, <- E8.
    repeat split; congruence.
  Qed.

  (* ---- later models / drop-water over ALL line lists -------------------------------------- *)

  (* (a raising coordinate line of a later model still fails the whole read:
     read_pdb parses every line before Biomolecule looks at models) *)
  Theorem later_models_all lines :
    forallb chunk_ok lines = true -> existsb (raises fok) lines = false ->
    inert (flat_map (line_recs fok) lines) = true ->
    ingest fok tab false lines = ingest fok tab false (first_model2 false lines).
  Proof.
    intros Hc Hr Hin.
    pose proof (read_total lines Hc) as R1. rewrite Hr in R1. destruct R1 as [e Er].
    assert (Hc' : forallb chunk_ok (first_model2 false lines) = true).
    { eapply forallb_sub; [|exact Hc]. intros x. apply first_model2_sub. }
    assert (Hr' : existsb (raises fok) (first_model2 false lines) = false).
    { eapply existsb_sub; [|exact Hr]. intros x. apply first_model2_sub. }
    pose proof (read_total _ Hc') as R2. rewrite Hr' in R2. destruct R2 as [e' Er'].
    unfold ingest. rewrite Er, Er'.
    rewrite <- (fm_first_model2 lines 0 false) by auto.
    rewrite (group_first_model tab _ Hin). reflexivity.
  Qed.

  Lemma coord_line2_water raw :
    is_coord2 raw = true -> raises fok raw = false ->
    exists a, line_recs fok raw = [RAtom a] /\ tok0_ok a = true /\
      mem_str (a_resname a) water_names = is_water_line2 fok raw.
  Proof.
    intros Hc Hr. unfold is_water_line2. rewrite Hc. cbn [andb].
    revert Hc Hr. unfold is_coord2, raises, spec_line, line_recs. cbv zeta.
    destruct (coord_het (strip raw)) as [het|] eqn:Ec; [|discriminate]. intros _ Hr.
    rewrite (coord_het_nonempty _ _ Ec) in *. cbn [negb andb] in Hr.
    rewrite (lo_coord _ _ Ec) in *.
    destruct (atom_outcome_cases het (strip raw)) as [H|[a [l' [H [He Hp]]]]].
    - rewrite H in Hr. discriminate.
    - rewrite H, He. exists a. split; [reflexivity|].
      destruct (parse_cols_inv fok het _ l' a Hp)
        as [serial [c16 [c21 [resseq [c26 [Ern [_ [_ [_ [_ [_ Ea]]]]]]]]]]].
      subst a. unfold tok0_ok. cbn [a_tok0 a_resname]. rewrite Ern.
      split; [destruct het; reflexivity | reflexivity].
  Qed.

  Lemma drop_water_lines2 lines :
    existsb (raises fok) lines = false ->
    drop_water (flat_map (line_recs fok) lines) =
    flat_map (line_recs fok) (filter (fun l => negb (is_water_line2 fok l)) lines).
  Proof.
    induction lines as [|l r IH]; intros Hr; [reflexivity|].
    simpl in Hr. apply orb_false_iff in Hr as [Hl Hr]. cbn [flat_map].
    rewrite drop_water_app, (IH Hr). cbn [filter].
    destruct (is_coord2 l) eqn:Ec.
    - destruct (coord_line2_water l Ec Hl) as [a [E [Tl Ew]]].
      rewrite E. unfold drop_water at 1. cbn [filter dropped_by_drop_water].
      unfold tok0_ok in Tl. rewrite Tl, Ew. cbn [andb].
      destruct (is_water_line2 fok l); cbn [negb flat_map app]; [reflexivity|].
      rewrite E. reflexivity.
    - assert (Wl : is_water_line2 fok l = false) by (unfold is_water_line2; rewrite Ec; reflexivity).
      rewrite Wl. cbn [negb flat_map]. f_equal.
      pose proof (noncoord_line2 l Ec) as Hn. unfold drop_water.
      clear - Hn. induction (line_recs fok l) as [|x xs IHx]; [reflexivity|].
      destruct x; simpl in *; try discriminate; f_equal; apply IHx; exact Hn.
  Qed.

  Theorem drop_water_all lines :
    forallb chunk_ok lines = true -> existsb (raises fok) lines = false ->
    ingest fok tab true lines =
    ingest fok tab false (filter (fun l => negb (is_water_line2 fok l)) lines).
  Proof.
    intros Hc Hr.
    pose proof (read_total lines Hc) as R1. rewrite Hr in R1. destruct R1 as [e Er].
    set (ls := filter (fun l => negb (is_water_line2 fok l)) lines).
    assert (Hs : forall x, In x ls -> In x lines) by (intros x Hx; apply filter_In in Hx; tauto).
    assert (Hc' : forallb chunk_ok ls = true) by (eapply forallb_sub; [exact Hs | exact Hc]).
    assert (Hr' : existsb (raises fok) ls = false) by (eapply existsb_sub; [exact Hs | exact Hr]).
    pose proof (read_total ls Hc') as R2. rewrite Hr' in R2. destruct R2 as [e' Er'].
    unfold ingest. rewrite Er, Er'. unfold ls. rewrite (drop_water_lines2 lines Hr). reflexivity.
  Qed.

  (* drop_water looks at the residue name only: a coordinate record whose residue
     name is not a water name survives, whatever its serial, chain or position *)
  Lemma drop_water_keeps a recs :
    In (RAtom a) recs -> mem_str (a_resname a) water_names = false -> In (RAtom a) (drop_water recs).
  Proof.
    intros Hi Hw. unfold drop_water. apply filter_In. split; [exact Hi|].
    cbn [dropped_by_drop_water]. rewrite Hw, andb_false_r. reflexivity.
  Qed.

  Lemma drop_water_removes a recs :
    tok0_ok a = true -> mem_str (a_resname a) water_names = true -> ~ In (RAtom a) (drop_water recs).
  Proof.
    intros Ht Hw Hi. unfold drop_water in Hi. apply filter_In in Hi as [_ Hf].
    cbn [dropped_by_drop_water] in Hf. unfold tok0_ok in Ht. rewrite Ht, Hw in Hf. discriminate.
  Qed.

  (* with --drop-water: loud, or exactly the non-water coordinate lines of the first
     model (first listed per identity), whatever the serial numbers *)
  Theorem drop_water_complete lines :
    forallb chunk_ok lines = true ->
    guard2 fok tab (filter (fun l => negb (is_water_line2 fok l)) lines) = true ->
    if existsb (raises fok) lines
    then ingest fok tab true lines = Raised "ValueError"
    else exists rs, ingest fok tab true lines = Done rs /\
           Permutation (map a_src (all_atoms rs))
             (map strip (cols_read2 fok (filter (fun l => negb (is_water_line2 fok l)) lines))).
  Proof.
    intros Hc Hg. destruct (existsb (raises fok) lines) eqn:Er.
    - pose proof (read_total lines Hc) as R. rewrite Er in R. unfold ingest. rewrite R. reflexivity.
    - rewrite (drop_water_all lines Hc Er).
      pose proof (loud_or_complete _ Hg) as L.
      assert (Hr' : existsb (raises fok) (filter (fun l => negb (is_water_line2 fok l)) lines) = false).
      { eapply existsb_sub; [|exact Er]. intros x Hx. apply filter_In in Hx. tauto. }
      rewrite Hr' in L. exact L.
  Qed.

  (* ---- cutting a coordinate line: every position ------------------------------------------

     [take k l] is the line cut after column k.  (read_pdb strips the line first: a
     cut that ends in blanks is the cut at the last non-blank column in front of it.)
       k >= 54       nothing changes                        (parse_cols_take)
       46 < k < 54   read with z = the first k-46 columns of the z field: ValueError
                     if that is not a number, otherwise z is silently the truncated
                     number; every other field is unchanged   (cut_inside_z)
       27 <= k <= 46 always ValueError                       (cut_before_z)
       k <= 26       ATOM: the whitespace fallback (atom_outcome_cases: read from the
                     rebuilt line, or ValueError); HETATM with
                     17 <= k <= 26: ValueError                (cut_hetatm_short)        *)

  Theorem cut_before_z het src l k :
    27 <= k -> k <= 46 -> 26 < String.length l -> fok "" = false ->
    parse_cols fok het src (take k l) = PVal.
  Proof.
    intros Hk1 Hk2 Hl Hf. unfold parse_cols.
    destruct (negb (rec_name (take k l) =? (if het then "HETATM" else "ATOM"))); [reflexivity|].
    destruct (py_int (slice 6 11 (take k l))); [|reflexivity].
    rewrite !(get_take _ k l) by lia.
    destruct (get_lt_some l 16 ltac:(lia)) as [c16 G16]. rewrite G16.
    destruct (get_lt_some l 21 ltac:(lia)) as [c21 G21]. rewrite G21.
    destruct (py_int (slice 22 26 (take k l))); [|reflexivity].
    destruct (get_lt_some l 26 ltac:(lia)) as [c26 G26]. rewrite G26.
    assert (Z : strip (slice 46 54 (take k l)) = "").
    { unfold slice. rewrite (drop_all (take k l) 46) by (rewrite length_take; lia). reflexivity. }
    rewrite Z, Hf, andb_false_r. reflexivity.
  Qed.

  Theorem cut_inside_z het src l k a :
    46 <= k -> k <= 54 -> parse_cols fok het src (take k l) = POk a ->
    a_src a = src /\
    Some (a_serial a) = py_int (slice 6 11 l) /\ a_name a = strip (slice 12 16 l) /\
    a_resname a = strip (slice 17 20 l) /\ a_chain a = strip (slice 21 22 l) /\
    Some (a_resseq a) = py_int (slice 22 26 l) /\ a_icode a = strip (slice 26 27 l) /\
    a_x a = strip (slice 30 38 l) /\ a_y a = strip (slice 38 46 l) /\
    a_z a = strip (slice 46 k l).
  Proof.
    intros Hk1 Hk2 Hp. destruct (parse_cols_cols _ _ _ _ Hp) as [Hs [Hi [Hrn [Hse [Hx [Hy Hz]]]]]].
    unfold rident, line_ident in Hi. injection Hi as I1 I2 I3 I4.
    rewrite !(slice_take _ _ k l) in * by lia.
    rewrite (slice_take_over 46 54 k l) in Hz by lia.
    repeat split; congruence.
  Qed.

  (* a HETATM line of 17..26 columns raises (ATOM lines that short use the fallback) *)
  Theorem cut_hetatm_short src l :
    16 < String.length l -> String.length l <= 26 -> parse_cols fok true src l = PVal.
  Proof.
    intros H1 H2. unfold parse_cols.
    destruct (negb (rec_name l =? "HETATM")); [reflexivity|].
    destruct (py_int (slice 6 11 l)); [|reflexivity].
    destruct (get_lt_some l 16 ltac:(lia)) as [c16 G16]. rewrite G16.
    destruct (String.get 21 l); [|reflexivity].
    destruct (py_int (slice 22 26 l)); [|reflexivity].
    destruct (String.get 26 l) eqn:G26; [|reflexivity].
    apply get_some_len in G26. lia.
  Qed.

End Ingest2.
