(* C13 at pipeline level: the disulfide flags of the RETURNED model are those of its final sulfur positions.

   Biomolecule.update_ss_bridges decides from the sulfur positions it sees when it runs.  The property
   speaks of the returned model, so the decision has to be made after every stage that creates or moves
   heavy atoms (a cysteine whose SG record is missing gets its sulfur from repair_heavy), and no such stage
   may run afterwards.  This file states that as an obligation on the stage table gen/stages.py translates
   from pdb2pqr/main.py (Generated/Stages.v) and proves, for every stage list meeting it and every
   semantics of the stages that respects the three frame conditions below, that the flags of the final
   state are detect(sulfurs of the final state).

   Scope: the non_trivial path with debumping switched off (--nodebump): the two debump_biomolecule passes
   come after the detection and may move a free cysteine's sulfur; they are allowed after the detection
   only because args.debump controls them.  (With debumping on, the returned sulfurs can differ from the
   ones detection saw; the property does not say which of the two it means, and the harness judges the
   returned model only under --nodebump --noopt.)

   Frame conditions (Section variables - modelled, tied at run time by the rebuilt-sulfur stage of
   harness/props/c13.py, which classifies by the sulfur positions of the returned model):
     - update_ss_bridges writes the flags from the current sulfurs and moves nothing;
     - no other stage writes the flags;
     - a stage that is not a heavy-atom mover leaves the sulfurs where they are. *)
From Coq Require Import String List Bool Arith.
From PV Require Import Model.Pipeline.
Import ListNotations.
Local Open Scope string_scope.

Definition is_ss (d : sdesc) : bool := String.eqb (sd_name d) "update_ss_bridges".
Definition heavy_movers : list string :=
  ["get_molecule"; "drop_water"; "setup_molecule"; "repair_heavy"; "debump_biomolecule"].
Definition mover (d : sdesc) : bool := mem (sd_name d) heavy_movers.
Definition debump_guarded (d : sdesc) : bool := mem "debump" (sd_reads d).

(* after the detection: no second detection; a heavy-atom mover only under the control of args.debump *)
Definition after_ok (ds : list sdesc) : bool :=
  forallb (fun d => negb (is_ss d) && (negb (mover d) || debump_guarded d)) ds.

(* the first detection stage is not controlled by args.debump, and everything behind it is after_ok *)
Fixpoint order_ok (ds : list sdesc) : bool :=
  match ds with
  | [] => false
  | d :: r => if is_ss d then negb (debump_guarded d) && after_ok r else order_ok r
  end.

(* the stages the property needs to exist at all *)
Definition has_stage (n : string) (ds : list sdesc) : bool := existsb (fun d => String.eqb (sd_name d) n) ds.
Definition ss_order_obligation (ds : list sdesc) : bool :=
  order_ok ds && has_stage "repair_heavy" ds && has_stage "debump_biomolecule" ds.

Section Semantics.
  Variables (state S F : Type).
  Variable sulfurs : state -> S.
  Variable flags : state -> F.
  Variable detect : S -> F.
  Variable sem : sdesc -> state -> state.

  (* with --nodebump a stage controlled by args.debump does not run (polarity: observed at run time, C04's tie) *)
  Definition step (s : state) (d : sdesc) : state := if debump_guarded d then s else sem d s.
  Definition run (ds : list sdesc) (s : state) : state := fold_left step ds s.

  Hypothesis ss_writes : forall d s, is_ss d = true -> flags (sem d s) = detect (sulfurs s) /\ sulfurs (sem d s) = sulfurs s.
  Hypothesis only_ss_writes_flags : forall d s, is_ss d = false -> flags (sem d s) = flags s.
  Hypothesis non_movers_keep_sulfurs : forall d s, mover d = false -> sulfurs (sem d s) = sulfurs s.

  Definition consistent (s : state) : Prop := flags s = detect (sulfurs s).

  Lemma after_ok_keeps : forall ds s, after_ok ds = true -> consistent s -> consistent (run ds s).
  Proof.
    induction ds as [|d r IH]; intros s Hok Hc; [exact Hc|].
    unfold after_ok in Hok. cbn [forallb] in Hok.
    apply andb_true_iff in Hok. destruct Hok as [Hd Hr].
    apply andb_true_iff in Hd. destruct Hd as [Hnss Hmv].
    apply negb_true_iff in Hnss.
    unfold run. cbn [fold_left]. apply IH; [exact Hr|].
    unfold step. destruct (debump_guarded d) eqn:Hg; [exact Hc|].
    rewrite orb_false_r in Hmv. apply negb_true_iff in Hmv.
    unfold consistent. rewrite (only_ss_writes_flags d s Hnss), (non_movers_keep_sulfurs d s Hmv). exact Hc.
  Qed.

  Theorem detection_sees_final_sulfurs :
    forall ds s, order_ok ds = true -> consistent (run ds s).
  Proof.
    induction ds as [|d r IH]; intros s Hok; [discriminate Hok|].
    cbn [order_ok] in Hok. unfold run. cbn [fold_left].
    destruct (is_ss d) eqn:Hss.
    - apply andb_true_iff in Hok. destruct Hok as [Hg Hr]. apply negb_true_iff in Hg.
      apply after_ok_keeps; [exact Hr|].
      unfold step. rewrite Hg. unfold consistent.
      destruct (ss_writes d s Hss) as [Hf Hs]. rewrite Hf, Hs. reflexivity.
    - apply IH. exact Hok.
  Qed.
End Semantics.

(* The obligation is needed: a semantics meeting the three frame conditions and a stage list with the
   detection BEFORE repair_heavy, whose returned flags are not those of the returned sulfurs. *)
Definition w_state := (nat * nat)%type.   (* (number of sulfurs in range, flag = number seen by the detection) *)
Definition w_sem (d : sdesc) (s : w_state) : w_state :=
  if is_ss d then (fst s, fst s)
  else if String.eqb (sd_name d) "repair_heavy" then (S (fst s), snd s) else s.
Definition w_stage (n : string) : sdesc := mk_sdesc n "non_trivial" Compute [] [] [] false false.

Lemma detection_before_repair_is_wrong :
  let ds := [w_stage "update_ss_bridges"; w_stage "repair_heavy"] in
  order_ok ds = false /\
  (forall d s, is_ss d = true -> snd (w_sem d s) = fst s /\ fst (w_sem d s) = fst s) /\
  (forall d s, is_ss d = false -> snd (w_sem d s) = snd s) /\
  (forall d s, mover d = false -> fst (w_sem d s) = fst s) /\
  snd (run w_state w_sem ds (0, 0)) <> fst (run w_state w_sem ds (0, 0)).
Proof.
  cbn zeta. split; [vm_compute; reflexivity|]. split; [|split; [|split]].
  - intros d s H. unfold w_sem. rewrite H. cbn. split; reflexivity.
  - intros d s H. unfold w_sem. rewrite H. destruct (String.eqb (sd_name d) "repair_heavy"); reflexivity.
  - intros d s H. unfold w_sem. destruct (is_ss d); [reflexivity|].
    destruct (String.eqb (sd_name d) "repair_heavy") eqn:E; [|reflexivity].
    apply String.eqb_eq in E. unfold mover, heavy_movers in H. rewrite E in H. vm_compute in H. discriminate H.
  - vm_compute. discriminate.
Qed.
