(* C11 - lemmas about the survivors/entropy abstraction (Model/History.v). *)
From Coq Require Import String List Bool Arith.
From PV Require Import Model.History.
Import ListNotations.
Local Open Scope string_scope.

(* ---- the boolean obligations mean what they say ------------------------- *)

Lemma survivor_obligation_sound (t : list surv) :
  survivor_obligation t = true ->
  forall id, flows t id = true -> written t id = false.
Proof.
  intros Hob id Hf.
  destruct (written t id) eqn:Hw; [|reflexivity].
  exfalso.
  pose proof Hw as Hw0.
  unfold written in Hw0. apply existsb_exists in Hw0.
  destruct Hw0 as [s [Hin Hs]].
  apply andb_true_iff in Hs. destruct Hs as [Hid _].
  apply String.eqb_eq in Hid.
  unfold survivor_obligation in Hob.
  rewrite forallb_forall in Hob. specialize (Hob s Hin).
  rewrite Hid, Hw, Hf in Hob. discriminate.
Qed.

Lemma entropy_obligation_sound (et : list esite) :
  entropy_obligation et = true -> forall id, live et id = false.
Proof.
  intros Hob id.
  destruct (live et id) eqn:Hl; [|reflexivity].
  exfalso.
  unfold live in Hl. apply existsb_exists in Hl.
  destruct Hl as [e [Hin He]].
  unfold entropy_obligation in Hob. rewrite forallb_forall in Hob.
  specialize (Hob e Hin).
  destruct (e_flows e), (e_neutral e), (e_id e =? id); simpl in *; discriminate.
Qed.

(* the offender lists are empty exactly when the obligations hold *)
Lemma filter_nil_forallb (A B : Type) (f : A -> B) (p : A -> bool) (l : list A) :
  map f (filter p l) = [] <-> forallb (fun x => negb (p x)) l = true.
Proof.
  induction l as [|a l IH]; simpl; [tauto|].
  destruct (p a); simpl; [split; intros H; discriminate | exact IH].
Qed.

Lemma survivor_offenders_nil (t : list surv) :
  survivor_offenders t = [] <-> survivor_obligation t = true.
Proof. apply filter_nil_forallb. Qed.

Section Process.
  Variable Val EVal Input Output : Type.
  Variable run : state Val -> entropy EVal -> Input -> Output * state Val.
  Variable t : list surv.
  Variable et : list esite.

  Lemma exec_snoc (st0 : state Val) (h : list (@event Val EVal Input)) ev :
    exec run st0 (h ++ [ev]) = step run (exec run st0 h) ev.
  Proof. unfold exec. rewrite fold_left_app. reflexivity. Qed.

  Lemma out_snoc_run (st0 : state Val) (h : list (@event Val EVal Input)) i e :
    out run st0 (h ++ [Run i e]) = Some (fst (run (fst (exec run st0 h)) e i)).
  Proof.
    unfold out. rewrite exec_snoc. simpl.
    destruct (run (fst (exec run st0 h)) e i) as [o st']. reflexivity.
  Qed.

  Hypothesis Hwrites : writes_only run t.

  (* induction over histories: survivors nobody writes keep their import-time value,
     whatever mixture of complete and crashed runs happened *)
  Lemma unwritten_preserved_acc (h : list (@event Val EVal Input)) :
    Forall (crash_ok t) h ->
    forall acc id, written t id = false ->
      fst (fold_left (step run) h acc) id = fst acc id.
  Proof.
    induction h as [|ev h IH]; intros Hok acc id Hid; simpl; [reflexivity|].
    inversion Hok as [|x l Hev Hrest]; subst.
    rewrite (IH Hrest _ id Hid).
    destruct ev as [i e|w]; simpl.
    - destruct (run (fst acc) e i) as [o st'] eqn:E. simpl.
      pose proof (Hwrites (fst acc) e i id Hid) as Hw. rewrite E in Hw. exact Hw.
    - simpl in Hev. apply Hev. exact Hid.
  Qed.

  Lemma unwritten_preserved (st0 : state Val) (h : list (@event Val EVal Input)) :
    Forall (crash_ok t) h ->
    forall id, written t id = false -> fst (exec run st0 h) id = st0 id.
  Proof.
    intros Hok id Hid. unfold exec.
    rewrite (unwritten_preserved_acc h Hok (st0, None) id Hid). reflexivity.
  Qed.

  Hypothesis Hreads : reads_only run t et.
  Hypothesis Hob : survivor_obligation t = true.
  Hypothesis Heob : entropy_obligation et = true.

  Theorem history_independence :
    forall (st0 : state Val) (h1 h2 : list (@event Val EVal Input)) (i : Input) (e1 e2 : entropy EVal),
      Forall (crash_ok t) h1 -> Forall (crash_ok t) h2 ->
      out run st0 (h1 ++ [Run i e1]) = out run st0 (h2 ++ [Run i e2]).
  Proof.
    intros st0 h1 h2 i e1 e2 H1 H2.
    rewrite !out_snoc_run. f_equal.
    apply Hreads.
    - intros id Hf.
      pose proof (survivor_obligation_sound t Hob id Hf) as Hnw.
      rewrite (unwritten_preserved st0 h1 H1 id Hnw).
      rewrite (unwritten_preserved st0 h2 H2 id Hnw). reflexivity.
    - intros id Hl. rewrite (entropy_obligation_sound et Heob id) in Hl. discriminate.
  Qed.

  (* special case: a fresh process (empty history) under any entropy (hash seed)
     gives the bytes of any later repetition *)
  Corollary fresh_process_agrees :
    forall (st0 : state Val) (h : list (@event Val EVal Input)) (i : Input) (e1 e2 : entropy EVal),
      Forall (crash_ok t) h ->
      out run st0 [Run i e1] = out run st0 (h ++ [Run i e2]).
  Proof.
    intros st0 h i e1 e2 Hh.
    exact (history_independence st0 [] h i e1 e2 (Forall_nil _) Hh).
  Qed.

  (* special case: the SAME history and input, run under two environments
     (working directory contents, environment variables, locale, clock - all
     carried by the entropy assignment of the last run AND of every earlier run) *)
  Definition retag (f : entropy EVal -> entropy EVal) (ev : @event Val EVal Input) : @event Val EVal Input :=
    match ev with Run i e => Run i (f e) | Crash w => Crash w end.

  Lemma retag_crash_ok (f : entropy EVal -> entropy EVal) (h : list (@event Val EVal Input)) :
    Forall (crash_ok t) h -> Forall (crash_ok t) (map (retag f) h).
  Proof.
    induction h as [|ev h IH]; intros Hh; simpl; [constructor|].
    inversion Hh as [|x l Hev Hrest]; subst.
    constructor; [destruct ev; simpl; auto | exact (IH Hrest)].
  Qed.

  Corollary environment_independence :
    forall (st0 : state Val) (h : list (@event Val EVal Input)) (i : Input)
           (e1 e2 : entropy EVal) (move : entropy EVal -> entropy EVal),
      Forall (crash_ok t) h ->
      out run st0 (h ++ [Run i e1]) = out run st0 (map (retag move) h ++ [Run i e2]).
  Proof.
    intros st0 h i e1 e2 move Hh.
    exact (history_independence st0 h (map (retag move) h) i e1 e2 Hh (retag_crash_ok move h Hh)).
  Qed.

  (* special case: a run that FAILS after it has already written survivors (a cache
     filled while parsing, a registry half updated: w is arbitrary on the survivors
     some run-time path writes), followed by the retry of a request: the retry gives
     what the request gives alone in a fresh process *)
  Corollary retry_after_crash :
    forall (st0 : state Val) (h : list (@event Val EVal Input)) (w : state Val -> state Val)
           (i : Input) (e1 e2 : entropy EVal),
      Forall (crash_ok t) h -> crash_ok t (@Crash Val EVal Input w) ->
      out run st0 ((h ++ [Crash w]) ++ [Run i e1]) = out run st0 ([] ++ [Run i e2]).
  Proof.
    intros st0 h w i e1 e2 Hh Hw.
    apply history_independence; [|constructor].
    apply Forall_app. split; [exact Hh | constructor; [exact Hw | constructor]].
  Qed.
End Process.

(* ---- the demo systems ---------------------------------------------------- *)

Lemma good_reads : reads_only good_run good_table good_sites.
Proof.
  intros st1 st2 e1 e2 i Hst _. unfold good_run. simpl.
  rewrite (Hst "table" eq_refl). reflexivity.
Qed.

Lemma upd_other (st : state nat) k v id : (k =? id) = false -> upd st k v id = st id.
Proof. intros H. unfold upd. rewrite String.eqb_sym. rewrite H. reflexivity. Qed.

Lemma good_writes : writes_only good_run good_table.
Proof.
  intros st e i id Hid. unfold good_run. simpl.
  unfold written, good_table in Hid. simpl in Hid.
  rewrite andb_false_r in Hid. simpl in Hid. rewrite orb_false_r, andb_true_r in Hid.
  apply upd_other. exact Hid.
Qed.

Lemma bad_reads : reads_only bad_run bad_table [].
Proof.
  intros st1 st2 e1 e2 i Hst _. unfold bad_run. simpl.
  rewrite (Hst "cache" eq_refl). reflexivity.
Qed.

Lemma bad_writes : writes_only bad_run bad_table.
Proof.
  intros st e i id Hid. unfold bad_run. simpl.
  unfold written, bad_table in Hid. simpl in Hid.
  rewrite orb_false_r, andb_true_r in Hid.
  apply upd_other. exact Hid.
Qed.

Lemma order_reads : reads_only order_run [] bad_sites.
Proof.
  intros st1 st2 e1 e2 i _ He. unfold order_run. simpl.
  rewrite (He "for x in s" eq_refl). reflexivity.
Qed.

Lemma order_writes : writes_only order_run [].
Proof. intros st e i id _. reflexivity. Qed.

Definition e0 : entropy nat := fun _ => 0.
Definition e1 : entropy nat := fun _ => 1.
Definition zero_state : state nat := fun _ => 0.

(* a written AND read survivor makes two histories disagree although the
   system meets both trusted hypotheses: the obligation cannot be dropped *)
Theorem obligation_necessary :
  exists (t : list surv) (run : state nat -> entropy nat -> nat -> nat * state nat),
    reads_only run t [] /\ writes_only run t /\ survivor_obligation t = false /\
    exists st0 (h1 h2 : list (@event nat nat nat)) i e,
      Forall (crash_ok t) h1 /\ Forall (crash_ok t) h2 /\
      out run st0 (h1 ++ [Run i e]) <> out run st0 (h2 ++ [Run i e]).
Proof.
  exists bad_table, bad_run.
  split; [exact bad_reads|]. split; [exact bad_writes|]. split; [reflexivity|].
  exists zero_state, [], [Run 5 e0], 7, e0.
  split; [constructor|]. split; [repeat constructor|].
  vm_compute. discriminate.
Qed.

(* crash mid-write, then retry: the failing run left a value in a survivor that the
   retry reads (bad_run answers from its cache when the cache is non-empty) - the
   retry "succeeds" with the leftover although the request alone gives 7 *)
Theorem retry_after_crash_necessary :
  exists (t : list surv) (run : state nat -> entropy nat -> nat -> nat * state nat),
    reads_only run t [] /\ writes_only run t /\ survivor_obligation t = false /\
    exists st0 (w : state nat -> state nat) i e,
      crash_ok t (@Crash nat nat nat w) /\
      out run st0 (([] ++ [Crash w]) ++ [Run i e]) <> out run st0 ([] ++ [Run i e]).
Proof.
  exists bad_table, bad_run.
  split; [exact bad_reads|]. split; [exact bad_writes|]. split; [reflexivity|].
  exists zero_state, (fun st => upd st "cache" 9), 7, e0.
  split.
  - simpl. intros st id Hid.
    unfold written, bad_table in Hid. simpl in Hid.
    rewrite orb_false_r, andb_true_r in Hid.
    apply upd_other. exact Hid.
  - vm_compute. discriminate.
Qed.

(* same for an un-neutralised unordered iteration that reaches the output *)
Theorem entropy_obligation_necessary :
  exists (et : list esite) (run : state nat -> entropy nat -> nat -> nat * state nat),
    reads_only run [] et /\ writes_only run [] /\ entropy_obligation et = false /\
    exists st0 i ea eb,
      out run st0 (([] : list (@event nat nat nat)) ++ [Run i ea]) <> out run st0 ([] ++ [Run i eb]).
Proof.
  exists bad_sites, order_run.
  split; [exact order_reads|]. split; [exact order_writes|]. split; [reflexivity|].
  exists zero_state, 0, e0, e1.
  vm_compute. discriminate.
Qed.

(* ... and for an environment site: the same request, the same (empty) history,
   the same survivors - only the working directory differs (no same-named file
   vs a decoy AMBER.DAT whose parameter is 41) *)
Lemma cwd_reads : reads_only cwd_run cwd_table cwd_sites.
Proof.
  intros st1 st2 ea eb i Hst He. unfold cwd_run. simpl.
  rewrite (He "Path('AMBER.DAT').is_file()" eq_refl).
  rewrite (Hst "table" eq_refl). reflexivity.
Qed.

Lemma cwd_writes : writes_only cwd_run cwd_table.
Proof. intros st e i id _. reflexivity. Qed.

Definition cwd_empty : entropy nat := fun _ => 0.
Definition cwd_decoy : entropy nat := fun _ => 42.

Theorem environment_obligation_necessary :
  exists (t : list surv) (et : list esite) (run : state nat -> entropy nat -> nat -> nat * state nat),
    reads_only run t et /\ writes_only run t /\
    survivor_obligation t = true /\ entropy_obligation et = false /\
    Forall (fun e => e_kind e = E_fs_cwd) et /\
    exists st0 (h : list (@event nat nat nat)) i ea eb,
      Forall (crash_ok t) h /\
      out run st0 (h ++ [Run i ea]) <> out run st0 (h ++ [Run i eb]).
Proof.
  exists cwd_table, cwd_sites, cwd_run.
  split; [exact cwd_reads|]. split; [exact cwd_writes|].
  split; [reflexivity|]. split; [reflexivity|].
  split; [repeat constructor|].
  exists (demo_state 10 0), [Run 1 cwd_empty], 3, cwd_empty, cwd_decoy.
  split; [repeat constructor|].
  vm_compute. discriminate.
Qed.

Definition demo_history : list (@event nat nat nat) :=
  [Run 1 e0; Crash (fun st => upd st "counter" 99); Run 2 e1].

Lemma demo_crash_ok : Forall (crash_ok good_table) demo_history.
Proof.
  unfold demo_history. repeat constructor.
  simpl. intros st id Hid.
  unfold written, good_table in Hid. simpl in Hid.
  rewrite andb_false_r in Hid. simpl in Hid. rewrite orb_false_r, andb_true_r in Hid.
  apply upd_other. exact Hid.
Qed.

(* the hypotheses of history_independence are met by a system whose runs
   really write state (the counter moves, also in a crashed run) and whose
   output really reads state (the table) *)
Lemma nonvacuous :
  survivor_obligation good_table = true /\ entropy_obligation good_sites = true /\
  reads_only good_run good_table good_sites /\ writes_only good_run good_table /\
  Forall (crash_ok good_table) demo_history /\
  fst (exec good_run (demo_state 10 0) demo_history) "counter" = 100 /\
  out good_run (demo_state 10 0) (demo_history ++ [Run 3 e0]) = Some 13 /\
  out good_run (demo_state 10 0) ([] ++ [Run 3 e1]) = Some 13 /\
  out good_run (demo_state 20 0) ([] ++ [Run 3 e1]) = Some 23.
Proof.
  split; [reflexivity|]. split; [reflexivity|].
  split; [exact good_reads|]. split; [exact good_writes|].
  split; [exact demo_crash_ok|].
  repeat split; vm_compute; reflexivity.
Qed.

(* the same system with environment sites present but not flowing (a side file
   written into the cwd, an ASCII data file decoded through the locale): the
   hypotheses still hold and moving the process (entropy e0 -> cwd_decoy in
   EVERY run of the history) does not change the output *)
Lemma env_good_reads : reads_only good_run good_table env_good_sites.
Proof.
  intros st1 st2 ea eb i Hst _. unfold good_run. simpl.
  rewrite (Hst "table" eq_refl). reflexivity.
Qed.

Lemma nonvacuous_environment :
  entropy_obligation env_good_sites = true /\
  reads_only good_run good_table env_good_sites /\
  (exists e, In e env_good_sites /\ e_kind e = E_fs_cwd) /\
  out good_run (demo_state 10 0) (demo_history ++ [Run 3 e0]) = Some 13 /\
  out good_run (demo_state 10 0) (map (retag nat nat nat (fun _ => cwd_decoy)) demo_history ++ [Run 3 cwd_decoy]) = Some 13.
Proof.
  split; [reflexivity|]. split; [exact env_good_reads|].
  split; [exists (mk_esite "open(stem + '-input.p', 'wb')" E_fs_cwd false false); split; [simpl; auto | reflexivity]|].
  split; vm_compute; reflexivity.
Qed.
