(* Lemmas and proofs about Model/PqrFormat.v (C08; printing-side lemmas of C09). *)
From Coq Require Import String Ascii List Arith NArith ZArith Bool Lia ZifyBool ZifyNat
  DecimalString DecimalN DecimalZ DecimalPos Decimal.
From PV Require Import Lib.Strings Lib.Decimal Model.PqrFormat.
Import ListNotations.
Local Open Scope string_scope.

(* ======================================================================== *)
(* 1. strings                                                               *)

Lemma take_all n s : String.length s <= n -> take n s = s.
Proof.
  revert s; induction n as [|n IH]; intros [|c r] H; simpl in *; try reflexivity; try lia.
  rewrite IH by lia. reflexivity.
Qed.

Lemma take_app_len n a b : String.length a = n -> take n (a ++ b) = a.
Proof. intros <-. apply take_app_exact. Qed.

Lemma drop_app_len n a b : String.length a = n -> drop n (a ++ b) = b.
Proof. intros <-. apply drop_app_exact. Qed.

Lemma drop_app_ge n k a b : String.length a = k -> k <= n -> drop n (a ++ b) = drop (n - k) b.
Proof.
  intros <-. revert n. induction a as [|c a IH]; intros n H; simpl in *.
  - now rewrite Nat.sub_0_r.
  - destruct n as [|n]; [lia|]. simpl. apply IH. lia.
Qed.

Lemma take_app_ge n k a b : String.length a = k -> k <= n -> take n (a ++ b) = a ++ take (n - k) b.
Proof.
  intros <-. revert n. induction a as [|c a IH]; intros n H; simpl in *.
  - now rewrite Nat.sub_0_r.
  - destruct n as [|n]; [lia|]. simpl. rewrite IH by lia. reflexivity.
Qed.

Lemma drop_0 s : drop 0 s = s.
Proof. destruct s; reflexivity. Qed.

Lemma take_0 s : take 0 s = "".
Proof. destruct s; reflexivity. Qed.

Lemma drop_all n s : String.length s <= n -> drop n s = "".
Proof.
  revert s; induction n as [|n IH]; intros [|c r] H; simpl in *; try reflexivity; try lia.
  apply IH. lia.
Qed.

Lemma length_take_ljust n s : String.length (take n (ljust n s)) = n.
Proof. rewrite length_take, length_ljust. lia. Qed.

Lemma length_take_rjust n s : String.length (take n (rjust n s)) = n.
Proof. rewrite length_take, length_rjust. lia. Qed.

Lemma take_rjust_fit n s :
  String.length s <= n -> take n (rjust n s) = repeat_char sp (n - String.length s) ++ s.
Proof.
  intros H. apply take_all. unfold rjust. rewrite length_app, length_repeat. lia.
Qed.

Lemma take_ljust_fit n s :
  String.length s <= n -> take n (ljust n s) = s ++ repeat_char sp (n - String.length s).
Proof.
  intros H. apply take_all. unfold ljust. rewrite length_app, length_repeat. lia.
Qed.

Lemma ljust_long n s : n <= String.length s -> ljust n s = s.
Proof.
  intros H. unfold ljust. replace (n - String.length s) with 0 by lia. simpl. apply app_empty_r.
Qed.

Lemma any_char_app p a b : any_char p (a ++ b) = any_char p a || any_char p b.
Proof. induction a as [|c a IH]; simpl; [reflexivity|]. rewrite IH. now rewrite orb_assoc. Qed.

Lemma all_chars_app p a b : all_chars p (a ++ b) = all_chars p a && all_chars p b.
Proof. induction a as [|c a IH]; simpl; [reflexivity|]. rewrite IH. now rewrite andb_assoc. Qed.

Lemma all_chars_repeat p c n : p c = true -> all_chars p (repeat_char c n) = true.
Proof. intros H. induction n; simpl; [reflexivity|]. now rewrite H, IHn. Qed.

Lemma all_chars_take p n s : all_chars p s = true -> all_chars p (take n s) = true.
Proof.
  revert s; induction n as [|n IH]; intros [|c r] H; simpl in *; try reflexivity.
  apply andb_true_iff in H as [H1 H2]. now rewrite H1, IH.
Qed.

Lemma all_chars_drop p n s : all_chars p s = true -> all_chars p (drop n s) = true.
Proof.
  revert s; induction n as [|n IH]; intros [|c r] H; simpl in *; try reflexivity; try assumption.
  apply andb_true_iff in H as [H1 H2]. now apply IH.
Qed.

Lemma all_not_any p q s :
  (forall c, p c = true -> q c = false) -> all_chars p s = true -> any_char q s = false.
Proof.
  intros Hpq. induction s as [|c r IH]; simpl; intros H; [reflexivity|].
  apply andb_true_iff in H as [H1 H2]. now rewrite (Hpq _ H1), IH.
Qed.

Lemma is_empty_length s : is_empty s = false <-> 1 <= String.length s.
Proof. destruct s; simpl; split; intros; try lia; try discriminate; reflexivity. Qed.

Lemma is_empty_true s : is_empty s = true -> s = "".
Proof. destruct s; simpl; congruence. Qed.

(* ---- strip of a blank-padded, blank-free string ---- *)

Lemma lstrip_blanks k t : lstrip (repeat_char sp k ++ t) = lstrip t.
Proof. induction k; simpl; auto. Qed.

Lemma lstrip_noblank_head s t : any_char is_ws s = false -> is_empty s = false ->
  lstrip (s ++ t) = s ++ t.
Proof.
  destruct s as [|c r]; simpl; intros H E; [discriminate|].
  apply orb_false_iff in H as [Hc _]. now rewrite Hc.
Qed.

Lemma rstrip_blanks j : rstrip (repeat_char sp j) = "".
Proof. induction j; simpl; [reflexivity|]. rewrite IHj. reflexivity. Qed.

Lemma rstrip_noblank s j : any_char is_ws s = false -> rstrip (s ++ repeat_char sp j) = s.
Proof.
  induction s as [|c r IH]; simpl; intros H.
  - apply rstrip_blanks.
  - apply orb_false_iff in H as [Hc Hr]. rewrite (IH Hr), Hc. reflexivity.
Qed.

Theorem strip_padded k s j :
  any_char is_ws s = false -> strip (repeat_char sp k ++ s ++ repeat_char sp j) = s.
Proof.
  intros H. unfold strip. rewrite lstrip_blanks.
  destruct (is_empty s) eqn:E.
  - apply is_empty_true in E. subst s. simpl.
    replace (repeat_char sp j) with (repeat_char sp j ++ "") by apply app_empty_r.
    rewrite lstrip_blanks. reflexivity.
  - rewrite (lstrip_noblank_head _ _ H E). now apply rstrip_noblank.
Qed.

Lemma strip_rpad k s : any_char is_ws s = false -> strip (repeat_char sp k ++ s) = s.
Proof.
  intros H. rewrite <- (app_empty_r s) at 1. exact (strip_padded k s 0 H).
Qed.

Lemma strip_lpad s j : any_char is_ws s = false -> strip (s ++ repeat_char sp j) = s.
Proof. intros H. exact (strip_padded 0 s j H). Qed.

(* ---- tokens of a blank-padded, blank-free string ---- *)

Definition ws_head (s : string) : Prop :=
  match s with EmptyString => True | String c _ => is_ws c = true end.

Lemma tokens_blanks k t : tokens (repeat_char sp k ++ t) = tokens t.
Proof. induction k; simpl repeat_char; simpl append; [reflexivity|]. now rewrite tokens_ws_prefix. Qed.

Lemma tokens_word_then s rest :
  any_char is_ws s = false -> is_empty s = false -> ws_head rest ->
  tokens (s ++ rest) = s :: tokens rest.
Proof.
  intros H E W. destruct rest as [|w r].
  - rewrite app_empty_r. now apply tokens_single.
  - simpl in W. rewrite (tokens_app_ws _ _ _ W), (tokens_single _ H E).
    now rewrite (tokens_ws_prefix _ _ W).
Qed.

(* the step used field by field *)
Lemma tokens_pad_then k s rest :
  any_char is_ws s = false -> is_empty s = false -> ws_head rest ->
  tokens (repeat_char sp k ++ s ++ rest) = s :: tokens rest.
Proof. intros. rewrite tokens_blanks. now apply tokens_word_then. Qed.

Lemma ws_head_sp r : ws_head (String sp r).
Proof. reflexivity. Qed.

Lemma ws_head_nl r : ws_head (nl ++ r).
Proof. reflexivity. Qed.

Lemma ws_head_rep k r : 1 <= k -> ws_head (repeat_char sp k ++ r).
Proof. destruct k; [lia|]. reflexivity. Qed.

(* ======================================================================== *)
(* 2. characters and decimal numbers                                        *)

Lemma digit_not_ws c : is_digit c = true -> is_ws c = false.
Proof. destruct c as [[] [] [] [] [] [] [] []]; vm_compute; congruence. Qed.

Lemma digit_not_minus c : is_digit c = true -> (c =? "-")%char = false.
Proof. destruct c as [[] [] [] [] [] [] [] []]; vm_compute; congruence. Qed.

Lemma digit_not_plus c : is_digit c = true -> (c =? "+")%char = false.
Proof. destruct c as [[] [] [] [] [] [] [] []]; vm_compute; congruence. Qed.

Lemma digit_not_dot c : is_digit c = true -> (c =? dot_char)%char = false.
Proof. destruct c as [[] [] [] [] [] [] [] []]; vm_compute; congruence. Qed.

Lemma digits_no_ws s : all_chars is_digit s = true -> any_char is_ws s = false.
Proof. apply all_not_any. exact digit_not_ws. Qed.

Lemma uint_string_digits u : all_chars is_digit (NilEmpty.string_of_uint u) = true.
Proof. induction u; simpl; auto. Qed.

Lemma N_to_string_eq n : N_to_string n = NilEmpty.string_of_uint (N.to_uint n).
Proof.
  unfold N_to_string. destruct n as [|p]; [reflexivity|]. simpl.
  pose proof (DecimalPos.Unsigned.to_uint_nonnil p) as Hn.
  destruct (Pos.to_uint p); [congruence | reflexivity ..].
Qed.

Lemma N_to_string_digits n : all_chars is_digit (N_to_string n) = true.
Proof. rewrite N_to_string_eq. apply uint_string_digits. Qed.

Lemma N_to_string_nonempty n : is_empty (N_to_string n) = false.
Proof.
  unfold N_to_string. destruct n as [|p]; [reflexivity|]. simpl.
  pose proof (DecimalPos.Unsigned.to_uint_nonnil p) as Hn.
  destruct (Pos.to_uint p); [congruence | reflexivity ..].
Qed.

Lemma digits_value_N n : digits_value (N_to_string n) = Some n.
Proof.
  unfold digits_value. rewrite N_to_string_eq, NilEmpty.usu. simpl.
  now rewrite DecimalN.Unsigned.of_to.
Qed.

Lemma digits_value_zero s : digits_value (String zero_char s) = digits_value s.
Proof.
  unfold digits_value. simpl. destruct (NilEmpty.uint_of_string s); reflexivity.
Qed.

Lemma digits_value_zfill w s : digits_value (zfill w s) = digits_value s.
Proof.
  unfold zfill. induction (w - String.length s) as [|k IH]; simpl; [reflexivity|].
  now rewrite digits_value_zero.
Qed.

Lemma Z_to_string_cases z :
  Z_to_string z = if (z <? 0)%Z then String "-" (N_to_string (Z.to_N (- z)))
                  else N_to_string (Z.to_N z).
Proof. destruct z; reflexivity. Qed.

Lemma int_body_digits b s :
  all_chars is_digit s = true -> (is_empty s = false \/ b = true) -> int_body b s = Some s.
Proof.
  revert b. induction s as [|c r IH]; intros b H E; simpl in *.
  - destruct E as [E|E]; [discriminate | now rewrite E].
  - apply andb_true_iff in H as [Hc Hr]. rewrite Hc.
    rewrite (IH true Hr) by now right. reflexivity.
Qed.

Lemma sign_split_digit s :
  all_chars is_digit s = true -> sign_split s = (false, s).
Proof.
  destruct s as [|c r]; simpl; intros H; [reflexivity|].
  apply andb_true_iff in H as [Hc _].
  now rewrite (digit_not_minus _ Hc), (digit_not_plus _ Hc).
Qed.

Lemma py_int_N n : py_int (N_to_string n) = Some (Z.of_N n).
Proof.
  unfold py_int. rewrite (sign_split_digit _ (N_to_string_digits n)).
  rewrite int_body_digits by (auto using N_to_string_digits, N_to_string_nonempty).
  now rewrite digits_value_N.
Qed.

Lemma py_int_neg_N n : py_int (String "-" (N_to_string n)) = Some (- Z.of_N n)%Z.
Proof.
  unfold py_int. simpl sign_split. cbv iota beta.
  rewrite int_body_digits by (auto using N_to_string_digits, N_to_string_nonempty).
  now rewrite digits_value_N.
Qed.

Theorem py_int_Z_to_string z : py_int (Z_to_string z) = Some z.
Proof.
  rewrite Z_to_string_cases. destruct (z <? 0)%Z eqn:E.
  - rewrite py_int_neg_N. f_equal. lia.
  - rewrite py_int_N. f_equal. lia.
Qed.

Lemma Z_to_string_no_ws z : any_char is_ws (Z_to_string z) = false.
Proof.
  rewrite Z_to_string_cases. destruct (z <? 0)%Z; simpl.
  - apply digits_no_ws, N_to_string_digits.
  - apply digits_no_ws, N_to_string_digits.
Qed.

Lemma Z_to_string_nonempty z : is_empty (Z_to_string z) = false.
Proof.
  rewrite Z_to_string_cases. destruct (z <? 0)%Z; [reflexivity | apply N_to_string_nonempty].
Qed.

(* ---- '%.df' and its parse ---- *)

Lemma zfill_digits w s : all_chars is_digit s = true -> all_chars is_digit (zfill w s) = true.
Proof.
  intros H. unfold zfill. rewrite all_chars_app, H, all_chars_repeat; reflexivity.
Qed.

Lemma length_zfill w s : String.length (zfill w s) = Nat.max w (String.length s).
Proof. unfold zfill. rewrite length_app, length_repeat. lia. Qed.

Lemma split_dot_digits ip fp :
  all_chars is_digit ip = true -> split_dot (ip ++ String dot_char fp) = (ip, Some fp).
Proof.
  induction ip as [|c r IH]; simpl; intros H.
  - reflexivity.
  - apply andb_true_iff in H as [Hc Hr]. rewrite (digit_not_dot _ Hc), (IH Hr). reflexivity.
Qed.

(* the unsigned part of the rendering *)
Definition fmt_body (d : nat) (m : N) : string :=
  let p := zfill (S d) (N_to_string m) in
  let k := String.length p - d in take k p ++ String dot_char (drop k p).

Lemma fmt_fixed_body d v :
  fmt_fixed d v = (if fx_neg v then "-" else "") ++ fmt_body d (fx_mag v).
Proof. reflexivity. Qed.

Lemma fmt_body_parts d m :
  exists ip fp, fmt_body d m = ip ++ String dot_char fp /\
    all_chars is_digit ip = true /\ all_chars is_digit fp = true /\
    is_empty ip = false /\ String.length fp = d /\ digits_value (ip ++ fp) = Some m.
Proof.
  unfold fmt_body.
  set (p := zfill (S d) (N_to_string m)).
  assert (Hp : all_chars is_digit p = true) by apply zfill_digits, N_to_string_digits.
  assert (Hl : S d <= String.length p) by (unfold p; rewrite length_zfill; lia).
  exists (take (String.length p - d) p), (drop (String.length p - d) p).
  repeat split.
  - now apply all_chars_take.
  - now apply all_chars_drop.
  - apply is_empty_length. rewrite length_take. lia.
  - rewrite length_drop. lia.
  - rewrite take_drop. unfold p. rewrite digits_value_zfill. apply digits_value_N.
Qed.

Theorem plain_decimal_fmt d v :
  plain_decimal (fmt_fixed d v) = Some (PF (fx_neg v) (fx_mag v) d).
Proof.
  rewrite fmt_fixed_body.
  destruct (fmt_body_parts d (fx_mag v)) as (ip & fp & E & Hi & Hf & Hne & Hl & Hv).
  rewrite E. unfold plain_decimal.
  assert (S : sign_split ((if fx_neg v then "-" else "") ++ ip ++ String dot_char fp)
              = (fx_neg v, ip ++ String dot_char fp)).
  { destruct (fx_neg v); [reflexivity|]. simpl append.
    destruct ip as [|c r]; [discriminate|]. simpl in *.
    apply andb_true_iff in Hi as [Hc _].
    now rewrite (digit_not_minus _ Hc), (digit_not_plus _ Hc). }
  rewrite S, (split_dot_digits _ _ Hi), Hi, Hf. simpl andb.
  assert (N : is_empty (ip ++ fp) = false) by (destruct ip; [discriminate | reflexivity]).
  rewrite N. simpl negb. cbv iota. rewrite Hv, Hl. reflexivity.
Qed.

Lemma fmt_fixed_no_ws d v : any_char is_ws (fmt_fixed d v) = false.
Proof.
  rewrite fmt_fixed_body.
  destruct (fmt_body_parts d (fx_mag v)) as (ip & fp & E & Hi & Hf & _).
  rewrite E, any_char_app, any_char_app. simpl.
  rewrite (digits_no_ws _ Hi), (digits_no_ws _ Hf). destruct (fx_neg v); reflexivity.
Qed.

Lemma fmt_fixed_nonempty d v : is_empty (fmt_fixed d v) = false.
Proof.
  rewrite fmt_fixed_body.
  destruct (fmt_body_parts d (fx_mag v)) as (ip & fp & E & _ & _ & Hne & _).
  rewrite E. destruct (fx_neg v); [reflexivity|]. simpl. destruct ip; [discriminate | reflexivity].
Qed.

Lemma opt_fmt4_parse o : plain_decimal (opt_fmt4 o) = Some (pf_of_opt 4 o).
Proof. destruct o; [apply plain_decimal_fmt | reflexivity]. Qed.

Lemma opt_fmt4_no_ws o : any_char is_ws (opt_fmt4 o) = false.
Proof. destruct o; [apply fmt_fixed_no_ws | reflexivity]. Qed.

Lemma opt_fmt4_nonempty o : is_empty (opt_fmt4 o) = false.
Proof. destruct o; [apply fmt_fixed_nonempty | reflexivity]. Qed.

Lemma py_float_plain s p : plain_decimal s = Some p -> py_float s = FNum p.
Proof. intros H. unfold py_float. now rewrite H. Qed.

(* ======================================================================== *)
(* 3. fields and the column layout                                          *)

Lemma fits_le w s : fits w s = true -> String.length s <= w.
Proof. unfold fits. intros H. now apply Nat.leb_le in H. Qed.

Lemma token_ok_spec lo hi s :
  token_ok lo hi s = true ->
  lo <= String.length s /\ String.length s <= hi /\ any_char is_ws s = false.
Proof. unfold token_ok. rewrite !andb_true_iff, !Nat.leb_le, negb_true_iff. tauto. Qed.

Lemma length_sp_cons x : String.length (" " ++ x) = S (String.length x).
Proof. reflexivity. Qed.

Lemma length_name_field n : String.length (name_field n) = 4.
Proof.
  unfold name_field. destruct (_ || _).
  - apply length_take_ljust.
  - rewrite length_sp_cons, length_take_ljust. reflexivity.
Qed.

Lemma length_res_field n : String.length (res_field n) = 4.
Proof.
  unfold res_field. destruct (_ =? _)%nat.
  - apply length_take_ljust.
  - rewrite length_sp_cons, length_take_ljust. reflexivity.
Qed.

Lemma length_lstrip_p_le p s : String.length (lstrip_p p s) <= String.length s.
Proof. induction s as [|c r IH]; simpl; [lia|]. destruct (p c); simpl; lia. Qed.

Lemma length_rstrip_p_le p s : String.length (rstrip_p p s) <= String.length s.
Proof.
  induction s as [|c r IH]; simpl; [lia|].
  destruct (p c && is_empty (rstrip_p p r)); simpl; lia.
Qed.

Lemma length_strip_p_le p s : String.length (strip_p p s) <= String.length s.
Proof.
  unfold strip_p. pose proof (length_rstrip_p_le p (lstrip_p p s)).
  pose proof (length_lstrip_p_le p s). lia.
Qed.

Lemma name_field_fit n : String.length n <= 4 ->
  exists k j, name_field n = repeat_char sp k ++ n ++ repeat_char sp j.
Proof.
  intros H. unfold name_field.
  destruct (String.length n =? 4)%nat eqn:E.
  - cbn [orb]. exists 0, (4 - String.length n). cbn [repeat_char append].
    now apply take_ljust_fit.
  - apply Nat.eqb_neq in E.
    assert (E2 : (String.length (strip_p in_flip n) =? 4)%nat = false).
    { apply Nat.eqb_neq. pose proof (length_strip_p_le in_flip n). lia. }
    rewrite E2. cbn [orb]. exists 1, (3 - String.length n).
    rewrite take_ljust_fit by lia. reflexivity.
Qed.

Lemma res_field_fit n : String.length n <= 4 ->
  exists k j, res_field n = repeat_char sp k ++ n ++ repeat_char sp j.
Proof.
  intros H. unfold res_field.
  destruct (String.length n =? 4)%nat eqn:E.
  - exists 0, (4 - String.length n). cbn [repeat_char append]. now apply take_ljust_fit.
  - apply Nat.eqb_neq in E. exists 1, (3 - String.length n).
    rewrite take_ljust_fit by lia. reflexivity.
Qed.

Lemma type_ok_cases a : type_ok a = true -> a_type a = "ATOM" \/ a_type a = "HETATM".
Proof.
  unfold type_ok. intros H. apply orb_true_iff in H as [H|H]; apply String.eqb_eq in H; auto.
Qed.

Lemma coord_field_fit v :
  fits 8 (fmt_fixed 3 v) = true ->
  coord_field v = repeat_char sp (8 - String.length (fmt_fixed 3 v)) ++ fmt_fixed 3 v.
Proof.
  intros H. apply fits_le in H. unfold coord_field.
  rewrite ljust_long by (rewrite length_rjust; lia). now apply take_rjust_fit.
Qed.

Lemma length_coord_field v : String.length (coord_field v) = 8.
Proof. unfold coord_field. apply length_take_ljust. Qed.

Lemma length_ins_field i : String.length i <= 1 -> String.length (ins_field i) = 4.
Proof. destruct i as [|c [|d r]]; simpl; intros; try reflexivity; lia. Qed.

Lemma ins_field_read i :
  String.length i <= 1 -> any_char is_ws i = false -> strip (take 1 (ins_field i)) = i.
Proof.
  destruct i as [|c [|d r]]; simpl String.length; intros H W; try lia.
  - reflexivity.
  - change (take 1 (ins_field (String c ""))) with (String c "").
    exact (strip_padded 0 (String c "") 0 W).
Qed.

Lemma take_app_le n a b : n <= String.length a -> take n (a ++ b) = take n a.
Proof.
  revert a; induction n as [|n IH]; intros a H.
  - now rewrite !take_0.
  - destruct a as [|c r]; simpl in *; [lia|]. rewrite IH by lia. reflexivity.
Qed.

Lemma slice_skip a b k f rest :
  String.length f = k -> k <= a -> slice a b (f ++ rest) = slice (a - k) (b - k) rest.
Proof.
  intros Hk Hle. unfold slice. rewrite (drop_app_ge a k f rest Hk Hle). f_equal. lia.
Qed.

Lemma slice_here n f rest : String.length f = n -> slice 0 n (f ++ rest) = f.
Proof. intros H. unfold slice. rewrite drop_0, Nat.sub_0_r. now apply take_app_len. Qed.

Ltac skip_field H := rewrite (slice_skip _ _ _ _ _ H) by lia; cbn [Nat.sub].
Ltac take_field H := rewrite (take_app_ge _ _ _ _ H) by lia; cbn [Nat.sub].
Ltac drop_field H := rewrite (drop_app_ge _ _ _ _ H) by lia; cbn [Nat.sub].

Section Layout.
  Variables f0 f1 f2 f3 f4 f5 f6 f7 f8 f9 f10 f11 f12 f13 tail : string.
  Hypothesis H0 : String.length f0 = 6.    (* record type *)
  Hypothesis H1 : String.length f1 = 5.    (* serial *)
  Hypothesis H2 : String.length f2 = 1.    (* blank *)
  Hypothesis H3 : String.length f3 = 4.    (* atom name *)
  Hypothesis H4 : String.length f4 = 4.    (* residue name *)
  Hypothesis H5 : String.length f5 = 1.    (* blank *)
  Hypothesis H6 : String.length f6 = 1.    (* chain *)
  Hypothesis H7 : String.length f7 = 4.    (* resSeq *)
  Hypothesis H8 : String.length f8 = 4.    (* iCode + 3 blanks *)
  Hypothesis H9 : String.length f9 = 8.    (* x *)
  Hypothesis H10 : String.length f10 = 8.  (* y *)
  Hypothesis H11 : String.length f11 = 8.  (* z *)
  Hypothesis H12 : String.length f12 = 8.  (* charge *)
  Hypothesis H13 : String.length f13 = 7.  (* radius *)

  Definition laid : string :=
    f0 ++ f1 ++ f2 ++ f3 ++ f4 ++ f5 ++ f6 ++ f7 ++ f8 ++ f9 ++ f10 ++ f11 ++ f12 ++ f13 ++ tail.

  Lemma layout_slices :
    slice 0 6 laid = f0 /\ slice 6 11 laid = f1 /\ slice 12 16 laid = f3 /\
    slice 16 20 laid = f4 /\ slice 21 22 laid = f6 /\ slice 22 26 laid = f7 /\
    slice 26 27 laid = take 1 f8 /\ slice 30 38 laid = f9 /\ slice 38 46 laid = f10 /\
    slice 46 54 laid = f11 /\ slice 54 62 laid = f12 /\ slice 62 69 laid = f13.
  Proof.
    unfold laid. repeat split.
    - apply (slice_here 6 _ _ H0).
    - skip_field H0. apply (slice_here 5 _ _ H1).
    - skip_field H0. skip_field H1. skip_field H2. apply (slice_here 4 _ _ H3).
    - skip_field H0. skip_field H1. skip_field H2. skip_field H3. apply (slice_here 4 _ _ H4).
    - skip_field H0. skip_field H1. skip_field H2. skip_field H3. skip_field H4. skip_field H5.
      apply (slice_here 1 _ _ H6).
    - skip_field H0. skip_field H1. skip_field H2. skip_field H3. skip_field H4. skip_field H5.
      skip_field H6. apply (slice_here 4 _ _ H7).
    - skip_field H0. skip_field H1. skip_field H2. skip_field H3. skip_field H4. skip_field H5.
      skip_field H6. skip_field H7. unfold slice. rewrite drop_0. cbn [Nat.sub].
      apply take_app_le. lia.
    - skip_field H0. skip_field H1. skip_field H2. skip_field H3. skip_field H4. skip_field H5.
      skip_field H6. skip_field H7. skip_field H8. apply (slice_here 8 _ _ H9).
    - skip_field H0. skip_field H1. skip_field H2. skip_field H3. skip_field H4. skip_field H5.
      skip_field H6. skip_field H7. skip_field H8. skip_field H9. apply (slice_here 8 _ _ H10).
    - skip_field H0. skip_field H1. skip_field H2. skip_field H3. skip_field H4. skip_field H5.
      skip_field H6. skip_field H7. skip_field H8. skip_field H9. skip_field H10.
      apply (slice_here 8 _ _ H11).
    - skip_field H0. skip_field H1. skip_field H2. skip_field H3. skip_field H4. skip_field H5.
      skip_field H6. skip_field H7. skip_field H8. skip_field H9. skip_field H10. skip_field H11.
      apply (slice_here 8 _ _ H12).
    - skip_field H0. skip_field H1. skip_field H2. skip_field H3. skip_field H4. skip_field H5.
      skip_field H6. skip_field H7. skip_field H8. skip_field H9. skip_field H10. skip_field H11.
      skip_field H12. apply (slice_here 7 _ _ H13).
  Qed.

  (* print_pqr's re-spacing in terms of the fields: a blank at every field
     boundary (columns 6, 16, 22, 26, 38, 46, 54, 62) *)
  Lemma layout_respace :
    respace laid =
      f0 ++ " " ++ (f1 ++ f2 ++ f3) ++ " " ++ (f4 ++ f5 ++ f6) ++ " " ++ f7 ++ " "
      ++ (f8 ++ f9) ++ " " ++ f10 ++ " " ++ f11 ++ " " ++ f12 ++ " " ++ (f13 ++ tail).
  Proof.
    assert (S1 : slice 0 6 laid = f0) by apply layout_slices.
    assert (S4 : slice 22 26 laid = f7) by apply layout_slices.
    assert (S6 : slice 38 46 laid = f10) by apply layout_slices.
    assert (S7 : slice 46 54 laid = f11) by apply layout_slices.
    assert (S8 : slice 54 62 laid = f12) by apply layout_slices.
    assert (S2 : slice 6 16 laid = f1 ++ f2 ++ f3).
    { unfold laid, slice. cbn [Nat.sub]. drop_field H0. rewrite drop_0.
      take_field H1. take_field H2. now rewrite (take_app_len 4 f3 _ H3). }
    assert (S3 : slice 16 22 laid = f4 ++ f5 ++ f6).
    { unfold laid, slice. cbn [Nat.sub]. drop_field H0. drop_field H1. drop_field H2. drop_field H3.
      rewrite drop_0. take_field H4. take_field H5. now rewrite (take_app_len 1 f6 _ H6). }
    assert (S5 : slice 26 38 laid = f8 ++ f9).
    { unfold laid, slice. cbn [Nat.sub]. drop_field H0. drop_field H1. drop_field H2. drop_field H3.
      drop_field H4. drop_field H5. drop_field H6. drop_field H7.
      rewrite drop_0. take_field H8. now rewrite (take_app_len 8 f9 _ H9). }
    assert (S9 : drop 62 laid = f13 ++ tail).
    { unfold laid. drop_field H0. drop_field H1. drop_field H2. drop_field H3. drop_field H4.
      drop_field H5. drop_field H6. drop_field H7. drop_field H8. drop_field H9. drop_field H10.
      drop_field H11. drop_field H12. apply drop_0. }
    unfold respace. now rewrite S1, S2, S3, S4, S5, S6, S7, S8, S9.
  Qed.
End Layout.

(* ======================================================================== *)
(* 4. default layout: reading the columns back                              *)

Lemma pqr_string_laid cf a tail :
  pqr_string cf a ++ tail =
  laid (take 6 (ljust 6 (a_type a))) (take 5 (rjust 5 (Z_to_string (a_serial a)))) " "
       (name_field (a_name a)) (res_field (a_res_name a)) " "
       (take 1 (ljust 1 (if cf then a_chain a else "")))
       (take 4 (rjust 4 (Z_to_string (a_res_seq a)))) (ins_field (a_ins a))
       (coord_field (a_x a)) (coord_field (a_y a)) (coord_field (a_z a))
       (charge_field (a_charge a)) (radius_field (a_radius a)) tail.
Proof. unfold pqr_string, common_string, laid. rewrite !app_assoc_s. reflexivity. Qed.

Lemma length_charge_field o : String.length (charge_field o) = 8.
Proof. apply length_take_rjust. Qed.

Lemma length_radius_field o : String.length (radius_field o) = 7.
Proof. apply length_take_rjust. Qed.

Lemma num_field_read w s :
  String.length s <= w -> any_char is_ws s = false -> strip (take w (rjust w s)) = s.
Proof. intros H W. rewrite take_rjust_fit by assumption. now apply strip_rpad. Qed.

Theorem fixed_roundtrip cf a :
  fixed_ok cf a = true -> read_fixed (pqr_string cf a) = expected_fixed cf a.
Proof.
  unfold fixed_ok. rewrite !andb_true_iff.
  intros [[[[[[[[[[[Hty Hs] Hn] Hr] Hc] Hq] Hi] Hx] Hy] Hz] Hch] Hrd].
  apply token_ok_spec in Hn as (_ & Hn & Wn).
  apply token_ok_spec in Hr as (_ & Hr & Wr).
  apply token_ok_spec in Hi as (_ & Hi & Wi).
  apply fits_le in Hs, Hq, Hch, Hrd.
  set (c := if cf then a_chain a else "").
  assert (Hc' : String.length c <= 1 /\ any_char is_ws c = false).
  { unfold c. destruct cf; simpl in Hc.
    - apply token_ok_spec in Hc. tauto.
    - split; [repeat constructor | reflexivity]. }
  destruct Hc' as [Hcl Wc].
  rewrite <- (app_empty_r (pqr_string cf a)), pqr_string_laid. fold c.
  destruct (layout_slices _ _ " " _ _ " " _ _ _ _ _ _ _ _ ""
              (length_take_ljust 6 (a_type a))
              (length_take_rjust 5 (Z_to_string (a_serial a))) eq_refl
              (length_name_field (a_name a)) (length_res_field (a_res_name a)) eq_refl
              (length_take_ljust 1 c)
              (length_take_rjust 4 (Z_to_string (a_res_seq a)))
              (length_ins_field (a_ins a) Hi)
              (length_coord_field (a_x a)) (length_coord_field (a_y a))
              (length_coord_field (a_z a))
              (length_charge_field (a_charge a)) (length_radius_field (a_radius a)))
    as (S0 & S1 & S3 & S4 & S6 & S7 & S8 & S9 & S10 & S11 & S12 & S13).
  unfold read_fixed.
  rewrite S0, S1, S3, S4, S6, S7, S8, S9, S10, S11, S12, S13.
  unfold expected_fixed. fold c. f_equal.
  - destruct (type_ok_cases a Hty) as [E|E]; rewrite E; reflexivity.
  - rewrite num_field_read by auto using Z_to_string_no_ws. apply py_int_Z_to_string.
  - destruct (name_field_fit _ Hn) as (k & j & E). rewrite E. now apply strip_padded.
  - destruct (res_field_fit _ Hr) as (k & j & E). rewrite E. now apply strip_padded.
  - rewrite take_ljust_fit by assumption. now apply strip_lpad.
  - rewrite num_field_read by auto using Z_to_string_no_ws. apply py_int_Z_to_string.
  - now apply ins_field_read.
  - rewrite (coord_field_fit _ Hx), strip_rpad by apply fmt_fixed_no_ws. apply plain_decimal_fmt.
  - rewrite (coord_field_fit _ Hy), strip_rpad by apply fmt_fixed_no_ws. apply plain_decimal_fmt.
  - rewrite (coord_field_fit _ Hz), strip_rpad by apply fmt_fixed_no_ws. apply plain_decimal_fmt.
  - unfold charge_field. rewrite num_field_read by auto using opt_fmt4_no_ws.
    f_equal. apply opt_fmt4_parse.
  - unfold radius_field. rewrite num_field_read by auto using opt_fmt4_no_ws.
    f_equal. apply opt_fmt4_parse.
Qed.

(* ======================================================================== *)
(* 5. --whitespace layout: tokens of the re-spaced line                     *)

Inductive piece := Gap (g : string) | Word (s : string).

Fixpoint render (l : list piece) : string :=
  match l with
  | [] => ""
  | Gap g :: r => g ++ render r
  | Word s :: r => s ++ render r
  end.

Fixpoint words (l : list piece) : list string :=
  match l with
  | [] => []
  | Gap _ :: r => words r
  | Word s :: r => s :: words r
  end.

(* the next thing after a word is blank (or the end) *)
Fixpoint gap_next (l : list piece) : Prop :=
  match l with
  | [] => True
  | Gap g :: r => is_empty g = false \/ gap_next r
  | Word _ :: _ => False
  end.

Fixpoint wf (l : list piece) : Prop :=
  match l with
  | [] => True
  | Gap g :: r => all_chars is_ws g = true /\ wf r
  | Word s :: r => any_char is_ws s = false /\ is_empty s = false /\ gap_next r /\ wf r
  end.

Lemma tokens_allws g t : all_chars is_ws g = true -> tokens (g ++ t) = tokens t.
Proof.
  induction g as [|c r IH]; simpl; intros H; [reflexivity|].
  apply andb_true_iff in H as [Hc Hr]. rewrite (tokens_ws_prefix _ _ Hc). now apply IH.
Qed.

Lemma gap_next_ws_head l : wf l -> gap_next l -> ws_head (render l).
Proof.
  induction l as [|[g|s] r IH]; simpl; intros W G; [exact I | | contradiction].
  destruct W as [Wg Wr]. destruct g as [|c g'].
  - simpl. destruct G as [G|G]; [discriminate | now apply IH].
  - simpl in *. apply andb_true_iff in Wg. tauto.
Qed.

Theorem tokens_render l : wf l -> tokens (render l) = words l.
Proof.
  induction l as [|[g|s] r IH]; simpl; intros W.
  - reflexivity.
  - destruct W as [Wg Wr]. rewrite (tokens_allws _ _ Wg). now apply IH.
  - destruct W as (Ws & Es & G & Wr).
    rewrite (tokens_word_then _ _ Ws Es (gap_next_ws_head _ Wr G)). now rewrite IH.
Qed.

Lemma blanks_ws k : all_chars is_ws (repeat_char sp k) = true.
Proof. now apply all_chars_repeat. Qed.

Lemma blanks_nonempty k : 1 <= k -> is_empty (repeat_char sp k) = false.
Proof. destruct k; [lia | reflexivity]. Qed.

(* from_pqr_line on the token shapes the writer produces: optional chain id
   (a token int() rejects) before resSeq, optional insertion code (a token
   float() rejects) after it *)
Lemma from_tokens line ty S N R chs Q inss X Y Z C Rd serial q px py pz pc pr :
  ty = "ATOM" \/ ty = "HETATM" ->
  tokens line = ([ty; S; N; R] ++ chs ++ [Q] ++ inss ++ [X; Y; Z; C; Rd])%list ->
  (chs = [] \/ exists ch, chs = [ch] /\ py_int ch = None) ->
  (inss = [] \/ exists i, inss = [i] /\ py_float i = FNot) ->
  py_int S = Some serial -> py_int Q = Some q ->
  plain_decimal X = Some px -> plain_decimal Y = Some py -> plain_decimal Z = Some pz ->
  plain_decimal C = Some pc -> plain_decimal Rd = Some pr ->
  from_pqr_line line =
    PAtom (mkpatom ty serial N R (hd_error chs) q (hd_error inss) px py pz pc pr).
Proof.
  intros Hty Ht Hc Hi HS HQ HX HY HZ HC HR.
  apply py_float_plain in HX, HY, HZ, HC, HR.
  unfold from_pqr_line. rewrite Ht. cbn [List.app].
  assert (E : starts_hash ty = false /\ mem_str ty skip_words = false
              /\ mem_str ty ["ATOM"; "HETATM"] = true)
    by (destruct Hty as [-> | ->]; repeat split; reflexivity).
  destruct E as (E0 & E1 & E2). rewrite E0, E1, E2. cbn [orb].
  unfold parse_fields. rewrite HS.
  destruct Hc as [-> | (ch & -> & Hch)]; destruct Hi as [-> | (i & -> & Hi)];
    cbn [List.app hd_error]; rewrite ?Hch, HQ; cbv beta iota delta [parse_tail pop_float] zeta;
    rewrite ?Hi; cbv beta iota; rewrite HX; cbv beta iota; rewrite HY; cbv beta iota;
    rewrite HZ; cbv beta iota; rewrite HC; cbv beta iota; rewrite HR; reflexivity.
Qed.

Lemma py_int_nondigit1 c : is_digit c = false -> py_int (String c "") = None.
Proof.
  intros H. unfold py_int, sign_split.
  destruct (c =? "-")%char; [reflexivity|].
  destruct (c =? "+")%char; [reflexivity|].
  simpl. rewrite H, andb_false_r. reflexivity.
Qed.

(* a one-character token that is not a digit is not a float() either *)
Lemma py_float_nondigit1 c : is_digit c = false -> py_float (String c "") = FNot.
Proof. destruct c as [[] [] [] [] [] [] [] []]; vm_compute; congruence. Qed.

Lemma type_field_pad a :
  type_ok a = true ->
  take 6 (ljust 6 (a_type a)) = a_type a ++ repeat_char sp (6 - String.length (a_type a)) /\
  any_char is_ws (a_type a) = false /\ is_empty (a_type a) = false.
Proof.
  intros H. destruct (type_ok_cases a H) as [E|E]; rewrite E; repeat split; reflexivity.
Qed.

Lemma ws_line_fields cf a :
  String.length (a_ins a) <= 1 ->
  ws_line cf a =
    take 6 (ljust 6 (a_type a)) ++ " "
    ++ (take 5 (rjust 5 (Z_to_string (a_serial a))) ++ " " ++ name_field (a_name a)) ++ " "
    ++ (res_field (a_res_name a) ++ " " ++ take 1 (ljust 1 (if cf then a_chain a else ""))) ++ " "
    ++ take 4 (rjust 4 (Z_to_string (a_res_seq a))) ++ " "
    ++ (ins_field (a_ins a) ++ coord_field (a_x a)) ++ " "
    ++ coord_field (a_y a) ++ " "
    ++ coord_field (a_z a) ++ " "
    ++ charge_field (a_charge a) ++ " "
    ++ (radius_field (a_radius a) ++ nl).
Proof.
  intros Hi. unfold ws_line. rewrite pqr_string_laid.
  apply (layout_respace _ _ " " _ _ " " _ _ _ _ _ _ _ _ nl
              (length_take_ljust 6 (a_type a))
              (length_take_rjust 5 (Z_to_string (a_serial a))) eq_refl
              (length_name_field (a_name a)) (length_res_field (a_res_name a)) eq_refl
              (length_take_ljust 1 (if cf then a_chain a else ""))
              (length_take_rjust 4 (Z_to_string (a_res_seq a)))
              (length_ins_field (a_ins a) Hi)
              (length_coord_field (a_x a)) (length_coord_field (a_y a))
              (length_coord_field (a_z a))
              (length_charge_field (a_charge a)) (length_radius_field (a_radius a))).
Qed.

Lemma rjust_field_pad w s : String.length s <= w ->
  take w (rjust w s) = repeat_char sp (w - String.length s) ++ s.
Proof. apply take_rjust_fit. Qed.

(* the guard in words *)
Lemma ws_ok_spec cf a :
  ws_ok cf a = true ->
  fixed_ok cf a = true /\ is_empty (a_name a) = false /\ is_empty (a_res_name a) = false /\
  (cf = true -> any_char is_digit (a_chain a) = false) /\ any_char is_digit (a_ins a) = false.
Proof.
  unfold ws_ok. rewrite !andb_true_iff, !negb_true_iff.
  intros [[[[F Nn] Nr] Dc] Di]. repeat split; auto.
  intros ->. cbn [negb orb] in Dc. now apply negb_true_iff in Dc.
Qed.

Theorem ws_roundtrip cf a :
  ws_ok cf a = true -> from_pqr_line (ws_line cf a) = PAtom (expected_ws cf a).
Proof.
  intros Hok. apply ws_ok_spec in Hok as (F & Nn & Nr & Dc & Di).
  unfold fixed_ok in F. rewrite !andb_true_iff in F.
  destruct F as [[[[[[[[[[[Hty Hs] Hn] Hr] Hc] Hq] Hi] Hx] Hy] Hz] Hch] Hrd].
  apply token_ok_spec in Hn as (_ & Hn & Wn).
  apply token_ok_spec in Hr as (_ & Hr & Wr).
  apply token_ok_spec in Hi as (_ & Hi & Wi).
  apply fits_le in Hs, Hq, Hch, Hrd.
  rewrite ws_line_fields by exact Hi.
  destruct (type_field_pad a Hty) as (ET & WT & NT). rewrite ET.
  rewrite (rjust_field_pad 5 _ Hs), (rjust_field_pad 4 _ Hq).
  destruct (name_field_fit _ Hn) as (kN & jN & EN). rewrite EN.
  destruct (res_field_fit _ Hr) as (kR & jR & ER). rewrite ER.
  rewrite (coord_field_fit _ Hx), (coord_field_fit _ Hy), (coord_field_fit _ Hz).
  unfold charge_field, radius_field.
  rewrite (rjust_field_pad 8 (opt_fmt4 (a_charge a)) Hch).
  rewrite (rjust_field_pad 7 (opt_fmt4 (a_radius a)) Hrd).
  (* the printed chain column *)
  unfold expected_ws.
  assert (CH : exists c, (if cf then a_chain a else "") = c /\ String.length c <= 1 /\
                 any_char is_ws c = false /\ any_char is_digit c = false /\
                 (if cf && negb (is_empty (a_chain a)) then Some (a_chain a) else None)
                 = (if is_empty c then None else Some c)).
  { destruct cf; cbn [negb orb andb] in Hc |- *.
    - apply token_ok_spec in Hc as (_ & Hc & Wc). exists (a_chain a).
      repeat split; auto. destruct (is_empty (a_chain a)); reflexivity.
    - exists "". repeat split. repeat constructor. }
  destruct CH as (c & -> & Hcl & Wc & Dcc & ->).
  clear Hc Dc Hs Hq Hch Hrd Hx Hy Hz ET EN ER Hn Hr.
  set (T := a_type a) in *. set (S := Z_to_string (a_serial a)) in *.
  set (Q := Z_to_string (a_res_seq a)) in *.
  set (X := fmt_fixed 3 (a_x a)) in *. set (Y := fmt_fixed 3 (a_y a)) in *.
  set (Zc := fmt_fixed 3 (a_z a)) in *.
  set (C := opt_fmt4 (a_charge a)) in *. set (Rd := opt_fmt4 (a_radius a)) in *.
  assert (WS : any_char is_ws S = false) by apply Z_to_string_no_ws.
  assert (NS : is_empty S = false) by apply Z_to_string_nonempty.
  assert (WQ : any_char is_ws Q = false) by apply Z_to_string_no_ws.
  assert (NQ : is_empty Q = false) by apply Z_to_string_nonempty.
  assert (WX : any_char is_ws X = false) by apply fmt_fixed_no_ws.
  assert (NX : is_empty X = false) by apply fmt_fixed_nonempty.
  assert (WY : any_char is_ws Y = false) by apply fmt_fixed_no_ws.
  assert (NY : is_empty Y = false) by apply fmt_fixed_nonempty.
  assert (WZ : any_char is_ws Zc = false) by apply fmt_fixed_no_ws.
  assert (NZ : is_empty Zc = false) by apply fmt_fixed_nonempty.
  assert (WC : any_char is_ws C = false) by apply opt_fmt4_no_ws.
  assert (NC : is_empty C = false) by apply opt_fmt4_nonempty.
  assert (WRd : any_char is_ws Rd = false) by apply opt_fmt4_no_ws.
  assert (NRd : is_empty Rd = false) by apply opt_fmt4_nonempty.
  assert (PS : py_int S = Some (a_serial a)) by apply py_int_Z_to_string.
  assert (PQ : py_int Q = Some (a_res_seq a)) by apply py_int_Z_to_string.
  assert (PX : plain_decimal X = Some (pf_of 3 (a_x a))) by apply plain_decimal_fmt.
  assert (PY : plain_decimal Y = Some (pf_of 3 (a_y a))) by apply plain_decimal_fmt.
  assert (PZ : plain_decimal Zc = Some (pf_of 3 (a_z a))) by apply plain_decimal_fmt.
  assert (PC : plain_decimal C = Some (pf_of_opt 4 (a_charge a))) by apply opt_fmt4_parse.
  assert (PR : plain_decimal Rd = Some (pf_of_opt 4 (a_radius a))) by apply opt_fmt4_parse.
  assert (TY : T = "ATOM" \/ T = "HETATM") by now apply type_ok_cases.
  pose proof (blanks_ws) as BW.
  pose (L := fun (pc pi : piece) =>
     [Word T; Gap (repeat_char sp (6 - String.length T)); Gap " ";
      Gap (repeat_char sp (5 - String.length S)); Word S; Gap " ";
      Gap (repeat_char sp kN); Word (a_name a); Gap (repeat_char sp jN); Gap " ";
      Gap (repeat_char sp kR); Word (a_res_name a); Gap (repeat_char sp jR); Gap " "; pc; Gap " ";
      Gap (repeat_char sp (4 - String.length Q)); Word Q; Gap " "; pi; Gap "   ";
      Gap (repeat_char sp (8 - String.length X)); Word X; Gap " ";
      Gap (repeat_char sp (8 - String.length Y)); Word Y; Gap " ";
      Gap (repeat_char sp (8 - String.length Zc)); Word Zc; Gap " ";
      Gap (repeat_char sp (8 - String.length C)); Word C; Gap " ";
      Gap (repeat_char sp (7 - String.length Rd)); Word Rd; Gap nl]).
  (* tokens of the line = the words of L pc pi, for the piece in the chain
     column and the piece in the insertion-code column *)
  assert (TK : forall pc pi l, l = render (L pc pi) ->
             (match pc with Word s => any_char is_ws s = false /\ is_empty s = false
                          | Gap g => all_chars is_ws g = true end) ->
             (match pi with Word s => any_char is_ws s = false /\ is_empty s = false
                          | Gap g => all_chars is_ws g = true end) ->
             tokens l = words (L pc pi)).
  { intros pc pi l -> Hpc Hpi. apply tokens_render. unfold L.
    destruct pc as [gc|sc]; destruct pi as [gi|si]; cbn [wf gap_next]; rewrite !BW;
      repeat split; try tauto; auto using blanks_nonempty.
    all: try (left; reflexivity).
    all: try (right; left; reflexivity). }
  destruct c as [|ch [|? ?]]; [ | | cbn [String.length] in Hcl; clear - Hcl; lia];
  destruct (a_ins a) as [|ic [|? ?]]; try (cbn [String.length] in Hi; clear - Hi; lia).
  - (* no chain, no insertion code *)
    change (take 1 (ljust 1 "")) with " ". change (ins_field "") with "    ".
    apply (from_tokens _ T S (a_name a) (a_res_name a) [] Q [] X Y Zc C Rd); auto.
    apply (TK (Gap " ") (Gap " ")); [|reflexivity|reflexivity].
    unfold L. cbn [render]. rewrite !app_assoc_s, !app_empty_r. reflexivity.
  - (* no chain, insertion code *)
    change (take 1 (ljust 1 "")) with " ".
    change (ins_field (String ic "")) with (String ic "   ").
    cbn [any_char] in Di. apply orb_false_iff in Di as [Di _].
    apply (from_tokens _ T S (a_name a) (a_res_name a) [] Q [String ic ""] X Y Zc C Rd); auto.
    + apply (TK (Gap " ") (Word (String ic ""))); [|reflexivity|split; [exact Wi|reflexivity]].
      unfold L. cbn [render]. rewrite !app_assoc_s, !app_empty_r. reflexivity.
    + right. eexists. split; [reflexivity|]. now apply py_float_nondigit1.
  - (* chain, no insertion code *)
    change (take 1 (ljust 1 (String ch ""))) with (String ch ""). change (ins_field "") with "    ".
    cbn [any_char] in Dcc. apply orb_false_iff in Dcc as [Dcc _].
    apply (from_tokens _ T S (a_name a) (a_res_name a) [String ch ""] Q [] X Y Zc C Rd); auto.
    + apply (TK (Word (String ch "")) (Gap " ")); [|split; [exact Wc|reflexivity]|reflexivity].
      unfold L. cbn [render]. rewrite !app_assoc_s, !app_empty_r. reflexivity.
    + right. eexists. split; [reflexivity|]. now apply py_int_nondigit1.
  - (* chain and insertion code *)
    change (take 1 (ljust 1 (String ch ""))) with (String ch "").
    change (ins_field (String ic "")) with (String ic "   ").
    cbn [any_char] in Dcc, Di.
    apply orb_false_iff in Dcc as [Dcc _]. apply orb_false_iff in Di as [Di _].
    apply (from_tokens _ T S (a_name a) (a_res_name a) [String ch ""] Q [String ic ""] X Y Zc C Rd);
      auto.
    + apply (TK (Word (String ch "")) (Word (String ic "")));
        [|split; [exact Wc|reflexivity]|split; [exact Wi|reflexivity]].
      unfold L. cbn [render]. rewrite !app_assoc_s, !app_empty_r. reflexivity.
    + right. eexists. split; [reflexivity|]. now apply py_int_nondigit1.
    + right. eexists. split; [reflexivity|]. now apply py_float_nondigit1.
Qed.


(* ======================================================================== *)
(* 6. the full statement is refuted: witnesses inside the quantifier        *)

(* FULL STATEMENTS of C08 over the property's quantifier (NOT theorems: each
   is refuted below by a witness that the harness replays on the real code):

     forall cf a, in_quantifier a = true ->
       read_fixed (pqr_string cf a) = expected_fixed cf a.

     forall cf a, in_quantifier a = true ->
       from_pqr_line (ws_line cf a) = PAtom (expected_ws cf a).

   What holds is the same conclusion under fixed_ok / ws_ok (sections 4, 5).
   Since the repairs of C08-F4/F5/F7 (and of the z|charge|radius fusion) ws_ok
   is fixed_ok (the column capacities, C08-F1..F3) minus digit chain ids
   (C08-F6) and digit insertion codes (C08-F8); the former refutations of the
   repaired defects are now instances of ws_roundtrip (ws_repaired_witnesses). *)

Definition base_atom : atom :=
  mkatom "ATOM" 1 "CA" "ALA" "A" 12 "" (mkfx false 1000) (mkfx true 2500) (mkfx false 3125)
         (Some (mkfx true 5000)) (Some (mkfx false 18000)).

Definition set_res_seq (n : Z) (a : atom) : atom :=
  mkatom (a_type a) (a_serial a) (a_name a) (a_res_name a) (a_chain a) n (a_ins a)
         (a_x a) (a_y a) (a_z a) (a_charge a) (a_radius a).
Definition set_ins (i : string) (a : atom) : atom :=
  mkatom (a_type a) (a_serial a) (a_name a) (a_res_name a) (a_chain a) (a_res_seq a) i
         (a_x a) (a_y a) (a_z a) (a_charge a) (a_radius a).
Definition set_chain (c : string) (a : atom) : atom :=
  mkatom (a_type a) (a_serial a) (a_name a) (a_res_name a) c (a_res_seq a) (a_ins a)
         (a_x a) (a_y a) (a_z a) (a_charge a) (a_radius a).
Definition set_x (v : fx) (a : atom) : atom :=
  mkatom (a_type a) (a_serial a) (a_name a) (a_res_name a) (a_chain a) (a_res_seq a) (a_ins a)
         v (a_y a) (a_z a) (a_charge a) (a_radius a).
Definition set_charge (v : option fx) (a : atom) : atom :=
  mkatom (a_type a) (a_serial a) (a_name a) (a_res_name a) (a_chain a) (a_res_seq a) (a_ins a)
         (a_x a) (a_y a) (a_z a) v (a_radius a).
Definition set_radius (v : option fx) (a : atom) : atom :=
  mkatom (a_type a) (a_serial a) (a_name a) (a_res_name a) (a_chain a) (a_res_seq a) (a_ins a)
         (a_x a) (a_y a) (a_z a) (a_charge a) v.

Definition wit_serial : atom := with_serial 100000 base_atom.
Definition wit_res_seq : atom := set_res_seq 10000 base_atom.
Definition wit_coord_pos : atom := set_x (mkfx false 10000123) base_atom.   (* 10000.123 *)
Definition wit_coord_neg : atom := set_x (mkfx true 1000123) base_atom.     (* -1000.123 *)
Definition wit_chain_resseq : atom := set_res_seq 1000 base_atom.           (* chain A, 1000 *)
Definition wit_inscode : atom := set_ins "B" base_atom.                      (* 12B *)
Definition wit_digit_chain : atom := set_chain "1" base_atom.
Definition wit_digit_ins : atom := set_ins "1" base_atom.                    (* 12 + iCode 1 *)
Definition wit_charge : atom := set_charge (Some (mkfx true 105000)) base_atom.   (* -10.5 e *)
Definition wit_radius : atom := set_radius (Some (mkfx false 105000)) base_atom.  (* 10.5 A *)

(* serial >= 100000: the 5 columns keep the leading digits only *)
Theorem fixed_serial_refuted :
  exists a, in_quantifier a = true /\ a_serial a = 100000%Z /\
    pqr_string false a = "ATOM  10000  CA  ALA    12       1.000  -2.500   3.125 -0.5000 1.8000" /\
    f_serial (read_fixed (pqr_string false a)) = Some 10000%Z.
Proof. exists wit_serial. vm_compute. repeat split. Qed.

(* resSeq >= 10000 *)
Theorem fixed_res_seq_refuted :
  exists a, in_quantifier a = true /\ a_res_seq a = 10000%Z /\
    f_res_seq (read_fixed (pqr_string false a)) = Some 1000%Z.
Proof. exists wit_res_seq. vm_compute. repeat split. Qed.

(* a coordinate needing more than 8 columns loses its last decimals *)
Theorem fixed_coord_refuted :
  (exists a, in_quantifier a = true /\ a_x a = mkfx false 10000123 /\
     f_x (read_fixed (pqr_string false a)) = Some (PF false 1000012 2)) /\
  (exists a, in_quantifier a = true /\ a_x a = mkfx true 1000123 /\
     f_x (read_fixed (pqr_string false a)) = Some (PF true 100012 2)).
Proof.
  split; [exists wit_coord_pos | exists wit_coord_neg]; vm_compute; repeat split.
Qed.

(* REPAIRED C08-F4 (--whitespace --keep-chain: chain id and a 4-character
   resSeq were one token): for ALL atoms within the guard the reader returns
   the chain id and the residue number *)
Theorem ws_chain_res_seq_roundtrip a :
  ws_ok true a = true -> is_empty (a_chain a) = false ->
  exists p, from_pqr_line (ws_line true a) = PAtom p /\
    p_chain p = Some (a_chain a) /\ p_res_seq p = a_res_seq a.
Proof.
  intros H E. eexists. split; [exact (ws_roundtrip true a H)|].
  unfold expected_ws. cbn [p_chain p_res_seq andb]. now rewrite E.
Qed.

(* REPAIRED C08-F5 (--whitespace: the insertion code was glued to resSeq): for
   ALL atoms within the guard, with or without --keep-chain, the reader returns
   the residue number and the insertion code *)
Theorem ws_ins_code_roundtrip cf a :
  ws_ok cf a = true -> is_empty (a_ins a) = false ->
  exists p, from_pqr_line (ws_line cf a) = PAtom p /\
    p_res_seq p = a_res_seq a /\ p_ins p = Some (a_ins a).
Proof.
  intros H E. eexists. split; [exact (ws_roundtrip cf a H)|].
  unfold expected_ws. cbn [p_ins p_res_seq]. now rewrite E.
Qed.

(* --whitespace --keep-chain with a digit as chain id: from_pqr_line silently
   reads the chain as resSeq and shifts every later field by one *)
Theorem ws_digit_chain_refuted :
  exists a p, in_quantifier a = true /\ fixed_ok true a = true /\ a_chain a = "1" /\
    a_res_seq a = 12%Z /\
    from_pqr_line (ws_line true a) = PAtom p /\
    p_chain p = None /\ p_res_seq p = 1%Z /\ p_x p = PF false 12 0 /\ p_radius p = PF true 5000 4.
Proof.
  exists wit_digit_chain. eexists. vm_compute. repeat split.
Qed.

(* --whitespace with a digit as insertion code: from_pqr_line silently reads it
   as x and shifts every later field by one (before the repair of C08-F5 the
   same atom was read with resSeq 121) *)
Theorem ws_digit_ins_refuted :
  exists a p, in_quantifier a = true /\ fixed_ok false a = true /\ a_ins a = "1" /\
    a_x a = mkfx false 1000 /\
    tokens (ws_line false a) =
      ["ATOM"; "1"; "CA"; "ALA"; "12"; "1"; "1.000"; "-2.500"; "3.125"; "-0.5000"; "1.8000"] /\
    from_pqr_line (ws_line false a) = PAtom p /\
    p_res_seq p = 12%Z /\ p_ins p = None /\ p_x p = PF false 1 0 /\ p_y p = PF false 1000 3 /\
    p_radius p = PF true 5000 4.
Proof.
  exists wit_digit_ins. eexists. vm_compute. repeat split.
Qed.

(* the former refutation witnesses of the repaired defects, now regression
   cases: chain A + resSeq 1000 (F4), resSeq 12 + iCode B (F5), charge -10.5 and
   radius 10.5 (z|charge|radius fusion; outside in_quantifier), the "#" trailer of
   mmCIF input (F7).  The harness checks that the real code writes these lines. *)
Theorem ws_repaired_witnesses :
  (in_quantifier wit_chain_resseq = true /\ ws_ok true wit_chain_resseq = true /\
   ws_line true wit_chain_resseq =
     "ATOM       1  CA   ALA A 1000        1.000   -2.500    3.125  -0.5000  1.8000" ++ nl /\
   from_pqr_line (ws_line true wit_chain_resseq) = PAtom (expected_ws true wit_chain_resseq)) /\
  (in_quantifier wit_inscode = true /\ ws_ok true wit_inscode = true /\
   ws_ok false wit_inscode = true /\
   ws_line false wit_inscode =
     "ATOM       1  CA   ALA     12 B      1.000   -2.500    3.125  -0.5000  1.8000" ++ nl /\
   ws_line true wit_inscode =
     "ATOM       1  CA   ALA A   12 B      1.000   -2.500    3.125  -0.5000  1.8000" ++ nl /\
   p_ins (expected_ws false wit_inscode) = Some "B" /\
   from_pqr_line (ws_line false wit_inscode) = PAtom (expected_ws false wit_inscode) /\
   from_pqr_line (ws_line true wit_inscode) = PAtom (expected_ws true wit_inscode)) /\
  (ws_ok false wit_charge = true /\
   tokens (ws_line false wit_charge) =
     ["ATOM"; "1"; "CA"; "ALA"; "12"; "1.000"; "-2.500"; "3.125"; "-10.5000"; "1.8000"] /\
   from_pqr_line (ws_line false wit_charge) = PAtom (expected_ws false wit_charge)) /\
  (ws_ok false wit_radius = true /\
   tokens (ws_line false wit_radius) =
     ["ATOM"; "1"; "CA"; "ALA"; "12"; "1.000"; "-2.500"; "3.125"; "-0.5000"; "10.5000"] /\
   from_pqr_line (ws_line false wit_radius) = PAtom (expected_ws false wit_radius)) /\
  (file_chunks true true (print_atoms false [base_atom]) =
     [ws_line false (with_serial 1 base_atom); "#" ++ nl] /\
   from_pqr_line ("#" ++ nl) = PNone /\
   read_pqr (file_chunks true true (print_atoms false [base_atom])) =
     inl [expected_ws false (with_serial 1 base_atom)]).
Proof. vm_compute. repeat split. Qed.

(* non-vacuity of the guards: boundary atoms satisfy them *)
Definition edge_atom : atom :=
  mkatom "HETATM" 99999 "HD11" "LIG1" "Z" (-999) "X" (mkfx true 999999) (mkfx false 9999999)
         (mkfx true 0) (Some (mkfx true 999999)) (Some (mkfx false 999999)).
Definition edge_atom_ws : atom :=
  mkatom "HETATM" 99999 "HD11" "LIG1" "Z" (-99) "" (mkfx true 999999) (mkfx false 9999999)
         (mkfx true 0) (Some (mkfx true 99999)) None.
(* inside the quantifier, every --whitespace token at its widest: chain id,
   4-character resSeq, insertion code *)
Definition edge_atom_ws4 : atom :=
  mkatom "HETATM" 99999 "HD11" "LIG1" "Z" (-999) "X" (mkfx true 999999) (mkfx false 9999999)
         (mkfx true 0) (Some (mkfx true 99999)) (Some (mkfx false 99999)).

Lemma guards_nonvacuous :
  fixed_ok true edge_atom = true /\
  pqr_string true edge_atom =
    "HETATM99999 HD11LIG1 Z-999X   -999.9999999.999  -0.000-99.999999.9999" /\
  read_fixed (pqr_string true edge_atom) = expected_fixed true edge_atom /\
  ws_ok true edge_atom = true /\
  ws_line true edge_atom =
    "HETATM 99999 HD11 LIG1 Z -999 X   -999.999 9999.999   -0.000 -99.9999 99.9999" ++ nl /\
  from_pqr_line (ws_line true edge_atom) = PAtom (expected_ws true edge_atom) /\
  ws_ok true edge_atom_ws = true /\ ws_ok false edge_atom_ws = true /\
  in_quantifier edge_atom_ws = true /\
  ws_line true edge_atom_ws =
    "HETATM 99999 HD11 LIG1 Z  -99     -999.999 9999.999   -0.000  -9.9999  0.0000" ++ nl /\
  from_pqr_line (ws_line true edge_atom_ws) = PAtom (expected_ws true edge_atom_ws) /\
  in_quantifier edge_atom_ws4 = true /\ ws_ok true edge_atom_ws4 = true /\
  ws_ok false edge_atom_ws4 = true /\
  p_chain (expected_ws true edge_atom_ws4) = Some "Z" /\
  p_res_seq (expected_ws true edge_atom_ws4) = (-999)%Z /\
  p_ins (expected_ws true edge_atom_ws4) = Some "X" /\
  from_pqr_line (ws_line true edge_atom_ws4) = PAtom (expected_ws true edge_atom_ws4) /\
  from_pqr_line (ws_line false edge_atom_ws4) = PAtom (expected_ws false edge_atom_ws4).
Proof. vm_compute. repeat split. Qed.


(* ======================================================================== *)
(* 7. printing-side lemmas reused by C09                                    *)

(* --keep-chain changes column 22 (index 21) only; no guard *)
Theorem chainflag_only_col22 a :
  exists pre c post,
    String.length pre = 21 /\ String.length c = 1 /\
    pqr_string true a = pre ++ c ++ post /\
    pqr_string false a = pre ++ " " ++ post.
Proof.
  exists (take 6 (ljust 6 (a_type a)) ++ take 5 (rjust 5 (Z_to_string (a_serial a))) ++ " "
          ++ name_field (a_name a) ++ res_field (a_res_name a) ++ " "),
         (take 1 (ljust 1 (a_chain a))),
         (take 4 (rjust 4 (Z_to_string (a_res_seq a))) ++ ins_field (a_ins a)
          ++ coord_field (a_x a) ++ coord_field (a_y a) ++ coord_field (a_z a)
          ++ charge_field (a_charge a) ++ radius_field (a_radius a)).
  repeat split.
  - rewrite !length_app, length_take_ljust, length_take_rjust, length_name_field,
      length_res_field. reflexivity.
  - apply length_take_ljust.
  - unfold pqr_string, common_string. rewrite !app_assoc_s. reflexivity.
  - unfold pqr_string, common_string. rewrite !app_assoc_s. reflexivity.
Qed.

(* TER / END lines never reach a --whitespace file *)
Lemma ws_drops_ter cif :
  write_line true cif (item_text ItTer) = "" /\ write_line true cif (item_text ItTerEnd) = "".
Proof. split; reflexivity. Qed.

Fixpoint atom_lines (l : list item) : list string :=
  match l with
  | [] => []
  | ItAtom s :: r => s :: atom_lines r
  | _ :: r => atom_lines r
  end.

(* line i renders atom i with serial i+1 *)
Fixpoint numbered (cf : bool) (i : nat) (l : list atom) : list string :=
  match l with
  | [] => []
  | a :: r => pqr_string cf (with_serial (Z.of_nat i + 1) a) :: numbered cf (S i) r
  end.

Lemma order_preserved_from cf l : forall i cur,
  atom_lines (print_items_from cf i cur l) = numbered cf i l.
Proof.
  induction l as [|a r IH]; intros i cur; simpl; [reflexivity|].
  destruct cur as [c|]; [destruct (String.eqb (a_chain a) c)|]; simpl; now rewrite IH.
Qed.

Theorem order_preserved cf l : atom_lines (print_items cf l) = numbered cf 0 l.
Proof. apply order_preserved_from. Qed.

Lemma numbered_nth cf l : forall k i,
  nth_error (numbered cf k l) i =
  option_map (fun a => pqr_string cf (with_serial (Z.of_nat (k + i) + 1) a)) (nth_error l i).
Proof.
  induction l as [|a r IH]; intros k [|i]; simpl; try reflexivity.
  - now rewrite Nat.add_0_r.
  - rewrite IH. now replace (S k + i) with (k + S i) by lia.
Qed.

Theorem serial_is_position cf l i :
  nth_error (atom_lines (print_items cf l)) i =
  option_map (fun a => pqr_string cf (with_serial (Z.of_nat i + 1) a)) (nth_error l i).
Proof. rewrite order_preserved. apply (numbered_nth cf l 0 i). Qed.

Lemma length_numbered cf l : forall k, List.length (numbered cf k l) = List.length l.
Proof. induction l; intros k; simpl; auto. Qed.

(* the --whitespace file is the re-spaced atom lines, in order *)
Lemma concat_empty_cons x xs : String.concat "" (x :: xs) = x ++ String.concat "" xs.
Proof. destruct xs; simpl; [now rewrite app_empty_r | reflexivity]. Qed.

Lemma is_atom_line_pqr cf a tail : type_ok a = true -> is_atom_line (pqr_string cf a ++ tail) = true.
Proof.
  intros H. unfold is_atom_line, pqr_string, common_string.
  destruct (type_ok_cases a H) as [E|E]; rewrite E; reflexivity.
Qed.

Definition all_types_ok (l : list atom) : Prop := forall a, In a l -> type_ok a = true.

Lemma ws_file_from cf l : all_types_ok l -> forall i cur,
  String.concat "" (map (write_line true false) (map item_text (print_items_from cf i cur l))) =
  String.concat "" (map (fun s => respace (s ++ nl)) (numbered cf i l)).
Proof.
  induction l as [|a r IH]; intros Hok i cur; [reflexivity|].
  assert (Ha : type_ok (with_serial (Z.of_nat i + 1) a) = true) by (change (type_ok a = true); apply Hok; now left).
  assert (Hr : all_types_ok r) by (intros b Hb; apply Hok; now right).
  assert (W : write_line true false (item_text (ItAtom (pqr_string cf (with_serial (Z.of_nat i + 1) a))))
              = respace (pqr_string cf (with_serial (Z.of_nat i + 1) a) ++ nl)).
  { unfold write_line, item_text. now rewrite is_atom_line_pqr. }
  cbn [print_items_from numbered map].
  destruct cur as [c|]; [destruct (String.eqb (a_chain a) c)|]; cbn [map];
    rewrite ?concat_empty_cons, ?W, ?(IH Hr); try reflexivity.
Qed.

Theorem ws_file_lines cf l : all_types_ok l ->
  print_pqr true false (print_atoms cf l) =
  String.concat "" (map (fun s => respace (s ++ nl)) (numbered cf 0 l)).
Proof.
  intros H. unfold print_pqr, print_atoms, print_items. rewrite app_empty_r.
  now apply ws_file_from.
Qed.


Definition num_cols : list (nat * nat) := [(30, 38); (38, 46); (46, 54); (54, 62); (62, 69)].

Definition num_tokens (a : atom) : list string :=
  [fmt_fixed 3 (a_x a); fmt_fixed 3 (a_y a); fmt_fixed 3 (a_z a);
   opt_fmt4 (a_charge a); opt_fmt4 (a_radius a)].

Lemma ins_field_split i : exists p, ins_field i = p ++ " ".
Proof.
  unfold ins_field. destruct (is_empty i).
  - now exists "   ".
  - exists (i ++ "  "). now rewrite app_assoc_s.
Qed.

Lemma num_ok_fits a : num_ok a = true -> num_fits a = true.
Proof.
  unfold num_ok, num_fits, fits. rewrite !andb_true_iff, !Nat.leb_le.
  intros [[[[[Hi Hx] Hy] Hz] Hch] Hrd]. repeat split; auto; lia.
Qed.

(* the five numeric tokens of the re-spaced line are the five numeric column
   slices of the default line, in order, whatever stands before them (guard:
   the numbers fit their columns) *)
Theorem respace_keeps_numeric_tokens_wide cf a :
  num_fits a = true ->
  exists front,
    tokens (ws_line cf a) = (front ++ num_tokens a)%list /\
    map (fun c => strip (slice (fst c) (snd c) (pqr_string cf a))) num_cols = num_tokens a.
Proof.
  unfold num_fits. rewrite !andb_true_iff.
  intros [[[[[Hi Hx] Hy] Hz] Hch8] Hrd7].
  apply fits_le in Hi, Hch8, Hrd7.
  destruct (ins_field_split (a_ins a)) as [p Ep].
  exists (tokens (take 6 (ljust 6 (a_type a)) ++ " "
                  ++ (take 5 (rjust 5 (Z_to_string (a_serial a))) ++ " " ++ name_field (a_name a))
                  ++ " " ++ (res_field (a_res_name a) ++ " "
                             ++ take 1 (ljust 1 (if cf then a_chain a else "")))
                  ++ " " ++ take 4 (rjust 4 (Z_to_string (a_res_seq a))) ++ " " ++ p)).
  split.
  - rewrite (ws_line_fields cf a Hi), Ep.
    rewrite (coord_field_fit _ Hx), (coord_field_fit _ Hy), (coord_field_fit _ Hz).
    unfold charge_field, radius_field.
    rewrite (rjust_field_pad 8 _ Hch8), (rjust_field_pad 7 _ Hrd7).
    set (X := fmt_fixed 3 (a_x a)). set (Y := fmt_fixed 3 (a_y a)). set (Zc := fmt_fixed 3 (a_z a)).
    set (C := opt_fmt4 (a_charge a)) in *. set (Rd := opt_fmt4 (a_radius a)) in *.
    match goal with |- tokens ?l = (tokens ?A ++ _)%list =>
      assert (E : l = A ++ String sp
        (render [Gap (repeat_char sp (8 - String.length X)); Word X; Gap " ";
                 Gap (repeat_char sp (8 - String.length Y)); Word Y; Gap " ";
                 Gap (repeat_char sp (8 - String.length Zc)); Word Zc; Gap " ";
                 Gap (repeat_char sp (8 - String.length C)); Word C; Gap " ";
                 Gap (repeat_char sp (7 - String.length Rd)); Word Rd; Gap nl]))
    end.
    { cbn [render]. rewrite !app_assoc_s, !app_empty_r. reflexivity. }
    rewrite E, tokens_app_ws by reflexivity. f_equal.
    rewrite tokens_render; [reflexivity|].
    cbn [wf gap_next]. rewrite !blanks_ws.
    unfold X, Y, Zc, C, Rd.
    repeat split; auto using fmt_fixed_no_ws, fmt_fixed_nonempty, opt_fmt4_no_ws,
      opt_fmt4_nonempty, blanks_nonempty.
    all: try (left; reflexivity).
  - rewrite <- (app_empty_r (pqr_string cf a)), pqr_string_laid.
    destruct (layout_slices _ _ " " _ _ " " _ _ _ _ _ _ _ _ ""
              (length_take_ljust 6 (a_type a))
              (length_take_rjust 5 (Z_to_string (a_serial a))) eq_refl
              (length_name_field (a_name a)) (length_res_field (a_res_name a)) eq_refl
              (length_take_ljust 1 (if cf then a_chain a else ""))
              (length_take_rjust 4 (Z_to_string (a_res_seq a)))
              (length_ins_field (a_ins a) Hi)
              (length_coord_field (a_x a)) (length_coord_field (a_y a))
              (length_coord_field (a_z a))
              (length_charge_field (a_charge a)) (length_radius_field (a_radius a)))
      as (_ & _ & _ & _ & _ & _ & _ & S9 & S10 & S11 & S12 & S13).
    unfold num_cols, num_tokens. cbn [map fst snd].
    rewrite S9, S10, S11, S12, S13.
    rewrite (coord_field_fit _ Hx), (coord_field_fit _ Hy), (coord_field_fit _ Hz).
    unfold charge_field, radius_field.
    rewrite (rjust_field_pad 8 _ Hch8), (rjust_field_pad 7 _ Hrd7).
    rewrite !strip_rpad by auto using fmt_fixed_no_ws, opt_fmt4_no_ws. reflexivity.
Qed.

(* the statement C09 uses (narrower guard num_ok kept for stability) *)
Theorem respace_keeps_numeric_tokens cf a :
  num_ok a = true ->
  exists front,
    tokens (ws_line cf a) = (front ++ num_tokens a)%list /\
    map (fun c => strip (slice (fst c) (snd c) (pqr_string cf a))) num_cols = num_tokens a.
Proof. intros H. apply respace_keeps_numeric_tokens_wide, num_ok_fits, H. Qed.

(* file level *)

Fixpoint all_ok (ok : atom -> bool) (i : nat) (l : list atom) : Prop :=
  match l with
  | [] => True
  | a :: r => ok (with_serial (Z.of_nat i + 1) a) = true /\ all_ok ok (S i) r
  end.

Fixpoint renumbered (i : nat) (l : list atom) : list atom :=
  match l with
  | [] => []
  | a :: r => with_serial (Z.of_nat i + 1) a :: renumbered (S i) r
  end.

Lemma numbered_renumbered cf l : forall i, numbered cf i l = map (pqr_string cf) (renumbered i l).
Proof. induction l as [|a r IH]; intros i; simpl; [reflexivity | now rewrite IH]. Qed.

(* default layout, whole atom list: every line reads back to its atom, in
   order, with serial = position *)
Theorem fixed_file_roundtrip cf l :
  all_ok (fixed_ok cf) 0 l ->
  map read_fixed (atom_lines (print_items cf l)) = map (expected_fixed cf) (renumbered 0 l).
Proof.
  rewrite order_preserved. generalize 0. induction l as [|a r IH]; intros i H; [reflexivity|].
  destruct H as [Ha Hr]. cbn [numbered renumbered map].
  rewrite (fixed_roundtrip _ _ Ha), (IH _ Hr). reflexivity.
Qed.

Lemma write_line_default s : write_line false false s = s.
Proof. unfold write_line. now rewrite orb_true_r. Qed.

Lemma respace_nonempty s : is_empty (respace s) = false.
Proof. unfold respace. destruct (slice 0 6 s); reflexivity. Qed.

Lemma ws_chunks_from cf cif l : all_types_ok l -> forall i cur,
  written_chunks true cif (map item_text (print_items_from cf i cur l)) =
  map (fun s => respace (s ++ nl)) (numbered cf i l).
Proof.
  unfold written_chunks.
  induction l as [|a r IH]; intros Hok i cur; [reflexivity|].
  assert (Ha : type_ok (with_serial (Z.of_nat i + 1) a) = true)
    by (change (type_ok a = true); apply Hok; now left).
  assert (Hr : all_types_ok r) by (intros b Hb; apply Hok; now right).
  assert (W : write_line true cif (item_text (ItAtom (pqr_string cf (with_serial (Z.of_nat i + 1) a))))
              = respace (pqr_string cf (with_serial (Z.of_nat i + 1) a) ++ nl)).
  { unfold write_line, item_text. now rewrite is_atom_line_pqr. }
  cbn [print_items_from numbered map].
  destruct cur as [c|]; [destruct (String.eqb (a_chain a) c)|]; cbn [map filter];
    rewrite ?W, ?respace_nonempty; cbn [negb]; rewrite ?(IH Hr); reflexivity.
Qed.

Lemma all_ok_types cf l : forall i, all_ok (ws_ok cf) i l -> all_types_ok l.
Proof.
  induction l as [|a r IH]; intros i H b Hb; [destruct Hb|].
  destruct H as [Ha Hr]. destruct Hb as [<- | Hb]; [|exact (IH _ Hr b Hb)].
  apply ws_ok_spec in Ha as (F & _). unfold fixed_ok in F. rewrite !andb_true_iff in F. tauto.
Qed.

(* a trailing line the reader skips (the "#" of mmCIF input) changes nothing *)
Lemma read_pqr_skip_last xs t : from_pqr_line t = PNone -> read_pqr (xs ++ [t]) = read_pqr xs.
Proof.
  intros H. induction xs as [|x r IH]; cbn [List.app read_pqr].
  - now rewrite H.
  - rewrite IH. reflexivity.
Qed.

Lemma hash_line_skipped : from_pqr_line ("#" ++ nl) = PNone.
Proof. reflexivity. Qed.

(* --whitespace file, whole atom list, PDB or mmCIF input: pdb2pqr's own reader
   returns every atom, in order, with serial = position *)
Theorem ws_file_roundtrip cf cif l :
  all_ok (ws_ok cf) 0 l ->
  read_pqr (file_chunks true cif (print_atoms cf l)) =
  inl (map (expected_ws cf) (renumbered 0 l)).
Proof.
  intros H. unfold file_chunks, print_atoms, print_items.
  rewrite (ws_chunks_from cf cif l (all_ok_types cf l 0 H)).
  assert (R : read_pqr (map (fun s => respace (s ++ nl)) (numbered cf 0 l)) =
              inl (map (expected_ws cf) (renumbered 0 l))).
  { revert H. generalize 0. induction l as [|a r IH]; intros i H; [reflexivity|].
    destruct H as [Ha Hr]. cbn [numbered renumbered map read_pqr].
    fold (ws_line cf (with_serial (Z.of_nat i + 1) a)).
    rewrite (ws_roundtrip _ _ Ha), (IH _ Hr). reflexivity. }
  destruct cif.
  - rewrite (read_pqr_skip_last _ _ hash_line_skipped). exact R.
  - rewrite app_nil_r. exact R.
Qed.
