(* Lemmas and proofs about Model/PqrFormat.v (C08; printing-side lemmas of C09). *)
From Coq Require Import String Ascii List Arith NArith ZArith Bool Lia ZifyBool ZifyNat
  DecimalString DecimalN DecimalZ DecimalPos Decimal.
From PV Require Import Lib.Strings Lib.Decimal Model.PqrFormat.
Import ListNotations.
Local Open Scope string_scope.

(* ======================================================================== *)
(* 1. strings                                                               *)

Lemma take_all n s : String.length s <= n -> take n s = s.
Proof.
  revert s; induction n as [|n IH]; intros [|c r] H; simpl in *; try reflexivity; try lia.
  rewrite IH by lia. reflexivity.
Qed.

Lemma take_app_len n a b : String.length a = n -> take n (a ++ b) = a.
Proof. intros <-. apply take_app_exact. Qed.

Lemma drop_app_len n a b : String.length a = n -> drop n (a ++ b) = b.
Proof. intros <-. apply drop_app_exact. Qed.

Lemma drop_app_ge n k a b : String.length a = k -> k <= n -> drop n (a ++ b) = drop (n - k) b.
Proof.
  intros <-. revert n. induction a as [|c a IH]; intros n H; simpl in *.
  - now rewrite Nat.sub_0_r.
  - destruct n as [|n]; [lia|]. simpl. apply IH. lia.
Qed.

Lemma take_app_ge n k a b : String.length a = k -> k <= n -> take n (a ++ b) = a ++ take (n - k) b.
Proof.
  intros <-. revert n. induction a as [|c a IH]; intros n H; simpl in *.
  - now rewrite Nat.sub_0_r.
  - destruct n as [|n]; [lia|]. simpl. rewrite IH by lia. reflexivity.
Qed.

Lemma drop_0 s : drop 0 s = s.
Proof. destruct s; reflexivity. Qed.

Lemma take_0 s : take 0 s = "".
Proof. destruct s; reflexivity. Qed.

Lemma drop_all n s : String.length s <= n -> drop n s = "".
Proof.
  revert s; induction n as [|n IH]; intros [|c r] H; simpl in *; try reflexivity; try lia.
  apply IH. lia.
Qed.

Lemma length_take_ljust n s : String.length (take n (ljust n s)) = n.
Proof. rewrite length_take, length_ljust. lia. Qed.

Lemma length_take_rjust n s : String.length (take n (rjust n s)) = n.
Proof. rewrite length_take, length_rjust. lia. Qed.

Lemma take_rjust_fit n s :
  String.length s <= n -> take n (rjust n s) = repeat_char sp (n - String.length s) ++ s.
Proof.
  intros H. apply take_all. unfold rjust. rewrite length_app, length_repeat. lia.
Qed.

Lemma take_ljust_fit n s :
  String.length s <= n -> take n (ljust n s) = s ++ repeat_char sp (n - String.length s).
Proof.
  intros H. apply take_all. unfold ljust. rewrite length_app, length_repeat. lia.
Qed.

Lemma ljust_long n s : n <= String.length s -> ljust n s = s.
Proof.
  intros H. unfold ljust. replace (n - String.length s) with 0 by lia. simpl. apply app_empty_r.
Qed.

Lemma any_char_app p a b : any_char p (a ++ b) = any_char p a || any_char p b.
Proof. induction a as [|c a IH]; simpl; [reflexivity|]. rewrite IH. now rewrite orb_assoc. Qed.

Lemma all_chars_app p a b : all_chars p (a ++ b) = all_chars p a && all_chars p b.
Proof. induction a as [|c a IH]; simpl; [reflexivity|]. rewrite IH. now rewrite andb_assoc. Qed.

Lemma all_chars_repeat p c n : p c = true -> all_chars p (repeat_char c n) = true.
Proof. intros H. induction n; simpl; [reflexivity|]. now rewrite H, IHn. Qed.

Lemma all_chars_take p n s : all_chars p s = true -> all_chars p (take n s) = true.
Proof.
  revert s; induction n as [|n IH]; intros [|c r] H; simpl in *; try reflexivity.
  apply andb_true_iff in H as [H1 H2]. now rewrite H1, IH.
Qed.

Lemma all_chars_drop p n s : all_chars p s = true -> all_chars p (drop n s) = true.
Proof.
  revert s; induction n as [|n IH]; intros [|c r] H; simpl in *; try reflexivity; try assumption.
  apply andb_true_iff in H as [H1 H2]. now apply IH.
Qed.

Lemma all_not_any p q s :
  (forall c, p c = true -> q c = false) -> all_chars p s = true -> any_char q s = false.
Proof.
  intros Hpq. induction s as [|c r IH]; simpl; intros H; [reflexivity|].
  apply andb_true_iff in H as [H1 H2]. now rewrite (Hpq _ H1), IH.
Qed.

Lemma is_empty_length s : is_empty s = false <-> 1 <= String.length s.
Proof. destruct s; simpl; split; intros; try lia; try discriminate; reflexivity. Qed.

Lemma is_empty_true s : is_empty s = true -> s = "".
Proof. destruct s; simpl; congruence. Qed.

(* ---- strip of a blank-padded, blank-free string ---- *)

Lemma lstrip_blanks k t : lstrip (repeat_char sp k ++ t) = lstrip t.
Proof. induction k; simpl; auto. Qed.

Lemma lstrip_noblank_head s t : any_char is_ws s = false -> is_empty s = false ->
  lstrip (s ++ t) = s ++ t.
Proof.
  destruct s as [|c r]; simpl; intros H E; [discriminate|].
  apply orb_false_iff in H as [Hc _]. now rewrite Hc.
Qed.

Lemma rstrip_blanks j : rstrip (repeat_char sp j) = "".
Proof. induction j; simpl; [reflexivity|]. rewrite IHj. reflexivity. Qed.

Lemma rstrip_noblank s j : any_char is_ws s = false -> rstrip (s ++ repeat_char sp j) = s.
Proof.
  induction s as [|c r IH]; simpl; intros H.
  - apply rstrip_blanks.
  - apply orb_false_iff in H as [Hc Hr]. rewrite (IH Hr), Hc. reflexivity.
Qed.

Theorem strip_padded k s j :
  any_char is_ws s = false -> strip (repeat_char sp k ++ s ++ repeat_char sp j) = s.
Proof.
  intros H. unfold strip. rewrite lstrip_blanks.
  destruct (is_empty s) eqn:E.
  - apply is_empty_true in E. subst s. simpl.
    replace (repeat_char sp j) with (repeat_char sp j ++ "") by apply app_empty_r.
    rewrite lstrip_blanks. reflexivity.
  - rewrite (lstrip_noblank_head _ _ H E). now apply rstrip_noblank.
Qed.

Lemma strip_rpad k s : any_char is_ws s = false -> strip (repeat_char sp k ++ s) = s.
Proof.
  intros H. rewrite <- (app_empty_r s) at 1. exact (strip_padded k s 0 H).
Qed.

Lemma strip_lpad s j : any_char is_ws s = false -> strip (s ++ repeat_char sp j) = s.
Proof. intros H. exact (strip_padded 0 s j H). Qed.

(* ---- tokens of a blank-padded, blank-free string ---- *)

Definition ws_head (s : string) : Prop :=
  match s with EmptyString => True | String c _ => is_ws c = true end.

Lemma tokens_blanks k t : tokens (repeat_char sp k ++ t) = tokens t.
Proof. induction k; simpl repeat_char; simpl append; [reflexivity|]. now rewrite tokens_ws_prefix. Qed.

Lemma tokens_word_then s rest :
  any_char is_ws s = false -> is_empty s = false -> ws_head rest ->
  tokens (s ++ rest) = s :: tokens rest.
Proof.
  intros H E W. destruct rest as [|w r].
  - rewrite app_empty_r. now apply tokens_single.
  - simpl in W. rewrite (tokens_app_ws _ _ _ W), (tokens_single _ H E).
    now rewrite (tokens_ws_prefix _ _ W).
Qed.

(* the step used field by field *)
Lemma tokens_pad_then k s rest :
  any_char is_ws s = false -> is_empty s = false -> ws_head rest ->
  tokens (repeat_char sp k ++ s ++ rest) = s :: tokens rest.
Proof. intros. rewrite tokens_blanks. now apply tokens_word_then. Qed.

Lemma ws_head_sp r : ws_head (String sp r).
Proof. reflexivity. Qed.

Lemma ws_head_nl r : ws_head (nl ++ r).
Proof. reflexivity. Qed.

Lemma ws_head_rep k r : 1 <= k -> ws_head (repeat_char sp k ++ r).
Proof. destruct k; [lia|]. reflexivity. Qed.

(* ======================================================================== *)
(* 2. characters and decimal numbers                                        *)

Lemma digit_not_ws c : is_digit c = true -> is_ws c = false.
Proof. destruct c as [[] [] [] [] [] [] [] []]; vm_compute; congruence. Qed.

Lemma digit_not_minus c : is_digit c = true -> (c =? "-")%char = false.
Proof. destruct c as [[] [] [] [] [] [] [] []]; vm_compute; congruence. Qed.

Lemma digit_not_plus c : is_digit c = true -> (c =? "+")%char = false.
Proof. destruct c as [[] [] [] [] [] [] [] []]; vm_compute; congruence. Qed.

Lemma digit_not_dot c : is_digit c = true -> (c =? dot_char)%char = false.
Proof. destruct c as [[] [] [] [] [] [] [] []]; vm_compute; congruence. Qed.

Lemma digits_no_ws s : all_chars is_digit s = true -> any_char is_ws s = false.
Proof. apply all_not_any. exact digit_not_ws. Qed.

Lemma uint_string_digits u : all_chars is_digit (NilEmpty.string_of_uint u) = true.
Proof. induction u; simpl; auto. Qed.

Lemma N_to_string_eq n : N_to_string n = NilEmpty.string_of_uint (N.to_uint n).
Proof.
  unfold N_to_string. destruct n as [|p]; [reflexivity|]. simpl.
  pose proof (DecimalPos.Unsigned.to_uint_nonnil p) as Hn.
  destruct (Pos.to_uint p); [congruence | reflexivity ..].
Qed.

Lemma N_to_string_digits n : all_chars is_digit (N_to_string n) = true.
Proof. rewrite N_to_string_eq. apply uint_string_digits. Qed.

Lemma N_to_string_nonempty n : is_empty (N_to_string n) = false.
Proof.
  unfold N_to_string. destruct n as [|p]; [reflexivity|]. simpl.
  pose proof (DecimalPos.Unsigned.to_uint_nonnil p) as Hn.
  destruct (Pos.to_uint p); [congruence | reflexivity ..].
Qed.

Lemma digits_value_N n : digits_value (N_to_string n) = Some n.
Proof.
  unfold digits_value. rewrite N_to_string_eq, NilEmpty.usu. simpl.
  now rewrite DecimalN.Unsigned.of_to.
Qed.

Lemma digits_value_zero s : digits_value (String zero_char s) = digits_value s.
Proof.
  unfold digits_value. simpl. destruct (NilEmpty.uint_of_string s); reflexivity.
Qed.

Lemma digits_value_zfill w s : digits_value (zfill w s) = digits_value s.
Proof.
  unfold zfill. induction (w - String.length s) as [|k IH]; simpl; [reflexivity|].
  now rewrite digits_value_zero.
Qed.

Lemma Z_to_string_cases z :
  Z_to_string z = if (z <? 0)%Z then String "-" (N_to_string (Z.to_N (- z)))
                  else N_to_string (Z.to_N z).
Proof. destruct z; reflexivity. Qed.

Lemma int_body_digits b s :
  all_chars is_digit s = true -> (is_empty s = false \/ b = true) -> int_body b s = Some s.
Proof.
  revert b. induction s as [|c r IH]; intros b H E; simpl in *.
  - destruct E as [E|E]; [discriminate | now rewrite E].
  - apply andb_true_iff in H as [Hc Hr]. rewrite Hc.
    rewrite (IH true Hr) by now right. reflexivity.
Qed.

Lemma sign_split_digit s :
  all_chars is_digit s = true -> sign_split s = (false, s).
Proof.
  destruct s as [|c r]; simpl; intros H; [reflexivity|].
  apply andb_true_iff in H as [Hc _].
  now rewrite (digit_not_minus _ Hc), (digit_not_plus _ Hc).
Qed.

Lemma py_int_N n : py_int (N_to_string n) = Some (Z.of_N n).
Proof.
  unfold py_int. rewrite (sign_split_digit _ (N_to_string_digits n)).
  rewrite int_body_digits by (auto using N_to_string_digits, N_to_string_nonempty).
  now rewrite digits_value_N.
Qed.

Lemma py_int_neg_N n : py_int (String "-" (N_to_string n)) = Some (- Z.of_N n)%Z.
Proof.
  unfold py_int. simpl sign_split. cbv iota beta.
  rewrite int_body_digits by (auto using N_to_string_digits, N_to_string_nonempty).
  now rewrite digits_value_N.
Qed.

Theorem py_int_Z_to_string z : py_int (Z_to_string z) = Some z.
Proof.
  rewrite Z_to_string_cases. destruct (z <? 0)%Z eqn:E.
  - rewrite py_int_neg_N. f_equal. lia.
  - rewrite py_int_N. f_equal. lia.
Qed.

Lemma Z_to_string_no_ws z : any_char is_ws (Z_to_string z) = false.
Proof.
  rewrite Z_to_string_cases. destruct (z <? 0)%Z; simpl.
  - apply digits_no_ws, N_to_string_digits.
  - apply digits_no_ws, N_to_string_digits.
Qed.

Lemma Z_to_string_nonempty z : is_empty (Z_to_string z) = false.
Proof.
  rewrite Z_to_string_cases. destruct (z <? 0)%Z; [reflexivity | apply N_to_string_nonempty].
Qed.

(* ---- '%.df' and its parse ---- *)

Lemma zfill_digits w s : all_chars is_digit s = true -> all_chars is_digit (zfill w s) = true.
Proof.
  intros H. unfold zfill. rewrite all_chars_app, H, all_chars_repeat; reflexivity.
Qed.

Lemma length_zfill w s : String.length (zfill w s) = Nat.max w (String.length s).
Proof. unfold zfill. rewrite length_app, length_repeat. lia. Qed.

Lemma split_dot_digits ip fp :
  all_chars is_digit ip = true -> split_dot (ip ++ String dot_char fp) = (ip, Some fp).
Proof.
  induction ip as [|c r IH]; simpl; intros H.
  - reflexivity.
  - apply andb_true_iff in H as [Hc Hr]. rewrite (digit_not_dot _ Hc), (IH Hr). reflexivity.
Qed.

(* the unsigned part of the rendering *)
Definition fmt_body (d : nat) (m : N) : string :=
  let p := zfill (S d) (N_to_string m) in
  let k := String.length p - d in take k p ++ String dot_char (drop k p).

Lemma fmt_fixed_body d v :
  fmt_fixed d v = (if fx_neg v then "-" else "") ++ fmt_body d (fx_mag v).
Proof. reflexivity. Qed.

Lemma fmt_body_parts d m :
  exists ip fp, fmt_body d m = ip ++ String dot_char fp /\
    all_chars is_digit ip = true /\ all_chars is_digit fp = true /\
    is_empty ip = false /\ String.length fp = d /\ digits_value (ip ++ fp) = Some m.
Proof.
  unfold fmt_body.
  set (p := zfill (S d) (N_to_string m)).
  assert (Hp : all_chars is_digit p = true) by apply zfill_digits, N_to_string_digits.
  assert (Hl : S d <= String.length p) by (unfold p; rewrite length_zfill; lia).
  exists (take (String.length p - d) p), (drop (String.length p - d) p).
  repeat split.
  - now apply all_chars_take.
  - now apply all_chars_drop.
  - apply is_empty_length. rewrite length_take. lia.
  - rewrite length_drop. lia.
  - rewrite take_drop. unfold p. rewrite digits_value_zfill. apply digits_value_N.
Qed.

Theorem plain_decimal_fmt d v :
  plain_decimal (fmt_fixed d v) = Some (PF (fx_neg v) (fx_mag v) d).
Proof.
  rewrite fmt_fixed_body.
  destruct (fmt_body_parts d (fx_mag v)) as (ip & fp & E & Hi & Hf & Hne & Hl & Hv).
  rewrite E. unfold plain_decimal.
  assert (S : sign_split ((if fx_neg v then "-" else "") ++ ip ++ String dot_char fp)
              = (fx_neg v, ip ++ String dot_char fp)).
  { destruct (fx_neg v); [reflexivity|]. simpl append.
    destruct ip as [|c r]; [discriminate|]. simpl in *.
    apply andb_true_iff in Hi as [Hc _].
    now rewrite (digit_not_minus _ Hc), (digit_not_plus _ Hc). }
  rewrite S, (split_dot_digits _ _ Hi), Hi, Hf. simpl andb.
  assert (N : is_empty (ip ++ fp) = false) by (destruct ip; [discriminate | reflexivity]).
  rewrite N. simpl negb. cbv iota. rewrite Hv, Hl. reflexivity.
Qed.

Lemma fmt_fixed_no_ws d v : any_char is_ws (fmt_fixed d v) = false.
Proof.
  rewrite fmt_fixed_body.
  destruct (fmt_body_parts d (fx_mag v)) as (ip & fp & E & Hi & Hf & _).
  rewrite E, any_char_app, any_char_app. simpl.
  rewrite (digits_no_ws _ Hi), (digits_no_ws _ Hf). destruct (fx_neg v); reflexivity.
Qed.

Lemma fmt_fixed_nonempty d v : is_empty (fmt_fixed d v) = false.
Proof.
  rewrite fmt_fixed_body.
  destruct (fmt_body_parts d (fx_mag v)) as (ip & fp & E & _ & _ & Hne & _).
  rewrite E. destruct (fx_neg v); [reflexivity|]. simpl. destruct ip; [discriminate | reflexivity].
Qed.

Lemma opt_fmt4_parse o : plain_decimal (opt_fmt4 o) = Some (pf_of_opt 4 o).
Proof. destruct o; [apply plain_decimal_fmt | reflexivity]. Qed.

Lemma opt_fmt4_no_ws o : any_char is_ws (opt_fmt4 o) = false.
Proof. destruct o; [apply fmt_fixed_no_ws | reflexivity]. Qed.

Lemma opt_fmt4_nonempty o : is_empty (opt_fmt4 o) = false.
Proof. destruct o; [apply fmt_fixed_nonempty | reflexivity]. Qed.

Lemma py_float_plain s p : plain_decimal s = Some p -> py_float s = FNum p.
Proof. intros H. unfold py_float. now rewrite H. Qed.

(* ======================================================================== *)
(* 3. fields and the column layout                                          *)

Lemma fits_le w s : fits w s = true -> String.length s <= w.
Proof. unfold fits. intros H. now apply Nat.leb_le in H. Qed.

Lemma token_ok_spec lo hi s :
  token_ok lo hi s = true ->
  lo <= String.length s /\ String.length s <= hi /\ any_char is_ws s = false.
Proof. unfold token_ok. rewrite !andb_true_iff, !Nat.leb_le, negb_true_iff. tauto. Qed.

Lemma length_sp_cons x : String.length (" " ++ x) = S (String.length x).
Proof. reflexivity. Qed.

Lemma length_name_field n : String.length (name_field n) = 4.
Proof.
  unfold name_field. destruct (_ || _).
  - apply length_take_ljust.
  - rewrite length_sp_cons, length_take_ljust. reflexivity.
Qed.

Lemma length_res_field n : String.length (res_field n) = 4.
Proof.
  unfold res_field. destruct (_ =? _)%nat.
  - apply length_take_ljust.
  - rewrite length_sp_cons, length_take_ljust. reflexivity.
Qed.

Lemma length_lstrip_p_le p s : String.length (lstrip_p p s) <= String.length s.
Proof. induction s as [|c r IH]; simpl; [lia|]. destruct (p c); simpl; lia. Qed.

Lemma length_rstrip_p_le p s : String.length (rstrip_p p s) <= String.length s.
Proof.
  induction s as [|c r IH]; simpl; [lia|].
  destruct (p c && is_empty (rstrip_p p r)); simpl; lia.
Qed.

Lemma length_strip_p_le p s : String.length (strip_p p s) <= String.length s.
Proof.
  unfold strip_p. pose proof (length_rstrip_p_le p (lstrip_p p s)).
  pose proof (length_lstrip_p_le p s). lia.
Qed.

Lemma name_field_fit n : String.length n <= 4 ->
  exists k j, name_field n = repeat_char sp k ++ n ++ repeat_char sp j.
Proof.
  intros H. unfold name_field.
  destruct (String.length n =? 4)%nat eqn:E.
  - cbn [orb]. exists 0, (4 - String.length n). cbn [repeat_char append].
    now apply take_ljust_fit.
  - apply Nat.eqb_neq in E.
    assert (E2 : (String.length (strip_p in_flip n) =? 4)%nat = false).
    { apply Nat.eqb_neq. pose proof (length_strip_p_le in_flip n). lia. }
    rewrite E2. cbn [orb]. exists 1, (3 - String.length n).
    rewrite take_ljust_fit by lia. reflexivity.
Qed.

Lemma res_field_fit n : String.length n <= 4 ->
  exists k j, res_field n = repeat_char sp k ++ n ++ repeat_char sp j.
Proof.
  intros H. unfold res_field.
  destruct (String.length n =? 4)%nat eqn:E.
  - exists 0, (4 - String.length n). cbn [repeat_char append]. now apply take_ljust_fit.
  - apply Nat.eqb_neq in E. exists 1, (3 - String.length n).
    rewrite take_ljust_fit by lia. reflexivity.
Qed.

Lemma type_ok_cases a : type_ok a = true -> a_type a = "ATOM" \/ a_type a = "HETATM".
Proof.
  unfold type_ok. intros H. apply orb_true_iff in H as [H|H]; apply String.eqb_eq in H; auto.
Qed.

Lemma coord_field_fit v :
  fits 8 (fmt_fixed 3 v) = true ->
  coord_field v = repeat_char sp (8 - String.length (fmt_fixed 3 v)) ++ fmt_fixed 3 v.
Proof.
  intros H. apply fits_le in H. unfold coord_field.
  rewrite ljust_long by (rewrite length_rjust; lia). now apply take_rjust_fit.
Qed.

Lemma length_coord_field v : String.length (coord_field v) = 8.
Proof. unfold coord_field. apply length_take_ljust. Qed.

Lemma length_ins_field i : String.length i <= 1 -> String.length (ins_field i) = 4.
Proof. destruct i as [|c [|d r]]; simpl; intros; try reflexivity; lia. Qed.

Lemma ins_field_read i :
  String.length i <= 1 -> any_char is_ws i = false -> strip (take 1 (ins_field i)) = i.
Proof.
  destruct i as [|c [|d r]]; simpl String.length; intros H W; try lia.
  - reflexivity.
  - change (take 1 (ins_field (String c ""))) with (String c "").
    exact (strip_padded 0 (String c "") 0 W).
Qed.

Lemma take_app_le n a b : n <= String.length a -> take n (a ++ b) = take n a.
Proof.
  revert a; induction n as [|n IH]; intros a H.
  - now rewrite !take_0.
  - destruct a as [|c r]; simpl in *; [lia|]. rewrite IH by lia. reflexivity.
Qed.

Lemma slice_skip a b k f rest :
  String.length f = k -> k <= a -> slice a b (f ++ rest) = slice (a - k) (b - k) rest.
Proof.
  intros Hk Hle. unfold slice. rewrite (drop_app_ge a k f rest Hk Hle). f_equal. lia.
Qed.

Lemma slice_here n f rest : String.length f = n -> slice 0 n (f ++ rest) = f.
Proof. intros H. unfold slice. rewrite drop_0, Nat.sub_0_r. now apply take_app_len. Qed.

Ltac skip_field H := rewrite (slice_skip _ _ _ _ _ H) by lia; cbn [Nat.sub].
Ltac take_field H := rewrite (take_app_ge _ _ _ _ H) by lia; cbn [Nat.sub].
Ltac drop_field H := rewrite (drop_app_ge _ _ _ _ H) by lia; cbn [Nat.sub].

Section Layout.
  Variables f0 f1 f2 f3 f4 f5 f6 f7 f8 f9 f10 f11 f12 f13 tail : string.
  Hypothesis H0 : String.length f0 = 6.    (* record type *)
  Hypothesis H1 : String.length f1 = 5.    (* serial *)
  Hypothesis H2 : String.length f2 = 1.    (* blank *)
  Hypothesis H3 : String.length f3 = 4.    (* atom name *)
  Hypothesis H4 : String.length f4 = 4.    (* residue name *)
  Hypothesis H5 : String.length f5 = 1.    (* blank *)
  Hypothesis H6 : String.length f6 = 1.    (* chain *)
  Hypothesis H7 : String.length f7 = 4.    (* resSeq *)
  Hypothesis H8 : String.length f8 = 4.    (* iCode + 3 blanks *)
  Hypothesis H9 : String.length f9 = 8.    (* x *)
  Hypothesis H10 : String.length f10 = 8.  (* y *)
  Hypothesis H11 : String.length f11 = 8.  (* z *)
  Hypothesis H12 : String.length f12 = 8.  (* charge *)
  Hypothesis H13 : String.length f13 = 7.  (* radius *)

  Definition laid : string :=
    f0 ++ f1 ++ f2 ++ f3 ++ f4 ++ f5 ++ f6 ++ f7 ++ f8 ++ f9 ++ f10 ++ f11 ++ f12 ++ f13 ++ tail.

  Lemma layout_slices :
    slice 0 6 laid = f0 /\ slice 6 11 laid = f1 /\ slice 12 16 laid = f3 /\
    slice 16 20 laid = f4 /\ slice 21 22 laid = f6 /\ slice 22 26 laid = f7 /\
    slice 26 27 laid = take 1 f8 /\ slice 30 38 laid = f9 /\ slice 38 46 laid = f10 /\
    slice 46 54 laid = f11 /\ slice 54 62 laid = f12 /\ slice 62 69 laid = f13.
  Proof.
    unfold laid. repeat split.
    - apply (slice_here 6 _ _ H0).
    - skip_field H0. apply (slice_here 5 _ _ H1).
    - skip_field H0. skip_field H1. skip_field H2. apply (slice_here 4 _ _ H3).
    - skip_field H0. skip_field H1. skip_field H2. skip_field H3. apply (slice_here 4 _ _ H4).
    - skip_field H0. skip_field H1. skip_field H2. skip_field H3. skip_field H4. skip_field H5.
      apply (slice_here 1 _ _ H6).
    - skip_field H0. skip_field H1. skip_field H2. skip_field H3. skip_field H4. skip_field H5.
      skip_field H6. apply (slice_here 4 _ _ H7).
    - skip_field H0. skip_field H1. skip_field H2. skip_field H3. skip_field H4. skip_field H5.
      skip_field H6. skip_field H7. unfold slice. rewrite drop_0. cbn [Nat.sub].
      apply take_app_le. lia.
    - skip_field H0. skip_field H1. skip_field H2. skip_field H3. skip_field H4. skip_field H5.
      skip_field H6. skip_field H7. skip_field H8. apply (slice_here 8 _ _ H9).
    - skip_field H0. skip_field H1. skip_field H2. skip_field H3. skip_field H4. skip_field H5.
      skip_field H6. skip_field H7. skip_field H8. skip_field H9. apply (slice_here 8 _ _ H10).
    - skip_field H0. skip_field H1. skip_field H2. skip_field H3. skip_field H4. skip_field H5.
      skip_field H6. skip_field H7. skip_field H8. skip_field H9. skip_field H10.
      apply (slice_here 8 _ _ H11).
    - skip_field H0. skip_field H1. skip_field H2. skip_field H3. skip_field H4. skip_field H5.
      skip_field H6. skip_field H7. skip_field H8. skip_field H9. skip_field H10. skip_field H11.
      apply (slice_here 8 _ _ H12).
    - skip_field H0. skip_field H1. skip_field H2. skip_field H3. skip_field H4. skip_field H5.
      skip_field H6. skip_field H7. skip_field H8. skip_field H9. skip_field H10. skip_field H11.
      skip_field H12. apply (slice_here 7 _ _ H13).
  Qed.

  (* print_pqr's re-spacing in terms of the fields *)
  Lemma layout_respace :
    respace laid =
      f0 ++ " " ++ (f1 ++ f2 ++ f3) ++ " " ++ (f4 ++ f5 ++ f6 ++ f7 ++ f8 ++ f9) ++ " "
      ++ f10 ++ " " ++ (f11 ++ f12 ++ f13 ++ tail).
  Proof.
    assert (S1 : slice 0 6 laid = f0) by apply layout_slices.
    assert (S4 : slice 38 46 laid = f10) by apply layout_slices.
    assert (S2 : slice 6 16 laid = f1 ++ f2 ++ f3).
    { unfold laid, slice. cbn [Nat.sub]. drop_field H0. rewrite drop_0.
      take_field H1. take_field H2. now rewrite (take_app_len 4 f3 _ H3). }
    assert (S3 : slice 16 38 laid = f4 ++ f5 ++ f6 ++ f7 ++ f8 ++ f9).
    { unfold laid, slice. cbn [Nat.sub]. drop_field H0. drop_field H1. drop_field H2. drop_field H3.
      rewrite drop_0. take_field H4. take_field H5. take_field H6. take_field H7. take_field H8.
      now rewrite (take_app_len 8 f9 _ H9). }
    assert (S5 : drop 46 laid = f11 ++ f12 ++ f13 ++ tail).
    { unfold laid. drop_field H0. drop_field H1. drop_field H2. drop_field H3. drop_field H4.
      drop_field H5. drop_field H6. drop_field H7. drop_field H8. drop_field H9. drop_field H10.
      apply drop_0. }
    unfold respace. now rewrite S1, S2, S3, S4, S5.
  Qed.
End Layout.

(* ======================================================================== *)
(* 4. default layout: reading the columns back                              *)

Lemma pqr_string_laid cf a tail :
  pqr_string cf a ++ tail =
  laid (take 6 (ljust 6 (a_type a))) (take 5 (rjust 5 (Z_to_string (a_serial a)))) " "
       (name_field (a_name a)) (res_field (a_res_name a)) " "
       (take 1 (ljust 1 (if cf then a_chain a else "")))
       (take 4 (rjust 4 (Z_to_string (a_res_seq a)))) (ins_field (a_ins a))
       (coord_field (a_x a)) (coord_field (a_y a)) (coord_field (a_z a))
       (charge_field (a_charge a)) (radius_field (a_radius a)) tail.
Proof. unfold pqr_string, common_string, laid. rewrite !app_assoc_s. reflexivity. Qed.

Lemma length_charge_field o : String.length (charge_field o) = 8.
Proof. apply length_take_rjust. Qed.

Lemma length_radius_field o : String.length (radius_field o) = 7.
Proof. apply length_take_rjust. Qed.

Lemma num_field_read w s :
  String.length s <= w -> any_char is_ws s = false -> strip (take w (rjust w s)) = s.
Proof. intros H W. rewrite take_rjust_fit by assumption. now apply strip_rpad. Qed.

Theorem fixed_roundtrip cf a :
  fixed_ok cf a = true -> read_fixed (pqr_string cf a) = expected_fixed cf a.
Proof.
  unfold fixed_ok. rewrite !andb_true_iff.
  intros [[[[[[[[[[[Hty Hs] Hn] Hr] Hc] Hq] Hi] Hx] Hy] Hz] Hch] Hrd].
  apply token_ok_spec in Hn as (_ & Hn & Wn).
  apply token_ok_spec in Hr as (_ & Hr & Wr).
  apply token_ok_spec in Hi as (_ & Hi & Wi).
  apply fits_le in Hs, Hq, Hch, Hrd.
  set (c := if cf then a_chain a else "").
  assert (Hc' : String.length c <= 1 /\ any_char is_ws c = false).
  { unfold c. destruct cf; simpl in Hc.
    - apply token_ok_spec in Hc. tauto.
    - split; [simpl; lia | reflexivity]. }
  destruct Hc' as [Hcl Wc].
  rewrite <- (app_empty_r (pqr_string cf a)), pqr_string_laid. fold c.
  destruct (layout_slices _ _ " " _ _ " " _ _ _ _ _ _ _ _ ""
              (length_take_ljust 6 (a_type a))
              (length_take_rjust 5 (Z_to_string (a_serial a))) eq_refl
              (length_name_field (a_name a)) (length_res_field (a_res_name a)) eq_refl
              (length_take_ljust 1 c)
              (length_take_rjust 4 (Z_to_string (a_res_seq a)))
              (length_ins_field (a_ins a) Hi)
              (length_coord_field (a_x a)) (length_coord_field (a_y a))
              (length_coord_field (a_z a))
              (length_charge_field (a_charge a)) (length_radius_field (a_radius a)))
    as (S0 & S1 & S3 & S4 & S6 & S7 & S8 & S9 & S10 & S11 & S12 & S13).
  unfold read_fixed.
  rewrite S0, S1, S3, S4, S6, S7, S8, S9, S10, S11, S12, S13.
  unfold expected_fixed. fold c. f_equal.
  - destruct (type_ok_cases a Hty) as [E|E]; rewrite E; reflexivity.
  - rewrite num_field_read by auto using Z_to_string_no_ws. apply py_int_Z_to_string.
  - destruct (name_field_fit _ Hn) as (k & j & E). rewrite E. now apply strip_padded.
  - destruct (res_field_fit _ Hr) as (k & j & E). rewrite E. now apply strip_padded.
  - rewrite take_ljust_fit by assumption. now apply strip_lpad.
  - rewrite num_field_read by auto using Z_to_string_no_ws. apply py_int_Z_to_string.
  - now apply ins_field_read.
  - rewrite (coord_field_fit _ Hx), strip_rpad by apply fmt_fixed_no_ws. apply plain_decimal_fmt.
  - rewrite (coord_field_fit _ Hy), strip_rpad by apply fmt_fixed_no_ws. apply plain_decimal_fmt.
  - rewrite (coord_field_fit _ Hz), strip_rpad by apply fmt_fixed_no_ws. apply plain_decimal_fmt.
  - unfold charge_field. rewrite num_field_read by auto using opt_fmt4_no_ws.
    f_equal. apply opt_fmt4_parse.
  - unfold radius_field. rewrite num_field_read by auto using opt_fmt4_no_ws.
    f_equal. apply opt_fmt4_parse.
Qed.

(* ======================================================================== *)
(* 5. --whitespace layout: tokens of the re-spaced line                     *)

Inductive piece := Gap (g : string) | Word (s : string).

Fixpoint render (l : list piece) : string :=
  match l with
  | [] => ""
  | Gap g :: r => g ++ render r
  | Word s :: r => s ++ render r
  end.

Fixpoint words (l : list piece) : list string :=
  match l with
  | [] => []
  | Gap _ :: r => words r
  | Word s :: r => s :: words r
  end.

(* the next thing after a word is blank (or the end) *)
Fixpoint gap_next (l : list piece) : Prop :=
  match l with
  | [] => True
  | Gap g :: r => is_empty g = false \/ gap_next r
  | Word _ :: _ => False
  end.

Fixpoint wf (l : list piece) : Prop :=
  match l with
  | [] => True
  | Gap g :: r => all_chars is_ws g = true /\ wf r
  | Word s :: r => any_char is_ws s = false /\ is_empty s = false /\ gap_next r /\ wf r
  end.

Lemma tokens_allws g t : all_chars is_ws g = true -> tokens (g ++ t) = tokens t.
Proof.
  induction g as [|c r IH]; simpl; intros H; [reflexivity|].
  apply andb_true_iff in H as [Hc Hr]. rewrite (tokens_ws_prefix _ _ Hc). now apply IH.
Qed.

Lemma gap_next_ws_head l : wf l -> gap_next l -> ws_head (render l).
Proof.
  induction l as [|[g|s] r IH]; simpl; intros W G; [exact I | | contradiction].
  destruct W as [Wg Wr]. destruct g as [|c g'].
  - simpl. destruct G as [G|G]; [discriminate | now apply IH].
  - simpl in *. apply andb_true_iff in Wg. tauto.
Qed.

Theorem tokens_render l : wf l -> tokens (render l) = words l.
Proof.
  induction l as [|[g|s] r IH]; simpl; intros W.
  - reflexivity.
  - destruct W as [Wg Wr]. rewrite (tokens_allws _ _ Wg). now apply IH.
  - destruct W as (Ws & Es & G & Wr).
    rewrite (tokens_word_then _ _ Ws Es (gap_next_ws_head _ Wr G)). now rewrite IH.
Qed.

Lemma blanks_ws k : all_chars is_ws (repeat_char sp k) = true.
Proof. now apply all_chars_repeat. Qed.

Lemma blanks_nonempty k : 1 <= k -> is_empty (repeat_char sp k) = false.
Proof. destruct k; [lia | reflexivity]. Qed.

(* from_pqr_line on the two token shapes the writer produces *)
Lemma from_tokens_nochain line ty S N R Q X Y Z C Rd serial q px py pz pc pr :
  ty = "ATOM" \/ ty = "HETATM" ->
  tokens line = [ty; S; N; R; Q; X; Y; Z; C; Rd] ->
  py_int S = Some serial -> py_int Q = Some q ->
  plain_decimal X = Some px -> plain_decimal Y = Some py -> plain_decimal Z = Some pz ->
  plain_decimal C = Some pc -> plain_decimal Rd = Some pr ->
  from_pqr_line line = PAtom (mkpatom ty serial N R None q None px py pz pc pr).
Proof.
  intros Hty Ht HS HQ HX HY HZ HC HR.
  unfold from_pqr_line. rewrite Ht.
  assert (E : mem_str ty skip_words = false /\ mem_str ty ["ATOM"; "HETATM"] = true)
    by (destruct Hty as [-> | ->]; split; reflexivity).
  destruct E as [E1 E2]. rewrite E1, E2.
  unfold parse_fields. rewrite HS, HQ. unfold parse_tail, pop_float.
  now rewrite (py_float_plain _ _ HX), (py_float_plain _ _ HY), (py_float_plain _ _ HZ),
    (py_float_plain _ _ HC), (py_float_plain _ _ HR).
Qed.

Lemma from_tokens_chain line ty S N R Ch Q X Y Z C Rd serial q px py pz pc pr :
  ty = "ATOM" \/ ty = "HETATM" ->
  tokens line = [ty; S; N; R; Ch; Q; X; Y; Z; C; Rd] ->
  py_int S = Some serial -> py_int Ch = None -> py_int Q = Some q ->
  plain_decimal X = Some px -> plain_decimal Y = Some py -> plain_decimal Z = Some pz ->
  plain_decimal C = Some pc -> plain_decimal Rd = Some pr ->
  from_pqr_line line = PAtom (mkpatom ty serial N R (Some Ch) q None px py pz pc pr).
Proof.
  intros Hty Ht HS HCh HQ HX HY HZ HC HR.
  unfold from_pqr_line. rewrite Ht.
  assert (E : mem_str ty skip_words = false /\ mem_str ty ["ATOM"; "HETATM"] = true)
    by (destruct Hty as [-> | ->]; split; reflexivity).
  destruct E as [E1 E2]. rewrite E1, E2.
  unfold parse_fields. rewrite HS, HCh, HQ. unfold parse_tail, pop_float.
  now rewrite (py_float_plain _ _ HX), (py_float_plain _ _ HY), (py_float_plain _ _ HZ),
    (py_float_plain _ _ HC), (py_float_plain _ _ HR).
Qed.

Lemma py_int_nondigit1 c : is_digit c = false -> py_int (String c "") = None.
Proof.
  intros H. unfold py_int, sign_split.
  destruct (c =? "-")%char; [reflexivity|].
  destruct (c =? "+")%char; [reflexivity|].
  simpl. rewrite H, andb_false_r. reflexivity.
Qed.

Lemma type_field_pad a :
  type_ok a = true ->
  take 6 (ljust 6 (a_type a)) = a_type a ++ repeat_char sp (6 - String.length (a_type a)) /\
  any_char is_ws (a_type a) = false /\ is_empty (a_type a) = false.
Proof.
  intros H. destruct (type_ok_cases a H) as [E|E]; rewrite E; repeat split; reflexivity.
Qed.
