(* Proofs for C05 (atoms added by pdb2pqr have template-consistent bonded
   geometry), over the real-number instance of Model/Quatfit.v and the
   generated tables.  Reuses Proofs/Quatfit.v (C15) and Proofs/Moves.v (C04). *)
From Coq Require Import Reals List ZArith PArith Bool String Lra Lia Nsatz Psatz.
From PV Require Import Model.ForceField Model.Topology Model.Moves Model.Quatfit Model.Placement.
From PV Require Import Proofs.Moves Proofs.Quatfit.
From PV Require Import Generated.Topology Generated.MovesTable Generated.C05Table.
Import ListNotations.
Local Open Scope R_scope.

(* ------------------------------------------------------------------ *)
(* rigid images keep distances and angles                               *)

Lemma rigid_sub : forall (M : Rmat3) (T x y : Rpt),
  psub RA (rigid M T x) (rigid M T y) = rot1 RA M (psub RA x y).
Proof.
  intros M T x y. unfold rigid. rewrite rot1_sub.
  destruct (rot1 RA M x) as [[a0 a1] a2], (rot1 RA M y) as [[b0 b1] b2], T as [[t0 t1] t2].
  unf. apply pt_eq; ring.
Qed.

Lemma rigid_dist2 : forall (M : Rmat3) (T x y : Rpt), orthonormal_rows M ->
  dist2 (rigid M T x) (rigid M T y) = dist2 x y.
Proof.
  intros M T x y H. unfold dist2. rewrite rigid_sub. apply rot_preserves_dot; exact H.
Qed.

Lemma rigid_angle_dot : forall (M : Rmat3) (T x y z : Rpt), orthonormal_rows M ->
  dot3 RA (psub RA (rigid M T x) (rigid M T y)) (psub RA (rigid M T z) (rigid M T y))
  = dot3 RA (psub RA x y) (psub RA z y).
Proof.
  intros M T x y z H. rewrite !rigid_sub. apply rot_preserves_dot; exact H.
Qed.

(* 3-point (n-point) fit: the placed atom has EXACTLY the template's distance to
   every fitted neighbour (so the template bond length to its parent) and the
   template's angle at every fitted neighbour d towards every other one d'
   (numerator d.d' of the cosine and both side lengths agree) *)
Theorem fit3_exact_geometry : forall (defs : list Rpt) (p : Rquat) (T atom : Rpt),
  qnorm2 RA p = 1 -> noncollinear defs ->
  let image := rigid (q2mat RA p) T in
  let refs := map image defs in
  let defrel := snd (center RA defs) in
  let refrel := snd (center RA refs) in
  eigen_contract defrel refrel (qtrfit_quat RA NROT defrel refrel) ->
  exists X, find_coordinates RA (List.length defs) refs defs atom = Some X /\
    (forall d, dist2 X (image d) = dist2 atom d) /\
    (forall d d', dist2 (image d') (image d) = dist2 d' d /\
                  dot3 RA (psub RA X (image d)) (psub RA (image d') (image d))
                  = dot3 RA (psub RA atom d) (psub RA d' d)).
Proof.
  intros defs p T atom Hp Hnc image refs defrel refrel Hc.
  destruct (fit_exact_image defs p T atom Hp Hnc Hc) as [_ Hfind].
  pose proof (proj1 (q2mat_rotation p Hp)) as Hrows.
  exists (image atom). split; [exact Hfind|]. split.
  - intro d. apply rigid_dist2; exact Hrows.
  - intros d d'. split; [apply rigid_dist2 | apply rigid_angle_dot]; exact Hrows.
Qed.

(* ------------------------------------------------------------------ *)
(* axis rotations through the parent                                    *)

Lemma dot_polar : forall x a o : Rpt,
  dot3 RA (psub RA x a) (psub RA o a) = (dist2 x a + dist2 o a - dist2 x o) / 2.
Proof.
  intros [[x0 x1] x2] [[a0 a1] a2] [[o0 o1] o2]. unfold dist2. unf. field.
Qed.

(* every optimisation move (set_dihedral_angle, rotate_tetrahedral by any angle,
   the trial rotations of Alcoholic/Water) is rotate_about an axis o -> a through
   the parent a: distance to the parent a, distance to the other axis atom o, and
   therefore the bond angle p - a - o are unchanged, for ALL points and angles *)
Theorem rotation_keeps_parent_geometry : forall (c s : R) (o a p : Rpt),
  dot3 RA (psub RA a o) (psub RA a o) <> 0 -> c * c + s * s = 1 ->
  let p' := rotate_about RA c s o a p in
  dist2 p' a = dist2 p a /\ dist2 p' o = dist2 p o /\
  dot3 RA (psub RA p' a) (psub RA o a) = dot3 RA (psub RA p a) (psub RA o a) /\
  (forall q, dist2 p' (rotate_about RA c s o a q) = dist2 p q).
Proof.
  intros c s o a p Hne Hcs p'.
  destruct (set_dihedral_distances c s o a p p 0 Hne Hcs) as (Ho & Ha & _ & _).
  fold p' in Ho, Ha.
  split; [exact Ha|]. split; [exact Ho|]. split.
  - rewrite !dot_polar. rewrite Ha, Ho. reflexivity.
  - intro q. apply rotate_about_isometry; assumption.
Qed.

Lemma rotate_about_shift : forall (c s : R) (o a h : Rpt),
  dist2 (rotate_about RA c s o a h) h
  = dist2 (rot1 RA (chi_mat RA (normalize RA (psub RA a o)) c s) (psub RA h o)) (psub RA h o).
Proof.
  intros c s o a h. unfold rotate_about.
  generalize (rot1 RA (chi_mat RA (normalize RA (psub RA a o)) c s) (psub RA h o)).
  intros [[u0 u1] u2]. destruct h as [[h0 h1] h2], o as [[o0 o1] o2]. unfold dist2. unf. ring.
Qed.

(* rebuild_tetrahedral: the existing hydrogen h rotated by +-120 degrees about the
   heavy-heavy bond o -> a (a = the parent) keeps its bond length to a and its
   distance to o (bond angle h - a - o), and lands at squared distance 3 rho^2 from
   h, rho = distance of h from the axis; so the new atom never coincides with the
   hydrogen it was copied from unless h lies ON the axis *)
Theorem tetra_120_about : forall (c s : R) (o a h : Rpt),
  dot3 RA (psub RA a o) (psub RA a o) <> 0 -> c = - (1 / 2) -> s * s = 3 / 4 ->
  let h' := rotate_about RA c s o a h in
  let l := normalize RA (psub RA a o) in
  let rho2 := dot3 RA (psub RA h o) (psub RA h o) - dot3 RA l (psub RA h o) * dot3 RA l (psub RA h o) in
  dist2 h' a = dist2 h a /\ dist2 h' o = dist2 h o /\
  dist2 h' h = 3 * rho2 /\ (rho2 > 0 -> h' <> h).
Proof.
  intros c s o a h Hne Hc Hs h' l rho2.
  assert (Hcs : c * c + s * s = 1) by (subst c; lra).
  destruct (rotation_keeps_parent_geometry c s o a h Hne Hcs) as (Ha & Ho & _ & _).
  fold h' in Ha, Ho.
  assert (Hl : dot3 RA l l = 1) by (apply normalize_unit; exact Hne).
  assert (H3 : dist2 h' h = 3 * rho2).
  { unfold h'. rewrite rotate_about_shift. fold l.
    destruct (tetra_120 l (psub RA h o) c s Hl Hc Hs) as (_ & _ & _ & H). exact H. }
  split; [exact Ha|]. split; [exact Ho|]. split; [exact H3|].
  intros Hpos Heq. rewrite Heq in H3.
  assert (Hz : dist2 h h = 0) by (destruct h as [[h0 h1] h2]; unfold dist2; unf; ring).
  lra.
Qed.

(* ------------------------------------------------------------------ *)
(* rebuild_tetrahedral with two existing hydrogens: the +120 / +240 choice  *)

Lemma chi_compose : forall (l v : Rpt) (c s : R), dot3 RA l l = 1 -> c * c + s * s = 1 ->
  rot1 RA (chi_mat RA l c s) (rot1 RA (chi_mat RA l c s) v)
  = rot1 RA (chi_mat RA l (c * c - s * s) (2 * c * s)) v.
Proof.
  intros [[a b] d] [[v0 v1] v2] c s Hl Hcs. unf. apply pt_eq; nsatz.
Qed.

Lemma psub_padd : forall u o : Rpt, psub RA (padd RA u o) o = u.
Proof. intros [[u0 u1] u2] [[o0 o1] o2]. unf. apply pt_eq; ring. Qed.

Lemma dist2_padd : forall u w o : Rpt, dist2 (padd RA u o) (padd RA w o) = dist2 u w.
Proof. intros [[u0 u1] u2] [[w0 w1] w2] [[o0 o1] o2]. unfold dist2. unf. ring. Qed.

Lemma dist2_padd_l : forall u h o : Rpt, dist2 (padd RA u o) h = dist2 u (psub RA h o).
Proof. intros [[u0 u1] u2] [[h0 h1] h2] [[o0 o1] o2]. unfold dist2. unf. ring. Qed.

Lemma dist2_sym : forall u w : Rpt, dist2 u w = dist2 w u.
Proof. intros [[u0 u1] u2] [[w0 w1] w2]. unfold dist2. unf. ring. Qed.

Lemma dist2_self : forall u : Rpt, dist2 u u = 0.
Proof. intros [[u0 u1] u2]. unfold dist2. unf. ring. Qed.

(* the three positions h0, n1 = rot(h0), n2 = rot(n1) are pairwise at squared distance 3 rho^2 *)
Lemma tetra_triangle : forall (c s : R) (o a h0 : Rpt),
  dot3 RA (psub RA a o) (psub RA a o) <> 0 -> c = - (1 / 2) -> s * s = 3 / 4 ->
  let n1 := rotate_about RA c s o a h0 in
  let n2 := rotate_about RA c s o a n1 in
  let l := normalize RA (psub RA a o) in
  let rho2 := dot3 RA (psub RA h0 o) (psub RA h0 o) - dot3 RA l (psub RA h0 o) * dot3 RA l (psub RA h0 o) in
  dist2 n1 h0 = 3 * rho2 /\ dist2 n2 h0 = 3 * rho2 /\ dist2 n2 n1 = 3 * rho2 /\
  dist2 n1 a = dist2 h0 a /\ dist2 n2 a = dist2 h0 a /\ dist2 n1 o = dist2 h0 o /\ dist2 n2 o = dist2 h0 o.
Proof.
  intros c s o a h0 Hne Hc Hs n1 n2 l rho2.
  assert (Hcs : c * c + s * s = 1) by (subst c; lra).
  assert (Hl : dot3 RA l l = 1) by (apply normalize_unit; exact Hne).
  destruct (tetra_120_about c s o a h0 Hne Hc Hs) as (Ha1 & Ho1 & H1 & _).
  fold n1 in Ha1, Ho1, H1. fold l in H1. fold rho2 in H1.
  destruct (tetra_120_about c s o a n1 Hne Hc Hs) as (Ha2 & Ho2 & H21 & _).
  fold n2 in Ha2, Ho2, H21. fold l in H21.
  set (v := psub RA h0 o) in *.
  assert (Hn1 : psub RA n1 o = rot1 RA (chi_mat RA l c s) v).
  { unfold n1, rotate_about. fold l. fold v. apply psub_padd. }
  destruct (tetra_120 l v c s Hl Hc Hs) as (Hvv & Hlv & _ & _).
  rewrite Hn1, Hvv, Hlv in H21. fold rho2 in H21.
  assert (H20 : dist2 n2 h0 = 3 * rho2).
  { unfold n2, rotate_about at 1. fold l. rewrite Hn1. rewrite dist2_padd_l. fold v.
    rewrite chi_compose by assumption.
    assert (Hc2 : c * c - s * s = - (1 / 2)) by (subst c; lra).
    assert (Hs2 : (2 * c * s) * (2 * c * s) = 3 / 4).
    { replace ((2 * c * s) * (2 * c * s)) with (4 * (c * c) * (s * s)) by ring. rewrite Hs. subst c. lra. }
    destruct (tetra_120 l v (c * c - s * s) (2 * c * s) Hl Hc2 Hs2) as (_ & _ & _ & H). exact H. }
  repeat split; try assumption.
  - exact (eq_trans Ha2 Ha1).
  - exact (eq_trans Ho2 Ho1).
Qed.

(* the model's choice (threshold thr, 0.1 A in the code): if the second existing hydrogen
   h1 occupies one of the two images of h0 (the group is 120 degrees apart, either sense)
   and the images are more than thr apart (3 rho^2 > thr^2), the chosen position is at squared
   distance 3 rho^2 from BOTH existing hydrogens - it never coincides with either - and keeps
   the bond length to the parent a and the distance to the axis atom o (bond angle) *)
Theorem tetra3_choice : forall (thr c s : R) (o a h0 h1 : Rpt),
  dot3 RA (psub RA a o) (psub RA a o) <> 0 -> c = - (1 / 2) -> s * s = 3 / 4 ->
  let n1 := rotate_about RA c s o a h0 in
  let n2 := rotate_about RA c s o a n1 in
  let l := normalize RA (psub RA a o) in
  let rho2 := dot3 RA (psub RA h0 o) (psub RA h0 o) - dot3 RA l (psub RA h0 o) * dot3 RA l (psub RA h0 o) in
  0 < thr -> thr * thr < 3 * rho2 -> (h1 = n1 \/ h1 = n2) ->
  let x := rebuild3 RA thr c s o a h0 h1 in
  dist2 x h0 = 3 * rho2 /\ dist2 x h1 = 3 * rho2 /\ x <> h0 /\ x <> h1 /\
  dist2 x a = dist2 h0 a /\ dist2 x o = dist2 h0 o.
Proof.
  intros thr c s o a h0 h1 Hne Hc Hs n1 n2 l rho2 Hthr Hbig Hh1 x.
  destruct (tetra_triangle c s o a h0 Hne Hc Hs) as (T10' & T20' & T21' & A1' & A2' & O1' & O2').
  assert (T10 : dist2 n1 h0 = 3 * rho2) by exact T10'.
  assert (T20 : dist2 n2 h0 = 3 * rho2) by exact T20'.
  assert (T21 : dist2 n2 n1 = 3 * rho2) by exact T21'.
  assert (A1 : dist2 n1 a = dist2 h0 a) by exact A1'.
  assert (A2 : dist2 n2 a = dist2 h0 a) by exact A2'.
  assert (O1 : dist2 n1 o = dist2 h0 o) by exact O1'.
  assert (O2 : dist2 n2 o = dist2 h0 o) by exact O2'.
  clear T10' T20' T21' A1' A2' O1' O2'.
  assert (Hpos : 0 < 3 * rho2) by nra.
  assert (Hx : x = if Rltb thr (sqrt (dist2 h1 n1)) then n1 else n2) by reflexivity.
  unfold Rltb in Hx.
  clearbody x.
  assert (Hne_of : forall p q : Rpt, dist2 p q = 3 * rho2 -> p <> q).
  { intros p q Hd Heq. rewrite Heq, dist2_self in Hd. lra. }
  destruct Hh1 as [Hh1 | Hh1]; rewrite Hh1 in *.
  - (* h1 sits on n1: distance 0, not > thr: n2 is taken *)
    rewrite dist2_self, sqrt_0 in Hx.
    destruct (Rlt_dec thr 0) as [Hlt | _]; [lra|]. rewrite Hx.
    repeat split; try assumption; apply Hne_of; assumption.
  - (* h1 sits on n2: |n2 - n1| = sqrt(3 rho^2) > thr: n1 is taken *)
    rewrite T21 in Hx.
    assert (Hgt : thr < sqrt (3 * rho2)).
    { rewrite <- (sqrt_square thr) at 1 by lra. apply sqrt_lt_1_alt. split; nra. }
    destruct (Rlt_dec thr (sqrt (3 * rho2))) as [_ | Hn]; [|contradiction]. rewrite Hx.
    assert (T12 : dist2 n1 n2 = 3 * rho2) by (rewrite dist2_sym; exact T21).
    repeat split; try assumption; apply Hne_of; assumption.
Qed.

(* ------------------------------------------------------------------ *)
(* the 1 A placement (water hydrogen / lone pair with no bonds)          *)

Theorem unit_placement : forall o from_ to_ : Rpt,
  dot3 RA (psub RA to_ from_) (psub RA to_ from_) <> 0 ->
  dist2 (unit_place RA o from_ to_) o = 1.
Proof.
  intros o from_ to_ Hne.
  pose proof (normalize_unit (psub RA to_ from_) Hne) as Hu.
  unfold unit_place, unit_place_with.
  unfold normalize, normalize_with in Hu.
  set (n := norm3 RA (psub RA to_ from_)) in *.
  destruct (psub RA to_ from_) as [[v0 v1] v2]. destruct o as [[o0 o1] o2].
  clearbody n. unfold dist2. unf.
  replace (v0 / n + o0 - o0) with (v0 / n) by ring.
  replace (v1 / n + o1 - o1) with (v1 / n) by ring.
  replace (v2 / n + o2 - o2) with (v2 / n) by ring.
  exact Hu.
Qed.

(* ------------------------------------------------------------------ *)
(* neighbour selection of the n-point fit                                *)

Local Close Scope R_scope.

Lemma take_present_spec : forall (present : id -> bool) (n : nat) (l : list id),
  take_present present n l = firstn n (filter present l).
Proof.
  intros present n l. revert n. induction l as [|b t IH]; intros n.
  - destruct n; reflexivity.
  - destruct n as [|n']; [reflexivity|]. cbn [take_present filter].
    destruct (present b); cbn [firstn]; [rewrite IH; reflexivity | apply IH].
Qed.

Lemma firstn_In : forall (X : Type) (n : nat) (l : list X) (x : X), In x (firstn n l) -> In x l.
Proof.
  intros X n. induction n as [|n IH]; intros l x H; [destruct H|].
  destruct l as [|a t]; [destruct H|]. cbn [firstn] in H. destruct H as [-> | H]; [left; reflexivity | right; apply IH; exact H].
Qed.

(* whatever the bond graph, the presence predicate and the atom: if a fit is made it uses exactly
   three names, each of them a present atom from get_nearest_bonds, namely the FIRST three present
   ones; with an absent peptide pointer the pseudo atom is never among them *)
Theorem fit_neighbours_sound : forall (g : graph) (present : id -> bool) (x : id) (l : list id),
  fit_names g present x = Some l ->
  List.length l = 3%nat /\
  (forall b, In b l -> In b (nearest_bonds g x) /\ present b = true) /\
  l = firstn 3 (filter present (nearest_bonds g x)).
Proof.
  intros g present x l H. unfold fit_names in H.
  destruct (Nat.eqb (List.length (take_present present 3 (nearest_bonds g x))) 3) eqn:E; [|discriminate].
  injection H as <-. apply Nat.eqb_eq in E. split; [exact E|]. split.
  - intros b Hb. rewrite take_present_spec in Hb. apply firstn_In in Hb. apply filter_In in Hb. exact Hb.
  - apply take_present_spec.
Qed.

Corollary fit_skips_absent_pointer : forall (g : graph) (np1 cm1 : id) (has_pn has_pc : bool) (atoms : list id) (x : id) (l : list id),
  fit_names g (present_in np1 cm1 has_pn has_pc atoms) x = Some l ->
  (has_pn = false -> ~ In np1 l) /\ (has_pc = false -> np1 <> cm1 -> ~ In cm1 l).
Proof.
  intros g np1 cm1 has_pn has_pc atoms x l H.
  destruct (fit_neighbours_sound _ _ _ _ H) as (_ & Hs & _).
  split.
  - intros Hf Hin. destruct (Hs _ Hin) as [_ Hp]. unfold present_in in Hp. rewrite Pos.eqb_refl in Hp. congruence.
  - intros Hf Hne Hin. destruct (Hs _ Hin) as [_ Hp]. unfold present_in in Hp.
    destruct (Pos.eqb cm1 np1) eqn:E; [apply Pos.eqb_eq in E; congruence|]. rewrite Pos.eqb_refl in Hp. congruence.
Qed.

Local Open Scope R_scope.

(* ------------------------------------------------------------------ *)
(* generated obligations                                                *)

Local Close Scope R_scope.

Definition exact_pair (nt ct : bool) (p : tres * (id * id * id * id)) : bool :=
  exact_dihedral hyd nm nt ct (tgraph (fst p)) (snd p).

Definition exact_all_flags (p : tres * (id * id * id * id)) : bool :=
  exact_pair false false p && exact_pair true false p && exact_pair false true p && exact_pair true true p.

Definition orphan_pair (nt ct : bool) (p : tres * (id * id * id * id)) : bool :=
  rank_moves_orphan_h hyd nm nt ct (tgraph (fst p)) (snd p).

Lemma all_atom_subtree_table_raw : forallb exact_all_flags pairs = true.
Proof. vm_compute. reflexivity. Qed.

(* lifted: for every (template, dihedral) pair of the topology and all terminus
   flags the CURRENT selection is exactly the component beyond the pivot bond *)
Theorem all_atom_subtree_table : forall p, In p pairs -> forall nt ct : bool,
  exact_dihedral hyd nm nt ct (tgraph (fst p)) (snd p) = true.
Proof.
  intros p Hp nt ct.
  pose proof (proj1 (forallb_forall _ _) all_atom_subtree_table_raw p Hp) as H.
  unfold exact_all_flags, exact_pair in H. rewrite !andb_true_iff in H.
  destruct H as [[[H1 H2] H3] H4]. destruct nt, ct; assumption.
Qed.

(* what the boolean says, for ANY graph and selection: a selected hydrogen's
   bonded atoms are all selected or the pivot - hydrogens move only with their
   parents - and the selection is the component beyond the pivot bond *)
Theorem exact_subtree_meaning : forall (hy : list id) (g : graph) (b c : id) (M : list id),
  exact_subtree hy g b c M = true ->
  (forall h, In h M -> In h hy -> forall p, In p (nbrs g h) -> In p M \/ p = c) /\
  (forall a, In a M <-> In a (beyond g b c)) /\ ~ In b M /\ ~ In c M.
Proof.
  intros hy g b c M H. unfold exact_subtree in H. rewrite !andb_true_iff in H.
  destruct H as [[[[Hsame Hb] Hc] Hf] _].
  unfold same_set in Hsame. apply andb_true_iff in Hsame as [S1 S2].
  unfold subset in S1, S2. rewrite forallb_forall in S1, S2.
  assert (Hiff : forall a, In a M <-> In a (beyond g b c)).
  { intro a. split; intro Ha; [apply mem_In, S1 | apply mem_In, S2]; exact Ha. }
  repeat split.
  - intros h Hh Hhy p Hp. unfold hyd_follow in Hf. rewrite forallb_forall in Hf.
    specialize (Hf h Hh). apply orb_true_iff in Hf as [Hf | Hf].
    + apply negb_true_iff in Hf. apply mem_In in Hhy. congruence.
    + rewrite forallb_forall in Hf. specialize (Hf p Hp).
      apply orb_true_iff in Hf as [Hf | Hf]; [left; now apply mem_In | right; now apply Pos.eqb_eq in Hf].
  - apply Hiff.
  - apply Hiff.
  - intro Hin. apply negb_true_iff in Hb. apply Hiff in Hin. apply mem_In in Hin. congruence.
  - intro Hin. apply negb_true_iff in Hc. apply mem_In in Hin. congruence.
Qed.

(* the rank-only selection used before fix a31aee4 moved hydrogens without their
   parent (e.g. ILE chi2 carried the CG2 methyl hydrogens) *)
Theorem rank_selection_refuted :
  existsb (orphan_pair false false) pairs = true /\
  Nat.leb 100 (List.length (filter (fun p => orphan_pair false false p || orphan_pair true false p ||
                                              orphan_pair false true p || orphan_pair true true p) pairs)) = true.
Proof. vm_compute. split; reflexivity. Qed.

(* template geometry: every atom of every template atoms are placed from has a
   bonded parent in the template, all its template bonds are 0.90 .. 1.90 A long,
   and no other template atom lies within 0.80 A - except the listed ones *)
Definition geom_exceptions : list (id * id) :=
  [(id_of "NPRO"%string, id_of "H3"%string); (id_of "NPRO"%string, id_of "CD"%string)].

Definition gtempl_ok (t : gtempl) : bool :=
  forallb (fun x => existsb (fun e => Pos.eqb (fst e) (fst t) && Pos.eqb (snd e) (fst (fst x))) geom_exceptions
                    || gatom_ok 810000000000 3610000000000 640000000000 t x) (snd t).

Lemma template_geometry_table_raw : forallb gtempl_ok gtemplates = true.
Proof. vm_compute. reflexivity. Qed.

Theorem template_geometry_table : forall t x, In t gtemplates -> In x (snd t) ->
  ~ In (fst t, fst (fst x)) geom_exceptions ->
  gatom_ok 810000000000 3610000000000 640000000000 t x = true.
Proof.
  intros t x Ht Hx Hex.
  pose proof (proj1 (forallb_forall _ _) template_geometry_table_raw t Ht) as H.
  unfold gtempl_ok in H. rewrite forallb_forall in H. specialize (H x Hx).
  apply orb_true_iff in H as [H | H]; [|exact H].
  exfalso. apply Hex. apply existsb_exists in H as [e [He1 He2]].
  apply andb_true_iff in He2 as [E1 E2]. apply Pos.eqb_eq in E1, E2.
  destruct e as [e1 e2]. cbn [fst snd] in E1, E2. subst. exact He1.
Qed.

(* non-vacuity witnesses *)
Lemma c05_nonvacuous :
  Nat.leb 100 (List.length pairs) = true /\ Nat.leb 100 (List.length gtemplates) = true /\
  existsb (fun p => Nat.leb 3 (List.length (beyond (tgraph (fst p)) (let '(_, b, _, _) := snd p in b)
                                                    (let '(_, _, c, _) := snd p in c)))) pairs = true /\
  existsb (fun t => Pos.eqb (fst t) (id_of "WAT"%string)) gtemplates = true.
Proof. vm_compute. repeat split; reflexivity. Qed.
