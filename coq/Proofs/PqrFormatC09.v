(* Proofs/PqrFormatC09.v - printing-side lemmas of C09 over C08's string model
   (Model/PqrFormat.v): what --keep-chain, the --ffout renaming and --whitespace
   can and cannot change in an atom line and in the atom-line sequence.

   Depends only on the stable interface of Proofs/PqrFormat.v
   (chainflag_only_col22, respace_keeps_numeric_tokens, order_preserved,
   field-length lemmas); [respace] is never unfolded here. *)
From Coq Require Import String List ZArith Arith Lia Bool.
From PV Require Import Lib.Strings Lib.Decimal Model.PqrFormat Proofs.PqrFormat.
Import ListNotations.
Local Open Scope string_scope.

(* the atom after Biomolecule.apply_name_scheme: name and res_name replaced *)
Definition with_names (n r : string) (a : atom) : atom :=
  mkatom (a_type a) (a_serial a) n r (a_chain a) (a_res_seq a) (a_ins a)
         (a_x a) (a_y a) (a_z a) (a_charge a) (a_radius a).

(* a renaming in the sense of the --ffout stage: per atom, new names or none *)
Definition rename_with (f : atom -> option (string * string)) (a : atom) : atom :=
  match f a with
  | Some (r, n) => with_names n r a
  | None => a
  end.

Lemma drop_drop n : forall m s, drop n (drop m s) = drop (m + n) s.
Proof.
  induction m as [|m IH]; intros s.
  - now rewrite drop_0.
  - destruct s as [|c s]; cbn [drop Nat.add].
    + destruct n; reflexivity.
    + apply IH.
Qed.

Lemma take_take n m s : n <= m -> take n (take m s) = take n s.
Proof.
  revert m s. induction n as [|n IH]; intros m s H.
  - now rewrite !take_0.
  - destruct m as [|m]; [lia|]. destruct s as [|c s]; cbn [take]; [reflexivity|].
    f_equal. apply IH. lia.
Qed.

(* ---- --keep-chain ------------------------------------------------------- *)

Lemma keep_chain_cols a :
  take 21 (pqr_string true a) = take 21 (pqr_string false a)
  /\ drop 22 (pqr_string true a) = drop 22 (pqr_string false a).
Proof.
  destruct (chainflag_only_col22 a) as (pre & c & post & Hp & Hc & E1 & E2).
  rewrite E1, E2. split.
  - now rewrite !(take_app_len 21 pre _ Hp).
  - rewrite !(drop_app_ge 22 21 pre _ Hp) by lia. cbn [Nat.sub].
    rewrite (drop_app_len 1 c post Hc).
    now rewrite (drop_app_len 1 " " post eq_refl).
Qed.

Lemma keep_chain_numbers cf1 cf2 a : drop 30 (pqr_string cf1 a) = drop 30 (pqr_string cf2 a).
Proof.
  destruct (keep_chain_cols a) as [_ H].
  change 30 with (22 + 8). rewrite <- !drop_drop.
  destruct cf1, cf2; try reflexivity; [now rewrite H | now rewrite <- H].
Qed.

(* ---- --ffout renaming --------------------------------------------------- *)

Definition line_head (a : atom) : string :=
  take 6 (ljust 6 (a_type a)) ++ take 5 (rjust 5 (Z_to_string (a_serial a))) ++ " ".

Definition line_tail (cf : bool) (a : atom) : string :=
  " " ++ take 1 (ljust 1 (if cf then a_chain a else ""))
  ++ take 4 (rjust 4 (Z_to_string (a_res_seq a)))
  ++ ins_field (a_ins a)
  ++ coord_field (a_x a) ++ coord_field (a_y a) ++ coord_field (a_z a)
  ++ charge_field (a_charge a) ++ radius_field (a_radius a).

Lemma pqr_string_parts cf a :
  pqr_string cf a = line_head a ++ (name_field (a_name a) ++ res_field (a_res_name a)) ++ line_tail cf a.
Proof. unfold pqr_string, common_string, line_head, line_tail. rewrite !app_assoc_s. reflexivity. Qed.

Lemma length_line_head a : String.length (line_head a) = 12.
Proof. unfold line_head. now rewrite !length_app, length_take_ljust, length_take_rjust. Qed.

Lemma length_names n r : String.length (name_field n ++ res_field r) = 8.
Proof. now rewrite length_app, length_name_field, length_res_field. Qed.

(* the renaming touches columns 13-20 only *)
Lemma rename_cols cf a n r :
  take 12 (pqr_string cf (with_names n r a)) = take 12 (pqr_string cf a)
  /\ drop 20 (pqr_string cf (with_names n r a)) = drop 20 (pqr_string cf a).
Proof.
  rewrite !pqr_string_parts.
  change (line_head (with_names n r a)) with (line_head a).
  change (line_tail cf (with_names n r a)) with (line_tail cf a).
  cbn [with_names a_name a_res_name].
  split.
  - now rewrite !(take_app_len 12 _ _ (length_line_head a)).
  - rewrite !(drop_app_ge 20 12 _ _ (length_line_head a)) by lia. cbn [Nat.sub].
    now rewrite !(drop_app_len 8 _ _ (length_names _ _)).
Qed.

Lemma rename_with_cols cf f a :
  take 12 (pqr_string cf (rename_with f a)) = take 12 (pqr_string cf a)
  /\ drop 20 (pqr_string cf (rename_with f a)) = drop 20 (pqr_string cf a).
Proof.
  unfold rename_with. destruct (f a) as [[r n]|]; [apply rename_cols | split; reflexivity].
Qed.

Lemma rename_with_serial f k a :
  exists g, with_serial k (rename_with f a) = rename_with g (with_serial k a).
Proof.
  unfold rename_with. destruct (f a) as [[r n]|].
  - exists (fun _ => Some (r, n)). reflexivity.
  - exists (fun _ => None). reflexivity.
Qed.

Lemma rename_with_chain f a : a_chain (rename_with f a) = a_chain a.
Proof. unfold rename_with. destruct (f a) as [[r n]|]; reflexivity. Qed.

(* one atom line: any combination of --keep-chain and renaming leaves the
   numeric columns (31 to the end: x y z charge radius) untouched *)
Lemma options_keep_numbers_atom cf1 cf2 f a :
  drop 30 (pqr_string cf1 (rename_with f a)) = drop 30 (pqr_string cf2 a).
Proof.
  destruct (rename_with_cols cf1 f a) as [_ H].
  change 30 with (20 + 10). rewrite <- (drop_drop 10 20 (pqr_string cf1 (rename_with f a))), H.
  rewrite drop_drop. apply keep_chain_numbers.
Qed.

(* ... and the record type and serial columns (1-11) too *)
Lemma options_keep_head_atom cf1 cf2 f a :
  take 11 (pqr_string cf1 (rename_with f a)) = take 11 (pqr_string cf2 a).
Proof.
  destruct (rename_with_cols cf1 f a) as [H _].
  rewrite <- (take_take 11 12) by lia. rewrite H, take_take by lia.
  destruct (keep_chain_cols a) as [K _].
  rewrite <- (take_take 11 21 (pqr_string cf1 a)), <- (take_take 11 21 (pqr_string cf2 a)) by lia.
  destruct cf1, cf2; try reflexivity; [now rewrite K | now rewrite <- K].
Qed.

(* ---- whole files -------------------------------------------------------- *)

Lemma numbered_options cf1 cf2 f l : forall i,
  map (drop 30) (numbered cf1 i (map (rename_with f) l)) = map (drop 30) (numbered cf2 i l)
  /\ map (take 11) (numbered cf1 i (map (rename_with f) l)) = map (take 11) (numbered cf2 i l).
Proof.
  induction l as [|a r IH]; intros i; [split; reflexivity|].
  destruct (IH (S i)) as [IH1 IH2].
  destruct (rename_with_serial f (Z.of_nat i + 1) a) as [g Eg].
  cbn [map numbered]. rewrite Eg, IH1, IH2. split; f_equal.
  - apply options_keep_numbers_atom.
  - apply options_keep_head_atom.
Qed.

(* print_biomolecule_atoms on the renamed atom list with one chain flag vs on
   the original list with another: same number of atom lines, line i has the
   same record type, serial and numeric columns - nothing is reordered *)
Theorem print_options_keep_numbers cf1 cf2 f l :
  map (drop 30) (atom_lines (print_items cf1 (map (rename_with f) l)))
    = map (drop 30) (atom_lines (print_items cf2 l))
  /\ map (take 11) (atom_lines (print_items cf1 (map (rename_with f) l)))
    = map (take 11) (atom_lines (print_items cf2 l))
  /\ List.length (atom_lines (print_items cf1 (map (rename_with f) l))) = List.length l.
Proof.
  rewrite !order_preserved.
  destruct (numbered_options cf1 cf2 f l 0) as [H1 H2].
  repeat split; try assumption.
  now rewrite length_numbered, map_length.
Qed.

(* ---- --whitespace on top ------------------------------------------------ *)

Lemma num_ok_rename f a : num_ok (rename_with f a) = num_ok a.
Proof. unfold rename_with. destruct (f a) as [[r n]|]; reflexivity. Qed.

Lemma num_tokens_rename f a : num_tokens (rename_with f a) = num_tokens a.
Proof. unfold rename_with. destruct (f a) as [[r n]|]; reflexivity. Qed.

(* the five numeric tokens of the --whitespace line of the renamed atom, with
   or without --keep-chain, are the five numeric column slices of the plain
   line of the original atom *)
Theorem whitespace_options_keep_numeric_tokens cf1 cf2 f a :
  num_ok a = true ->
  exists front,
    tokens (ws_line cf1 (rename_with f a)) = (front ++ num_tokens a)%list
    /\ map (fun c => strip (slice (fst c) (snd c) (pqr_string cf2 a))) num_cols = num_tokens a.
Proof.
  intros H.
  assert (H' : num_ok (rename_with f a) = true) by now rewrite num_ok_rename.
  destruct (respace_keeps_numeric_tokens cf1 _ H') as (front & E & _).
  destruct (respace_keeps_numeric_tokens cf2 _ H) as (_ & _ & S).
  exists front. rewrite num_tokens_rename in E. now split.
Qed.

(* non-vacuity: a concrete atom inside the guard whose line does change in the
   name and chain columns while the numeric columns stay *)
Example print_options_nonvacuous :
  num_ok base_atom = true
  /\ pqr_string true (rename_with (fun _ => Some ("LYN", "HZ1")) base_atom) <> pqr_string false base_atom
  /\ drop 30 (pqr_string true (rename_with (fun _ => Some ("LYN", "HZ1")) base_atom))
     = drop 30 (pqr_string false base_atom)
  /\ String.length (drop 30 (pqr_string false base_atom)) = 39.
Proof. repeat split; try reflexivity. vm_compute. discriminate. Qed.
