(* Proofs about the flip model (C04): all-or-nothing, rigidity, involution. *)
From Coq Require Import List PArith Bool Arith Lia.
From PV Require Import Model.ForceField Model.Topology Model.Moves Model.Quatfit Model.Flip.
From PV Require Import Proofs.Moves.
Import ListNotations.

Lemma filter_all {X : Type} (f : X -> bool) (l : list X) :
  (forall a, In a l -> f a = true) -> filter f l = l.
Proof.
  induction l as [|x t IH]; intros H; [reflexivity|]. cbn [filter].
  rewrite (H x (or_introl eq_refl)). f_equal. apply IH. intros a Ha. apply H. right. exact Ha.
Qed.

Lemma filter_none {X : Type} (f : X -> bool) (l : list X) :
  (forall a, In a l -> f a = false) -> filter f l = [].
Proof.
  induction l as [|x t IH]; intros H; [reflexivity|]. cbn [filter].
  rewrite (H x (or_introl eq_refl)). apply IH. intros a Ha. apply H. right. exact Ha.
Qed.

Lemma find_app {X : Type} (f : X -> bool) (l1 l2 : list X) :
  find f (l1 ++ l2) = match find f l1 with Some x => Some x | None => find f l2 end.
Proof. induction l1 as [|x t IH]; [reflexivity|]. cbn [app find]. destruct (f x); [reflexivity | exact IH]. Qed.

Section AllOrNothing.
  Context {P : Type}.
  Variable Rt : P -> P.
  Variables M Mc : list id.
  Variable atoms0 : list (fatom P).
  Hypothesis plain0 : forall a, In a atoms0 -> fa_flip a = false.
  (* every rotated atom gets a copy *)
  Hypothesis copied : forall n, mem n M = true -> coords_of atoms0 n <> None -> mem n Mc = true.

  Definition rotA (a : fatom P) : fatom P :=
    if negb (fa_flip a) && mem (fa_name a) M then mkfatom (fa_name a) false (Rt (fa_pos a)) else a.
  Definition R0 : list (fatom P) := map rotA atoms0.
  Definition copies : list (fatom P) :=
    flat_map (fun n => match coords_of atoms0 n with Some p => [mkfatom n true p] | None => [] end) Mc.
  Definition inC (n : id) : bool := has_atom copies n true.
  Definition Sc : list (fatom P) := (filter (fun a => negb (inC (fa_name a))) R0 ++ copies)%list.
  Definition So : list (fatom P) := map (fun a => if fa_flip a then unflag a else a) Sc.

  Lemma S0_eq : flip_init Rt M Mc atoms0 = (R0 ++ copies)%list.
  Proof. reflexivity. Qed.

  Lemma rotA_name a : fa_name (rotA a) = fa_name a.
  Proof. unfold rotA. destruct (negb (fa_flip a) && mem (fa_name a) M); reflexivity. Qed.

  Lemma R0_plain a : In a R0 -> fa_flip a = false.
  Proof.
    unfold R0. intros H. apply in_map_iff in H. destruct H as [b [<- Hb]].
    unfold rotA. destruct (negb (fa_flip b) && mem (fa_name b) M); [reflexivity | apply plain0; exact Hb].
  Qed.

  Lemma copies_flip a : In a copies -> fa_flip a = true.
  Proof.
    unfold copies. intros H. apply in_flat_map in H. destruct H as [n [_ Hn]].
    destruct (coords_of atoms0 n); [|destruct Hn]. destruct Hn as [<- | []]. reflexivity.
  Qed.

  Lemma has_atom_app (l1 l2 : list (fatom P)) n fl : has_atom (l1 ++ l2) n fl = has_atom l1 n fl || has_atom l2 n fl.
  Proof. unfold has_atom. apply existsb_app. Qed.

  Lemma has_plain_true (l : list (fatom P)) n : (forall a, In a l -> fa_flip a = false) -> has_atom l n true = false.
  Proof.
    intros H. unfold has_atom. apply not_true_is_false. intros E. apply existsb_exists in E.
    destruct E as [a [Ha E]]. rewrite (H a Ha) in E. rewrite andb_false_r in E. discriminate.
  Qed.

  Lemma unflag_plain (a : fatom P) : fa_flip a = false -> unflag a = a.
  Proof. destruct a as [n f p]. cbn. intros ->. reflexivity. Qed.

  Lemma map_unflag_plain (l : list (fatom P)) : (forall a, In a l -> fa_flip a = false) -> map unflag l = l.
  Proof.
    induction l as [|x t IH]; intros H; [reflexivity|]. cbn [map].
    rewrite (unflag_plain x (H x (or_introl eq_refl))). f_equal. apply IH. intros a Ha. apply H. right. exact Ha.
  Qed.

  (* fix_flip on the state after __init__ *)
  Lemma fix_false_S0 : fix_flip false (R0 ++ copies) = R0.
  Proof.
    unfold fix_flip. rewrite filter_app. rewrite (filter_all _ R0), (filter_none _ copies).
    - apply app_nil_r.
    - intros a Ha. rewrite (copies_flip a Ha). reflexivity.
    - intros a Ha. rewrite (R0_plain a Ha). reflexivity.
  Qed.

  Lemma fix_true_S0 : fix_flip true (R0 ++ copies) = Sc.
  Proof.
    unfold fix_flip, Sc. rewrite filter_app. f_equal.
    - apply filter_ext_in. intros a Ha. rewrite (R0_plain a Ha). cbn [orb].
      rewrite has_atom_app, (has_plain_true R0 _ R0_plain). reflexivity.
    - apply filter_all. intros a Ha. rewrite (copies_flip a Ha). reflexivity.
  Qed.

  Lemma Sc_has n : has_atom Sc n true = inC n.
  Proof.
    unfold Sc. rewrite has_atom_app. rewrite has_plain_true; [reflexivity|].
    intros a Ha. apply filter_In in Ha. apply R0_plain. tauto.
  Qed.

  Lemma fix_true_Sc : fix_flip true Sc = Sc.
  Proof.
    unfold fix_flip. apply filter_all. intros a Ha. rewrite Sc_has.
    unfold Sc in Ha. apply in_app_or in Ha. destruct Ha as [Ha | Ha].
    - apply filter_In in Ha. destruct Ha as [_ Ha]. rewrite Ha. apply orb_true_r.
    - rewrite (copies_flip a Ha). reflexivity.
  Qed.

  (* the copy list: which names, which positions *)
  Definition copies_of (l : list id) : list (fatom P) :=
    flat_map (fun n => match coords_of atoms0 n with Some p => [mkfatom n true p] | None => [] end) l.

  Lemma has_copies_of l n :
    has_atom (copies_of l) n true = mem n l && (match coords_of atoms0 n with Some _ => true | None => false end).
  Proof.
    unfold has_atom. induction l as [|m t IH]; [reflexivity|].
    cbn [copies_of flat_map]. fold (copies_of t). rewrite existsb_app, IH. cbn [mem existsb]. fold (mem n t).
    destruct (Pos.eqb n m) eqn:E.
    - apply Pos.eqb_eq in E. subst m. destruct (coords_of atoms0 n) as [p|].
      + cbn [existsb fa_name fa_flip]. rewrite Pos.eqb_refl. reflexivity.
      + cbn [existsb orb]. rewrite !andb_false_r. reflexivity.
    - cbn [orb]. destruct (coords_of atoms0 m) as [p|]; cbn [existsb fa_name fa_flip orb]; [|reflexivity].
      rewrite Pos.eqb_sym, E. reflexivity.
  Qed.

  Lemma inC_spec n : inC n = mem n Mc && (match coords_of atoms0 n with Some _ => true | None => false end).
  Proof. apply has_copies_of. Qed.

  Lemma coords_copies_of l n :
    coords_of (map unflag (copies_of l)) n = if mem n l then coords_of atoms0 n else None.
  Proof.
    induction l as [|m t IH]; [reflexivity|].
    cbn [copies_of flat_map]. fold (copies_of t). rewrite map_app.
    unfold coords_of at 1. rewrite find_app. unfold coords_of at 1 in IH.
    cbn [mem existsb]. fold (mem n t).
    destruct (coords_of atoms0 m) as [p|] eqn:Em.
    - cbn [map find unflag fa_name fa_flip fa_pos]. rewrite Pos.eqb_sym.
      destruct (Pos.eqb n m) eqn:E; cbn [andb negb orb].
      + apply Pos.eqb_eq in E. subst m. rewrite Em. reflexivity.
      + exact IH.
    - cbn [map find]. rewrite IH. destruct (Pos.eqb n m) eqn:E; cbn [orb]; [|reflexivity].
      apply Pos.eqb_eq in E. subst m. rewrite Em. destruct (mem n t); reflexivity.
  Qed.

  Lemma coords_copies n :
    coords_of (map unflag copies) n = if mem n Mc then coords_of atoms0 n else None.
  Proof. apply coords_copies_of. Qed.

  (* the rotated originals *)
  Lemma coords_R0 n : coords_of R0 n = moved_coords Rt M atoms0 n.
  Proof.
    unfold R0, moved_coords, coords_of.
    assert (G : forall l : list (fatom P), (forall a, In a l -> fa_flip a = false) ->
                find (fun a => Pos.eqb (fa_name a) n && negb (fa_flip a)) (map rotA l)
                = match find (fun a => Pos.eqb (fa_name a) n && negb (fa_flip a)) l with
                  | Some a => Some (rotA a) | None => None end).
    { induction l as [|x t IH]; intros Hp; [reflexivity|]. cbn [map find].
      assert (Hx : fa_flip x = false) by (apply Hp; left; reflexivity).
      assert (Hr : fa_flip (rotA x) = false).
      { unfold rotA. destruct (negb (fa_flip x) && mem (fa_name x) M); [reflexivity | exact Hx]. }
      rewrite rotA_name, Hr, Hx. destruct (Pos.eqb (fa_name x) n && negb false); [reflexivity|].
      apply IH. intros a Ha. apply Hp. right. exact Ha. }
    rewrite (G atoms0 plain0).
    destruct (find (fun a => Pos.eqb (fa_name a) n && negb (fa_flip a)) atoms0) as [a|] eqn:E; [|reflexivity].
    apply find_some in E. destruct E as [Ha E]. apply andb_true_iff in E. destruct E as [E1 E2].
    apply Pos.eqb_eq in E1. subst n. unfold rotA. rewrite E2. cbn [andb].
    destruct (mem (fa_name a) M); reflexivity.
  Qed.

  Lemma coords_filter_R0 n :
    inC n = false ->
    coords_of (map unflag (filter (fun a => negb (inC (fa_name a))) R0)) n = coords_of R0 n.
  Proof.
    intros Hn. unfold coords_of.
    assert (G : forall l : list (fatom P), (forall a, In a l -> fa_flip a = false) ->
                find (fun a => Pos.eqb (fa_name a) n && negb (fa_flip a)) (map unflag (filter (fun a => negb (inC (fa_name a))) l))
                = find (fun a => Pos.eqb (fa_name a) n && negb (fa_flip a)) l).
    { induction l as [|x t IH]; intros Hp; [reflexivity|]. cbn [filter find].
      assert (Hx : fa_flip x = false) by (apply Hp; left; reflexivity).
      assert (IH' := IH (fun a Ha => Hp a (or_intror Ha))).
      destruct (Pos.eqb (fa_name x) n) eqn:E.
      - apply Pos.eqb_eq in E. rewrite E, Hn. cbn [negb map find]. rewrite (unflag_plain x Hx), E, Pos.eqb_refl, Hx. reflexivity.
      - cbn [andb]. destruct (negb (inC (fa_name x))); [|exact IH'].
        cbn [map find]. rewrite (unflag_plain x Hx), E. cbn [andb]. exact IH'. }
    rewrite (G R0 R0_plain). reflexivity.
  Qed.

  Lemma coords_filter_R0_none n :
    inC n = true ->
    find (fun a => Pos.eqb (fa_name a) n && negb (fa_flip a)) (map unflag (filter (fun a => negb (inC (fa_name a))) R0)) = None.
  Proof.
    intros Hn. destruct (find _ _) as [a|] eqn:E; [|reflexivity]. exfalso.
    apply find_some in E. destruct E as [Ha E]. apply andb_true_iff in E. destruct E as [E _].
    apply Pos.eqb_eq in E. apply in_map_iff in Ha. destruct Ha as [b [<- Hb]].
    apply filter_In in Hb. destruct Hb as [_ Hb]. cbn [unflag fa_name] in E. rewrite E, Hn in Hb. discriminate.
  Qed.

  (* keeping the copies gives back the input coordinates *)
  Lemma coords_Sc n : coords_of (map unflag Sc) n = coords_of atoms0 n.
  Proof.
    unfold Sc. rewrite map_app. unfold coords_of at 1. rewrite find_app.
    destruct (inC n) eqn:Hn.
    - rewrite (coords_filter_R0_none n Hn).
      fold (coords_of (map unflag copies) n). rewrite coords_copies.
      rewrite inC_spec in Hn. apply andb_true_iff in Hn. destruct Hn as [-> _]. reflexivity.
    - pose proof (coords_filter_R0 n Hn) as H1. unfold coords_of at 1 in H1.
      pose proof (coords_R0 n) as H2. unfold moved_coords in H2.
      destruct (find _ (map unflag (filter _ R0))) as [a|] eqn:E.
      + rewrite H1, H2. destruct (coords_of atoms0 n) as [p|] eqn:Ec; [|reflexivity].
        destruct (mem n M) eqn:EM; [|reflexivity]. exfalso.
        rewrite inC_spec, Ec, (copied n EM) in Hn; [discriminate|]. rewrite Ec. discriminate.
      + fold (coords_of (map unflag copies) n). rewrite coords_copies.
        rewrite H2 in H1. destruct (coords_of atoms0 n); [discriminate|]. destruct (mem n Mc); reflexivity.
  Qed.

  Lemma map_unflag_So : map unflag So = map unflag Sc.
  Proof.
    unfold So. rewrite map_map. apply map_ext. intros a. destruct (fa_flip a) eqn:E; [|reflexivity].
    destruct a as [n f p]. reflexivity.
  Qed.

  Lemma So_plain a : In a So -> fa_flip a = false.
  Proof.
    unfold So. intros H. apply in_map_iff in H. destruct H as [b [<- _]].
    destruct (fa_flip b) eqn:E; [reflexivity | exact E].
  Qed.

  (* the states a Flip object can be in *)
  Definition good (r : fres P) : Prop :=
    r = ((R0 ++ copies)%list, false) \/ r = (R0, true) \/ r = (Sc, true) \/ r = (So, true).

  Lemma can_fix_plain (l : list (fatom P)) : (forall a, In a l -> fa_flip a = false) -> can_fix Mc true l = false.
  Proof.
    intros H. unfold can_fix. apply not_true_is_false. intros E. apply existsb_exists in E.
    destruct E as [a [Ha E]]. rewrite (H a Ha) in E. discriminate.
  Qed.

  Lemma R0_in_coords a : In a R0 -> coords_of atoms0 (fa_name a) <> None.
  Proof.
    unfold R0. intros H. apply in_map_iff in H. destruct H as [b [<- Hb]]. rewrite rotA_name.
    unfold coords_of. destruct (find _ atoms0) eqn:E; [discriminate|].
    exfalso. pose proof (find_none _ _ E b Hb) as Hn. cbn beta in Hn.
    rewrite Pos.eqb_refl, (plain0 b Hb) in Hn. discriminate.
  Qed.

  Lemma can_fix_false_Sc : can_fix Mc false Sc = false.
  Proof.
    unfold can_fix. apply not_true_is_false. intros E. apply existsb_exists in E.
    destruct E as [a [Ha E]]. apply andb_true_iff in E. destruct E as [E1 E2].
    unfold Sc in Ha. apply in_app_or in Ha. destruct Ha as [Ha | Ha].
    - apply filter_In in Ha. destruct Ha as [Ha Hq]. rewrite inC_spec, E2 in Hq.
      pose proof (R0_in_coords a Ha) as Hc. destruct (coords_of atoms0 (fa_name a)); [discriminate | contradiction].
    - rewrite (copies_flip a Ha) in E1. discriminate.
  Qed.

  Lemma step_good r o : good r -> good (apply_fop Mc r o).
  Proof.
    intros [-> | [-> | [-> | ->]]]; destruct o as [[|]|]; unfold apply_fop, finalize; cbn [fst snd].
    - destruct (can_fix Mc true _); [rewrite fix_true_S0; right; right; left; reflexivity | left; reflexivity].
    - destruct (can_fix Mc false _); [rewrite fix_false_S0; right; left; reflexivity | left; reflexivity].
    - rewrite fix_true_S0. right; right; right. reflexivity.
    - rewrite (can_fix_plain R0 R0_plain). right; left; reflexivity.
    - destruct (can_fix Mc false R0); [|right; left; reflexivity].
      unfold fix_flip. rewrite filter_all; [right; left; reflexivity|]. intros a Ha. rewrite (R0_plain a Ha). reflexivity.
    - right; left; reflexivity.
    - destruct (can_fix Mc true Sc); [rewrite fix_true_Sc|]; right; right; left; reflexivity.
    - rewrite can_fix_false_Sc. right; right; left; reflexivity.
    - right; right; left; reflexivity.
    - rewrite (can_fix_plain So So_plain). right; right; right; reflexivity.
    - destruct (can_fix Mc false So); [|right; right; right; reflexivity].
      unfold fix_flip. rewrite filter_all; [right; right; right; reflexivity|]. intros a Ha. rewrite (So_plain a Ha). reflexivity.
    - right; right; right; reflexivity.
  Qed.

  Lemma run_good ops : forall r, good r -> good (fold_left (apply_fop Mc) ops r).
  Proof. induction ops as [|o t IH]; intros r H; [exact H|]. cbn [fold_left]. apply IH. apply step_good. exact H. Qed.

  Lemma complete_good r : good r ->
    complete r = (R0, true) \/ complete r = (map unflag Sc, true).
  Proof.
    intros [-> | [-> | [-> | ->]]]; unfold complete, finalize; cbn [fst snd].
    - right. rewrite fix_true_S0. fold So. rewrite map_unflag_So. reflexivity.
    - left. rewrite (map_unflag_plain R0 R0_plain). reflexivity.
    - right. reflexivity.
    - right. rewrite map_unflag_So. reflexivity.
  Qed.

  Theorem flip_all_or_nothing ops :
    let r := flip_run Rt M Mc ops atoms0 in
    snd r = true /\
    (forall a, In a (fst r) -> fa_flip a = false) /\
    ((forall n, coords_of (fst r) n = coords_of atoms0 n) \/
     (forall n, coords_of (fst r) n = moved_coords Rt M atoms0 n)).
  Proof.
    cbv zeta. unfold flip_run. rewrite S0_eq.
    destruct (complete_good _ (run_good ops _ (or_introl eq_refl))) as [-> | ->]; cbn [fst snd].
    - split; [reflexivity|]. split; [exact R0_plain|]. right. exact coords_R0.
    - split; [reflexivity|]. split.
      + intros a Ha. apply in_map_iff in Ha. destruct Ha as [b [<- _]]. reflexivity.
      + left. exact coords_Sc.
  Qed.
End AllOrNothing.

(* the copy list of the code (HO dropped on a C-terminal residue) covers the rotated set
   unless HO itself rotates *)
Lemma copy_names_cover (HO : id) (ct : bool) (M : list id) n :
  (ct = false \/ mem HO M = false) -> mem n M = true -> mem n (copy_names HO ct M) = true.
Proof.
  intros H Hn. unfold copy_names. destruct ct; [|exact Hn].
  destruct H as [H | H]; [discriminate|].
  unfold mem in *. apply existsb_exists in Hn. destruct Hn as [x [Hx E]]. apply Pos.eqb_eq in E. subst x.
  apply existsb_exists. exists n. split; [|apply Pos.eqb_refl].
  apply filter_In. split; [exact Hx|]. destruct (Pos.eqb n HO) eqn:E; [|reflexivity].
  apply Pos.eqb_eq in E. subst n. exfalso.
  assert (existsb (Pos.eqb HO) M = true) by (apply existsb_exists; exists HO; split; [exact Hx | apply Pos.eqb_refl]).
  congruence.
Qed.

(* ------------------------------------------------------------------ *)
(* rigidity of both outcomes, for any distance-preserving motion that    *)
(* fixes the two axis atoms                                             *)

Section FlipRigid.
  Context {P D : Type}.
  Variable dist : P -> P -> D.
  Variable Rt : P -> P.
  Hypothesis Rt_iso : forall x y, dist (Rt x) (Rt y) = dist x y.
  Variable keep : id -> bool.
  Variable g : graph.
  Variables b c : id.
  Variables M Mc : list id.
  Variable atoms0 : list (fatom P).
  Hypothesis plain0 : forall a, In a atoms0 -> fa_flip a = false.
  Hypothesis copied : forall n, mem n M = true -> coords_of atoms0 n <> None -> mem n Mc = true.
  Variables pb pc : P.
  Hypothesis Hb : coords_of atoms0 b = Some pb.
  Hypothesis Hc : coords_of atoms0 c = Some pc.
  Hypothesis fix_b : Rt pb = pb.
  Hypothesis fix_c : Rt pc = pc.
  Hypothesis ok : rigid_ok keep g b c M = true.

  Definition pos_or (dflt : P) (n : id) : P :=
    match coords_of atoms0 n with Some p => p | None => dflt end.


  Theorem flip_rigid ops :
    let final := coords_of (fst (flip_run Rt M Mc ops atoms0)) in
    (forall u v pu pv, In u (nodes g) -> In v (nbrs g u) -> keep u = true -> keep v = true ->
       coords_of atoms0 u = Some pu -> coords_of atoms0 v = Some pv ->
       exists pu' pv', final u = Some pu' /\ final v = Some pv' /\ dist pu' pv' = dist pu pv) /\
    (forall u v w pu pw, In v (nodes g) -> In u (nbrs g v) -> In w (nbrs g v) ->
       keep u = true -> keep v = true -> keep w = true ->
       coords_of atoms0 u = Some pu -> coords_of atoms0 w = Some pw ->
       exists pu' pw', final u = Some pu' /\ final w = Some pw' /\ dist pu' pw' = dist pu pw).
  Proof.
    cbv zeta.
    destruct (flip_all_or_nothing Rt M Mc atoms0 plain0 copied ops) as [_ [_ [H | H]]].
    - split.
      + intros u v pu pv _ _ _ _ Hu Hv. exists pu, pv. rewrite !H. auto.
      + intros u v w pu pw _ _ _ _ _ _ Hu Hw. exists pu, pw. rewrite !H. auto.
    - assert (Fb : Rt (pos_or pb b) = pos_or pb b) by (unfold pos_or; rewrite Hb; exact fix_b).
      assert (Fc : Rt (pos_or pb c) = pos_or pb c) by (unfold pos_or; rewrite Hc; exact fix_c).
      assert (E : forall n p, coords_of atoms0 n = Some p ->
                  coords_of (fst (flip_run Rt M Mc ops atoms0)) n = Some (pos' P Rt M (pos_or pb) n) /\ pos_or pb n = p).
      { intros n p Hn. rewrite H. unfold moved_coords, pos', pos_or, inM. rewrite Hn. auto. }
      split.
      + intros u v pu pv Hu Hv Ku Kv Cu Cv.
        destruct (E u pu Cu) as [E1 E2], (E v pv Cv) as [E3 E4].
        exists (pos' P Rt M (pos_or pb) u), (pos' P Rt M (pos_or pb) v). split; [exact E1|]. split; [exact E3|].
        rewrite <- E2, <- E4.
        apply (bond_preserved P D dist Rt Rt_iso keep g b c M (pos_or pb) Fb Fc ok); assumption.
      + intros u v w pu pw Hv Hu Hw Ku Kv Kw Cu Cw.
        destruct (E u pu Cu) as [E1 E2], (E w pw Cw) as [E3 E4].
        exists (pos' P Rt M (pos_or pb) u), (pos' P Rt M (pos_or pb) w). split; [exact E1|]. split; [exact E3|].
        rewrite <- E2, <- E4.
        apply (angle_preserved P D dist Rt Rt_iso keep g b c M (pos_or pb) Fb Fc ok u v w); assumption.
  Qed.
End FlipRigid.

(* the same with the copy list the code computes *)
Theorem flip_all_or_nothing_code (P : Type) (Rt : P -> P) (HO : id) (is_c_term : bool) (M : list id)
        (atoms0 : list (fatom P)) (ops : list fop) :
  (forall a, In a atoms0 -> fa_flip a = false) ->
  (is_c_term = false \/ mem HO M = false) ->
  let r := flip_run Rt M (copy_names HO is_c_term M) ops atoms0 in
  snd r = true /\
  (forall a, In a (fst r) -> fa_flip a = false) /\
  ((forall n, coords_of (fst r) n = coords_of atoms0 n) \/
   (forall n, coords_of (fst r) n = moved_coords Rt M atoms0 n)).
Proof.
  intros Hp Hho. apply flip_all_or_nothing; [exact Hp|].
  intros n Hn _. apply copy_names_cover; assumption.
Qed.

(* ------------------------------------------------------------------ *)
(* non-vacuity: an ASN-like residue on the integer lattice; the motion is *)
(* the 180-degree rotation about the z axis, on which CB and CG lie      *)

From Coq Require Import ZArith.
Local Open Scope Z_scope.

Definition zpt : Type := (Z * Z * Z)%type.
Definition zrot (p : zpt) : zpt := let '(x, y, z) := p in (- x, - y, z).
Definition zdist (p q : zpt) : Z :=
  let '(x, y, z) := p in let '(x', y', z') := q in (x - x') * (x - x') + (y - y') * (y - y') + (z - z') * (z - z').

(* N=1 CA=2 C=3 CB=4 CG=5 OD1=6 ND2=7; flip dihedral CA CB CG OD1: axis CB - CG, moved {OD1, ND2} *)
Definition fx_graph : graph :=
  [(1, [2]); (2, [1; 3; 4]); (3, [2]); (4, [2; 5]); (5, [4; 6; 7]); (6, [5]); (7, [5])]%positive.
Definition fx_M : list id := [6; 7]%positive.
Definition fx_atoms : list (fatom zpt) :=
  [mkfatom 1%positive false (3, 1, -2); mkfatom 2%positive false (2, 0, -1); mkfatom 3%positive false (3, -1, -1);
   mkfatom 4%positive false (0, 0, 0); mkfatom 5%positive false (0, 0, 2);
   mkfatom 6%positive false (2, 0, 3); mkfatom 7%positive false (-2, 1, 3)].

Lemma flip_nonvacuous :
  rigid_ok (fun _ => true) fx_graph 4%positive 5%positive fx_M = true /\
  (forall p q, zdist (zrot p) (zrot q) = zdist p q) /\
  zrot (0, 0, 0) = (0, 0, 0) /\ zrot (0, 0, 2) = (0, 0, 2) /\
  (* no hydrogen bond found, or one to a *FLIP atom: the input coordinates, as new atoms at the end *)
  flip_run zrot fx_M fx_M [] fx_atoms
    = (firstn 5 fx_atoms ++ [mkfatom 6%positive false (2, 0, 3); mkfatom 7%positive false (-2, 1, 3)], true)%list /\
  flip_run zrot fx_M fx_M [FixFlip true; FixFlip false; Finalize] fx_atoms = flip_run zrot fx_M fx_M [] fx_atoms /\
  (* a hydrogen bond to a plain-named (rotated) atom: the whole set flipped *)
  flip_run zrot fx_M fx_M [FixFlip false; FixFlip true] fx_atoms
    = (firstn 5 fx_atoms ++ [mkfatom 6%positive false (-2, 0, 3); mkfatom 7%positive false (2, -1, 3)], true)%list /\
  (* flipping the flipped residue again gives the input back *)
  map (fun a => (fa_name a, fa_pos a)) (fst (flip_run zrot fx_M fx_M [FixFlip false] (fst (flip_run zrot fx_M fx_M [FixFlip false] fx_atoms))))
    = map (fun a => (fa_name a, fa_pos a)) fx_atoms.
Proof.
  split; [vm_compute; reflexivity|]. split.
  { intros [[x y] z] [[x' y'] z']. unfold zdist, zrot. ring. }
  repeat split; vm_compute; reflexivity.
Qed.
