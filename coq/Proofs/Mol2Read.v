(* Proofs about Model/Mol2Read.v (C16): the reader reads back the canonical
   Tripos rendering of every molecule of its domain; consequences for atom
   order and atom names; the two real quirks with witnesses. *)
From Coq Require Import String Ascii List Arith NArith ZArith QArith Bool Lia.
From PV Require Import Lib.Strings Lib.Decimal Model.Peoe Model.Mol2Read Proofs.Peoe Proofs.PeoeRelabel.
From PV Require Model.PqrFormat Proofs.PqrFormat.
Import ListNotations.
Local Open Scope string_scope.

(* ---- strings ----------------------------------------------------------------- *)

Lemma any_char_app p a b : any_char p (a ++ b) = any_char p a || any_char p b.
Proof. induction a as [|c a IH]; cbn [append any_char]; [reflexivity|]. now rewrite IH, orb_assoc. Qed.

Lemma contains_no_at p s : any_char is_at s = false -> contains (String "@" p) s = false.
Proof.
  induction s as [|c s IH]; cbn [any_char contains prefix_of]; intros H; [reflexivity|].
  apply orb_false_iff in H as [Hc Hs]. unfold is_at in Hc. rewrite Hc, (IH Hs). reflexivity.
Qed.

Lemma is_empty_app_r a b : is_empty b = false -> is_empty (a ++ b) = false.
Proof. destruct a; cbn; [trivial | reflexivity]. Qed.

Lemma is_empty_app_l a b : is_empty a = false -> is_empty (a ++ b) = false.
Proof. destruct a; cbn; [discriminate | reflexivity]. Qed.

Lemma rstrip_app_gen a b : rstrip b = b -> is_empty b = false -> rstrip (a ++ b) = a ++ b.
Proof.
  intros Hb Hne. induction a as [|c a IH]; cbn [append rstrip]; [exact Hb|].
  rewrite IH, (is_empty_app_r a b Hne), andb_false_r. reflexivity.
Qed.

Lemma rstrip_noblank s : any_char is_ws s = false -> rstrip s = s.
Proof.
  induction s as [|c s IH]; cbn [any_char rstrip]; intros H; [reflexivity|].
  apply orb_false_iff in H as [Hc Hs]. now rewrite (IH Hs), Hc.
Qed.

Definition goodP (w : string) : Prop := good_word w = true.

Lemma good_parts w : goodP w ->
  is_empty w = false /\ any_char is_ws w = false /\ any_char is_at w = false.
Proof.
  unfold goodP, good_word. intros H.
  apply andb_true_iff in H as [H H3]. apply andb_true_iff in H as [H1 H2].
  apply negb_true_iff in H1, H2, H3. auto.
Qed.

Lemma join_cons2 x y r : join " " (x :: y :: r) = x ++ String sp (join " " (y :: r)).
Proof. reflexivity. Qed.

Lemma join_nonempty x r : is_empty x = false -> is_empty (join " " (x :: r)) = false.
Proof. intros H. destruct r; [exact H|]. rewrite join_cons2. now apply is_empty_app_l. Qed.

Lemma rstrip_join ws : ws <> [] -> Forall goodP ws -> rstrip (join " " ws) = join " " ws.
Proof.
  induction ws as [|x [|y r] IH]; intros Hne Hg; [congruence| |].
  - inversion Hg as [|? ? Hx _]; subst. apply rstrip_noblank. apply (good_parts _ Hx).
  - inversion Hg as [|? ? Hx Hr]; subst. rewrite join_cons2.
    apply rstrip_app_gen.
    + change (String sp (join " " (y :: r))) with (String sp "" ++ join " " (y :: r)).
      apply rstrip_app_gen; [apply IH; [discriminate | exact Hr]|].
      inversion Hr as [|? ? Hy _]; subst. apply join_nonempty. apply (good_parts _ Hy).
    + reflexivity.
Qed.

Lemma lstrip_join x r : goodP x -> lstrip (join " " (x :: r)) = join " " (x :: r).
Proof.
  intros Hx. destruct (good_parts _ Hx) as [Hne [Hws _]].
  assert (H : forall s, lstrip (x ++ s) = x ++ s).
  { intros s. destruct x as [|c x]; [discriminate|]. cbn [append lstrip any_char] in *.
    apply orb_false_iff in Hws as [Hc _]. now rewrite Hc. }
  destruct r; [cbn [join]; specialize (H ""); now rewrite app_empty_r in H | rewrite join_cons2; apply H].
Qed.

Lemma strip_join ws : ws <> [] -> Forall goodP ws -> strip (join " " ws) = join " " ws.
Proof.
  intros Hne Hg. unfold strip. destruct ws as [|x r]; [congruence|].
  inversion Hg as [|? ? Hx Hr]; subst. rewrite lstrip_join by exact Hx. now apply rstrip_join.
Qed.

Lemma tokens_join ws : Forall goodP ws -> tokens (join " " ws) = ws.
Proof.
  intros Hg. rewrite tokens_join_sp. induction Hg as [|x r Hx Hr IH]; [reflexivity|].
  cbn [map concat]. destruct (good_parts _ Hx) as [Hne [Hws _]].
  rewrite (tokens_single _ Hws Hne), IH. reflexivity.
Qed.

Lemma no_at_join ws : Forall goodP ws -> any_char is_at (join " " ws) = false.
Proof.
  induction ws as [|x [|y r] IH]; intros Hg; [reflexivity| |].
  - inversion Hg; subst. now apply good_parts.
  - inversion Hg as [|? ? Hx Hr]; subst. rewrite join_cons2, any_char_app. cbn [any_char].
    rewrite (IH Hr). destruct (good_parts _ Hx) as [_ [_ Hat]]. rewrite Hat. reflexivity.
Qed.

Lemma nonempty_join x r : goodP x -> is_empty (join " " (x :: r)) = false.
Proof. intros Hx. apply join_nonempty. apply (good_parts _ Hx). Qed.

(* a canonical record line: survives strip(), is not blank, holds no marker,
   splits into its fields *)
Lemma record_line x r :
  Forall goodP (x :: r) ->
  let l := join " " (x :: r) in
  strip l = l /\ is_empty l = false /\
  (forall p, contains (String "@" p) l = false) /\ tokens l = x :: r.
Proof.
  intros Hg l. inversion Hg as [|? ? Hx Hr]; subst.
  split; [apply strip_join; [discriminate | exact Hg]|].
  split; [apply nonempty_join, Hx|].
  split; [intros p; apply contains_no_at, no_at_join, Hg | apply tokens_join, Hg].
Qed.

(* numbers *)
Lemma digit_not_at c : PqrFormat.is_digit c = true -> is_at c = false.
Proof. destruct c as [[] [] [] [] [] [] [] []]; vm_compute; congruence. Qed.

Lemma good_Z z : goodP (Z_to_string z).
Proof.
  unfold goodP, good_word.
  rewrite (Proofs.PqrFormat.Z_to_string_nonempty z), (Proofs.PqrFormat.Z_to_string_no_ws z). cbn [negb andb].
  apply negb_true_iff. rewrite Proofs.PqrFormat.Z_to_string_cases.
  destruct (z <? 0)%Z; cbn [any_char]; [change (is_at "-") with false; cbn [orb]|];
    apply (Proofs.PqrFormat.all_not_any PqrFormat.is_digit is_at _ digit_not_at), Proofs.PqrFormat.N_to_string_digits.
Qed.

Lemma py_int_Z z : PqrFormat.py_int (Z_to_string z) = Some z.
Proof. apply Proofs.PqrFormat.py_int_Z_to_string. Qed.

Lemma take_short n s : (String.length s <= n)%nat -> take n s = s.
Proof. apply Proofs.PqrFormat.take_all. Qed.

(* ---- bond records ------------------------------------------------------------ *)

Lemma bond_word_btype t : bond_word (btype_word t) = Ok t.
Proof. destruct t; reflexivity. Qed.

Lemma good_btype t : goodP (btype_word t).
Proof. destruct t; reflexivity. Qed.

Lemma py_index_pos n a : (a < n)%nat -> py_index n (Z.of_nat (S a) - 1) = Some a.
Proof.
  intros H. unfold py_index.
  replace (Z.of_nat (S a) - 1)%Z with (Z.of_nat a) by lia.
  assert (E : ((0 <=? Z.of_nat a) && (Z.of_nat a <? Z.of_nat n))%Z = true).
  { apply andb_true_iff. split; [apply Z.leb_le | apply Z.ltb_lt]; lia. }
  rewrite E, Nat2Z.id. reflexivity.
Qed.

(* what an accepted atom id denotes: the position id-1 for 1 <= id <= n, and
   - the quirk - the position n+id-1 counted from the END for -n < id <= 0 *)
Lemma py_index_spec n k a :
  py_index n (k - 1) = Some a ->
  ((1 <= k <= Z.of_nat n)%Z /\ Z.of_nat a = (k - 1)%Z) \/
  ((- Z.of_nat n < k <= 0)%Z /\ Z.of_nat a = (Z.of_nat n + k - 1)%Z).
Proof.
  unfold py_index.
  destruct ((0 <=? k - 1) && (k - 1 <? Z.of_nat n))%Z eqn:E1.
  - apply andb_true_iff in E1 as [H1 H2]. apply Z.leb_le in H1. apply Z.ltb_lt in H2.
    intros H; injection H as <-. left. split; [lia|]. rewrite Z2Nat.id; lia.
  - destruct ((- Z.of_nat n <=? k - 1) && (k - 1 <? 0))%Z eqn:E2; [|discriminate].
    apply andb_true_iff in E2 as [H1 H2]. apply Z.leb_le in H1. apply Z.ltb_lt in H2.
    intros H; injection H as <-. right. split; [lia|]. rewrite Z2Nat.id; lia.
Qed.

Lemma bond_line_fields b : Forall goodP [Z_to_string (rb_id b); Z_to_string (Z.of_nat (S (rb_a1 b)));
                                          Z_to_string (Z.of_nat (S (rb_a2 b))); btype_word (rb_type b)].
Proof. repeat constructor; try apply good_Z. apply good_btype. Qed.

Lemma parse_bond_line n b :
  wf_bond n b = true -> parse_bond_words n (tokens (bond_line b)) = Ok b.
Proof.
  intros Hwf. unfold bond_line. rewrite (tokens_join _ (bond_line_fields b)).
  apply andb_true_iff in Hwf as [H1 H2]. apply Nat.ltb_lt in H1, H2.
  unfold parse_bond_words. rewrite bond_word_btype, !py_int_Z, !py_index_pos by assumption.
  destruct b; reflexivity.
Qed.

Section ReaderProofs.
  Context (float_ok : string -> bool) (co : bool).

  Local Notation atoms_loop := (atoms_loop float_ok co).
  Local Notation wf_atom := (wf_atom float_ok co).
  Local Notation mol_of_text := (mol_of_text float_ok co).
  Local Notation wf_molecule := (wf_molecule float_ok co).

  (* ---- atom records ---------------------------------------------------------- *)

  Definition atom_fields (a : ratom) : list string :=
    ([Z_to_string (ra_serial a); ra_name a; ra_x a; ra_y a; ra_z a; ra_type a;
      Z_to_string (ra_resseq a); ra_resname a] ++
     match ra_charge a with Some c => [c] | None => [] end)%list.

  Lemma atom_line_fields a : atom_line a = join " " (atom_fields a).
  Proof. reflexivity. Qed.

  Lemma wf_atom_spec a : wf_atom a = true ->
    goodP (ra_name a) /\ goodP (ra_x a) /\ goodP (ra_y a) /\ goodP (ra_z a) /\
    float_ok (ra_x a) = true /\ float_ok (ra_y a) = true /\ float_ok (ra_z a) = true /\
    goodP (ra_type a) /\ norm_type (ra_type a) = Some (ra_type a) /\
    goodP (ra_resname a) /\ (String.length (ra_resname a) <= 4)%nat /\
    match ra_charge a with Some c => goodP c /\ float_ok c = true | None => co = true end.
  Proof.
    unfold Mol2Read.wf_atom. rewrite !andb_true_iff. intros H. decompose [and] H. clear H.
    repeat (split; [assumption|]).
    split.
    { match goal with Hn : norm_fixed _ = true |- _ =>
        unfold norm_fixed in Hn; destruct (norm_type (ra_type a)) as [t'|]; [|discriminate];
        apply String.eqb_eq in Hn; now subst t' end. }
    split; [assumption|]. split; [now apply Nat.leb_le|].
    destruct (ra_charge a); [now apply andb_true_iff | assumption].
  Qed.

  Lemma wf_atom_fields a : wf_atom a = true -> Forall goodP (atom_fields a).
  Proof.
    intros H. apply wf_atom_spec in H. decompose [and] H. clear H. unfold atom_fields.
    repeat (constructor; [first [apply good_Z | assumption]|]).
    destruct (ra_charge a) as [c|]; [|constructor].
    match goal with Hc : _ /\ _ |- _ => destruct Hc as [Hc _] end.
    constructor; [assumption | constructor].
  Qed.

  Lemma parse_atom_line a :
    wf_atom a = true -> parse_atom_words float_ok co (tokens (atom_line a)) = Ok a.
  Proof.
    intros Hwf. rewrite atom_line_fields, (tokens_join _ (wf_atom_fields a Hwf)).
    apply wf_atom_spec in Hwf. decompose [and] Hwf. clear Hwf.
    unfold atom_fields, parse_atom_words. cbn [app].
    match goal with Hn : norm_type _ = Some _ |- _ => rewrite Hn end.
    rewrite !py_int_Z.
    repeat match goal with Hf : float_ok _ = true |- _ => rewrite Hf; clear Hf end. cbn [andb].
    match goal with Hl : (_ <= 4)%nat |- _ => rewrite (take_short 4 _ Hl) end.
    destruct a as [se nm x y z ty rs rn [c|]]; cbn [ra_charge ra_serial ra_name ra_x ra_y ra_z ra_type ra_resseq ra_resname] in *.
    - match goal with Hc : _ /\ float_ok c = true |- _ => destruct Hc as [_ Hc]; rewrite Hc end.
      reflexivity.
    - match goal with Hc : co = true |- _ => rewrite Hc end. reflexivity.
  Qed.

  Lemma has_name_false nm acc : ~ In nm (map ra_name acc) -> has_name nm acc = false.
  Proof.
    unfold has_name. induction acc as [|a acc IH]; cbn [map existsb In]; intros H; [reflexivity|].
    rewrite IH by tauto. destruct (String.eqb_spec (ra_name a) nm) as [E|E]; [exfalso; apply H; now left | reflexivity].
  Qed.

  Lemma atoms_loop_canon (ats : list ratom) : forall (acc : list ratom) (rest : list string),
    forallb wf_atom ats = true ->
    NoDup (map ra_name (acc ++ ats)%list) ->
    atoms_loop (map atom_line ats ++ marker_bond :: rest)%list acc false = (Ok (acc ++ ats)%list, rest).
  Proof.
    induction ats as [|a ats IH]; intros acc rest Hwf Hnd.
    - cbn [map app]. rewrite app_nil_r. reflexivity.
    - cbn [forallb] in Hwf. apply andb_true_iff in Hwf as [Ha Hats].
      cbn [map app Mol2Read.atoms_loop].
      pose proof (wf_atom_fields a Ha) as Hg. rewrite atom_line_fields in *.
      unfold atom_fields in Hg |- *. cbn [app] in Hg |- *.
      destruct (record_line _ _ Hg) as [Hs [Hne [Hc Ht]]].
      cbn [app] in Hs, Hne, Hc, Ht. rewrite Hs, Hne. unfold marker_bond at 1. rewrite Hc.
      pose proof (parse_atom_line a Ha) as Hp. rewrite atom_line_fields in Hp.
      unfold atom_fields in Hp. cbn [app] in Hp. rewrite Hp.
      rewrite has_name_false.
      + replace (acc ++ a :: ats)%list with ((acc ++ [a]) ++ ats)%list by (rewrite <- app_assoc; reflexivity).
        apply IH; [exact Hats|]. rewrite <- app_assoc. exact Hnd.
      + rewrite map_app in Hnd. cbn [map] in Hnd. apply NoDup_remove_2 in Hnd.
        intro Hin. apply Hnd. apply in_or_app. now left.
  Qed.

  (* ---- the bond section -------------------------------------------------------- *)

  Lemma bonds_loop_canon n (bs : list rbond) : forall (acc : list rbond) (trailer : list string),
    forallb (wf_bond n) bs = true ->
    bonds_loop n (map bond_line bs ++ marker_subst :: trailer)%list acc = Ok (acc ++ bs)%list.
  Proof.
    induction bs as [|b bs IH]; intros acc trailer Hwf.
    - cbn [map app]. rewrite app_nil_r. reflexivity.
    - cbn [forallb] in Hwf. apply andb_true_iff in Hwf as [Hb Hbs].
      cbn [map app Mol2Read.bonds_loop].
      destruct (record_line _ _ (bond_line_fields b)) as [Hs [Hne [Hc Ht]]].
      change (join " " _) with (bond_line b) in Hs, Hne, Hc, Ht.
      rewrite Hs, Hne. unfold marker_subst at 1. rewrite Hc, (parse_bond_line n b Hb).
      replace (acc ++ b :: bs)%list with ((acc ++ [b]) ++ bs)%list by (rewrite <- app_assoc; reflexivity).
      apply IH, Hbs.
  Qed.

  Lemma skip_header hdr rest :
    Forall (fun l => contains marker_atom l = false) hdr ->
    skip_to_atoms (hdr ++ marker_atom :: rest)%list = rest.
  Proof.
    induction 1 as [|l hdr Hl _ IH]; cbn [app skip_to_atoms]; [reflexivity|]. now rewrite Hl.
  Qed.

  (* THE ROUND TRIP.  For every molecule of the domain (fields are blank-free
     words without '@', coordinates and charge are numbers for float(), the type
     is in normalised spelling, residue name <= 4 characters, atom names
     distinct, bond endpoints are atoms of the molecule; ANY atom ids, bond ids,
     connectivity, bond multiplicity, self bonds) and for every header without
     an ATOM marker and every trailer, the reader returns exactly the molecule
     that was written: no atom or bond is dropped, duplicated, reordered or
     re-wired, and every field lands in its own slot. *)
  Theorem mol2_read_roundtrip_with (hdr trailer : list string) (m : molecule) :
    Forall (fun l => contains marker_atom l = false) hdr ->
    wf_molecule m ->
    mol_of_text (mol2_text_with hdr trailer m) = Ok m.
  Proof.
    intros Hh [Ha [Hnd Hb]]. unfold Mol2Read.mol_of_text, mol2_text_with. cbn [app].
    rewrite (skip_header hdr _ Hh).
    rewrite (atoms_loop_canon (ml_atoms m) [] _ Ha Hnd). cbn [app].
    rewrite (bonds_loop_canon _ (ml_bonds m) [] trailer Hb). cbn [app].
    destruct m; reflexivity.
  Qed.

  Lemma std_header_ok m : Forall (fun l => contains marker_atom l = false) (std_header m).
  Proof.
    unfold std_header. repeat constructor.
    unfold marker_atom. apply contains_no_at, no_at_join.
    repeat constructor; apply good_Z.
  Qed.

  Theorem mol2_read_roundtrip (m : molecule) :
    wf_molecule m -> mol_of_text (mol2_text m) = Ok m.
  Proof. intros H. apply mol2_read_roundtrip_with; [apply std_header_ok | exact H]. Qed.

  (* ---- reordering the ATOM records ------------------------------------------- *)

  Section Permute.
    Context (m : molecule) (sigma tau : nat -> nat).
    Local Notation n := (List.length (ml_atoms m)).
    Context (Hsigma : forall i, (i < n)%nat -> (sigma i < n)%nat).
    Context (Htau : forall k, (k < n)%nat -> (tau k < n)%nat).
    Context (Hts : forall i, (i < n)%nat -> tau (sigma i) = i).
    Context (Hst : forall k, (k < n)%nat -> sigma (tau k) = k).
    Context (Hwf : wf_molecule m).

    Lemma permute_length : List.length (ml_atoms (permute m sigma tau)) = n.
    Proof. unfold permute. cbn [ml_atoms]. now rewrite map_length, seq_length. Qed.

    Lemma wf_atom_renumber a k :
      wf_atom a = true ->
      wf_atom (mkratom k (ra_name a) (ra_x a) (ra_y a) (ra_z a) (ra_type a) (ra_resseq a) (ra_resname a) (ra_charge a)) = true.
    Proof. intros H. exact H. Qed.

    Lemma nth_inj_names (i j : nat) :
      (i < n)%nat -> (j < n)%nat ->
      ra_name (nth i (ml_atoms m) dummy_atom) = ra_name (nth j (ml_atoms m) dummy_atom) -> i = j.
    Proof.
      intros Hi Hj E. destruct Hwf as [_ [Hnd _]].
      rewrite <- !(map_nth ra_name) in E.
      apply (proj1 (NoDup_nth (map ra_name (ml_atoms m)) (ra_name dummy_atom)) Hnd); rewrite ?map_length; assumption.
    Qed.

    Lemma permute_wf : wf_molecule (permute m sigma tau).
    Proof.
      destruct Hwf as [Ha [Hnd Hb]]. unfold Mol2Read.wf_molecule. rewrite permute_length.
      unfold permute. cbn [ml_atoms ml_bonds]. split; [|split].
      - apply forallb_forall. intros a' Hin. apply in_map_iff in Hin as [k [<- Hk]].
        apply in_seq in Hk. apply wf_atom_renumber.
        rewrite forallb_forall in Ha. apply Ha, nth_In, Htau. lia.
      - rewrite map_map. cbn [ra_name].
        apply (proj2 (NoDup_nth _ "")). rewrite map_length, seq_length. intros i j Hi Hj E.
        rewrite !(nth_map_seq (fun k => ra_name (nth (tau k) (ml_atoms m) dummy_atom))) in E by assumption.
        apply nth_inj_names in E; [|apply Htau; assumption ..].
        rewrite <- (Hst i Hi), <- (Hst j Hj), E. reflexivity.
      - apply forallb_forall. intros b' Hin. apply in_map_iff in Hin as [b [<- Hin]].
        rewrite forallb_forall in Hb. specialize (Hb b Hin).
        unfold wf_bond in *. cbn [rb_a1 rb_a2]. apply andb_true_iff in Hb as [H1 H2].
        apply Nat.ltb_lt in H1, H2. apply andb_true_iff. split; apply Nat.ltb_lt; apply Hsigma; assumption.
    Qed.

    Lemma to_mol_n : m_n (to_mol m) = n.
    Proof. unfold m_n, to_mol. cbn [m_types]. apply map_length. Qed.

    (* the molecule read from the reordered text is, at the level of
       assign_parameters' input, the relabelled molecule of Proofs/Peoe.v *)
    Lemma to_mol_permute : to_mol (permute m sigma tau) = relabel (to_mol m) sigma tau.
    Proof.
      unfold relabel. rewrite to_mol_n. unfold to_mol, permute. cbn [ml_atoms ml_bonds m_bonds m_types].
      f_equal.
      - rewrite map_map. cbn [ra_type]. apply map_ext_in. intros k Hk. apply in_seq in Hk.
        unfold m_ty. cbn [m_types]. change "" with (ra_type dummy_atom). now rewrite map_nth.
      - rewrite !map_map. reflexivity.
    Qed.

    Lemma to_mol_ok : mol_ok (to_mol m) = true.
    Proof.
      destruct Hwf as [_ [_ Hb]]. unfold mol_ok, bonds_ok, m_pairs. rewrite to_mol_n.
      unfold to_mol. cbn [m_bonds]. rewrite map_map. cbn [fst].
      apply forallb_forall. intros p Hin. apply in_map_iff in Hin as [b [<- Hin]].
      rewrite forallb_forall in Hb. exact (Hb b Hin).
    Qed.

    (* ATOM records permuted, bond atom ids renumbered consistently: the reader
       returns the permuted molecule (every atom keeps its name, coordinates,
       type, residue fields and charge; every bond its id, type and - through
       sigma - its two atoms) *)
    Theorem mol2_order_equivariance :
      mol_of_text (mol2_text (permute m sigma tau)) = Ok (permute m sigma tau) /\
      to_mol (permute m sigma tau) = relabel (to_mol m) sigma tau /\
      (forall i, (i < n)%nat ->
         let a := nth i (ml_atoms m) dummy_atom in
         let a' := nth (sigma i) (ml_atoms (permute m sigma tau)) dummy_atom in
         ra_name a' = ra_name a /\ ra_type a' = ra_type a /\ ra_x a' = ra_x a /\ ra_y a' = ra_y a /\
         ra_z a' = ra_z a /\ ra_charge a' = ra_charge a /\ ra_serial a' = Z.of_nat (S (sigma i))).
    Proof.
      split; [apply mol2_read_roundtrip, permute_wf|]. split; [apply to_mol_permute|].
      intros i Hi. cbv zeta. unfold permute. cbn [ml_atoms].
      rewrite nth_map_seq by (apply Hsigma, Hi).
      cbn [ra_name ra_type ra_x ra_y ra_z ra_charge ra_serial]. rewrite (Hts i Hi). repeat split.
    Qed.

    (* composition with the PEOE theorems (exact field Q, any cycle count): the
       charges and radii assigned from the reordered TEXT are those assigned
       from the original text, moved with their atoms; one raises iff the other
       does.  No tie-freeness condition is needed for this statement because
       the BOND lines keep their order (the order-dependent phosphate rule of
       formal_charge walks BOND lines, not atoms - C16_formal_charge_equivariant). *)
    Theorem text_order_independent (ncyc : nat) :
      exists m1 m2,
        mol_of_text (mol2_text m) = Ok m1 /\
        mol_of_text (mol2_text (permute m sigma tau)) = Ok m2 /\
        match assign_parameters_n QA (to_mol m1) ncyc, assign_parameters_n QA (to_mol m2) ncyc with
        | Some ps, Some ps' => forall i, (i < n)%nat -> nth_error ps' (sigma i) = nth_error ps i
        | None, None => True
        | _, _ => False
        end.
    Proof.
      exists m, (permute m sigma tau).
      split; [apply mol2_read_roundtrip, Hwf|]. split; [apply mol2_read_roundtrip, permute_wf|].
      rewrite to_mol_permute. rewrite <- to_mol_n.
      apply assign_parameters_relabel; rewrite ?to_mol_n; try assumption. apply to_mol_ok.
    Qed.
  End Permute.

  (* ---- renaming the atoms ------------------------------------------------------ *)

  Lemma rename_atoms_length m names :
    List.length names = List.length (ml_atoms m) ->
    List.length (ml_atoms (rename m names)) = List.length (ml_atoms m).
  Proof. intros H. unfold rename. cbn [ml_atoms]. rewrite map_length, combine_length, H. apply Nat.min_id. Qed.

  Lemma map_combine_fst {X Y Z} (f : X -> Z) (g : X * Y -> X * Y) (h : X * Y -> Z) (a : list X) (b : list Y) :
    List.length a = List.length b -> (forall p, h p = f (fst p)) -> map h (combine a b) = map f a.
  Proof.
    intros Hl Hh. revert b Hl. induction a as [|x a IH]; intros [|y b] Hl; cbn in *; try discriminate; [reflexivity|].
    rewrite Hh, IH by lia. reflexivity.
  Qed.

  Lemma map_combine_snd {X Y Z} (f : Y -> Z) (h : X * Y -> Z) (a : list X) (b : list Y) :
    List.length a = List.length b -> (forall p, h p = f (snd p)) -> map h (combine a b) = map f b.
  Proof.
    intros Hl Hh. revert b Hl. induction a as [|x a IH]; intros [|y b] Hl; cbn in *; try discriminate; [reflexivity|].
    rewrite Hh, IH by lia. reflexivity.
  Qed.

  (* renaming the atoms (any distinct blank-free names): the text is read back
     as the renamed molecule, and the input of assign_parameters - hence every
     charge and radius - is unchanged: nothing but the names changes *)
  Theorem mol2_names_irrelevant (m : molecule) (names : list string) :
    wf_molecule m ->
    List.length names = List.length (ml_atoms m) -> Forall goodP names -> NoDup names ->
    mol_of_text (mol2_text (rename m names)) = Ok (rename m names) /\
    to_mol (rename m names) = to_mol m /\
    map ra_name (ml_atoms (rename m names)) = names /\
    (forall A (ops : Arith A) ncyc,
       assign_parameters_n ops (to_mol (rename m names)) ncyc = assign_parameters_n ops (to_mol m) ncyc).
  Proof.
    intros [Ha [Hnd Hb]] Hl Hg Hnn.
    assert (Hnames : map ra_name (ml_atoms (rename m names)) = names).
    { unfold rename. cbn [ml_atoms]. rewrite map_map. cbn [set_name ra_name].
      rewrite (map_combine_snd (fun x => x)); [apply map_id | now symmetry | reflexivity]. }
    assert (Hto : to_mol (rename m names) = to_mol m).
    { unfold to_mol, rename. cbn [ml_atoms ml_bonds]. f_equal. rewrite map_map. cbn [set_name ra_type].
      apply (map_combine_fst ra_type (fun p => p)); [now symmetry | reflexivity]. }
    split; [|split; [exact Hto | split; [exact Hnames | intros; now rewrite Hto]]].
    apply mol2_read_roundtrip. split; [|split].
    - unfold rename. cbn [ml_atoms]. apply forallb_forall. intros a' Hin.
      apply in_map_iff in Hin as [[a nm] [<- Hin]]. cbn [fst snd].
      pose proof (in_combine_l _ _ _ _ Hin) as Hina. pose proof (in_combine_r _ _ _ _ Hin) as Hinn.
      rewrite forallb_forall in Ha. specialize (Ha a Hina).
      rewrite Forall_forall in Hg. specialize (Hg nm Hinn).
      unfold Mol2Read.wf_atom in *. cbn [set_name ra_name ra_x ra_y ra_z ra_type ra_resname ra_charge].
      unfold goodP in Hg. rewrite !andb_true_iff in Ha |- *. intuition.
    - rewrite Hnames. exact Hnn.
    - rewrite rename_atoms_length by exact Hl. exact Hb.
  Qed.
End ReaderProofs.

(* bonded_atoms as the kernel derives it from the BOND lines is symmetric:
   j is listed for i exactly when i is listed for j (each BOND line appends
   both ways) *)
Lemma nbrs_in bonds i j :
  In j (nbrs bonds i) <-> exists b, In b bonds /\ ((fst b = i /\ snd b = j) \/ (snd b = i /\ fst b = j)).
Proof.
  unfold nbrs. rewrite in_flat_map. split.
  - intros [b [Hb Hin]]. exists b. split; [exact Hb|]. apply in_app_or in Hin as [Hin|Hin].
    + destruct (Nat.eqb_spec (fst b) i); [destruct Hin as [<-|[]]; now left | contradiction].
    + destruct (Nat.eqb_spec (snd b) i); [destruct Hin as [<-|[]]; now right | contradiction].
  - intros [b [Hb [[<- <-]|[<- <-]]]]; exists b; (split; [exact Hb|]); apply in_or_app.
    + left. rewrite Nat.eqb_refl. now left.
    + right. rewrite Nat.eqb_refl. now left.
Qed.

Theorem adjacency_symmetric (m : molecule) i j :
  In j (nbrs (m_pairs (to_mol m)) i) <-> In i (nbrs (m_pairs (to_mol m)) j).
Proof. rewrite !nbrs_in. split; intros [b [Hb H]]; exists b; (split; [exact Hb|]); tauto. Qed.

(* ---- the quirks, with witnesses --------------------------------------------------- *)

Definition ethanolish : molecule :=
  mkmolecule [mkratom 1 "C1" "0.0" "0.0" "0.0" "C.3" 1 "LIG" (Some "0.0");
              mkratom 2 "O1" "1.4" "0.0" "0.0" "O.3" 1 "LIG" (Some "0.0");
              mkratom 3 "H1" "2.0" "0.5" "0.0" "H" 1 "LIG" (Some "0.0")]
             [mkrbond 1 0 1 Single; mkrbond 2 1 2 Single].

(* FULL STATEMENT (refuted): "in an accepted file every bond atom id k denotes
   the k-th ATOM record".  Witness: the BOND record `1 1 0 1` of a 3-atom
   molecule is accepted and bonds atom 1 to the LAST atom (Python's [-1]). *)
Theorem mol2_bond_id_zero_refuted :
  exists (lines : list string) (m : molecule),
    In "1 1 0 1" lines /\
    mol_of_text py_float_ok false lines = Ok m /\
    List.length (ml_atoms m) = 3%nat /\
    ml_bonds m = [mkrbond 1 0 2 Single].
Proof.
  exists ["@<TRIPOS>ATOM"; "1 C1 0.0 0.0 0.0 C.3 1 LIG 0.0"; "2 O1 1.4 0.0 0.0 O.3 1 LIG 0.0";
          "3 H1 2.0 0.5 0.0 H 1 LIG 0.0"; "@<TRIPOS>BOND"; "1 1 0 1"].
  eexists. split; [cbn; tauto|]. split; [vm_compute; reflexivity|]. split; reflexivity.
Qed.

(* ... and the guard under which the reading is the intended one: an accepted
   BOND record whose atom ids are in 1..n denotes exactly those positions; the
   only other accepted ids are -n < id <= 0, read from the end *)
Theorem mol2_bond_ids_partial (n : nat) (w0 w1 w2 w3 : string) (more : list string) (b : rbond) (i1 i2 : Z) :
  parse_bond_words n (w0 :: w1 :: w2 :: w3 :: more) = Ok b ->
  PqrFormat.py_int w1 = Some i1 -> PqrFormat.py_int w2 = Some i2 ->
  (((1 <= i1 <= Z.of_nat n)%Z /\ Z.of_nat (rb_a1 b) = (i1 - 1)%Z) \/
   ((- Z.of_nat n < i1 <= 0)%Z /\ Z.of_nat (rb_a1 b) = (Z.of_nat n + i1 - 1)%Z)) /\
  (((1 <= i2 <= Z.of_nat n)%Z /\ Z.of_nat (rb_a2 b) = (i2 - 1)%Z) \/
   ((- Z.of_nat n < i2 <= 0)%Z /\ Z.of_nat (rb_a2 b) = (Z.of_nat n + i2 - 1)%Z)) /\
  bond_word w3 = Ok (rb_type b).
Proof.
  unfold parse_bond_words. intros H H1 H2.
  destruct (bond_word w3) as [bt|e]; [|discriminate].
  destruct (PqrFormat.py_int w0) as [bid|]; [|discriminate].
  rewrite H1, H2 in H.
  destruct (py_index n (i1 - 1)) as [a1|] eqn:E1; [|discriminate].
  destruct (py_index n (i2 - 1)) as [a2|] eqn:E2; [|discriminate].
  injection H as <-. cbn [rb_a1 rb_a2 rb_type].
  split; [exact (py_index_spec _ _ _ E1) | split; [exact (py_index_spec _ _ _ E2) | reflexivity]].
Qed.

(* FULL STATEMENT (refuted for the code as it is, charge_optional = false):
   "every molecule of the Tripos format with supported fields is read".  The
   charge field of an ATOM record is optional in the format; the code means to
   allow that (`if len(line) > 8:` before reading words[8]) but tests the
   number of CHARACTERS, so an 8-word record raises IndexError.  With the
   one-word repair (charge_optional = true) the same text is read back
   (instance of the round trip). *)
Definition ethanolish_nocharge : molecule :=
  mkmolecule (map (fun a => mkratom (ra_serial a) (ra_name a) (ra_x a) (ra_y a) (ra_z a) (ra_type a)
                                     (ra_resseq a) (ra_resname a) None) (ml_atoms ethanolish))
             (ml_bonds ethanolish).

Lemma ethanolish_nocharge_wf : wf_molecule py_float_ok true ethanolish_nocharge.
Proof.
  split; [vm_compute; reflexivity|]. split; [|vm_compute; reflexivity].
  cbn. repeat constructor; cbn; intuition discriminate.
Qed.

Theorem mol2_eight_words_refuted :
  wf_molecule py_float_ok true ethanolish_nocharge /\
  mol_of_text py_float_ok false (mol2_text ethanolish_nocharge) = Raise IndexError /\
  mol_of_text py_float_ok true (mol2_text ethanolish_nocharge) = Ok ethanolish_nocharge.
Proof.
  split; [exact ethanolish_nocharge_wf|]. split; [vm_compute; reflexivity|].
  apply mol2_read_roundtrip, ethanolish_nocharge_wf.
Qed.

(* non-vacuity of the domain and of the permutation hypotheses *)
Lemma ethanolish_wf : wf_molecule py_float_ok false ethanolish.
Proof.
  split; [vm_compute; reflexivity|]. split; [|vm_compute; reflexivity].
  cbn. repeat constructor; cbn; intuition discriminate.
Qed.
