(* C07: records of the OTHER classes (HET, SSBOND, CONECT, CRYST1, SEQRES, ... and
   unknown names), whether their parsers accept the line or fail on it, never
   change which coordinate / TER / END / MODEL records are read: errlist
   suppression is an exact match on the record name, and errlist never holds one
   of the five names Biomolecule reads. *)
From Coq Require Import String Ascii List Arith NArith ZArith Bool Lia Permutation.
From PV Require Import Lib.Strings Lib.Decimal Model.PdbRead Model.Group Model.PdbSpec
  Proofs.PdbRead Proofs.Group Proofs.Ingest Proofs.Ingest2.
Import ListNotations.
Local Open Scope string_scope.
Local Open Scope list_scope.

Section Other.
  Variable fok : string -> bool.
  Variable oerr : string -> bool.
  Variable tab : deftab.

  (* errlists that agree on the five names *)
  Definition agree5 (e1 e2 : list string) : Prop :=
    forall n, mem_str n five_names = true -> mem_str n e1 = mem_str n e2.

  Lemma agree5_refl e : agree5 e e. Proof. intros n _. reflexivity. Qed.

  Lemma agree5_add e n : mem_str n five_names = false -> agree5 (e ++ [n]) e.
  Proof.
    intros Hn m Hm. rewrite mem_str_app. simpl.
    destruct (m =? n) eqn:E; [apply String.eqb_eq in E; subst m; rewrite Hm in Hn; discriminate|].
    rewrite !orb_false_r. reflexivity.
  Qed.

  Lemma agree5_trans a b c : agree5 a b -> agree5 b c -> agree5 a c.
  Proof. intros H1 H2 n Hn. rewrite (H1 n Hn). apply H2; exact Hn. Qed.

  Lemma agree5_sym a b : agree5 a b -> agree5 b a.
  Proof. intros H n Hn. symmetry. apply H; exact Hn. Qed.

  Lemma outcomeG_five s :
    mem_str (rec_name s) five_names = true -> line_outcomeG fok oerr s = line_outcome fok s.
  Proof. intros H. unfold line_outcomeG. cbv zeta. rewrite H. reflexivity. Qed.

  (* a line whose name is not one of the five yields no record and never raises *)
  Lemma outcome_nonfive s :
    mem_str (rec_name s) five_names = false ->
    line_outcome fok s = OSkip \/ line_outcome fok s = OErr.
  Proof.
    intros H. destruct (line_outcome fok s) as [|r| |] eqn:Eo; auto; exfalso.
    - apply outcome_rec_five in Eo. unfold five in Eo. unfold five_names in H. rewrite Eo in H. discriminate.
    - apply lo_raise_coord in Eo. apply Eo. unfold coord_het. simpl in H.
      destruct (rec_name s =? "ATOM"); [discriminate|].
      destruct (rec_name s =? "HETATM"); [discriminate|]. reflexivity.
  Qed.

  Lemma outcomeG_nonfive s :
    mem_str (rec_name s) five_names = false ->
    line_outcomeG fok oerr s = OSkip \/ line_outcomeG fok oerr s = OErr.
  Proof.
    intros H. unfold line_outcomeG. cbv zeta. rewrite H. cbn [orb].
    destruct (negb (mem_str (rec_name s) known_records)); [apply outcome_nonfive; exact H|].
    destruct (oerr s); auto.
  Qed.

  (* one step on such a line: the loop goes on with an errlist that agrees on the five *)
  Lemma step_nonfive x rest acc e :
    is_empty x = false -> mem_str (rec_name (strip x)) five_names = false ->
    exists e', read_loop fok (x :: rest) acc e = read_loop fok rest acc e' /\ agree5 e' e.
  Proof.
    intros Hx H. cbn [read_loop]. rewrite Hx.
    destruct (is_empty (strip x)); [exists e; split; [reflexivity | apply agree5_refl]|].
    destruct (mem_str (rec_name (strip x)) e); [exists e; split; [reflexivity | apply agree5_refl]|].
    destruct (outcome_nonfive _ H) as [E|E]; rewrite E.
    - exists e; split; [reflexivity | apply agree5_refl].
    - eexists; split; [reflexivity | apply agree5_add; exact H].
  Qed.

  Lemma stepG_nonfive x rest acc e :
    is_empty x = false -> mem_str (rec_name (strip x)) five_names = false ->
    exists e', read_loopG fok oerr (x :: rest) acc e = read_loopG fok oerr rest acc e' /\ agree5 e' e.
  Proof.
    intros Hx H. cbn [read_loopG]. rewrite Hx.
    destruct (is_empty (strip x)); [exists e; split; [reflexivity | apply agree5_refl]|].
    destruct (mem_str (rec_name (strip x)) e); [exists e; split; [reflexivity | apply agree5_refl]|].
    destruct (outcomeG_nonfive _ H) as [E|E]; rewrite E.
    - exists e; split; [reflexivity | apply agree5_refl].
    - eexists; split; [reflexivity | apply agree5_add; exact H].
  Qed.

  Lemma loop_eq lines : forall acc e1 e2,
    agree5 e1 e2 ->
    option_map fst (read_loopG fok oerr lines acc e1) = option_map fst (read_loop fok lines acc e2).
  Proof.
    induction lines as [|x rest IH]; intros acc e1 e2 He; [reflexivity|].
    destruct (is_empty x) eqn:Hx; [cbn [read_loopG read_loop]; rewrite Hx; reflexivity|].
    destruct (mem_str (rec_name (strip x)) five_names) eqn:H5.
    - cbn [read_loopG read_loop]. rewrite Hx.
      destruct (is_empty (strip x)); [apply IH; exact He|].
      rewrite (He _ H5). destruct (mem_str (rec_name (strip x)) e2); [apply IH; exact He|].
      rewrite (outcomeG_five _ H5).
      destruct (line_outcome fok (strip x)); try (apply IH; exact He); [|reflexivity].
      apply IH. intros n Hn. rewrite !mem_str_app, (He n Hn). reflexivity.
    - destruct (stepG_nonfive x rest acc e1 Hx H5) as [e1' [E1 A1]].
      destruct (step_nonfive x rest acc e2 Hx H5) as [e2' [E2 A2]].
      rewrite E1, E2. apply IH.
      eapply agree5_trans; [exact A1|]. eapply agree5_trans; [exact He | apply agree5_sym; exact A2].
  Qed.

  Theorem read_pdbG_exact lines :
    option_map fst (read_pdbG fok oerr lines) = option_map fst (read_pdb fok lines).
  Proof. apply loop_eq, agree5_refl. Qed.

  Theorem ingestG_exact d lines : ingestG fok oerr tab d lines = ingest fok tab d lines.
  Proof.
    unfold ingestG, ingest. pose proof (read_pdbG_exact lines) as E.
    destruct (read_pdbG fok oerr lines) as [[r1 e1]|], (read_pdb fok lines) as [[r2 e2]|];
      simpl in E; try discriminate; [injection E as E; subst; reflexivity | reflexivity].
  Qed.

End Other.

Section Other2.
  Variable fok : string -> bool.
  Variable tab : deftab.

  (* plain loop: errlists that agree on the five names give the same records *)
  Lemma loop_agree lines acc e1 e2 :
    agree5 e1 e2 ->
    option_map fst (read_loop fok lines acc e1) = option_map fst (read_loop fok lines acc e2).
  Proof.
    intros H. rewrite <- (loop_eq fok (fun _ => false) lines acc e1 e1 (agree5_refl e1)).
    apply loop_eq. exact H.
  Qed.

  (* a line that is neither a coordinate record nor TER/END/MODEL (ENDMDL included) *)
  Definition other_line (u : string) : Prop :=
    is_empty u = false /\ mem_str (rec_name (strip u)) five_names = false.

  Theorem read_pdb_other l1 u l2 :
    other_line u ->
    option_map fst (read_pdb fok (l1 ++ u :: l2)) = option_map fst (read_pdb fok (l1 ++ l2)).
  Proof.
    intros [Hu H5]. unfold read_pdb. generalize (@nil rec) as acc. generalize (@nil string) as errl.
    induction l1 as [|x l1 IH]; intros errl acc.
    - cbn [app]. destruct (step_nonfive fok u l2 acc errl Hu H5) as [e' [E A]]. rewrite E.
      apply loop_agree. exact A.
    - cbn [app read_loop]. destruct (is_empty x); [reflexivity|].
      destruct (is_empty (strip x)); [apply IH|].
      destruct (mem_str (rec_name (strip x)) errl); [apply IH|].
      destruct (line_outcome fok (strip x)); try apply IH; reflexivity.
  Qed.

  (* C07_other_records_irrelevant, for every behaviour [oerr] of the other parsers *)
  Theorem other_records_irrelevant oerr d l1 u l2 :
    other_line u ->
    ingestG fok oerr tab d (l1 ++ u :: l2) = ingestG fok oerr tab d (l1 ++ l2).
  Proof.
    intros H. rewrite !ingestG_exact. apply ingest_fst. apply read_pdb_other. exact H.
  Qed.

End Other2.
