(* Proofs about Model/CifLine.v (C10). *)
From Coq Require Import String Ascii List Arith ZArith Bool Lia.
From PV Require Import Lib.Strings Lib.Decimal Model.CifLine.
Import ListNotations.
Local Open Scope string_scope.

(* ---- strings: concatenation of segments, slices on segment boundaries ---- *)

Definition cat (l : list string) : string := fold_right append "" l.

Lemma cat_app l1 l2 : cat (l1 ++ l2)%list = cat l1 ++ cat l2.
Proof.
  induction l1 as [|x l IH]; cbn [cat fold_right List.app]; [reflexivity|].
  fold (cat (l ++ l2)%list). fold (cat l). rewrite IH. now rewrite app_assoc_s.
Qed.

Lemma drop_app_len (a b : string) n : String.length a = n -> drop n (a ++ b) = b.
Proof. intros <-. apply drop_app_exact. Qed.

Lemma take_app_len (a b : string) n : String.length a = n -> take n (a ++ b) = a.
Proof. intros <-. apply take_app_exact. Qed.

Lemma take_all (s : string) n : String.length s = n -> take n s = s.
Proof. intros H. pose proof (take_app_len s "" n H) as P. now rewrite app_empty_r in P. Qed.

Lemma slice_mid pre mid post a b :
  String.length pre = a -> String.length mid = b - a ->
  slice a b (pre ++ mid ++ post) = mid.
Proof.
  intros Ha Hb. unfold slice. rewrite (drop_app_len _ _ _ Ha). now apply take_app_len.
Qed.

Lemma firstn_skipn_3 {A} (l : list A) i j :
  l = (firstn i l ++ firstn j (skipn i l) ++ skipn j (skipn i l))%list.
Proof. now rewrite !firstn_skipn. Qed.

(* the slice [a:b] of a concatenation, when a and b fall on segment borders *)
Lemma slice_cat segs i j a b :
  String.length (cat (firstn i segs)) = a ->
  String.length (cat (firstn j (skipn i segs))) = b - a ->
  slice a b (cat segs) = cat (firstn j (skipn i segs)).
Proof.
  intros Ha Hb. rewrite (firstn_skipn_3 segs i j) at 1.
  rewrite !cat_app. now apply slice_mid.
Qed.

Lemma len1 (s : string) : String.length s = 1 -> exists c, s = String c "".
Proof. destruct s as [|c [|d s]]; cbn; intros H; try discriminate. now exists c. Qed.

Lemma char_at_cat segs i a :
  String.length (cat (firstn i segs)) = a ->
  String.length (cat (firstn 1 (skipn i segs))) = 1 ->
  char_at a (cat segs) = Ok (cat (firstn 1 (skipn i segs))).
Proof.
  intros Ha H1. rewrite (firstn_skipn_3 segs i 1) at 1. rewrite !cat_app.
  unfold char_at. rewrite (drop_app_len _ _ _ Ha).
  destruct (len1 _ H1) as [c Hc]. rewrite Hc. reflexivity.
Qed.

(* ---- strip ---------------------------------------------------------------- *)

Lemma is_ws_sp : is_ws sp = true.
Proof. reflexivity. Qed.

Lemma lstrip_blanks n s : lstrip (repeat_char sp n ++ s) = lstrip s.
Proof. induction n as [|n IH]; [reflexivity|]. cbn [repeat_char append lstrip]. now rewrite is_ws_sp. Qed.

Lemma rstrip_all_blank n : rstrip (repeat_char sp n) = "".
Proof. induction n as [|n IH]; [reflexivity|]. cbn [repeat_char rstrip]. rewrite IH, is_ws_sp. reflexivity. Qed.

Lemma rstrip_noblank_app s t :
  any_char is_ws s = false -> s <> "" -> rstrip (s ++ t) = s ++ rstrip t.
Proof.
  induction s as [|c s IH]; intros Hs Hne; [congruence|].
  cbn [any_char] in Hs. apply orb_false_iff in Hs as [Hc Hs].
  cbn [append rstrip]. rewrite Hc. cbn [andb].
  destruct s as [|d s]; [reflexivity|].
  rewrite IH; [reflexivity|exact Hs|discriminate].
Qed.

Lemma strip_pad a b s :
  noblank s = true -> strip (repeat_char sp a ++ s ++ repeat_char sp b) = s.
Proof.
  unfold noblank, strip. intros Hs. apply negb_true_iff in Hs.
  rewrite lstrip_blanks. destruct s as [|c s].
  - cbn [append]. replace (repeat_char sp b) with (repeat_char sp b ++ "") by apply app_empty_r.
    rewrite lstrip_blanks. reflexivity.
  - assert (Hc : is_ws c = false) by (cbn [any_char] in Hs; now apply orb_false_iff in Hs).
    cbn [append lstrip]. rewrite Hc.
    change (String c (s ++ repeat_char sp b)) with (String c s ++ repeat_char sp b).
    rewrite rstrip_noblank_app; [|exact Hs|discriminate].
    rewrite rstrip_all_blank. apply app_empty_r.
Qed.

Lemma strip_noblank s : noblank s = true -> strip s = s.
Proof.
  intros H. pose proof (strip_pad 0 0 s H) as P. cbn [repeat_char append] in P.
  now rewrite app_empty_r in P.
Qed.

Lemma strip_rjust w s : noblank s = true -> strip (rjust w s) = s.
Proof.
  intros H. unfold rjust. pose proof (strip_pad (w - String.length s) 0 s H) as P.
  cbn [repeat_char] in P. now rewrite app_empty_r in P.
Qed.

Lemma strip_ljust w s : noblank s = true -> strip (ljust w s) = s.
Proof. intros H. unfold ljust. exact (strip_pad 0 (w - String.length s) s H). Qed.

Lemma strip_rjust_sp w s : noblank s = true -> strip (rjust w s ++ " ") = s.
Proof.
  intros H. unfold rjust. rewrite app_assoc_s.
  exact (strip_pad (w - String.length s) 1 s H).
Qed.

Lemma strip_sp_ljust w s : noblank s = true -> strip (" " ++ ljust w s) = s.
Proof. intros H. unfold ljust. exact (strip_pad 1 (w - String.length s) s H). Qed.

Lemma strip_sp_rjust w s : noblank s = true -> strip (" " ++ rjust w s) = s.
Proof.
  intros H. unfold rjust. pose proof (strip_pad (S (w - String.length s)) 0 s H) as P.
  cbn [repeat_char append] in P. rewrite app_empty_r in P. exact P.
Qed.

Lemma strip_empty : strip "" = "".
Proof. reflexivity. Qed.

Lemma strip_sp : strip " " = "".
Proof. reflexivity. Qed.

Lemma rjust_S w s : String.length s <= w -> rjust (S w) s = " " ++ rjust w s.
Proof. intros H. unfold rjust. replace (S w - String.length s) with (S (w - String.length s)) by lia. reflexivity. Qed.

Lemma ljust_exact w s : String.length s = w -> ljust w s = s.
Proof. intros H. unfold ljust. rewrite H, Nat.sub_diag. apply app_empty_r. Qed.

Lemma rjust_exact w s : String.length s = w -> rjust w s = s.
Proof. intros H. unfold rjust. rewrite H, Nat.sub_diag. reflexivity. Qed.

Lemma ljust1_empty : ljust 1 "" = " ".
Proof. reflexivity. Qed.

(* ---- guards unpacked -------------------------------------------------------- *)

Lemma okv_inv lo hi s : okv lo hi s = true ->
  noblank s = true /\ lo <= String.length s /\ String.length s <= hi.
Proof.
  unfold okv. intros H. apply andb_true_iff in H as [H H3]. apply andb_true_iff in H as [H1 H2].
  apply Nat.leb_le in H2, H3. auto.
Qed.

Lemma tokp_inv p it : tokp p it = true -> exists s, it = Tok s /\ p s = true.
Proof. destruct it; cbn; try discriminate. eauto. Qed.

Lemma is_int_inv s : is_int s = true -> exists z, py_int s = Ok z.
Proof. unfold is_int. destruct (py_int s); [eauto|discriminate]. Qed.

Lemma item_eqb_inv a b : item_eqb a b = true -> exists s, a = Tok s /\ b = Tok s.
Proof.
  destruct a, b; cbn; try discriminate. intros H. apply String.eqb_eq in H. subst. eauto.
Qed.

Lemma spec_kind_inv r k : spec_kind r = Some k -> group_PDB r = Tok (kind_name k).
Proof.
  unfold spec_kind. destruct (group_PDB r) as [| | |g]; try discriminate.
  destruct (String.eqb g "ATOM") eqn:E1.
  - apply String.eqb_eq in E1. intros H; inversion H. now subst.
  - destruct (String.eqb g "HETATM") eqn:E2; [|discriminate].
    apply String.eqb_eq in E2. intros H; inversion H. now subst.
Qed.

(* ---- parse_atom from its column facts ---------------------------------------- *)

Lemma parse_atom_ok k line s6 serial a16 c21 s22 sq c26 :
  strip (slice 0 6 line) = kind_name k ->
  strip (slice 6 11 line) = s6 -> py_int s6 = Ok serial ->
  char_at 16 line = Ok a16 ->
  char_at 21 line = Ok c21 ->
  strip (slice 22 26 line) = s22 -> py_int s22 = Ok sq ->
  char_at 26 line = Ok c26 ->
  parse_atom k line =
    Ok {| f_kind := k; f_serial := serial; f_name := strip (slice 12 16 line);
          f_alt := strip a16; f_resname := strip (slice 17 20 line);
          f_chain := strip c21; f_resseq := sq; f_ins := strip c26;
          f_x := strip (slice 30 38 line); f_y := strip (slice 38 46 line);
          f_z := strip (slice 46 54 line);
          f_occ := strip (slice 54 60 line); f_tf := strip (slice 60 66 line);
          f_seg := strip (slice 72 76 line); f_elem := strip (slice 76 78 line);
          f_chg := strip (slice 78 80 line) |}.
Proof.
  intros H0 H6 Hs H16 H21 H22 Hq H26. unfold parse_atom.
  rewrite H0, String.eqb_refl. cbn [negb]. rewrite H6, Hs. cbn [bind].
  rewrite H16. cbn [bind]. rewrite H21. cbn [bind]. rewrite H22, Hq. cbn [bind].
  rewrite H26. cbn [bind]. destruct k; reflexivity.
Qed.

(* whatever else happens, a successful parse takes the chain from column 22 *)
Lemma parse_atom_chain k line f c :
  parse_atom k line = Ok f -> char_at 21 line = Ok c -> f_chain f = strip c.
Proof.
  unfold parse_atom. intros H Hc.
  destruct (negb _); [discriminate|].
  destruct (py_int (strip (slice 6 11 line))); [|discriminate]. cbn [bind] in H.
  destruct (char_at 16 line); [|discriminate]. cbn [bind] in H.
  rewrite Hc in H. cbn [bind] in H.
  destruct (py_int (strip (slice 22 26 line))); cbn [bind] in H.
  - destruct (char_at 26 line) as [ic|e]; cbn [bind] in H.
    + destruct k; cbn in H; inversion H; reflexivity.
    + destruct k, e; cbn in H; discriminate.
  - destruct k, e; cbn in H; discriminate.
Qed.

(* ---- a line made of pieces with the PDB column widths parses to the strips
        of the pieces ---------------------------------------------------------- *)

Ltac lens :=
  cbn [firstn skipn cat fold_right];
  repeat rewrite length_app; rewrite ?length_rjust, ?length_ljust;
  cbn [String.length]; lia.

Section Columns.
  Variables (k : kind) (c0 c6 c11 c12 c16 c17 c20 c21 c22 c26 c27 c30 c38 c46 : string).
  Variables (serial sq : Z).
  Hypothesis L0 : String.length c0 = 6.
  Hypothesis L6 : String.length c6 = 5.
  Hypothesis L11 : String.length c11 = 1.
  Hypothesis L12 : String.length c12 = 4.
  Hypothesis L16 : String.length c16 = 1.
  Hypothesis L17 : String.length c17 = 3.
  Hypothesis L20 : String.length c20 = 1.
  Hypothesis L21 : String.length c21 = 1.
  Hypothesis L22 : String.length c22 = 4.
  Hypothesis L26 : String.length c26 = 1.
  Hypothesis L27 : String.length c27 = 3.
  Hypothesis L30 : String.length c30 = 8.
  Hypothesis L38 : String.length c38 = 8.
  Hypothesis L46 : String.length c46 = 8.
  Hypothesis K0 : strip c0 = kind_name k.
  Hypothesis K6 : py_int (strip c6) = Ok serial.
  Hypothesis K22 : py_int (strip c22) = Ok sq.

  Definition primary_of_cols :=
    (k, serial, strip c12, strip c16, strip c17, strip c21, sq, strip c26,
     strip c30, strip c38, strip c46).

  Lemma parse_cols_primary rest :
    exists f,
      parse_atom k (cat [c0; c6; c11; c12; c16; c17; c20; c21; c22; c26; c27; c30; c38; c46; rest]) = Ok f
      /\ primary f = primary_of_cols.
  Proof.
    set (SG := [c0; c6; c11; c12; c16; c17; c20; c21; c22; c26; c27; c30; c38; c46; rest]).
    assert (F0 : slice 0 6 (cat SG) = c0)
      by (rewrite (slice_cat SG 0 1 0 6) by (unfold SG; lens); unfold SG; cbn [firstn skipn cat fold_right]; apply app_empty_r).
    assert (F6 : slice 6 11 (cat SG) = c6)
      by (rewrite (slice_cat SG 1 1 6 11) by (unfold SG; lens); unfold SG; cbn [firstn skipn cat fold_right]; apply app_empty_r).
    assert (F12 : slice 12 16 (cat SG) = c12)
      by (rewrite (slice_cat SG 3 1 12 16) by (unfold SG; lens); unfold SG; cbn [firstn skipn cat fold_right]; apply app_empty_r).
    assert (F16 : char_at 16 (cat SG) = Ok c16)
      by (rewrite (char_at_cat SG 4 16) by (unfold SG; lens); unfold SG; cbn [firstn skipn cat fold_right]; now rewrite app_empty_r).
    assert (F17 : slice 17 20 (cat SG) = c17)
      by (rewrite (slice_cat SG 5 1 17 20) by (unfold SG; lens); unfold SG; cbn [firstn skipn cat fold_right]; apply app_empty_r).
    assert (F21 : char_at 21 (cat SG) = Ok c21)
      by (rewrite (char_at_cat SG 7 21) by (unfold SG; lens); unfold SG; cbn [firstn skipn cat fold_right]; now rewrite app_empty_r).
    assert (F22 : slice 22 26 (cat SG) = c22)
      by (rewrite (slice_cat SG 8 1 22 26) by (unfold SG; lens); unfold SG; cbn [firstn skipn cat fold_right]; apply app_empty_r).
    assert (F26 : char_at 26 (cat SG) = Ok c26)
      by (rewrite (char_at_cat SG 9 26) by (unfold SG; lens); unfold SG; cbn [firstn skipn cat fold_right]; now rewrite app_empty_r).
    assert (F30 : slice 30 38 (cat SG) = c30)
      by (rewrite (slice_cat SG 11 1 30 38) by (unfold SG; lens); unfold SG; cbn [firstn skipn cat fold_right]; apply app_empty_r).
    assert (F38 : slice 38 46 (cat SG) = c38)
      by (rewrite (slice_cat SG 12 1 38 46) by (unfold SG; lens); unfold SG; cbn [firstn skipn cat fold_right]; apply app_empty_r).
    assert (F46 : slice 46 54 (cat SG) = c46)
      by (rewrite (slice_cat SG 13 1 46 54) by (unfold SG; lens); unfold SG; cbn [firstn skipn cat fold_right]; apply app_empty_r).
    eexists. split.
    - apply (parse_atom_ok k (cat SG) (strip c6) serial c16 c21 (strip c22) sq c26);
        rewrite ?F0, ?F6, ?F22; auto.
    - unfold primary, primary_of_cols. cbn [f_kind f_serial f_name f_alt f_resname f_chain f_resseq f_ins f_x f_y f_z].
      rewrite F12, F17, F30, F38, F46. reflexivity.
  Qed.

  Variables (c54 c60 c66 c72 c76 c78 : string).
  Hypothesis L54 : String.length c54 = 6.
  Hypothesis L60 : String.length c60 = 6.
  Hypothesis L66 : String.length c66 = 6.
  Hypothesis L72 : String.length c72 = 4.
  Hypothesis L76 : String.length c76 = 2.

  Lemma parse_cols_full :
    parse_atom k (cat [c0; c6; c11; c12; c16; c17; c20; c21; c22; c26; c27; c30; c38; c46;
                       c54; c60; c66; c72; c76; c78]) =
    Ok {| f_kind := k; f_serial := serial; f_name := strip c12; f_alt := strip c16;
          f_resname := strip c17; f_chain := strip c21; f_resseq := sq; f_ins := strip c26;
          f_x := strip c30; f_y := strip c38; f_z := strip c46;
          f_occ := strip c54; f_tf := strip c60; f_seg := strip c72; f_elem := strip c76;
          f_chg := strip (take 2 c78) |}.
  Proof.
    set (SG := [c0; c6; c11; c12; c16; c17; c20; c21; c22; c26; c27; c30; c38; c46; c54; c60; c66; c72; c76; c78]).
    assert (F0 : slice 0 6 (cat SG) = c0)
      by (rewrite (slice_cat SG 0 1 0 6) by (unfold SG; lens); unfold SG; cbn [firstn skipn cat fold_right]; apply app_empty_r).
    assert (F6 : slice 6 11 (cat SG) = c6)
      by (rewrite (slice_cat SG 1 1 6 11) by (unfold SG; lens); unfold SG; cbn [firstn skipn cat fold_right]; apply app_empty_r).
    assert (F12 : slice 12 16 (cat SG) = c12)
      by (rewrite (slice_cat SG 3 1 12 16) by (unfold SG; lens); unfold SG; cbn [firstn skipn cat fold_right]; apply app_empty_r).
    assert (F16 : char_at 16 (cat SG) = Ok c16)
      by (rewrite (char_at_cat SG 4 16) by (unfold SG; lens); unfold SG; cbn [firstn skipn cat fold_right]; now rewrite app_empty_r).
    assert (F17 : slice 17 20 (cat SG) = c17)
      by (rewrite (slice_cat SG 5 1 17 20) by (unfold SG; lens); unfold SG; cbn [firstn skipn cat fold_right]; apply app_empty_r).
    assert (F21 : char_at 21 (cat SG) = Ok c21)
      by (rewrite (char_at_cat SG 7 21) by (unfold SG; lens); unfold SG; cbn [firstn skipn cat fold_right]; now rewrite app_empty_r).
    assert (F22 : slice 22 26 (cat SG) = c22)
      by (rewrite (slice_cat SG 8 1 22 26) by (unfold SG; lens); unfold SG; cbn [firstn skipn cat fold_right]; apply app_empty_r).
    assert (F26 : char_at 26 (cat SG) = Ok c26)
      by (rewrite (char_at_cat SG 9 26) by (unfold SG; lens); unfold SG; cbn [firstn skipn cat fold_right]; now rewrite app_empty_r).
    assert (F30 : slice 30 38 (cat SG) = c30)
      by (rewrite (slice_cat SG 11 1 30 38) by (unfold SG; lens); unfold SG; cbn [firstn skipn cat fold_right]; apply app_empty_r).
    assert (F38 : slice 38 46 (cat SG) = c38)
      by (rewrite (slice_cat SG 12 1 38 46) by (unfold SG; lens); unfold SG; cbn [firstn skipn cat fold_right]; apply app_empty_r).
    assert (F46 : slice 46 54 (cat SG) = c46)
      by (rewrite (slice_cat SG 13 1 46 54) by (unfold SG; lens); unfold SG; cbn [firstn skipn cat fold_right]; apply app_empty_r).
    assert (F54 : slice 54 60 (cat SG) = c54)
      by (rewrite (slice_cat SG 14 1 54 60) by (unfold SG; lens); unfold SG; cbn [firstn skipn cat fold_right]; apply app_empty_r).
    assert (F60 : slice 60 66 (cat SG) = c60)
      by (rewrite (slice_cat SG 15 1 60 66) by (unfold SG; lens); unfold SG; cbn [firstn skipn cat fold_right]; apply app_empty_r).
    assert (F72 : slice 72 76 (cat SG) = c72)
      by (rewrite (slice_cat SG 17 1 72 76) by (unfold SG; lens); unfold SG; cbn [firstn skipn cat fold_right]; apply app_empty_r).
    assert (F76 : slice 76 78 (cat SG) = c76)
      by (rewrite (slice_cat SG 18 1 76 78) by (unfold SG; lens); unfold SG; cbn [firstn skipn cat fold_right]; apply app_empty_r).
    assert (F78 : slice 78 80 (cat SG) = take 2 c78).
    { rewrite (firstn_skipn_3 SG 19 1) at 1. rewrite !cat_app. unfold slice.
      rewrite drop_app_len by (unfold SG; lens).
      unfold SG; cbn [firstn skipn cat fold_right]. now rewrite !app_empty_r. }
    rewrite (parse_atom_ok k (cat SG) (strip c6) serial c16 c21 (strip c22) sq c26);
      rewrite ?F0, ?F6, ?F22; auto.
    rewrite F12, F17, F30, F38, F46, F54, F60, F72, F76, F78. reflexivity.
  Qed.
End Columns.

(* ---- the spec writer round-trips through the parser ----------------------------- *)

Lemma len_pdb_name nm el : String.length nm <= 4 -> String.length (pdb_name nm el) = 4.
Proof.
  intros H. unfold pdb_name.
  destruct ((String.length nm <? 4)%nat && (String.length el <? 2)%nat) eqn:E.
  - apply andb_true_iff in E as [E _]. apply Nat.ltb_lt in E.
    cbn [append String.length]. rewrite length_ljust. lia.
  - rewrite length_ljust. lia.
Qed.

Lemma strip_pdb_name nm el : noblank nm = true -> strip (pdb_name nm el) = nm.
Proof.
  intros H. unfold pdb_name. destruct (_ && _).
  - now apply strip_sp_ljust.
  - now apply strip_ljust.
Qed.

Lemma len_pdb_charge it : String.length (pdb_charge it) = 2.
Proof.
  unfold pdb_charge, charge_cols. destruct it as [| | |s]; try reflexivity.
  destruct (py_int s) as [z|]; [|reflexivity].
  destruct (digit1 (Z.abs z)); reflexivity.
Qed.

Lemma plain1_inv s : plain1 s = true ->
  String.length s = 1 /\ noblank s = true /\ is_missing (Some s) = false.
Proof.
  unfold plain1. intros H. apply andb_true_iff in H as [H1 H2].
  apply okv_inv in H1 as (Hn & L1 & L2). apply negb_true_iff in H2.
  split; [lia|]. split; [exact Hn|].
  apply orb_false_iff in H2 as [Hd Hq].
  cbn [is_missing]. rewrite Hd, Hq, !orb_false_r.
  destruct s; [cbn in L1; lia|reflexivity].
Qed.

(* alt / insertion code column of the spec: blank when missing *)
Lemma col1 it : missing_or plain1 it = true ->
  String.length (ljust 1 (tok_or "" it)) = 1 /\ strip (ljust 1 (tok_or "" it)) = tok_or "" it.
Proof.
  destruct it as [| | |s]; cbn [missing_or tok_or]; intros H; try discriminate; try (split; reflexivity).
  apply plain1_inv in H as (L & Hn & _). split.
  - rewrite length_ljust. lia.
  - now apply strip_ljust.
Qed.

Lemma mv_ok_inv mv : mv_ok mv = true -> is_missing (mv_dot mv) = true /\ is_missing (mv_qm mv) = true.
Proof. unfold mv_ok. intros H. now apply andb_true_iff in H. Qed.

(* the same column as the repaired code computes it: " " if v in _MISSING else v *)
Lemma col1_code mv it : mv_ok mv = true -> missing_or plain1 it = true ->
  exists v, get mv it = Ok v /\ (if is_missing v then " " else py_str v) = ljust 1 (tok_or "" it).
Proof.
  intros Hmv H. destruct (mv_ok_inv _ Hmv) as [Hd Hq].
  destruct it as [| | |s]; cbn [missing_or] in H; try discriminate.
  - exists (mv_dot mv). split; [reflexivity|]. rewrite Hd. reflexivity.
  - exists (mv_qm mv). split; [reflexivity|]. rewrite Hq. reflexivity.
  - apply plain1_inv in H as (L & _ & Hm). exists (Some s). split; [reflexivity|].
    rewrite Hm. cbn [py_str tok_or]. symmetry. now apply ljust_exact.
Qed.

(* the name field as the repaired code computes it *)
Lemma name_code nm el : String.length nm <= 4 ->
  ljust 4 (if (if (String.length nm <? 4)%nat then (String.length el <? 2)%nat else false)
           then " " ++ nm else nm) = pdb_name nm el.
Proof.
  intros L. unfold pdb_name.
  destruct (String.length nm <? 4)%nat eqn:E4; cbn [andb]; [|reflexivity].
  destruct (String.length el <? 2)%nat; [|reflexivity].
  unfold ljust. cbn [append String.length Nat.sub]. reflexivity.
Qed.

Lemma rjust1_ljust1 s : String.length s = 1 -> rjust 1 s = ljust 1 s.
Proof. intros H. now rewrite (rjust_exact 1 s H), (ljust_exact 1 s H). Qed.

Tactic Notation "tok" hyp(H) ident(s) ident(Hs) :=
  let E := fresh "E" in destruct (tokp_inv _ _ H) as (s & E & Hs); rewrite E in *; clear E.

Ltac projs :=
  cbn [group_PDB id type_symbol label_atom_id label_alt_id label_comp_id label_asym_id
       pdbx_PDB_ins_code Cartn_x Cartn_y Cartn_z occupancy B_iso_or_equiv pdbx_formal_charge
       auth_seq_id auth_comp_id auth_asym_id auth_atom_id pdbx_PDB_model_num] in *.

Definition vfacts (lo hi : nat) (s : string) : Prop :=
  noblank s = true /\ lo <= String.length s /\ String.length s <= hi.

Lemma okvp_inv lo hi s : okvp lo hi s = true ->
  vfacts lo hi s /\ not_marker s = true.
Proof.
  unfold okvp. intros H. apply andb_true_iff in H as [H1 H2]. split; [now apply okv_inv|exact H2].
Qed.

Lemma not_marker_missing s : not_marker s = true -> 1 <= String.length s -> is_missing (Some s) = false.
Proof.
  unfold not_marker. intros H L. apply negb_true_iff in H. apply orb_false_iff in H as [Hd Hq].
  cbn [is_missing]. rewrite Hd, Hq, !orb_false_r. destruct s; [cbn in L; lia|reflexivity].
Qed.

Lemma expressible_inv r k :
  expressible r = true -> spec_kind r = Some k ->
  exists sid snm scomp sasym sseq sx sy sz socc sb sts serial sq,
    (group_PDB r = Tok (kind_name k) /\ id r = Tok sid /\ name_item r = Tok snm /\
     comp_item r = Tok scomp /\ auth_asym_id r = Tok sasym /\ auth_seq_id r = Tok sseq) /\
    (Cartn_x r = Tok sx /\ Cartn_y r = Tok sy /\ Cartn_z r = Tok sz /\
     occupancy r = Tok socc /\ B_iso_or_equiv r = Tok sb /\ type_symbol r = Tok sts) /\
    (vfacts 1 5 sid /\ py_int sid = Ok serial) /\ (vfacts 1 4 snm /\ not_marker snm = true) /\
    (vfacts 1 3 scomp /\ not_marker scomp = true) /\
    vfacts 1 1 sasym /\ (vfacts 1 4 sseq /\ py_int sseq = Ok sq) /\
    (vfacts 1 8 sx /\ vfacts 1 8 sy /\ vfacts 1 8 sz) /\
    (vfacts 1 6 socc /\ vfacts 1 6 sb /\ vfacts 1 2 sts) /\
    missing_or plain1 (label_alt_id r) = true /\
    missing_or plain1 (pdbx_PDB_ins_code r) = true /\
    missing_or noblank (pdbx_formal_charge r) = true.
Proof.
  intros HE HK. pose proof (spec_kind_inv _ _ HK) as HG.
  unfold expressible in HE. rewrite HK in HE.
  apply andb_true_iff in HE as [HE Hchg]. apply andb_true_iff in HE as [HE Hts].
  apply andb_true_iff in HE as [HE Hb]. apply andb_true_iff in HE as [HE Hocc].
  apply andb_true_iff in HE as [HE Hz]. apply andb_true_iff in HE as [HE Hy].
  apply andb_true_iff in HE as [HE Hx]. apply andb_true_iff in HE as [HE Hins].
  apply andb_true_iff in HE as [HE Hseq]. apply andb_true_iff in HE as [HE Hasym].
  apply andb_true_iff in HE as [HE Hcomp]. apply andb_true_iff in HE as [HE Halt].
  apply andb_true_iff in HE as [HE Hnm]. apply andb_true_iff in HE as [_ Hid].
  destruct (tokp_inv _ _ Hid) as (sid & Eid & Hid'). apply andb_true_iff in Hid' as [Hid1 Hid2].
  destruct (tokp_inv _ _ Hnm) as (snm & Enm & Hnm'). apply okvp_inv in Hnm'.
  destruct (tokp_inv _ _ Hcomp) as (scomp & Ecomp & Hcomp'). apply okvp_inv in Hcomp'.
  destruct (tokp_inv _ _ Hasym) as (sasym & Easym & Hasym').
  destruct (tokp_inv _ _ Hseq) as (sseq & Eseq & Hseq'). apply andb_true_iff in Hseq' as [Hseq1 Hseq2].
  destruct (tokp_inv _ _ Hx) as (sx & Ex & Hx'). destruct (tokp_inv _ _ Hy) as (sy & Ey & Hy').
  destruct (tokp_inv _ _ Hz) as (sz & Ez & Hz'). destruct (tokp_inv _ _ Hocc) as (socc & Eocc & Hocc').
  destruct (tokp_inv _ _ Hb) as (sb & Eb & Hb'). destruct (tokp_inv _ _ Hts) as (sts & Ets & Hts').
  destruct (is_int_inv _ Hid2) as [serial Hserial]. destruct (is_int_inv _ Hseq2) as [sq Hsq].
  exists sid, snm, scomp, sasym, sseq, sx, sy, sz, socc, sb, sts, serial, sq.
  destruct Hnm' as [(? & ? & ?) ?]. destruct Hcomp' as [(? & ? & ?) ?].
  unfold vfacts. repeat split; auto; try (now apply okv_inv); eapply okv_inv; eauto.
Qed.

(* ---- a line made of the standard PDB pieces parses to the pieces --------------------- *)

Lemma parse_std k sid snm sts calt a scomp sasym sseq cins ic sx sy sz socc sb c78 serial sq :
  vfacts 1 5 sid -> py_int sid = Ok serial -> vfacts 1 4 snm -> vfacts 1 3 scomp -> vfacts 1 1 sasym ->
  vfacts 1 4 sseq -> py_int sseq = Ok sq -> vfacts 1 8 sx -> vfacts 1 8 sy -> vfacts 1 8 sz ->
  vfacts 1 6 socc -> vfacts 1 6 sb -> vfacts 1 2 sts ->
  String.length calt = 1 -> strip calt = a -> String.length cins = 1 -> strip cins = ic ->
  parse_atom k (cat [ljust 6 (kind_name k); rjust 5 sid; " "; pdb_name snm sts; calt; rjust 3 scomp; " ";
                     ljust 1 sasym; rjust 4 sseq; cins; "   "; rjust 8 sx; rjust 8 sy; rjust 8 sz;
                     rjust 6 socc; rjust 6 sb; "      "; "    "; rjust 2 sts; c78]) =
  Ok {| f_kind := k; f_serial := serial; f_name := snm; f_alt := a; f_resname := scomp; f_chain := sasym;
        f_resseq := sq; f_ins := ic; f_x := sx; f_y := sy; f_z := sz; f_occ := socc; f_tf := sb;
        f_seg := ""; f_elem := sts; f_chg := strip (take 2 c78) |}.
Proof.
  intros (Nid & Lid1 & Lid2) Hserial (Nnm & Lnm1 & Lnm2) (Ncomp & Lcomp1 & Lcomp2) (Nasym & Lasym1 & Lasym2)
         (Nseq & Lseq1 & Lseq2) Hsq (Nx & Lx1 & Lx2) (Ny & Ly1 & Ly2) (Nz & Lz1 & Lz2)
         (Nocc & Locc1 & Locc2) (Nb & Lb1 & Lb2) (Nts & Lts1 & Lts2) LA SA LI SI.
  pose proof (len_pdb_name snm sts Lnm2) as LN.
  rewrite (parse_cols_full k _ _ _ _ _ _ _ _ _ _ _ _ _ _ serial sq); try lens.
  - rewrite (strip_pdb_name _ _ Nnm), SA, SI, !strip_rjust, (strip_ljust 1 sasym Nasym) by assumption.
    reflexivity.
  - destruct k; reflexivity.
  - destruct k; reflexivity.
  - rewrite strip_rjust by assumption. exact Hserial.
  - rewrite strip_rjust by assumption. exact Hsq.
Qed.

(* ---- the spec writer round-trips through the parser ----------------------------- *)

Theorem spec_roundtrip : forall r k,
  expressible r = true -> spec_kind r = Some k ->
  exists serial seq,
    py_int (tok_or "" (id r)) = Ok serial /\ py_int (tok_or "" (auth_seq_id r)) = Ok seq /\
    parse_atom k (pdb_line_of_row r) = Ok (fields_of_row k serial seq r).
Proof.
  intros r k HE HK.
  destruct (expressible_inv r k HE HK) as
    (sid & snm & scomp & sasym & sseq & sx & sy & sz & socc & sb & sts & serial & sq &
     (Eg & Eid & Enm & Ecomp & Easym & Eseq) & (Ex & Ey & Ez & Eocc & Eb & Ets) &
     (Fid & Hserial) & (Fnm & _) & (Fcomp & _) & Fasym & (Fseq & Hsq) & (Fx & Fy & Fz) & (Focc & Fb & Fts) & Halt & Hins & Hchg).
  destruct (col1 _ Halt) as [LA SA]. destruct (col1 _ Hins) as [LI SI].
  exists serial, sq. rewrite Eid, Eseq. cbn [tok_or]. split; [exact Hserial|]. split; [exact Hsq|].
  unfold pdb_line_of_row, fields_of_row, fields_of_row_chg.
  rewrite Eg, Eid, Enm, Ecomp, Easym, Eseq, Ex, Ey, Ez, Eocc, Eb, Ets. cbn [tok_or].
  pose proof (len_pdb_charge (pdbx_formal_charge r)) as LC.
  match goal with |- parse_atom k ?L = _ =>
    replace L with (cat [ljust 6 (kind_name k); rjust 5 sid; " "; pdb_name snm sts; ljust 1 (tok_or "" (label_alt_id r));
                         rjust 3 scomp; " "; ljust 1 sasym; rjust 4 sseq; ljust 1 (tok_or "" (pdbx_PDB_ins_code r)); "   ";
                         rjust 8 sx; rjust 8 sy; rjust 8 sz; rjust 6 socc; rjust 6 sb; "      "; "    ";
                         rjust 2 sts; pdb_charge (pdbx_formal_charge r)])
      by (cbn [cat fold_right]; rewrite app_empty_r; reflexivity)
  end.
  rewrite (parse_std k sid snm sts _ (tok_or "" (label_alt_id r)) scomp sasym sseq _ (tok_or "" (pdbx_PDB_ins_code r))
             sx sy sz socc sb _ serial sq); try assumption.
  rewrite (take_all _ 2 LC). reflexivity.
Qed.

(* ---- the CIF path: the repaired code assembles exactly the PDB record --------------------- *)

Lemma row_kind_tok mv k r : group_PDB r = Tok (kind_name k) -> row_kind mv r = Ok (Some k).
Proof. intros H. unfold row_kind. rewrite H. destruct k; reflexivity. Qed.

(* _auth_or_label returns the name the row denotes *)
Lemma pick_code mv a l s : mv_ok mv = true -> eff a l = Tok s -> is_missing (Some s) = false ->
  pick mv a l = Ok (Some s).
Proof.
  intros Hmv He Hs. destruct (mv_ok_inv _ Hmv) as [Hd Hq].
  destruct a as [| | |t]; cbn [eff] in He; cbn [pick get bind].
  - rewrite He. reflexivity.
  - rewrite Hd, He. reflexivity.
  - rewrite Hq, He. reflexivity.
  - inversion He; subst t. rewrite Hs. reflexivity.
Qed.

(* _pdb_charge computes the spec's columns 79-80 *)
Lemma charge_code mv chg : mv_ok mv = true -> missing_or noblank chg = true ->
  exists v, get mv chg = Ok v /\ pdb_charge_v v = pdb_charge chg.
Proof.
  intros Hmv H. destruct (mv_ok_inv _ Hmv) as [Hd Hq].
  destruct chg as [| | |s]; cbn [missing_or] in H; try discriminate.
  - exists (mv_dot mv). split; [reflexivity|]. unfold pdb_charge_v. rewrite Hd. reflexivity.
  - exists (mv_qm mv). split; [reflexivity|]. unfold pdb_charge_v. rewrite Hq. reflexivity.
  - exists (Some s). split; [reflexivity|]. unfold pdb_charge_v, pdb_charge.
    destruct (is_missing (Some s)) eqn:E; [|reflexivity].
    cbn [is_missing] in E. apply orb_true_iff in E as [E|E]; [apply orb_true_iff in E as [E|E]|];
      apply String.eqb_eq in E; subst s; reflexivity.
Qed.

Theorem cif_line_is_pdb_record : forall mv r k,
  mv_ok mv = true -> expressible r = true -> spec_kind r = Some k ->
  row_line mv r = Ok (Some (k, pdb_line_of_row r)).
Proof.
  intros mv r k Hmv HE HK.
  destruct (expressible_inv r k HE HK) as
    (sid & snm & scomp & sasym & sseq & sx & sy & sz & socc & sb & sts & serial & sq &
     (Eg & Eid & Enm & Ecomp & Easym & Eseq) & (Ex & Ey & Ez & Eocc & Eb & Ets) &
     (Fid & Hserial) & (Fnm & Mnm) & (Fcomp & Mcomp) & Fasym & (Fseq & Hsq) & (Fx & Fy & Fz) & (Focc & Fb & Fts) & Halt & Hins & Hchg).
  pose proof (row_kind_tok mv k r Eg) as HRK.
  destruct (col1_code mv _ Hmv Halt) as (valt & Ealt & Calt).
  destruct (col1_code mv _ Hmv Hins) as (vins & Eins & Cins).
  destruct (charge_code mv _ Hmv Hchg) as (vch & Ech & Cch).
  pose proof Fnm as (_ & Lnm1 & Lnm4). pose proof Fcomp as (_ & Lc1 & _). pose proof Fasym as (_ & La1 & La2).
  pose proof (pick_code mv _ _ snm Hmv Enm (not_marker_missing snm Mnm Lnm1)) as Pnm.
  pose proof (pick_code mv _ _ scomp Hmv Ecomp (not_marker_missing scomp Mcomp Lc1)) as Pcomp.
  pose proof (name_code snm sts Lnm4) as Hname.
  assert (La : String.length sasym = 1) by lia.
  unfold row_line. rewrite HRK. cbn [bind].
  unfold assemble. rewrite Pnm, Pcomp, Ealt, Eins, Ech, Eid, Ets, Easym, Eseq, Ex, Ey, Ez, Eocc, Eb.
  cbn [get bind py_str ljust_v rjust_v need_str].
  assert (HP : (if (String.length snm <? 4)%nat then @Ok bool (String.length sts <? 2)%nat else Ok false)
               = Ok (if (String.length snm <? 4)%nat then (String.length sts <? 2)%nat else false))
    by (destruct (String.length snm <? 4)%nat; reflexivity).
  rewrite HP. clear HP. cbn [bind]. rewrite Hname, Calt, Cins, Cch, (rjust1_ljust1 sasym La).
  assert (Hl0 : match k with KATOM => ljust 6 (kind_name k) | KHETATM => kind_name k end = ljust 6 (kind_name k))
    by (destruct k; reflexivity).
  rewrite Hl0. clear Hl0.
  unfold pdb_line_of_row. rewrite Eg, Eid, Enm, Ecomp, Easym, Eseq, Ex, Ey, Ez, Eocc, Eb, Ets. cbn [tok_or].
  do 3 f_equal. rewrite !app_assoc_s. reflexivity.
Qed.

(* mmCIF = PDB for EVERY expressible row and every covered convention: the line is the PDB
   record, so all sixteen parsed fields are those of the atom the row denotes *)
Theorem cif_eq_pdb : forall mv r,
  mv_ok mv = true -> expressible r = true ->
  exists k serial seq,
    spec_kind r = Some k /\
    row_fields mv r = Ok (Some (pdb_line_of_row r, fields_of_row k serial seq r)) /\
    parse_atom k (pdb_line_of_row r) = Ok (fields_of_row k serial seq r).
Proof.
  intros mv r Hmv HE.
  assert (HKe : exists k, spec_kind r = Some k).
  { unfold expressible in HE. repeat (apply andb_true_iff in HE; destruct HE as [HE _]).
    destruct (spec_kind r); [eauto|discriminate]. }
  destruct HKe as [k HK].
  destruct (spec_roundtrip r k HE HK) as (serial & seq & _ & _ & H3).
  exists k, serial, seq. split; [exact HK|]. split; [|exact H3].
  unfold row_fields. rewrite (cif_line_is_pdb_record mv r k Hmv HE HK). cbn [bind]. rewrite H3. reflexivity.
Qed.

(* ---- the property on one row ------------------------------------------------------ *)

Lemma kind_eqb_eq a b : kind_eqb a b = true <-> a = b.
Proof. destruct a, b; cbn; split; intros; congruence. Qed.

Lemma primary_eqb_eq f g : primary_eqb f g = true <-> primary f = primary g.
Proof.
  unfold primary_eqb, primary. split.
  - intros H. repeat (apply andb_true_iff in H; destruct H as [H ?]).
    apply kind_eqb_eq in H.
    repeat match goal with
           | X : String.eqb _ _ = true |- _ => apply String.eqb_eq in X
           | X : (_ =? _)%Z = true |- _ => apply Z.eqb_eq in X
           end. congruence.
  - intros H. inversion H.
    repeat (apply andb_true_iff; split);
      try apply String.eqb_refl; try apply Z.eqb_refl. now apply kind_eqb_eq.
Qed.

Lemma agrees_iff mv r : agrees mv r <-> agreesb mv r = true.
Proof.
  unfold agrees, agreesb. split.
  - intros (k & l & f & fs & Hk & Hr & Hp & He). rewrite Hk, Hr, Hp. now apply primary_eqb_eq.
  - destruct (spec_kind r) as [k|]; [|discriminate].
    destruct (row_fields mv r) as [[[l f]|]|] eqn:Hr; try discriminate.
    destruct (parse_atom k (pdb_line_of_row r)) as [fs|] eqn:Hp; try discriminate.
    intros H. exists k, l, f, fs. split; [reflexivity|]. split; [reflexivity|]. split; [exact Hp|].
    now apply primary_eqb_eq.
Qed.

Lemma guard_expressible r : guard r = true -> expressible r = true.
Proof. intros H. exact H. Qed.

Lemma Ok_inj {A} (a b : A) : Ok a = Ok b -> a = b.
Proof. congruence. Qed.

(* the statement in the shape the loop lemmas (and Proofs/CleanRunCif.v) use; guard = expressible *)
Theorem cif_eq_pdb_partial : forall mv r,
  mv_ok mv = true -> guard r = true ->
  exists k serial seq l f,
    spec_kind r = Some k /\
    row_fields mv r = Ok (Some (l, f)) /\
    parse_atom k (pdb_line_of_row r) = Ok (fields_of_row k serial seq r) /\
    primary f = primary (fields_of_row k serial seq r).
Proof.
  intros mv r Hmv HG.
  destruct (cif_eq_pdb mv r Hmv HG) as (k & serial & seq & H1 & H2 & H3).
  exists k, serial, seq, (pdb_line_of_row r), (fields_of_row k serial seq r). auto.
Qed.

(* the full statement of the property on one row *)
Theorem cif_agrees : forall mv r, mv_ok mv = true -> expressible r = true -> agrees mv r.
Proof.
  intros mv r Hmv HE. destruct (cif_eq_pdb mv r Hmv HE) as (k & serial & seq & H1 & H2 & H3).
  exists k, (pdb_line_of_row r), (fields_of_row k serial seq r), (fields_of_row k serial seq r). auto.
Qed.

Lemma mv_ok_installed : mv_ok mv_installed = true.
Proof. reflexivity. Qed.
Lemma mv_ok_legacy : mv_ok mv_legacy = true.
Proof. reflexivity. Qed.

Corollary cif_eq_pdb_both : forall r, expressible r = true -> agrees mv_installed r /\ agrees mv_legacy r.
Proof. intros r HE. split; apply cif_agrees; auto using mv_ok_installed, mv_ok_legacy. Qed.

(* outside mv_ok the statement fails: a library that handed '.' over as "X" would put X in column 17 *)
Theorem mv_ok_needed : exists mv r, mv_ok mv = false /\ expressible r = true /\ ~ agrees mv r.
Proof.
  exists {| mv_dot := Some "X"; mv_qm := None |}, w_plain.
  split; [reflexivity|]. split; [reflexivity|].
  intros A. apply agrees_iff in A. vm_compute in A. discriminate.
Qed.

(* regression + non-vacuity: every former refutation witness (ordinary row with the installed
   library, alt-loc, HD21, insertion code, -100.123, occupancy 1.0000, label_asym B / auth A,
   formal charge 1, label WAT / auth HOH, label CA / auth CA1) and a row without auth names
   is expressible and agrees under both conventions; charge, names and coordinates come back *)
Example guard_nonvacuous :
  forallb expressible fixed_witnesses = true /\
  forallb (agreesb mv_installed) fixed_witnesses = true /\
  forallb (agreesb mv_legacy) fixed_witnesses = true /\
  (exists l, row_fields mv_installed w_charge = Ok (Some (l, fields_of_row KATOM 7 12 w_charge))
             /\ f_chg (fields_of_row KATOM 7 12 w_charge) = "1+") /\
  (exists l f, row_fields mv_legacy w_comp = Ok (Some (l, f)) /\ f_resname f = "HOH") /\
  (exists l f, row_fields mv_installed w_atomname = Ok (Some (l, f)) /\ f_name f = "CA1") /\
  (exists l f, row_fields mv_installed w_noauth = Ok (Some (l, f)) /\ f_name f = "CA" /\ f_resname f = "LYS" /\ f_chg f = "2-") /\
  (exists l f, row_fields mv_installed w_wide = Ok (Some (l, f)) /\ f_x f = "-100.123").
Proof.
  split; [vm_compute; reflexivity|]. split; [vm_compute; reflexivity|]. split; [vm_compute; reflexivity|].
  split; [eexists; split; [vm_compute; reflexivity|reflexivity]|].
  split; [eexists; eexists; split; [vm_compute; reflexivity|reflexivity]|].
  split; [eexists; eexists; split; [vm_compute; reflexivity|reflexivity]|].
  split; [eexists; eexists; split; [vm_compute; reflexivity|repeat split; reflexivity]|].
  eexists; eexists; split; [vm_compute; reflexivity|reflexivity].
Qed.

(* ---- whole atom_site(block): one record per selected row, in order ------------------ *)

Definition row_ok (mv : mvconv) (r : row) (rc : record) : Prop :=
  exists k serial seq l f,
    spec_kind r = Some k /\ rc = RAtom l f /\ row_fields mv r = Ok (Some (l, f)) /\
    parse_atom k (pdb_line_of_row r) = Ok (fields_of_row k serial seq r) /\
    primary f = primary (fields_of_row k serial seq r).

(* the model filter `get_value("pdbx_PDB_model_num", i) == j` *)
Definition selb (sel : option pyval) (r : row) : bool :=
  match sel with
  | None => true
  | Some j => match pdbx_PDB_model_num r with Tok m => pyval_eqb (Some m) j | _ => false end
  end.

Definition rows_good (rows : list row) : Prop :=
  forall r, In r rows -> guard r = true /\
    exists m n, pdbx_PDB_model_num r = Tok m /\ okv 1 4 m = true /\ py_int m = Ok n.

Lemma rows_loop_guard mv sel rows :
  mv_ok mv = true -> rows_good rows ->
  forall acc, exists recs,
    rows_loop mv sel rows acc = ((acc ++ recs)%list, None) /\
    Forall2 (row_ok mv) (filter (selb sel) rows) recs.
Proof.
  intros Hmv. induction rows as [|r t IH]; intros HG acc.
  - exists []. cbn. rewrite app_nil_r. split; [reflexivity|constructor].
  - assert (HGt : rows_good t) by (intros r' Hr'; apply HG; now right).
    destruct (HG r (or_introl eq_refl)) as (Hg & m & n & Em & _ & _).
    destruct (cif_eq_pdb_partial mv r Hmv Hg) as (k & serial & seq & l & f & H1 & H2 & H3 & H4).
    assert (Hok : row_ok mv r (RAtom l f)) by (exists k, serial, seq, l, f; auto).
    cbn [rows_loop filter]. unfold selb at 1. rewrite Em.
    destruct sel as [j|].
    + cbn [get bind]. destruct (pyval_eqb (Some m) j).
      * rewrite H2. destruct (IH HGt (acc ++ [RAtom l f])%list) as (recs & E & F).
        exists (RAtom l f :: recs). rewrite E, <- app_assoc. split; [reflexivity|now constructor].
      * apply IH; assumption.
    + rewrite H2. destruct (IH HGt (acc ++ [RAtom l f])%list) as (recs & E & F).
      exists (RAtom l f :: recs). rewrite E, <- app_assoc. split; [reflexivity|now constructor].
Qed.

Lemma count_models_same mv m rows acc :
  (forall r, In r rows -> pdbx_PDB_model_num r = Tok m) ->
  acc = [] \/ acc = [Some m] ->
  count_models mv rows acc = Ok (match rows with [] => acc | _ => [Some m] end).
Proof.
  revert acc. induction rows as [|r t IH]; intros acc H Hacc; [reflexivity|].
  cbn [count_models]. rewrite (H r (or_introl eq_refl)). cbn [get bind].
  assert (Ht : forall r', In r' t -> pdbx_PDB_model_num r' = Tok m) by (intros; apply H; now right).
  destruct Hacc as [-> | ->].
  - cbn [mem_pyval app].
    pose proof (IH [Some m] Ht (or_intror eq_refl)) as Q. destruct t; exact Q.
  - cbn [mem_pyval pyval_eqb]. rewrite String.eqb_refl. cbn [orb].
    pose proof (IH [Some m] Ht (or_intror eq_refl)) as Q. destruct t; exact Q.
Qed.

(* one model: every row yields its atom, in file order, nothing skipped, no exception *)
Theorem atom_site_single_partial : forall mv rows m,
  mv_ok mv = true -> rows <> [] ->
  (forall r, In r rows -> guard r = true /\ pdbx_PDB_model_num r = Tok m) ->
  exists recs, atom_site mv rows = mkout recs [] None /\ Forall2 (row_ok mv) rows recs.
Proof.
  intros mv rows m Hmv Hne H. unfold atom_site.
  rewrite (count_models_same mv m rows []) by (auto; intros; now apply H).
  destruct rows as [|r0 t]; [congruence|]. cbn [List.length Nat.eqb].
  assert (Hloop : forall rows acc, (forall r, In r rows -> guard r = true) ->
            exists recs, rows_loop mv None rows acc = ((acc ++ recs)%list, None) /\ Forall2 (row_ok mv) rows recs).
  { induction rows as [|r t' IH]; intros acc HG.
    - exists []. cbn. rewrite app_nil_r. split; [reflexivity|constructor].
    - destruct (cif_eq_pdb_partial mv r Hmv (HG r (or_introl eq_refl))) as (k & serial & seq & l & f & H1 & H2 & H3 & H4).
      cbn [rows_loop]. rewrite H2.
      destruct (IH (acc ++ [RAtom l f])%list) as (recs & E & F); [intros; apply HG; now right|].
      exists (RAtom l f :: recs). rewrite E, <- app_assoc. split; [reflexivity|].
      constructor; [|exact F]. exists k, serial, seq, l, f; auto. }
  destruct (Hloop (r0 :: t) [] (fun r Hr => proj1 (H r Hr))) as (recs & E & F).
  rewrite E. exists recs. split; [reflexivity|exact F].
Qed.

(* several models *)
Lemma model_line_int m n : okv 1 4 m = true -> py_int m = Ok n ->
  model_serial (model_line (Some m)) = Some n.
Proof.
  intros Hm Hn. apply okv_inv in Hm as (Nm & L1 & L2).
  unfold model_serial. assert (H : py_int (strip (slice 10 14 (model_line (Some m)))) = Ok n); [|now rewrite H].
  unfold model_line. cbn [py_str].
  replace ("MODEL " ++ "    " ++ rjust 4 m) with (cat ["MODEL     "; rjust 4 m])
    by (cbn [cat fold_right]; rewrite app_empty_r; reflexivity).
  rewrite (slice_cat _ 1 1 10 14) by lens.
  cbn [firstn skipn cat fold_right]. rewrite app_empty_r, strip_rjust by assumption. exact Hn.
Qed.

Definition block_ok (mv : mvconv) (rows : list row) (j : pyval) (blk : list record) : Prop :=
  exists n recs,
    blk = (RModel (model_line j) (Some n) :: recs ++ [REndmdl])%list /\
    Forall2 (row_ok mv) (filter (selb (Some j)) rows) recs.

Lemma models_loop_guard mv rows models :
  mv_ok mv = true -> rows_good rows ->
  (forall j, In j models -> exists m n, j = Some m /\ okv 1 4 m = true /\ py_int m = Ok n) ->
  forall acc, exists blocks,
    models_loop mv models rows acc [] = mkout (acc ++ concat blocks)%list [] None /\
    Forall2 (block_ok mv rows) models blocks.
Proof.
  intros Hmv HG. induction models as [|j t IH]; intros HM acc.
  - exists []. cbn. rewrite app_nil_r. split; [reflexivity|constructor].
  - destruct (HM j (or_introl eq_refl)) as (m & n & -> & Hm & Hn).
    cbn [models_loop]. rewrite (model_line_int m n Hm Hn).
    destruct (rows_loop_guard mv (Some (Some m)) rows Hmv HG (acc ++ [RModel (model_line (Some m)) (Some n)])%list)
      as (recs & E & F).
    rewrite E.
    destruct (IH (fun j' Hj' => HM j' (or_intror Hj'))
                 (((acc ++ [RModel (model_line (Some m)) (Some n)]) ++ recs) ++ [REndmdl])%list) as (blocks & E2 & F2).
    exists ((RModel (model_line (Some m)) (Some n) :: recs ++ [REndmdl])%list :: blocks).
    rewrite E2. split.
    + f_equal. cbn [concat]. rewrite <- !app_assoc. cbn [app]. rewrite <- !app_assoc. reflexivity.
    + constructor; [|exact F2]. exists n, recs. auto.
Qed.

Lemma count_models_elems mv rows :
  (forall r, In r rows -> exists m, pdbx_PDB_model_num r = Tok m) ->
  forall acc models,
  count_models mv rows acc = Ok models ->
  forall j, In j models ->
    In j acc \/ (exists r m, In r rows /\ pdbx_PDB_model_num r = Tok m /\ j = Some m).
Proof.
  induction rows as [|r t IH]; intros HT acc models H j Hj.
  - cbn in H. inversion H; subst. now left.
  - cbn [count_models] in H.
    destruct (HT r (or_introl eq_refl)) as [m Em]. rewrite Em in H. cbn [get bind] in H.
    assert (HTt : forall r', In r' t -> exists m, pdbx_PDB_model_num r' = Tok m) by (intros; apply HT; now right).
    destruct (IH HTt _ _ H j Hj) as [Hin | (r' & m' & Hr' & E' & ->)].
    + destruct (mem_pyval (Some m) acc); [now left|].
      apply in_app_or in Hin as [Hin | [<- | []]]; [now left|].
      right. exists r, m. split; [now left|auto].
    + right. exists r', m'. split; [now right|auto].
Qed.

(* several models: MODEL n / the rows of that model in file order / ENDMDL, per
   distinct model number in order of first appearance; no exception, no error entry *)
Theorem atom_site_models_partial : forall mv rows models,
  mv_ok mv = true -> rows_good rows ->
  count_models mv rows [] = Ok models -> List.length models <> 1 ->
  exists blocks,
    atom_site mv rows = mkout (concat blocks) [] None /\
    Forall2 (block_ok mv rows) models blocks.
Proof.
  intros mv rows models Hmv HG HC Hn. unfold atom_site. rewrite HC.
  destruct (Nat.eqb (List.length models) 1) eqn:E; [apply Nat.eqb_eq in E; congruence|].
  destruct (models_loop_guard mv rows models Hmv HG) with (acc := @nil record) as (blocks & E2 & F2).
  - intros j Hj.
    assert (HT : forall r, In r rows -> exists m, pdbx_PDB_model_num r = Tok m)
      by (intros r Hr; destruct (HG r Hr) as (_ & m & n & Em & _); eauto).
    destruct (count_models_elems mv rows HT [] models HC j Hj) as [[] | (r & m & Hr & Em & ->)].
    destruct (HG r Hr) as (_ & m' & n & Em' & Hm & Hi). rewrite Em in Em'. inversion Em'; subst m'. eauto.
  - exists blocks. split; [exact E2|exact F2].
Qed.


(* ---- read_cif: the other categories cannot change the atoms; they can only abort the call --- *)

Lemma site_recs_app {O} (a b : list (frec O)) : site_recs (a ++ b) = (site_recs a ++ site_recs b)%list.
Proof. unfold site_recs. apply flat_map_app. Qed.

Lemma site_recs_other {O} (l : list O) : site_recs (map FOther l) = [].
Proof. unfold site_recs. induction l as [|x l IH]; [reflexivity|]. cbn. exact IH. Qed.

Lemma site_recs_site {O} (l : list record) : site_recs (map (@FSite O) l) = l.
Proof. unfold site_recs. induction l as [|x l IH]; [reflexivity|]. cbn. f_equal. exact IH. Qed.

Lemma run_handlers_ok {O} (hs : list (hres O)) :
  (forall h, In h hs -> exists p, h = Ok p) -> exists p, run_handlers hs = Ok p.
Proof.
  induction hs as [|h t IH]; intros H; [eexists; reflexivity|].
  destruct (H h (or_introl eq_refl)) as [p ->].
  destruct IH as [q Hq]; [intros h' Hh'; apply H; now right|].
  cbn [run_handlers bind]. rewrite Hq. cbn [bind]. eexists; reflexivity.
Qed.

Lemma run_handlers_err {O} (hs : list (hres O)) e :
  In (Err e) hs -> exists e', run_handlers hs = Err e'.
Proof.
  induction hs as [|h t IH]; intros H; [destruct H|].
  destruct H as [-> | H]; [eexists; reflexivity|].
  destruct h as [p|e0]; [|eexists; reflexivity].
  destruct (IH H) as [e' He']. cbn [run_handlers bind]. rewrite He'. eexists; reflexivity.
Qed.

(* PROVIDED no other handler raises, read_cif returns, and its coordinate records are exactly
   atom_site's, whatever the other categories contain *)
Theorem read_cif_atoms : forall (O : Type) mv rows (pre post : list (hres O)),
  (forall h, In h (pre ++ post)%list -> exists p, h = Ok p) ->
  o_exn (atom_site mv rows) = None ->
  exists l errs, read_cif mv rows pre post = Ok (l, errs) /\ site_recs l = o_recs (atom_site mv rows).
Proof.
  intros O mv rows pre post H Hx.
  destruct (run_handlers_ok pre) as [a Ha]; [intros h Hh; apply H, in_or_app; now left|].
  destruct (run_handlers_ok post) as [c Hc]; [intros h Hh; apply H, in_or_app; now right|].
  unfold read_cif. rewrite Ha. cbn [bind]. rewrite Hx, Hc. cbn [bind].
  eexists. eexists. split; [reflexivity|].
  rewrite !site_recs_app, !site_recs_other, site_recs_site. cbn [app]. apply app_nil_r.
Qed.

(* the proviso is needed: a single raising handler makes read_cif yield nothing *)
Theorem read_cif_handler_raises : forall (O : Type) mv rows (pre post : list (hres O)) e,
  In (Err e) (pre ++ post)%list -> exists e', read_cif mv rows pre post = Err e'.
Proof.
  intros O mv rows pre post e H. unfold read_cif.
  apply in_app_or in H as [H | H].
  - destruct (run_handlers_err pre e H) as [e' ->]. eexists; reflexivity.
  - destruct (run_handlers pre) as [a|e0]; [|eexists; reflexivity]. cbn [bind].
    destruct (o_exn (atom_site mv rows)); [eexists; reflexivity|].
    destruct (run_handlers_err post e H) as [e' ->]. eexists; reflexivity.
Qed.

(* repaired read_cif: whatever the other handlers do (return or raise one of the caught
   exceptions), the call returns atom_site's coordinate records - the proviso of read_cif_atoms is
   discharged by _optional_records *)
Theorem read_cif_guarded_atoms : forall (O : Type) mv rows (pre post : list (string * hres O)),
  o_exn (atom_site mv rows) = None ->
  exists l errs, read_cif_guarded mv rows pre post = Ok (l, errs) /\ site_recs l = o_recs (atom_site mv rows).
Proof.
  intros O mv rows pre post Hx. unfold read_cif_guarded. apply read_cif_atoms; [|exact Hx].
  intros h Hh. rewrite <- map_app in Hh. apply in_map_iff in Hh as ([n r] & <- & _).
  unfold optional_records. cbn [snd fst]. destruct r as [p|[| |]]; eexists; reflexivity.
Qed.

(* ... and atom_site stays strict: its own exception still ends the call *)
Theorem read_cif_guarded_strict : forall (O : Type) mv rows (pre post : list (string * hres O)) e,
  o_exn (atom_site mv rows) = Some e -> read_cif_guarded mv rows pre post = Err e.
Proof.
  intros O mv rows pre post e Hx. unfold read_cif_guarded, read_cif.
  destruct (run_handlers_ok (map optional_records pre)) as [a Ha].
  - intros h Hh. apply in_map_iff in Hh as ([n r] & <- & _).
    unfold optional_records. cbn [snd fst]. destruct r as [p|[| |]]; eexists; reflexivity.
  - rewrite Ha. cbn [bind]. rewrite Hx. reflexivity.
Qed.

(* ---- file layer ---------------------------------------------------------------------- *)

(* a .cif suffix (any case) sends the file to the mmCIF reader WHATEVER the text is *)
Theorem classify_cif_any_text : forall suffix text,
  lower_s suffix = ".cif" -> classify_input suffix text = RCif.
Proof. intros suffix text H. unfold classify_input. rewrite H. reflexivity. Qed.

(* in particular every legal opening - comment / blank preamble, magic line, DATA_ in any case *)
Corollary classify_legal_opening : forall suffix text,
  lower_s suffix = ".cif" -> legal_opening text = true -> classify_input suffix text = RCif.
Proof. intros suffix text H _. now apply classify_cif_any_text. Qed.

(* and no other suffix does *)
Theorem classify_other_suffix : forall suffix text,
  lower_s suffix <> ".cif" -> classify_input suffix text = RPdb.
Proof.
  intros suffix text H. unfold classify_input.
  destruct (String.eqb (lower_s suffix) ".cif") eqn:E; [apply String.eqb_eq in E; contradiction|reflexivity].
Qed.

Local Open Scope string_scope.
Example file_layer_nonvacuous :
  lower_s ".CIF" = ".cif" /\ lower_s ".Cif" = ".cif" /\
  legal_opening ("#\#CIF_1.1" ++ nl ++ "# written by a program" ++ nl ++ nl ++ "  DATA_1ABC" ++ nl ++ "#" ++ nl) = true /\
  legal_opening ("data_TEST" ++ nl) = true /\
  legal_opening ("ATOM      1  N   ALA A   1" ++ nl) = false /\
  classify_input ".CIF" ("#\#CIF_1.1" ++ nl ++ "Data_x" ++ nl) = RCif /\
  classify_input ".mmcif" ("data_x" ++ nl) = RPdb /\ classify_input ".pdb" ("data_x" ++ nl) = RPdb.
Proof. repeat split; vm_compute; reflexivity. Qed.

(* ---- several data blocks ---------------------------------------------------------------- *)

Lemma read_cif_blocks_none {O} mv (bs : list (cblock O)) acc :
  (forall b, In b bs -> fst b = None) -> read_cif_blocks mv bs acc = Ok acc.
Proof.
  induction bs as [|[o pp] t IH]; intros H; [reflexivity|].
  pose proof (H (o, pp) (or_introl eq_refl)) as E. cbn [fst] in E. subst o.
  cbn [read_cif_blocks]. apply IH. intros b Hb. apply H. now right.
Qed.

(* blocks without atom_site (a ligand dictionary before or after the coordinates) neither abort
   the call nor change its result: it is the result for the one block that has atoms *)
Theorem read_cif_blocks_one_site : forall (O : Type) mv (l1 l2 : list (cblock O)) rows pre post,
  (forall b, In b (l1 ++ l2)%list -> fst b = None) ->
  read_cif_blocks mv (l1 ++ (Some rows, (pre, post)) :: l2)%list ([], []) = read_cif_guarded mv rows pre post.
Proof.
  intros O mv l1 l2 rows pre post H.
  assert (H1 : forall b, In b l1 -> fst b = None) by (intros; apply H, in_or_app; now left).
  assert (H2 : forall b, In b l2 -> fst b = None) by (intros; apply H, in_or_app; now right).
  induction l1 as [|[o pp] t IH].
  - cbn [app read_cif_blocks]. destruct (read_cif_guarded mv rows pre post) as [r|e]; cbn [bind]; [|reflexivity].
    now apply read_cif_blocks_none.
  - pose proof (H1 (o, pp) (or_introl eq_refl)) as E. cbn [fst] in E. subst o.
    cbn [app read_cif_blocks]. apply IH.
    + intros b Hb. apply H. cbn [app]. now right.
    + intros b Hb. apply H1. now right.
Qed.
