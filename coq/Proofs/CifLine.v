(* Proofs about Model/CifLine.v (C10). *)
From Coq Require Import String Ascii List Arith ZArith Bool Lia.
From PV Require Import Lib.Strings Lib.Decimal Model.CifLine.
Import ListNotations.
Local Open Scope string_scope.

(* ---- strings: concatenation of segments, slices on segment boundaries ---- *)

Definition cat (l : list string) : string := fold_right append "" l.

Lemma cat_app l1 l2 : cat (l1 ++ l2)%list = cat l1 ++ cat l2.
Proof.
  induction l1 as [|x l IH]; cbn [cat fold_right List.app]; [reflexivity|].
  fold (cat (l ++ l2)%list). fold (cat l). rewrite IH. now rewrite app_assoc_s.
Qed.

Lemma drop_app_len (a b : string) n : String.length a = n -> drop n (a ++ b) = b.
Proof. intros <-. apply drop_app_exact. Qed.

Lemma take_app_len (a b : string) n : String.length a = n -> take n (a ++ b) = a.
Proof. intros <-. apply take_app_exact. Qed.

Lemma take_all (s : string) n : String.length s = n -> take n s = s.
Proof. intros H. pose proof (take_app_len s "" n H) as P. now rewrite app_empty_r in P. Qed.

Lemma slice_mid pre mid post a b :
  String.length pre = a -> String.length mid = b - a ->
  slice a b (pre ++ mid ++ post) = mid.
Proof.
  intros Ha Hb. unfold slice. rewrite (drop_app_len _ _ _ Ha). now apply take_app_len.
Qed.

Lemma firstn_skipn_3 {A} (l : list A) i j :
  l = (firstn i l ++ firstn j (skipn i l) ++ skipn j (skipn i l))%list.
Proof. now rewrite !firstn_skipn. Qed.

(* the slice [a:b] of a concatenation, when a and b fall on segment borders *)
Lemma slice_cat segs i j a b :
  String.length (cat (firstn i segs)) = a ->
  String.length (cat (firstn j (skipn i segs))) = b - a ->
  slice a b (cat segs) = cat (firstn j (skipn i segs)).
Proof.
  intros Ha Hb. rewrite (firstn_skipn_3 segs i j) at 1.
  rewrite !cat_app. now apply slice_mid.
Qed.

Lemma len1 (s : string) : String.length s = 1 -> exists c, s = String c "".
Proof. destruct s as [|c [|d s]]; cbn; intros H; try discriminate. now exists c. Qed.

Lemma char_at_cat segs i a :
  String.length (cat (firstn i segs)) = a ->
  String.length (cat (firstn 1 (skipn i segs))) = 1 ->
  char_at a (cat segs) = Ok (cat (firstn 1 (skipn i segs))).
Proof.
  intros Ha H1. rewrite (firstn_skipn_3 segs i 1) at 1. rewrite !cat_app.
  unfold char_at. rewrite (drop_app_len _ _ _ Ha).
  destruct (len1 _ H1) as [c Hc]. rewrite Hc. reflexivity.
Qed.

(* ---- strip ---------------------------------------------------------------- *)

Lemma is_ws_sp : is_ws sp = true.
Proof. reflexivity. Qed.

Lemma lstrip_blanks n s : lstrip (repeat_char sp n ++ s) = lstrip s.
Proof. induction n as [|n IH]; [reflexivity|]. cbn [repeat_char append lstrip]. now rewrite is_ws_sp. Qed.

Lemma rstrip_all_blank n : rstrip (repeat_char sp n) = "".
Proof. induction n as [|n IH]; [reflexivity|]. cbn [repeat_char rstrip]. rewrite IH, is_ws_sp. reflexivity. Qed.

Lemma rstrip_noblank_app s t :
  any_char is_ws s = false -> s <> "" -> rstrip (s ++ t) = s ++ rstrip t.
Proof.
  induction s as [|c s IH]; intros Hs Hne; [congruence|].
  cbn [any_char] in Hs. apply orb_false_iff in Hs as [Hc Hs].
  cbn [append rstrip]. rewrite Hc. cbn [andb].
  destruct s as [|d s]; [reflexivity|].
  rewrite IH; [reflexivity|exact Hs|discriminate].
Qed.

Lemma strip_pad a b s :
  noblank s = true -> strip (repeat_char sp a ++ s ++ repeat_char sp b) = s.
Proof.
  unfold noblank, strip. intros Hs. apply negb_true_iff in Hs.
  rewrite lstrip_blanks. destruct s as [|c s].
  - cbn [append]. replace (repeat_char sp b) with (repeat_char sp b ++ "") by apply app_empty_r.
    rewrite lstrip_blanks. reflexivity.
  - assert (Hc : is_ws c = false) by (cbn [any_char] in Hs; now apply orb_false_iff in Hs).
    cbn [append lstrip]. rewrite Hc.
    change (String c (s ++ repeat_char sp b)) with (String c s ++ repeat_char sp b).
    rewrite rstrip_noblank_app; [|exact Hs|discriminate].
    rewrite rstrip_all_blank. apply app_empty_r.
Qed.

Lemma strip_noblank s : noblank s = true -> strip s = s.
Proof.
  intros H. pose proof (strip_pad 0 0 s H) as P. cbn [repeat_char append] in P.
  now rewrite app_empty_r in P.
Qed.

Lemma strip_rjust w s : noblank s = true -> strip (rjust w s) = s.
Proof.
  intros H. unfold rjust. pose proof (strip_pad (w - String.length s) 0 s H) as P.
  cbn [repeat_char] in P. now rewrite app_empty_r in P.
Qed.

Lemma strip_ljust w s : noblank s = true -> strip (ljust w s) = s.
Proof. intros H. unfold ljust. exact (strip_pad 0 (w - String.length s) s H). Qed.

Lemma strip_rjust_sp w s : noblank s = true -> strip (rjust w s ++ " ") = s.
Proof.
  intros H. unfold rjust. rewrite app_assoc_s.
  exact (strip_pad (w - String.length s) 1 s H).
Qed.

Lemma strip_sp_ljust w s : noblank s = true -> strip (" " ++ ljust w s) = s.
Proof. intros H. unfold ljust. exact (strip_pad 1 (w - String.length s) s H). Qed.

Lemma strip_sp_rjust w s : noblank s = true -> strip (" " ++ rjust w s) = s.
Proof.
  intros H. unfold rjust. pose proof (strip_pad (S (w - String.length s)) 0 s H) as P.
  cbn [repeat_char append] in P. rewrite app_empty_r in P. exact P.
Qed.

Lemma strip_empty : strip "" = "".
Proof. reflexivity. Qed.

Lemma strip_sp : strip " " = "".
Proof. reflexivity. Qed.

Lemma rjust_S w s : String.length s <= w -> rjust (S w) s = " " ++ rjust w s.
Proof. intros H. unfold rjust. replace (S w - String.length s) with (S (w - String.length s)) by lia. reflexivity. Qed.

Lemma ljust_exact w s : String.length s = w -> ljust w s = s.
Proof. intros H. unfold ljust. rewrite H, Nat.sub_diag. apply app_empty_r. Qed.

Lemma rjust_exact w s : String.length s = w -> rjust w s = s.
Proof. intros H. unfold rjust. rewrite H, Nat.sub_diag. reflexivity. Qed.

Lemma ljust1_empty : ljust 1 "" = " ".
Proof. reflexivity. Qed.

(* ---- guards unpacked -------------------------------------------------------- *)

Lemma okv_inv lo hi s : okv lo hi s = true ->
  noblank s = true /\ lo <= String.length s /\ String.length s <= hi.
Proof.
  unfold okv. intros H. apply andb_true_iff in H as [H H3]. apply andb_true_iff in H as [H1 H2].
  apply Nat.leb_le in H2, H3. auto.
Qed.

Lemma tokp_inv p it : tokp p it = true -> exists s, it = Tok s /\ p s = true.
Proof. destruct it; cbn; try discriminate. eauto. Qed.

Lemma is_int_inv s : is_int s = true -> exists z, py_int s = Ok z.
Proof. unfold is_int. destruct (py_int s); [eauto|discriminate]. Qed.

Lemma item_eqb_inv a b : item_eqb a b = true -> exists s, a = Tok s /\ b = Tok s.
Proof.
  destruct a, b; cbn; try discriminate. intros H. apply String.eqb_eq in H. subst. eauto.
Qed.

Lemma spec_kind_inv r k : spec_kind r = Some k -> group_PDB r = Tok (kind_name k).
Proof.
  unfold spec_kind. destruct (group_PDB r) as [| | |g]; try discriminate.
  destruct (String.eqb g "ATOM") eqn:E1.
  - apply String.eqb_eq in E1. intros H; inversion H. now subst.
  - destruct (String.eqb g "HETATM") eqn:E2; [|discriminate].
    apply String.eqb_eq in E2. intros H; inversion H. now subst.
Qed.

(* ---- parse_atom from its column facts ---------------------------------------- *)

Lemma parse_atom_ok k line s6 serial a16 c21 s22 sq c26 :
  strip (slice 0 6 line) = kind_name k ->
  strip (slice 6 11 line) = s6 -> py_int s6 = Ok serial ->
  char_at 16 line = Ok a16 ->
  char_at 21 line = Ok c21 ->
  strip (slice 22 26 line) = s22 -> py_int s22 = Ok sq ->
  char_at 26 line = Ok c26 ->
  parse_atom k line =
    Ok {| f_kind := k; f_serial := serial; f_name := strip (slice 12 16 line);
          f_alt := strip a16; f_resname := strip (slice 17 20 line);
          f_chain := strip c21; f_resseq := sq; f_ins := strip c26;
          f_x := strip (slice 30 38 line); f_y := strip (slice 38 46 line);
          f_z := strip (slice 46 54 line);
          f_occ := strip (slice 54 60 line); f_tf := strip (slice 60 66 line);
          f_seg := strip (slice 72 76 line); f_elem := strip (slice 76 78 line);
          f_chg := strip (slice 78 80 line) |}.
Proof.
  intros H0 H6 Hs H16 H21 H22 Hq H26. unfold parse_atom.
  rewrite H0, String.eqb_refl. cbn [negb]. rewrite H6, Hs. cbn [bind].
  rewrite H16. cbn [bind]. rewrite H21. cbn [bind]. rewrite H22, Hq. cbn [bind].
  rewrite H26. cbn [bind]. destruct k; reflexivity.
Qed.

(* whatever else happens, a successful parse takes the chain from column 22 *)
Lemma parse_atom_chain k line f c :
  parse_atom k line = Ok f -> char_at 21 line = Ok c -> f_chain f = strip c.
Proof.
  unfold parse_atom. intros H Hc.
  destruct (negb _); [discriminate|].
  destruct (py_int (strip (slice 6 11 line))); [|discriminate]. cbn [bind] in H.
  destruct (char_at 16 line); [|discriminate]. cbn [bind] in H.
  rewrite Hc in H. cbn [bind] in H.
  destruct (py_int (strip (slice 22 26 line))); cbn [bind] in H.
  - destruct (char_at 26 line) as [ic|e]; cbn [bind] in H.
    + destruct k; cbn in H; inversion H; reflexivity.
    + destruct k, e; cbn in H; discriminate.
  - destruct k, e; cbn in H; discriminate.
Qed.

(* ---- a line made of pieces with the PDB column widths parses to the strips
        of the pieces ---------------------------------------------------------- *)

Ltac lens :=
  cbn [firstn skipn cat fold_right];
  repeat rewrite length_app; rewrite ?length_rjust, ?length_ljust;
  cbn [String.length]; lia.

Section Columns.
  Variables (k : kind) (c0 c6 c11 c12 c16 c17 c20 c21 c22 c26 c27 c30 c38 c46 : string).
  Variables (serial sq : Z).
  Hypothesis L0 : String.length c0 = 6.
  Hypothesis L6 : String.length c6 = 5.
  Hypothesis L11 : String.length c11 = 1.
  Hypothesis L12 : String.length c12 = 4.
  Hypothesis L16 : String.length c16 = 1.
  Hypothesis L17 : String.length c17 = 3.
  Hypothesis L20 : String.length c20 = 1.
  Hypothesis L21 : String.length c21 = 1.
  Hypothesis L22 : String.length c22 = 4.
  Hypothesis L26 : String.length c26 = 1.
  Hypothesis L27 : String.length c27 = 3.
  Hypothesis L30 : String.length c30 = 8.
  Hypothesis L38 : String.length c38 = 8.
  Hypothesis L46 : String.length c46 = 8.
  Hypothesis K0 : strip c0 = kind_name k.
  Hypothesis K6 : py_int (strip c6) = Ok serial.
  Hypothesis K22 : py_int (strip c22) = Ok sq.

  Definition primary_of_cols :=
    (k, serial, strip c12, strip c16, strip c17, strip c21, sq, strip c26,
     strip c30, strip c38, strip c46).

  Lemma parse_cols_primary rest :
    exists f,
      parse_atom k (cat [c0; c6; c11; c12; c16; c17; c20; c21; c22; c26; c27; c30; c38; c46; rest]) = Ok f
      /\ primary f = primary_of_cols.
  Proof.
    set (SG := [c0; c6; c11; c12; c16; c17; c20; c21; c22; c26; c27; c30; c38; c46; rest]).
    assert (F0 : slice 0 6 (cat SG) = c0)
      by (rewrite (slice_cat SG 0 1 0 6) by (unfold SG; lens); unfold SG; cbn [firstn skipn cat fold_right]; apply app_empty_r).
    assert (F6 : slice 6 11 (cat SG) = c6)
      by (rewrite (slice_cat SG 1 1 6 11) by (unfold SG; lens); unfold SG; cbn [firstn skipn cat fold_right]; apply app_empty_r).
    assert (F12 : slice 12 16 (cat SG) = c12)
      by (rewrite (slice_cat SG 3 1 12 16) by (unfold SG; lens); unfold SG; cbn [firstn skipn cat fold_right]; apply app_empty_r).
    assert (F16 : char_at 16 (cat SG) = Ok c16)
      by (rewrite (char_at_cat SG 4 16) by (unfold SG; lens); unfold SG; cbn [firstn skipn cat fold_right]; now rewrite app_empty_r).
    assert (F17 : slice 17 20 (cat SG) = c17)
      by (rewrite (slice_cat SG 5 1 17 20) by (unfold SG; lens); unfold SG; cbn [firstn skipn cat fold_right]; apply app_empty_r).
    assert (F21 : char_at 21 (cat SG) = Ok c21)
      by (rewrite (char_at_cat SG 7 21) by (unfold SG; lens); unfold SG; cbn [firstn skipn cat fold_right]; now rewrite app_empty_r).
    assert (F22 : slice 22 26 (cat SG) = c22)
      by (rewrite (slice_cat SG 8 1 22 26) by (unfold SG; lens); unfold SG; cbn [firstn skipn cat fold_right]; apply app_empty_r).
    assert (F26 : char_at 26 (cat SG) = Ok c26)
      by (rewrite (char_at_cat SG 9 26) by (unfold SG; lens); unfold SG; cbn [firstn skipn cat fold_right]; now rewrite app_empty_r).
    assert (F30 : slice 30 38 (cat SG) = c30)
      by (rewrite (slice_cat SG 11 1 30 38) by (unfold SG; lens); unfold SG; cbn [firstn skipn cat fold_right]; apply app_empty_r).
    assert (F38 : slice 38 46 (cat SG) = c38)
      by (rewrite (slice_cat SG 12 1 38 46) by (unfold SG; lens); unfold SG; cbn [firstn skipn cat fold_right]; apply app_empty_r).
    assert (F46 : slice 46 54 (cat SG) = c46)
      by (rewrite (slice_cat SG 13 1 46 54) by (unfold SG; lens); unfold SG; cbn [firstn skipn cat fold_right]; apply app_empty_r).
    eexists. split.
    - apply (parse_atom_ok k (cat SG) (strip c6) serial c16 c21 (strip c22) sq c26);
        rewrite ?F0, ?F6, ?F22; auto.
    - unfold primary, primary_of_cols. cbn [f_kind f_serial f_name f_alt f_resname f_chain f_resseq f_ins f_x f_y f_z].
      rewrite F12, F17, F30, F38, F46. reflexivity.
  Qed.

  Variables (c54 c60 c66 c72 c76 c78 : string).
  Hypothesis L54 : String.length c54 = 6.
  Hypothesis L60 : String.length c60 = 6.
  Hypothesis L66 : String.length c66 = 6.
  Hypothesis L72 : String.length c72 = 4.
  Hypothesis L76 : String.length c76 = 2.

  Lemma parse_cols_full :
    parse_atom k (cat [c0; c6; c11; c12; c16; c17; c20; c21; c22; c26; c27; c30; c38; c46;
                       c54; c60; c66; c72; c76; c78]) =
    Ok {| f_kind := k; f_serial := serial; f_name := strip c12; f_alt := strip c16;
          f_resname := strip c17; f_chain := strip c21; f_resseq := sq; f_ins := strip c26;
          f_x := strip c30; f_y := strip c38; f_z := strip c46;
          f_occ := strip c54; f_tf := strip c60; f_seg := strip c72; f_elem := strip c76;
          f_chg := strip (take 2 c78) |}.
  Proof.
    set (SG := [c0; c6; c11; c12; c16; c17; c20; c21; c22; c26; c27; c30; c38; c46; c54; c60; c66; c72; c76; c78]).
    assert (F0 : slice 0 6 (cat SG) = c0)
      by (rewrite (slice_cat SG 0 1 0 6) by (unfold SG; lens); unfold SG; cbn [firstn skipn cat fold_right]; apply app_empty_r).
    assert (F6 : slice 6 11 (cat SG) = c6)
      by (rewrite (slice_cat SG 1 1 6 11) by (unfold SG; lens); unfold SG; cbn [firstn skipn cat fold_right]; apply app_empty_r).
    assert (F12 : slice 12 16 (cat SG) = c12)
      by (rewrite (slice_cat SG 3 1 12 16) by (unfold SG; lens); unfold SG; cbn [firstn skipn cat fold_right]; apply app_empty_r).
    assert (F16 : char_at 16 (cat SG) = Ok c16)
      by (rewrite (char_at_cat SG 4 16) by (unfold SG; lens); unfold SG; cbn [firstn skipn cat fold_right]; now rewrite app_empty_r).
    assert (F17 : slice 17 20 (cat SG) = c17)
      by (rewrite (slice_cat SG 5 1 17 20) by (unfold SG; lens); unfold SG; cbn [firstn skipn cat fold_right]; apply app_empty_r).
    assert (F21 : char_at 21 (cat SG) = Ok c21)
      by (rewrite (char_at_cat SG 7 21) by (unfold SG; lens); unfold SG; cbn [firstn skipn cat fold_right]; now rewrite app_empty_r).
    assert (F22 : slice 22 26 (cat SG) = c22)
      by (rewrite (slice_cat SG 8 1 22 26) by (unfold SG; lens); unfold SG; cbn [firstn skipn cat fold_right]; apply app_empty_r).
    assert (F26 : char_at 26 (cat SG) = Ok c26)
      by (rewrite (char_at_cat SG 9 26) by (unfold SG; lens); unfold SG; cbn [firstn skipn cat fold_right]; now rewrite app_empty_r).
    assert (F30 : slice 30 38 (cat SG) = c30)
      by (rewrite (slice_cat SG 11 1 30 38) by (unfold SG; lens); unfold SG; cbn [firstn skipn cat fold_right]; apply app_empty_r).
    assert (F38 : slice 38 46 (cat SG) = c38)
      by (rewrite (slice_cat SG 12 1 38 46) by (unfold SG; lens); unfold SG; cbn [firstn skipn cat fold_right]; apply app_empty_r).
    assert (F46 : slice 46 54 (cat SG) = c46)
      by (rewrite (slice_cat SG 13 1 46 54) by (unfold SG; lens); unfold SG; cbn [firstn skipn cat fold_right]; apply app_empty_r).
    assert (F54 : slice 54 60 (cat SG) = c54)
      by (rewrite (slice_cat SG 14 1 54 60) by (unfold SG; lens); unfold SG; cbn [firstn skipn cat fold_right]; apply app_empty_r).
    assert (F60 : slice 60 66 (cat SG) = c60)
      by (rewrite (slice_cat SG 15 1 60 66) by (unfold SG; lens); unfold SG; cbn [firstn skipn cat fold_right]; apply app_empty_r).
    assert (F72 : slice 72 76 (cat SG) = c72)
      by (rewrite (slice_cat SG 17 1 72 76) by (unfold SG; lens); unfold SG; cbn [firstn skipn cat fold_right]; apply app_empty_r).
    assert (F76 : slice 76 78 (cat SG) = c76)
      by (rewrite (slice_cat SG 18 1 76 78) by (unfold SG; lens); unfold SG; cbn [firstn skipn cat fold_right]; apply app_empty_r).
    assert (F78 : slice 78 80 (cat SG) = take 2 c78).
    { rewrite (firstn_skipn_3 SG 19 1) at 1. rewrite !cat_app. unfold slice.
      rewrite drop_app_len by (unfold SG; lens).
      unfold SG; cbn [firstn skipn cat fold_right]. now rewrite !app_empty_r. }
    rewrite (parse_atom_ok k (cat SG) (strip c6) serial c16 c21 (strip c22) sq c26);
      rewrite ?F0, ?F6, ?F22; auto.
    rewrite F12, F17, F30, F38, F46, F54, F60, F72, F76, F78. reflexivity.
  Qed.
End Columns.

(* ---- the spec writer round-trips through the parser ----------------------------- *)

Lemma len_pdb_name nm el : String.length nm <= 4 -> String.length (pdb_name nm el) = 4.
Proof.
  intros H. unfold pdb_name.
  destruct ((String.length nm <? 4)%nat && (String.length el <? 2)%nat) eqn:E.
  - apply andb_true_iff in E as [E _]. apply Nat.ltb_lt in E.
    cbn [append String.length]. rewrite length_ljust. lia.
  - rewrite length_ljust. lia.
Qed.

Lemma strip_pdb_name nm el : noblank nm = true -> strip (pdb_name nm el) = nm.
Proof.
  intros H. unfold pdb_name. destruct (_ && _).
  - now apply strip_sp_ljust.
  - now apply strip_ljust.
Qed.

Lemma len_pdb_charge it : String.length (pdb_charge it) = 2.
Proof.
  unfold pdb_charge. destruct it as [| | |s]; try reflexivity.
  destruct (py_int s) as [z|]; [|reflexivity].
  destruct (digit1 (Z.abs z)); reflexivity.
Qed.

(* alt / insertion code column: blank when missing *)
Lemma col1 it : missing_or (okv 1 1) it = true ->
  String.length (ljust 1 (tok_or "" it)) = 1 /\ strip (ljust 1 (tok_or "" it)) = tok_or "" it.
Proof.
  destruct it as [| | |s]; cbn [missing_or tok_or]; intros H; try discriminate; try (split; reflexivity).
  apply okv_inv in H as (Hn & H1 & H2). split.
  - rewrite length_ljust. lia.
  - now apply strip_ljust.
Qed.

Tactic Notation "tok" hyp(H) ident(s) ident(Hs) :=
  let E := fresh "E" in destruct (tokp_inv _ _ H) as (s & E & Hs); rewrite E in *; clear E.

Ltac projs :=
  cbn [group_PDB id type_symbol label_atom_id label_alt_id label_comp_id label_asym_id
       pdbx_PDB_ins_code Cartn_x Cartn_y Cartn_z occupancy B_iso_or_equiv pdbx_formal_charge
       auth_seq_id auth_comp_id auth_asym_id auth_atom_id pdbx_PDB_model_num] in *.

Definition vfacts (lo hi : nat) (s : string) : Prop :=
  noblank s = true /\ lo <= String.length s /\ String.length s <= hi.

Lemma expressible_inv r k :
  expressible r = true -> spec_kind r = Some k ->
  exists sid snm scomp sasym sseq sx sy sz socc sb sts serial sq,
    (group_PDB r = Tok (kind_name k) /\ id r = Tok sid /\ auth_atom_id r = Tok snm /\
     auth_comp_id r = Tok scomp /\ auth_asym_id r = Tok sasym /\ auth_seq_id r = Tok sseq) /\
    (Cartn_x r = Tok sx /\ Cartn_y r = Tok sy /\ Cartn_z r = Tok sz /\
     occupancy r = Tok socc /\ B_iso_or_equiv r = Tok sb /\ type_symbol r = Tok sts) /\
    (vfacts 1 5 sid /\ py_int sid = Ok serial) /\ vfacts 1 4 snm /\ vfacts 1 3 scomp /\
    vfacts 1 1 sasym /\ (vfacts 1 4 sseq /\ py_int sseq = Ok sq) /\
    (vfacts 1 8 sx /\ vfacts 1 8 sy /\ vfacts 1 8 sz) /\
    (vfacts 1 6 socc /\ vfacts 1 6 sb /\ vfacts 1 2 sts) /\
    missing_or (okv 1 1) (label_alt_id r) = true /\
    missing_or (okv 1 1) (pdbx_PDB_ins_code r) = true /\
    missing_or noblank (pdbx_formal_charge r) = true.
Proof.
  intros HE HK. pose proof (spec_kind_inv _ _ HK) as HG.
  unfold expressible in HE. rewrite HK in HE.
  apply andb_true_iff in HE as [HE Hchg]. apply andb_true_iff in HE as [HE Hts].
  apply andb_true_iff in HE as [HE Hb]. apply andb_true_iff in HE as [HE Hocc].
  apply andb_true_iff in HE as [HE Hz]. apply andb_true_iff in HE as [HE Hy].
  apply andb_true_iff in HE as [HE Hx]. apply andb_true_iff in HE as [HE Hins].
  apply andb_true_iff in HE as [HE Hseq]. apply andb_true_iff in HE as [HE Hasym].
  apply andb_true_iff in HE as [HE Hcomp]. apply andb_true_iff in HE as [HE Halt].
  apply andb_true_iff in HE as [HE Hnm]. apply andb_true_iff in HE as [_ Hid].
  destruct (tokp_inv _ _ Hid) as (sid & Eid & Hid'). apply andb_true_iff in Hid' as [Hid1 Hid2].
  destruct (tokp_inv _ _ Hnm) as (snm & Enm & Hnm').
  destruct (tokp_inv _ _ Hcomp) as (scomp & Ecomp & Hcomp').
  destruct (tokp_inv _ _ Hasym) as (sasym & Easym & Hasym').
  destruct (tokp_inv _ _ Hseq) as (sseq & Eseq & Hseq'). apply andb_true_iff in Hseq' as [Hseq1 Hseq2].
  destruct (tokp_inv _ _ Hx) as (sx & Ex & Hx'). destruct (tokp_inv _ _ Hy) as (sy & Ey & Hy').
  destruct (tokp_inv _ _ Hz) as (sz & Ez & Hz'). destruct (tokp_inv _ _ Hocc) as (socc & Eocc & Hocc').
  destruct (tokp_inv _ _ Hb) as (sb & Eb & Hb'). destruct (tokp_inv _ _ Hts) as (sts & Ets & Hts').
  destruct (is_int_inv _ Hid2) as [serial Hserial]. destruct (is_int_inv _ Hseq2) as [sq Hsq].
  exists sid, snm, scomp, sasym, sseq, sx, sy, sz, socc, sb, sts, serial, sq.
  unfold vfacts. repeat split; auto; try (now apply okv_inv); eapply okv_inv; eauto.
Qed.

Ltac vf H N L1 L2 := destruct H as (N & L1 & L2).

Theorem spec_roundtrip : forall r k,
  expressible r = true -> spec_kind r = Some k ->
  exists serial seq,
    py_int (tok_or "" (id r)) = Ok serial /\ py_int (tok_or "" (auth_seq_id r)) = Ok seq /\
    parse_atom k (pdb_line_of_row r) = Ok (fields_of_row k serial seq r).
Proof.
  intros r k HE HK.
  destruct (expressible_inv r k HE HK) as
    (sid & snm & scomp & sasym & sseq & sx & sy & sz & socc & sb & sts & serial & sq &
     (Eg & Eid & Enm & Ecomp & Easym & Eseq) & (Ex & Ey & Ez & Eocc & Eb & Ets) &
     ((Nid & Lid1 & Lid2) & Hserial) & (Nnm & Lnm1 & Lnm2) & (Ncomp & Lcomp1 & Lcomp2) &
     (Nasym & Lasym1 & Lasym2) & ((Nseq & Lseq1 & Lseq2) & Hsq) &
     ((Nx & Lx1 & Lx2) & (Ny & Ly1 & Ly2) & (Nz & Lz1 & Lz2)) &
     ((Nocc & Locc1 & Locc2) & (Nb & Lb1 & Lb2) & (Nts & Lts1 & Lts2)) & Halt & Hins & Hchg).
  destruct r as [g rid ts lnm alt lcomp lasym ins x y z occ b chg seq acomp aasym anm mnum].
  projs. subst.
  destruct (col1 _ Halt) as [LA SA]. destruct (col1 _ Hins) as [LI SI].
  exists serial, sq. cbn [tok_or]. split; [exact Hserial|]. split; [exact Hsq|].
  unfold pdb_line_of_row, fields_of_row. projs. cbn [tok_or].
  pose proof (len_pdb_name snm sts Lnm2) as LN. pose proof (len_pdb_charge chg) as LC.
  match goal with |- parse_atom k ?L = _ =>
    replace L with (cat [ljust 6 (kind_name k); rjust 5 sid; " "; pdb_name snm sts; ljust 1 (tok_or "" alt);
                         rjust 3 scomp; " "; ljust 1 sasym; rjust 4 sseq; ljust 1 (tok_or "" ins); "   ";
                         rjust 8 sx; rjust 8 sy; rjust 8 sz; rjust 6 socc; rjust 6 sb; "      "; "    ";
                         rjust 2 sts; pdb_charge chg])
      by (cbn [cat fold_right]; rewrite app_empty_r; reflexivity)
  end.
  rewrite (parse_cols_full k _ _ _ _ _ _ _ _ _ _ _ _ _ _ serial sq); try lens.
  - rewrite (strip_pdb_name _ _ Nnm), SA, SI, !strip_rjust, (strip_ljust 1 sasym Nasym) by assumption.
    rewrite (take_all _ 2 LC). reflexivity.
  - destruct k; reflexivity.
  - exact LA.
  - exact LI.
  - destruct k; reflexivity.
  - rewrite strip_rjust by assumption. exact Hserial.
  - rewrite strip_rjust by assumption. exact Hsq.
Qed.

(* ---- the CIF path inside the guard ------------------------------------------------ *)

Lemma missing_inv it : missing it = true -> it = Dot \/ it = Qm.
Proof. destruct it; cbn; intros; try discriminate; auto. Qed.

Lemma row_kind_tok mv k r : group_PDB r = Tok (kind_name k) -> row_kind mv r = Ok (Some k).
Proof. intros H. unfold row_kind. rewrite H. destruct k; reflexivity. Qed.

Lemma get_chg_ok mv chg : missing_or noblank chg = true -> exists v, get mv chg = Ok v.
Proof. destruct chg; cbn; intros; try discriminate; eauto. Qed.

Theorem cif_primary_partial : forall mv r k,
  guard mv r = true -> spec_kind r = Some k ->
  exists serial seq l f,
    py_int (tok_or "" (id r)) = Ok serial /\ py_int (tok_or "" (auth_seq_id r)) = Ok seq /\
    row_fields mv r = Ok (Some (l, f)) /\
    primary f = primary (fields_of_row k serial seq r).
Proof.
  intros mv r k HG HK. unfold guard in HG.
  apply andb_true_iff in HG as [HG Hlab]. apply andb_true_iff in HG as [HG Hwide].
  apply andb_true_iff in HG as [HG Hnoins]. apply andb_true_iff in HG as [HG Hn3].
  apply andb_true_iff in HG as [HG Hrec]. apply andb_true_iff in HG as [HE Hnoalt].
  apply negb_true_iff in Hlab, Hwide, Hnoins, Hn3, Hrec, Hnoalt.
  unfold c_label_ne_auth in Hlab. apply negb_false_iff in Hlab.
  apply andb_true_iff in Hlab as [Hlab Hlab3]. apply andb_true_iff in Hlab as [Hlab1 Hlab2].
  unfold c_wide in Hwide. apply negb_false_iff in Hwide.
  apply andb_true_iff in Hwide as [Hwide Hw4]. apply andb_true_iff in Hwide as [Hwide Hw3].
  apply andb_true_iff in Hwide as [Hw1 Hw2].
  unfold c_inscode in Hnoins. apply negb_false_iff in Hnoins.
  unfold c_name4 in Hn3. apply negb_false_iff in Hn3.
  unfold c_altloc in Hnoalt. apply negb_false_iff in Hnoalt.
  unfold c_alt_unrecognised in Hrec. rewrite Hnoalt in Hrec. cbn [andb] in Hrec.
  destruct (expressible_inv r k HE HK) as
    (sid & snm & scomp & sasym & sseq & sx & sy & sz & socc & sb & sts & serial & sq &
     (Eg & Eid & Enm & Ecomp & Easym & Eseq) & (Ex & Ey & Ez & Eocc & Eb & Ets) &
     ((Nid & Lid1 & Lid2) & Hserial) & (Nnm & Lnm1 & Lnm2) & (Ncomp & Lcomp1 & Lcomp2) &
     (Nasym & Lasym1 & Lasym2) & ((Nseq & Lseq1 & Lseq2) & Hsq) &
     ((Nx & Lx1 & Lx2) & (Ny & Ly1 & Ly2) & (Nz & Lz1 & Lz2)) &
     ((Nocc & Locc1 & Locc2) & (Nb & Lb1 & Lb2) & (Nts & Lts1 & Lts2)) & Halt & Hins & Hchg).
  pose proof (row_kind_tok mv k r Eg) as HRK.
  destruct r as [g rid ts lnm alt lcomp lasym ins x y z occ b chg seq acomp aasym anm mnum].
  projs. subst.
  destruct (item_eqb_inv _ _ Hlab1) as (s1 & -> & E1). inversion E1; subst s1; clear E1.
  destruct (item_eqb_inv _ _ Hlab2) as (s2 & -> & E2). inversion E2; subst s2; clear E2.
  destruct (item_eqb_inv _ _ Hlab3) as (s3 & -> & E3). inversion E3; subst s3; clear E3.
  cbn [tokp] in Hn3, Hw1, Hw2, Hw3, Hw4.
  apply okv_inv in Hn3 as (_ & _ & Ln3). apply okv_inv in Hw1 as (_ & _ & Lx7).
  apply okv_inv in Hw2 as (_ & _ & Ly7). apply okv_inv in Hw3 as (_ & _ & Lz7).
  apply okv_inv in Hw4 as (_ & _ & Locc5).
  destruct (get mv alt) as [valt|] eqn:Ealt; [|discriminate]. apply negb_false_iff in Hrec.
  destruct (get_chg_ok mv chg Hchg) as [vch Ech].
  exists serial, sq. cbn [tok_or].
  unfold row_fields, row_line. rewrite HRK. cbn [bind].
  unfold assemble. projs. cbn [get bind py_str ljust_v rjust_v].
  rewrite Ealt. cbn [bind]. rewrite Hrec. rewrite Ech. cbn [bind].
  rewrite (rjust_S 7 sx Lx7), (rjust_S 7 sy Ly7), (rjust_S 7 sz Lz7), (rjust_S 5 socc Locc5).
  set (l0 := match k with KATOM => ljust 6 (kind_name k) | KHETATM => kind_name k end).
  set (rest := rjust 5 socc ++ rjust 6 sb ++ "          " ++ rjust 2 sts ++ (if eq_lit vch "?" then "  " else "")).
  match goal with |- context [parse_atom k ?L] =>
    assert (HL : L = cat [l0; rjust 5 sid; " "; " " ++ ljust 3 snm; " "; rjust 3 scomp; " "; rjust 1 sasym;
                          rjust 4 sseq; " "; "   "; rjust 7 sx ++ " "; rjust 7 sy ++ " "; rjust 7 sz ++ " "; rest])
  end.
  { unfold rest. cbn [cat fold_right]. destruct (eq_lit vch "?");
      rewrite ?app_assoc_s; cbn [append]; rewrite ?app_empty_r; reflexivity. }
  rewrite HL. clear HL.
  assert (Hl0 : String.length l0 = 6 /\ strip l0 = kind_name k) by (unfold l0; destruct k; split; reflexivity).
  destruct Hl0 as [Ll0 Sl0].
  destruct (parse_cols_primary k l0 (rjust 5 sid) " " (" " ++ ljust 3 snm) " " (rjust 3 scomp) " " (rjust 1 sasym)
              (rjust 4 sseq) " " "   " (rjust 7 sx ++ " ") (rjust 7 sy ++ " ") (rjust 7 sz ++ " ") serial sq)
    with (rest := rest) as (f & Hf & Hp); try lens; try assumption.
  - rewrite strip_rjust by assumption. exact Hserial.
  - rewrite strip_rjust by assumption. exact Hsq.
  - eexists. exists f. rewrite Hf. cbn [bind]. split; [exact Hserial|]. split; [exact Hsq|].
    split; [reflexivity|].
    rewrite Hp. unfold primary_of_cols, primary, fields_of_row. projs. cbn [f_kind f_serial f_name f_alt f_resname f_chain f_resseq f_ins f_x f_y f_z tok_or].
    rewrite (strip_sp_ljust 3 snm Nnm), !strip_rjust, !strip_rjust_sp, strip_sp by assumption.
    destruct (missing_inv _ Hnoalt) as [-> | ->]; destruct (missing_inv _ Hnoins) as [-> | ->]; reflexivity.
Qed.

Lemma strip_app_sp s : noblank s = true -> strip (s ++ " ") = s.
Proof. intros H. exact (strip_pad 0 1 s H). Qed.

(* all sixteen parsed fields, when the trailing columns are narrow enough too *)
Theorem cif_full_partial : forall mv r k,
  guard mv r = true -> guard_trailing mv r = true -> spec_kind r = Some k ->
  exists serial seq l,
    py_int (tok_or "" (id r)) = Ok serial /\ py_int (tok_or "" (auth_seq_id r)) = Ok seq /\
    row_fields mv r = Ok (Some (l, fields_of_row k serial seq r)).
Proof.
  intros mv r k HG HT HK. unfold guard in HG.
  apply andb_true_iff in HG as [HG Hlab]. apply andb_true_iff in HG as [HG Hwide].
  apply andb_true_iff in HG as [HG Hnoins]. apply andb_true_iff in HG as [HG Hn3].
  apply andb_true_iff in HG as [HG Hrec]. apply andb_true_iff in HG as [HE Hnoalt].
  apply negb_true_iff in Hlab, Hwide, Hnoins, Hn3, Hrec, Hnoalt.
  unfold c_label_ne_auth in Hlab. apply negb_false_iff in Hlab.
  apply andb_true_iff in Hlab as [Hlab Hlab3]. apply andb_true_iff in Hlab as [Hlab1 Hlab2].
  unfold c_wide in Hwide. apply negb_false_iff in Hwide.
  apply andb_true_iff in Hwide as [Hwide Hw4]. apply andb_true_iff in Hwide as [Hwide Hw3].
  apply andb_true_iff in Hwide as [Hw1 Hw2].
  unfold c_inscode in Hnoins. apply negb_false_iff in Hnoins.
  unfold c_name4 in Hn3. apply negb_false_iff in Hn3.
  unfold c_altloc in Hnoalt. apply negb_false_iff in Hnoalt.
  unfold c_alt_unrecognised in Hrec. rewrite Hnoalt in Hrec. cbn [andb] in Hrec.
  unfold guard_trailing in HT. apply andb_true_iff in HT as [HT Ht3]. apply andb_true_iff in HT as [Ht1 Ht2].
  destruct (expressible_inv r k HE HK) as
    (sid & snm & scomp & sasym & sseq & sx & sy & sz & socc & sb & sts & serial & sq &
     (Eg & Eid & Enm & Ecomp & Easym & Eseq) & (Ex & Ey & Ez & Eocc & Eb & Ets) &
     ((Nid & Lid1 & Lid2) & Hserial) & (Nnm & Lnm1 & Lnm2) & (Ncomp & Lcomp1 & Lcomp2) &
     (Nasym & Lasym1 & Lasym2) & ((Nseq & Lseq1 & Lseq2) & Hsq) &
     ((Nx & Lx1 & Lx2) & (Ny & Ly1 & Ly2) & (Nz & Lz1 & Lz2)) &
     ((Nocc & Locc1 & Locc2) & (Nb & Lb1 & Lb2) & (Nts & Lts1 & Lts2)) & Halt & Hins & Hchg).
  pose proof (row_kind_tok mv k r Eg) as HRK.
  destruct r as [g rid ts lnm alt lcomp lasym ins x y z occ b chg seq acomp aasym anm mnum].
  projs. subst.
  destruct (item_eqb_inv _ _ Hlab1) as (s1 & -> & E1). inversion E1; subst s1; clear E1.
  destruct (item_eqb_inv _ _ Hlab2) as (s2 & -> & E2). inversion E2; subst s2; clear E2.
  destruct (item_eqb_inv _ _ Hlab3) as (s3 & -> & E3). inversion E3; subst s3; clear E3.
  cbn [tokp] in Hn3, Hw1, Hw2, Hw3, Hw4, Ht1, Ht2.
  apply okv_inv in Hn3 as (_ & _ & Ln3). apply okv_inv in Hw1 as (_ & _ & Lx7).
  apply okv_inv in Hw2 as (_ & _ & Ly7). apply okv_inv in Hw3 as (_ & _ & Lz7).
  apply okv_inv in Hw4 as (_ & _ & Locc5).
  apply okv_inv in Ht1 as (_ & _ & Lb5). apply okv_inv in Ht2 as (_ & _ & Lts1').
  destruct (get mv alt) as [valt|] eqn:Ealt; [|discriminate]. apply negb_false_iff in Hrec.
  assert (Hc : exists vch, get mv chg = Ok vch /\ eq_lit vch "?" = true /\ pdb_charge chg = "  ").
  { destruct chg; cbn [get] in Ht3; try discriminate.
    - exists (mv_dot mv). auto.
    - exists (mv_qm mv). auto. }
  destruct Hc as (vch & Ech & Hq & Hpc).
  exists serial, sq. cbn [tok_or].
  unfold row_fields, row_line. rewrite HRK. cbn [bind].
  unfold assemble. projs. cbn [get bind py_str ljust_v rjust_v].
  rewrite Ealt. cbn [bind]. rewrite Hrec. rewrite Ech. cbn [bind]. rewrite Hq.
  rewrite (rjust_S 7 sx Lx7), (rjust_S 7 sy Ly7), (rjust_S 7 sz Lz7), (rjust_S 5 socc Locc5),
          (rjust_S 5 sb Lb5), (rjust_S 1 sts Lts1'), (rjust_exact 1 sts) by lia.
  set (l0 := match k with KATOM => ljust 6 (kind_name k) | KHETATM => kind_name k end).
  match goal with |- context [parse_atom k ?L] =>
    assert (HL : L = cat [l0; rjust 5 sid; " "; " " ++ ljust 3 snm; " "; rjust 3 scomp; " "; rjust 1 sasym;
                          rjust 4 sseq; " "; "   "; rjust 7 sx ++ " "; rjust 7 sy ++ " "; rjust 7 sz ++ " ";
                          rjust 5 socc ++ " "; rjust 5 sb ++ " "; "      "; "    "; sts ++ " "; " "])
  end.
  { cbn [cat fold_right]. rewrite ?app_assoc_s; cbn [append]; rewrite ?app_empty_r; reflexivity. }
  rewrite HL. clear HL.
  assert (Hl0 : String.length l0 = 6 /\ strip l0 = kind_name k) by (unfold l0; destruct k; split; reflexivity).
  destruct Hl0 as [Ll0 Sl0].
  rewrite (parse_cols_full k _ _ _ _ _ _ _ _ _ _ _ _ _ _ serial sq); try lens; try assumption.
  - cbn [bind]. eexists. split; [exact Hserial|]. split; [exact Hsq|].
    unfold fields_of_row. projs. cbn [tok_or]. rewrite Hpc.
    rewrite (strip_sp_ljust 3 snm Nnm), !strip_rjust, !strip_rjust_sp, (strip_app_sp sts Nts), strip_sp by assumption.
    destruct (missing_inv _ Hnoalt) as [-> | ->]; destruct (missing_inv _ Hnoins) as [-> | ->]; reflexivity.
  - rewrite strip_rjust by assumption. exact Hserial.
  - rewrite strip_rjust by assumption. exact Hsq.
Qed.

(* ---- the property on one row ------------------------------------------------------ *)

Lemma kind_eqb_eq a b : kind_eqb a b = true <-> a = b.
Proof. destruct a, b; cbn; split; intros; congruence. Qed.

Lemma primary_eqb_eq f g : primary_eqb f g = true <-> primary f = primary g.
Proof.
  unfold primary_eqb, primary. split.
  - intros H. repeat (apply andb_true_iff in H; destruct H as [H ?]).
    apply kind_eqb_eq in H.
    repeat match goal with
           | X : String.eqb _ _ = true |- _ => apply String.eqb_eq in X
           | X : (_ =? _)%Z = true |- _ => apply Z.eqb_eq in X
           end. congruence.
  - intros H. inversion H.
    repeat (apply andb_true_iff; split);
      try apply String.eqb_refl; try apply Z.eqb_refl. now apply kind_eqb_eq.
Qed.

Lemma agrees_iff mv r : agrees mv r <-> agreesb mv r = true.
Proof.
  unfold agrees, agreesb. split.
  - intros (k & l & f & fs & Hk & Hr & Hp & He). rewrite Hk, Hr, Hp. now apply primary_eqb_eq.
  - destruct (spec_kind r) as [k|]; [|discriminate].
    destruct (row_fields mv r) as [[[l f]|]|] eqn:Hr; try discriminate.
    destruct (parse_atom k (pdb_line_of_row r)) as [fs|] eqn:Hp; try discriminate.
    intros H. exists k, l, f, fs. split; [reflexivity|]. split; [reflexivity|]. split; [exact Hp|].
    now apply primary_eqb_eq.
Qed.

Lemma guard_expressible mv r : guard mv r = true -> expressible r = true.
Proof. unfold guard. intros H. do 6 (apply andb_true_iff in H; destruct H as [H _]). exact H. Qed.

Lemma expressible_kind r : expressible r = true -> exists k, spec_kind r = Some k.
Proof.
  unfold expressible. intros H. repeat (apply andb_true_iff in H; destruct H as [H _]).
  destruct (spec_kind r); [eauto|discriminate].
Qed.

Lemma Ok_inj {A} (a b : A) : Ok a = Ok b -> a = b.
Proof. congruence. Qed.

(* mmCIF = PDB on the guarded rows: same atom, and it is the atom the row denotes *)
Theorem cif_eq_pdb_partial : forall mv r,
  guard mv r = true ->
  exists k serial seq l f,
    spec_kind r = Some k /\
    row_fields mv r = Ok (Some (l, f)) /\
    parse_atom k (pdb_line_of_row r) = Ok (fields_of_row k serial seq r) /\
    primary f = primary (fields_of_row k serial seq r).
Proof.
  intros mv r HG. pose proof (guard_expressible _ _ HG) as HE.
  destruct (expressible_kind _ HE) as [k HK].
  destruct (cif_primary_partial mv r k HG HK) as (serial & seq & l & f & H1 & H2 & H3 & H4).
  destruct (spec_roundtrip r k HE HK) as (serial' & seq' & H1' & H2' & H3').
  rewrite H1 in H1'. rewrite H2 in H2'. apply Ok_inj in H1', H2'. subst serial' seq'.
  exists k, serial, seq, l, f. auto.
Qed.

Corollary guard_agrees mv r : guard mv r = true -> agrees mv r.
Proof.
  intros HG. destruct (cif_eq_pdb_partial mv r HG) as (k & serial & seq & l & f & H1 & H2 & H3 & H4).
  exists k, l, f, (fields_of_row k serial seq r). auto.
Qed.

(* with the installed library no row without an alternate location is inside the guard *)
Theorem guard_installed_empty : forall r, guard mv_installed r = false.
Proof.
  intros r. unfold guard, c_altloc, c_alt_unrecognised.
  destruct (label_alt_id r); cbn; rewrite ?andb_false_r; reflexivity.
Qed.

(* ... and every ordinary such row comes out with an empty chain identifier *)
Theorem installed_every_row : forall r,
  expressible r = true -> c_altloc r = false -> c_name4 r = false -> c_label_ne_auth r = false ->
  tokp (okv 1 3) (auth_seq_id r) = true ->
  (forall l f, row_fields mv_installed r = Ok (Some (l, f)) ->
     f_chain f = "" /\ f_chain f <> tok_or "" (auth_asym_id r))
  /\ ~ agrees mv_installed r.
Proof.
  intros r HE Hnoalt Hn3 Hlab Hseq3.
  destruct (expressible_kind _ HE) as [k HK].
  assert (Main : forall l f, row_fields mv_installed r = Ok (Some (l, f)) ->
     f_chain f = "" /\ f_chain f <> tok_or "" (auth_asym_id r)).
  { apply negb_false_iff in Hlab, Hn3, Hnoalt.
    apply andb_true_iff in Hlab as [Hlab Hlab3]. apply andb_true_iff in Hlab as [Hlab1 Hlab2].
    destruct (expressible_inv r k HE HK) as
      (sid & snm & scomp & sasym & sseq & sx & sy & sz & socc & sb & sts & serial & sq &
       (Eg & Eid & Enm & Ecomp & Easym & Eseq) & (Ex & Ey & Ez & Eocc & Eb & Ets) &
       ((Nid & Lid1 & Lid2) & Hserial) & (Nnm & Lnm1 & Lnm2) & (Ncomp & Lcomp1 & Lcomp2) &
       (Nasym & Lasym1 & Lasym2) & ((Nseq & Lseq1 & Lseq2) & Hsq) &
       ((Nx & Lx1 & Lx2) & (Ny & Ly1 & Ly2) & (Nz & Lz1 & Lz2)) &
       ((Nocc & Locc1 & Locc2) & (Nb & Lb1 & Lb2) & (Nts & Lts1 & Lts2)) & Halt & Hins & Hchg).
    pose proof (row_kind_tok mv_installed k r Eg) as HRK.
    destruct r as [g rid ts lnm alt lcomp lasym ins x y z occ b chg seq acomp aasym anm mnum].
    projs. subst.
    destruct (item_eqb_inv _ _ Hlab1) as (s1 & -> & E1). inversion E1; subst s1; clear E1.
    destruct (item_eqb_inv _ _ Hlab2) as (s2 & -> & E2). inversion E2; subst s2; clear E2.
    destruct (item_eqb_inv _ _ Hlab3) as (s3 & -> & E3). inversion E3; subst s3; clear E3.
    cbn [tokp] in Hn3, Hseq3.
    apply okv_inv in Hn3 as (_ & _ & Ln3). apply okv_inv in Hseq3 as (_ & _ & Lseq3).
    destruct (get_chg_ok mv_installed chg Hchg) as [vch Ech].
    assert (Ealt : exists valt, get mv_installed alt = Ok valt /\ eq_lit valt "." = false)
      by (destruct (missing_inv _ Hnoalt) as [-> | ->]; eexists; split; reflexivity).
    destruct Ealt as (valt & Ealt & Hne).
    intros l f. cbn [tok_or].
    unfold row_fields, row_line. rewrite HRK. cbn [bind].
    unfold assemble. projs. cbn [get bind py_str ljust_v rjust_v].
    rewrite Ealt. cbn [bind]. rewrite Hne. rewrite Ech. cbn [bind].
    rewrite (rjust_S 3 sseq Lseq3).
    set (l0 := match k with KATOM => ljust 6 (kind_name k) | KHETATM => kind_name k end).
    assert (Ll0 : String.length l0 = 6) by (unfold l0; destruct k; reflexivity).
    match goal with |- context [parse_atom k ?L] => set (LINE := L) end.
    assert (HC : char_at 21 LINE = Ok " ").
    { set (rest := rjust 3 sseq ++ "   " ++ rjust 8 sx ++ rjust 8 sy ++ rjust 8 sz ++ rjust 6 socc ++ rjust 6 sb
                   ++ "          " ++ rjust 2 sts ++ (if eq_lit vch "?" then "  " else "")).
      assert (HL : LINE = cat [l0; rjust 5 sid; "  "; ljust 3 snm; rjust 3 scomp; " "; rjust 1 sasym; " "; rest]).
      { unfold LINE, rest. cbn [cat fold_right]. destruct (eq_lit vch "?");
          rewrite ?app_assoc_s; rewrite ?app_empty_r; reflexivity. }
      rewrite HL.
      rewrite (char_at_cat _ 7 21) by lens. reflexivity. }
    destruct (parse_atom k LINE) as [f0|e] eqn:HP; cbn [bind]; [|discriminate].
    intros H. inversion H; subst f0.
    rewrite (parse_atom_chain k LINE f " " HP HC). split; [reflexivity|].
    cbn. destruct sasym; [cbn in Lasym1; lia|discriminate]. }
  split; [exact Main|].
  intros (k' & l & f & fs & Hk & Hr & Hp & He).
  rewrite HK in Hk. inversion Hk; subst k'.
  destruct (spec_roundtrip r k HE HK) as (serial & seq & _ & _ & Hs).
  rewrite Hs in Hp. apply Ok_inj in Hp. subst fs.
  destruct (Main l f Hr) as [Hc1 Hc2]. apply Hc2.
  unfold primary in He. inversion He. cbn [fields_of_row f_chain]. reflexivity.
Qed.

(* ---- refutations of the unguarded statement (witnesses; replayed on the real code) -- *)

Lemma not_agrees mv r : agreesb mv r = false -> ~ agrees mv r.
Proof. intros H A. apply agrees_iff in A. congruence. Qed.

(* classes = [altloc; alt-unrecognised; name4; inscode; wide; label<>auth] *)
Theorem altloc_refuted : exists r,
  expressible r = true /\ classes mv_legacy r = [true; false; false; false; false; false] /\
  ~ agrees mv_legacy r.
Proof. exists w_alt. split; [reflexivity|]. split; [reflexivity|]. apply not_agrees. vm_compute. reflexivity. Qed.

Theorem name4_refuted : exists r,
  expressible r = true /\ classes mv_legacy r = [false; false; true; false; false; false] /\
  ~ agrees mv_legacy r.
Proof. exists w_name4. split; [reflexivity|]. split; [reflexivity|]. apply not_agrees. vm_compute. reflexivity. Qed.

Theorem inscode_refuted : exists r,
  expressible r = true /\ classes mv_legacy r = [false; false; false; true; false; false] /\
  ~ agrees mv_legacy r.
Proof. exists w_ins. split; [reflexivity|]. split; [reflexivity|]. apply not_agrees. vm_compute. reflexivity. Qed.

(* an 8-character coordinate loses its first character (here the sign), silently *)
Theorem widecoord_refuted : exists r l f,
  expressible r = true /\ classes mv_legacy r = [false; false; false; false; true; false] /\
  ~ agrees mv_legacy r /\
  Cartn_x r = Tok "-100.123" /\ row_fields mv_legacy r = Ok (Some (l, f)) /\ f_x f = "100.123".
Proof.
  exists w_wide. eexists. eexists. split; [reflexivity|]. split; [reflexivity|].
  split; [apply not_agrees; vm_compute; reflexivity|]. split; [reflexivity|].
  split; [vm_compute; reflexivity|]. reflexivity.
Qed.

(* a 6-character occupancy runs into the z column *)
Theorem wideocc_refuted : exists r l f,
  expressible r = true /\ classes mv_legacy r = [false; false; false; false; true; false] /\
  ~ agrees mv_legacy r /\
  Cartn_z r = Tok "2.104" /\ row_fields mv_legacy r = Ok (Some (l, f)) /\ f_z f = "2.1041".
Proof.
  exists w_occ. eexists. eexists. split; [reflexivity|]. split; [reflexivity|].
  split; [apply not_agrees; vm_compute; reflexivity|]. split; [reflexivity|].
  split; [vm_compute; reflexivity|]. reflexivity.
Qed.

Theorem label_auth_refuted : exists r,
  expressible r = true /\ classes mv_legacy r = [false; false; false; false; false; true] /\
  ~ agrees mv_legacy r.
Proof. exists w_label. split; [reflexivity|]. split; [reflexivity|]. apply not_agrees. vm_compute. reflexivity. Qed.

(* formal charge: the atom is the same in the fields the property names, but the
   charge column is never written *)
Theorem formal_charge_refuted : exists r k l f fs,
  guard mv_legacy r = true /\ pdbx_formal_charge r = Tok "1" /\
  spec_kind r = Some k /\ row_fields mv_legacy r = Ok (Some (l, f)) /\
  parse_atom k (pdb_line_of_row r) = Ok fs /\
  primary f = primary fs /\ f_chg fs = "1+" /\ f_chg f = "".
Proof.
  exists w_charge, KATOM. eexists. eexists. eexists.
  split; [reflexivity|]. split; [reflexivity|]. split; [reflexivity|].
  split; [vm_compute; reflexivity|]. split; [vm_compute; reflexivity|].
  split; [reflexivity|]. split; reflexivity.
Qed.

(* the installed library: an ordinary row (inside the guard for the legacy
   convention) comes out with residue, chain and x coordinate wrong *)
Theorem installed_refuted : exists r l f,
  guard mv_legacy r = true /\ classes mv_installed r = [false; true; false; false; false; false] /\
  ~ agrees mv_installed r /\
  row_fields mv_installed r = Ok (Some (l, f)) /\
  (label_comp_id r = Tok "LYS" /\ f_alt f = "L" /\ f_resname f = "YS") /\
  (auth_asym_id r = Tok "A" /\ f_chain f = "") /\
  (Cartn_x r = Tok "-10.123" /\ f_x f = "10.123").
Proof.
  exists w_plain. eexists. eexists. split; [reflexivity|]. split; [reflexivity|].
  split; [apply not_agrees; vm_compute; reflexivity|].
  split; [vm_compute; reflexivity|]. repeat split; reflexivity.
Qed.

(* non-vacuity: the guard is inhabited by an ordinary row (legacy convention) and
   both readers return its atom *)
Example guard_nonvacuous :
  guard mv_legacy w_plain = true /\ guard_trailing mv_legacy w_plain = true /\
  agreesb mv_legacy w_plain = true /\
  exists l, row_fields mv_legacy w_plain = Ok (Some (l, fields_of_row KATOM 7 12 w_plain)).
Proof. split; [reflexivity|]. split; [reflexivity|]. split; [reflexivity|]. eexists. vm_compute. reflexivity. Qed.

(* ---- whole atom_site(block): one record per selected row, in order ------------------ *)

Definition row_ok (mv : mvconv) (r : row) (rc : record) : Prop :=
  exists k serial seq l f,
    spec_kind r = Some k /\ rc = RAtom l f /\ row_fields mv r = Ok (Some (l, f)) /\
    parse_atom k (pdb_line_of_row r) = Ok (fields_of_row k serial seq r) /\
    primary f = primary (fields_of_row k serial seq r).

(* the model filter `get_value("pdbx_PDB_model_num", i) == j` *)
Definition selb (sel : option pyval) (r : row) : bool :=
  match sel with
  | None => true
  | Some j => match pdbx_PDB_model_num r with Tok m => pyval_eqb (Some m) j | _ => false end
  end.

Definition rows_good (mv : mvconv) (rows : list row) : Prop :=
  forall r, In r rows -> guard mv r = true /\
    exists m n, pdbx_PDB_model_num r = Tok m /\ okv 1 4 m = true /\ py_int m = Ok n.

Lemma rows_loop_guard mv sel rows :
  rows_good mv rows ->
  forall acc, exists recs,
    rows_loop mv sel rows acc = ((acc ++ recs)%list, None) /\
    Forall2 (row_ok mv) (filter (selb sel) rows) recs.
Proof.
  induction rows as [|r t IH]; intros HG acc.
  - exists []. cbn. rewrite app_nil_r. split; [reflexivity|constructor].
  - assert (HGt : rows_good mv t) by (intros r' Hr'; apply HG; now right).
    destruct (HG r (or_introl eq_refl)) as (Hg & m & n & Em & _ & _).
    destruct (cif_eq_pdb_partial mv r Hg) as (k & serial & seq & l & f & H1 & H2 & H3 & H4).
    assert (Hok : row_ok mv r (RAtom l f)) by (exists k, serial, seq, l, f; auto).
    cbn [rows_loop filter]. unfold selb at 1. rewrite Em.
    destruct sel as [j|].
    + cbn [get bind]. destruct (pyval_eqb (Some m) j).
      * rewrite H2. destruct (IH HGt (acc ++ [RAtom l f])%list) as (recs & E & F).
        exists (RAtom l f :: recs). rewrite E, <- app_assoc. split; [reflexivity|now constructor].
      * apply IH; assumption.
    + rewrite H2. destruct (IH HGt (acc ++ [RAtom l f])%list) as (recs & E & F).
      exists (RAtom l f :: recs). rewrite E, <- app_assoc. split; [reflexivity|now constructor].
Qed.

Lemma count_models_same mv m rows acc :
  (forall r, In r rows -> pdbx_PDB_model_num r = Tok m) ->
  acc = [] \/ acc = [Some m] ->
  count_models mv rows acc = Ok (match rows with [] => acc | _ => [Some m] end).
Proof.
  revert acc. induction rows as [|r t IH]; intros acc H Hacc; [reflexivity|].
  cbn [count_models]. rewrite (H r (or_introl eq_refl)). cbn [get bind].
  assert (Ht : forall r', In r' t -> pdbx_PDB_model_num r' = Tok m) by (intros; apply H; now right).
  destruct Hacc as [-> | ->].
  - cbn [mem_pyval app].
    pose proof (IH [Some m] Ht (or_intror eq_refl)) as Q. destruct t; exact Q.
  - cbn [mem_pyval pyval_eqb]. rewrite String.eqb_refl. cbn [orb].
    pose proof (IH [Some m] Ht (or_intror eq_refl)) as Q. destruct t; exact Q.
Qed.

(* one model: every row yields its atom, in file order, nothing skipped, no exception *)
Theorem atom_site_single_partial : forall mv rows m,
  rows <> [] ->
  (forall r, In r rows -> guard mv r = true /\ pdbx_PDB_model_num r = Tok m) ->
  exists recs, atom_site mv rows = mkout recs [] None /\ Forall2 (row_ok mv) rows recs.
Proof.
  intros mv rows m Hne H. unfold atom_site.
  rewrite (count_models_same mv m rows []) by (auto; intros; now apply H).
  destruct rows as [|r0 t]; [congruence|]. cbn [List.length Nat.eqb].
  (* rows_loop with no model filter needs only the guard *)
  assert (Hloop : forall rows acc, (forall r, In r rows -> guard mv r = true) ->
            exists recs, rows_loop mv None rows acc = ((acc ++ recs)%list, None) /\ Forall2 (row_ok mv) rows recs).
  { induction rows as [|r t' IH]; intros acc HG.
    - exists []. cbn. rewrite app_nil_r. split; [reflexivity|constructor].
    - destruct (cif_eq_pdb_partial mv r (HG r (or_introl eq_refl))) as (k & serial & seq & l & f & H1 & H2 & H3 & H4).
      cbn [rows_loop]. rewrite H2.
      destruct (IH (acc ++ [RAtom l f])%list) as (recs & E & F); [intros; apply HG; now right|].
      exists (RAtom l f :: recs). rewrite E, <- app_assoc. split; [reflexivity|].
      constructor; [|exact F]. exists k, serial, seq, l, f; auto. }
  destruct (Hloop (r0 :: t) [] (fun r Hr => proj1 (H r Hr))) as (recs & E & F).
  rewrite E. exists recs. split; [reflexivity|exact F].
Qed.

(* several models *)
Lemma model_line_int m n : okv 1 4 m = true -> py_int m = Ok n ->
  py_int (strip (slice 10 14 (model_line (Some m)))) = Ok n.
Proof.
  intros Hm Hn. apply okv_inv in Hm as (Nm & L1 & L2).
  unfold model_line. cbn [py_str].
  replace ("MODEL " ++ "    " ++ rjust 4 m) with (cat ["MODEL     "; rjust 4 m])
    by (cbn [cat fold_right]; rewrite app_empty_r; reflexivity).
  rewrite (slice_cat _ 1 1 10 14) by lens.
  cbn [firstn skipn cat fold_right]. rewrite app_empty_r, strip_rjust by assumption. exact Hn.
Qed.

Definition block_ok (mv : mvconv) (rows : list row) (j : pyval) (blk : list record) : Prop :=
  exists n recs,
    blk = (RModel (model_line j) n :: recs ++ [REndmdl])%list /\
    Forall2 (row_ok mv) (filter (selb (Some j)) rows) recs.

Lemma models_loop_guard mv rows models :
  rows_good mv rows ->
  (forall j, In j models -> exists m n, j = Some m /\ okv 1 4 m = true /\ py_int m = Ok n) ->
  forall acc, exists blocks,
    models_loop mv models rows acc [] = mkout (acc ++ concat blocks)%list [] None /\
    Forall2 (block_ok mv rows) models blocks.
Proof.
  intros HG. induction models as [|j t IH]; intros HM acc.
  - exists []. cbn. rewrite app_nil_r. split; [reflexivity|constructor].
  - destruct (HM j (or_introl eq_refl)) as (m & n & -> & Hm & Hn).
    cbn [models_loop]. rewrite (model_line_int m n Hm Hn).
    destruct (rows_loop_guard mv (Some (Some m)) rows HG (acc ++ [RModel (model_line (Some m)) n])%list)
      as (recs & E & F).
    rewrite E.
    destruct (IH (fun j' Hj' => HM j' (or_intror Hj'))
                 (((acc ++ [RModel (model_line (Some m)) n]) ++ recs) ++ [REndmdl])%list) as (blocks & E2 & F2).
    exists ((RModel (model_line (Some m)) n :: recs ++ [REndmdl])%list :: blocks).
    rewrite E2. split.
    + f_equal. cbn [concat]. rewrite <- !app_assoc. cbn [app]. rewrite <- !app_assoc. reflexivity.
    + constructor; [|exact F2]. exists n, recs. auto.
Qed.

Lemma count_models_elems mv rows :
  (forall r, In r rows -> exists m, pdbx_PDB_model_num r = Tok m) ->
  forall acc models,
  count_models mv rows acc = Ok models ->
  forall j, In j models ->
    In j acc \/ (exists r m, In r rows /\ pdbx_PDB_model_num r = Tok m /\ j = Some m).
Proof.
  induction rows as [|r t IH]; intros HT acc models H j Hj.
  - cbn in H. inversion H; subst. now left.
  - cbn [count_models] in H.
    destruct (HT r (or_introl eq_refl)) as [m Em]. rewrite Em in H. cbn [get bind] in H.
    assert (HTt : forall r', In r' t -> exists m, pdbx_PDB_model_num r' = Tok m) by (intros; apply HT; now right).
    destruct (IH HTt _ _ H j Hj) as [Hin | (r' & m' & Hr' & E' & ->)].
    + destruct (mem_pyval (Some m) acc); [now left|].
      apply in_app_or in Hin as [Hin | [<- | []]]; [now left|].
      right. exists r, m. split; [now left|auto].
    + right. exists r', m'. split; [now right|auto].
Qed.

Lemma count_models_ok mv rows : rows_good mv rows -> forall acc, exists models, count_models mv rows acc = Ok models.
Proof.
  induction rows as [|r t IH]; intros HG acc; [eexists; reflexivity|].
  destruct (HG r (or_introl eq_refl)) as (_ & m & n & Em & _).
  cbn [count_models]. rewrite Em. cbn [get bind]. apply IH. intros r' Hr'. apply HG. now right.
Qed.

(* several models: MODEL n / the rows of that model in file order / ENDMDL, per
   distinct model number in order of first appearance; no exception, no error entry *)
Theorem atom_site_models_partial : forall mv rows models,
  rows_good mv rows ->
  count_models mv rows [] = Ok models -> List.length models <> 1 ->
  exists blocks,
    atom_site mv rows = mkout (concat blocks) [] None /\
    Forall2 (block_ok mv rows) models blocks.
Proof.
  intros mv rows models HG HC Hn. unfold atom_site. rewrite HC.
  destruct (Nat.eqb (List.length models) 1) eqn:E; [apply Nat.eqb_eq in E; congruence|].
  destruct (models_loop_guard mv rows models HG) with (acc := @nil record) as (blocks & E2 & F2).
  - intros j Hj.
    assert (HT : forall r, In r rows -> exists m, pdbx_PDB_model_num r = Tok m)
      by (intros r Hr; destruct (HG r Hr) as (_ & m & n & Em & _); eauto).
    destruct (count_models_elems mv rows HT [] models HC j Hj) as [[] | (r & m & Hr & Em & ->)].
    destruct (HG r Hr) as (_ & m' & n & Em' & Hm & Hi). rewrite Em in Em'. inversion Em'; subst m'. eauto.
  - exists blocks. split; [exact E2|exact F2].
Qed.
