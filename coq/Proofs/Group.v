(* C07, record level: Biomolecule.__init__ keeps exactly the first-listed
   record of every identity of the first model (under the stated guards). *)
From Coq Require Import String Ascii List Arith NArith ZArith Bool Lia Permutation.
From PV Require Import Lib.Strings Lib.Decimal Model.PdbRead Model.Group Model.PdbSpec Proofs.PdbRead.
Import ListNotations.
Local Open Scope string_scope.
Local Open Scope list_scope.

(* ---- first-wins filtering, generically ------------------------------------- *)

Section KeepFirst.
  Context {A : Type}.

  (* [eq new old] *)
  Fixpoint keep_first (eq : A -> A -> bool) (seen l : list A) : list A :=
    match l with
    | [] => []
    | a :: r =>
        if existsb (eq a) seen then keep_first eq seen r else a :: keep_first eq (a :: seen) r
    end.

  Lemma existsb_ext_in (f g : A -> bool) l :
    (forall x, In x l -> f x = g x) -> existsb f l = existsb g l.
  Proof.
    induction l as [|x l IH]; intros H; simpl; [reflexivity|].
    rewrite (H x (or_introl eq_refl)), IH; [reflexivity|]. intros y Hy. apply H. right; exact Hy.
  Qed.

  Lemma kf_agree eq1 eq2 l : forall seen,
    (forall a b, In a (seen ++ l) -> In b (seen ++ l) -> eq1 a b = eq2 a b) ->
    keep_first eq1 seen l = keep_first eq2 seen l.
  Proof.
    induction l as [|a r IH]; intros seen H; simpl; [reflexivity|].
    assert (E : existsb (eq1 a) seen = existsb (eq2 a) seen).
    { apply existsb_ext_in. intros x Hx. apply H; apply in_or_app; [right; left; reflexivity | left; exact Hx]. }
    rewrite E. destruct (existsb (eq2 a) seen).
    - apply IH. intros x y Hx Hy. apply H.
      + apply in_app_or in Hx as [Hx|Hx]; apply in_or_app; [left|right; right]; exact Hx.
      + apply in_app_or in Hy as [Hy|Hy]; apply in_or_app; [left|right; right]; exact Hy.
    - f_equal. apply IH. intros x y Hx Hy. apply H.
      + apply in_app_or in Hx as [[Hx|Hx]|Hx]; apply in_or_app;
          [right; left; exact Hx | left; exact Hx | right; right; exact Hx].
      + apply in_app_or in Hy as [[Hy|Hy]|Hy]; apply in_or_app;
          [right; left; exact Hy | left; exact Hy | right; right; exact Hy].
  Qed.

  Lemma kf_seen_irrel eq S l : forall T,
    (forall b s, In b l -> In s S -> eq b s = false) ->
    keep_first eq (T ++ S) l = keep_first eq T l.
  Proof.
    induction l as [|a r IH]; intros T H; simpl; [reflexivity|].
    rewrite existsb_app.
    assert (E : existsb (eq a) S = false).
    { clear IH. induction S as [|s S IHS]; simpl; [reflexivity|].
      rewrite (H a s (or_introl eq_refl) (or_introl eq_refl)). simpl. apply IHS.
      intros b s' Hb Hs'. apply H; [exact Hb | right; exact Hs']. }
    rewrite E, orb_false_r.
    assert (H' : forall b s, In b r -> In s S -> eq b s = false).
    { intros b s Hb Hs. apply H; [right; exact Hb | exact Hs]. }
    destruct (existsb (eq a) T); [apply IH; exact H'|].
    f_equal. apply (IH (a :: T)); exact H'.
  Qed.

  Lemma kf_app eq l1 l2 : forall seen,
    keep_first eq seen (l1 ++ l2) =
    keep_first eq seen l1 ++ keep_first eq (rev (keep_first eq seen l1) ++ seen) l2.
  Proof.
    induction l1 as [|a l1 IH]; intros seen; simpl; [reflexivity|].
    destruct (existsb (eq a) seen); [apply IH|].
    simpl. f_equal. rewrite IH. f_equal. rewrite <- app_assoc. reflexivity.
  Qed.


  Lemma kf_seen_ext eq l : forall S1 S2,
    (forall x, existsb (eq x) S1 = existsb (eq x) S2) ->
    keep_first eq S1 l = keep_first eq S2 l.
  Proof.
    induction l as [|a r IH]; intros S1 S2 H; simpl; [reflexivity|].
    rewrite (H a). destruct (existsb (eq a) S2); [apply IH; exact H|].
    f_equal. apply IH. intros x. simpl. rewrite (H x). reflexivity.
  Qed.

  Lemma kf_drop_seen eq S l1 a l2 :
    existsb (eq a) S = true -> keep_first eq S (l1 ++ a :: l2) = keep_first eq S (l1 ++ l2).
  Proof.
    intros H. rewrite !kf_app. f_equal. simpl.
    rewrite existsb_app, H, orb_true_r. reflexivity.
  Qed.

  (* an equality test that decides equality of a key *)
  Section Keyed.
    Variable K : Type.
    Variable key : A -> K.
    Variable eq : A -> A -> bool.
    Hypothesis eq_key : forall a b, eq a b = true <-> key a = key b.

    Lemma existsb_key x L : existsb (eq x) L = true <-> In (key x) (map key L).
    Proof.
      induction L as [|s L IH]; simpl; [split; [discriminate | tauto]|].
      rewrite orb_true_iff, IH, eq_key. split; intros [H|H]; auto.
    Qed.

    Lemma kf_keys l : forall S k,
      In k (map key (keep_first eq S l)) \/ In k (map key S) <-> In k (map key l) \/ In k (map key S).
    Proof.
      induction l as [|a r IH]; intros S k; simpl; [tauto|].
      destruct (existsb (eq a) S) eqn:E.
      - apply existsb_key in E. rewrite IH. split; [tauto|].
        intros [[H|H]|H]; [subst k; right; exact E | tauto | tauto].
      - simpl. specialize (IH (a :: S) k). simpl in IH. tauto.
    Qed.

    (* the kept elements carry the same keys as the list *)
    Lemma kf_existsb x S l :
      existsb (eq x) (rev (keep_first eq S l) ++ S) = existsb (eq x) (S ++ l).
    Proof.
      apply eq_true_iff_eq. rewrite !existsb_key, !map_app, map_rev, !in_app_iff, <- in_rev.
      rewrite (kf_keys l S (key x)). tauto.
    Qed.
  End Keyed.

  Lemma kf_subset eq l : forall seen x, In x (keep_first eq seen l) -> In x l.
  Proof.
    induction l as [|a r IH]; intros seen x; simpl; [tauto|].
    destruct (existsb (eq a) seen); [intros H; right; eapply IH; exact H|].
    intros [H|H]; [left; exact H | right; eapply IH; exact H].
  Qed.
End KeepFirst.

Lemma kf_map {A B} (f : B -> A) (eqA : A -> A -> bool) (eqB : B -> B -> bool) l :
  (forall x y, eqB x y = eqA (f x) (f y)) ->
  forall seen, map f (keep_first eqB seen l) = keep_first eqA (map f seen) (map f l).
Proof.
  intros H. induction l as [|a r IH]; intros seen; simpl; [reflexivity|].
  assert (E : existsb (eqA (f a)) (map f seen) = existsb (eqB a) seen).
  { clear IH. induction seen as [|s seen IHs]; simpl; [reflexivity|]. rewrite H, IHs. reflexivity. }
  rewrite E. destruct (existsb (eqB a) seen); [apply IH|].
  simpl. f_equal. apply (IH (a :: seen)).
Qed.

(* ---- last_atom --------------------------------------------------------------- *)

Lemma last_atom_nil : last_atom [] = None. Proof. reflexivity. Qed.

Lemma last_atom_snoc l a : last_atom (l ++ [a]) = Some a.
Proof. unfold last_atom. rewrite map_app. simpl. apply last_last. Qed.

Lemma last_atom_some l : l <> [] -> exists p, last_atom l = Some p /\ In p l.
Proof.
  intros H. destruct (exists_last H) as [l' [a E]]. subst l. exists a.
  split; [apply last_atom_snoc | apply in_or_app; right; left; reflexivity].
Qed.

Lemma last_atom_none l : last_atom l = None -> l = [].
Proof.
  intros H. destruct l as [|a l]; [reflexivity|].
  destruct (last_atom_some (a :: l)) as [p [E _]]; [discriminate|]. rewrite E in H. discriminate.
Qed.

Lemma is_nil_true {A} (l : list A) : is_nil l = true <-> l = [].
Proof. destruct l; simpl; split; intros H; try reflexivity; discriminate. Qed.

Lemma is_nil_false {A} (l : list A) : is_nil l = false <-> l <> [].
Proof. destruct l; simpl; split; intros H; try discriminate; try reflexivity. contradiction. Qed.

(* ---- same_key is an equivalence ------------------------------------------------ *)

Lemma same_key_spec a b :
  same_key a b = true <->
  a_resseq a = a_resseq b /\ a_icode a = a_icode b /\ a_chain a = a_chain b.
Proof.
  unfold same_key. rewrite !andb_true_iff, Z.eqb_eq, !String.eqb_eq. tauto.
Qed.

Lemma same_key_refl a : same_key a a = true.
Proof. apply same_key_spec. auto. Qed.

Lemma same_key_sym a b : same_key a b = true -> same_key b a = true.
Proof. rewrite !same_key_spec. intuition congruence. Qed.

Lemma same_key_trans a b c : same_key a b = true -> same_key b c = true -> same_key a c = true.
Proof. rewrite !same_key_spec. intuition congruence. Qed.

Definition name_eq (a b : atomrec) : bool := a_name a =? a_name b.

Lemma same_ident_key a b : same_key a b = true -> same_ident a b = name_eq a b.
Proof.
  intros H. apply same_key_spec in H as [H1 [H2 H3]].
  unfold same_ident, rident, ident_eqb, name_eq. rewrite H1, H2, H3, !String.eqb_refl, Z.eqb_refl.
  simpl. apply andb_true_r.
Qed.


Lemma same_id_ident a b : same_id a b = same_ident a b.
Proof.
  unfold same_id, same_key, same_ident, rident, ident_eqb.
  destruct (a_resseq a =? a_resseq b)%Z, (a_icode a =? a_icode b), (a_chain a =? a_chain b),
    (a_name a =? a_name b); reflexivity.
Qed.

Definition idk (a : atomrec) := (a_resseq a, a_icode a, a_chain a, a_name a).

Lemma same_id_key a b : same_id a b = true <-> idk a = idk b.
Proof.
  unfold same_id, same_key, idk. rewrite !andb_true_iff, Z.eqb_eq, !String.eqb_eq.
  split; [intros [[[H1 H2] H3] H4]; congruence | intros H; injection H; auto].
Qed.

Lemma same_id_same_key a b : same_id a b = true -> same_key a b = true.
Proof. unfold same_id. intros H. apply andb_true_iff in H as [H _]. exact H. Qed.

Lemma same_id_name a b : same_key a b = true -> same_id a b = name_eq a b.
Proof. unfold same_id, name_eq. intros H. rewrite H. reflexivity. Qed.

(* ---- create_residue keeps the first-listed record of every name -------------- *)

Section Stable.
  (* any observation of an atom that the residue constructors do not touch
     (they touch name, alt_loc, res_name and Atom.type only) *)
  Variable B : Type.
  Variable p : atomrec -> B.
  Hypothesis p_alt : forall a s, p (set_alt a s) = p a.
  Hypothesis p_name : forall a s, p (set_name a s) = p a.
  Hypothesis p_resname : forall a s, p (set_resname a s) = p a.
  Hypothesis p_het : forall a h, p (set_het a h) = p a.

  Lemma mem_str_map x S : mem_str (a_name x) (map a_name S) = existsb (name_eq x) S.
  Proof. induction S as [|s S IH]; simpl; [reflexivity|]. rewrite IH. reflexivity. Qed.

  Lemma dedupe_p blank l : forall S,
    map p (dedupe blank (map a_name S) l) = map p (keep_first name_eq S l).
  Proof.
    induction l as [|a r IH]; intros S; simpl; [reflexivity|].
    rewrite mem_str_map. destruct (existsb (name_eq a) S); [apply IH|].
    simpl. f_equal.
    - destruct (blank && existsb (fun b => a_name b =? a_name a) r); [apply p_alt | reflexivity].
    - apply (IH (a :: S)).
  Qed.

  Variable tab : deftab.

  Definition geq (seg : list atomrec) (a b : atomrec) : bool :=
    run_rename tab seg (a_name a) =? run_rename tab seg (a_name b).

  Definition mkres (seg : list atomrec) : resid :=
    match last_atom seg with
    | Some q => create_residue tab seg (a_resname q)
    | None => create_residue tab seg ""
    end.

  Lemma map_map_p f l : (forall a, p (f a) = p a) -> map p (map f l) = map p l.
  Proof. intros H. rewrite map_map. apply map_ext. exact H. Qed.

  Lemma mkres_p seg : map p (r_atoms (mkres seg)) = map p (keep_first (geq seg) [] seg).
  Proof.
    unfold mkres, geq, run_rename, create_residue.
    destruct (last_atom seg) as [q|] eqn:Eq.
    2:{ apply last_atom_none in Eq. subst seg. reflexivity. }
    set (rn := match lookup (a_resname q) tab with Some _ => a_resname q | None => rna_map (a_resname q) end).
    assert (Gen : map p (dedupe true [] seg) = map p (keep_first (fun a b => a_name a =? a_name b) [] seg)).
    { exact (dedupe_p true seg []). }
    destruct (lookup rn tab) as [[k alts]|] eqn:El.
    - assert (Ren : forall blank,
                map p (dedupe blank [] (map (fun a => set_name a (alt_name alts (a_name a))) seg)) =
                map p (keep_first (fun a b => alt_name alts (a_name a) =? alt_name alts (a_name b)) [] seg)).
      { intros blank. rewrite (dedupe_p blank _ []).
        pose proof (kf_map (fun a => set_name a (alt_name alts (a_name a))) name_eq
                      (fun a b => alt_name alts (a_name a) =? alt_name alts (a_name b)) seg
                      (fun x y => eq_refl) []) as K.
        cbn [map] in K. rewrite <- K.
        apply map_map_p. intros a. apply p_name. }
      destruct k; simpl.
      + rewrite map_map_p by (intros a; rewrite p_het; apply p_resname). apply Ren.
      + rewrite map_map_p by (intros a; rewrite p_het; apply p_resname). apply Ren.
      + rewrite map_map_p by (intros a; rewrite p_het; apply p_resname). apply Ren.
      + destruct (a_resname q =? "HOH"); simpl; [rewrite map_map_p by (intros a; apply p_resname)|]; exact Gen.
    - destruct (a_resname q =? "HOH"); simpl; [rewrite map_map_p by (intros a; apply p_resname)|]; exact Gen.
  Qed.

  Lemma implb_true a b : implb a b = true -> a = true -> b = true.
  Proof. destruct a, b; simpl; auto. Qed.

  Lemma mkres_p_alias seg :
    alias_ok tab seg = true ->
    map p (r_atoms (mkres seg)) = map p (keep_first name_eq [] seg).
  Proof.
    intros H. rewrite mkres_p. f_equal. apply kf_agree. simpl. intros a b Ha Hb.
    unfold alias_ok in H. rewrite forallb_forall in H. specialize (H a Ha).
    rewrite forallb_forall in H. specialize (H b Hb).
    unfold geq, name_eq. destruct (a_name a =? a_name b) eqn:En.
    - apply String.eqb_eq in En. rewrite En. apply String.eqb_refl.
    - destruct (run_rename tab seg (a_name a) =? run_rename tab seg (a_name b)) eqn:Eg; [|reflexivity].
      simpl in H. discriminate H.
  Qed.

  (* ---- the chain dictionary only permutes residues ---------------------------- *)

  Definition chain_res (chs : list (string * list resid)) : list resid := flat_map snd chs.

  Lemma add_res_perm k r chs : Permutation (chain_res (add_res k r chs)) (r :: chain_res chs).
  Proof.
    induction chs as [|[k' rs] t IH]; simpl; [apply Permutation_refl|].
    destruct (k =? k'); simpl.
    - rewrite <- app_assoc. simpl. apply Permutation_sym, Permutation_middle.
    - eapply Permutation_trans; [apply Permutation_app_head; exact IH|].
      apply Permutation_sym, Permutation_middle.
  Qed.

  Lemma ensure_chain_res k chs : chain_res (ensure_chain k chs) = chain_res chs.
  Proof.
    unfold ensure_chain, chain_res. destruct (has_key k chs); [reflexivity|].
    rewrite flat_map_app. simpl. apply app_nil_r.
  Qed.

  Lemma insert_chain_perm c l : Permutation (insert_chain c l) (c :: l).
  Proof.
    induction l as [|d t IH]; simpl; [apply Permutation_refl|].
    destruct (String.ltb (sort_key (fst c)) (sort_key (fst d))); [apply Permutation_refl|].
    eapply Permutation_trans; [apply perm_skip; exact IH | apply perm_swap].
  Qed.

  Lemma sort_chains_perm l : Permutation (sort_chains l) l.
  Proof.
    induction l as [|c l IH]; simpl; [constructor|].
    eapply Permutation_trans; [apply insert_chain_perm | apply perm_skip; exact IH].
  Qed.

  (* ---- the state machine forms exactly the runs of [lsegs] -------------------- *)

  Definition pend_ok (st : gst) : Prop := g_res st <> [] -> g_prev st = last_atom (g_res st).

  Lemma flush_spec st :
    pend_ok st -> g_res st <> [] ->
    Permutation (chain_res (g_chains (flush tab st))) (mkres (g_res st) :: chain_res (g_chains st)) /\
    g_prev (flush tab st) = g_prev st /\ g_res (flush tab st) = g_res st /\
    g_nm (flush tab st) = g_nm st /\ g_count (flush tab st) = g_count st /\
    g_placed (flush tab st) = g_placed st.
  Proof.
    intros Hp Hne. unfold flush. rewrite (Hp Hne).
    destruct (last_atom_some _ Hne) as [q [Eq _]]. rewrite Eq. simpl.
    repeat split. unfold mkres. rewrite Eq. apply add_res_perm.
  Qed.

  Definition rec_inert (nch : nat) (r : rec) : bool :=
    match r with
    | RAtom a => negb ((a_chain a =? "") && (1 <? nch)%nat && negb (mem_str (a_resname a) ["WAT"; "HOH"]))
    | _ => true
    end.

  Lemma gstep_atom nch free st a :
    rec_inert nch (RAtom a) = true -> pend_ok st ->
    exists st3, gstep tab nch free st (RAtom a) = GCont st3 /\ pend_ok st3 /\ g_nm st3 = g_nm st /\
      if existsb (same_id a) (g_placed st) then st3 = st
      else
      match last_atom (g_res st) with
      | Some q =>
          if same_key a q
          then g_res st3 = g_res st ++ [a] /\ chain_res (g_chains st3) = chain_res (g_chains st) /\
               g_placed st3 = g_placed st
          else g_res st3 = [a] /\
               Permutation (chain_res (g_chains st3)) (mkres (g_res st) :: chain_res (g_chains st)) /\
               g_placed st3 = g_placed st ++ g_res st
      | None => g_res st3 = [a] /\ chain_res (g_chains st3) = chain_res (g_chains st) /\
                g_placed st3 = g_placed st
      end.
  Proof.
    intros Hr Hp. cbn [rec_inert] in Hr. apply negb_true_iff in Hr.
    cbn [gstep]. rewrite Hr.
    destruct (existsb (same_id a) (g_placed st)) eqn:Epl.
    { exists st. repeat split; try reflexivity. exact Hp. }
    set (st1 := mkG (g_prev st) (g_res st) (g_nm st) (g_count st)
                    (ensure_chain (a_chain a) (g_chains st)) (g_placed st)).
    assert (Hp1 : pend_ok st1) by exact Hp.
    assert (C1 : chain_res (g_chains st1) = chain_res (g_chains st)) by apply ensure_chain_res.
    change (g_prev st1) with (g_prev st). change (g_res st1) with (g_res st).
    destruct (last_atom (g_res st)) as [q|] eqn:Eq.
    - assert (Hne : g_res st <> []) by (intros E; rewrite E in Eq; discriminate).
      rewrite (Hp Hne), Eq.
      assert (Enil : is_nil (g_res st) = false) by (apply is_nil_false; exact Hne).
      rewrite Enil. cbn [negb andb].
      destruct (same_key a q) eqn:Ek; cbn [negb].
      + eexists; split; [reflexivity|].
        change (g_res st1) with (g_res st). change (g_nm st1) with (g_nm st).
        split; [intros _; symmetry; apply last_atom_snoc|]. split; [reflexivity|].
        split; [reflexivity|]. split; [exact C1 | reflexivity].
      + assert (Hp2 : pend_ok (place st1)) by exact Hp.
        assert (Hne2 : g_res (place st1) <> []) by exact Hne.
        destruct (flush_spec (place st1) Hp2 Hne2) as [PF [F1 [F2 [F3 [F4 F5]]]]].
        eexists; split; [reflexivity|]. unfold clear_res. cbn [g_prev g_res g_nm g_chains g_placed].
        split; [intros _; reflexivity|]. split; [exact F3|].
        split; [reflexivity|]. split; [rewrite <- C1; exact PF | exact F5].
    - apply last_atom_none in Eq. rewrite Eq.
      assert (E2 : match g_prev st with
                   | Some q => if negb (is_nil (@nil atomrec)) && negb (same_key a q)
                               then clear_res (flush tab (place st1)) else st1
                   | None => st1 end = st1) by (destruct (g_prev st); reflexivity).
      rewrite E2. eexists; split; [reflexivity|].
      change (g_res st1) with (g_res st). change (g_nm st1) with (g_nm st). rewrite Eq.
      split; [intros _; reflexivity|]. split; [reflexivity|]. split; [reflexivity|].
      split; [exact C1 | reflexivity].
  Qed.

  Lemma gloop_lsegs nch free recs : forall st,
    pend_ok st -> forallb (rec_inert nch) recs = true ->
    exists st', gloop tab nch free st recs = Some st' /\
      Permutation (chain_res (g_chains st'))
                  (chain_res (g_chains st) ++ map mkres (lsegs (g_placed st) (g_nm st) (g_res st) recs)).
  Proof.
    induction recs as [|r rest IH]; intros st Hp Hin.
    - (* end of list *)
      simpl. unfold gfinish. destruct (negb (is_nil (g_res st)) && (g_nm st <=? 1)%nat) eqn:E.
      + apply andb_true_iff in E as [E1 _]. apply negb_true_iff, is_nil_false in E1.
        destruct (flush_spec st Hp E1) as [P _]. eexists; split; [reflexivity|].
        eapply Permutation_trans; [exact P|]. simpl. apply Permutation_cons_append.
      + eexists; split; [reflexivity|]. simpl. rewrite app_nil_r. apply Permutation_refl.
    - cbn [forallb] in Hin. apply andb_true_iff in Hin as [Hr Hin].
      destruct r as [a| | |].
      + (* ATOM / HETATM *)
        destruct (gstep_atom nch free st a Hr Hp) as [st3 [G3 [Hp3 [Nm3 M]]]].
        cbn [gloop]. rewrite G3.
        destruct (IH st3 Hp3 Hin) as [st' [G P]]. exists st'. split; [exact G|].
        rewrite Nm3 in P. cbn [lsegs].
        destruct (existsb (same_id a) (g_placed st)); [subst st3; exact P|].
        destruct (last_atom (g_res st)) as [q|].
        * destruct (same_key a q).
          -- destruct M as [M1 [M2 M3]]. rewrite M1, M2, M3 in P. exact P.
          -- destruct M as [M1 [M2 M3]]. rewrite M1, M3 in P.
             eapply Permutation_trans; [exact P|].
             eapply Permutation_trans; [apply Permutation_app_tail; exact M2|].
             cbn [map]. simpl. apply Permutation_middle.
        * destruct M as [M1 [M2 M3]]. rewrite M1, M2, M3 in P. exact P.
      + (* TER *)
        cbn [gloop gstep lsegs].
        set (st1 := mkG (g_prev st) (g_res st) (g_nm st) (S (g_count st)) (g_chains st) (g_placed st)).
        destruct (IH st1 Hp Hin) as [st' [G P]]. exists st'. split; [exact G | exact P].
      + (* END *)
        cbn [gloop gstep lsegs].
        destruct (g_res st) as [|x xs] eqn:Eres.
        * cbn [is_nil cons_nel].
          set (st1 := clear_res st).
          destruct (IH st1) as [st' [G P]]; [intros H; exfalso; apply H; reflexivity | exact Hin |].
          exists st'. split; [exact G|].
          unfold st1, clear_res in P. cbn [g_chains g_nm g_res g_placed] in P.
          rewrite app_nil_r. exact P.
        * assert (Hne : g_res (place st) <> []) by (cbn [place g_res]; rewrite Eres; discriminate).
          assert (Hp2 : pend_ok (place st)) by exact Hp.
          destruct (flush_spec (place st) Hp2 Hne) as [PF [F1 [F2 [F3 [F4 F5]]]]].
          cbn [is_nil cons_nel].
          set (st1 := clear_res (flush tab (place st))).
          destruct (IH st1) as [st' [G P]]; [intros H; exfalso; apply H; reflexivity | exact Hin |].
          exists st'. split; [exact G|].
          unfold st1, clear_res in P. cbn [g_chains g_nm g_res g_placed] in P. rewrite F3, F5 in P.
          cbn [place g_nm g_placed g_res g_chains] in P, PF. rewrite Eres in P, PF.
          eapply Permutation_trans; [exact P|].
          eapply Permutation_trans; [apply Permutation_app_tail; exact PF|].
          cbn [map]. simpl. apply Permutation_middle.
      + (* MODEL *)
        cbn [gloop gstep lsegs].
        set (st1 := mkG (g_prev st) (g_res st) (S (g_nm st)) (g_count st) (g_chains st) (g_placed st)).
        assert (Hp1 : pend_ok st1) by exact Hp.
        change (g_res st1) with (g_res st). change (g_nm st1) with (S (g_nm st)).
        destruct (1 <? S (g_nm st))%nat.
        * destruct (is_nil (g_res st)) eqn:En.
          -- apply is_nil_true in En. rewrite En. eexists; split; [reflexivity|].
             simpl. rewrite app_nil_r. apply Permutation_refl.
          -- apply is_nil_false in En.
             destruct (flush_spec st1 Hp1 En) as [PF _].
             eexists; split; [reflexivity|]. eapply Permutation_trans; [exact PF|].
             change (g_res st1) with (g_res st). change (g_chains st1) with (g_chains st).
             destruct (g_res st) as [|x xs]; [exfalso; apply En; reflexivity|].
             simpl. apply Permutation_cons_append.
        * destruct (IH st1 Hp1 Hin) as [st' [G P]]. exists st'. split; [exact G | exact P].
  Qed.

  (* ---- what the runs contain ---------------------------------------------------- *)

  (* the records in front of the second MODEL record *)
  Fixpoint fm (nm : nat) (recs : list rec) : list rec :=
    match recs with
    | [] => []
    | RModel :: r => if (1 <=? nm)%nat then [] else RModel :: fm (S nm) r
    | x :: r => x :: fm nm r
    end.

  Lemma concat_cons_nel {A} (h : list A) t : concat (cons_nel h t) = h ++ concat t.
  Proof. destruct h; reflexivity. Qed.

  Definition hom (seg : list atomrec) : Prop := forall a b, In a seg -> In b seg -> same_key a b = true.

  Lemma hom_nil : hom []. Proof. intros a b []. Qed.
  Lemma hom_one a : hom [a].
  Proof. intros x y [Hx|[]] [Hy|[]]. subst. apply same_key_refl. Qed.

  Lemma last_atom_in pend q : last_atom pend = Some q -> In q pend.
  Proof.
    intros Eq. destruct pend as [|x xs]; [discriminate|].
    destruct (last_atom_some (x :: xs)) as [q' [E' I']]; [discriminate|]. congruence.
  Qed.

  Lemma hom_snoc pend q a :
    hom pend -> last_atom pend = Some q -> same_key a q = true -> hom (pend ++ [a]).
  Proof.
    intros Hh Eq Ek. pose proof (last_atom_in _ _ Eq) as Hq.
    assert (Ka : forall z, In z pend -> same_key z a = true).
    { intros z Hz. eapply same_key_trans; [apply (Hh z q Hz Hq) | apply same_key_sym; exact Ek]. }
    intros x y Hx Hy. apply in_app_or in Hx, Hy.
    destruct Hx as [Hx|[Hx|[]]], Hy as [Hy|[Hy|[]]]; subst.
    - apply Hh; assumption.
    - apply Ka; assumption.
    - apply same_key_sym, Ka; assumption.
    - apply same_key_refl.
  Qed.

  (* a record with another key matches no record of the run *)
  Lemma hom_other_key pend q a x :
    hom pend -> last_atom pend = Some q -> same_key a q = false -> In x pend -> same_id a x = false.
  Proof.
    intros Hh Eq Ek Hx. destruct (same_id a x) eqn:E; [|reflexivity].
    apply same_id_same_key in E. pose proof (last_atom_in _ _ Eq) as Hq.
    rewrite (same_key_trans a x q E (Hh x q Hx Hq)) in Ek. discriminate.
  Qed.

  Lemma Forall_cons_nel {A} (P : list A -> Prop) h t : P h -> Forall P t -> Forall P (cons_nel h t).
  Proof. intros H1 H2. destruct h; [exact H2 | constructor; assumption]. Qed.

  Lemma lsegs_hom recs : forall pl nm pend, hom pend -> Forall hom (lsegs pl nm pend recs).
  Proof.
    induction recs as [|r rest IH]; intros pl nm pend Hh.
    - simpl. destruct (negb (is_nil pend) && (nm <=? 1)%nat); repeat constructor. exact Hh.
    - destruct r as [a| | |]; cbn [lsegs].
      + destruct (existsb (same_id a) pl); [apply IH; exact Hh|].
        destruct (last_atom pend) as [q|] eqn:Eq.
        * destruct (same_key a q) eqn:Ek.
          -- apply IH. eapply hom_snoc; eassumption.
          -- constructor; [exact Hh | apply IH, hom_one].
        * apply IH, hom_one.
      + apply IH; exact Hh.
      + apply Forall_cons_nel; [exact Hh | apply IH, hom_nil].
      + destruct (1 <? S nm)%nat; [apply Forall_cons_nel; [exact Hh | constructor] | apply IH; exact Hh].
  Qed.

  (* ---- per-run first-wins + skipping placed identities = global first-wins ----- *)

  Notation KF := (keep_first same_id).

  Lemma no_match_kf P pend :
    (forall x, In x pend -> existsb (same_id x) P = false) -> KF P pend = KF [] pend.
  Proof.
    intros H. apply (kf_seen_irrel same_id P pend []).
    intros b s Hb Hs. specialize (H b Hb).
    destruct (same_id b s) eqn:E; [|reflexivity].
    assert (X : existsb (same_id b) P = true) by (apply existsb_exists; exists s; split; assumption).
    rewrite X in H. discriminate.
  Qed.

  (* closing the run [pend]: what was seen = placed ++ pend *)
  Lemma kf_close P pend l :
    (forall x, In x pend -> existsb (same_id x) P = false) ->
    KF P (pend ++ l) = KF [] pend ++ KF (P ++ pend) l.
  Proof.
    intros H. rewrite kf_app, (no_match_kf P pend H). f_equal.
    apply kf_seen_ext. intros x. rewrite <- (no_match_kf P pend H).
    apply (kf_existsb _ idk same_id same_id_key).
  Qed.

  Lemma kf_lsegs recs : forall P nm pend,
    nm <= 1 -> hom pend -> (forall x, In x pend -> existsb (same_id x) P = false) ->
    concat (map (KF []) (lsegs P nm pend recs)) = KF P (pend ++ atoms_of (fm nm recs)).
  Proof.
    induction recs as [|r rest IH]; intros P nm pend Hnm Hh Hno.
    - cbn [lsegs fm atoms_of]. rewrite app_nil_r.
      assert (E : (nm <=? 1)%nat = true) by (apply Nat.leb_le; exact Hnm). rewrite E, andb_true_r.
      destruct pend as [|x xs]; [reflexivity|]. cbn [is_nil negb map concat]. rewrite app_nil_r.
      symmetry. apply no_match_kf. exact Hno.
    - destruct r as [a| | |]; cbn [lsegs fm atoms_of].
      + destruct (existsb (same_id a) P) eqn:Ea.
        { rewrite (IH P nm pend Hnm Hh Hno). symmetry. apply kf_drop_seen. exact Ea. }
        destruct (last_atom pend) as [q|] eqn:Eq.
        * destruct (same_key a q) eqn:Ek.
          -- rewrite (IH P nm (pend ++ [a]) Hnm).
             ++ rewrite <- app_assoc. reflexivity.
             ++ eapply hom_snoc; eassumption.
             ++ intros x Hx. apply in_app_or in Hx as [Hx|[Hx|[]]]; [apply Hno; exact Hx | subst x; exact Ea].
          -- cbn [map concat]. rewrite (IH (P ++ pend) nm [a] Hnm (hom_one a)).
             ++ symmetry. apply (kf_close P pend (a :: atoms_of (fm nm rest)) Hno).
             ++ intros x [Hx|[]]. subst x. rewrite existsb_app, Ea. cbn [orb].
                destruct (existsb (same_id a) pend) eqn:Ex; [|reflexivity].
                apply existsb_exists in Ex as [y [Hy Ey]].
                rewrite (hom_other_key pend q a y Hh Eq Ek Hy) in Ey. discriminate.
        * apply last_atom_none in Eq. subst pend.
          rewrite (IH P nm [a] Hnm (hom_one a)); [reflexivity|].
          intros x [Hx|[]]. subst x. exact Ea.
      + apply IH; assumption.
      + assert (C : concat (map (KF []) (cons_nel pend (lsegs (P ++ pend) nm [] rest))) =
                    KF [] pend ++ concat (map (KF []) (lsegs (P ++ pend) nm [] rest))).
        { destruct pend; reflexivity. }
        rewrite C, (IH (P ++ pend) nm [] Hnm hom_nil) by (intros x []).
        symmetry. apply (kf_close P pend (atoms_of (fm nm rest)) Hno).
      + destruct (1 <=? nm)%nat eqn:E1.
        * apply Nat.leb_le in E1. assert (E2 : (1 <? S nm)%nat = true) by (apply Nat.ltb_lt; lia).
          rewrite E2. cbn [atoms_of]. rewrite app_nil_r.
          destruct pend as [|x xs]; [reflexivity|]. cbn [cons_nel map concat]. rewrite app_nil_r.
          symmetry. apply no_match_kf. exact Hno.
        * apply Nat.leb_gt in E1. assert (nm = 0) by lia. subst nm.
          cbn [Nat.ltb Nat.leb atoms_of]. apply (IH P 1 pend); [lia | exact Hh | exact Hno].
  Qed.

  Lemma kf_hom seg : hom seg -> KF [] seg = keep_first name_eq [] seg.
  Proof.
    intros H. apply kf_agree. simpl. intros a b Ha Hb. apply same_id_name. apply H; assumption.
  Qed.

  (* ---- lettering is inert under the guard ---------------------------------------- *)

  Lemma count_ter_cons r l :
    count_ter (r :: l) = (match r with RTer => 1 | _ => 0 end) + count_ter l.
  Proof. unfold count_ter. simpl. destruct r; reflexivity. Qed.

  Lemma inert_rec_inert recs nch :
    (count_ter recs = 0 -> nch <= 1) ->
    inert recs = true -> forallb (rec_inert nch) recs = true.
  Proof.
    unfold inert. intros Hn H. apply orb_true_iff in H as [H|H].
    - apply Nat.eqb_eq in H. specialize (Hn H).
      apply forallb_forall. intros [a| | |] _; try reflexivity. simpl.
      assert (E : (1 <? nch)%nat = false) by (apply Nat.ltb_ge; lia).
      rewrite E, andb_false_r. reflexivity.
    - clear Hn. induction recs as [|[a| | |] l IH]; simpl in *; try reflexivity; try (apply IH; exact H).
      apply andb_true_iff in H as [Ha Hl]. rewrite (IH Hl), andb_true_r.
      unfold unlettered in Ha. apply orb_true_iff in Ha as [Ha|Ha].
      + apply negb_true_iff in Ha. rewrite Ha. reflexivity.
      + simpl in Ha. rewrite Ha. simpl. rewrite andb_false_r. reflexivity.
  Qed.

  (* ---- the record-level theorem ---------------------------------------------------- *)

  Theorem group_complete recs :
    inert recs = true ->
    forallb (alias_ok tab) (lsegs [] 0 [] recs) = true ->
    exists rs, group tab recs = Some rs /\
      Permutation (map p (all_atoms rs))
                  (map p (keep_first same_ident [] (atoms_of (fm 0 recs)))).
  Proof.
    intros Hin Hal.
    assert (Hri : forallb (rec_inert (1 + count_ter recs)) recs = true).
    { apply inert_rec_inert; [lia | exact Hin]. }
    destruct (gloop_lsegs (1 + count_ter recs) (free_ids recs) recs g0) as [st' [G P]];
      [intros H; exfalso; apply H; reflexivity | exact Hri |].
    unfold group. rewrite G. eexists; split; [reflexivity|].
    simpl in P. set (segs := lsegs [] 0 [] recs) in *.
    unfold all_atoms. rewrite <- !flat_map_concat_map.
    assert (P2 : Permutation (flat_map snd (sort_chains (g_chains st'))) (map mkres segs)).
    { eapply Permutation_trans; [|exact P]. apply Permutation_flat_map, sort_chains_perm. }
    eapply Permutation_trans.
    { apply Permutation_map. apply Permutation_flat_map. exact P2. }
    (* now an equality *)
    assert (E : map p (flat_map r_atoms (map mkres segs)) =
                map p (keep_first same_ident [] (atoms_of (fm 0 recs)))).
    { assert (Hk : keep_first same_ident [] (atoms_of (fm 0 recs)) = KF [] (atoms_of (fm 0 recs))).
      { apply kf_agree. intros a b _ _. symmetry. apply same_id_ident. }
      rewrite Hk.
      pose proof (kf_lsegs recs [] 0 [] (Nat.le_0_l 1) hom_nil (fun x (H : In x []) => False_ind _ H)) as Hc.
      cbn [app] in Hc. rewrite <- Hc. fold segs.
      assert (Hh : Forall hom segs) by (apply lsegs_hom, hom_nil).
      clear - Hh Hal p_alt p_name p_resname p_het. induction segs as [|s r IH]; [reflexivity|].
      simpl in *. apply andb_true_iff in Hal as [Ha Hr]. inversion Hh as [|? ? Hs Hr']; subst.
      rewrite !map_app. rewrite (IH Hr Hr'). f_equal.
      rewrite (mkres_p_alias s Ha), (kf_hom s Hs). reflexivity. }
    rewrite E. apply Permutation_refl.
  Qed.

End Stable.
