(* C07, line level: ties read_pdb, the grouping theorem and the column
   specification together; the property theorems are proved here. *)
From Coq Require Import String Ascii List Arith NArith ZArith Bool Lia Permutation.
From PV Require Import Lib.Strings Lib.Decimal Model.PdbRead Model.Group Model.PdbSpec
  Proofs.PdbRead Proofs.Group.
Import ListNotations.
Local Open Scope string_scope.
Local Open Scope list_scope.

Section Ingest.
  Variable fok : string -> bool.
  Variable tab : deftab.

  Lemma line_recs_eq raw : recs_of_line fok raw = line_recs fok raw.
  Proof. reflexivity. Qed.

  (* ---- what g_line gives --------------------------------------------------------- *)

  Lemma g_line_nonempty raw : g_line fok raw = true -> is_empty raw = false.
  Proof. unfold g_line. intros H. apply andb_true_iff in H as [H _]. apply negb_true_iff; exact H. Qed.

  Lemma g_line_names raw :
    g_line fok raw = true ->
    mem_str (rec_name raw) three || mem_str (rec_name (strip raw)) three = true ->
    rec_name raw = rec_name (strip raw) /\ exists w, all_ws w /\ raw = (strip raw ++ w)%string.
  Proof.
    unfold g_line. intros H Hc. apply andb_true_iff in H as [_ H]. cbv zeta in H.
    rewrite Hc in H. apply andb_true_iff in H as [H _]. apply String.eqb_eq in H.
    destruct (strip_decomp raw H) as [w [Hw E]]. split; [|exists w; split; assumption].
    rewrite E at 1. apply rec_name_app_ws; exact Hw.
  Qed.

  Lemma parse_cols_inv het src l a :
    parse_cols fok het src l = POk a ->
    exists serial c16 c21 resseq c26,
      rec_name l = (if het then "HETATM" else "ATOM") /\
      py_int (slice 6 11 l) = Some serial /\ String.get 16 l = Some c16 /\
      String.get 21 l = Some c21 /\ py_int (slice 22 26 l) = Some resseq /\
      String.get 26 l = Some c26 /\
      a = mkA het (rec_name l) serial (strip (slice 12 16 l)) (char_field c16)
              (strip (slice 17 20 l)) (char_field c21) resseq (char_field c26)
              (strip (slice 30 38 l)) (strip (slice 38 46 l)) (strip (slice 46 54 l)) src.
  Proof.
    unfold parse_cols.
    destruct (rec_name l =? (if het then "HETATM" else "ATOM")) eqn:Ern; [|discriminate].
    apply String.eqb_eq in Ern. cbn [negb].
    destruct (py_int (slice 6 11 l)) as [serial|]; [|discriminate].
    destruct (String.get 16 l) as [c16|]; [|discriminate].
    destruct (String.get 21 l) as [c21|]; [|destruct het; discriminate].
    destruct (py_int (slice 22 26 l)) as [resseq|]; [|discriminate].
    destruct (String.get 26 l) as [c26|]; [|destruct het; discriminate].
    destruct (fok (strip (slice 30 38 l)) && fok (strip (slice 38 46 l)) && fok (strip (slice 46 54 l)));
      [|discriminate].
    intros H. injection H as H. exists serial, c16, c21, resseq, c26. repeat split; try exact Ern.
    symmetry; exact H.
  Qed.

  (* what a coordinate line of the specification becomes *)
  Definition reads (a : atomrec) (raw : string) : Prop :=
    a_src a = strip raw /\ rident a = line_ident raw /\
    a_resname a = strip (slice 17 20 raw) /\
    Some (a_serial a) = py_int (slice 6 11 raw) /\
    a_x a = strip (slice 30 38 raw) /\ a_y a = strip (slice 38 46 raw) /\
    a_z a = strip (slice 46 54 raw).

  Lemma char_field_slice n s w c :
    all_ws w -> String.get n s = Some c -> strip (slice n (S n) (s ++ w)%string) = char_field c.
  Proof.
    intros Hw Hg. rewrite strip_slice_app_ws by exact Hw. rewrite slice1_get, Hg. reflexivity.
  Qed.

  Lemma coord_line raw :
    g_line fok raw = true -> is_coord raw = true ->
    exists a, line_recs fok raw = [RAtom a] /\ reads a raw /\ tok0_ok a = true.
  Proof.
    intros Hg Hc.
    assert (H3 : mem_str (rec_name raw) three = true).
    { unfold is_coord in Hc. simpl in Hc. simpl.
      destruct (rec_name raw =? "ATOM"); [reflexivity|].
      destruct (rec_name raw =? "HETATM"); [reflexivity|]. discriminate. }
    destruct (g_line_names raw Hg) as [En [w [Hw Ew]]]; [rewrite H3; reflexivity|].
    unfold g_line in Hg. apply andb_true_iff in Hg as [_ Hg]. cbv zeta in Hg.
    rewrite H3 in Hg. cbn [orb] in Hg. apply andb_true_iff in Hg as [_ Hg].
    unfold line_recs. cbv zeta.
    remember (strip raw) as s eqn:Es in *.
    assert (Hne : is_empty s = false).
    { destruct s; [|reflexivity]. unfold is_coord in Hc. rewrite En in Hc. discriminate. }
    rewrite Hne.
    assert (Hk : mem_str (rec_name s) known_records = true).
    { unfold is_coord in Hc. rewrite En in Hc. simpl in Hc.
      destruct (rec_name s =? "ATOM") eqn:E1; [apply String.eqb_eq in E1; rewrite E1; reflexivity|].
      destruct (rec_name s =? "HETATM") eqn:E2; [apply String.eqb_eq in E2; rewrite E2; reflexivity|].
      discriminate. }
    unfold line_outcome. rewrite Hk. cbn [negb].
    assert (Fin : forall het a, parse_cols fok het s s = POk a -> reads a raw).
    { intros het a Hp. destruct (parse_cols_inv _ _ _ _ Hp)
        as [serial [c16 [c21 [resseq [c26 [_ [I1 [G16 [G21 [I2 [G26 Ea]]]]]]]]]]].
      subst a. unfold reads, rident, line_ident. cbn [a_src a_chain a_resseq a_icode a_name a_resname a_serial a_x a_y a_z].
      split; [exact Es|].
      rewrite Ew.
      rewrite (py_int_ext (slice 22 26 (s ++ w)%string) (slice 22 26 s)) by (apply strip_slice_app_ws; exact Hw).
      rewrite (py_int_ext (slice 6 11 (s ++ w)%string) (slice 6 11 s)) by (apply strip_slice_app_ws; exact Hw).
      rewrite !(strip_slice_app_ws _ _ s w Hw).
      rewrite !slice1_get, G21, G26. rewrite I1, I2. unfold char_field. repeat split. }
    assert (Fin2 : forall het a, parse_cols fok het s s = POk a -> tok0_ok a = true).
    { intros het a Hp. destruct (parse_cols_inv _ _ _ _ Hp)
        as [serial [c16 [c21 [resseq [c26 [Ern [_ [_ [_ [_ [_ Ea]]]]]]]]]]].
      subst a. unfold tok0_ok. cbn [a_tok0]. rewrite Ern. destruct het; reflexivity. }
    destruct (rec_name s =? "ATOM") eqn:E1.
    - unfold atom_outcome. destruct (parse_cols fok false s s) as [a| |] eqn:Ep; try discriminate.
      exists a. split; [reflexivity | split; [apply (Fin false) | apply (Fin2 false)]; exact Ep].
    - destruct (rec_name s =? "HETATM") eqn:E2.
      + unfold atom_outcome. destruct (parse_cols fok true s s) as [a| |] eqn:Ep; try discriminate.
        exists a. split; [reflexivity | split; [apply (Fin true) | apply (Fin2 true)]; exact Ep].
      + exfalso. unfold is_coord in Hc. rewrite En in Hc. simpl in Hc. rewrite E1, E2 in Hc. discriminate.
  Qed.

  Lemma atom_outcome_rec het l r : atom_outcome fok het l = ORec r -> exists a, r = RAtom a.
  Proof.
    unfold atom_outcome. destruct (parse_cols fok het l l); try discriminate.
    - intros H; injection H as H; eauto.
    - destruct (read_atom fok het l); try discriminate. intros H; injection H as H; eauto.
  Qed.

  (* a line that is not a coordinate line contributes no coordinate record *)
  Lemma noncoord_line raw :
    g_line fok raw = true -> is_coord raw = false -> atoms_of (line_recs fok raw) = [].
  Proof.
    intros Hg Hc. unfold line_recs. cbv zeta. destruct (is_empty (strip raw)); [reflexivity|].
    destruct (line_outcome fok (strip raw)) as [|r| |] eqn:Eo; try reflexivity.
    destruct r as [a| | |]; try reflexivity. exfalso.
    (* the outcome is an atom: the stripped record name is ATOM or HETATM *)
    assert (H2 : mem_str (rec_name (strip raw)) ["ATOM"; "HETATM"] = true).
    { unfold line_outcome in Eo.
      destruct (negb (mem_str (rec_name (strip raw)) known_records)); [discriminate|].
      simpl. destruct (rec_name (strip raw) =? "ATOM"); [reflexivity|].
      destruct (rec_name (strip raw) =? "HETATM"); [reflexivity|].
      destruct (rec_name (strip raw) =? "TER"); [discriminate|].
      destruct (rec_name (strip raw) =? "END"); [discriminate|].
      destruct (rec_name (strip raw) =? "MODEL"); [|discriminate].
      destruct (py_int (slice 10 14 (strip raw))); discriminate. }
    assert (H3 : mem_str (rec_name (strip raw)) three = true).
    { simpl in H2. simpl. destruct (rec_name (strip raw) =? "ATOM"); [reflexivity|].
      destruct (rec_name (strip raw) =? "HETATM"); [reflexivity | discriminate]. }
    destruct (g_line_names raw Hg) as [En _]; [rewrite H3; apply orb_true_r|].
    unfold is_coord in Hc. rewrite En, H2 in Hc. discriminate.
  Qed.

  (* MODEL lines of the specification are exactly the MODEL records *)
  Lemma model_line raw :
    g_line fok raw = true -> is_model raw = true -> line_recs fok raw = [RModel].
  Proof.
    intros Hg Hm. unfold is_model in Hm. apply String.eqb_eq in Hm.
    assert (H3 : mem_str (rec_name raw) three = true) by (rewrite Hm; reflexivity).
    destruct (g_line_names raw Hg) as [En _]; [rewrite H3; reflexivity|].
    unfold g_line in Hg. apply andb_true_iff in Hg as [_ Hg]. cbv zeta in Hg.
    rewrite H3 in Hg. cbn [orb] in Hg. apply andb_true_iff in Hg as [_ Hg].
    rewrite <- En, Hm in Hg. simpl in Hg.
    unfold line_recs. cbv zeta.
    destruct (is_empty (strip raw)) eqn:Ee.
    { apply is_empty_true in Ee. rewrite Ee in En. rewrite Hm in En. discriminate. }
    unfold line_outcome. rewrite <- En, Hm. simpl.
    destruct (py_int (slice 10 14 (strip raw))); [reflexivity | discriminate].
  Qed.

  Lemma nonmodel_line raw :
    g_line fok raw = true -> is_model raw = false -> ~ In RModel (line_recs fok raw).
  Proof.
    intros Hg Hm. unfold line_recs. cbv zeta. destruct (is_empty (strip raw)); [intros []|].
    destruct (line_outcome fok (strip raw)) as [|r| |] eqn:Eo; [intros [] | | intros [] | intros []].
    intros [H|[]]. subst r. unfold line_outcome in Eo.
    destruct (negb (mem_str (rec_name (strip raw)) known_records)); [discriminate|].
    destruct (rec_name (strip raw) =? "ATOM").
    { apply atom_outcome_rec in Eo as [a Ea]. discriminate. }
    destruct (rec_name (strip raw) =? "HETATM").
    { apply atom_outcome_rec in Eo as [a Ea]. discriminate. }
    destruct (rec_name (strip raw) =? "TER"); [discriminate|].
    destruct (rec_name (strip raw) =? "END"); [discriminate|].
    destruct (rec_name (strip raw) =? "MODEL") eqn:E5; [|discriminate].
    apply String.eqb_eq in E5.
    assert (H3 : mem_str (rec_name (strip raw)) three = true) by (rewrite E5; reflexivity).
    destruct (g_line_names raw Hg) as [En _]; [rewrite H3; apply orb_true_r|].
    unfold is_model in Hm. rewrite En, E5 in Hm. discriminate.
  Qed.

  Lemma g_line_ok raw : g_line fok raw = true -> line_ok fok raw = true.
  Proof.
    intros Hg. unfold line_ok. rewrite (g_line_nonempty raw Hg). cbn [negb andb]. cbv zeta.
    destruct (is_empty (strip raw)) eqn:Ee; [reflexivity|]. cbn [orb].
    destruct (line_outcome fok (strip raw)) as [|r| |] eqn:Eo; try reflexivity.
    - (* OErr: unknown name, or MODEL with a bad serial (excluded by g_line) *)
      apply negb_true_iff. unfold line_outcome in Eo.
      destruct (mem_str (rec_name (strip raw)) known_records) eqn:Ek; cbn [negb] in Eo.
      + destruct (rec_name (strip raw) =? "ATOM").
        { unfold atom_outcome in Eo. destruct (parse_cols fok false (strip raw) (strip raw)); try discriminate.
          destruct (read_atom fok false (strip raw)); discriminate. }
        destruct (rec_name (strip raw) =? "HETATM").
        { unfold atom_outcome in Eo. destruct (parse_cols fok true (strip raw) (strip raw)); try discriminate.
          destruct (read_atom fok true (strip raw)); discriminate. }
        destruct (rec_name (strip raw) =? "TER"); [discriminate|].
        destruct (rec_name (strip raw) =? "END"); [discriminate|].
        destruct (rec_name (strip raw) =? "MODEL") eqn:E5; [|discriminate].
        apply String.eqb_eq in E5. exfalso.
        assert (H3 : mem_str (rec_name (strip raw)) three = true) by (rewrite E5; reflexivity).
        destruct (g_line_names raw Hg) as [En _]; [rewrite H3; apply orb_true_r|].
        unfold g_line in Hg. apply andb_true_iff in Hg as [_ Hg]. cbv zeta in Hg.
        rewrite H3, orb_true_r in Hg. apply andb_true_iff in Hg as [_ Hg].
        rewrite E5 in Hg. simpl in Hg.
        destruct (py_int (slice 10 14 (strip raw))); discriminate.
      + (* unknown: not one of the five *)
        destruct (mem_str (rec_name (strip raw)) five) eqn:E5; [|reflexivity].
        exfalso. simpl in E5.
        destruct (rec_name (strip raw) =? "ATOM") eqn:E; [apply String.eqb_eq in E; rewrite E in Ek; discriminate|].
        destruct (rec_name (strip raw) =? "HETATM") eqn:E0; [apply String.eqb_eq in E0; rewrite E0 in Ek; discriminate|].
        destruct (rec_name (strip raw) =? "TER") eqn:E1; [apply String.eqb_eq in E1; rewrite E1 in Ek; discriminate|].
        destruct (rec_name (strip raw) =? "END") eqn:E2; [apply String.eqb_eq in E2; rewrite E2 in Ek; discriminate|].
        destruct (rec_name (strip raw) =? "MODEL") eqn:E3; [apply String.eqb_eq in E3; rewrite E3 in Ek; discriminate|].
        discriminate.
    - (* ORaise: only coordinate lines raise, and g_line makes them parse *)
      exfalso. unfold line_outcome in Eo.
      destruct (negb (mem_str (rec_name (strip raw)) known_records)); [discriminate|].
      assert (Hat : forall het : bool, rec_name (strip raw) = (if het then "HETATM" else "ATOM") ->
                                atom_outcome fok het (strip raw) = ORaise -> False).
      { intros het En' Ho.
        assert (H3 : mem_str (rec_name (strip raw)) three = true) by (rewrite En'; destruct het; reflexivity).
        unfold g_line in Hg. apply andb_true_iff in Hg as [_ Hg]. cbv zeta in Hg.
        rewrite H3, orb_true_r in Hg. apply andb_true_iff in Hg as [_ Hg].
        rewrite En' in Hg. unfold atom_outcome in Ho.
        destruct het; simpl in Hg.
        - destruct (parse_cols fok true (strip raw) (strip raw)); discriminate.
        - destruct (parse_cols fok false (strip raw) (strip raw)); discriminate. }
      destruct (rec_name (strip raw) =? "ATOM") eqn:E1.
      { apply String.eqb_eq in E1. exact (Hat false E1 Eo). }
      destruct (rec_name (strip raw) =? "HETATM") eqn:E2.
      { apply String.eqb_eq in E2. exact (Hat true E2 Eo). }
      destruct (rec_name (strip raw) =? "TER"); [discriminate|].
      destruct (rec_name (strip raw) =? "END"); [discriminate|].
      destruct (rec_name (strip raw) =? "MODEL"); [|discriminate].
      destruct (py_int (slice 10 14 (strip raw))); discriminate.
  Qed.

  Lemma forallb_g_line_ok lines : forallb (g_line fok) lines = true -> forallb (line_ok fok) lines = true.
  Proof.
    rewrite !forallb_forall. intros H x Hx. apply g_line_ok, H, Hx.
  Qed.

  Theorem read_guarded lines :
    forallb (g_line fok) lines = true ->
    exists e, read_pdb fok lines = Some (flat_map (line_recs fok) lines, e).
  Proof.
    intros H. destruct (read_pdb_char fok lines (forallb_g_line_ok lines H)) as [e E].
    exists e. exact E.
  Qed.

  (* ---- first model: lines vs records ----------------------------------------------- *)

  Lemma fm_app_nomodel nm l r : ~ In RModel l -> fm nm (l ++ r) = l ++ fm nm r.
  Proof.
    induction l as [|x l IH]; intros H; simpl; [reflexivity|].
    destruct x; try (f_equal; apply IH; intros H'; apply H; right; exact H').
    exfalso. apply H. left; reflexivity.
  Qed.

  Lemma first_model_sub seen lines x : In x (first_model seen lines) -> In x lines.
  Proof.
    revert seen; induction lines as [|l r IH]; intros seen; simpl; [tauto|].
    destruct (is_model l).
    - destruct seen; [intros []|]. intros [H|H]; [left; exact H | right; eapply IH; exact H].
    - intros [H|H]; [left; exact H | right; eapply IH; exact H].
  Qed.

  Lemma fm_first_model lines : forall nm seen,
    (nm = 0 /\ seen = false) \/ (nm = 1 /\ seen = true) ->
    forallb (g_line fok) lines = true ->
    fm nm (flat_map (line_recs fok) lines) = flat_map (line_recs fok) (first_model seen lines).
  Proof.
    induction lines as [|l r IH]; intros nm seen Hs Hg; [reflexivity|].
    simpl in Hg. apply andb_true_iff in Hg as [Hl Hr]. cbn [flat_map first_model].
    destruct (is_model l) eqn:Em.
    - rewrite (model_line l Hl Em). cbn [app fm].
      destruct Hs as [[-> ->]|[-> ->]]; cbn [Nat.leb]; [|reflexivity].
      cbn [flat_map]. rewrite (model_line l Hl Em). cbn [app]. f_equal.
      apply IH; [right; split; reflexivity | exact Hr].
    - rewrite fm_app_nomodel by (apply nonmodel_line; assumption).
      cbn [flat_map]. f_equal. apply IH; assumption.
  Qed.

  (* ---- coordinate records vs coordinate lines ---------------------------------------- *)

  Lemma atoms_of_app l1 l2 : atoms_of (l1 ++ l2) = atoms_of l1 ++ atoms_of l2.
  Proof.
    induction l1 as [|x l1 IH]; simpl; [reflexivity|]. destruct x; simpl; rewrite IH; reflexivity.
  Qed.

  Lemma atoms_lines ls :
    forallb (g_line fok) ls = true ->
    Forall2 reads (atoms_of (flat_map (line_recs fok) ls)) (filter is_coord ls).
  Proof.
    induction ls as [|l r IH]; intros Hg; simpl; [constructor|].
    simpl in Hg. apply andb_true_iff in Hg as [Hl Hr]. rewrite atoms_of_app.
    destruct (is_coord l) eqn:Ec.
    - destruct (coord_line l Hl Ec) as [a [E [R _]]]. rewrite E. simpl. constructor; [exact R | apply IH; exact Hr].
    - rewrite (noncoord_line l Hl Ec). simpl. apply IH; exact Hr.
  Qed.

  Lemma kept_lines az ls :
    Forall2 reads az ls ->
    forall seenA seenI, map rident seenA = seenI ->
      Forall2 reads (keep_first same_ident seenA az) (first_listed seenI ls).
  Proof.
    induction 1 as [|a l az ls R _ IH]; intros seenA seenI Hs; simpl; [constructor|].
    assert (Ri : rident a = line_ident l) by (destruct R as [_ [R _]]; exact R).
    assert (E : existsb (same_ident a) seenA = existsb (ident_eqb (line_ident l)) seenI).
    { subst seenI. rewrite <- Ri. clear. induction seenA as [|s S IHs]; simpl; [reflexivity|].
      rewrite IHs. reflexivity. }
    rewrite E. destruct (existsb (ident_eqb (line_ident l)) seenI).
    - apply IH; exact Hs.
    - constructor; [exact R|]. apply IH. simpl. rewrite Ri, Hs. reflexivity.
  Qed.

  Lemma reads_src az ls : Forall2 reads az ls -> map a_src az = map strip ls.
  Proof.
    induction 1 as [|a l az ls [R _] _ IH]; simpl; [reflexivity|]. rewrite R, IH. reflexivity.
  Qed.

  Lemma forallb_sub {A} (f : A -> bool) l l' :
    (forall x, In x l' -> In x l) -> forallb f l = true -> forallb f l' = true.
  Proof. rewrite !forallb_forall. intros H1 H2 x Hx. apply H2, H1, Hx. Qed.

  (* the records the specification selects, as parsed atoms *)
  Lemma spec_atoms lines :
    forallb (g_line fok) lines = true ->
    Forall2 reads
      (keep_first same_ident [] (atoms_of (fm 0 (flat_map (line_recs fok) lines))))
      (cols_read lines).
  Proof.
    intros Hg. rewrite (fm_first_model lines 0 false) by (auto).
    unfold cols_read. apply kept_lines; [|reflexivity].
    apply atoms_lines. eapply forallb_sub; [|exact Hg]. intros x. apply first_model_sub.
  Qed.

  (* ---- C07_ingest_complete ---------------------------------------------------------------- *)

  Theorem ingest_complete lines :
    guard fok tab lines = true ->
    exists rs, ingest fok tab false lines = Done rs /\
      Permutation (map a_src (all_atoms rs)) (map strip (cols_read lines)).
  Proof.
    unfold guard. intros H. apply andb_true_iff in H as [Hg H]. cbv zeta in H.
    apply andb_true_iff in H as [Hin Hal].
    destruct (read_guarded lines Hg) as [e Er].
    destruct (group_complete string a_src (fun _ _ => eq_refl) (fun _ _ => eq_refl)
                (fun _ _ => eq_refl) (fun _ _ => eq_refl) tab _ Hin Hal) as [rs [Gr P]].
    exists rs. split.
    - unfold ingest. rewrite Er, Gr. reflexivity.
    - rewrite <- (reads_src _ _ (spec_atoms lines Hg)). exact P.
  Qed.

  (* every atom of the result carries the column fields of a selected line *)
  Definition fields (a : atomrec) :=
    (a_src a, a_serial a, a_chain a, a_resseq a, a_icode a, a_x a, a_y a, a_z a).

  Theorem atom_fields lines rs :
    guard fok tab lines = true -> ingest fok tab false lines = Done rs ->
    forall a, In a (all_atoms rs) ->
      exists l, In l (cols_read lines) /\
        a_src a = strip l /\
        Some (a_serial a) = py_int (slice 6 11 l) /\
        a_chain a = strip (slice 21 22 l) /\
        Some (a_resseq a) = py_int (slice 22 26 l) /\
        a_icode a = strip (slice 26 27 l) /\
        a_x a = strip (slice 30 38 l) /\ a_y a = strip (slice 38 46 l) /\
        a_z a = strip (slice 46 54 l).
  Proof.
    unfold guard. intros H Hi a Ha. apply andb_true_iff in H as [Hg H]. cbv zeta in H.
    apply andb_true_iff in H as [Hin Hal].
    destruct (read_guarded lines Hg) as [e Er].
    destruct (group_complete _ fields (fun _ _ => eq_refl) (fun _ _ => eq_refl)
                (fun _ _ => eq_refl) (fun _ _ => eq_refl) tab _ Hin Hal) as [rs' [Gr P]].
    unfold ingest in Hi. rewrite Er, Gr in Hi. injection Hi as Hi. subst rs'.
    assert (Hf : In (fields a) (map fields (all_atoms rs))) by (apply in_map; exact Ha).
    apply (Permutation_in _ P) in Hf. apply in_map_iff in Hf as [b [Eb Hb]].
    pose proof (spec_atoms lines Hg) as F2.
    (* b is one of the spec atoms: find its line *)
    assert (Hl : exists l, In l (cols_read lines) /\ reads b l).
    { clear - Hb F2. induction F2 as [|x l xs ls R _ IH]; [destruct Hb|].
      destruct Hb as [Hb|Hb]; [subst x; exists l; split; [left; reflexivity | exact R]|].
      destruct (IH Hb) as [l' [I' R']]. exists l'. split; [right; exact I' | exact R']. }
    destruct Hl as [l [Il [R1 [R2 [R3 [R4 [R5 [R6 R7]]]]]]]]. exists l. split; [exact Il|].
    unfold fields in Eb. injection Eb as E1 E2 E3 E4 E5 E6 E7 E8.
    unfold rident, line_ident in R2. injection R2 as I1 I2 I3 I4.
    rewrite <- E1, <- E2, <- E3, <- E4, <- E5, <- E6, <- E7, <- E8.
    repeat split; congruence.
  Qed.

  (* ---- unconditional invariances ------------------------------------------------------------- *)

  Lemma ingest_fst d l1 l2 :
    option_map fst (read_pdb fok l1) = option_map fst (read_pdb fok l2) ->
    ingest fok tab d l1 = ingest fok tab d l2.
  Proof.
    unfold ingest. destruct (read_pdb fok l1) as [[r1 e1]|], (read_pdb fok l2) as [[r2 e2]|];
      simpl; intros H; try discriminate; [injection H as H; subst; reflexivity | reflexivity].
  Qed.

  Theorem ingest_blank d l1 b l2 :
    blank_line b -> ingest fok tab d (l1 ++ b :: l2) = ingest fok tab d (l1 ++ l2).
  Proof. intros H. apply ingest_fst. rewrite (read_pdb_blank fok l1 b l2 H). reflexivity. Qed.

  Theorem ingest_unknown d l1 u l2 :
    unknown_line u -> ingest fok tab d (l1 ++ u :: l2) = ingest fok tab d (l1 ++ l2).
  Proof. intros H. apply ingest_fst. apply read_pdb_unknown; exact H. Qed.

  Theorem ingest_same_body d ls ls' :
    Forall2 same_body ls ls' -> ingest fok tab d ls = ingest fok tab d ls'.
  Proof. intros H. apply ingest_fst. rewrite (read_pdb_same_body fok ls ls' H). reflexivity. Qed.

  (* ---- later models ------------------------------------------------------------------------------ *)

  Lemma gstep_inert nch nch' fr fr' st r :
    rec_inert nch r = true -> rec_inert nch' r = true ->
    gstep tab nch fr st r = gstep tab nch' fr' st r.
  Proof.
    destruct r as [a| | |]; try reflexivity. cbn [rec_inert gstep]. intros H1 H2.
    apply negb_true_iff in H1, H2. rewrite H1, H2. reflexivity.
  Qed.

  Lemma flush_nm st : g_nm (flush tab st) = g_nm st /\ g_res (flush tab st) = g_res st.
  Proof. unfold flush. destruct (g_prev st); split; reflexivity. Qed.

  Lemma flush_chains_nm st n :
    g_chains (flush tab (mkG (g_prev st) (g_res st) n (g_count st) (g_chains st) (g_placed st))) =
    g_chains (flush tab st).
  Proof. unfold flush. cbn [g_prev g_res g_chains g_count]. destruct (g_prev st); reflexivity. Qed.

  (* the loop on the whole record list = the loop on the records in front of the
     second MODEL record (since the C07-F3 fix: whatever is pending there) *)
  Lemma gloop_fm nch nch' fr fr' recs : forall st,
    pend_ok st -> g_nm st <= 1 ->
    forallb (rec_inert nch) recs = true -> forallb (rec_inert nch') recs = true ->
    option_map g_chains (gloop tab nch fr st recs) =
    option_map g_chains (gloop tab nch' fr' st (fm (g_nm st) recs)).
  Proof.
    induction recs as [|r rest IH]; intros st Hp Hn H1 H2; [reflexivity|].
    cbn [forallb] in H1, H2. apply andb_true_iff in H1 as [R1 H1]. apply andb_true_iff in H2 as [R2 H2].
    destruct r as [a| | |].
    - cbn [fm gloop]. rewrite <- (gstep_inert nch nch' fr fr' st (RAtom a) R1 R2).
      destruct (gstep_atom tab nch fr st a R1 Hp) as [st3 [G3 [Hp3 [Nm3 _]]]].
      rewrite G3. rewrite <- Nm3. apply IH; try assumption; lia.
    - cbn [fm gloop gstep].
      apply (IH (mkG (g_prev st) (g_res st) (g_nm st) (S (g_count st)) (g_chains st) (g_placed st)));
        assumption.
    - cbn [fm gloop gstep].
      set (st1 := clear_res (if is_nil (g_res st) then st else flush tab (place st))).
      assert (N1 : g_nm st1 = g_nm st).
      { unfold st1, clear_res. cbn [g_nm]. destruct (is_nil (g_res st)); [reflexivity|].
        destruct (flush_nm (place st)) as [F _]. rewrite F. reflexivity. }
      rewrite <- N1. apply IH; try assumption.
      + intros H. exfalso. apply H. reflexivity.
      + lia.
    - cbn [fm gloop gstep].
      set (st1 := mkG (g_prev st) (g_res st) (S (g_nm st)) (g_count st) (g_chains st) (g_placed st)).
      change (g_res st1) with (g_res st). change (g_nm st1) with (S (g_nm st)).
      destruct (1 <=? g_nm st)%nat eqn:E1.
      + (* second MODEL: break; on the cut list the loop ends and flushes *)
        apply Nat.leb_le in E1. assert (E2 : (1 <? S (g_nm st))%nat = true) by (apply Nat.ltb_lt; lia).
        rewrite E2. cbn [gloop]. unfold gfinish.
        assert (E3 : (g_nm st <=? 1)%nat = true) by (apply Nat.leb_le; lia). rewrite E3, andb_true_r.
        destruct (is_nil (g_res st)); cbn [negb option_map]; [reflexivity|].
        f_equal. apply flush_chains_nm.
      + apply Nat.leb_gt in E1. assert (E0 : g_nm st = 0) by lia.
        assert (E2 : (1 <? S (g_nm st))%nat = false) by (rewrite E0; reflexivity). rewrite E2.
        cbn [gloop gstep g_res g_nm]. fold st1. 
        change (g_res st1) with (g_res st). change (g_nm st1) with (S (g_nm st)). rewrite E2.
        apply (IH st1); try assumption; try exact Hp; unfold st1; cbn [g_nm]; lia.
  Qed.

  Lemma count_ter_fm nm recs : count_ter (fm nm recs) <= count_ter recs.
  Proof.
    revert nm; induction recs as [|r l IH]; intros nm; [apply Nat.le_refl|].
    destruct r; cbn [fm]; rewrite ?count_ter_cons; try (specialize (IH nm); lia).
    destruct (1 <=? nm)%nat; [unfold count_ter; simpl; lia|].
    rewrite !count_ter_cons. specialize (IH (S nm)). lia.
  Qed.

  Theorem group_first_model recs :
    inert recs = true -> group tab recs = group tab (fm 0 recs).
  Proof.
    intros Hin. unfold group.
    assert (R1 : forallb (rec_inert (1 + count_ter recs)) recs = true)
      by (apply inert_rec_inert; [lia | exact Hin]).
    assert (R2 : forallb (rec_inert (1 + count_ter (fm 0 recs))) recs = true).
    { apply inert_rec_inert; [|exact Hin]. intros H. pose proof (count_ter_fm 0 recs). lia. }
    pose proof (gloop_fm _ _ (free_ids recs) (free_ids (fm 0 recs)) recs g0
                  (fun H => False_ind _ (H eq_refl)) (Nat.le_0_l 1) R1 R2) as E.
    cbn [g_nm g0] in E.
    destruct (gloop tab (1 + count_ter recs) (free_ids recs) g0 recs),
      (gloop tab (1 + count_ter (fm 0 recs)) (free_ids (fm 0 recs)) g0 (fm 0 recs));
      simpl in E; try discriminate; [injection E as E; rewrite E|]; reflexivity.
  Qed.

  Theorem later_models_ignored lines :
    guard_models fok lines = true ->
    ingest fok tab false lines = ingest fok tab false (first_model false lines).
  Proof.
    unfold guard_models. intros H. apply andb_true_iff in H as [Hg Hin].
    destruct (read_guarded lines Hg) as [e Er].
    assert (Hg' : forallb (g_line fok) (first_model false lines) = true).
    { eapply forallb_sub; [|exact Hg]. intros x. apply first_model_sub. }
    destruct (read_guarded _ Hg') as [e' Er'].
    unfold ingest. rewrite Er, Er'.
    rewrite <- (fm_first_model lines 0 false) by auto.
    rewrite (group_first_model _ Hin). reflexivity.
  Qed.

  (* ---- drop-water ------------------------------------------------------------------------------------- *)

  Lemma drop_water_app l1 l2 : drop_water (l1 ++ l2) = drop_water l1 ++ drop_water l2.
  Proof. unfold drop_water. apply filter_app. Qed.

  Lemma in_atoms_of a l : In (RAtom a) l -> In a (atoms_of l).
  Proof.
    induction l as [|x l IH]; [intros []|]. intros [H|H].
    - subst x. left; reflexivity.
    - destruct x; simpl; [right|idtac|idtac|idtac]; apply IH; exact H.
  Qed.

  Lemma drop_water_lines lines :
    forallb (g_line fok) lines = true ->
    drop_water (flat_map (line_recs fok) lines) =
    flat_map (line_recs fok) (filter (fun l => negb (is_water_line l)) lines).
  Proof.
    induction lines as [|l r IH]; intros Hg; [reflexivity|].
    simpl in Hg. apply andb_true_iff in Hg as [Hl Hr]. cbn [flat_map] in *.
    rewrite drop_water_app, (IH Hr). cbn [filter].
    destruct (is_coord l) eqn:Ec.
    - destruct (coord_line l Hl Ec) as [a [E [[_ [_ [Rn _]]] Tl]]].
      destruct (mem_str (strip (slice 17 20 l)) water_names) eqn:Ew.
      + assert (Wl : is_water_line l = true) by (unfold is_water_line; rewrite Ec, Ew; reflexivity).
        rewrite Wl. cbn [negb]. rewrite E. unfold drop_water at 1.
        cbn [filter dropped_by_drop_water]. unfold tok0_ok in Tl. rewrite Tl, Rn, Ew. reflexivity.
      + assert (Wl : is_water_line l = false) by (unfold is_water_line; rewrite Ec, Ew; reflexivity).
        rewrite Wl. cbn [negb flat_map]. rewrite E. unfold drop_water at 1.
        cbn [filter dropped_by_drop_water]. rewrite Rn, Ew, andb_false_r. reflexivity.
    - assert (Wl : is_water_line l = false) by (unfold is_water_line; rewrite Ec; reflexivity).
      rewrite Wl. cbn [negb flat_map]. f_equal.
      pose proof (noncoord_line l Hl Ec) as Hn. unfold drop_water.
      clear - Hn. induction (line_recs fok l) as [|x xs IHx]; [reflexivity|].
      destruct x; simpl in *; try discriminate; f_equal; apply IHx; exact Hn.
  Qed.

  Theorem drop_water_is_deletion lines :
    forallb (g_line fok) lines = true ->
    ingest fok tab true lines =
    ingest fok tab false (filter (fun l => negb (is_water_line l)) lines).
  Proof.
    intros Hg.
    destruct (read_guarded lines Hg) as [e Er].
    assert (Hg' : forallb (g_line fok) (filter (fun l => negb (is_water_line l)) lines) = true).
    { eapply forallb_sub; [|exact Hg]. intros x Hx. apply filter_In in Hx. tauto. }
    destruct (read_guarded _ Hg') as [e' Er'].
    unfold ingest. rewrite Er, Er'. rewrite (drop_water_lines lines Hg). reflexivity.
  Qed.

End Ingest.
