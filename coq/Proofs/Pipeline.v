(* Proofs/Pipeline.v - lemmas about Model/Pipeline.v (C09 and C12). *)
From Coq Require Import String List Bool Arith Lia.
From PV Require Import Model.Pipeline.
Import ListNotations.
Local Open Scope string_scope.

(* ------------------------------------------------------------------ *)
(* membership helpers                                                  *)

Lemma mem_In x l : mem x l = true <-> In x l.
Proof.
  unfold mem. rewrite existsb_exists. split.
  - intros [y [Hy He]]. apply String.eqb_eq in He. subst. exact Hy.
  - intros H. exists x. split; [exact H | apply String.eqb_refl].
Qed.

Lemma disjoint_spec a b x : disjoint a b = true -> mem x a = true -> mem x b = false.
Proof.
  unfold disjoint. rewrite forallb_forall. intros H Hx.
  apply mem_In in Hx. specialize (H x Hx). now apply negb_true_iff in H.
Qed.

(* ------------------------------------------------------------------ *)
(* C09: non-interference of the output-affecting options               *)

Section NonInterference.
  Variable value state M P : Type.
  Variable model : state -> M.
  Variable phys : M -> P.
  Variable F : list opt.

  Notation stage := (stage value state).
  Notation ok := (stage_ok model phys).

  Definition final_store (sts : list stage) (o : store value) : store value :=
    fold_left (fun o st => upd st o) sts o.

  Lemma agree_reads reads (o1 o2 : store value) :
    disjoint reads F = true -> agree_outside F o1 o2 -> agree_on reads o1 o2.
  Proof.
    intros Hd Ha x Hx. apply Ha. eapply disjoint_spec; eauto.
  Qed.

  Lemma upd_preserves_agree (st : stage) o1 o2 :
    ok st -> c09_stage_ok F (desc st) = true ->
    agree_outside F o1 o2 -> agree_outside F (upd st o1) (upd st o2).
  Proof.
    intros Hok Hc Ha x Hx.
    unfold c09_stage_ok in Hc. apply andb_true_iff in Hc. destruct Hc as [_ Hw].
    destruct (mem x (map fst (sd_writes (desc st)))) eqn:Hm.
    - apply mem_In in Hm. apply in_map_iff in Hm. destruct Hm as [w [Hfx Hin]].
      rewrite forallb_forall in Hw. specialize (Hw w Hin).
      subst x. cbn beta in Hw. unfold opt in *. rewrite Hx in Hw. cbn [orb] in Hw.
      apply (ok_deps Hok o1 o2 w Hin).
      intros y Hy. apply Ha. eapply disjoint_spec; eauto.
    - rewrite (ok_frame Hok o1 x Hm), (ok_frame Hok o2 x Hm). now apply Ha.
  Qed.

  Lemma exec_store (sts : list stage) : forall (o : store value) s o' t,
    exec sts o s = Some (o', t) -> o' = final_store sts o.
  Proof.
    induction sts as [|st r IH]; intros o s o' t H; cbn in *.
    - now inversion H.
    - destruct (run st o s) as [s'|]; [|discriminate]. eauto.
  Qed.

  Lemma exec_compute_store (sts : list stage) : forall (o : store value) s o' t,
    exec_compute sts o s = Some (o', t) -> o' = final_store sts o.
  Proof.
    induction sts as [|st r IH]; intros o s o' t H; cbn in *.
    - now inversion H.
    - destruct (kind_eqb (sd_kind (desc st)) Compute).
      + destruct (run st o s) as [s'|]; [|discriminate]. eauto.
      + eauto.
  Qed.

  Lemma stores_agree (sts : list stage) : forall (o1 o2 : store value),
    Forall ok sts -> forallb (c09_stage_ok F) (map desc sts) = true ->
    agree_outside F o1 o2 -> agree_outside F (final_store sts o1) (final_store sts o2).
  Proof.
    induction sts as [|st r IH]; intros o1 o2 Hok Hc Ha; cbn in *; [exact Ha|].
    inversion Hok; subst. apply andb_true_iff in Hc. destruct Hc as [Hc1 Hc2].
    apply IH; auto. now apply upd_preserves_agree.
  Qed.

  Definition noncompute (sts : list stage) : bool :=
    forallb (fun e => negb (kind_eqb (sd_kind e) Compute)) (map desc sts).

  Lemma kind_eqb_eq a b : kind_eqb a b = true <-> a = b.
  Proof. destruct a, b; cbn; split; intros H; try reflexivity; try discriminate. Qed.

  (* stages that are not Compute keep coordinates, charges, radii, order *)
  Lemma noncompute_phys (sts : list stage) : forall (o : store value) s o' t,
    Forall ok sts -> noncompute sts = true ->
    exec sts o s = Some (o', t) -> phys (model t) = phys (model s).
  Proof.
    induction sts as [|st r IH]; intros o s o' t Hok Hn H; cbn in *.
    - now inversion H.
    - inversion Hok as [|? ? Hst Hr]; subst.
      unfold noncompute in Hn. cbn in Hn. apply andb_true_iff in Hn. destruct Hn as [Hk Hn].
      destruct (run st o s) as [s'|] eqn:Hrun; [|discriminate].
      rewrite (IH _ _ _ _ Hr Hn H).
      apply negb_true_iff in Hk.
      destruct (sd_kind (desc st)) eqn:K; cbn in Hk; try discriminate.
      + eapply ok_rename; eauto.
      + f_equal. eapply (ok_other Hst); eauto; rewrite K; discriminate.
      + f_equal. eapply (ok_other Hst); eauto; rewrite K; discriminate.
      + f_equal. eapply (ok_other Hst); eauto; rewrite K; discriminate.
      + f_equal. eapply (ok_other Hst); eauto; rewrite K; discriminate.
  Qed.

  Lemma noncompute_exec_compute (sts : list stage) : forall (o : store value) s,
    noncompute sts = true -> exec_compute sts o s = Some (final_store sts o, s).
  Proof.
    induction sts as [|st r IH]; intros o s Hn; cbn in *; [reflexivity|].
    unfold noncompute in Hn. cbn in Hn. apply andb_true_iff in Hn. destruct Hn as [Hk Hn].
    apply negb_true_iff in Hk. rewrite Hk. now apply IH.
  Qed.

  (* two complete runs under option sets that agree outside F, from states with
     the same M part, end with the same coordinates / charges / radii / order *)
  Lemma exec_noninterference (sts : list stage) : forall (o1 o2 : store value) s1 s2 r1 r2,
    Forall ok sts -> c09_obligation F (map desc sts) = true ->
    agree_outside F o1 o2 -> model s1 = model s2 ->
    exec sts o1 s1 = Some r1 -> exec sts o2 s2 = Some r2 ->
    phys (model (snd r1)) = phys (model (snd r2)).
  Proof.
    induction sts as [|st r IH]; intros o1 o2 s1 s2 r1 r2 Hok Hob Ha Hm H1 H2.
    - cbn in *. inversion H1; inversion H2; subst. cbn. now rewrite Hm.
    - inversion Hok as [|? ? Hst Hr]; subst.
      unfold c09_obligation in Hob. cbn [map forallb] in Hob.
      apply andb_true_iff in Hob. destruct Hob as [Hall Hord].
      apply andb_true_iff in Hall. destruct Hall as [Hc Hall].
      cbn [exec] in H1, H2.
      destruct (run st o1 s1) as [s1'|] eqn:R1; [|discriminate].
      destruct (run st o2 s2) as [s2'|] eqn:R2; [|discriminate].
      assert (Hup : agree_outside F (upd st o1) (upd st o2)) by now apply upd_preserves_agree.
      destruct (sd_kind (desc st)) eqn:K.
      1: { (* Compute *)
        assert (Hs : same_model model (run st o1 s1) (run st o2 s2)).
        { apply (ok_compute Hst K); auto.
          unfold c09_stage_ok in Hc. rewrite K in Hc. apply andb_true_iff in Hc.
          apply agree_reads; tauto. }
        rewrite R1, R2 in Hs. cbn in Hs.
        eapply IH; eauto. unfold c09_obligation. rewrite Hall. cbn [andb].
        cbn [no_compute_after_rename map] in Hord. now rewrite K in Hord. }
      1: { (* Rename: everything after it is not Compute *)
        cbn [no_compute_after_rename map] in Hord. rewrite K in Hord.
        destruct r1 as [o1' t1], r2 as [o2' t2]. cbn [snd].
        rewrite (noncompute_phys r _ _ _ _ Hr Hord H1), (noncompute_phys r _ _ _ _ Hr Hord H2).
        rewrite (ok_rename Hst K _ _ _ R1), (ok_rename Hst K _ _ _ R2). now rewrite Hm. }
      all: assert (E1 : model s1' = model s1) by (eapply (ok_other Hst); eauto; rewrite K; discriminate);
        assert (E2 : model s2' = model s2) by (eapply (ok_other Hst); eauto; rewrite K; discriminate);
        apply (IH (upd st o1) (upd st o2) s1' s2' r1 r2 Hr); auto;
        [ unfold c09_obligation; rewrite Hall; cbn [andb];
          cbn [no_compute_after_rename map] in Hord; now rewrite K in Hord
        | congruence ].
  Qed.

  (* failure-sensitive version on the compute stages alone: both runs fail, or
     both succeed with the same M part and option stores agreeing outside F *)
  Definition same_result (a b : option (store value * state)) : Prop :=
    match a, b with
    | Some (o1, s), Some (o2, t) => model s = model t /\ agree_outside F o1 o2
    | None, None => True
    | _, _ => False
    end.

  Lemma compute_noninterference (sts : list stage) : forall (o1 o2 : store value) s1 s2,
    Forall ok sts -> forallb (c09_stage_ok F) (map desc sts) = true ->
    agree_outside F o1 o2 -> model s1 = model s2 ->
    same_result (exec_compute sts o1 s1) (exec_compute sts o2 s2).
  Proof.
    induction sts as [|st r IH]; intros o1 o2 s1 s2 Hok Hall Ha Hm.
    - cbn. auto.
    - inversion Hok as [|? ? Hst Hr]; subst. cbn [map forallb] in Hall.
      apply andb_true_iff in Hall. destruct Hall as [Hc Hall].
      assert (Hup : agree_outside F (upd st o1) (upd st o2)) by now apply upd_preserves_agree.
      cbn [exec_compute].
      destruct (kind_eqb (sd_kind (desc st)) Compute) eqn:K.
      + apply kind_eqb_eq in K.
        assert (Hs : same_model model (run st o1 s1) (run st o2 s2)).
        { apply (ok_compute Hst K); auto.
          unfold c09_stage_ok in Hc. rewrite K in Hc. apply andb_true_iff in Hc.
          apply agree_reads; tauto. }
        destruct (run st o1 s1) as [s1'|], (run st o2 s2) as [s2'|]; cbn in Hs; try contradiction.
        * apply IH; auto.
        * exact I.
      + apply IH; auto.
  Qed.

  (* a complete run and the compute-only run agree on coordinates etc. *)
  Lemma exec_vs_compute (sts : list stage) : forall (o : store value) s s' o' t,
    Forall ok sts -> no_compute_after_rename (map desc sts) = true ->
    model s = model s' -> exec sts o s = Some (o', t) ->
    exists t', exec_compute sts o s' = Some (o', t') /\ phys (model t') = phys (model t).
  Proof.
    induction sts as [|st r IH]; intros o s s' o' t Hok Hord Hm H.
    - cbn in *. inversion H; subst. exists s'. now rewrite Hm.
    - inversion Hok as [|? ? Hst Hr]; subst. cbn [exec] in H.
      destruct (run st o s) as [s1|] eqn:R; [|discriminate].
      cbn [no_compute_after_rename map] in Hord. cbn [exec_compute].
      destruct (sd_kind (desc st)) eqn:K; cbn [kind_eqb].
      1: { assert (Hs : same_model model (run st o s) (run st o s')).
        { apply (ok_compute Hst K); auto. intros x _. reflexivity. }
        rewrite R in Hs. destruct (run st o s') as [s1'|]; cbn in Hs; [|contradiction].
        eapply IH; eauto. }
      1: { pose proof (exec_store _ _ _ _ _ H) as Ho. subst o'.
        rewrite (noncompute_exec_compute r _ _ Hord). eexists. split; [reflexivity|].
        rewrite (noncompute_phys r _ _ _ _ Hr Hord H).
        rewrite (ok_rename Hst K _ _ _ R). now rewrite Hm. }
      all: assert (E : model s1 = model s) by (eapply (ok_other Hst); eauto; rewrite K; discriminate);
        apply (IH (upd st o) s1 s' o' t Hr); auto; congruence.
  Qed.

  (* the property-level statement *)
  Theorem format_noninterference (sts : list stage) :
    Forall ok sts -> c09_obligation F (map desc sts) = true ->
    forall (o1 o2 : store value) (s : state), agree_outside F o1 o2 ->
      same_result (exec_compute sts o1 s) (exec_compute sts o2 s)
      /\ (forall r1 r2, exec sts o1 s = Some r1 -> exec sts o2 s = Some r2 ->
            phys (model (snd r1)) = phys (model (snd r2))
            /\ agree_outside F (fst r1) (fst r2))
      /\ (forall r, exec sts o1 s = Some r ->
            exists t', exec_compute sts o1 s = Some (fst r, t')
                       /\ phys (model t') = phys (model (snd r))).
  Proof.
    intros Hok Hob o1 o2 s Ha.
    pose proof Hob as Hob'. unfold c09_obligation in Hob'.
    apply andb_true_iff in Hob'. destruct Hob' as [Hall Hord].
    split; [|split].
    - apply compute_noninterference; auto.
    - intros r1 r2 H1 H2. split.
      + eapply exec_noninterference; eauto.
      + destruct r1 as [o1' t1], r2 as [o2' t2]. cbn [fst].
        rewrite (exec_store _ _ _ _ _ H1), (exec_store _ _ _ _ _ H2).
        apply stores_agree; auto.
    - intros [o' t] H. cbn [fst snd]. eapply exec_vs_compute; eauto.
  Qed.
End NonInterference.

(* the obligation reacts to the edits it is meant to catch *)
Example c09_obligation_detects_read :
  c09_obligation format_opts
    [mk_sdesc "set_termini" "main_driver" Compute ["neutraln"; "keep_chain"] [] [] false false] = false.
Proof. reflexivity. Qed.

Example c09_obligation_detects_order :
  c09_obligation format_opts
    [mk_sdesc "apply_name_scheme" "non_trivial" Rename ["ffout"] [] [] false false;
     mk_sdesc "apply_force_field" "non_trivial" Compute [] [] [] false false] = false.
Proof. reflexivity. Qed.

Example c09_obligation_detects_write :
  c09_obligation format_opts
    [mk_sdesc "transform_arguments" "main_driver" Compute [] [("debump", ["whitespace"])] [] false false] = false.
Proof. reflexivity. Qed.

(* A concrete, non-trivial instance of the hypotheses of format_noninterference:
   options are booleans, the state is (model, rendered text, file), a Compute
   stage adds 1 when "neutraln" is set and fails when "fail" is set, a Rename
   stage changes the model but not its projection, a Render stage reads
   "keep_chain", an Output stage fails when "pdb_output" is set. *)
Module Demo.
  Definition st := (nat * bool * nat * nat)%type.   (* (phys part, name flag, rendered, file) *)
  Definition dmodel (s : st) : nat * bool := (fst (fst (fst s)), snd (fst (fst s))).
  Definition dphys (m : nat * bool) : nat := fst m.

  Definition compute_stage : stage bool st :=
    mk_stage (mk_sdesc "set_termini" "main_driver" Compute ["neutraln"; "fail"] [] [] false false)
      (fun (o : store bool) (s : st) => let '(p, n, r, f) := s in
                  if o "fail" then None else Some (if o "neutraln" then S p else p, n, r, f))
      (fun o : store bool => o).
  Definition normalise_stage : stage bool st :=
    mk_stage (mk_sdesc "transform_arguments" "main_driver" Compute []
                [("ffout", ["ffout"]); ("debump", ["clean"])] [] false false)
      (fun (o : store bool) (s : st) => Some s)
      (fun (o : store bool) x => if String.eqb x "ffout" then negb (o "ffout")
                  else if String.eqb x "debump" then negb (o "clean") else o x).
  Definition rename_stage : stage bool st :=
    mk_stage (mk_sdesc "apply_name_scheme" "non_trivial" Rename ["ffout"] [] [] false false)
      (fun (o : store bool) (s : st) => let '(p, n, r, f) := s in Some (p, o "ffout", r, f))
      (fun o : store bool => o).
  Definition render_stage : stage bool st :=
    mk_stage (mk_sdesc "print_biomolecule_atoms" "non_trivial" Render ["keep_chain"] [] [] false false)
      (fun (o : store bool) (s : st) => let '(p, n, r, f) := s in Some (p, n, if o "keep_chain" then 2 * p + 1 else 2 * p, f))
      (fun o : store bool => o).
  Definition output_stage : stage bool st :=
    mk_stage (mk_sdesc "print_pdb" "main_driver" Output ["pdb_output"] [] [] false false)
      (fun (o : store bool) (s : st) => let '(p, n, r, f) := s in if o "pdb_output" then None else Some (p, n, r, r))
      (fun o : store bool => o).

  Definition sts := [normalise_stage; compute_stage; rename_stage; render_stage; output_stage].

  Lemma agree_get (l : list opt) (o1 o2 : store bool) x :
    agree_on l o1 o2 -> mem x l = true -> o1 x = o2 x.
  Proof. intros H Hx. now apply H. Qed.

  Lemma ok_normalise : stage_ok dmodel dphys normalise_stage.
  Proof.
    constructor; cbn.
    - intros _ o1 o2 s1 s2 _ H. exact H.
    - discriminate.
    - congruence.
    - intros o x H. destruct (String.eqb x "ffout") eqn:E1.
      + apply String.eqb_eq in E1. subst. discriminate.
      + destruct (String.eqb x "debump") eqn:E2; [|reflexivity].
        apply String.eqb_eq in E2. subst. discriminate.
    - intros o1 o2 w [Hw|[Hw|[]]] Ha; subst w; cbn in *.
      + f_equal. apply Ha. reflexivity.
      + f_equal. apply Ha. reflexivity.
  Qed.

  Lemma ok_compute_stage : stage_ok dmodel dphys compute_stage.
  Proof.
    constructor; cbn; try discriminate; try congruence; try contradiction.
    intros _ o1 o2 [[[p1 n1] r1] f1] [[[p2 n2] r2] f2] Ha Hm.
    unfold dmodel in Hm. cbn in Hm. inversion Hm; subst.
    rewrite (agree_get _ _ _ "fail" Ha eq_refl), (agree_get _ _ _ "neutraln" Ha eq_refl).
    destruct (o2 "fail"); cbn; auto.
  Qed.

  Lemma ok_rename_stage : stage_ok dmodel dphys rename_stage.
  Proof.
    constructor; cbn; try discriminate; try congruence; try contradiction.
    intros _ o [[[p n] r] f] t H. inversion H; subst. reflexivity.
  Qed.

  Lemma ok_render_stage : stage_ok dmodel dphys render_stage.
  Proof.
    constructor; cbn; try discriminate; try congruence; try contradiction.
    intros _ _ o [[[p n] r] f] t H. inversion H; subst. reflexivity.
  Qed.

  Lemma ok_output_stage : stage_ok dmodel dphys output_stage.
  Proof.
    constructor; cbn; try discriminate; try congruence; try contradiction.
    intros _ _ o [[[p n] r] f] t H. destruct (o "pdb_output"); inversion H; subst. reflexivity.
  Qed.

  Lemma sts_ok : Forall (stage_ok dmodel dphys) sts.
  Proof.
    unfold sts.
    apply Forall_cons; [apply ok_normalise|].
    apply Forall_cons; [apply ok_compute_stage|].
    apply Forall_cons; [apply ok_rename_stage|].
    apply Forall_cons; [apply ok_render_stage|].
    apply Forall_cons; [apply ok_output_stage|].
    apply Forall_nil.
  Qed.

  Lemma sts_obligation : c09_obligation format_opts (map desc sts) = true.
  Proof. reflexivity. Qed.

  Definition o1 : store bool := fun x => String.eqb x "neutraln".
  Definition o2 : store bool := fun x => String.eqb x "neutraln" || String.eqb x "keep_chain" || String.eqb x "ffout".

  Lemma o12 : agree_outside format_opts o1 o2.
  Proof.
    intros x Hx. unfold o1, o2. cbn in Hx.
    apply orb_false_iff in Hx. destruct Hx as [_ Hx].
    apply orb_false_iff in Hx. destruct Hx as [Hk Hx].
    apply orb_false_iff in Hx. destruct Hx as [_ Hx].
    apply orb_false_iff in Hx. destruct Hx as [_ Hx].
    apply orb_false_iff in Hx. destruct Hx as [_ Hx].
    apply orb_false_iff in Hx. destruct Hx as [Hf _].
    rewrite Hk, Hf. now rewrite !orb_false_r.
  Qed.

  Lemma demo_nonvacuous :
    Forall (stage_ok dmodel dphys) sts
    /\ c09_obligation format_opts (map desc sts) = true
    /\ agree_outside format_opts o1 o2
    /\ o1 "keep_chain" <> o2 "keep_chain" /\ o1 "ffout" <> o2 "ffout"
    /\ exists r1 r2,
         exec sts o1 (0, false, 0, 0) = Some r1 /\ exec sts o2 (0, false, 0, 0) = Some r2
         /\ snd r1 <> snd r2
         /\ dphys (dmodel (snd r1)) = 1 /\ dphys (dmodel (snd r2)) = 1.
  Proof.
    split; [exact sts_ok|]. split; [exact sts_obligation|]. split; [exact o12|].
    split; [cbn; discriminate|]. split; [cbn; discriminate|].
    eexists. eexists. split; [vm_compute; reflexivity|]. split; [vm_compute; reflexivity|].
    cbn. split; [discriminate|]. split; reflexivity.
  Qed.
End Demo.

(* ------------------------------------------------------------------ *)
(* C12: the output file                                                *)

Section File.
  Variable C : Type.

  Definition clean_seg (seg : list sdesc) : bool :=
    forallb (fun d => negb (sd_writes_output d) && negb (sd_swallow d)) seg.

  Lemma split_writer_spec ds pre w post :
    split_writer ds = Some (pre, w, post) ->
    ds = (pre ++ w :: post)%list /\ sd_writes_output w = true
    /\ forallb (fun d => negb (sd_writes_output d)) pre = true.
  Proof.
    revert pre w post. induction ds as [|d r IH]; intros pre w post H; cbn in H; [discriminate|].
    destruct (sd_writes_output d) eqn:E.
    - inversion H; subst. cbn. auto.
    - destruct (split_writer r) as [[[p w'] q]|] eqn:S; [|discriminate].
      inversion H; subst. destruct (IH _ _ _ eq_refl) as [H1 [H2 H3]].
      subst r. cbn. rewrite E. auto.
  Qed.

  (* a segment of stages that neither write the output path nor swallow *)
  Lemma seg_nofault seg : forall rest i flt (c : C) f,
    clean_seg seg = true ->
    (forall j, j < length seg -> faulty (flt (i + j)) = false) ->
    frun (seg ++ rest)%list i flt c f = frun rest (i + length seg) flt c f.
  Proof.
    induction seg as [|d r IH]; intros rest i flt c f Hc Hn; cbn [app length].
    - now rewrite Nat.add_0_r.
    - cbn [clean_seg forallb] in Hc. apply andb_true_iff in Hc. destruct Hc as [Hd Hc].
      apply andb_true_iff in Hd. destruct Hd as [Hw Hs]. apply negb_true_iff in Hw.
      cbn [frun]. unfold step_file. rewrite Hw.
      pose proof (Hn 0 ltac:(cbn; lia)) as H0. rewrite Nat.add_0_r in H0. rewrite H0.
      rewrite IH; auto.
      + f_equal. cbn [length]. lia.
      + intros j Hj. replace (S i + j) with (i + S j) by lia. apply Hn. cbn [length]. lia.
  Qed.

  Lemma seg_fault seg : forall rest i flt (c : C) f,
    clean_seg seg = true ->
    (exists j, j < length seg /\ faulty (flt (i + j)) = true) ->
    exists j0, j0 < length seg /\ frun (seg ++ rest)%list i flt c f = (Raised (i + j0), f)
               /\ faulty (flt (i + j0)) = true
               /\ (forall k, k < j0 -> faulty (flt (i + k)) = false).
  Proof.
    induction seg as [|d r IH]; intros rest i flt c f Hc [j [Hj Hf]]; cbn [length] in Hj; [lia|].
    cbn [clean_seg forallb] in Hc. apply andb_true_iff in Hc. destruct Hc as [Hd Hc].
    apply andb_true_iff in Hd. destruct Hd as [Hw Hs].
    apply negb_true_iff in Hw. apply negb_true_iff in Hs.
    cbn [app frun]. unfold step_file. rewrite Hw.
    destruct (faulty (flt i)) eqn:E.
    - rewrite Hs. exists 0. rewrite Nat.add_0_r. repeat split; auto; cbn [length]; lia.
    - destruct j as [|j]; [rewrite Nat.add_0_r in Hf; congruence|].
      destruct (IH rest (S i) flt c f Hc) as [j0 [Hj0 [Hrun [Hfj Hmin]]]].
      { exists j. split; [lia|]. now replace (S i + j) with (i + S j) by lia. }
      exists (S j0). replace (i + S j0) with (S i + j0) by lia. repeat split; auto.
      + cbn [length]. lia.
      + intros k Hk. destruct k as [|k]; [now rewrite Nat.add_0_r|].
        replace (i + S k) with (S i + k) by lia. apply Hmin. lia.
  Qed.

  Lemma seg_nofault_nil seg i flt (c : C) f :
    clean_seg seg = true ->
    (forall j, j < length seg -> faulty (flt (i + j)) = false) ->
    frun seg i flt c f = (Finished, f).
  Proof.
    intros Hc Hn. pose proof (seg_nofault seg [] i flt c f Hc Hn) as H.
    rewrite app_nil_r in H. rewrite H. reflexivity.
  Qed.

  Lemma seg_fault_nil seg i flt (c : C) f :
    clean_seg seg = true ->
    (exists j, j < length seg /\ faulty (flt (i + j)) = true) ->
    exists j0, j0 < length seg /\ frun seg i flt c f = (Raised (i + j0), f).
  Proof.
    intros Hc Hn. destruct (seg_fault seg [] i flt c f Hc Hn) as [j0 [Hj0 [H _]]].
    rewrite app_nil_r in H. eauto.
  Qed.

  Lemma obligation_parts ds :
    c12_obligation ds = true ->
    exists pre w post, ds = (pre ++ w :: post)%list /\ sd_name w = "print_pqr"
      /\ sd_writes_output w = true /\ sd_swallow w = false
      /\ clean_seg pre = true /\ clean_seg post = true
      /\ forallb (fun d => is_nil (sd_file_writes d)) pre = true
      /\ forallb (fun d => negb (computing (sd_kind d))) post = true.
  Proof.
    unfold c12_obligation. intros H.
    destruct (split_writer ds) as [[[pre w] post]|] eqn:S; [|discriminate].
    destruct (split_writer_spec _ _ _ _ S) as [Hds [Hw Hpre]].
    apply andb_true_iff in H. destruct H as [H Hpost].
    apply andb_true_iff in H. destruct H as [H Hpre2].
    apply andb_true_iff in H. destruct H as [Hname Hsw].
    exists pre, w, post.
    split; [exact Hds|]. split; [now apply String.eqb_eq|]. split; [exact Hw|].
    split; [now apply negb_true_iff|].
    split; [|split; [|split]].
    - unfold clean_seg. rewrite forallb_forall in *. intros d Hd.
      specialize (Hpre d Hd). specialize (Hpre2 d Hd).
      apply andb_true_iff in Hpre2. destruct Hpre2 as [H1 _]. now rewrite Hpre, H1.
    - unfold clean_seg. rewrite forallb_forall in *. intros d Hd.
      specialize (Hpost d Hd). apply andb_true_iff in Hpost. destruct Hpost as [H0 _].
      exact H0.
    - rewrite forallb_forall in *. intros d Hd. specialize (Hpre2 d Hd).
      apply andb_true_iff in Hpre2. tauto.
    - rewrite forallb_forall in *. intros d Hd. specialize (Hpost d Hd).
      apply andb_true_iff in Hpost. tauto.
  Qed.

  (* position of the writer *)
  Definition writer_index (ds : list sdesc) : nat :=
    match split_writer ds with Some (pre, _, _) => length pre | None => length ds end.

  Lemma writer_index_pre pre w post :
    clean_seg pre = true -> sd_writes_output w = true ->
    writer_index (pre ++ w :: post)%list = length pre.
  Proof.
    unfold writer_index. intros Hc Hw.
    assert (S : split_writer (pre ++ w :: post)%list = Some (pre, w, post)).
    { induction pre as [|d r IH]; cbn.
      - now rewrite Hw.
      - cbn [clean_seg forallb] in Hc. apply andb_true_iff in Hc. destruct Hc as [Hd Hc].
        apply andb_true_iff in Hd. destruct Hd as [Hd _]. apply negb_true_iff in Hd.
        rewrite Hd, (IH Hc). reflexivity. }
    now rewrite S.
  Qed.

  (* 1. a failure before print_pqr: the exception propagates, the file is untouched *)
  Theorem fault_before_writer ds :
    c12_obligation ds = true ->
    forall flt (c : C) f,
      (exists j, j < writer_index ds /\ faulty (flt j) = true) ->
      exists i, i < writer_index ds /\ frun ds 0 flt c f = (Raised i, f)
                /\ faulty (flt i) = true /\ (forall k, k < i -> faulty (flt k) = false).
  Proof.
    intros Hob flt c f [j [Hj Hf]].
    destruct (obligation_parts _ Hob) as [pre [w [post [Hds [_ [Hw [_ [Hpre _]]]]]]]].
    subst ds. rewrite (writer_index_pre _ _ _ Hpre Hw) in *.
    destruct (seg_fault pre (w :: post) 0 flt c f Hpre) as [j0 [Hj0 [Hrun [Hfj Hmin]]]].
    { exists j. auto. }
    exists j0. cbn in *. auto.
  Qed.

  (* 2. no failure at all: the run finishes and the file is complete *)
  Theorem no_fault_complete ds :
    c12_obligation ds = true ->
    forall flt (c : C) f,
      (forall k, k < length ds -> faulty (flt k) = false) ->
      frun ds 0 flt c f = (Finished, Complete c).
  Proof.
    intros Hob flt c f Hn.
    destruct (obligation_parts _ Hob) as [pre [w [post [Hds [_ [Hw [_ [Hpre [Hpost _]]]]]]]]].
    subst ds. rewrite app_length in Hn. cbn [length] in Hn.
    rewrite seg_nofault; auto; [|intros j Hj; apply Hn; lia].
    cbn [frun]. unfold step_file. rewrite Hw.
    pose proof (Hn (length pre) ltac:(lia)) as Hk. cbn [Nat.add]. rewrite Hk.
    destruct (flt (length pre)); try discriminate.
    apply seg_nofault_nil; auto.
    intros j Hj. apply Hn. lia.
  Qed.

  (* 3. a failure inside print_pqr leaves a partial file; at its entry, nothing *)
  Theorem fault_in_writer ds :
    c12_obligation ds = true ->
    forall flt (c : C) f,
      (forall k, k < writer_index ds -> faulty (flt k) = false) ->
      (flt (writer_index ds) = Inside -> frun ds 0 flt c f = (Raised (writer_index ds), Partial))
      /\ (flt (writer_index ds) = AtEntry -> frun ds 0 flt c f = (Raised (writer_index ds), f)).
  Proof.
    intros Hob flt c f Hn.
    destruct (obligation_parts _ Hob) as [pre [w [post [Hds [_ [Hw [Hs [Hpre _]]]]]]]].
    subst ds. rewrite (writer_index_pre _ _ _ Hpre Hw) in *.
    rewrite seg_nofault; auto. cbn [Nat.add frun]. unfold step_file. rewrite Hw, Hs.
    split; intros E; rewrite E; reflexivity.
  Qed.

  (* 4. a failure after print_pqr (print_pdb, dump_apbs): the exception
     propagates and the complete PQR stays *)
  Theorem fault_after_writer ds :
    c12_obligation ds = true ->
    forall flt (c : C) f,
      (forall k, k <= writer_index ds -> faulty (flt k) = false) ->
      (exists j, writer_index ds < j < length ds /\ faulty (flt j) = true) ->
      exists i, writer_index ds < i < length ds /\ frun ds 0 flt c f = (Raised i, Complete c).
  Proof.
    intros Hob flt c f Hn [j [Hj Hf]].
    destruct (obligation_parts _ Hob) as [pre [w [post [Hds [_ [Hw [Hs [Hpre [Hpost _]]]]]]]]].
    subst ds. rewrite (writer_index_pre _ _ _ Hpre Hw) in *.
    rewrite app_length in *. cbn [length] in *.
    rewrite seg_nofault; auto; [|intros k Hk; apply Hn; lia].
    cbn [Nat.add frun]. unfold step_file. rewrite Hw.
    pose proof (Hn (length pre) (le_n _)) as Hk. rewrite Hk.
    destruct (flt (length pre)); try discriminate.
    destruct (seg_fault_nil post (S (length pre)) flt c (Complete c) Hpost) as [j0 [Hj0 Hrun]].
    { exists (j - S (length pre)). split; [lia|]. now replace (S (length pre) + (j - S (length pre))) with j by lia. }
    exists (S (length pre) + j0). split; [lia|]. exact Hrun.
  Qed.

  (* summary in the wording of the property *)
  Theorem no_partial_output ds :
    c12_obligation ds = true ->
    forall flt (c : C) f,
      ((exists j, j < writer_index ds /\ faulty (flt j) = true) ->
         snd (frun ds 0 flt c f) = f /\ exists i, fst (frun ds 0 flt c f) = Raised i)
      /\ ((forall k, k < length ds -> faulty (flt k) = false) ->
         frun ds 0 flt c f = (Finished, Complete c)).
  Proof.
    intros Hob flt c f. split.
    - intros H. destruct (fault_before_writer ds Hob flt c f H) as [i [_ [Hr _]]].
      rewrite Hr. cbn. eauto.
    - now apply no_fault_complete.
  Qed.
End File.

(* the obligation is needed: a swallowing handler or an early writer lets a
   failed run produce / clobber the output file *)
Example c12_swallow_breaks :
  let ds := [mk_sdesc "apply_force_field" "non_trivial" Compute [] [] [] false true;
             mk_sdesc "print_pqr" "main_driver" Output [] [] [("main.print_pqr", ["output_pqr"])] true false] in
  c12_obligation ds = false
  /\ frun ds 0 (one_fault 0 AtEntry) true (Old false) = (Finished, Complete true).
Proof. split; reflexivity. Qed.

Example c12_early_writer_breaks :
  let ds := [mk_sdesc "print_pqr" "main_driver" Output [] [] [("main.print_pqr", ["output_pqr"])] true false;
             mk_sdesc "raise_if_charge_err" "non_trivial" Compute [] [] [] false false] in
  c12_obligation ds = false
  /\ frun ds 0 (one_fault 1 AtEntry) true (Old false) = (Raised 1, Complete true).
Proof. split; reflexivity. Qed.

Example c12_early_open_breaks :
  let ds := [mk_sdesc "check_files" "main_driver" Compute [] [] [("main.check_files", ["output_pqr"])] true false;
             mk_sdesc "print_pqr" "main_driver" Output [] [] [("main.print_pqr", ["output_pqr"])] true false] in
  c12_obligation ds = false.
Proof. reflexivity. Qed.

(* ------------------------------------------------------------------ *)
(* drop_water                                                          *)

Section DropWaterProofs.
  Variable X : Type.
  Notation prec := (prec X).

  Lemma drop_water_filter (l : list prec) :
    drop_water l = filter (fun r => negb (is_water r)) l.
  Proof. induction l as [|r t IH]; cbn; [reflexivity|]. destruct (is_water r); cbn; now rewrite IH. Qed.

  Lemma drop_water_app (l1 l2 : list prec) :
    drop_water (l1 ++ l2)%list = (drop_water l1 ++ drop_water l2)%list.
  Proof. rewrite !drop_water_filter. apply filter_app. Qed.

  Lemma drop_water_no_water (l : list prec) :
    forallb (fun r => negb (is_water r)) (drop_water l) = true.
  Proof.
    rewrite drop_water_filter, forallb_forall. intros r H. apply filter_In in H. tauto.
  Qed.

  Lemma drop_water_fix (l : list prec) :
    forallb (fun r => negb (is_water r)) l = true -> drop_water l = l.
  Proof.
    induction l as [|r t IH]; cbn; [reflexivity|]. intros H.
    apply andb_true_iff in H. destruct H as [Hr Ht]. apply negb_true_iff in Hr.
    rewrite Hr. now rewrite IH.
  Qed.

  Lemma drop_water_idem (l : list prec) : drop_water (drop_water l) = drop_water l.
  Proof. apply drop_water_fix, drop_water_no_water. Qed.

  Lemma drop_water_all_water (l : list prec) :
    forallb is_water l = true -> drop_water l = [].
  Proof.
    induction l as [|r t IH]; cbn; [reflexivity|]. intros H.
    apply andb_true_iff in H. destruct H as [Hr Ht]. rewrite Hr. auto.
  Qed.

  Lemma drop_water_In (l : list prec) r :
    In r (drop_water l) <-> In r l /\ is_water r = false.
  Proof.
    rewrite drop_water_filter, filter_In. rewrite negb_true_iff. tauto.
  Qed.

  (* --drop-water equals running on the input with its water lines deleted,
     for any per-line record parser that classifies lines consistently *)
  Section Commute.
    Variable line : Type.
    Variable parse_line : line -> list prec.    (* records produced by one input line *)
    Variable water_line : line -> bool.         (* the line is a water coordinate record *)
    Hypothesis water_line_yes : forall l, water_line l = true -> forallb is_water (parse_line l) = true.
    Hypothesis water_line_no : forall l, water_line l = false ->
      forallb (fun r => negb (is_water r)) (parse_line l) = true.

    Lemma drop_water_commutes (ls : list line) :
      drop_water (flat_map parse_line ls)
      = flat_map parse_line (filter (fun l => negb (water_line l)) ls).
    Proof.
      induction ls as [|l t IH]; cbn; [reflexivity|].
      rewrite drop_water_app, IH. destruct (water_line l) eqn:E; cbn.
      - now rewrite (drop_water_all_water _ (water_line_yes _ E)).
      - now rewrite (drop_water_fix _ (water_line_no _ E)).
    Qed.
  End Commute.
End DropWaterProofs.

(* ------------------------------------------------------------------ *)
(* apply_name_scheme                                                   *)

Lemma name_scheme_touches_names_only (Ph : Type) (f : natom Ph -> option (string * string)) (l : list (natom Ph)) :
  map a_phys (apply_name_scheme f l) = map a_phys l
  /\ length (apply_name_scheme f l) = length l.
Proof.
  unfold apply_name_scheme. rewrite map_map, map_length. split; [|reflexivity].
  apply map_ext. intros a. unfold rename_atom. destruct (f a) as [[rn an]|]; reflexivity.
Qed.

(* ------------------------------------------------------------------ *)
(* order facts                                                         *)

Lemma positions_from_spec n ds : forall k i,
  In i (positions_from n ds k)
  <-> exists d, k <= i /\ nth_error ds (i - k) = Some d /\ sd_name d = n.
Proof.
  induction ds as [|d r IH]; intros k i; cbn [positions_from].
  - split; [intros []|]. intros [d [_ [H _]]]. destruct (i - k); discriminate.
  - assert (Hr : In i (positions_from n r (S k)) <->
                 exists d', S k <= i /\ nth_error r (i - S k) = Some d' /\ sd_name d' = n) by apply IH.
    split.
    + intros H.
      assert (Hc : (String.eqb (sd_name d) n = true /\ i = k) \/ In i (positions_from n r (S k))).
      { destruct (String.eqb (sd_name d) n) eqn:E; [|now right].
        destruct H as [H|H]; [left; auto|now right]. }
      destruct Hc as [[E Hi]|Hc].
      * subst i. exists d. rewrite Nat.sub_diag. cbn. apply String.eqb_eq in E. auto.
      * apply Hr in Hc. destruct Hc as [d' [Hle [Hn Hname]]]. exists d'.
        replace (i - k) with (S (i - S k)) by lia. cbn. repeat split; auto; lia.
    + intros [d' [Hle [Hn Hname]]].
      destruct (Nat.eq_dec i k) as [->|Hne].
      * rewrite Nat.sub_diag in Hn. cbn in Hn. inversion Hn; subst d'.
        apply String.eqb_eq in Hname. rewrite Hname. now left.
      * assert (Hin : In i (positions_from n r (S k))).
        { apply Hr. exists d'. replace (i - k) with (S (i - S k)) in Hn by lia. cbn in Hn.
          repeat split; auto; lia. }
        destruct (String.eqb (sd_name d) n); [now right|exact Hin].
Qed.

(* meaning of the boolean order fact *)
Lemma all_before_spec a b ds :
  all_before a b ds = true ->
  (exists i da, nth_error ds i = Some da /\ sd_name da = a)
  /\ (exists j db, nth_error ds j = Some db /\ sd_name db = b)
  /\ forall i j da db, nth_error ds i = Some da -> sd_name da = a ->
                       nth_error ds j = Some db -> sd_name db = b -> i < j.
Proof.
  unfold all_before, positions. intros H.
  apply andb_true_iff in H. destruct H as [H Hlt].
  apply andb_true_iff in H. destruct H as [Ha Hb].
  split; [|split].
  - destruct (positions_from a ds 0) as [|i l] eqn:E; [discriminate|].
    assert (Hi : In i (positions_from a ds 0)) by (rewrite E; now left).
    apply positions_from_spec in Hi. destruct Hi as [d [_ [Hn Hname]]].
    rewrite Nat.sub_0_r in Hn. eauto.
  - destruct (positions_from b ds 0) as [|j l] eqn:E; [discriminate|].
    assert (Hj : In j (positions_from b ds 0)) by (rewrite E; now left).
    apply positions_from_spec in Hj. destruct Hj as [d [_ [Hn Hname]]].
    rewrite Nat.sub_0_r in Hn. eauto.
  - intros i j da db Hi Hna Hj Hnb.
    rewrite forallb_forall in Hlt.
    assert (Pi : In i (positions_from a ds 0)).
    { apply positions_from_spec. exists da. rewrite Nat.sub_0_r. repeat split; auto; lia. }
    assert (Pj : In j (positions_from b ds 0)).
    { apply positions_from_spec. exists db. rewrite Nat.sub_0_r. repeat split; auto; lia. }
    specialize (Hlt i Pi). rewrite forallb_forall in Hlt. specialize (Hlt j Pj).
    now apply Nat.ltb_lt in Hlt.
Qed.
