(* Proofs/NeutralC09.v - the --neutraln / --neutralc part of C09, on top of C02's
   model of set_termini / set_state (Model/States.v, Proofs/States.v) and of the
   generated per-force-field state tables.

   Three layers:
   1. which residues an option can touch: [term_prefix] (C02: the terminus part of
      the ffname as a function of flags, options and descriptor; proved equal to
      what set_state produces by [state_from_flags]) depends on the options only
      for N-/C-flagged residues, never for an N-terminal PRO;
   2. the table fact [neutral_shift_table] (C02, vm_compute on the generated
      tables): a NEUTRAL-N state carries exactly one unit less than the N state
      of the same residue, a NEUTRAL-C state one unit more than the C state;
   3. induction over the residue list: the exact total charge moves by
      -k + m units for k neutralised N-termini and m neutralised C-termini. *)
From Coq Require Import List Bool ZArith Arith Lia.
From PV Require Import Model.ForceField Model.States Proofs.States.
Import ListNotations.

(* ---------------------------------------------------------------------- *)
(* 1. only chain-terminal residues can change their state                  *)

Definition base_opts : opts := mkopts false false.

(* a residue that carries no terminus flag has the same (empty) terminus state
   under every option setting *)
Lemma term_prefix_internal o1 o2 cls r :
  rs_n r = false -> rs_c r = false -> term_prefix o1 cls r = term_prefix o2 cls r.
Proof. intros Hn Hc. unfold term_prefix. now rewrite Hn, Hc. Qed.

(* --neutraln alone never touches a residue without the N flag, --neutralc alone
   never one without the C flag (or with both flags: the N name wins) *)
Lemma term_prefix_neutraln_only o cls r :
  rs_n r = false -> term_prefix (mkopts true (o_neutralc o)) cls r = term_prefix (mkopts false (o_neutralc o)) cls r.
Proof. intros Hn. unfold term_prefix. now rewrite Hn. Qed.

Lemma term_prefix_neutralc_only o cls r :
  rs_c r = false \/ rs_n r = true ->
  term_prefix (mkopts (o_neutraln o) true) cls r = term_prefix (mkopts (o_neutraln o) false) cls r.
Proof.
  intros [Hc | Hn]; unfold term_prefix; cbn [o_neutraln o_neutralc].
  - rewrite Hc. destruct (rs_n r); reflexivity.
  - rewrite Hn. reflexivity.
Qed.

(* the complete case analysis against the run without the flags: either nothing
   changes, or an N-flagged non-PRO residue goes N -> NEUTRAL-N under --neutraln,
   or a C-flagged (not N-flagged) residue goes C -> NEUTRAL-C under --neutralc *)
Theorem term_prefix_cases o cls r :
  term_prefix o cls r = term_prefix base_opts cls r
  \/ (rs_n r = true /\ cls <> C_PRO /\ o_neutraln o = true
      /\ term_prefix base_opts cls r = PN /\ term_prefix o cls r = PNN)
  \/ (rs_n r = false /\ rs_c r = true /\ o_neutralc o = true
      /\ term_prefix base_opts cls r = PC /\ term_prefix o cls r = PNC).
Proof.
  unfold term_prefix, base_opts. cbn [o_neutraln o_neutralc orb].
  destruct (rs_n r) eqn:Hn.
  - destruct (rd_nheavy2 (rs_d r)) eqn:H2; [left; now rewrite orb_true_r|].
    rewrite orb_false_r.
    destruct (o_neutraln o) eqn:On; [|left; reflexivity].
    destruct cls; try (right; left; repeat split; try reflexivity; discriminate).
    left; reflexivity.
  - destruct (rs_c r) eqn:Hc; [|left; reflexivity].
    destruct (o_neutralc o) eqn:Oc; [|left; reflexivity].
    right; right. repeat split.
Qed.

(* an N-terminal PRO is NPRO whatever the options say *)
Lemma term_prefix_pro o r : rs_n r = true -> term_prefix o C_PRO r = PN.
Proof. intros Hn. unfold term_prefix. now rewrite Hn. Qed.

(* ---------------------------------------------------------------------- *)
(* 2 + 3. the exact charge shift                                            *)

Local Open Scope Z_scope.

(* one residue in the two runs (without / with the neutral flags): its row of the
   state table and its exact charge (in units of 1/SCALE) in each *)
Record rpair := mkrp { p_r1 : arow; p_q1 : Z; p_r2 : arow; p_q2 : Z }.

Definition shift_is (s : Z) (p : rpair) : bool :=
  match shift_of (ar_term (p_r1 p)) (ar_term (p_r2 p)) with
  | Some t => t =? s
  | None => false
  end.

Fixpoint count_if {A} (f : A -> bool) (l : list A) : nat :=
  match l with
  | [] => O
  | x :: r => (if f x then 1 else 0)%nat + count_if f r
  end.

(* neutralised N-termini: rows go N -> NEUTRAL-N; C-termini: C -> NEUTRAL-C *)
Definition n_neutralised (l : list rpair) : nat := count_if (shift_is (-1)) l.
Definition c_neutralised (l : list rpair) : nat := count_if (shift_is 1) l.

Section Shift.
  Variable m : ffmap.
  Variable exc : list nat.
  Variable rows : list arow.

  (* same state (same row, same atoms, same charge) in both runs *)
  Definition unchanged (p : rpair) : Prop := p_r2 p = p_r1 p /\ p_q2 p = p_q1 p.

  (* the terminus was actually neutralised: same residue type and side-chain
     state, the row moves N -> NEUTRAL-N or C -> NEUTRAL-C, the new state is not one
     of the table's known exceptions, both states fully parameterised *)
  Definition neutralised (p : rpair) : Prop :=
    In (p_r1 p) rows /\ In (p_r2 p) rows
    /\ ar_cls (p_r1 p) = ar_cls (p_r2 p) /\ ar_state (p_r1 p) = ar_state (p_r2 p)
    /\ ~ In (ar_key (p_r2 p)) exc
    /\ (exists s, shift_of (ar_term (p_r1 p)) (ar_term (p_r2 p)) = Some s)
    /\ In (p_q1 p) (row_charges m (p_r1 p)) /\ In (p_q2 p) (row_charges m (p_r2 p)).

  Definition step_ok (p : rpair) : Prop := unchanged p \/ neutralised p.

  Hypothesis table : check_neutral_shift m exc rows = true.

  Lemma shift_of_self t : shift_of t t = None.
  Proof. destruct t; reflexivity. Qed.

  Lemma shift_of_values t1 t2 s : shift_of t1 t2 = Some s -> s = -1 \/ s = 1.
  Proof. destruct t1, t2; cbn; intro H; inversion H; auto. Qed.

  Lemma unchanged_no_shift p s : unchanged p -> shift_is s p = false.
  Proof. intros [E _]. unfold shift_is. now rewrite E, shift_of_self. Qed.

  Lemma neutralised_charge p : neutralised p ->
    exists s, shift_of (ar_term (p_r1 p)) (ar_term (p_r2 p)) = Some s /\ p_q2 p = p_q1 p + s * SCALE.
  Proof.
    intros (H1 & H2 & Ec & Es & Hk & [s Hs] & Hq1 & Hq2). exists s. split; [exact Hs|].
    exact (neutral_shift_table m exc rows table _ _ s H1 H2 Ec Es Hk Hs _ _ Hq1 Hq2).
  Qed.

  (* ALL residue lists: the exact total charge moves by -1 per neutralised
     N-terminus and +1 per neutralised C-terminus *)
  Theorem neutral_shift_total : forall l : list rpair,
    Forall step_ok l ->
    zsum (map p_q2 l)
    = zsum (map p_q1 l) + (Z.of_nat (c_neutralised l) - Z.of_nat (n_neutralised l)) * SCALE.
  Proof.
    induction 1 as [|p l Hp Hl IH].
    - reflexivity.
    - unfold n_neutralised, c_neutralised in *. cbn [map count_if].
      change (zsum (p_q2 p :: map p_q2 l)) with (p_q2 p + zsum (map p_q2 l)).
      change (zsum (p_q1 p :: map p_q1 l)) with (p_q1 p + zsum (map p_q1 l)).
      rewrite IH. destruct Hp as [Hu | Hn].
      + rewrite !(unchanged_no_shift p _ Hu). destruct Hu as [_ Eq]. rewrite Eq. cbn [Nat.add]. lia.
      + destruct (neutralised_charge p Hn) as (s & Hs & Eq). rewrite Eq.
        unfold shift_is. rewrite Hs.
        destruct (shift_of_values _ _ _ Hs) as [-> | ->]; cbn [Z.eqb Pos.eqb Nat.add];
          rewrite ?Nat2Z.inj_succ; lia.
  Qed.

  (* a residue whose state differs between the runs is a terminus going
     N -> NEUTRAL-N or C -> NEUTRAL-C; in particular every non-terminal residue
     (row kind T_I) and every residue already neutral is unchanged *)
  Theorem neutral_changes_only_termini : forall p, step_ok p ->
    unchanged p
    \/ (ar_term (p_r1 p) = T_N /\ ar_term (p_r2 p) = T_NN /\ p_q2 p = p_q1 p - SCALE)
    \/ (ar_term (p_r1 p) = T_C /\ ar_term (p_r2 p) = T_NC /\ p_q2 p = p_q1 p + SCALE).
  Proof.
    intros p [Hu | Hn]; [left; exact Hu | right].
    destruct (neutralised_charge p Hn) as (s & Hs & Eq).
    destruct (ar_term (p_r1 p)), (ar_term (p_r2 p)); cbn in Hs; try discriminate Hs;
      inversion Hs; subst s; [left | right]; repeat split; lia.
  Qed.

  Corollary neutral_internal_unchanged : forall p, step_ok p -> ar_term (p_r1 p) = T_I -> unchanged p.
  Proof.
    intros p H Ht. destruct (neutral_changes_only_termini p H) as [U | [[E _] | [E _]]];
      [exact U | rewrite Ht in E; discriminate E | rewrite Ht in E; discriminate E].
  Qed.
End Shift.
Local Close Scope Z_scope.

(* ---------------------------------------------------------------------- *)
(* the row kinds of the generated table agree with the name prefixes of layer 1 *)

Definition prefix_of_tkind (cls : aclass) (t : tkind) : prefix :=
  match t with
  | T_I => PNone
  | T_N | T_N_C | T_N_NC => PN
  | T_C => PC
  | T_NC => PNC
  | T_NN | T_NN_C | T_NN_NC => match cls with C_PRO => PN | _ => PNN end
  end.

Definition prefix_eqb' (a b : prefix) : bool :=
  match a, b with
  | PNone, PNone | PN, PN | PC, PC | PNN, PNN | PNC, PNC => true
  | _, _ => false
  end.

Definition check_term_prefix (rows : list arow) : bool :=
  forallb (fun r => prefix_eqb' (fst (ar_name r)) (prefix_of_tkind (ar_cls r) (ar_term r))) rows.

Lemma term_prefix_table rows : check_term_prefix rows = true ->
  forall r, In r rows -> fst (ar_name r) = prefix_of_tkind (ar_cls r) (ar_term r).
Proof.
  unfold check_term_prefix. rewrite forallb_forall. intros H r Hr. specialize (H r Hr).
  destruct (fst (ar_name r)), (prefix_of_tkind (ar_cls r) (ar_term r)); try reflexivity; discriminate H.
Qed.

(* ---------------------------------------------------------------------- *)
(* residues that are BOTH ends of their chain (one-residue amino chains):    *)
(* each flag acts only through the role it is allowed to touch               *)

(* name level (C02's model of set_state): the residue carries both flags, the N
   name wins; --neutralc therefore never changes its state, --neutraln changes
   it N -> NEUTRAL-N (unless PRO / already neutral through two heavy N bonds) *)
Theorem term_prefix_both_ends o cls r :
  rs_n r = true -> rs_c r = true ->
  term_prefix (mkopts (o_neutraln o) true) cls r = term_prefix (mkopts (o_neutraln o) false) cls r
  /\ (cls <> C_PRO -> rd_nheavy2 (rs_d r) = false ->
      term_prefix (mkopts true (o_neutralc o)) cls r = PNN
      /\ term_prefix (mkopts false (o_neutralc o)) cls r = PN).
Proof.
  intros Hn Hc. split.
  - apply term_prefix_neutralc_only. now right.
  - intros Hp H2. unfold term_prefix. cbn [o_neutraln o_neutralc]. rewrite Hn, H2. cbn [orb].
    destruct cls; try (split; reflexivity). now contradiction Hp.
Qed.

(* table level: the rows of a both-ends residue that differ only in the C-terminal
   patch (T_N_C / T_N_NC, and T_NN_C / T_NN_NC) carry the same force-field name, so
   --neutralc cannot change which parameters such a residue receives *)
Definition c_only_pair (t1 t2 : tkind) : bool :=
  match t1, t2 with T_N_C, T_N_NC | T_NN_C, T_NN_NC => true | _, _ => false end.

Definition check_both_ends_names (rows : list arow) : bool :=
  forallb (fun r1 => forallb (fun r2 =>
    if same_residue r1 r2 && c_only_pair (ar_term r1) (ar_term r2)
    then sname_eqb (ar_name r1) (ar_name r2) && Pos.eqb (ar_ff r1) (ar_ff r2)
    else true) rows) rows.

Lemma both_ends_table rows : check_both_ends_names rows = true ->
  forall r1 r2, In r1 rows -> In r2 rows -> same_residue r1 r2 = true ->
    c_only_pair (ar_term r1) (ar_term r2) = true ->
    ar_name r1 = ar_name r2 /\ ar_ff r1 = ar_ff r2.
Proof.
  unfold check_both_ends_names. intros H r1 r2 H1 H2 Hs Hp.
  rewrite forallb_forall in H. specialize (H r1 H1). rewrite forallb_forall in H. specialize (H r2 H2).
  rewrite Hs, Hp in H. cbn [andb] in H. apply andb_true_iff in H. destruct H as [Hn Hf].
  split; [now apply sname_eqb_eq | now apply Pos.eqb_eq].
Qed.

(* ---------------------------------------------------------------------- *)
(* instances on the tables generated from the current repo                  *)
From PV Require Generated.States Generated.FF_PARSE Generated.StatesFF_PARSE.

Lemma generated_term_prefix : check_term_prefix Generated.States.arows = true.
Proof. vm_compute. reflexivity. Qed.

Lemma generated_both_ends_names : check_both_ends_names Generated.States.arows = true.
Proof. vm_compute. reflexivity. Qed.

(* the both-ends rows exist for every residue class (non-vacuity of the table fact) *)
Lemma generated_both_ends_rows_exist :
  List.length (filter (fun r1 => existsb (fun r2 => same_residue r1 r2 && c_only_pair (ar_term r1) (ar_term r2))
                                         Generated.States.arows) Generated.States.arows) <> 0.
Proof. vm_compute. discriminate. Qed.

(* non-vacuity on the PARSE table: ALA as N-terminus (N -> NEUTRAL-N), an internal
   ALA (unchanged), ALA as C-terminus (C -> NEUTRAL-C) *)
Definition dummy_row : arow := mkarow 0 C_ALA B_ALA T_I (PNone, B_ALA) 1%positive 0%Z [] [].
Definition pick (k : nat) : arow := nth k Generated.States.arows dummy_row.
Definition charge_of (r : arow) : Z := hd 0%Z (row_charges StatesFF_PARSE.built r).

Definition ex_pairs : list rpair :=
  [mkrp (pick 1) (charge_of (pick 1)) (pick 3) (charge_of (pick 3));
   mkrp (pick 0) (charge_of (pick 0)) (pick 0) (charge_of (pick 0));
   mkrp (pick 2) (charge_of (pick 2)) (pick 4) (charge_of (pick 4))].

Lemma pick_In k : (k <? List.length Generated.States.arows)%nat = true -> In (pick k) Generated.States.arows.
Proof. intro H. apply Nat.ltb_lt in H. unfold pick. now apply nth_In. Qed.

Lemma charge_of_In r : row_charges StatesFF_PARSE.built r <> [] -> In (charge_of r) (row_charges StatesFF_PARSE.built r).
Proof. unfold charge_of. destruct (row_charges StatesFF_PARSE.built r); [congruence | intros _; now left]. Qed.

Example neutral_nonvacuous :
  Forall (step_ok StatesFF_PARSE.built StatesFF_PARSE.known_exceptions Generated.States.arows) ex_pairs
  /\ n_neutralised ex_pairs = 1 /\ c_neutralised ex_pairs = 1
  /\ map p_q1 ex_pairs = [SCALE; 0; - SCALE]%Z /\ map p_q2 ex_pairs = [0; 0; 0]%Z
  /\ ar_term (pick 1) = T_N /\ ar_term (pick 3) = T_NN /\ ar_term (pick 0) = T_I.
Proof.
  split; [|vm_compute; repeat split; reflexivity].
  assert (N : forall a b, (a <? List.length Generated.States.arows)%nat = true ->
                          (b <? List.length Generated.States.arows)%nat = true ->
                          ar_cls (pick a) = ar_cls (pick b) -> ar_state (pick a) = ar_state (pick b) ->
                          ~ In (ar_key (pick b)) StatesFF_PARSE.known_exceptions ->
                          (exists s, shift_of (ar_term (pick a)) (ar_term (pick b)) = Some s) ->
                          row_charges StatesFF_PARSE.built (pick a) <> [] ->
                          row_charges StatesFF_PARSE.built (pick b) <> [] ->
                          step_ok StatesFF_PARSE.built StatesFF_PARSE.known_exceptions Generated.States.arows
                                  (mkrp (pick a) (charge_of (pick a)) (pick b) (charge_of (pick b)))).
  { intros a b Ha Hb Ec Es Hk Hs Qa Qb. right. unfold neutralised. cbn [p_r1 p_r2 p_q1 p_q2].
    repeat split; auto using pick_In, charge_of_In. }
  unfold ex_pairs. apply Forall_cons; [|apply Forall_cons; [|apply Forall_cons; [|apply Forall_nil]]].
  - apply N; try (vm_compute; reflexivity); try (vm_compute; discriminate).
    + vm_compute. intros [H|[]]. discriminate H.
    + exists (-1)%Z. vm_compute. reflexivity.
  - left. split; reflexivity.
  - apply N; try (vm_compute; reflexivity); try (vm_compute; discriminate).
    + vm_compute. intros [H|[]]. discriminate H.
    + exists 1%Z. vm_compute. reflexivity.
Qed.
