(* Proofs about Model/Psize.v (C17). *)
From Coq Require Import String Ascii List ZArith QArith Bool Lia Lqa.
From PV Require Import Lib.Strings Lib.Decimal Model.Psize.
Import ListNotations.

(* ---- axes of a triple ---------------------------------------------------- *)

Inductive axis := AX | AY | AZ.
Definition ax {T : Type} (i : axis) (v : vec3 T) : T :=
  let '(a, b, c) := v in match i with AX => a | AY => b | AZ => c end.

Lemma ax_map3 {T U : Type} (f : T -> U) i v : ax i (map3 f v) = f (ax i v).
Proof. destruct v as [[a b] c], i; reflexivity. Qed.
Lemma ax_zip3 {T U V : Type} (f : T -> U -> V) i v w : ax i (zip3 f v w) = f (ax i v) (ax i w).
Proof. destruct v as [[a b] c], w as [[d e] g], i; reflexivity. Qed.

(* ========================================================================== *)
(* Part 1: facts that hold for every arithmetic (floats included)             *)
(* ========================================================================== *)

Section GenericProofs.
  Context {A : Type} (ops : Arith A).

  (* ---- grid form: pure Z reasoning about max(32*k+1, 33) ----------------- *)

  Definition grid_ok (n : Z) : Prop := (exists k : Z, n = 32 * k + 1 /\ 1 <= k)%Z /\ (33 <= n)%Z.

  Lemma ngrid_of_temp_ok (t : Z) : grid_ok (ngrid_of_temp ops t).
  Proof.
    unfold ngrid_of_temp.
    set (k := trunc A ops _).
    destruct (Z.max_spec (32 * k + 1) 33) as [[H1 H2] | [H1 H2]]; rewrite H2; split; try lia.
    - exists 1%Z; lia.
    - exists k; lia.
  Qed.

  Lemma ngrid_of_ok (p : params) (mn mx : vec3 A) (i : axis) : grid_ok (ax i (ngrid_of ops p mn mx)).
  Proof. unfold ngrid_of. rewrite ax_map3. apply ngrid_of_temp_ok. Qed.

  (* what set_all returns when it returns *)
  Lemma set_all_fields (p : params) (st : pstate) (sz : sizing) :
    set_all ops p st = Ok sz ->
    exists mn mx,
      box st = Some (mn, mx) /\
      s_mol sz = mol_of ops mn mx /\ s_coarse sz = coarse_of ops p mn mx /\
      s_fine sz = fine_of ops p mn mx /\ s_center sz = center_of ops mn mx /\
      s_ngrid sz = ngrid_of ops p mn mx /\
      smallest ops (smallest_fuel (ngrid_of ops p mn mx)) (p_gmemceil p)
               (map3 PInt (ngrid_of ops p mn mx)) = Ok (s_nsmall sz) /\
      s_nproc sz = zip3 (nproc1 ops (p_ofrac p)) (ngrid_of ops p mn mx) (s_nsmall sz).
  Proof.
    unfold set_all. destruct (box st) as [[mn mx]|]; [|discriminate].
    destruct (eqbA ops (p_space p) (zero ops)); [discriminate|].
    destruct (smallest ops _ _ _) as [ns|e] eqn:Es; [|discriminate].
    cbn [bind].
    destruct (fine_of ops p mn mx) as [[f0 f1] f2] eqn:Ef.
    destruct (zip3 (nproc1 ops (p_ofrac p)) (ngrid_of ops p mn mx) ns) as [[n0 n1] n2] eqn:En.
    destruct (coarse_of ops p mn mx) as [[c0 c1] c2] eqn:Ec.
    destruct (nfoc1 ops (p_redfac p) f0 n0 c0); [|discriminate].
    destruct (nfoc1 ops (p_redfac p) f1 n1 c1); [|discriminate].
    destruct (nfoc1 ops (p_redfac p) f2 n2 c2); [|discriminate].
    cbn [bind]. intros H. injection H as H. subst sz. cbn.
    exists mn, mx. rewrite ?Ef, ?Ec, ?En. repeat split; try reflexivity. exact Es.
  Qed.

  Theorem grid_form (p : params) (st : pstate) (sz : sizing) :
    set_all ops p st = Ok sz -> forall i, grid_ok (ax i (s_ngrid sz)).
  Proof.
    intros H i. destruct (set_all_fields _ _ _ H) as (mn & mx & _ & _ & _ & _ & _ & Hn & _).
    rewrite Hn. apply ngrid_of_ok.
  Qed.

  (* ---- header / comment lines ------------------------------------------- *)

  Variable pfloat : string -> option A.

  Definition is_coord_line (l : string) : bool := prefix_of "ATOM" l || prefix_of "HETATM" l.

  Lemma parse_line_skip (h : string) :
    is_coord_line h = false -> parse_line pfloat h = EvSkip.
  Proof. unfold is_coord_line, parse_line. intros ->. reflexivity. Qed.

  Lemma run_events_app (st : pstate) (a b : list event) :
    run_events ops st (a ++ b) = bind (run_events ops st a) (fun st' => run_events ops st' b).
  Proof.
    revert st; induction a as [|e a IH]; intros st; cbn [run_events app bind]; [reflexivity|].
    destruct (step ops st e) as [st'|]; cbn [bind]; [apply IH | reflexivity].
  Qed.

  Theorem header_insert (st : pstate) (l1 l2 : list string) (h : string) :
    is_coord_line h = false ->
    parse_lines ops pfloat st (l1 ++ h :: l2) = parse_lines ops pfloat st (l1 ++ l2).
  Proof.
    intros Hh. unfold parse_lines. rewrite !map_app, !run_events_app. cbn [map].
    rewrite (parse_line_skip _ Hh).
    destruct (run_events ops st (map (parse_line pfloat) l1)); reflexivity.
  Qed.

  Theorem header_filter (st : pstate) (lines : list string) :
    parse_lines ops pfloat st (filter is_coord_line lines) = parse_lines ops pfloat st lines.
  Proof.
    unfold parse_lines. revert st; induction lines as [|l r IH]; intros st; [reflexivity|].
    cbn [filter]. destruct (is_coord_line l) eqn:E.
    - cbn [map run_events]. destruct (step ops st _); cbn [bind]; [apply IH | reflexivity].
    - cbn [map run_events]. rewrite (parse_line_skip _ E). cbn [step bind]. apply IH.
  Qed.

  Corollary header_insert_run (p : params) (l1 l2 : list string) (h : string) :
    is_coord_line h = false ->
    run_psize ops pfloat p (l1 ++ h :: l2) = run_psize ops pfloat p (l1 ++ l2) /\
    run_dump_apbs ops pfloat p (l1 ++ h :: l2) = run_dump_apbs ops pfloat p (l1 ++ l2).
  Proof.
    intros Hh. unfold run_psize, run_dump_apbs. rewrite (header_insert _ l1 l2 h Hh).
    split; [reflexivity|].
    destruct (parse_lines ops pfloat (init_state ops) (l1 ++ l2)) as [st1|]; cbn [bind]; [|reflexivity].
    rewrite (header_insert _ l1 l2 h Hh). reflexivity.
  Qed.

  (* ---- set_smallest: a reduced entry is a float, and stays one ----------- *)

  Definition is_float (n : pynum (A:=A)) : bool := match n with PFloat _ => true | PInt _ => false end.
  Definition has_float (n : vec3 (pynum (A:=A))) : bool :=
    let '(a, b, c) := n in is_float a || is_float b || is_float c.

  Lemma shrink_has_float n n' : shrink ops n = Ok n' -> has_float n' = true.
  Proof.
    destruct n as [[a b] c]. unfold shrink.
    destruct (eqbA ops (toA ops a) _).
    - destruct (leb ops _ _); [discriminate|]. intros H; injection H as <-. reflexivity.
    - destruct (eqbA ops (toA ops b) _).
      + destruct (leb ops _ _); [discriminate|]. intros H; injection H as <-.
        cbn. now rewrite orb_true_r.
      + destruct (leb ops _ _); [discriminate|]. intros H; injection H as <-.
        cbn. now rewrite orb_true_r.
  Qed.

  Lemma smallest_keeps_float fuel ceil n n' :
    has_float n = true -> smallest ops fuel ceil n = Ok n' -> has_float n' = true.
  Proof.
    revert n; induction fuel as [|f IH]; intros n Hn; cbn [smallest]; [discriminate|].
    destruct (ltb A ops (mem_mb ops n) ceil).
    - intros H; injection H as <-. exact Hn.
    - destruct (shrink ops n) as [m|] eqn:Es; cbn [bind]; [|discriminate].
      apply IH. exact (shrink_has_float _ _ Es).
  Qed.

  Lemma smallest_first_float fuel ceil n n' :
    ltb A ops (mem_mb ops n) ceil = false -> smallest ops fuel ceil n = Ok n' -> has_float n' = true.
  Proof.
    destruct fuel as [|f]; cbn [smallest]; [discriminate|]. intros ->.
    destruct (shrink ops n) as [m|] eqn:Es; cbn [bind]; [|discriminate].
    apply smallest_keeps_float. exact (shrink_has_float _ _ Es).
  Qed.

  (* nproc1 is an int exactly on the axes where it is > 1; an axis whose
     nsmall entry is still the python int of ngrid has ratio 1.0 (a float) *)
  Lemma report_fmt_conflict (p : params) (st : pstate) (sz : sizing) :
    has_float (s_nsmall sz) = true ->
    (0 <? gotatom st)%Z = true ->
    gtb ops (mem_mb ops (map3 PInt (s_ngrid sz))) (p_gmemceil p) = true ->
    report ops p st sz = Err ErrFmtD.
  Proof.
    intros Hf Hg Hm. unfold report. rewrite Hg, Hm.
    destruct (s_nproc sz) as [[p0 p1] p2]. destruct (s_nsmall sz) as [[n0 n1] n2].
    cbn in Hf.
    destruct n0, n1, n2; cbn in Hf; try discriminate; cbn [fmt_d_ok];
      rewrite ?andb_false_r; reflexivity.
  Qed.

  (* whenever a report is produced, its figures are the formula applied to the
     grid it names, and that grid is ngrid (sequential) or nsmall (parallel) *)
  Lemma report_figures (p : params) (st : pstate) (sz : sizing) (m : mem_report) :
    report ops p st sz = Ok (Some m) ->
    r_est_mb m = mem_mb ops (r_grid m) /\ r_per_proc_mb m = mem_mb ops (r_grid m) /\
    r_grid m = (if r_parallel m then s_nsmall sz else map3 PInt (s_ngrid sz)) /\
    r_parallel m = gtb ops (mem_mb ops (map3 PInt (s_ngrid sz))) (p_gmemceil p).
  Proof.
    unfold report. destruct (0 <? gotatom st)%Z; [|discriminate].
    destruct (gtb ops _ _) eqn:Eg.
    - destruct (s_nproc sz) as [[p0 p1] p2]. destruct (s_nsmall sz) as [[n0 n1] n2].
      destruct (_ && _); [|discriminate]. intros H; injection H as <-. cbn. auto.
    - intros H; injection H as <-. cbn. auto.
  Qed.

End GenericProofs.

(* ---- string level: fields after column 30 ---------------------------------- *)

Local Open Scope string_scope.

Definition is_dash (c : ascii) : bool := Ascii.eqb c "-"%char.

(* a numeric word as the format specs produce it: non-empty, no blank, '-' only in front *)
Definition clean_tok (t : string) : bool :=
  match t with
  | EmptyString => false
  | String c r => negb (is_ws c) && negb (any_char is_ws r) && negb (any_char is_dash r)
  end.
Definition starts_dash (t : string) : bool :=
  match t with String c _ => is_dash c | EmptyString => false end.
(* what follows a word keeps it apart: end of line, a blank, or a minus sign *)
Definition sep_start (s : string) : bool :=
  match s with EmptyString => true | String c _ => is_ws c || is_dash c end.

Lemma dash_sp_app a b : dash_sp (a ++ b) = dash_sp a ++ dash_sp b.
Proof.
  induction a as [|c a IH]; cbn [dash_sp append]; [reflexivity|].
  destruct (Ascii.eqb c "-"); cbn [append]; now rewrite IH.
Qed.

Lemma dash_sp_nodash s : any_char is_dash s = false -> dash_sp s = s.
Proof.
  induction s as [|c s IH]; cbn [any_char dash_sp]; [reflexivity|].
  intros H. apply orb_false_iff in H as [Hc Hs]. unfold is_dash in Hc. rewrite Hc, (IH Hs). reflexivity.
Qed.

Lemma dash_sp_blanks n : dash_sp (repeat_char sp n) = repeat_char sp n.
Proof. induction n; cbn; [reflexivity | now rewrite IHn]. Qed.

Lemma tokens_blanks_prefix n s : tokens (repeat_char sp n ++ s) = tokens s.
Proof.
  induction n; cbn [repeat_char append]; [reflexivity|].
  rewrite tokens_ws_prefix by reflexivity. exact IHn.
Qed.

Lemma any_ws_false_single c r :
  is_ws c = false -> any_char is_ws r = false -> tokens (String c r) = [String c r].
Proof.
  intros Hc Hr. apply tokens_single; [cbn; now rewrite Hc, Hr | reflexivity].
Qed.

(* dash_sp of a separated remainder is empty or starts with a blank *)
Lemma dash_sp_sep rest :
  sep_start rest = true ->
  dash_sp rest = "" \/ exists w x, is_ws w = true /\ dash_sp rest = String w x.
Proof.
  destruct rest as [|c r]; [now left|]. cbn [sep_start dash_sp]. intros H. right.
  destruct (Ascii.eqb c "-") eqn:E.
  - exists " "%char. eexists. split; reflexivity.
  - unfold is_dash in H. rewrite E, orb_false_r in H. exists c. eexists. split; [exact H|reflexivity].
Qed.

Lemma tokens_dash_tok t : clean_tok t = true -> tokens (dash_sp t) = [t].
Proof.
  destruct t as [|c r]; [discriminate|]. cbn [clean_tok]. intros H.
  apply andb_true_iff in H as [H Hd]. apply andb_true_iff in H as [Hc Hw].
  apply negb_true_iff in Hd, Hc, Hw.
  cbn [dash_sp]. rewrite (dash_sp_nodash _ Hd).
  destruct (Ascii.eqb c "-") eqn:E.
  - rewrite tokens_ws_prefix by reflexivity.
    apply Ascii.eqb_eq in E. subst c. apply any_ws_false_single; [reflexivity | exact Hw].
  - apply any_ws_false_single; assumption.
Qed.

Lemma tokens_dash_field t rest :
  clean_tok t = true -> sep_start rest = true ->
  tokens (dash_sp (t ++ rest)) = t :: tokens (dash_sp rest).
Proof.
  intros Ht Hs. rewrite dash_sp_app.
  destruct (dash_sp_sep _ Hs) as [-> | (w & x & Hw & ->)].
  - rewrite app_empty_r. rewrite (tokens_dash_tok _ Ht). reflexivity.
  - rewrite (tokens_app_ws _ _ _ Hw), (tokens_dash_tok _ Ht), (tokens_ws_prefix _ _ Hw). reflexivity.
Qed.

Lemma tokens_dash_padded n t rest :
  clean_tok t = true -> sep_start rest = true ->
  tokens (dash_sp (repeat_char sp n ++ t ++ rest)) = t :: tokens (dash_sp rest).
Proof.
  intros Ht Hs. rewrite dash_sp_app, dash_sp_blanks, tokens_blanks_prefix.
  apply tokens_dash_field; assumption.
Qed.

Lemma sep_start_padded n t rest :
  (1 <= n)%nat \/ starts_dash t = true -> sep_start (repeat_char sp n ++ t ++ rest) = true.
Proof.
  intros [H | H].
  - destruct n; [lia|]. reflexivity.
  - destruct n; [|reflexivity]. cbn [repeat_char append].
    destruct t as [|c r]; [discriminate|]. cbn in *. rewrite H. apply orb_true_r.
Qed.

Lemma tokens_all_ws s : all_chars is_ws s = true -> tokens s = [].
Proof.
  induction s as [|c s IH]; [reflexivity|]. cbn [all_chars]. intros H.
  apply andb_true_iff in H as [Hc Hs]. rewrite (tokens_ws_prefix _ _ Hc). auto.
Qed.

Lemma all_ws_nodash s : all_chars is_ws s = true -> any_char is_dash s = false.
Proof.
  induction s as [|c s IH]; [reflexivity|]. cbn [all_chars any_char]. intros H.
  apply andb_true_iff in H as [Hc Hs]. rewrite (IH Hs), orb_false_r.
  unfold is_dash. destruct (Ascii.eqb c "-") eqn:E; [|reflexivity].
  apply Ascii.eqb_eq in E. subst c. discriminate.
Qed.

Lemma sep_start_all_ws s : all_chars is_ws s = true -> sep_start s = true.
Proof. destruct s as [|c s]; [reflexivity|]. cbn. intros H. apply andb_true_iff in H as [-> _]. reflexivity. Qed.

(* five separated fields after a 30-character head are read back exactly *)
Theorem words_separated (head : string) (a0 a1 a2 a3 a4 : nat) (t0 t1 t2 t3 t4 trail : string) :
  String.length head = 30%nat ->
  clean_tok t0 = true -> clean_tok t1 = true -> clean_tok t2 = true ->
  clean_tok t3 = true -> clean_tok t4 = true ->
  ((1 <= a1)%nat \/ starts_dash t1 = true) -> ((1 <= a2)%nat \/ starts_dash t2 = true) ->
  ((1 <= a3)%nat \/ starts_dash t3 = true) -> ((1 <= a4)%nat \/ starts_dash t4 = true) ->
  all_chars is_ws trail = true ->
  words_after30
    (head ++ repeat_char sp a0 ++ t0 ++ repeat_char sp a1 ++ t1 ++ repeat_char sp a2 ++ t2 ++
     repeat_char sp a3 ++ t3 ++ repeat_char sp a4 ++ t4 ++ trail)
  = [t0; t1; t2; t3; t4].
Proof.
  intros Hh C0 C1 C2 C3 C4 S1 S2 S3 S4 Ht. unfold words_after30.
  rewrite <- Hh, drop_app_exact.
  rewrite tokens_dash_padded; [|assumption|apply sep_start_padded; assumption].
  rewrite tokens_dash_padded; [|assumption|apply sep_start_padded; assumption].
  rewrite tokens_dash_padded; [|assumption|apply sep_start_padded; assumption].
  rewrite tokens_dash_padded; [|assumption|apply sep_start_padded; assumption].
  rewrite tokens_dash_padded; [|assumption|apply sep_start_all_ws; assumption].
  rewrite (dash_sp_nodash _ (all_ws_nodash _ Ht)), (tokens_all_ws _ Ht). reflexivity.
Qed.

(* ---- pathlib name ----------------------------------------------------------- *)

Definition no_chr (c : ascii) (s : string) : bool := negb (any_char (Ascii.eqb c) s).

Lemma segs_nosep c b : no_chr c b = true -> segs c b = (b, []).
Proof.
  unfold no_chr. induction b as [|a b IH]; cbn [any_char segs]; [reflexivity|].
  intros H. apply negb_true_iff, orb_false_iff in H as [Ha Hb].
  rewrite IH by now rewrite Hb. rewrite Ascii.eqb_sym, Ha. reflexivity.
Qed.

Lemma segs_app c a b :
  segs c (a ++ String c b) = (fst (segs c a), (snd (segs c a) ++ split_chr c b)%list).
Proof.
  induction a as [|x a IH]; cbn [append segs].
  - rewrite Ascii.eqb_refl. unfold split_chr. destruct (segs c b); reflexivity.
  - rewrite IH. destruct (segs c a) as [h t]. cbn [fst snd].
    destruct (Ascii.eqb x c); reflexivity.
Qed.

Lemma split_chr_app c a b :
  no_chr c b = true -> split_chr c (a ++ String c b) = (split_chr c a ++ [b])%list.
Proof.
  intros Hb. unfold split_chr. rewrite segs_app. unfold split_chr.
  rewrite (segs_nosep _ _ Hb). destruct (segs c a); reflexivity.
Qed.

Theorem basename_dir_name (dir name : string) :
  no_chr "/" name = true -> path_part_ok name = true ->
  basename (dir ++ "/" ++ name) = name.
Proof.
  intros Hn Hok. unfold basename, path_parts.
  change (dir ++ "/" ++ name) with (dir ++ String "/" name).
  rewrite (split_chr_app _ _ _ Hn), filter_app. cbn [filter]. rewrite Hok.
  apply last_last.
Qed.

Theorem basename_plain (name : string) :
  no_chr "/" name = true -> path_part_ok name = true -> basename name = name.
Proof.
  intros Hn Hok. unfold basename, path_parts, split_chr. rewrite (segs_nosep _ _ Hn).
  cbn [filter]. rewrite Hok. reflexivity.
Qed.

Theorem basename_spec (dir name : string) :
  no_chr "/" name = true -> path_part_ok name = true ->
  basename (dir ++ "/" ++ name) = name /\ basename name = name.
Proof.
  intros H1 H2. split; [exact (basename_dir_name dir name H1 H2) | exact (basename_plain name H1 H2)].
Qed.

(* the .in text opens with the read section naming Path(pqrpath).name *)
Theorem dump_apbs_names_pqr {A : Type} (fmt4 : A -> string) (pqrpath : string) (sz : sizing (A:=A)) :
  exists rest,
    dump_apbs_text fmt4 pqrpath sz =
    "read" ++ nl ++ "    mol pqr " ++ basename pqrpath ++ nl ++ "end" ++ nl ++ rest.
Proof. unfold dump_apbs_text, input_text. eexists. reflexivity. Qed.

(* ... and its ELEC section carries ngrid as dime, coarse/fine lengths as cglen/fglen *)
Theorem dump_apbs_grid_lines {A : Type} (fmt4 : A -> string) (pqrpath : string) (sz : sizing (A:=A)) :
  exists pre post,
    dump_apbs_text fmt4 pqrpath sz =
    pre ++ "    mg-auto" ++ nl ++ z3_line "dime" (s_ngrid sz) ++
    f3_line fmt4 "cglen" (s_coarse sz) ++ f3_line fmt4 "fglen" (s_fine sz) ++
    "    cgcent mol 1" ++ nl ++ "    fgcent mol 1" ++ nl ++ post.
Proof.
  unfold dump_apbs_text, input_text, elec_auto_text.
  exists ("read" ++ nl ++ "    mol pqr " ++ basename pqrpath ++ nl ++ "end" ++ nl ++ "elec " ++ nl).
  eexists.
  cbn [String.concat].
  repeat rewrite app_assoc_s. reflexivity.
Qed.

(* ========================================================================== *)
(* Part 2: the exact instance QA                                              *)
(* ========================================================================== *)

Local Close Scope string_scope.
Local Open Scope Q_scope.

Lemma Qltb_lt a b : Qltb a b = true <-> a < b.
Proof.
  unfold Qltb. rewrite negb_true_iff. split; intros H.
  - apply Qnot_le_lt. intros H1. apply Qle_bool_iff in H1. congruence.
  - destruct (Qle_bool b a) eqn:E; [|reflexivity]. apply Qle_bool_iff in E. lra.
Qed.
Lemma Qltb_ge a b : Qltb a b = false <-> b <= a.
Proof. unfold Qltb. rewrite negb_false_iff. apply Qle_bool_iff. Qed.

Ltac qconst :=
  unfold Qdiv, inject_Z in *;
  change (/ (2 # 1)) with (1 # 2) in *; change (/ (10 # 1)) with (1 # 10) in *;
  change (/ (32 # 1)) with (1 # 32) in *; change (/ (1024 # 1)) with (1 # 1024) in *.
Ltac qcase :=
  match goal with
  | |- context [Qltb ?a ?b] =>
      let E := fresh "E" in
      destruct (Qltb a b) eqn:E; [apply Qltb_lt in E | apply Qltb_ge in E]
  end.

(* ---- one axis: containment, ordering, centring ---------------------------- *)

Lemma box_axis (mx mn cfac fadd : Q) :
  1 <= cfac -> 0 <= fadd ->
  let mol := mol_len1 QA mx mn in
  let coarse := coarse1 QA cfac mol in
  let fine := fine1 QA fadd mol coarse in
  let c := center1 QA mx mn in
  c - fine / 2 <= mn /\ mx <= c + fine / 2 /\
  c - coarse / 2 <= mn /\ mx <= c + coarse / 2 /\
  fine <= coarse /\ c == (mx + mn) / 2 /\ 1 # 10 <= mol /\ mx - mn <= mol.
Proof.
  intros Hc Hf. cbv zeta.
  unfold fine1, coarse1, mol_len1, center1, pmin, pmax, tenth. cbn [ltb add sub mul div ofZ QA].
  repeat qcase; rewrite ?Qred_correct in *; qconst; repeat split; try nra.
Qed.

(* fine <= coarse and the centre is the midpoint for every parameter value *)
Lemma fine_le_coarse_axis (mx mn cfac fadd : Q) :
  fine1 QA fadd (mol_len1 QA mx mn) (coarse1 QA cfac (mol_len1 QA mx mn))
  <= coarse1 QA cfac (mol_len1 QA mx mn).
Proof.
  unfold fine1, pmin. cbn [ltb QA]. qcase; lra.
Qed.

Lemma center_axis (mx mn : Q) : center1 QA mx mn == (mx + mn) / 2.
Proof. unfold center1. cbn [add div ofZ QA]. rewrite !Qred_correct. reflexivity. Qed.

Theorem boxes_contain (p : params (A:=Q)) (mn mx : vec3 Q) (i : axis) :
  1 <= p_cfac p -> 0 <= p_fadd p ->
  let c := ax i (center_of QA mn mx) in
  let fine := ax i (fine_of QA p mn mx) in
  let coarse := ax i (coarse_of QA p mn mx) in
  (c - fine / 2 <= ax i mn /\ ax i mx <= c + fine / 2) /\
  (c - coarse / 2 <= ax i mn /\ ax i mx <= c + coarse / 2).
Proof.
  intros Hc Hf. cbv zeta. unfold center_of, fine_of, coarse_of, mol_of.
  rewrite !ax_zip3, !ax_map3, !ax_zip3.
  destruct (box_axis (ax i mx) (ax i mn) _ _ Hc Hf) as (H1 & H2 & H3 & H4 & _). auto.
Qed.

Theorem fine_le_coarse (p : params (A:=Q)) (mn mx : vec3 Q) (i : axis) :
  ax i (fine_of QA p mn mx) <= ax i (coarse_of QA p mn mx).
Proof.
  unfold fine_of, coarse_of, mol_of. rewrite !ax_zip3, !ax_map3, !ax_zip3.
  apply fine_le_coarse_axis.
Qed.

Theorem centered (mn mx : vec3 Q) (i : axis) :
  ax i (center_of QA mn mx) == (ax i mx + ax i mn) / 2.
Proof. unfold center_of. rewrite ax_zip3. apply center_axis. Qed.

(* the guard cfac >= 1 is needed: a coarse factor below one cuts the fine box *)
Lemma boxes_need_cfac :
  exists (p : params (A:=Q)) (mn mx : vec3 Q),
    p_cfac p < 1 /\ 0 <= p_fadd p /\
    ~ (ax AX (center_of QA mn mx) - ax AX (fine_of QA p mn mx) / 2 <= ax AX mn).
Proof.
  exists (mkP (1#2) 20 (1#2) 200 400 (1#10) (1#4)), (0, 0, 0), (10, 10, 10).
  vm_compute. intuition discriminate.
Qed.

(* ---- min/max accumulation -------------------------------------------------- *)

(* the interval [lo, hi] lies inside the box on every axis *)
Definition inbox (b : option (vec3 Q * vec3 Q)) (lo hi : vec3 Q) : Prop :=
  exists mn mx, b = Some (mn, mx) /\ forall i, ax i mn <= ax i lo /\ ax i hi <= ax i mx.

Lemma lower_spec (l m : Q) : (if Qltb l m then l else m) <= l /\ (if Qltb l m then l else m) <= m.
Proof. qcase; lra. Qed.
Lemma upper_spec (h m : Q) : h <= (if gtb QA h m then h else m) /\ m <= (if gtb QA h m then h else m).
Proof. unfold gtb. cbn [ltb QA]. qcase; lra. Qed.

Lemma acc_box_grows b c rad lo hi :
  inbox b lo hi -> inbox (Some (acc_box QA b c rad)) lo hi.
Proof.
  intros (mn & mx & -> & H). unfold acc_box.
  eexists _, _. split; [reflexivity|]. intros i. rewrite !ax_zip3, !ax_map3.
  destruct (H i) as [H1 H2].
  pose proof (lower_spec (sub Q QA (ax i c) rad) (ax i mn)) as [_ L].
  pose proof (upper_spec (add Q QA (ax i c) rad) (ax i mx)) as [_ U].
  change (ltb Q QA) with Qltb. split; lra.
Qed.

Lemma acc_box_has b (c : vec3 Q) rad :
  inbox (Some (acc_box QA b c rad)) (map3 (fun ci => ci - rad) c) (map3 (fun ci => ci + rad) c).
Proof.
  unfold acc_box. destruct b as [[mn mx]|].
  - eexists _, _. split; [reflexivity|]. intros i. rewrite !ax_zip3, !ax_map3.
    pose proof (lower_spec (sub Q QA (ax i c) rad) (ax i mn)) as [L _].
    pose proof (upper_spec (add Q QA (ax i c) rad) (ax i mx)) as [U _].
    change (ltb Q QA) with Qltb. cbn [sub add QA] in *.
    pose proof (Qred_correct (ax i c - rad)) as R1. pose proof (Qred_correct (ax i c + rad)) as R2.
    split; lra.
  - eexists _, _. split; [reflexivity|]. intros i. rewrite !ax_map3.
    cbn [sub add QA]. rewrite !Qred_correct. split; lra.
Qed.

Lemma step_atom_box (st st' : pstate (A:=Q)) h x y z q r :
  step QA st (EvAtom h (x, y, z, q, r)) = Ok st' ->
  box st' = Some (acc_box QA (box st) (x, y, z) r).
Proof. unfold step. intros H; injection H as <-. cbn [box]. destruct h; reflexivity. Qed.

Lemma count_box (st : pstate (A:=Q)) h : box (count st h) = box st.
Proof. destruct h; reflexivity. Qed.

Lemma step_grows st ev st' lo hi :
  step QA st ev = Ok st' -> inbox (box st) lo hi -> inbox (box st') lo hi.
Proof.
  destruct ev as [|h|h [[[[x y] z] q] r]|h].
  - cbn [step]. intros H; injection H as <-. auto.
  - cbn [step]. intros H; injection H as <-. rewrite count_box. auto.
  - intros H Hb. rewrite (step_atom_box _ _ _ _ _ _ _ _ H). apply acc_box_grows. exact Hb.
  - discriminate.
Qed.

Lemma run_grows evs st st' lo hi :
  run_events QA st evs = Ok st' -> inbox (box st) lo hi -> inbox (box st') lo hi.
Proof.
  revert st; induction evs as [|e evs IH]; intros st; cbn [run_events].
  - intros H; injection H as <-. auto.
  - destruct (step QA st e) as [s1|] eqn:Es; cbn [bind]; [|discriminate].
    intros H Hb. apply (IH _ H). exact (step_grows _ _ _ _ _ Es Hb).
Qed.

(* every measured atom's sphere interval lies inside [minlen, maxlen] *)
Theorem minmax_contains_all (evs : list (event (A:=Q))) (st st' : pstate (A:=Q)) :
  run_events QA st evs = Ok st' ->
  forall h x y z q r, In (EvAtom h (x, y, z, q, r)) evs ->
  exists mn mx, box st' = Some (mn, mx) /\
    forall i, ax i mn <= ax i (x, y, z) - r /\ ax i (x, y, z) + r <= ax i mx.
Proof.
  revert st; induction evs as [|e evs IH]; intros st Hrun h x y z q r Hin; [destruct Hin|].
  cbn [run_events] in Hrun.
  destruct (step QA st e) as [s1|] eqn:Es; cbn [bind] in Hrun; [|discriminate].
  destruct Hin as [-> | Hin].
  - assert (Hb : inbox (box s1) (map3 (fun ci => ci - r) (x, y, z)) (map3 (fun ci => ci + r) (x, y, z))).
    { rewrite (step_atom_box _ _ _ _ _ _ _ _ Es). apply acc_box_has. }
    destruct (run_grows _ _ _ _ _ Hrun Hb) as (mn & mx & E & H).
    exists mn, mx. split; [exact E|]. intros i. specialize (H i). rewrite !ax_map3 in H. exact H.
  - exact (IH _ Hrun h x y z q r Hin).
Qed.

(* a second pass over the same lines (io.dump_apbs) leaves the box unchanged *)
Lemma acc_box_idem mn mx (c : vec3 Q) rad :
  (forall i, ax i mn <= ax i c - rad /\ ax i c + rad <= ax i mx) ->
  acc_box QA (Some (mn, mx)) c rad = (mn, mx).
Proof.
  intros H. unfold acc_box. destruct c as [[x y] z], mn as [[a b] d], mx as [[e f] g].
  pose proof (H AX) as [X1 X2]. pose proof (H AY) as [Y1 Y2]. pose proof (H AZ) as [Z1 Z2].
  cbn [ax] in *. cbn [map3 zip3]. unfold gtb. cbn [ltb sub add QA].
  repeat match goal with
  | |- context [Qltb ?u ?v] =>
      let E := fresh "E" in destruct (Qltb u v) eqn:E;
      [apply Qltb_lt in E; rewrite ?Qred_correct in E; lra | clear E]
  end. reflexivity.
Qed.

Definition atoms_inside (b : option (vec3 Q * vec3 Q)) (evs : list (event (A:=Q))) : Prop :=
  forall h x y z q r, In (EvAtom h (x, y, z, q, r)) evs ->
  exists mn mx, b = Some (mn, mx) /\
    forall i, ax i mn <= ax i (x, y, z) - r /\ ax i (x, y, z) + r <= ax i mx.

Lemma rerun_same_box evs st st' :
  atoms_inside (box st) evs -> run_events QA st evs = Ok st' -> box st' = box st.
Proof.
  revert st; induction evs as [|e evs IH]; intros st Hin; cbn [run_events].
  - intros H; injection H as <-. reflexivity.
  - assert (Hrest : forall s1, box s1 = box st -> atoms_inside (box s1) evs).
    { intros s1 E. rewrite E. intros h x y z q r Hi. apply (Hin h x y z q r). now right. }
    destruct (step QA st e) as [s1|] eqn:Es; cbn [bind]; [|discriminate].
    intros H.
    assert (E : box s1 = box st).
    { destruct e as [|h|h [[[[x y] z] q] r]|h].
      - cbn [step] in Es. injection Es as <-. reflexivity.
      - cbn [step] in Es. injection Es as <-. apply count_box.
      - rewrite (step_atom_box _ _ _ _ _ _ _ _ Es).
        destruct (Hin h x y z q r (or_introl eq_refl)) as (mn & mx & Eb & Hc).
        rewrite Eb, (acc_box_idem _ _ _ _ Hc). reflexivity.
      - discriminate. }
    rewrite (IH _ (Hrest _ E) H). exact E.
Qed.

Theorem double_parse_same_box evs st1 st2 :
  run_events QA (init_state QA) evs = Ok st1 -> run_events QA st1 evs = Ok st2 ->
  box st2 = box st1.
Proof.
  intros H1 H2. apply (rerun_same_box evs); [|exact H2].
  intros h x y z q r Hi. exact (minmax_contains_all _ _ _ H1 h x y z q r Hi).
Qed.

(* composition: every atom sphere (radius >= 0) lies in the fine and the coarse box *)
Theorem spheres_in_boxes (p : params (A:=Q)) (evs : list (event (A:=Q))) (st : pstate (A:=Q)) (sz : sizing (A:=Q)) :
  1 <= p_cfac p -> 0 <= p_fadd p ->
  run_events QA (init_state QA) evs = Ok st -> set_all QA p st = Ok sz ->
  forall h x y z q r, In (EvAtom h (x, y, z, q, r)) evs -> 0 <= r ->
  forall i,
    let c := ax i (s_center sz) in
    let pos := ax i (x, y, z) in
    (c - ax i (s_fine sz) / 2 <= pos - r /\ pos + r <= c + ax i (s_fine sz) / 2) /\
    (c - ax i (s_coarse sz) / 2 <= pos - r /\ pos + r <= c + ax i (s_coarse sz) / 2).
Proof.
  intros Hc Hf Hrun Hset h x y z q r Hin Hr i. cbv zeta.
  destruct (set_all_fields _ _ _ _ Hset) as (mn & mx & Eb & _ & Eco & Efi & Ece & _).
  destruct (minmax_contains_all _ _ _ Hrun h x y z q r Hin) as (mn' & mx' & Eb' & Hm).
  rewrite Eb in Eb'. injection Eb' as <- <-.
  rewrite Eco, Efi, Ece.
  destruct (boxes_contain p mn mx i Hc Hf) as [[F1 F2] [C1 C2]].
  destruct (Hm i) as [M1 M2].
  repeat split; lra.
Qed.

(* ---- set_smallest terminates ----------------------------------------------- *)

(* the entry is (a python number equal to) 32k+1 with k >= 0 *)
Definition rep (n : pynum (A:=Q)) (k : Z) : Prop :=
  toA QA n == inject_Z (32 * k + 1) /\ (0 <= k)%Z.

Lemma reduce_eq (n : Q) : reduce QA n == n - 32.
Proof.
  unfold reduce, one. cbn [add sub mul div ofZ QA]. rewrite !Qred_correct. qconst. field.
Qed.

Lemma rep_reduce (v : Q) (k : Z) :
  v == inject_Z (32 * k + 1) -> (0 <= k)%Z ->
  (leb QA (reduce QA v) (zero QA) = true /\ k = 0%Z) \/
  (leb QA (reduce QA v) (zero QA) = false /\ rep (PFloat (reduce QA v)) (k - 1)).
Proof.
  intros Hv Hk. unfold leb, zero. cbn [ltb ofZ QA].
  assert (E : reduce QA v == inject_Z (32 * (k - 1) + 1)).
  { rewrite reduce_eq, Hv. rewrite !inject_Z_plus, !inject_Z_mult.
    change (inject_Z (k - 1)) with (inject_Z (k + -1)). rewrite inject_Z_plus.
    change (inject_Z 32) with (32 # 1). change (inject_Z 1) with (1 # 1).
    change (inject_Z (-1)) with (-1 # 1). lra. }
  destruct (Qltb (inject_Z 0) (reduce QA v)) eqn:L; cbn [negb].
  - right. split; [reflexivity|]. apply Qltb_lt in L. rewrite E in L.
    rewrite <- Zlt_Qlt in L. split; [exact E | lia].
  - left. split; [reflexivity|]. apply Qltb_ge in L. rewrite E in L.
    rewrite <- Zle_Qle in L. lia.
Qed.

Ltac conj_fin :=
  repeat match goal with |- _ /\ _ => split end;
  try assumption; try (split; assumption); try lia.

Lemma shrink_spec (a b c : pynum (A:=Q)) (ka kb kc : Z) :
  rep a ka -> rep b kb -> rep c kc ->
  match shrink QA (a, b, c) with
  | Err e => e = ErrCeiling
  | Ok (a', b', c') =>
      exists ka' kb' kc', rep a' ka' /\ rep b' kb' /\ rep c' kc' /\
        (ka' <= ka /\ kb' <= kb /\ kc' <= kc /\ ka' + kb' + kc' = ka + kb + kc - 1)%Z
  end.
Proof.
  intros [Ha Pa] [Hb Pb] [Hc Pc]. unfold shrink.
  destruct (eqbA QA (toA QA a) _).
  - destruct (rep_reduce _ _ Ha Pa) as [[-> _] | [-> R]]; [reflexivity|].
    exists (ka - 1)%Z, kb, kc. conj_fin.
  - destruct (eqbA QA (toA QA b) _).
    + destruct (rep_reduce _ _ Hb Pb) as [[-> _] | [-> R]]; [reflexivity|].
      exists ka, (kb - 1)%Z, kc. conj_fin.
    + destruct (rep_reduce _ _ Hc Pc) as [[-> _] | [-> R]]; [reflexivity|].
      exists ka, kb, (kc - 1)%Z. conj_fin.
Qed.

Lemma smallest_spec (fuel : nat) (ceil : Q) (a b c : pynum (A:=Q)) (ka kb kc : Z) :
  rep a ka -> rep b kb -> rep c kc ->
  (Z.to_nat (ka + kb + kc) < fuel)%nat ->
  match smallest QA fuel ceil (a, b, c) with
  | Err e => e = ErrCeiling
  | Ok (a', b', c') =>
      (exists ka' kb' kc', rep a' ka' /\ rep b' kb' /\ rep c' kc' /\
         (ka' <= ka /\ kb' <= kb /\ kc' <= kc)%Z) /\
      mem_mb QA (a', b', c') < ceil
  end.
Proof.
  revert a b c ka kb kc; induction fuel as [|f IH]; intros a b c ka kb kc Ra Rb Rc Hf; [lia|].
  cbn [smallest]. destruct (ltb Q QA (mem_mb QA (a, b, c)) ceil) eqn:Em.
  - split; [exists ka, kb, kc; conj_fin|].
    apply Qltb_lt. exact Em.
  - pose proof (shrink_spec a b c ka kb kc Ra Rb Rc) as Hs.
    destruct (shrink QA (a, b, c)) as [[[a' b'] c']|e]; cbn [bind]; [|exact Hs].
    destruct Hs as (ka' & kb' & kc' & Ra' & Rb' & Rc' & La & Lb & Lc & Hsum).
    assert (Hf' : (Z.to_nat (ka' + kb' + kc') < f)%nat).
    { destruct Ra as [_ ?], Rb as [_ ?], Rc as [_ ?], Ra' as [_ ?], Rb' as [_ ?], Rc' as [_ ?]. lia. }
    pose proof (IH a' b' c' ka' kb' kc' Ra' Rb' Rc' Hf') as H.
    destruct (smallest QA f ceil (a', b', c')) as [[[a2 b2] c2]|e]; [|exact H].
    destruct H as [(k1 & k2 & k3 & R1 & R2 & R3 & L1 & L2 & L3) Hm].
    split; [|exact Hm]. exists k1, k2, k3. conj_fin.
Qed.

Lemma grid_ok_rep (n : Z) : grid_ok n -> rep (PInt n) ((n - 1) / 32).
Proof.
  intros [(k & -> & Hk) _]. replace ((32 * k + 1 - 1) / 32)%Z with k.
  - split; [reflexivity | lia].
  - replace (32 * k + 1 - 1)%Z with (k * 32)%Z by lia. now rewrite Z.div_mul.
Qed.

(* the loop ends within the fuel computed from ngrid; the only exception is the
   code's own ValueError; the result entries are 32k+1, not above ngrid, and fit *)
Theorem smallest_terminates (p : params (A:=Q)) (mn mx : vec3 Q) :
  let ng := ngrid_of QA p mn mx in
  match smallest QA (smallest_fuel ng) (p_gmemceil p) (map3 PInt ng) with
  | Err e => e = ErrCeiling
  | Ok ns =>
      (forall i, exists k : Z, (0 <= k)%Z /\ toA QA (ax i ns) == inject_Z (32 * k + 1) /\
                               (32 * k + 1 <= ax i ng)%Z) /\
      mem_mb QA ns < p_gmemceil p
  end.
Proof.
  cbv zeta. pose proof (ngrid_of_ok QA p mn mx) as Hok.
  destruct (ngrid_of QA p mn mx) as [[a b] c].
  pose proof (Hok AX) as Ha. pose proof (Hok AY) as Hb. pose proof (Hok AZ) as Hc. cbn [ax] in Ha, Hb, Hc.
  cbn [map3 smallest_fuel].
  pose proof (smallest_spec (S (S (Z.to_nat ((a - 1) / 32 + (b - 1) / 32 + (c - 1) / 32))))
                (p_gmemceil p) _ _ _ _ _ _ (grid_ok_rep _ Ha) (grid_ok_rep _ Hb) (grid_ok_rep _ Hc)) as H.
  specialize (H ltac:(lia)).
  destruct (smallest QA _ _ _) as [[[a' b'] c']|e]; [|exact H].
  destruct H as [(k1 & k2 & k3 & [R1 P1] & [R2 P2] & [R3 P3] & L1 & L2 & L3) Hm].
  split; [|exact Hm].
  destruct Ha as [(ja & Ea & _) _], Hb as [(jb & Eb & _) _], Hc as [(jc & Ec & _) _].
  assert (Da : ((a - 1) / 32 = ja)%Z) by (subst a; replace (32 * ja + 1 - 1)%Z with (ja * 32)%Z by lia; apply Z.div_mul; lia).
  assert (Db : ((b - 1) / 32 = jb)%Z) by (subst b; replace (32 * jb + 1 - 1)%Z with (jb * 32)%Z by lia; apply Z.div_mul; lia).
  assert (Dc : ((c - 1) / 32 = jc)%Z) by (subst c; replace (32 * jc + 1 - 1)%Z with (jc * 32)%Z by lia; apply Z.div_mul; lia).
  intros [| |]; cbn [ax]; [exists k1 | exists k2 | exists k3]; repeat split; try assumption; lia.
Qed.

(* ---- memory figures ---------------------------------------------------------- *)

Lemma mem_mb_ints (a b c : Z) :
  mem_mb QA (PInt a, PInt b, PInt c) == 200 * inject_Z (a * b * c) / 1024 / 1024.
Proof.
  unfold mem_mb. cbn [toA add sub mul div ofZ QA]. rewrite !Qred_correct.
  rewrite !inject_Z_mult. qconst. field.
Qed.

(* parallel solve needed => Psize.__str__ raises (':d' applied to a float) *)
Theorem report_parallel_raises (p : params (A:=Q)) (st : pstate (A:=Q)) (sz : sizing (A:=Q)) :
  set_all QA p st = Ok sz -> (0 < gotatom st)%Z ->
  p_gmemceil p < mem_mb QA (map3 PInt (s_ngrid sz)) ->
  report QA p st sz = Err ErrFmtD.
Proof.
  intros Hset Hg Hm.
  destruct (set_all_fields _ _ _ _ Hset) as (mn & mx & _ & _ & _ & _ & _ & En & Es & _).
  apply report_fmt_conflict.
  - rewrite <- En in Es. apply (smallest_first_float QA) in Es; [exact Es|].
    cbn [ltb QA]. apply Qltb_ge. lra.
  - apply Z.ltb_lt. exact Hg.
  - unfold gtb. cbn [ltb QA]. apply Qltb_lt. exact Hm.
Qed.

(* the figure that is reported is the formula for the grid it is reported with,
   and that grid is ngrid (the sequential branch is the only one that prints) *)
Theorem mem_estimate (p : params (A:=Q)) (st : pstate (A:=Q)) (sz : sizing (A:=Q)) (m : mem_report (A:=Q)) :
  set_all QA p st = Ok sz -> report QA p st sz = Ok (Some m) ->
  r_parallel m = false /\ r_grid m = map3 PInt (s_ngrid sz) /\
  let '(nx, ny, nz) := s_ngrid sz in
  r_est_mb m == 200 * inject_Z (nx * ny * nz) / 1024 / 1024 /\
  r_per_proc_mb m == 200 * inject_Z (nx * ny * nz) / 1024 / 1024 /\
  r_est_mb m <= p_gmemceil p.
Proof.
  intros Hset Hr.
  destruct (report_figures QA p st sz m Hr) as (E1 & E2 & E3 & E4).
  assert (Hg : (0 < gotatom st)%Z).
  { unfold report in Hr. destruct (0 <? gotatom st)%Z eqn:E; [now apply Z.ltb_lt | discriminate]. }
  destruct (r_parallel m) eqn:Ep.
  - symmetry in E4. unfold gtb in E4. cbn [ltb QA] in E4. apply Qltb_lt in E4.
    rewrite (report_parallel_raises p st sz Hset Hg E4) in Hr. discriminate.
  - split; [reflexivity|]. split; [exact E3|].
    symmetry in E4. unfold gtb in E4. cbn [ltb QA] in E4. apply Qltb_ge in E4.
    rewrite E1, E2, E3. destruct (s_ngrid sz) as [[nx ny] nz]. cbn [map3] in *.
    rewrite (mem_mb_ints nx ny nz) in *. repeat split; try reflexivity. exact E4.
Qed.

(* sequential case: the report is produced *)
Theorem report_sequential_ok (p : params (A:=Q)) (st : pstate (A:=Q)) (sz : sizing (A:=Q)) :
  (0 < gotatom st)%Z -> mem_mb QA (map3 PInt (s_ngrid sz)) <= p_gmemceil p ->
  exists m, report QA p st sz = Ok (Some m).
Proof.
  intros Hg Hm. unfold report. apply Z.ltb_lt in Hg. rewrite Hg.
  unfold gtb. cbn [ltb QA]. apply Qltb_ge in Hm. rewrite Hm. eexists. reflexivity.
Qed.

(* ---- whole-line statement for separated fields, and the glued-field witness -- *)

Local Open Scope string_scope.

Lemma prefix_of_app (p s r : string) :
  (String.length p <= String.length s)%nat -> prefix_of p (s ++ r) = prefix_of p s.
Proof.
  revert s; induction p as [|a p IH]; intros s Hl; [reflexivity|].
  destruct s as [|b s]; cbn [String.length] in Hl; [lia|].
  cbn [append prefix_of]. rewrite IH by lia. reflexivity.
Qed.

Theorem parse_line_separated {A : Type} (pfloat : string -> option A)
  (head : string) (a0 a1 a2 a3 a4 : nat) (t0 t1 t2 t3 t4 trail : string) (x y z q r : A) :
  String.length head = 30%nat -> is_coord_line head = true ->
  clean_tok t0 = true -> clean_tok t1 = true -> clean_tok t2 = true ->
  clean_tok t3 = true -> clean_tok t4 = true ->
  ((1 <= a1)%nat \/ starts_dash t1 = true) -> ((1 <= a2)%nat \/ starts_dash t2 = true) ->
  ((1 <= a3)%nat \/ starts_dash t3 = true) -> ((1 <= a4)%nat \/ starts_dash t4 = true) ->
  all_chars is_ws trail = true ->
  pfloat t0 = Some x -> pfloat t1 = Some y -> pfloat t2 = Some z ->
  pfloat t3 = Some q -> pfloat t4 = Some r ->
  parse_line pfloat
    (head ++ repeat_char sp a0 ++ t0 ++ repeat_char sp a1 ++ t1 ++ repeat_char sp a2 ++ t2 ++
     repeat_char sp a3 ++ t3 ++ repeat_char sp a4 ++ t4 ++ trail)
  = EvAtom (negb (prefix_of "ATOM" head)) (x, y, z, q, r).
Proof.
  intros Hh Hc C0 C1 C2 C3 C4 S1 S2 S3 S4 Ht P0 P1 P2 P3 P4.
  unfold parse_line.
  rewrite (words_separated head a0 a1 a2 a3 a4 t0 t1 t2 t3 t4 trail Hh C0 C1 C2 C3 C4 S1 S2 S3 S4 Ht).
  rewrite !prefix_of_app by (rewrite Hh; cbn; lia).
  unfold is_coord_line in Hc. rewrite Hc. rewrite P0, P1, P2, P3, P4. reflexivity.
Qed.

(* Full statement (fails): every atom line written in the fixed-column layout of
   Atom.get_pqr_string is measured.  Witness: y = 1000.000 fills its 8 columns,
   so x and y are one word, only 4 words remain, and the atom is counted but
   silently not measured - whatever float() does. *)
Theorem fixed_columns_refuted :
  exists head xs ys zs qs rs : string,
    String.length head = 30%nat /\ prefix_of "ATOM" head = true /\
    clean_tok (strip xs) = true /\ clean_tok (strip ys) = true /\ clean_tok (strip zs) = true /\
    clean_tok qs = true /\ clean_tok rs = true /\
    String.length xs = 8%nat /\ String.length ys = 8%nat /\ String.length zs = 8%nat /\
    forall (A : Type) (pfloat : string -> option A),
      parse_line pfloat (head ++ pqr_tail xs ys zs qs rs) = EvCount false.
Proof.
  exists "ATOM      2  CA  ALA     2    ", "  12.345", "1000.000", "   5.000", "0.1000", "1.5000".
  repeat split.
Qed.

Local Close Scope string_scope.

(* Full statement (fails): for every structure Psize.__str__ reports a memory
   figure.  Witness: two atoms 100 A apart need a parallel solve. *)
Theorem report_parallel_refuted :
  exists (p : params (A:=Q)) (evs : list (event (A:=Q))) (st : pstate (A:=Q)) (sz : sizing (A:=Q)),
    run_events QA (init_state QA) evs = Ok st /\ set_all QA p st = Ok sz /\
    (0 < gotatom st)%Z /\ report QA p st sz = Err ErrFmtD.
Proof.
  pose (p := mkP (17 # 10) 20 (1 # 2) 200 400 (1 # 10) (1 # 4)).
  pose (evs := [EvAtom false (0, 0, 0, 1 # 10, 3 # 2); EvAtom false (100, 100, 100, 1 # 10, 3 # 2)] : list (event (A:=Q))).
  destruct (run_events QA (init_state QA) evs) as [st|] eqn:E1; [|vm_compute in E1; discriminate].
  destruct (set_all QA p st) as [sz|] eqn:E2.
  - exists p, evs, st, sz. split; [exact E1|]. split; [exact E2|].
    vm_compute in E1. injection E1 as <-. vm_compute in E2. injection E2 as <-.
    split; [reflexivity | vm_compute; reflexivity].
  - vm_compute in E1. injection E1 as <-. vm_compute in E2. discriminate.
Qed.

(* non-vacuity: a concrete run where every hypothesis used above holds and the
   results are the ones the real code prints (33^3 grid, sequential, 6.854 MB) *)
Example nonvacuous :
  let p := mkP (17 # 10) 20 (1 # 2) 200 400 (1 # 10) (1 # 4) in
  let evs := [EvAtom false (0, 0, 0, 1 # 10, 3 # 2); EvCount false; EvSkip;
              EvAtom true (10, 10, 10, 1 # 10, 3 # 2)] : list (event (A:=Q)) in
  exists st sz m,
    run_events QA (init_state QA) evs = Ok st /\ set_all QA p st = Ok sz /\
    report QA p st sz = Ok (Some m) /\
    1 <= p_cfac p /\ 0 <= p_fadd p /\
    gotatom st = 2%Z /\ gothet st = 1%Z /\
    box st = Some ((-3 # 2, -3 # 2, -3 # 2), (23 # 2, 23 # 2, 23 # 2)) /\
    s_ngrid sz = (33, 33, 33)%Z /\ s_center sz = (5, 5, 5) /\
    s_fine sz = (221 # 10, 221 # 10, 221 # 10) /\ s_coarse sz = (221 # 10, 221 # 10, 221 # 10) /\
    s_nfocus sz = 2%Z /\ r_est_mb m = 898425 # 131072.
Proof.
  cbv zeta. eexists _, _, _.
  split; [vm_compute; reflexivity|]. split; [vm_compute; reflexivity|].
  split; [vm_compute; reflexivity|]. vm_compute. intuition discriminate.
Qed.

(* ---- set_smallest does not raise unless the ceiling is below one grid point ---- *)

Lemma eqbA_true (x m : Q) : eqbA QA x m = true -> x == m.
Proof.
  unfold eqbA. cbn [ltb QA]. intros H. apply andb_true_iff in H as [H1 H2].
  apply negb_true_iff in H1, H2. apply Qltb_ge in H1, H2. lra.
Qed.

Lemma eqbA_false (x m : Q) : eqbA QA x m = false -> ~ x == m.
Proof.
  unfold eqbA. cbn [ltb QA]. intros H E. apply andb_false_iff in H as [H|H];
  apply negb_false_iff, Qltb_lt in H; lra.
Qed.

Lemma pmax_spec (a b : Q) : a <= pmax QA a b /\ b <= pmax QA a b /\ (pmax QA a b = a \/ pmax QA a b = b).
Proof. unfold pmax. cbn [ltb QA]. destruct (Qltb a b) eqn:E; [apply Qltb_lt in E | apply Qltb_ge in E]; repeat split; try lra; auto. Qed.

Lemma rep_ge1 n k : rep n k -> 1 <= toA QA n.
Proof.
  intros [H Hk]. rewrite H. change 1 with (inject_Z 1). rewrite <- Zle_Qle. lia.
Qed.

Lemma rep_le1 n k : rep n k -> toA QA n <= 1 -> k = 0%Z.
Proof.
  intros [H Hk] L. rewrite H in L. change 1 with (inject_Z 1) in L. rewrite <- Zle_Qle in L. lia.
Qed.

Lemma rep0_one n : rep n 0 -> toA QA n == 1.
Proof. intros [H _]. rewrite H. reflexivity. Qed.

Lemma mem_mb_prod (a b c : pynum (A:=Q)) :
  mem_mb QA (a, b, c) == 200 * toA QA a * toA QA b * toA QA c / 1024 / 1024.
Proof. unfold mem_mb. cbn [add sub mul div ofZ QA]. rewrite !Qred_correct. reflexivity. Qed.

Definition mem_floor : Q := 200 / 1024 / 1024.

Lemma shrink_ok (a b c : pynum (A:=Q)) (ka kb kc : Z) :
  rep a ka -> rep b kb -> rep c kc ->
  mem_floor < mem_mb QA (a, b, c) ->
  exists n', shrink QA (a, b, c) = Ok n'.
Proof.
  intros Ra Rb Rc Hm.
  assert (Hall : ~ (ka = 0 /\ kb = 0 /\ kc = 0)%Z).
  { intros (-> & -> & ->). rewrite mem_mb_prod in Hm.
    rewrite (rep0_one _ Ra), (rep0_one _ Rb), (rep0_one _ Rc) in Hm. unfold mem_floor in Hm. qconst. lra. }
  pose proof (rep_ge1 _ _ Ra) as Ga. pose proof (rep_ge1 _ _ Rb) as Gb. pose proof (rep_ge1 _ _ Rc) as Gc.
  unfold shrink.
  set (m := pmax QA (pmax QA (toA QA a) (toA QA b)) (toA QA c)).
  destruct (pmax_spec (toA QA a) (toA QA b)) as (M1 & M2 & M3).
  destruct (pmax_spec (pmax QA (toA QA a) (toA QA b)) (toA QA c)) as (M4 & M5 & M6).
  fold m in M4, M5, M6.
  destruct (eqbA QA (toA QA a) m) eqn:Ea.
  - apply eqbA_true in Ea. destruct Ra as [Ha Pa].
    destruct (rep_reduce _ _ Ha Pa) as [[-> K] | [-> _]]; [|eexists; reflexivity].
    exfalso. apply Hall. subst ka.
    assert (toA QA a == 1) by (rewrite Ha; reflexivity).
    split; [reflexivity|]. split; [apply (rep_le1 _ _ Rb) | apply (rep_le1 _ _ Rc)]; lra.
  - apply eqbA_false in Ea. destruct (eqbA QA (toA QA b) m) eqn:Eb.
    + apply eqbA_true in Eb. destruct Rb as [Hb Pb].
      destruct (rep_reduce _ _ Hb Pb) as [[-> K] | [-> _]]; [|eexists; reflexivity].
      exfalso. apply Hall. subst kb.
      assert (toA QA b == 1) by (rewrite Hb; reflexivity).
      split; [apply (rep_le1 _ _ Ra); lra|]. split; [reflexivity | apply (rep_le1 _ _ Rc); lra].
    + apply eqbA_false in Eb.
      assert (Ec : toA QA c == m).
      { destruct M6 as [E|E]; [|rewrite E; reflexivity].
        exfalso. destruct M3 as [E3|E3]; rewrite E3 in E; [apply Ea | apply Eb]; rewrite E; reflexivity. }
      destruct Rc as [Hc Pc].
      destruct (rep_reduce _ _ Hc Pc) as [[-> K] | [-> _]]; [|eexists; reflexivity].
      exfalso. apply Hall. subst kc.
      assert (toA QA c == 1) by (rewrite Hc; reflexivity).
      split; [apply (rep_le1 _ _ Ra); lra|]. split; [apply (rep_le1 _ _ Rb); lra | reflexivity].
Qed.

Lemma smallest_ok (fuel : nat) (ceil : Q) (a b c : pynum (A:=Q)) (ka kb kc : Z) :
  rep a ka -> rep b kb -> rep c kc ->
  (Z.to_nat (ka + kb + kc) < fuel)%nat -> mem_floor < ceil ->
  exists n', smallest QA fuel ceil (a, b, c) = Ok n'.
Proof.
  revert a b c ka kb kc; induction fuel as [|f IH]; intros a b c ka kb kc Ra Rb Rc Hf Hc; [lia|].
  cbn [smallest]. destruct (ltb Q QA (mem_mb QA (a, b, c)) ceil) eqn:Em; [eexists; reflexivity|].
  cbn [ltb QA] in Em. apply Qltb_ge in Em.
  destruct (shrink_ok a b c ka kb kc Ra Rb Rc ltac:(lra)) as [[[a' b'] c'] Es].
  pose proof (shrink_spec a b c ka kb kc Ra Rb Rc) as Hs. rewrite Es in Hs. rewrite Es. cbn [bind].
  destruct Hs as (ka' & kb' & kc' & Ra' & Rb' & Rc' & La & Lb & Lc & Hsum).
  apply (IH a' b' c' ka' kb' kc' Ra' Rb' Rc'); [|exact Hc].
  destruct Ra as [_ ?], Rb as [_ ?], Rc as [_ ?], Ra' as [_ ?], Rb' as [_ ?], Rc' as [_ ?]. lia.
Qed.

(* with a ceiling above the size of a 1x1x1 grid, set_smallest never raises *)
Theorem smallest_succeeds (p : params (A:=Q)) (mn mx : vec3 Q) :
  200 / 1024 / 1024 < p_gmemceil p ->
  let ng := ngrid_of QA p mn mx in
  exists ns, smallest QA (smallest_fuel ng) (p_gmemceil p) (map3 PInt ng) = Ok ns.
Proof.
  intros Hc. cbv zeta. pose proof (ngrid_of_ok QA p mn mx) as Hok.
  destruct (ngrid_of QA p mn mx) as [[a b] c].
  pose proof (Hok AX) as Ha. pose proof (Hok AY) as Hb. pose proof (Hok AZ) as Hcc. cbn [ax] in Ha, Hb, Hcc.
  cbn [map3 smallest_fuel].
  apply (smallest_ok _ _ _ _ _ _ _ _ (grid_ok_rep _ Ha) (grid_ok_rep _ Hb) (grid_ok_rep _ Hcc)); [lia | exact Hc].
Qed.
