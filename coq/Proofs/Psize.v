(* Proofs about Model/Psize.v (C17). *)
From Coq Require Import String Ascii List ZArith QArith Bool Lia Lqa.
From PV Require Import Lib.Strings Lib.Decimal Model.Psize.
Import ListNotations.

(* ---- axes of a triple ---------------------------------------------------- *)

Inductive axis := AX | AY | AZ.
Definition ax {T : Type} (i : axis) (v : vec3 T) : T :=
  let '(a, b, c) := v in match i with AX => a | AY => b | AZ => c end.

Lemma ax_map3 {T U : Type} (f : T -> U) i v : ax i (map3 f v) = f (ax i v).
Proof. destruct v as [[a b] c], i; reflexivity. Qed.
Lemma ax_zip3 {T U V : Type} (f : T -> U -> V) i v w : ax i (zip3 f v w) = f (ax i v) (ax i w).
Proof. destruct v as [[a b] c], w as [[d e] g], i; reflexivity. Qed.

(* ========================================================================== *)
(* Part 1: facts that hold for every arithmetic (floats included)             *)
(* ========================================================================== *)

Section GenericProofs.
  Context {A : Type} (ops : Arith A).

  (* ---- grid form: pure Z reasoning about max(32*k+1, 33) ----------------- *)

  Definition grid_ok (n : Z) : Prop := (exists k : Z, n = 32 * k + 1 /\ 1 <= k)%Z /\ (33 <= n)%Z.

  Lemma ngrid_of_temp_ok (t : Z) : grid_ok (ngrid_of_temp ops t).
  Proof.
    unfold ngrid_of_temp.
    set (k := trunc A ops _).
    destruct (Z.max_spec (32 * k + 1) 33) as [[H1 H2] | [H1 H2]]; rewrite H2; split; try lia.
    - exists 1%Z; lia.
    - exists k; lia.
  Qed.

  Lemma ngrid_of_ok (p : params) (mn mx : vec3 A) (i : axis) : grid_ok (ax i (ngrid_of ops p mn mx)).
  Proof. unfold ngrid_of. rewrite ax_map3. apply ngrid_of_temp_ok. Qed.

  (* what set_all returns when it returns *)
  Lemma set_all_fields (p : params) (st : pstate) (sz : sizing) :
    set_all ops p st = Ok sz ->
    exists mn mx,
      box st = Some (mn, mx) /\
      s_mol sz = mol_of ops mn mx /\ s_coarse sz = coarse_of ops p mn mx /\
      s_fine sz = fine_of ops p mn mx /\ s_center sz = center_of ops mn mx /\
      s_ngrid sz = ngrid_of ops p mn mx /\
      smallest ops (smallest_fuel (ngrid_of ops p mn mx)) (p_gmemceil p)
               (ngrid_of ops p mn mx) = Ok (s_nsmall sz) /\
      s_nproc sz = zip3 (nproc1 ops (p_ofrac p)) (ngrid_of ops p mn mx) (s_nsmall sz).
  Proof.
    unfold set_all. destruct (box st) as [[mn mx]|]; [|discriminate].
    destruct (eqbA ops (p_space p) (zero ops)); [discriminate|].
    destruct (smallest ops _ _ _) as [ns|e] eqn:Es; [|discriminate].
    cbn [bind].
    destruct (fine_of ops p mn mx) as [[f0 f1] f2] eqn:Ef.
    destruct (zip3 (nproc1 ops (p_ofrac p)) (ngrid_of ops p mn mx) ns) as [[n0 n1] n2] eqn:En.
    destruct (coarse_of ops p mn mx) as [[c0 c1] c2] eqn:Ec.
    destruct (nfoc1 ops (p_redfac p) f0 n0 c0); [|discriminate].
    destruct (nfoc1 ops (p_redfac p) f1 n1 c1); [|discriminate].
    destruct (nfoc1 ops (p_redfac p) f2 n2 c2); [|discriminate].
    cbn [bind]. intros H. injection H as H. subst sz. cbn.
    exists mn, mx. rewrite ?Ef, ?Ec, ?En. repeat split; try reflexivity. exact Es.
  Qed.

  Theorem grid_form (p : params) (st : pstate) (sz : sizing) :
    set_all ops p st = Ok sz -> forall i, grid_ok (ax i (s_ngrid sz)).
  Proof.
    intros H i. destruct (set_all_fields _ _ _ H) as (mn & mx & _ & _ & _ & _ & _ & Hn & _).
    rewrite Hn. apply ngrid_of_ok.
  Qed.

  (* ---- header / comment lines ------------------------------------------- *)

  Variable pfloat : string -> option A.

  Definition is_coord_line (l : string) : bool := prefix_of "ATOM" l || prefix_of "HETATM" l.

  Lemma parse_line_skip (h : string) :
    is_coord_line h = false -> parse_line pfloat h = EvSkip.
  Proof. unfold is_coord_line, parse_line. intros ->. reflexivity. Qed.

  Lemma run_events_app (st : pstate) (a b : list event) :
    run_events ops st (a ++ b) = bind (run_events ops st a) (fun st' => run_events ops st' b).
  Proof.
    revert st; induction a as [|e a IH]; intros st; cbn [run_events app bind]; [reflexivity|].
    destruct (step ops st e) as [st'|]; cbn [bind]; [apply IH | reflexivity].
  Qed.

  Theorem header_insert (st : pstate) (l1 l2 : list string) (h : string) :
    is_coord_line h = false ->
    parse_lines ops pfloat st (l1 ++ h :: l2) = parse_lines ops pfloat st (l1 ++ l2).
  Proof.
    intros Hh. unfold parse_lines. rewrite !map_app, !run_events_app. cbn [map].
    rewrite (parse_line_skip _ Hh).
    destruct (run_events ops st (map (parse_line pfloat) l1)); reflexivity.
  Qed.

  Theorem header_filter (st : pstate) (lines : list string) :
    parse_lines ops pfloat st (filter is_coord_line lines) = parse_lines ops pfloat st lines.
  Proof.
    unfold parse_lines. revert st; induction lines as [|l r IH]; intros st; [reflexivity|].
    cbn [filter]. destruct (is_coord_line l) eqn:E.
    - cbn [map run_events]. destruct (step ops st _); cbn [bind]; [apply IH | reflexivity].
    - cbn [map run_events]. rewrite (parse_line_skip _ E). cbn [step bind]. apply IH.
  Qed.

  Corollary header_insert_run (p : params) (l1 l2 : list string) (h : string) :
    is_coord_line h = false ->
    run_psize ops pfloat p (l1 ++ h :: l2) = run_psize ops pfloat p (l1 ++ l2) /\
    run_dump_apbs ops pfloat p (l1 ++ h :: l2) = run_dump_apbs ops pfloat p (l1 ++ l2).
  Proof.
    intros Hh. unfold run_psize, run_dump_apbs. rewrite (header_insert _ l1 l2 h Hh).
    split; [reflexivity|].
    destruct (parse_lines ops pfloat (init_state ops) (l1 ++ l2)) as [st1|]; cbn [bind]; [|reflexivity].
    rewrite (header_insert _ l1 l2 h Hh). reflexivity.
  Qed.

  (* ---- the memory report ------------------------------------------------- *)

  (* whenever a report is produced, its figures are the formula applied to the
     grid it names, and that grid is ngrid (sequential) or nsmall (parallel) *)
  Lemma report_figures (p : params) (st : pstate) (sz : sizing) (m : mem_report) :
    report ops p st sz = Ok (Some m) ->
    r_est_mb m = mem_mb ops (r_grid m) /\ r_per_proc_mb m = mem_mb ops (r_grid m) /\
    r_grid m = (if r_parallel m then s_nsmall sz else s_ngrid sz) /\
    r_parallel m = gtb ops (mem_mb ops (s_ngrid sz)) (p_gmemceil p).
  Proof.
    unfold report. destruct (0 <? gotatom st)%Z; [|discriminate].
    destruct (gtb ops _ _) eqn:Eg.
    - destruct (eqbA ops _ _); [discriminate|]. destruct (spacing_ok _); [|discriminate].
      intros H; injection H as <-. cbn. auto.
    - destruct (spacing_ok _); [|discriminate]. intros H; injection H as <-. cbn. auto.
  Qed.

End GenericProofs.

(* ---- string level: fields after column 30 ---------------------------------- *)

Local Open Scope string_scope.

Definition is_dash (c : ascii) : bool := Ascii.eqb c "-"%char.

(* a numeric word as the format specs produce it: non-empty, no blank, '-' only in front *)
Definition clean_tok (t : string) : bool :=
  match t with
  | EmptyString => false
  | String c r => negb (is_ws c) && negb (any_char is_ws r) && negb (any_char is_dash r)
  end.
Definition starts_dash (t : string) : bool :=
  match t with String c _ => is_dash c | EmptyString => false end.
(* what follows a word keeps it apart: end of line, a blank, or a minus sign *)
Definition sep_start (s : string) : bool :=
  match s with EmptyString => true | String c _ => is_ws c || is_dash c end.

Lemma dash_sp_app a b : dash_sp (a ++ b) = dash_sp a ++ dash_sp b.
Proof.
  induction a as [|c a IH]; cbn [dash_sp append]; [reflexivity|].
  destruct (Ascii.eqb c "-"); cbn [append]; now rewrite IH.
Qed.

Lemma dash_sp_nodash s : any_char is_dash s = false -> dash_sp s = s.
Proof.
  induction s as [|c s IH]; cbn [any_char dash_sp]; [reflexivity|].
  intros H. apply orb_false_iff in H as [Hc Hs]. unfold is_dash in Hc. rewrite Hc, (IH Hs). reflexivity.
Qed.

Lemma dash_sp_blanks n : dash_sp (repeat_char sp n) = repeat_char sp n.
Proof. induction n; cbn; [reflexivity | now rewrite IHn]. Qed.

Lemma tokens_blanks_prefix n s : tokens (repeat_char sp n ++ s) = tokens s.
Proof.
  induction n; cbn [repeat_char append]; [reflexivity|].
  rewrite tokens_ws_prefix by reflexivity. exact IHn.
Qed.

Lemma any_ws_false_single c r :
  is_ws c = false -> any_char is_ws r = false -> tokens (String c r) = [String c r].
Proof.
  intros Hc Hr. apply tokens_single; [cbn; now rewrite Hc, Hr | reflexivity].
Qed.

(* dash_sp of a separated remainder is empty or starts with a blank *)
Lemma dash_sp_sep rest :
  sep_start rest = true ->
  dash_sp rest = "" \/ exists w x, is_ws w = true /\ dash_sp rest = String w x.
Proof.
  destruct rest as [|c r]; [now left|]. cbn [sep_start dash_sp]. intros H. right.
  destruct (Ascii.eqb c "-") eqn:E.
  - exists " "%char. eexists. split; reflexivity.
  - unfold is_dash in H. rewrite E, orb_false_r in H. exists c. eexists. split; [exact H|reflexivity].
Qed.

Lemma tokens_dash_tok t : clean_tok t = true -> tokens (dash_sp t) = [t].
Proof.
  destruct t as [|c r]; [discriminate|]. cbn [clean_tok]. intros H.
  apply andb_true_iff in H as [H Hd]. apply andb_true_iff in H as [Hc Hw].
  apply negb_true_iff in Hd, Hc, Hw.
  cbn [dash_sp]. rewrite (dash_sp_nodash _ Hd).
  destruct (Ascii.eqb c "-") eqn:E.
  - rewrite tokens_ws_prefix by reflexivity.
    apply Ascii.eqb_eq in E. subst c. apply any_ws_false_single; [reflexivity | exact Hw].
  - apply any_ws_false_single; assumption.
Qed.

Lemma tokens_dash_field t rest :
  clean_tok t = true -> sep_start rest = true ->
  tokens (dash_sp (t ++ rest)) = t :: tokens (dash_sp rest).
Proof.
  intros Ht Hs. rewrite dash_sp_app.
  destruct (dash_sp_sep _ Hs) as [-> | (w & x & Hw & ->)].
  - rewrite app_empty_r. rewrite (tokens_dash_tok _ Ht). reflexivity.
  - rewrite (tokens_app_ws _ _ _ Hw), (tokens_dash_tok _ Ht), (tokens_ws_prefix _ _ Hw). reflexivity.
Qed.

Lemma tokens_dash_padded n t rest :
  clean_tok t = true -> sep_start rest = true ->
  tokens (dash_sp (repeat_char sp n ++ t ++ rest)) = t :: tokens (dash_sp rest).
Proof.
  intros Ht Hs. rewrite dash_sp_app, dash_sp_blanks, tokens_blanks_prefix.
  apply tokens_dash_field; assumption.
Qed.

Lemma sep_start_padded n t rest :
  (1 <= n)%nat \/ starts_dash t = true -> sep_start (repeat_char sp n ++ t ++ rest) = true.
Proof.
  intros [H | H].
  - destruct n; [lia|]. reflexivity.
  - destruct n; [|reflexivity]. cbn [repeat_char append].
    destruct t as [|c r]; [discriminate|]. cbn in *. rewrite H. apply orb_true_r.
Qed.

Lemma tokens_all_ws s : all_chars is_ws s = true -> tokens s = [].
Proof.
  induction s as [|c s IH]; [reflexivity|]. cbn [all_chars]. intros H.
  apply andb_true_iff in H as [Hc Hs]. rewrite (tokens_ws_prefix _ _ Hc). auto.
Qed.

Lemma all_ws_nodash s : all_chars is_ws s = true -> any_char is_dash s = false.
Proof.
  induction s as [|c s IH]; [reflexivity|]. cbn [all_chars any_char]. intros H.
  apply andb_true_iff in H as [Hc Hs]. rewrite (IH Hs), orb_false_r.
  unfold is_dash. destruct (Ascii.eqb c "-") eqn:E; [|reflexivity].
  apply Ascii.eqb_eq in E. subst c. discriminate.
Qed.

Lemma sep_start_all_ws s : all_chars is_ws s = true -> sep_start s = true.
Proof. destruct s as [|c s]; [reflexivity|]. cbn. intros H. apply andb_true_iff in H as [-> _]. reflexivity. Qed.

(* five separated fields after a 30-character head are read back exactly *)
Theorem words_separated (head : string) (a0 a1 a2 a3 a4 : nat) (t0 t1 t2 t3 t4 trail : string) :
  String.length head = 30%nat ->
  clean_tok t0 = true -> clean_tok t1 = true -> clean_tok t2 = true ->
  clean_tok t3 = true -> clean_tok t4 = true ->
  ((1 <= a1)%nat \/ starts_dash t1 = true) -> ((1 <= a2)%nat \/ starts_dash t2 = true) ->
  ((1 <= a3)%nat \/ starts_dash t3 = true) -> ((1 <= a4)%nat \/ starts_dash t4 = true) ->
  all_chars is_ws trail = true ->
  words_after30
    (head ++ repeat_char sp a0 ++ t0 ++ repeat_char sp a1 ++ t1 ++ repeat_char sp a2 ++ t2 ++
     repeat_char sp a3 ++ t3 ++ repeat_char sp a4 ++ t4 ++ trail)
  = [t0; t1; t2; t3; t4].
Proof.
  intros Hh C0 C1 C2 C3 C4 S1 S2 S3 S4 Ht. unfold words_after30.
  rewrite <- Hh, drop_app_exact.
  rewrite tokens_dash_padded; [|assumption|apply sep_start_padded; assumption].
  rewrite tokens_dash_padded; [|assumption|apply sep_start_padded; assumption].
  rewrite tokens_dash_padded; [|assumption|apply sep_start_padded; assumption].
  rewrite tokens_dash_padded; [|assumption|apply sep_start_padded; assumption].
  rewrite tokens_dash_padded; [|assumption|apply sep_start_all_ws; assumption].
  rewrite (dash_sp_nodash _ (all_ws_nodash _ Ht)), (tokens_all_ws _ Ht). reflexivity.
Qed.

(* ---- any spacing, including none: how many words split() finds ----------------- *)

(* a tail written as (blanks, word) pairs followed by trailing blanks *)
Fixpoint render (fs : list (nat * string)) (trail : string) : string :=
  match fs with
  | [] => trail
  | (g, t) :: r => repeat_char sp g ++ t ++ render r trail
  end.

Definition word_ok (t : string) : bool := negb (is_empty t) && negb (any_char is_ws t).

Lemma clean_word_ok t : clean_tok t = true -> word_ok t = true.
Proof.
  destruct t as [|c r]; [discriminate|]. cbn [clean_tok word_ok is_empty any_char negb andb].
  intros H. apply andb_true_iff in H as [H _]. apply andb_true_iff in H as [Hc Hw].
  apply negb_true_iff in Hc, Hw. now rewrite Hc, Hw.
Qed.

Lemma toks_noblank_app t s :
  any_char is_ws t = false -> toks (t ++ s) = (t ++ fst (toks s), snd (toks s)).
Proof.
  induction t as [|c t IH]; cbn [any_char append toks]; intros H.
  - destruct (toks s); reflexivity.
  - apply orb_false_iff in H as [Hc Ht]. rewrite (IH Ht), Hc. reflexivity.
Qed.

Lemma tokens_toks s : tokens s = cons_ne (fst (toks s)) (snd (toks s)).
Proof. unfold tokens. destruct (toks s); reflexivity. Qed.

Lemma tokens_word_app t s :
  word_ok t = true -> tokens (t ++ s) = (t ++ fst (toks s)) :: snd (toks s).
Proof.
  intros H. apply andb_true_iff in H as [Hne Hw]. apply negb_true_iff in Hne, Hw.
  rewrite tokens_toks, (toks_noblank_app _ _ Hw). cbn [fst snd]. unfold cons_ne.
  destruct t; [discriminate | reflexivity].
Qed.

(* split() never finds more words than were written, and finds as many only
   when it finds exactly the words that were written *)
Lemma tokens_render fs trail :
  all_chars is_ws trail = true ->
  Forall (fun f => word_ok (snd f) = true) fs ->
  (List.length (tokens (render fs trail)) <= List.length fs)%nat /\
  (List.length (tokens (render fs trail)) = List.length fs ->
   tokens (render fs trail) = map snd fs).
Proof.
  intros Ht Hf. induction fs as [|[g t] fs IH].
  - cbn [render List.length map]. rewrite (tokens_all_ws _ Ht). split; [cbn; lia | reflexivity].
  - inversion Hf as [|f0 fs0 Hw Hf']; subst. cbn [snd] in Hw. specialize (IH Hf'). clear Hf.
    induction g as [|g IHg].
    + cbn [render repeat_char append]. rewrite (tokens_word_app _ _ Hw).
      rewrite tokens_toks in IH. destruct IH as [IH1 IH2].
      destruct (fst (toks (render fs trail))) as [|c h'].
      * cbn [cons_ne is_empty] in IH1, IH2. rewrite app_empty_r. cbn [List.length map snd].
        split; [lia|]. intros E. f_equal. apply IH2. lia.
      * cbn [cons_ne is_empty List.length] in IH1, IH2. cbn [List.length map snd].
        split; [lia|]. intros E. lia.
    + cbn [render repeat_char append]. rewrite tokens_ws_prefix by reflexivity. exact IHg.
Qed.

(* replace("-", " -") only widens the gap before a word that starts with '-' *)
Definition dash_adj (f : nat * string) : nat * string :=
  (if starts_dash (snd f) then S (fst f) else fst f, snd f).

Lemma repeat_char_snoc c n s : repeat_char c n ++ String c s = repeat_char c (S n) ++ s.
Proof. induction n; cbn [repeat_char append]; [reflexivity | now rewrite IHn]. Qed.

Lemma dash_sp_clean t :
  clean_tok t = true -> dash_sp t = if starts_dash t then String sp t else t.
Proof.
  destruct t as [|c r]; [discriminate|]. cbn [clean_tok]. intros H.
  apply andb_true_iff in H as [_ Hd]. apply negb_true_iff in Hd.
  cbn [dash_sp starts_dash]. rewrite (dash_sp_nodash _ Hd). unfold is_dash.
  destruct (Ascii.eqb c "-") eqn:E; [|reflexivity].
  apply Ascii.eqb_eq in E. subst c. reflexivity.
Qed.

Lemma dash_sp_render fs trail :
  all_chars is_ws trail = true ->
  Forall (fun f => clean_tok (snd f) = true) fs ->
  dash_sp (render fs trail) = render (map dash_adj fs) trail.
Proof.
  intros Ht Hf. induction fs as [|[g t] fs IH].
  - cbn [render map]. apply dash_sp_nodash, all_ws_nodash, Ht.
  - inversion Hf as [|f0 fs0 Hc Hf']; subst. cbn [snd] in Hc.
    cbn [render map dash_adj fst snd]. rewrite !dash_sp_app, dash_sp_blanks, (dash_sp_clean _ Hc), (IH Hf').
    destruct (starts_dash t); [|reflexivity].
    cbn [append]. now rewrite repeat_char_snoc.
Qed.

Lemma map_snd_dash_adj fs : map snd (map dash_adj fs) = map snd fs.
Proof. induction fs as [|[g t] fs IH]; cbn; [reflexivity | now rewrite IH]. Qed.

(* the words python finds after column 30 in any such tail: at most as many as
   were written, and if as many, then exactly those *)
Lemma words_rendered (head : string) fs trail :
  String.length head = 30%nat -> all_chars is_ws trail = true ->
  Forall (fun f => clean_tok (snd f) = true) fs ->
  (List.length (words_after30 (head ++ render fs trail)) <= List.length fs)%nat /\
  (List.length (words_after30 (head ++ render fs trail)) = List.length fs ->
   words_after30 (head ++ render fs trail) = map snd fs).
Proof.
  intros Hh Ht Hf. unfold words_after30. rewrite <- Hh, drop_app_exact, (dash_sp_render _ _ Ht Hf).
  assert (Hw : Forall (fun f => word_ok (snd f) = true) (map dash_adj fs)).
  { clear -Hf. induction Hf as [|[g t] fs Hc Hf IH]; cbn [map]; constructor; [|exact IH].
    cbn [dash_adj snd]. apply clean_word_ok, Hc. }
  pose proof (tokens_render _ _ Ht Hw) as [H1 H2].
  rewrite map_length, map_snd_dash_adj in *. split; assumption.
Qed.

(* every word after the first kept apart: split() finds exactly the words written *)
Lemma toks_sep (R : string) :
  (R = "" \/ exists c r, R = String c r /\ is_ws c = true) -> toks R = ("", tokens R).
Proof.
  intros [-> | (c & r & -> & Hc)]; [reflexivity|].
  unfold tokens. cbn [toks]. destruct (toks r) as [h t]. rewrite Hc. reflexivity.
Qed.

Lemma all_ws_sep s :
  all_chars is_ws s = true -> s = "" \/ exists c r, s = String c r /\ is_ws c = true.
Proof.
  destruct s as [|c r]; [now left|]. cbn [all_chars]. intros H. apply andb_true_iff in H as [Hc _].
  right. exists c, r. split; [reflexivity | exact Hc].
Qed.

Lemma tokens_render_apart fs trail :
  all_chars is_ws trail = true ->
  Forall (fun f => word_ok (snd f) = true) fs ->
  Forall (fun f => (1 <= fst f)%nat) (tl fs) ->
  tokens (render fs trail) = map snd fs.
Proof.
  intros Ht Hf. induction fs as [|[g t] fs IH]; intros Ha.
  - cbn [render map]. apply tokens_all_ws, Ht.
  - inversion Hf as [|f0 fs0 Hw Hf']; subst. cbn [snd] in Hw. cbn [tl] in Ha.
    cbn [render map snd]. rewrite tokens_blanks_prefix, (tokens_word_app _ _ Hw).
    assert (Hs : toks (render fs trail) = ("", tokens (render fs trail))).
    { apply toks_sep. destruct fs as [|[g' t'] fs']; [apply all_ws_sep, Ht|].
      inversion Ha as [|f1 fs1 Hg Ha']; subst. cbn [fst] in Hg. cbn [render].
      destruct g' as [|g']; [lia|]. right. cbn [repeat_char append]. eexists _, _. split; reflexivity. }
    rewrite Hs. cbn [fst snd]. rewrite app_empty_r. f_equal. apply IH; [exact Hf'|].
    destruct fs as [|f fs']; [constructor|]. inversion Ha; assumption.
Qed.

Definition kept_apart (f : nat * string) : Prop := (1 <= fst f)%nat \/ starts_dash (snd f) = true.

Lemma words_rendered_apart (head : string) fs trail :
  String.length head = 30%nat -> all_chars is_ws trail = true ->
  Forall (fun f => clean_tok (snd f) = true) fs ->
  Forall kept_apart (tl fs) ->
  words_after30 (head ++ render fs trail) = map snd fs.
Proof.
  intros Hh Ht Hf Ha. unfold words_after30. rewrite <- Hh, drop_app_exact, (dash_sp_render _ _ Ht Hf).
  rewrite <- (map_snd_dash_adj fs). apply tokens_render_apart; [exact Ht| |].
  - clear -Hf. induction Hf as [|[g t] fs Hc Hf IH]; cbn [map]; constructor; [|exact IH].
    cbn [dash_adj snd]. apply clean_word_ok, Hc.
  - destruct fs as [|f fs]; [constructor|]. cbn [map tl] in *.
    clear -Ha. induction Ha as [|[g t] fs Hk Ha IH]; cbn [map]; constructor; [|exact IH].
    cbn [dash_adj fst snd]. destruct Hk as [Hk | Hk]; cbn [fst snd] in Hk.
    + destruct (starts_dash t); lia.
    + rewrite Hk. lia.
Qed.

Lemma skipn_length_app {T : Type} (l m : list T) : skipn (List.length l) (l ++ m)%list = m.
Proof. induction l; cbn; auto. Qed.

Lemma last5_app (l five : list string) : List.length five = 5%nat -> last5 (l ++ five)%list = five.
Proof.
  intros H. unfold last5. rewrite app_length, H.
  replace (List.length l + 5 - 5)%nat with (List.length l) by lia. apply skipn_length_app.
Qed.

(* ---- string positions -------------------------------------------------------- *)

Lemma get_app_skip (a b : string) (k n : nat) :
  String.length a = k -> String.get (k + n) (a ++ b) = String.get n b.
Proof.
  intros <-. induction a as [|c a IH]; [reflexivity|]. cbn [String.length Nat.add append String.get]. exact IH.
Qed.

Lemma get_app_l (a b : string) (n : nat) :
  (n < String.length a)%nat -> String.get n (a ++ b) = String.get n a.
Proof.
  revert n; induction a as [|c a IH]; intros n H; cbn [String.length] in H; [lia|].
  destruct n; cbn [append String.get]; [reflexivity | apply IH; lia].
Qed.

Lemma drop_app_skip (a b : string) (k n : nat) :
  String.length a = k -> drop (k + n) (a ++ b) = drop n b.
Proof.
  intros <-. induction a as [|c a IH]; [reflexivity|]. cbn [String.length Nat.add append drop]. exact IH.
Qed.

Lemma slice_app_skip (a b : string) (k i j : nat) :
  String.length a = k -> slice (k + i) (k + j) (a ++ b) = slice i j b.
Proof.
  intros H. unfold slice. rewrite (drop_app_skip _ _ _ _ H). f_equal. lia.
Qed.

Lemma slice_app_first (a b : string) (k : nat) :
  String.length a = k -> slice 0 k (a ++ b) = a.
Proof. intros <-. unfold slice. rewrite Nat.sub_0_r. cbn [drop]. apply take_app_exact. Qed.

Lemma length_pad n t : String.length (repeat_char sp n ++ t) = (n + String.length t)%nat.
Proof. now rewrite length_app, length_repeat. Qed.

Lemma pad_tok_not_blank n t : clean_tok t = true -> all_chars is_ws (repeat_char sp n ++ t) = false.
Proof.
  intros H. induction n as [|n IH]; cbn [repeat_char append all_chars]; [|now rewrite IH, andb_false_r].
  destruct t as [|c r]; [discriminate|]. cbn [clean_tok] in H.
  apply andb_true_iff in H as [H _]. apply andb_true_iff in H as [Hc _]. apply negb_true_iff in Hc.
  cbn [all_chars]. now rewrite Hc.
Qed.

(* ---- pathlib name ----------------------------------------------------------- *)

Definition no_chr (c : ascii) (s : string) : bool := negb (any_char (Ascii.eqb c) s).

Lemma segs_nosep c b : no_chr c b = true -> segs c b = (b, []).
Proof.
  unfold no_chr. induction b as [|a b IH]; cbn [any_char segs]; [reflexivity|].
  intros H. apply negb_true_iff, orb_false_iff in H as [Ha Hb].
  rewrite IH by now rewrite Hb. rewrite Ascii.eqb_sym, Ha. reflexivity.
Qed.

Lemma segs_app c a b :
  segs c (a ++ String c b) = (fst (segs c a), (snd (segs c a) ++ split_chr c b)%list).
Proof.
  induction a as [|x a IH]; cbn [append segs].
  - rewrite Ascii.eqb_refl. unfold split_chr. destruct (segs c b); reflexivity.
  - rewrite IH. destruct (segs c a) as [h t]. cbn [fst snd].
    destruct (Ascii.eqb x c); reflexivity.
Qed.

Lemma split_chr_app c a b :
  no_chr c b = true -> split_chr c (a ++ String c b) = (split_chr c a ++ [b])%list.
Proof.
  intros Hb. unfold split_chr. rewrite segs_app. unfold split_chr.
  rewrite (segs_nosep _ _ Hb). destruct (segs c a); reflexivity.
Qed.

Theorem basename_dir_name (dir name : string) :
  no_chr "/" name = true -> path_part_ok name = true ->
  basename (dir ++ "/" ++ name) = name.
Proof.
  intros Hn Hok. unfold basename, path_parts.
  change (dir ++ "/" ++ name) with (dir ++ String "/" name).
  rewrite (split_chr_app _ _ _ Hn), filter_app. cbn [filter]. rewrite Hok.
  apply last_last.
Qed.

Theorem basename_plain (name : string) :
  no_chr "/" name = true -> path_part_ok name = true -> basename name = name.
Proof.
  intros Hn Hok. unfold basename, path_parts, split_chr. rewrite (segs_nosep _ _ Hn).
  cbn [filter]. rewrite Hok. reflexivity.
Qed.

Theorem basename_spec (dir name : string) :
  no_chr "/" name = true -> path_part_ok name = true ->
  basename (dir ++ "/" ++ name) = name /\ basename name = name.
Proof.
  intros H1 H2. split; [exact (basename_dir_name dir name H1 H2) | exact (basename_plain name H1 H2)].
Qed.

(* the .in text opens with the read section naming Path(pqrpath).name *)
Theorem dump_apbs_names_pqr {A : Type} (fmt4 : A -> string) (pqrpath : string) (sz : sizing (A:=A)) :
  exists rest,
    dump_apbs_text fmt4 pqrpath sz =
    "read" ++ nl ++ "    mol pqr " ++ basename pqrpath ++ nl ++ "end" ++ nl ++ rest.
Proof. unfold dump_apbs_text, input_text. eexists. reflexivity. Qed.

(* ... and its ELEC section carries ngrid as dime, coarse/fine lengths as cglen/fglen *)
Theorem dump_apbs_grid_lines {A : Type} (fmt4 : A -> string) (pqrpath : string) (sz : sizing (A:=A)) :
  exists pre post,
    dump_apbs_text fmt4 pqrpath sz =
    pre ++ "    mg-auto" ++ nl ++ z3_line "dime" (s_ngrid sz) ++
    f3_line fmt4 "cglen" (s_coarse sz) ++ f3_line fmt4 "fglen" (s_fine sz) ++
    "    cgcent mol 1" ++ nl ++ "    fgcent mol 1" ++ nl ++ post.
Proof.
  unfold dump_apbs_text, input_text, elec_auto_text.
  exists ("read" ++ nl ++ "    mol pqr " ++ basename pqrpath ++ nl ++ "end" ++ nl ++ "elec " ++ nl).
  eexists.
  cbn [String.concat].
  repeat rewrite app_assoc_s. reflexivity.
Qed.

(* ========================================================================== *)
(* Part 2: the exact instance QA                                              *)
(* ========================================================================== *)

Local Close Scope string_scope.
Local Open Scope Q_scope.

Lemma Qltb_lt a b : Qltb a b = true <-> a < b.
Proof.
  unfold Qltb. rewrite negb_true_iff. split; intros H.
  - apply Qnot_le_lt. intros H1. apply Qle_bool_iff in H1. congruence.
  - destruct (Qle_bool b a) eqn:E; [|reflexivity]. apply Qle_bool_iff in E. lra.
Qed.
Lemma Qltb_ge a b : Qltb a b = false <-> b <= a.
Proof. unfold Qltb. rewrite negb_false_iff. apply Qle_bool_iff. Qed.

Ltac qconst :=
  unfold Qdiv, inject_Z in *;
  change (/ (2 # 1)) with (1 # 2) in *; change (/ (10 # 1)) with (1 # 10) in *;
  change (/ (32 # 1)) with (1 # 32) in *; change (/ (1024 # 1)) with (1 # 1024) in *.
Ltac qcase :=
  match goal with
  | |- context [Qltb ?a ?b] =>
      let E := fresh "E" in
      destruct (Qltb a b) eqn:E; [apply Qltb_lt in E | apply Qltb_ge in E]
  end.

(* ---- one axis: containment, ordering, centring ---------------------------- *)

Lemma box_axis (mx mn cfac fadd : Q) :
  1 <= cfac -> 0 <= fadd ->
  let mol := mol_len1 QA mx mn in
  let coarse := coarse1 QA cfac mol in
  let fine := fine1 QA fadd mol coarse in
  let c := center1 QA mx mn in
  c - fine / 2 <= mn /\ mx <= c + fine / 2 /\
  c - coarse / 2 <= mn /\ mx <= c + coarse / 2 /\
  fine <= coarse /\ c == (mx + mn) / 2 /\ 1 # 10 <= mol /\ mx - mn <= mol.
Proof.
  intros Hc Hf. cbv zeta.
  unfold fine1, coarse1, mol_len1, center1, pmin, pmax, tenth. cbn [ltb add sub mul div ofZ QA].
  repeat qcase; rewrite ?Qred_correct in *; qconst; repeat split; try nra.
Qed.

(* fine <= coarse and the centre is the midpoint for every parameter value *)
Lemma fine_le_coarse_axis (mx mn cfac fadd : Q) :
  fine1 QA fadd (mol_len1 QA mx mn) (coarse1 QA cfac (mol_len1 QA mx mn))
  <= coarse1 QA cfac (mol_len1 QA mx mn).
Proof.
  unfold fine1, pmin. cbn [ltb QA]. qcase; lra.
Qed.

Lemma center_axis (mx mn : Q) : center1 QA mx mn == (mx + mn) / 2.
Proof. unfold center1. cbn [add div ofZ QA]. rewrite !Qred_correct. reflexivity. Qed.

Theorem boxes_contain (p : params (A:=Q)) (mn mx : vec3 Q) (i : axis) :
  1 <= p_cfac p -> 0 <= p_fadd p ->
  let c := ax i (center_of QA mn mx) in
  let fine := ax i (fine_of QA p mn mx) in
  let coarse := ax i (coarse_of QA p mn mx) in
  (c - fine / 2 <= ax i mn /\ ax i mx <= c + fine / 2) /\
  (c - coarse / 2 <= ax i mn /\ ax i mx <= c + coarse / 2).
Proof.
  intros Hc Hf. cbv zeta. unfold center_of, fine_of, coarse_of, mol_of.
  rewrite !ax_zip3, !ax_map3, !ax_zip3.
  destruct (box_axis (ax i mx) (ax i mn) _ _ Hc Hf) as (H1 & H2 & H3 & H4 & _). auto.
Qed.

Theorem fine_le_coarse (p : params (A:=Q)) (mn mx : vec3 Q) (i : axis) :
  ax i (fine_of QA p mn mx) <= ax i (coarse_of QA p mn mx).
Proof.
  unfold fine_of, coarse_of, mol_of. rewrite !ax_zip3, !ax_map3, !ax_zip3.
  apply fine_le_coarse_axis.
Qed.

Theorem centered (mn mx : vec3 Q) (i : axis) :
  ax i (center_of QA mn mx) == (ax i mx + ax i mn) / 2.
Proof. unfold center_of. rewrite ax_zip3. apply center_axis. Qed.

(* the guard cfac >= 1 is needed: a coarse factor below one cuts the fine box *)
Lemma boxes_need_cfac :
  exists (p : params (A:=Q)) (mn mx : vec3 Q),
    p_cfac p < 1 /\ 0 <= p_fadd p /\
    ~ (ax AX (center_of QA mn mx) - ax AX (fine_of QA p mn mx) / 2 <= ax AX mn).
Proof.
  exists (mkP (1#2) 20 (1#2) 200 400 (1#10) (1#4)), (0, 0, 0), (10, 10, 10).
  vm_compute. intuition discriminate.
Qed.

(* ---- min/max accumulation -------------------------------------------------- *)

(* the interval [lo, hi] lies inside the box on every axis *)
Definition inbox (b : option (vec3 Q * vec3 Q)) (lo hi : vec3 Q) : Prop :=
  exists mn mx, b = Some (mn, mx) /\ forall i, ax i mn <= ax i lo /\ ax i hi <= ax i mx.

Lemma lower_spec (l m : Q) : (if Qltb l m then l else m) <= l /\ (if Qltb l m then l else m) <= m.
Proof. qcase; lra. Qed.
Lemma upper_spec (h m : Q) : h <= (if gtb QA h m then h else m) /\ m <= (if gtb QA h m then h else m).
Proof. unfold gtb. cbn [ltb QA]. qcase; lra. Qed.

Lemma acc_box_grows b c rad lo hi :
  inbox b lo hi -> inbox (Some (acc_box QA b c rad)) lo hi.
Proof.
  intros (mn & mx & -> & H). unfold acc_box.
  eexists _, _. split; [reflexivity|]. intros i. rewrite !ax_zip3, !ax_map3.
  destruct (H i) as [H1 H2].
  pose proof (lower_spec (sub Q QA (ax i c) rad) (ax i mn)) as [_ L].
  pose proof (upper_spec (add Q QA (ax i c) rad) (ax i mx)) as [_ U].
  change (ltb Q QA) with Qltb. split; lra.
Qed.

Lemma acc_box_has b (c : vec3 Q) rad :
  inbox (Some (acc_box QA b c rad)) (map3 (fun ci => ci - rad) c) (map3 (fun ci => ci + rad) c).
Proof.
  unfold acc_box. destruct b as [[mn mx]|].
  - eexists _, _. split; [reflexivity|]. intros i. rewrite !ax_zip3, !ax_map3.
    pose proof (lower_spec (sub Q QA (ax i c) rad) (ax i mn)) as [L _].
    pose proof (upper_spec (add Q QA (ax i c) rad) (ax i mx)) as [U _].
    change (ltb Q QA) with Qltb. cbn [sub add QA] in *.
    pose proof (Qred_correct (ax i c - rad)) as R1. pose proof (Qred_correct (ax i c + rad)) as R2.
    split; lra.
  - eexists _, _. split; [reflexivity|]. intros i. rewrite !ax_map3.
    cbn [sub add QA]. rewrite !Qred_correct. split; lra.
Qed.

Lemma step_atom_box (st st' : pstate (A:=Q)) h x y z q r :
  step QA st (EvAtom h (x, y, z, q, r)) = Ok st' ->
  box st' = Some (acc_box QA (box st) (x, y, z) r).
Proof. unfold step. intros H; injection H as <-. cbn [box]. destruct h; reflexivity. Qed.

Lemma count_box (st : pstate (A:=Q)) h : box (count st h) = box st.
Proof. destruct h; reflexivity. Qed.

Lemma step_grows st ev st' lo hi :
  step QA st ev = Ok st' -> inbox (box st) lo hi -> inbox (box st') lo hi.
Proof.
  destruct ev as [|h|h [[[[x y] z] q] r]|h].
  - cbn [step]. intros H; injection H as <-. auto.
  - cbn [step]. intros H; injection H as <-. rewrite count_box. auto.
  - intros H Hb. rewrite (step_atom_box _ _ _ _ _ _ _ _ H). apply acc_box_grows. exact Hb.
  - discriminate.
Qed.

Lemma run_grows evs st st' lo hi :
  run_events QA st evs = Ok st' -> inbox (box st) lo hi -> inbox (box st') lo hi.
Proof.
  revert st; induction evs as [|e evs IH]; intros st; cbn [run_events].
  - intros H; injection H as <-. auto.
  - destruct (step QA st e) as [s1|] eqn:Es; cbn [bind]; [|discriminate].
    intros H Hb. apply (IH _ H). exact (step_grows _ _ _ _ _ Es Hb).
Qed.

(* every measured atom's sphere interval lies inside [minlen, maxlen] *)
Theorem minmax_contains_all (evs : list (event (A:=Q))) (st st' : pstate (A:=Q)) :
  run_events QA st evs = Ok st' ->
  forall h x y z q r, In (EvAtom h (x, y, z, q, r)) evs ->
  exists mn mx, box st' = Some (mn, mx) /\
    forall i, ax i mn <= ax i (x, y, z) - r /\ ax i (x, y, z) + r <= ax i mx.
Proof.
  revert st; induction evs as [|e evs IH]; intros st Hrun h x y z q r Hin; [destruct Hin|].
  cbn [run_events] in Hrun.
  destruct (step QA st e) as [s1|] eqn:Es; cbn [bind] in Hrun; [|discriminate].
  destruct Hin as [-> | Hin].
  - assert (Hb : inbox (box s1) (map3 (fun ci => ci - r) (x, y, z)) (map3 (fun ci => ci + r) (x, y, z))).
    { rewrite (step_atom_box _ _ _ _ _ _ _ _ Es). apply acc_box_has. }
    destruct (run_grows _ _ _ _ _ Hrun Hb) as (mn & mx & E & H).
    exists mn, mx. split; [exact E|]. intros i. specialize (H i). rewrite !ax_map3 in H. exact H.
  - exact (IH _ Hrun h x y z q r Hin).
Qed.

(* a second pass over the same lines (io.dump_apbs) leaves the box unchanged *)
Lemma acc_box_idem mn mx (c : vec3 Q) rad :
  (forall i, ax i mn <= ax i c - rad /\ ax i c + rad <= ax i mx) ->
  acc_box QA (Some (mn, mx)) c rad = (mn, mx).
Proof.
  intros H. unfold acc_box. destruct c as [[x y] z], mn as [[a b] d], mx as [[e f] g].
  pose proof (H AX) as [X1 X2]. pose proof (H AY) as [Y1 Y2]. pose proof (H AZ) as [Z1 Z2].
  cbn [ax] in *. cbn [map3 zip3]. unfold gtb. cbn [ltb sub add QA].
  repeat match goal with
  | |- context [Qltb ?u ?v] =>
      let E := fresh "E" in destruct (Qltb u v) eqn:E;
      [apply Qltb_lt in E; rewrite ?Qred_correct in E; lra | clear E]
  end. reflexivity.
Qed.

Definition atoms_inside (b : option (vec3 Q * vec3 Q)) (evs : list (event (A:=Q))) : Prop :=
  forall h x y z q r, In (EvAtom h (x, y, z, q, r)) evs ->
  exists mn mx, b = Some (mn, mx) /\
    forall i, ax i mn <= ax i (x, y, z) - r /\ ax i (x, y, z) + r <= ax i mx.

Lemma rerun_same_box evs st st' :
  atoms_inside (box st) evs -> run_events QA st evs = Ok st' -> box st' = box st.
Proof.
  revert st; induction evs as [|e evs IH]; intros st Hin; cbn [run_events].
  - intros H; injection H as <-. reflexivity.
  - assert (Hrest : forall s1, box s1 = box st -> atoms_inside (box s1) evs).
    { intros s1 E. rewrite E. intros h x y z q r Hi. apply (Hin h x y z q r). now right. }
    destruct (step QA st e) as [s1|] eqn:Es; cbn [bind]; [|discriminate].
    intros H.
    assert (E : box s1 = box st).
    { destruct e as [|h|h [[[[x y] z] q] r]|h].
      - cbn [step] in Es. injection Es as <-. reflexivity.
      - cbn [step] in Es. injection Es as <-. apply count_box.
      - rewrite (step_atom_box _ _ _ _ _ _ _ _ Es).
        destruct (Hin h x y z q r (or_introl eq_refl)) as (mn & mx & Eb & Hc).
        rewrite Eb, (acc_box_idem _ _ _ _ Hc). reflexivity.
      - discriminate. }
    rewrite (IH _ (Hrest _ E) H). exact E.
Qed.

Theorem double_parse_same_box evs st1 st2 :
  run_events QA (init_state QA) evs = Ok st1 -> run_events QA st1 evs = Ok st2 ->
  box st2 = box st1.
Proof.
  intros H1 H2. apply (rerun_same_box evs); [|exact H2].
  intros h x y z q r Hi. exact (minmax_contains_all _ _ _ H1 h x y z q r Hi).
Qed.

(* composition: every atom sphere (radius >= 0) lies in the fine and the coarse box *)
Theorem spheres_in_boxes (p : params (A:=Q)) (evs : list (event (A:=Q))) (st : pstate (A:=Q)) (sz : sizing (A:=Q)) :
  1 <= p_cfac p -> 0 <= p_fadd p ->
  run_events QA (init_state QA) evs = Ok st -> set_all QA p st = Ok sz ->
  forall h x y z q r, In (EvAtom h (x, y, z, q, r)) evs -> 0 <= r ->
  forall i,
    let c := ax i (s_center sz) in
    let pos := ax i (x, y, z) in
    (c - ax i (s_fine sz) / 2 <= pos - r /\ pos + r <= c + ax i (s_fine sz) / 2) /\
    (c - ax i (s_coarse sz) / 2 <= pos - r /\ pos + r <= c + ax i (s_coarse sz) / 2).
Proof.
  intros Hc Hf Hrun Hset h x y z q r Hin Hr i. cbv zeta.
  destruct (set_all_fields _ _ _ _ Hset) as (mn & mx & Eb & _ & Eco & Efi & Ece & _).
  destruct (minmax_contains_all _ _ _ Hrun h x y z q r Hin) as (mn' & mx' & Eb' & Hm).
  rewrite Eb in Eb'. injection Eb' as <- <-.
  rewrite Eco, Efi, Ece.
  destruct (boxes_contain p mn mx i Hc Hf) as [[F1 F2] [C1 C2]].
  destruct (Hm i) as [M1 M2].
  repeat split; lra.
Qed.

(* ---- set_smallest terminates ----------------------------------------------- *)

(* the entry is the python int 32k+1 with k >= 0 *)
Definition rep (n k : Z) : Prop := (n = 32 * k + 1 /\ 0 <= k)%Z.

Lemma reduce_rep (k : Z) : reduce (32 * k + 1) = (32 * (k - 1) + 1)%Z.
Proof.
  unfold reduce. replace (32 * k + 1 - 1)%Z with (k * 32)%Z by lia.
  rewrite Z.div_mul by lia. reflexivity.
Qed.

Lemma rep_reduce (n k : Z) :
  rep n k ->
  ((reduce n <=? 0)%Z = true /\ k = 0%Z) \/ ((reduce n <=? 0)%Z = false /\ rep (reduce n) (k - 1)).
Proof.
  intros [-> Hk]. rewrite reduce_rep.
  destruct (32 * (k - 1) + 1 <=? 0)%Z eqn:E; [left | right].
  - apply Z.leb_le in E. split; [reflexivity | lia].
  - apply Z.leb_gt in E. split; [reflexivity|]. split; [reflexivity | lia].
Qed.

Ltac conj_fin :=
  repeat match goal with |- _ /\ _ => split end;
  try assumption; try (split; assumption); try lia.

Lemma shrink_spec (a b c ka kb kc : Z) :
  rep a ka -> rep b kb -> rep c kc ->
  match shrink (a, b, c) with
  | Err e => e = ErrCeiling
  | Ok (a', b', c') =>
      exists ka' kb' kc', rep a' ka' /\ rep b' kb' /\ rep c' kc' /\
        (ka' <= ka /\ kb' <= kb /\ kc' <= kc /\ ka' + kb' + kc' = ka + kb + kc - 1)%Z
  end.
Proof.
  intros Ra Rb Rc. unfold shrink.
  destruct (a =? _)%Z.
  - destruct (rep_reduce _ _ Ra) as [[-> _] | [-> R]]; [reflexivity|].
    exists (ka - 1)%Z, kb, kc. conj_fin.
  - destruct (b =? _)%Z.
    + destruct (rep_reduce _ _ Rb) as [[-> _] | [-> R]]; [reflexivity|].
      exists ka, (kb - 1)%Z, kc. conj_fin.
    + destruct (rep_reduce _ _ Rc) as [[-> _] | [-> R]]; [reflexivity|].
      exists ka, kb, (kc - 1)%Z. conj_fin.
Qed.

Lemma smallest_spec (fuel : nat) (ceil : Q) (a b c ka kb kc : Z) :
  rep a ka -> rep b kb -> rep c kc ->
  (Z.to_nat (ka + kb + kc) < fuel)%nat ->
  match smallest QA fuel ceil (a, b, c) with
  | Err e => e = ErrCeiling
  | Ok (a', b', c') =>
      (exists ka' kb' kc', rep a' ka' /\ rep b' kb' /\ rep c' kc' /\
         (ka' <= ka /\ kb' <= kb /\ kc' <= kc)%Z) /\
      mem_mb QA (a', b', c') < ceil
  end.
Proof.
  revert a b c ka kb kc; induction fuel as [|f IH]; intros a b c ka kb kc Ra Rb Rc Hf; [lia|].
  cbn [smallest]. destruct (ltb Q QA (mem_mb QA (a, b, c)) ceil) eqn:Em.
  - split; [exists ka, kb, kc; conj_fin|].
    apply Qltb_lt. exact Em.
  - pose proof (shrink_spec a b c ka kb kc Ra Rb Rc) as Hs.
    destruct (shrink (a, b, c)) as [[[a' b'] c']|e]; cbn [bind]; [|exact Hs].
    destruct Hs as (ka' & kb' & kc' & Ra' & Rb' & Rc' & La & Lb & Lc & Hsum).
    assert (Hf' : (Z.to_nat (ka' + kb' + kc') < f)%nat).
    { destruct Ra as [_ ?], Rb as [_ ?], Rc as [_ ?], Ra' as [_ ?], Rb' as [_ ?], Rc' as [_ ?]. lia. }
    pose proof (IH a' b' c' ka' kb' kc' Ra' Rb' Rc' Hf') as H.
    destruct (smallest QA f ceil (a', b', c')) as [[[a2 b2] c2]|e]; [|exact H].
    destruct H as [(k1 & k2 & k3 & R1 & R2 & R3 & L1 & L2 & L3) Hm].
    split; [|exact Hm]. exists k1, k2, k3. conj_fin.
Qed.

Lemma grid_ok_rep (n : Z) : grid_ok n -> rep n ((n - 1) / 32).
Proof.
  intros [(k & -> & Hk) _]. replace ((32 * k + 1 - 1) / 32)%Z with k.
  - split; [reflexivity | lia].
  - replace (32 * k + 1 - 1)%Z with (k * 32)%Z by lia. now rewrite Z.div_mul.
Qed.

(* the loop ends within the fuel computed from ngrid; the only exception is the
   code's own ValueError; the result entries are 32k+1, not above ngrid, and fit *)
Theorem smallest_terminates (p : params (A:=Q)) (mn mx : vec3 Q) :
  let ng := ngrid_of QA p mn mx in
  match smallest QA (smallest_fuel ng) (p_gmemceil p) ng with
  | Err e => e = ErrCeiling
  | Ok ns =>
      (forall i, exists k : Z, (0 <= k)%Z /\ ax i ns = (32 * k + 1)%Z /\ (32 * k + 1 <= ax i ng)%Z) /\
      mem_mb QA ns < p_gmemceil p
  end.
Proof.
  cbv zeta. pose proof (ngrid_of_ok QA p mn mx) as Hok.
  destruct (ngrid_of QA p mn mx) as [[a b] c].
  pose proof (Hok AX) as Ha. pose proof (Hok AY) as Hb. pose proof (Hok AZ) as Hc. cbn [ax] in Ha, Hb, Hc.
  cbn [smallest_fuel].
  pose proof (smallest_spec (S (S (Z.to_nat ((a - 1) / 32 + (b - 1) / 32 + (c - 1) / 32))))
                (p_gmemceil p) _ _ _ _ _ _ (grid_ok_rep _ Ha) (grid_ok_rep _ Hb) (grid_ok_rep _ Hc)) as H.
  specialize (H ltac:(lia)).
  destruct (smallest QA _ _ _) as [[[a' b'] c']|e]; [|exact H].
  destruct H as [(k1 & k2 & k3 & [R1 P1] & [R2 P2] & [R3 P3] & L1 & L2 & L3) Hm].
  split; [|exact Hm].
  destruct Ha as [(ja & Ea & _) _], Hb as [(jb & Eb & _) _], Hc as [(jc & Ec & _) _].
  assert (Da : ((a - 1) / 32 = ja)%Z) by (subst a; replace (32 * ja + 1 - 1)%Z with (ja * 32)%Z by lia; apply Z.div_mul; lia).
  assert (Db : ((b - 1) / 32 = jb)%Z) by (subst b; replace (32 * jb + 1 - 1)%Z with (jb * 32)%Z by lia; apply Z.div_mul; lia).
  assert (Dc : ((c - 1) / 32 = jc)%Z) by (subst c; replace (32 * jc + 1 - 1)%Z with (jc * 32)%Z by lia; apply Z.div_mul; lia).
  intros [| |]; cbn [ax]; [exists k1 | exists k2 | exists k3]; repeat split; try assumption; lia.
Qed.

(* ---- memory figures ---------------------------------------------------------- *)

Lemma mem_mb_ints (a b c : Z) :
  mem_mb QA (a, b, c) == 200 * inject_Z (a * b * c) / 1024 / 1024.
Proof.
  unfold mem_mb. cbn [add sub mul div ofZ QA]. rewrite !Qred_correct.
  rewrite !inject_Z_mult. qconst. field.
Qed.

(* what set_all stores as nsmall: entries 32k+1 (k >= 0) not above ngrid, under the ceiling *)
Lemma set_all_nsmall (p : params (A:=Q)) (st : pstate (A:=Q)) (sz : sizing (A:=Q)) :
  set_all QA p st = Ok sz ->
  (forall i, exists k : Z, (0 <= k)%Z /\ ax i (s_nsmall sz) = (32 * k + 1)%Z /\
                           (32 * k + 1 <= ax i (s_ngrid sz))%Z) /\
  mem_mb QA (s_nsmall sz) < p_gmemceil p.
Proof.
  intros Hset.
  destruct (set_all_fields _ _ _ _ Hset) as (mn & mx & _ & _ & _ & _ & _ & En & Es & _).
  pose proof (smallest_terminates p mn mx) as H. cbv zeta in H. rewrite Es in H. rewrite En. exact H.
Qed.

(* the figures that are reported are the formula for the grid they are reported
   with; that grid is ngrid when it fits the ceiling (sequential) and otherwise
   nsmall, whose entries are 32k+1 (k >= 0), not above ngrid, and which fits *)
Theorem mem_estimate (p : params (A:=Q)) (st : pstate (A:=Q)) (sz : sizing (A:=Q)) (m : mem_report (A:=Q)) :
  set_all QA p st = Ok sz -> report QA p st sz = Ok (Some m) ->
  (let '(nx, ny, nz) := r_grid m in
   r_est_mb m == 200 * inject_Z (nx * ny * nz) / 1024 / 1024 /\
   r_per_proc_mb m == 200 * inject_Z (nx * ny * nz) / 1024 / 1024) /\
  (if r_parallel m
   then r_grid m = s_nsmall sz /\ p_gmemceil p < mem_mb QA (s_ngrid sz) /\
        r_est_mb m < p_gmemceil p /\
        (forall i, exists k : Z, (0 <= k)%Z /\ ax i (r_grid m) = (32 * k + 1)%Z /\
                                 (32 * k + 1 <= ax i (s_ngrid sz))%Z)
   else r_grid m = s_ngrid sz /\ r_est_mb m <= p_gmemceil p).
Proof.
  intros Hset Hr.
  destruct (report_figures QA p st sz m Hr) as (E1 & E2 & E3 & E4).
  split.
  - rewrite E1, E2. destruct (r_grid m) as [[nx ny] nz]. rewrite (mem_mb_ints nx ny nz). split; reflexivity.
  - symmetry in E4. unfold gtb in E4. cbn [ltb QA] in E4.
    destruct (r_parallel m).
    + apply Qltb_lt in E4. destruct (set_all_nsmall _ _ _ Hset) as [Hk Hm].
      rewrite E1, E3. repeat split; assumption.
    + apply Qltb_ge in E4. rewrite E1, E3. split; [reflexivity | exact E4].
Qed.

(* ---- the report is produced for every grid (finding C17-F12 repaired) ---------- *)

Lemma Qtrunc_ge2 (q : Q) : 2 <= q -> (2 <= Qtrunc q)%Z.
Proof.
  destruct q as [n d]. unfold Qle, Qtrunc. cbn [Qnum Qden]. intros H.
  apply Z.quot_le_lower_bound; lia.
Qed.

Lemma glob_den_pos (ofrac : Q) : 0 <= ofrac -> 0 < glob_den QA ofrac.
Proof.
  intros H. unfold glob_den, zofac, milli, one. cbn [add sub mul div ofZ QA]. rewrite !Qred_correct.
  unfold Qdiv, inject_Z. change (/ (1000 # 1)) with (1 # 1000). lra.
Qed.

Lemma nproc_ge2 (ofrac : Q) (ng ns : Z) :
  0 <= ofrac -> (1 <= ns)%Z -> (ns < ng)%Z -> (2 <= nproc1 QA ofrac ng ns)%Z.
Proof.
  intros Ho H1 H2. unfold nproc1. apply Z.ltb_lt in H2 as H2b. rewrite H2b. cbn [trunc QA].
  apply Qtrunc_ge2. unfold nproc_pre1, zofac, one. cbn [add sub mul div ofZ QA]. rewrite !Qred_correct.
  assert (Hs : 0 < inject_Z ns) by (change 0 with (inject_Z 0); rewrite <- Zlt_Qlt; lia).
  assert (Hg : inject_Z ns < inject_Z ng) by (rewrite <- Zlt_Qlt; lia).
  assert (Hq : 1 <= (1 + 2 * ofrac) * inject_Z ng / inject_Z ns).
  { apply Qle_shift_div_l; [exact Hs|]. change (inject_Z 1) with 1. change (inject_Z 2) with 2. nra. }
  change (inject_Z 1) with 1. change (inject_Z 2) with 2. lra.
Qed.

(* no division of Psize.__str__ is by zero: ngrid entries are >= 33, an
   unreduced axis keeps xglob = ngrid, a reduced axis has nproc >= 2 so that
   nproc * round(...) cannot be 1 *)
Theorem report_total (p : params (A:=Q)) (st : pstate (A:=Q)) (sz : sizing (A:=Q)) :
  set_all QA p st = Ok sz -> 0 <= p_ofrac p -> (0 < gotatom st)%Z ->
  exists m, report QA p st sz = Ok (Some m).
Proof.
  intros Hset Ho Hg. unfold report. apply Z.ltb_lt in Hg. rewrite Hg.
  pose proof (grid_form QA p st sz Hset) as Hgrid.
  destruct (set_all_nsmall _ _ _ Hset) as [Hk _].
  destruct (set_all_fields _ _ _ _ Hset) as (mn & mx & _ & _ & _ & _ & _ & En & _ & Enp).
  destruct (gtb QA _ _).
  - assert (Ed : eqbA QA (glob_den QA (p_ofrac p)) (zero QA) = false).
    { pose proof (glob_den_pos _ Ho) as Hd. unfold eqbA, zero. cbn [ltb ofZ QA].
      apply andb_false_iff. right. apply negb_false_iff. apply Qltb_lt. exact Hd. }
    rewrite Ed.
    assert (Hax : forall i, ax i (zip3 (glob1 QA (p_ofrac p)) (s_nproc sz) (s_nsmall sz)) <> 1%Z).
    { intros i. rewrite ax_zip3, Enp, ax_zip3, <- En. unfold glob1.
      destruct (Hk i) as (k & Hk0 & Ek & Lk). pose proof (Hgrid i) as [_ G33].
      destruct (Z.ltb_spec (ax i (s_nsmall sz)) (ax i (s_ngrid sz))) as [Hlt | Hge].
      - pose proof (nproc_ge2 (p_ofrac p) (ax i (s_ngrid sz)) (ax i (s_nsmall sz)) Ho ltac:(lia) Hlt) as H2.
        destruct (Z.eqb_spec (nproc1 QA (p_ofrac p) (ax i (s_ngrid sz)) (ax i (s_nsmall sz))) 1); [lia|].
        intros E. apply Z.mul_eq_1 in E. lia.
      - unfold nproc1. apply Z.ltb_ge in Hge as Hb. rewrite Hb. rewrite Z.eqb_refl. lia. }
    destruct (zip3 _ (s_nproc sz) (s_nsmall sz)) as [[g0 g1] g2].
    pose proof (Hax AX) as H0. pose proof (Hax AY) as H1. pose proof (Hax AZ) as H2. cbn [ax] in H0, H1, H2.
    unfold spacing_ok.
    apply Z.eqb_neq in H0, H1, H2. rewrite H0, H1, H2. cbn. eexists. reflexivity.
  - destruct (s_ngrid sz) as [[g0 g1] g2].
    pose proof (Hgrid AX) as [_ H0]. pose proof (Hgrid AY) as [_ H1]. pose proof (Hgrid AZ) as [_ H2]. cbn [ax] in H0, H1, H2.
    unfold spacing_ok.
    assert (E0 : (g0 =? 1)%Z = false) by (apply Z.eqb_neq; lia).
    assert (E1 : (g1 =? 1)%Z = false) by (apply Z.eqb_neq; lia).
    assert (E2 : (g2 =? 1)%Z = false) by (apply Z.eqb_neq; lia).
    rewrite E0, E1, E2. cbn. eexists. reflexivity.
Qed.

(* the structure that used to make Psize.__str__ raise (two atoms 100 A apart,
   default parameters): now reported as a parallel solve, 97 x 129 x 129 points
   per processor, 307.880 MB *)
Example report_parallel_witness :
  let p := mkP (17 # 10) 20 (1 # 2) 200 400 (1 # 10) (1 # 4) in
  let evs := [EvAtom false (0, 0, 0, 1 # 10, 3 # 2); EvAtom false (100, 100, 100, 1 # 10, 3 # 2)] : list (event (A:=Q)) in
  exists st sz m,
    run_events QA (init_state QA) evs = Ok st /\ set_all QA p st = Ok sz /\
    report QA p st sz = Ok (Some m) /\
    r_parallel m = true /\ s_ngrid sz = (257, 257, 257)%Z /\
    r_grid m = (97, 129, 129)%Z /\ s_nproc sz = (4, 3, 3)%Z /\ s_nfocus sz = 3%Z /\
    r_est_mb m = 40354425 # 131072.
Proof.
  cbv zeta. eexists _, _, _.
  split; [vm_compute; reflexivity|]. split; [vm_compute; reflexivity|].
  split; [vm_compute; reflexivity|]. vm_compute. intuition discriminate.
Qed.

(* ---- whole-line statements: separated fields, fixed columns -------------------- *)

Local Open Scope string_scope.

Lemma prefix_of_app (p s r : string) :
  (String.length p <= String.length s)%nat -> prefix_of p (s ++ r) = prefix_of p s.
Proof.
  revert s; induction p as [|a p IH]; intros s Hl; [reflexivity|].
  destruct s as [|b s]; cbn [String.length] in Hl; [lia|].
  cbn [append prefix_of]. rewrite IH by lia. reflexivity.
Qed.

(* five fields each kept apart from its predecessor by a blank or its own minus
   sign (the --whitespace layout, or any free-format line) are read back exactly *)
Theorem parse_line_separated {A : Type} (pfloat : string -> option A)
  (head : string) (a0 a1 a2 a3 a4 : nat) (t0 t1 t2 t3 t4 trail : string) (x y z q r : A) :
  String.length head = 30%nat -> is_coord_line head = true ->
  clean_tok t0 = true -> clean_tok t1 = true -> clean_tok t2 = true ->
  clean_tok t3 = true -> clean_tok t4 = true ->
  ((1 <= a1)%nat \/ starts_dash t1 = true) -> ((1 <= a2)%nat \/ starts_dash t2 = true) ->
  ((1 <= a3)%nat \/ starts_dash t3 = true) -> ((1 <= a4)%nat \/ starts_dash t4 = true) ->
  all_chars is_ws trail = true ->
  pfloat t0 = Some x -> pfloat t1 = Some y -> pfloat t2 = Some z ->
  pfloat t3 = Some q -> pfloat t4 = Some r ->
  parse_line pfloat
    (head ++ repeat_char sp a0 ++ t0 ++ repeat_char sp a1 ++ t1 ++ repeat_char sp a2 ++ t2 ++
     repeat_char sp a3 ++ t3 ++ repeat_char sp a4 ++ t4 ++ trail)
  = EvAtom (negb (prefix_of "ATOM" head)) (x, y, z, q, r).
Proof.
  intros Hh Hc C0 C1 C2 C3 C4 S1 S2 S3 S4 Ht P0 P1 P2 P3 P4.
  unfold parse_line, fields_after30.
  rewrite (words_separated head a0 a1 a2 a3 a4 t0 t1 t2 t3 t4 trail Hh C0 C1 C2 C3 C4 S1 S2 S3 S4 Ht).
  rewrite !prefix_of_app by (rewrite Hh; cbn; lia).
  unfold is_coord_line in Hc. rewrite Hc.
  assert (E : forall b : bool,
            (if negb b then last5 [t0; t1; t2; t3; t4]
             else if (List.length [t0; t1; t2; t3; t4] <? 5)%nat then fixed_fields
                    (head ++ repeat_char sp a0 ++ t0 ++ repeat_char sp a1 ++ t1 ++ repeat_char sp a2 ++ t2 ++
                     repeat_char sp a3 ++ t3 ++ repeat_char sp a4 ++ t4 ++ trail)
                  else [t0; t1; t2; t3; t4]) = [t0; t1; t2; t3; t4]) by (intros []; reflexivity).
  rewrite E, P0, P1, P2, P3, P4. reflexivity.
Qed.

(* Every ATOM/HETATM line in the fixed-column layout of Atom.get_pqr_string whose
   five numbers fit their columns (8, 8, 8, 8, 7; '.' of a %8.3f coordinate at
   offset 4) is measured with exactly the numbers written - with or without a
   blank between neighbouring fields.  [pfloat] must ignore leading blanks, as
   python's float() does. *)
Theorem parse_line_fixed_columns {A : Type} (pfloat : string -> option A)
  (head : string) (a0 a1 a2 a3 a4 : nat) (t0 t1 t2 t3 t4 trail : string) (x y z q r : A) :
  String.length head = 30%nat -> is_coord_line head = true ->
  clean_tok t0 = true -> clean_tok t1 = true -> clean_tok t2 = true ->
  clean_tok t3 = true -> clean_tok t4 = true ->
  (a0 + String.length t0 = 8)%nat -> (a1 + String.length t1 = 8)%nat ->
  (a2 + String.length t2 = 8)%nat -> (a3 + String.length t3 = 8)%nat ->
  (a4 + String.length t4 = 7)%nat ->
  String.get 4 (repeat_char sp a0 ++ t0) = Some "."%char ->
  String.get 4 (repeat_char sp a1 ++ t1) = Some "."%char ->
  String.get 4 (repeat_char sp a2 ++ t2) = Some "."%char ->
  all_chars is_ws trail = true ->
  (forall n t, pfloat (repeat_char sp n ++ t) = pfloat t) ->
  pfloat t0 = Some x -> pfloat t1 = Some y -> pfloat t2 = Some z ->
  pfloat t3 = Some q -> pfloat t4 = Some r ->
  parse_line pfloat
    (head ++ (repeat_char sp a0 ++ t0) ++ (repeat_char sp a1 ++ t1) ++ (repeat_char sp a2 ++ t2) ++
     (repeat_char sp a3 ++ t3) ++ (repeat_char sp a4 ++ t4) ++ trail)
  = EvAtom (negb (prefix_of "ATOM" head)) (x, y, z, q, r).
Proof.
  intros Hh Hc C0 C1 C2 C3 C4 L0 L1 L2 L3 L4 D0 D1 D2 Ht Hpf P0 P1 P2 P3 P4.
  set (X0 := repeat_char sp a0 ++ t0) in *. set (X1 := repeat_char sp a1 ++ t1) in *.
  set (X2 := repeat_char sp a2 ++ t2) in *. set (X3 := repeat_char sp a3 ++ t3) in *.
  set (X4 := repeat_char sp a4 ++ t4) in *.
  assert (N0 : String.length X0 = 8%nat) by (unfold X0; rewrite length_pad; exact L0).
  assert (N1 : String.length X1 = 8%nat) by (unfold X1; rewrite length_pad; exact L1).
  assert (N2 : String.length X2 = 8%nat) by (unfold X2; rewrite length_pad; exact L2).
  assert (N3 : String.length X3 = 8%nat) by (unfold X3; rewrite length_pad; exact L3).
  assert (N4 : String.length X4 = 7%nat) by (unfold X4; rewrite length_pad; exact L4).
  set (fs := [(a0, t0); (a1, t1); (a2, t2); (a3, t3); (a4, t4)]).
  assert (Hr : X0 ++ X1 ++ X2 ++ X3 ++ X4 ++ trail = render fs trail).
  { unfold fs, X0, X1, X2, X3, X4. cbn [render]. now rewrite !app_assoc_s. }
  assert (Hf : Forall (fun f => clean_tok (snd f) = true) fs) by (unfold fs; repeat constructor; assumption).
  pose proof (words_rendered head fs trail Hh Ht Hf) as [W1 W2]. rewrite <- Hr in W1, W2.
  set (line := head ++ X0 ++ X1 ++ X2 ++ X3 ++ X4 ++ trail) in *.
  unfold parse_line, fields_after30.
  assert (Ea : prefix_of "ATOM" line = prefix_of "ATOM" head) by (apply prefix_of_app; rewrite Hh; cbn; lia).
  assert (Eh : prefix_of "HETATM" line = prefix_of "HETATM" head) by (apply prefix_of_app; rewrite Hh; cbn; lia).
  rewrite Ea, Eh. unfold is_coord_line in Hc. rewrite Hc.
  assert (Hd : coord_dots line = true).
  { unfold coord_dots, line.
      change 50%nat with (30 + (8 + (8 + 4)))%nat. change 42%nat with (30 + (8 + 4))%nat. change 34%nat with (30 + 4)%nat.
      rewrite !(get_app_skip head _ 30 _ Hh).
      rewrite (get_app_skip X0 _ 8 _ N0), (get_app_skip X0 _ 8 _ N0), (get_app_skip X1 _ 8 _ N1).
      rewrite (get_app_l X0), (get_app_l X1), (get_app_l X2) by (rewrite ?N0, ?N1, ?N2; lia).
    rewrite D0, D1, D2. reflexivity. }
  rewrite Hd. cbn [negb].
  destruct (List.length (words_after30 line) <? 5)%nat eqn:E.
  - (* fewer than five words: some neighbours have fused; the columns are used *)
    unfold fixed_fields, line.
    change 69%nat with (30 + (8 + (8 + (8 + (8 + 7)))))%nat.
    change 62%nat with (30 + (8 + (8 + (8 + 8))))%nat. change 54%nat with (30 + (8 + (8 + 8)))%nat.
    change 46%nat with (30 + (8 + 8))%nat. change 38%nat with (30 + 8)%nat.
    change (slice 30 (30 + 8)) with (slice (30 + 0) (30 + 8)).
    rewrite !(slice_app_skip head _ 30 _ _ Hh).
    rewrite (slice_app_first X0 _ 8 N0).
    change (slice 8 (8 + 8)) with (slice (8 + 0) (8 + 8)).
    rewrite !(slice_app_skip X0 _ 8 _ _ N0).
    rewrite (slice_app_first X1 _ 8 N1).
    change (slice 8 (8 + 8)) with (slice (8 + 0) (8 + 8)).
    rewrite !(slice_app_skip X1 _ 8 _ _ N1).
    rewrite (slice_app_first X2 _ 8 N2).
    change (slice 8 (8 + 8)) with (slice (8 + 0) (8 + 8)).
    rewrite !(slice_app_skip X2 _ 8 _ _ N2).
    rewrite (slice_app_first X3 _ 8 N3).
    change (slice 8 (8 + 7)) with (slice (8 + 0) (8 + 7)).
    rewrite !(slice_app_skip X3 _ 8 _ _ N3).
    rewrite (slice_app_first X4 _ 7 N4).
    cbn [filter]. unfold X0, X1, X2, X3, X4.
    rewrite !pad_tok_not_blank by assumption. cbn [negb].
    rewrite !Hpf, P0, P1, P2, P3, P4. reflexivity.
  - (* five words: they are exactly the five written *)
    apply Nat.ltb_ge in E. cbn [List.length fs] in W1, W2.
    rewrite (W2 ltac:(lia)). cbn [map snd fs].
    rewrite P0, P1, P2, P3, P4. reflexivity.
Qed.

(* Whitespace-delimited records (decimal points not in the PDB coordinate
   columns): whatever words precede them after column 30 - the insertion code
   of the --whitespace layout, or tokens pushed right by wide fields - the last
   five words are the ones measured, provided every word after the first is
   kept apart from its predecessor by a blank or its own minus sign. *)
Theorem parse_line_ws_tail {A : Type} (pfloat : string -> option A)
  (head : string) (pre : list (nat * string)) (a0 a1 a2 a3 a4 : nat) (t0 t1 t2 t3 t4 trail : string)
  (x y z q r : A) :
  let fs := (pre ++ [(a0, t0); (a1, t1); (a2, t2); (a3, t3); (a4, t4)])%list in
  String.length head = 30%nat -> is_coord_line head = true ->
  Forall (fun f => clean_tok (snd f) = true) fs ->
  Forall kept_apart (tl fs) ->
  all_chars is_ws trail = true ->
  coord_dots (head ++ render fs trail) = false ->
  pfloat t0 = Some x -> pfloat t1 = Some y -> pfloat t2 = Some z ->
  pfloat t3 = Some q -> pfloat t4 = Some r ->
  parse_line pfloat (head ++ render fs trail) = EvAtom (negb (prefix_of "ATOM" head)) (x, y, z, q, r).
Proof.
  intros fs Hh Hc Hf Ha Ht Hd P0 P1 P2 P3 P4.
  unfold parse_line, fields_after30.
  rewrite !prefix_of_app by (rewrite Hh; cbn; lia).
  unfold is_coord_line in Hc. rewrite Hc, Hd. cbn [negb].
  rewrite (words_rendered_apart head fs trail Hh Ht Hf Ha).
  unfold fs. rewrite map_app. cbn [map snd]. rewrite last5_app by reflexivity.
  rewrite P0, P1, P2, P3, P4. reflexivity.
Qed.

(* python's float() ignores leading blanks; a table-driven [pfloat] that strips
   them first satisfies the premise above *)
Lemma lstrip_blanks n t : lstrip (repeat_char sp n ++ t) = lstrip t.
Proof. induction n; cbn [repeat_char append lstrip]; [reflexivity | exact IHn]. Qed.

Definition pfloat_tab (tab : list (string * option Q)) (s : string) : option Q :=
  lookup_float tab (lstrip s).

Lemma pfloat_tab_blanks tab n t : pfloat_tab tab (repeat_char sp n ++ t) = pfloat_tab tab t.
Proof. unfold pfloat_tab. now rewrite lstrip_blanks. Qed.

(* the former witness of finding C17-F11 (y = 1000.000 fills its eight columns
   and fuses with x) and a record in which all five numbers run together are
   now measured *)
(* records of the --whitespace layout with a blank at every field boundary: the
   insertion code (a letter, a digit) is the first word after column 30 *)
Example ws_tail_witness :
  let tab := [("1.000", Some (1 # 1)); ("2.000", Some (2 # 1)); ("3.000", Some (3 # 1)); ("1", Some (1 # 1));
              ("0.5000", Some (1 # 2)); ("1.5000", Some (3 # 2)); ("-10.5000", Some (-21 # 2));
              ("1000.000", Some (1000 # 1)); ("-999.999", Some (-999999 # 1000))]%Q in
  parse_line (pfloat_tab tab) "ATOM       1  CA   ALA A   12 B      1.000    2.000    3.000   0.5000  1.5000"
    = EvAtom false (1 # 1, 2 # 1, 3 # 1, 1 # 2, 3 # 2)%Q /\
  parse_line (pfloat_tab tab) "HETATM 12345  O    HOH A 1000 1   1000.000 -999.999    3.000 -10.5000  1.5000"
    = EvAtom true (1000 # 1, -999999 # 1000, 3 # 1, -21 # 2, 3 # 2)%Q /\
  parse_line (pfloat_tab tab) "ATOM       1  CA   ALA     12        1.000    2.000    3.000   0.5000  1.5000"
    = EvAtom false (1 # 1, 2 # 1, 3 # 1, 1 # 2, 3 # 2)%Q.
Proof. cbv zeta. repeat split. Qed.

Example fixed_columns_witness :
  let tab := [("12.345", Some (12345 # 1000)); ("1000.000", Some (1000 # 1)); ("5.000", Some (5 # 1));
              ("0.1000", Some (1 # 10)); ("1.5000", Some (3 # 2)); ("1234.567", Some (1234567 # 1000));
              ("100.0000", Some (100 # 1)); ("10.0000", Some (10 # 1))]%Q in
  parse_line (pfloat_tab tab) "ATOM      2  CA  ALA     2      12.3451000.000   5.000  0.1000 1.5000"
    = EvAtom false (12345 # 1000, 1000 # 1, 5 # 1, 1 # 10, 3 # 2)%Q /\
  parse_line (pfloat_tab tab) "HETATM    2  CA  ALA     2    1234.5671000.0001234.567100.000010.0000"
    = EvAtom true (1234567 # 1000, 1000 # 1, 1234567 # 1000, 100 # 1, 10 # 1)%Q /\
  "ATOM      2  CA  ALA     2    " ++ pqr_tail "  12.345" "1000.000" "   5.000" "0.1000" "1.5000"
    = "ATOM      2  CA  ALA     2      12.3451000.000   5.000  0.1000 1.5000".
Proof. cbv zeta. repeat split. Qed.

Local Close Scope string_scope.

(* non-vacuity: a concrete run where every hypothesis used above holds and the
   results are the ones the real code prints (33^3 grid, sequential, 6.854 MB) *)
Example nonvacuous :
  let p := mkP (17 # 10) 20 (1 # 2) 200 400 (1 # 10) (1 # 4) in
  let evs := [EvAtom false (0, 0, 0, 1 # 10, 3 # 2); EvCount false; EvSkip;
              EvAtom true (10, 10, 10, 1 # 10, 3 # 2)] : list (event (A:=Q)) in
  exists st sz m,
    run_events QA (init_state QA) evs = Ok st /\ set_all QA p st = Ok sz /\
    report QA p st sz = Ok (Some m) /\
    1 <= p_cfac p /\ 0 <= p_fadd p /\ 0 <= p_ofrac p /\
    gotatom st = 2%Z /\ gothet st = 1%Z /\
    box st = Some ((-3 # 2, -3 # 2, -3 # 2), (23 # 2, 23 # 2, 23 # 2)) /\
    s_ngrid sz = (33, 33, 33)%Z /\ s_center sz = (5, 5, 5) /\
    s_fine sz = (221 # 10, 221 # 10, 221 # 10) /\ s_coarse sz = (221 # 10, 221 # 10, 221 # 10) /\
    s_nfocus sz = 2%Z /\ r_est_mb m = 898425 # 131072.
Proof.
  cbv zeta. eexists _, _, _.
  split; [vm_compute; reflexivity|]. split; [vm_compute; reflexivity|].
  split; [vm_compute; reflexivity|]. vm_compute. intuition discriminate.
Qed.

(* ---- set_smallest does not raise unless the ceiling is below one grid point ---- *)

Lemma mem_mb_prod (a b c : Z) :
  mem_mb QA (a, b, c) == 200 * inject_Z a * inject_Z b * inject_Z c / 1024 / 1024.
Proof. unfold mem_mb. cbn [add sub mul div ofZ QA]. rewrite !Qred_correct. reflexivity. Qed.

Definition mem_floor : Q := 200 / 1024 / 1024.

Lemma shrink_ok (a b c ka kb kc : Z) :
  rep a ka -> rep b kb -> rep c kc ->
  mem_floor < mem_mb QA (a, b, c) ->
  exists n', shrink (a, b, c) = Ok n'.
Proof.
  intros Ra Rb Rc Hm.
  assert (Hall : ~ (ka = 0 /\ kb = 0 /\ kc = 0)%Z).
  { intros (-> & -> & ->). destruct Ra as [-> _], Rb as [-> _], Rc as [-> _].
    vm_compute in Hm. discriminate. }
  unfold shrink.
  destruct (Z.eqb_spec a (Z.max (Z.max a b) c)) as [Ea | Ea].
  - destruct (rep_reduce _ _ Ra) as [[-> K] | [-> _]]; [|eexists; reflexivity].
    exfalso. apply Hall. destruct Ra as [-> _], Rb as [-> ?], Rc as [-> ?]. lia.
  - destruct (Z.eqb_spec b (Z.max (Z.max a b) c)) as [Eb | Eb].
    + destruct (rep_reduce _ _ Rb) as [[-> K] | [-> _]]; [|eexists; reflexivity].
      exfalso. apply Hall. destruct Ra as [-> ?], Rb as [-> _], Rc as [-> ?]. lia.
    + destruct (rep_reduce _ _ Rc) as [[-> K] | [-> _]]; [|eexists; reflexivity].
      exfalso. apply Hall. destruct Ra as [-> ?], Rb as [-> ?], Rc as [-> _]. lia.
Qed.

Lemma smallest_ok (fuel : nat) (ceil : Q) (a b c ka kb kc : Z) :
  rep a ka -> rep b kb -> rep c kc ->
  (Z.to_nat (ka + kb + kc) < fuel)%nat -> mem_floor < ceil ->
  exists n', smallest QA fuel ceil (a, b, c) = Ok n'.
Proof.
  revert a b c ka kb kc; induction fuel as [|f IH]; intros a b c ka kb kc Ra Rb Rc Hf Hc; [lia|].
  cbn [smallest]. destruct (ltb Q QA (mem_mb QA (a, b, c)) ceil) eqn:Em; [eexists; reflexivity|].
  cbn [ltb QA] in Em. apply Qltb_ge in Em.
  destruct (shrink_ok a b c ka kb kc Ra Rb Rc ltac:(lra)) as [[[a' b'] c'] Es].
  pose proof (shrink_spec a b c ka kb kc Ra Rb Rc) as Hs. rewrite Es in Hs. rewrite Es. cbn [bind].
  destruct Hs as (ka' & kb' & kc' & Ra' & Rb' & Rc' & La & Lb & Lc & Hsum).
  apply (IH a' b' c' ka' kb' kc' Ra' Rb' Rc'); [|exact Hc].
  destruct Ra as [_ ?], Rb as [_ ?], Rc as [_ ?], Ra' as [_ ?], Rb' as [_ ?], Rc' as [_ ?]. lia.
Qed.

(* with a ceiling above the size of a 1x1x1 grid, set_smallest never raises *)
Theorem smallest_succeeds (p : params (A:=Q)) (mn mx : vec3 Q) :
  200 / 1024 / 1024 < p_gmemceil p ->
  let ng := ngrid_of QA p mn mx in
  exists ns, smallest QA (smallest_fuel ng) (p_gmemceil p) ng = Ok ns.
Proof.
  intros Hc. cbv zeta. pose proof (ngrid_of_ok QA p mn mx) as Hok.
  destruct (ngrid_of QA p mn mx) as [[a b] c].
  pose proof (Hok AX) as Ha. pose proof (Hok AY) as Hb. pose proof (Hok AZ) as Hcc. cbn [ax] in Ha, Hb, Hcc.
  cbn [smallest_fuel].
  apply (smallest_ok _ _ _ _ _ _ _ _ (grid_ok_rep _ Ha) (grid_ok_rep _ Hb) (grid_ok_rep _ Hcc)); [lia | exact Hc].
Qed.
