(* Proofs about Model/Peoe.v (C16). *)
From Coq Require Import String Ascii List Arith NArith ZArith QArith Qabs Qreduction Bool Lia Lqa Setoid.
From PV Require Import Lib.Strings Lib.Decimal Model.Peoe.
Import ListNotations.

(* ---- exact-field laws of an arithmetic instance over Q ------------------ *)

Record QLaws (ops : Arith Q) : Prop := mkQLaws {
  l_zero : a_zero ops == 0;
  l_one : a_one ops == 1;
  l_add : forall x y, a_add ops x y == x + y;
  l_sub : forall x y, a_sub ops x y == x - y;
  l_mul : forall x y, a_mul ops x y == x * y;
  l_div : forall x y, a_div ops x y == x / y;
  l_abs : forall x, a_abs ops x == Qabs x;
  l_ltb : forall x y, a_ltb ops x y = true <-> x < y;
  l_eqb : forall x y, a_eqb ops x y = true <-> x == y;
  l_ofZ : forall z, a_ofZ ops z == inject_Z z
}.

Lemma QA_laws : QLaws QA.
Proof.
  constructor.
  - reflexivity.
  - reflexivity.
  - intros x y; exact (Qred_correct _).
  - intros x y; exact (Qred_correct _).
  - intros x y; exact (Qred_correct _).
  - intros x y; exact (Qred_correct _).
  - reflexivity.
  - intros x y. change (negb (Qle_bool y x) = true <-> x < y).
    rewrite negb_true_iff. split; intro H.
    + apply Qnot_le_lt. intro Hle. apply Qle_bool_iff in Hle. congruence.
    + destruct (Qle_bool y x) eqn:E; [|reflexivity].
      apply Qle_bool_iff in E. exfalso. exact (Qlt_not_le _ _ H E).
  - intros x y; exact (Qeq_bool_iff x y).
  - reflexivity.
Qed.

(* ---- finite sums over Q -------------------------------------------------- *)

Fixpoint Qsum (l : list Q) : Q := match l with [] => 0 | x :: r => x + Qsum r end.

Lemma Qsum_app l1 l2 : Qsum (l1 ++ l2) == Qsum l1 + Qsum l2.
Proof. induction l1 as [|x l1 IH]; cbn [map app Qsum]; [ring | rewrite IH; ring]. Qed.

Lemma Qsum_map_plus {X} (f g : X -> Q) l :
  Qsum (map (fun x => f x + g x) l) == Qsum (map f l) + Qsum (map g l).
Proof. induction l as [|x l IH]; cbn [map app Qsum]; [ring | rewrite IH; ring]. Qed.

Lemma Qsum_map_ext {X} (f g : X -> Q) l :
  (forall x, In x l -> f x == g x) -> Qsum (map f l) == Qsum (map g l).
Proof.
  induction l as [|x l IH]; cbn [map app Qsum]; intros H; [reflexivity|].
  rewrite (H x (or_introl eq_refl)), IH; [reflexivity|]. intros; apply H; now right.
Qed.

Lemma Qsum_map_zero {X} (f : X -> Q) l :
  (forall x, In x l -> f x == 0) -> Qsum (map f l) == 0.
Proof.
  intros H. rewrite (Qsum_map_ext f (fun _ => 0) l H).
  induction l as [|x l IH]; cbn [map app Qsum]; [reflexivity|]. rewrite IH; [ring|]. intros; apply H; now right.
Qed.

Lemma Qsum_map_scale {X} (c : Q) (f : X -> Q) l :
  Qsum (map (fun x => c * f x) l) == c * Qsum (map f l).
Proof. induction l as [|x l IH]; cbn [map app Qsum]; [ring | rewrite IH; ring]. Qed.

Lemma Qsum_map_const {X} (c : Q) (l : list X) :
  Qsum (map (fun _ => c) l) == inject_Z (Z.of_nat (length l)) * c.
Proof.
  induction l as [|x l IH]; [cbn [map Qsum length Z.of_nat]; change (inject_Z 0) with 0; ring|].
  cbn [map Qsum length]. rewrite IH.
  rewrite Nat2Z.inj_succ, <- Z.add_1_r, inject_Z_plus. ring.
Qed.

Lemma Qsum_nonneg l : (forall x, In x l -> 0 <= x) -> 0 <= Qsum l.
Proof.
  induction l as [|x l IH]; cbn [map app Qsum]; intros H; [apply Qle_refl|].
  rewrite <- (Qplus_0_r 0). apply Qplus_le_compat; [apply H; now left | apply IH; intros; apply H; now right].
Qed.

Lemma Qsum_nonneg_zero l :
  (forall x, In x l -> 0 <= x) -> Qsum l == 0 -> forall x, In x l -> x == 0.
Proof.
  induction l as [|y l IH]; cbn [map app Qsum]; intros Hnn Hs x Hx; [contradiction|].
  assert (Hy : 0 <= y) by (apply Hnn; now left).
  assert (Hl : 0 <= Qsum l) by (apply Qsum_nonneg; intros; apply Hnn; now right).
  assert (Hy0 : y == 0).
  { apply Qle_antisym; [|exact Hy].
    rewrite <- Hs. rewrite <- (Qplus_0_r y) at 1. apply Qplus_le_compat; [apply Qle_refl | exact Hl]. }
  destruct Hx as [->|Hx]; [exact Hy0|].
  apply IH; [intros; apply Hnn; now right | | exact Hx].
  rewrite Hy0 in Hs. rewrite <- Hs. ring.
Qed.

(* sum over positions of an indicator *)
Lemma Qsum_indicator (h : nat -> Q) (a s n : nat) :
  (s <= a < s + n)%nat ->
  Qsum (map (fun i => if (a =? i)%nat then h i else 0) (seq s n)) == h a.
Proof.
  revert s. induction n as [|n IH]; intros s Ha; [lia|].
  cbn [seq map Qsum].
  destruct (Nat.eqb_spec a s) as [->|Hne].
  - rewrite Qsum_map_zero; [ring|]. intros x Hx. apply in_seq in Hx.
    destruct (Nat.eqb_spec s x); [lia | reflexivity].
  - rewrite IH by lia. ring.
Qed.

Lemma map_nth_seq {X} (l : list X) d : map (fun i => nth i l d) (seq 0 (length l)) = l.
Proof.
  induction l as [|x l IH]; [reflexivity|].
  cbn [length seq map nth]. f_equal. rewrite <- seq_shift, map_map. exact IH.
Qed.

Lemma nth_map_seq {X} (f : nat -> X) n i d : (i < n)%nat -> nth i (map f (seq 0 n)) d = f i.
Proof.
  intros H. rewrite (nth_indep _ d (f 0%nat)) by (rewrite map_length, seq_length; exact H).
  rewrite (map_nth f (seq 0 n) 0%nat i), seq_nth by exact H. reflexivity.
Qed.

(* ---- conservation -------------------------------------------------------- *)

Section Conservation.
  Context (ops : Arith Q) (L : QLaws ops).
  Context {T : Type} (chi : T -> Q -> Q).
  Context (n : nat) (ty : nat -> T) (bonds : list (nat * nat)) (ch : nat -> Q).
  Context (damp scale : Q) (ncyc : nat).

  Local Notation nbrs := (nbrs bonds).
  Local Notation transfer := (transfer ops chi ty damp).
  Local Notation delta := (delta ops chi ty bonds damp).
  Local Notation efc := (efc ops ch scale).
  Local Notation abs_qges := (abs_qges ops n ch).
  Local Notation cycle := (cycle ops chi n ty bonds ch damp scale ncyc).
  Local Notation cycles := (cycles ops chi n ty bonds ch damp scale ncyc).

  Lemma fold_add_sum {X} (f : X -> Q) (l : list X) (z : Q) :
    fold_left (fun acc j => a_add ops acc (f j)) l z == z + Qsum (map f l).
  Proof.
    revert z. induction l as [|x l IH]; intros z; cbn; [ring|].
    rewrite IH, (l_add ops L). ring.
  Qed.

  (* the pair transfer is antisymmetric: the normaliser chosen for (i,j) is the
     one chosen for (j,i) whenever the electronegativities differ *)
  Lemma transfer_antisym (q : nat -> Q) (k i j : nat) :
    transfer q k i j + transfer q k j i == 0.
  Proof.
    unfold Peoe.transfer.
    set (c1 := chi (ty i) (q i)). set (c2 := chi (ty j) (q j)).
    set (ni := chi (ty i) (a_ofZ ops 1)). set (nj := chi (ty j) (a_ofZ ops 1)).
    set (d := pow ops damp (S k)).
    rewrite !(l_mul ops L), !(l_div ops L), !(l_sub ops L).
    destruct (a_ltb ops c1 c2) eqn:E12; destruct (a_ltb ops c2 c1) eqn:E21.
    - apply (l_ltb ops L) in E12. apply (l_ltb ops L) in E21.
      exfalso. exact (Qlt_irrefl _ (Qlt_trans _ _ _ E12 E21)).
    - unfold Qdiv. ring.
    - unfold Qdiv. ring.
    - assert (H : c2 == c1).
      { apply Qle_antisym; apply Qnot_lt_le; intro H; apply (l_ltb ops L) in H; congruence. }
      unfold Qdiv. rewrite H. ring.
  Qed.

  Lemma delta_sum (q : nat -> Q) (k i : nat) :
    delta q k i == Qsum (map (transfer q k i) (nbrs i)).
  Proof. unfold Peoe.delta. rewrite fold_add_sum, (l_zero ops L). ring. Qed.

  (* sum over atoms of sums over bonded atoms = sum over bonds of both directions *)
  Lemma double_sum (g : nat -> nat -> Q) :
    bonds_ok n bonds = true ->
    Qsum (map (fun i => Qsum (map (g i) (nbrs i))) (seq 0 n)) ==
    Qsum (map (fun b => g (fst b) (snd b) + g (snd b) (fst b)) bonds).
  Proof.
    unfold bonds_ok, Peoe.nbrs. induction bonds as [|b bs IH]; intros Hok.
    - cbn. apply Qsum_map_zero. reflexivity.
    - cbn [forallb] in Hok. apply andb_true_iff in Hok as [Hb Hok].
      apply andb_true_iff in Hb as [Ha Hb]. apply Nat.ltb_lt in Ha, Hb.
      cbn [flat_map map Qsum].
      rewrite <- (IH Hok).
      rewrite <- (Qsum_indicator (fun i => g i (snd b)) (fst b) 0 n) by lia.
      rewrite <- (Qsum_indicator (fun i => g i (fst b)) (snd b) 0 n) by lia.
      rewrite <- !Qsum_map_plus. apply Qsum_map_ext. intros i _.
      rewrite !map_app, !Qsum_app.
      destruct (fst b =? i)%nat; destruct (snd b =? i)%nat; cbn; ring.
  Qed.

  Lemma delta_total (q : nat -> Q) (k : nat) :
    bonds_ok n bonds = true -> Qsum (map (delta q k) (seq 0 n)) == 0.
  Proof.
    intros Hok.
    rewrite (Qsum_map_ext _ (fun i => Qsum (map (transfer q k i) (nbrs i)))) by (intros; apply delta_sum).
    rewrite (double_sum (transfer q k) Hok).
    apply Qsum_map_zero. intros b _. apply transfer_antisym.
  Qed.

  Lemma is0_iff x : is0 ops x = true <-> x == 0.
  Proof. unfold is0. rewrite (l_eqb ops L), (l_zero ops L). reflexivity. Qed.

  (* what one cycle adds to atom i besides the transfers *)
  Definition share (i : nat) : Q :=
    if is0 ops abs_qges then 0 else (1 / inject_Z (Z.of_nat ncyc)) * efc i.

  Lemma cycle_length q k : length (cycle q k) = n.
  Proof. unfold Peoe.cycle, atoms. now rewrite map_length, seq_length. Qed.

  Lemma cycle_sum q k :
    bonds_ok n bonds = true -> length q = n ->
    Qsum (cycle q k) == Qsum q + Qsum (map share (seq 0 n)).
  Proof.
    intros Hok Hlen. unfold Peoe.cycle, atoms, share. cbv zeta.
    set (qf := fun i => nth i q (a_zero ops)).
    rewrite (Qsum_map_ext _ (fun i => qf i + (delta qf k i +
              (if is0 ops abs_qges then 0 else 1 / inject_Z (Z.of_nat ncyc) * efc i)))).
    2:{ intros i _. cbv beta. destruct (is0 ops abs_qges).
        - rewrite (l_add ops L). unfold qf. ring.
        - rewrite !(l_add ops L), (l_mul ops L), (l_div ops L), (l_one ops L), (l_ofZ ops L). reflexivity. }
    rewrite Qsum_map_plus, Qsum_map_plus, (delta_total qf k Hok).
    unfold qf. rewrite <- Hlen at 1. rewrite map_nth_seq. ring.
  Qed.

  Lemma cycles_length q k m : length q = n -> length (cycles q k m) = n.
  Proof. revert q k. induction m as [|m IH]; intros q k H; cbn; [exact H|]. apply IH, cycle_length. Qed.

  Lemma cycles_sum q k m :
    bonds_ok n bonds = true -> length q = n ->
    Qsum (cycles q k m) == Qsum q + inject_Z (Z.of_nat m) * Qsum (map share (seq 0 n)).
  Proof.
    intros Hok. revert q k. induction m as [|m IH]; intros q k Hlen.
    - cbn [Peoe.cycles]. change (inject_Z (Z.of_nat 0)) with 0. ring.
    - cbn [Peoe.cycles]. rewrite IH by apply cycle_length. rewrite (cycle_sum q k Hok Hlen).
      rewrite Nat2Z.inj_succ, <- Z.add_1_r, inject_Z_plus. ring.
  Qed.

  Lemma abs_fold (l : list nat) (z : Q) :
    fold_left (fun acc i => if is0 ops (ch i) then acc else a_add ops acc (a_abs ops (ch i))) l z ==
    z + Qsum (map (fun i => if is0 ops (ch i) then 0 else Qabs (ch i)) l).
  Proof.
    revert z. induction l as [|i l IH]; intros z; cbn [fold_left map Qsum]; [ring|].
    rewrite IH. destruct (is0 ops (ch i)); [ring|]. rewrite (l_add ops L), (l_abs ops L). ring.
  Qed.

  Lemma abs_qges_sum :
    abs_qges == Qsum (map (fun i => if is0 ops (ch i) then 0 else Qabs (ch i)) (seq 0 n)).
  Proof. unfold Peoe.abs_qges, atoms. rewrite abs_fold, (l_zero ops L). ring. Qed.

  (* abs_qges == 0 exactly when there is no charged atom *)
  Lemma abs_qges_zero_iff :
    is0 ops abs_qges = true <-> (forall i, (i < n)%nat -> ch i == 0).
  Proof.
    rewrite is0_iff, abs_qges_sum. split.
    - intros Hs i Hi.
      assert (Hin : In (if is0 ops (ch i) then 0 else Qabs (ch i))
                       (map (fun i => if is0 ops (ch i) then 0 else Qabs (ch i)) (seq 0 n))).
      { apply in_map_iff. exists i. split; [reflexivity | apply in_seq; lia]. }
      assert (Hnn : forall x, In x (map (fun i => if is0 ops (ch i) then 0 else Qabs (ch i)) (seq 0 n)) -> 0 <= x).
      { intros x Hx. apply in_map_iff in Hx as [j [<- _]].
        destruct (is0 ops (ch j)); [apply Qle_refl | apply Qabs_nonneg]. }
      pose proof (Qsum_nonneg_zero _ Hnn Hs _ Hin) as H0.
      destruct (is0 ops (ch i)) eqn:E; [now apply is0_iff|].
      assert (Hle : Qabs (ch i) <= 0) by (rewrite H0; apply Qle_refl).
      apply Qabs_Qle_condition in Hle. destruct Hle as [H1 H2]. lra.
    - intros Hall. apply Qsum_map_zero. intros i Hi. apply in_seq in Hi.
      destruct (is0 ops (ch i)) eqn:E; [reflexivity|].
      rewrite (Hall i) by lia. reflexivity.
  Qed.

  Lemma efc_eq i : efc i == ch i * (1 / scale).
  Proof.
    unfold Peoe.efc. destruct (is0 ops (ch i)) eqn:E.
    - apply is0_iff in E. rewrite E, (l_zero ops L). ring.
    - rewrite (l_mul ops L), (l_div ops L), (l_one ops L). reflexivity.
  Qed.

  (* sum of the charges returned by equilibrate = sum of the charges on entry *)
  Theorem peoe_conserves :
    bonds_ok n bonds = true -> ~ scale == 0 -> ncyc <> 0%nat ->
    Qsum (equilibrate ops chi n ty bonds ch damp scale ncyc) == Qsum (map ch (seq 0 n)).
  Proof.
    intros Hok Hscale Hn. unfold Peoe.equilibrate.
    rewrite <- (map_id (Peoe.cycles _ _ _ _ _ _ _ _ _ _ _ _)) at 1. rewrite map_map.
    rewrite (Qsum_map_ext _ (fun x => scale * x)) by (intros; apply (l_mul ops L)).
    rewrite Qsum_map_scale, map_id.
    rewrite (cycles_sum _ _ _ Hok) by apply repeat_length.
    assert (H0 : forall m, Qsum (repeat (a_zero ops) m) == 0).
    { induction m as [|m IH]; cbn [repeat Qsum]; [reflexivity|]. rewrite IH, (l_zero ops L). ring. }
    rewrite H0. unfold share.
    destruct (is0 ops abs_qges) eqn:E.
    - pose proof (proj1 abs_qges_zero_iff E) as E'.
      rewrite (Qsum_map_zero ch) by (intros i Hi; apply in_seq in Hi; apply E'; lia).
      rewrite Qsum_map_zero by reflexivity. ring.
    - rewrite Qsum_map_scale.
      rewrite (Qsum_map_ext efc (fun i => (1 / scale) * ch i)) by (intros; rewrite efc_eq; ring).
      rewrite Qsum_map_scale.
      assert (Hc : ~ inject_Z (Z.of_nat ncyc) == 0).
      { intro H. apply Hn. unfold Qeq in H. cbn in H. lia. }
      field. split; assumption.
  Qed.

  (* with zero cycles nothing is assigned: every charge is scale * 0 *)
  Lemma peoe_zero_cycles :
    ncyc = 0%nat -> Qsum (equilibrate ops chi n ty bonds ch damp scale ncyc) == 0.
  Proof.
    intros ->. unfold Peoe.equilibrate. cbn [Peoe.cycles].
    generalize n as m. induction m as [|m IH]; cbn [repeat map Qsum]; [reflexivity|].
    rewrite IH, (l_mul ops L), (l_zero ops L). ring.
  Qed.
End Conservation.

(* ---- equivariance under relabelling of the atoms ------------------------- *)

Lemma fold_left_map {X Y Z} (f : Z -> Y -> Z) (g : X -> Y) l z :
  fold_left f (map g l) z = fold_left (fun a x => f a (g x)) l z.
Proof. revert z. induction l as [|x l IH]; intros z; cbn; [reflexivity | apply IH]. Qed.

Lemma fold_left_ext_in {X Z} (f g : Z -> X -> Z) l z :
  (forall a x, In x l -> f a x = g a x) -> fold_left f l z = fold_left g l z.
Proof.
  revert z. induction l as [|x l IH]; intros z H; cbn; [reflexivity|].
  rewrite (H z x (or_introl eq_refl)). apply IH. intros; apply H; now right.
Qed.

Lemma nbrs_lt n bonds i j : bonds_ok n bonds = true -> In j (nbrs bonds i) -> (j < n)%nat.
Proof.
  unfold bonds_ok, nbrs. induction bonds as [|b bs IH]; cbn [forallb flat_map]; intros Hok Hin; [contradiction|].
  apply andb_true_iff in Hok as [Hb Hok]. apply andb_true_iff in Hb as [Ha Hb].
  apply Nat.ltb_lt in Ha, Hb.
  apply in_app_or in Hin as [Hin|Hin]; [|exact (IH Hok Hin)].
  apply in_app_or in Hin as [Hin|Hin].
  - destruct (fst b =? i)%nat; [destruct Hin as [<-|[]]; exact Hb | contradiction].
  - destruct (snd b =? i)%nat; [destruct Hin as [<-|[]]; exact Ha | contradiction].
Qed.

Section Equivariance.
  Context (ops : Arith Q) (L : QLaws ops).
  Context {T : Type} (chi : T -> Q -> Q).
  Context (n : nat) (ty : nat -> T) (bonds : list (nat * nat)) (ch : nat -> Q).
  Context (damp scale : Q) (ncyc : nat).
  (* old position -> new position and back *)
  Context (sigma tau : nat -> nat).
  Context (Hsigma : forall i, (i < n)%nat -> (sigma i < n)%nat).
  Context (Htau : forall k, (k < n)%nat -> (tau k < n)%nat).
  Context (Hts : forall i, (i < n)%nat -> tau (sigma i) = i).
  Context (Hst : forall k, (k < n)%nat -> sigma (tau k) = k).
  Context (Hok : bonds_ok n bonds = true).

  Definition ty' : nat -> T := fun k => ty (tau k).
  Definition ch' : nat -> Q := fun k => ch (tau k).
  Definition bonds' : list (nat * nat) := map (fun b => (sigma (fst b), sigma (snd b))) bonds.

  Lemma sigma_inj i j : (i < n)%nat -> (j < n)%nat -> (sigma i =? sigma j)%nat = (i =? j)%nat.
  Proof.
    intros Hi Hj. destruct (Nat.eqb_spec i j) as [->|Hne]; [apply Nat.eqb_refl|].
    apply Nat.eqb_neq. intro H. apply Hne. rewrite <- (Hts i Hi), <- (Hts j Hj), H. reflexivity.
  Qed.

  Lemma bonds_in_lt b : In b bonds -> (fst b < n)%nat /\ (snd b < n)%nat.
  Proof.
    intros Hin. unfold bonds_ok in Hok. rewrite forallb_forall in Hok.
    specialize (Hok b Hin). apply andb_true_iff in Hok as [Ha Hb].
    apply Nat.ltb_lt in Ha, Hb. split; assumption.
  Qed.

  Lemma bonds'_ok : bonds_ok n bonds' = true.
  Proof.
    unfold bonds_ok, bonds'. apply forallb_forall. intros b' Hin.
    apply in_map_iff in Hin as [b [<- Hin]]. destruct (bonds_in_lt b Hin) as [Ha Hb].
    cbn [fst snd]. apply andb_true_iff. split; apply Nat.ltb_lt; apply Hsigma; assumption.
  Qed.

  Lemma nbrs_map (bs : list (nat * nat)) i :
    (i < n)%nat -> (forall b, In b bs -> (fst b < n)%nat /\ (snd b < n)%nat) ->
    nbrs (map (fun b => (sigma (fst b), sigma (snd b))) bs) (sigma i) = map sigma (nbrs bs i).
  Proof.
    intros Hi. unfold nbrs. induction bs as [|b bs IH]; intros Hlt; [reflexivity|].
    cbn [map flat_map fst snd]. rewrite map_app, IH by (intros; apply Hlt; now right).
    destruct (Hlt b (or_introl eq_refl)) as [Ha Hb].
    rewrite !sigma_inj by assumption. rewrite map_app.
    destruct (fst b =? i)%nat; destruct (snd b =? i)%nat; reflexivity.
  Qed.

  Lemma nbrs' i : (i < n)%nat -> nbrs bonds' (sigma i) = map sigma (nbrs bonds i).
  Proof. intros Hi. apply nbrs_map; [exact Hi | exact bonds_in_lt]. Qed.

  Local Notation transfer0 := (transfer ops chi ty damp).
  Local Notation transfer1 := (transfer ops chi ty' damp).
  Local Notation delta0 := (delta ops chi ty bonds damp).
  Local Notation delta1 := (delta ops chi ty' bonds' damp).

  Lemma transfer_rel (q q' : nat -> Q) k i j :
    (i < n)%nat -> (j < n)%nat -> q' (sigma i) = q i -> q' (sigma j) = q j ->
    transfer1 q' k (sigma i) (sigma j) = transfer0 q k i j.
  Proof.
    intros Hi Hj Hqi Hqj. unfold transfer, ty'. rewrite !Hts, Hqi, Hqj by assumption. reflexivity.
  Qed.

  Lemma delta_rel (q q' : nat -> Q) k i :
    (i < n)%nat -> (forall j, (j < n)%nat -> q' (sigma j) = q j) ->
    delta1 q' k (sigma i) = delta0 q k i.
  Proof.
    intros Hi Hq. unfold delta. rewrite nbrs', fold_left_map by assumption.
    apply fold_left_ext_in. intros a j Hj. apply (nbrs_lt n bonds i j Hok) in Hj.
    rewrite (transfer_rel q q' k i j) by (try assumption; apply Hq; assumption). reflexivity.
  Qed.

  Lemma abs_rel : is0 ops (abs_qges ops n ch') = is0 ops (abs_qges ops n ch).
  Proof.
    pose proof (abs_qges_zero_iff ops L n ch) as H0.
    pose proof (abs_qges_zero_iff ops L n ch') as H1.
    destruct (is0 ops (abs_qges ops n ch')) eqn:E1; destruct (is0 ops (abs_qges ops n ch)) eqn:E0;
      try reflexivity; exfalso.
    - assert (H : forall i, (i < n)%nat -> ch i == 0).
      { intros i Hi. rewrite <- (Hts i Hi). apply (proj1 H1 eq_refl (sigma i)). apply Hsigma, Hi. }
      apply H0 in H. discriminate.
    - assert (H : forall k, (k < n)%nat -> ch' k == 0).
      { intros k Hk. unfold ch'. apply (proj1 H0 eq_refl). apply Htau, Hk. }
      apply H1 in H. discriminate.
  Qed.

  Local Notation cycle0 := (cycle ops chi n ty bonds ch damp scale ncyc).
  Local Notation cycle1 := (cycle ops chi n ty' bonds' ch' damp scale ncyc).
  Local Notation cycles0 := (cycles ops chi n ty bonds ch damp scale ncyc).
  Local Notation cycles1 := (cycles ops chi n ty' bonds' ch' damp scale ncyc).

  Definition related (q q' : list Q) : Prop :=
    forall j, (j < n)%nat -> nth (sigma j) q' (a_zero ops) = nth j q (a_zero ops).

  Lemma cycle_rel q q' k : related q q' -> related (cycle0 q k) (cycle1 q' k).
  Proof.
    intros Hq i Hi. unfold cycle, atoms.
    rewrite !nth_map_seq by (try apply Hsigma; assumption).
    rewrite abs_rel.
    rewrite (delta_rel (fun i => nth i q (a_zero ops)) (fun i => nth i q' (a_zero ops)) k i Hi Hq).
    rewrite (Hq i Hi). unfold efc, ch'. rewrite (Hts i Hi). reflexivity.
  Qed.

  Lemma cycles_rel q q' k m : related q q' -> related (cycles0 q k m) (cycles1 q' k m).
  Proof.
    revert q q' k. induction m as [|m IH]; intros q q' k Hq; cbn [cycles]; [exact Hq|].
    apply IH, cycle_rel, Hq.
  Qed.

  (* the charge computed for the atom at new position sigma i is the charge
     computed for the atom at old position i - identical, not just close *)
  Theorem peoe_equivariant i :
    (i < n)%nat ->
    nth_error (equilibrate ops chi n ty' bonds' ch' damp scale ncyc) (sigma i) =
    nth_error (equilibrate ops chi n ty bonds ch damp scale ncyc) i.
  Proof.
    intros Hi. unfold equilibrate.
    assert (Hrel : related (cycles0 (repeat (a_zero ops) n) 0 ncyc) (cycles1 (repeat (a_zero ops) n) 0 ncyc)).
    { apply cycles_rel. intros j Hj. rewrite !nth_repeat. reflexivity. }
    rewrite !nth_error_map.
    rewrite (nth_error_nth' _ (a_zero ops)) by (rewrite cycles_length; [apply Hsigma, Hi | apply repeat_length]).
    rewrite (nth_error_nth' _ (a_zero ops)) by (rewrite cycles_length; [exact Hi | apply repeat_length]).
    rewrite (Hrel i Hi). reflexivity.
  Qed.
End Equivariance.

(* ---- radii and normalisers: finite tables -------------------------------- *)

Lemma lookup_in {V} k (l : list (string * V)) v : lookup k l = Some v -> In (k, v) l.
Proof.
  induction l as [|[k' v'] l IH]; cbn [lookup]; [discriminate|].
  destruct (String.eqb_spec k k') as [->|Hne]; intros H.
  - injection H as ->. now left.
  - right. exact (IH H).
Qed.

Definition all_positive (l : list (string * Z)) : bool := forallb (fun kv => (0 <? snd kv)%Z) l.

Lemma tables_positive : all_positive ZAP9 = true /\ all_positive BONDI = true.
Proof. split; vm_compute; reflexivity. Qed.

Lemma lookup_positive k l r : all_positive l = true -> lookup k l = Some r -> (0 < r)%Z.
Proof.
  intros Hall Hl. apply lookup_in in Hl. unfold all_positive in Hall.
  rewrite forallb_forall in Hall. specialize (Hall _ Hl). now apply Z.ltb_lt in Hall.
Qed.

(* whatever the type string, a radius that is returned is an entry of the
   zap9 table or, failing that, of the Bondi table - under the type or the
   upper-cased element - and is positive; otherwise the code raises KeyError *)
Theorem radius_positive t r :
  radius_of t = Some r ->
  (0 < r)%Z /\
  (In (t, r) ZAP9 \/ In (upper (before_dot t), r) ZAP9 \/
   In (t, r) BONDI \/ In (upper (before_dot t), r) BONDI).
Proof.
  destruct tables_positive as [Hz Hb]. unfold radius_of.
  destruct (lookup t ZAP9) eqn:E1.
  { intros H; injection H as ->. split; [exact (lookup_positive _ _ _ Hz E1) | left; exact (lookup_in _ _ _ E1)]. }
  destruct (lookup (upper (before_dot t)) ZAP9) eqn:E2.
  { intros H; injection H as ->. split; [exact (lookup_positive _ _ _ Hz E2) | right; left; exact (lookup_in _ _ _ E2)]. }
  destruct (lookup t BONDI) eqn:E3.
  { intros H; injection H as ->. split; [exact (lookup_positive _ _ _ Hb E3) | right; right; left; exact (lookup_in _ _ _ E3)]. }
  intros E4. split; [exact (lookup_positive _ _ _ Hb E4) | right; right; right; exact (lookup_in _ _ _ E4)].
Qed.

(* every supported Sybyl type has a radius, a valence, a non-bonded count and
   polynomial terms, and its normaliser chi(+1) is positive *)
Definition supported_ok (t : string) : bool :=
  match radius_of t, lookup (before_dot t) VALENCE, lookup t NONBONDED2, poly_terms QA t with
  | Some r, Some _, Some _, Some _ =>
      (0 <? r)%Z && negb (Qle_bool (chi_code QA t (a_ofZ QA 1)) 0)
  | _, _, _, _ => false
  end.

Lemma supported_table : forallb supported_ok SUPPORTED = true.
Proof. vm_compute. reflexivity. Qed.

Theorem supported_complete t :
  In t SUPPORTED ->
  (exists r, radius_of t = Some r /\ (0 < r)%Z) /\
  lookup (before_dot t) VALENCE <> None /\ lookup t NONBONDED2 <> None /\
  poly_terms QA t <> None /\ 0 < chi_code QA t (a_ofZ QA 1).
Proof.
  intros Hin. pose proof supported_table as H. rewrite forallb_forall in H.
  specialize (H t Hin). unfold supported_ok in H.
  destruct (radius_of t) as [r|]; [|discriminate].
  destruct (lookup (before_dot t) VALENCE); [|discriminate].
  destruct (lookup t NONBONDED2); [|discriminate].
  destruct (poly_terms QA t); [|discriminate].
  apply andb_true_iff in H as [Hr Hc]. apply Z.ltb_lt in Hr.
  repeat split; try discriminate.
  - exists r. split; [reflexivity | exact Hr].
  - apply Qnot_le_lt. intro Hle. apply Qle_bool_iff in Hle. rewrite Hle in Hc. discriminate.
Qed.

(* ---- Mol2Molecule.assign_parameters: conservation end to end -------------- *)

Lemma all_some_length {V} (l : list (option V)) r : all_some l = Some r -> length r = length l.
Proof.
  revert r. induction l as [|[v|] l IH]; cbn [all_some]; intros r H; try discriminate.
  - injection H as <-. reflexivity.
  - destruct (all_some l); [|discriminate]. injection H as <-. cbn [length]. f_equal. now apply IH.
Qed.

Lemma map_snd_combine {X Y} (a : list X) (b : list Y) : length a = length b -> map snd (combine a b) = b.
Proof.
  revert b. induction a as [|x a IH]; intros [|y b] H; cbn in *; try reflexivity; try discriminate.
  f_equal. apply IH. now injection H.
Qed.

Lemma map_fst_combine {X Y} (a : list X) (b : list Y) : length a = length b -> map fst (combine a b) = a.
Proof.
  revert b. induction a as [|x a IH]; intros [|y b] H; cbn in *; try reflexivity; try discriminate.
  f_equal. apply IH. now injection H.
Qed.

Lemma equilibrate_length {A T} (ops : Arith A) (chi : T -> A -> A) n ty bonds ch damp scale ncyc :
  length (equilibrate ops chi n ty bonds ch damp scale ncyc) = n.
Proof.
  unfold equilibrate. rewrite map_length.
  assert (H : forall m q k, length q = n -> length (cycles ops chi n ty bonds ch damp scale ncyc q k m) = n).
  { induction m as [|m IH]; intros q k Hq; cbn [cycles]; [exact Hq|].
    apply IH. unfold cycle, atoms. now rewrite map_length, seq_length. }
  apply H, repeat_length.
Qed.

Lemma Some_inj {X} (a b : X) : Some a = Some b -> a = b.
Proof. intros H. now injection H. Qed.

Lemma scaling_nonzero : ~ scaling QA == 0.
Proof. intro H. vm_compute in H. discriminate H. Qed.

(* For any molecule on which assign_parameters succeeds (with >= 1 cycle; the
   code uses 6): one (radius, charge) per atom, every radius positive and from
   the tables, and the charges sum to the sum of the formal charges. *)
Theorem assign_parameters_sound (m : mol) (ncyc : nat) (ps : list (Z * Q)) :
  ncyc <> 0%nat ->
  assign_parameters_n QA m ncyc = Some ps ->
  exists fc2,
    formal_charges2 m = Some fc2 /\
    length ps = m_n m /\
    (forall p, In p ps -> (0 < fst p)%Z) /\
    map (fun p => Some (fst p)) ps = map radius_of (m_types m) /\
    Qsum (map snd ps) == Qsum (map (fun z => half QA z) fc2).
Proof.
  intros Hn. unfold assign_parameters_n.
  destruct (mol_ok m) eqn:Hok; [|discriminate]. cbn [negb].
  destruct (all_some (map radius_of (m_types m))) as [radii|] eqn:Hr; [|discriminate].
  destruct (formal_charges2 m) as [fc2|] eqn:Hf; [|discriminate].
  destruct (forallb _ (m_types m)); [|discriminate]. cbn [negb].
  intros H. apply Some_inj in H. subst ps. exists fc2.
  pose proof (all_some_length _ _ Hr) as Lr. rewrite map_length in Lr.
  pose proof (all_some_length _ _ Hf) as Lf. rewrite map_length, seq_length in Lf.
  assert (Le : length (equilibrate_code QA m fc2 (damping QA) (scaling QA) ncyc) = m_n m)
    by apply equilibrate_length.
  assert (Hradii : map Some radii = map radius_of (m_types m)).
  { clear -Hr. revert radii Hr. induction (m_types m) as [|t l IH]; cbn [map all_some]; intros radii Hr.
    - injection Hr as <-. reflexivity.
    - destruct (radius_of t); [|discriminate]. destruct (all_some (map radius_of l)); [|discriminate].
      injection Hr as <-. cbn [map]. f_equal. now apply IH. }
  split; [reflexivity|]. split; [rewrite combine_length, Lr, Le; apply Nat.min_id|].
  split; [|split].
  - intros p Hp. apply (in_map fst) in Hp. rewrite map_fst_combine in Hp by (rewrite Lr, Le; reflexivity).
    assert (Hin : In (Some (fst p)) (map radius_of (m_types m))) by (rewrite <- Hradii; now apply in_map).
    apply in_map_iff in Hin as [t [Ht _]]. exact (proj1 (radius_positive _ _ Ht)).
  - rewrite <- Hradii, <- (map_map fst Some), map_fst_combine by (rewrite Lr, Le; reflexivity). reflexivity.
  - rewrite map_snd_combine by (rewrite Lr, Le; reflexivity).
    unfold equilibrate_code. unfold mol_ok in Hok.
    rewrite (peoe_conserves QA QA_laws (chi_code QA) (m_n m) (m_ty m) (m_pairs m) _ _ _ ncyc Hok scaling_nonzero Hn).
    rewrite <- (map_map (fun i => nth i fc2 0%Z) (fun z => half QA z)).
    rewrite <- Lf, map_nth_seq. reflexivity.
Qed.

(* ---- the ligand transfer loop of main.non_trivial ------------------------- *)

Inductive sub {X : Type} : list X -> list X -> Prop :=
| sub_nil : sub [] []
| sub_skip x l' l : sub l' l -> sub l' (x :: l)
| sub_keep x l' l : sub l' l -> sub (x :: l') (x :: l).

Lemma sub_nil_l {X} (l : list X) : sub [] l.
Proof. induction l; constructor; assumption. Qed.

Lemma sub_refl {X} (l : list X) : sub l l.
Proof. induction l; constructor; assumption. Qed.

Lemma sub_filter {X} (p : X -> bool) l : sub (filter p l) l.
Proof. induction l as [|x l IH]; cbn [filter]; [constructor|]. destruct (p x); constructor; exact IH. Qed.

Lemma sub_trans {X} (a b c : list X) : sub a b -> sub b c -> sub a c.
Proof.
  intros Hab Hbc. revert a Hab. induction Hbc as [|x b c Hbc IH|x b c Hbc IH]; intros a Hab.
  - exact Hab.
  - constructor. apply IH, Hab.
  - inversion Hab as [|y a' b' Ha|y a' b' Ha]; subst.
    + constructor. apply IH, Ha.
    + apply sub_keep. apply IH, Ha.
Qed.

Lemma sub_app {X} (a b c d : list X) : sub a b -> sub c d -> sub (a ++ c) (b ++ d).
Proof. intros Hab Hcd. induction Hab; cbn [app]; [exact Hcd | constructor; assumption | constructor; assumption]. Qed.

Lemma sub_flat_map {X Y} (f g : X -> list Y) l : (forall x, sub (f x) (g x)) -> sub (flat_map f l) (flat_map g l).
Proof. intros H. induction l as [|x l IH]; cbn [flat_map]; [constructor | apply sub_app; [apply H | exact IH]]. Qed.

Lemma sub_map {X Y} (f : X -> Y) a b : sub a b -> sub (map f a) (map f b).
Proof. intros H. induction H; cbn [map]; constructor; assumption. Qed.

Lemma sub_In {X} (a b : list X) x : sub a b -> In x a -> In x b.
Proof.
  intros H. induction H as [|y a b H IH|y a b H IH]; cbn [In]; intros Hx; [exact Hx | right; exact (IH Hx)|].
  destruct Hx as [->|Hx]; [now left | right; exact (IH Hx)].
Qed.

Lemma sub_NoDup {X} (a b : list X) : sub a b -> NoDup b -> NoDup a.
Proof.
  intros H. induction H as [|y a b H IH|y a b H IH]; intros Hb.
  - exact Hb.
  - inversion Hb; subst. now apply IH.
  - inversion Hb as [|z l Hni Hnd]; subst. constructor; [|now apply IH].
    intro Hin. apply Hni. exact (sub_In _ _ _ H Hin).
Qed.

Lemma sub_app_l {X} (a b : list X) : sub a (a ++ b).
Proof. rewrite <- (app_nil_r a) at 1. apply sub_app; [apply sub_refl | apply sub_nil_l]. Qed.

Lemma sub_app_r {X} (a b : list X) : sub b (a ++ b).
Proof. change b with ([] ++ b)%list at 1. apply sub_app; [apply sub_nil_l | apply sub_refl]. Qed.

Lemma NoDup_map_inj {X Y} (f : X -> Y) l a b :
  NoDup (map f l) -> In a l -> In b l -> f a = f b -> a = b.
Proof.
  induction l as [|x l IH]; cbn [map In]; intros Hnd Ha Hb Hf; [contradiction|].
  inversion Hnd as [|y l' Hni Hnd']; subst.
  destruct Ha as [->|Ha]; destruct Hb as [->|Hb]; try reflexivity.
  - exfalso. apply Hni. rewrite Hf. now apply in_map.
  - exfalso. apply Hni. rewrite <- Hf. now apply in_map.
  - now apply IH.
Qed.

Lemma NoDup_app_disjoint {X} (a b : list X) :
  NoDup a -> NoDup b -> (forall x, In x a -> In x b -> False) -> NoDup (a ++ b).
Proof.
  induction a as [|x a IH]; cbn [app]; intros Ha Hb Hd; [exact Hb|].
  inversion Ha as [|y l Hni Hnd]; subst. constructor.
  - intro Hin. apply in_app_or in Hin as [Hin|Hin]; [exact (Hni Hin) | exact (Hd x (or_introl eq_refl) Hin)].
  - apply IH; [exact Hnd | exact Hb | intros z Hz; apply Hd; now right].
Qed.

Lemma NoDup_app_In {X} (l1 l2 : list X) x : NoDup (l1 ++ l2) -> In x l1 -> In x l2 -> False.
Proof.
  induction l1 as [|y l1 IH]; cbn [app In]; intros Hnd H1 H2; [contradiction|].
  inversion Hnd as [|z l Hni Hnd']; subst.
  destruct H1 as [Heq|H1]; [|exact (IH Hnd' H1 H2)].
  subst y. apply Hni, in_or_app. now right.
Qed.

Section TransferProofs.
  Context {P : Type}.
  Local Notation patom := (patom P).
  Local Notation presidue := (presidue P).
  Context (lig : list (string * P)).

  (* atoms of one residue the loop looks at: up to the first ATOM-typed atom *)
  Fixpoint het_prefix (l : list patom) : list patom :=
    match l with
    | [] => []
    | a :: r => if pa_het a then a :: het_prefix r else []
    end.

  Definition named (a : patom) : bool :=
    match lookup (pa_name a) lig with Some _ => true | None => false end.

  (* atoms of one residue that receive ligand parameters when it is visited *)
  Definition vis (l : list patom) : list patom := filter named (het_prefix l).

  Definition all_atoms (rs : list presidue) : list patom := flat_map pr_atoms rs.

  Lemma sub_het_prefix l : sub (het_prefix l) l.
  Proof.
    induction l as [|a l IH]; cbn [het_prefix]; [constructor|].
    destruct (pa_het a); [constructor; exact IH | apply sub_nil_l].
  Qed.

  Lemma sub_vis l : sub (vis l) l.
  Proof. exact (sub_trans _ _ _ (sub_filter _ _) (sub_het_prefix l)). Qed.

  (* state after the inner loop over one residue *)
  Lemma visit_lig st l : ts_lig (visit_atoms lig st l) = (ts_lig st ++ map pa_id (vis l))%list.
  Proof.
    revert st. unfold vis. induction l as [|a l IH]; intros st; cbn [visit_atoms het_prefix filter map].
    - now rewrite app_nil_r.
    - destruct (pa_het a); cbn [negb filter map]; [|now rewrite app_nil_r].
      unfold named at 1. destruct (lookup (pa_name a) lig) as [p|]; rewrite IH; cbn [ts_lig map].
      + now rewrite <- app_assoc.
      + reflexivity.
  Qed.

  Lemma visit_param_other st l i :
    (forall a, In a (vis l) -> pa_id a <> i) ->
    ts_param (visit_atoms lig st l) i = ts_param st i.
  Proof.
    revert st. unfold vis. induction l as [|a l IH]; intros st Hne; cbn [visit_atoms]; [reflexivity|].
    cbn [het_prefix] in Hne. destruct (pa_het a); cbn [negb]; [|reflexivity].
    cbn [filter] in Hne. unfold named at 1 in Hne.
    destruct (lookup (pa_name a) lig) as [p|].
    - rewrite IH by (intros b Hb; apply Hne; now right). cbn [ts_param].
      destruct (Nat.eqb_spec i (pa_id a)) as [->|]; [|reflexivity].
      exfalso. exact (Hne a (or_introl eq_refl) eq_refl).
    - rewrite IH by exact Hne. reflexivity.
  Qed.

  Lemma visit_param_hit st l a p :
    NoDup (map pa_id l) -> In a (vis l) -> lookup (pa_name a) lig = Some p ->
    ts_param (visit_atoms lig st l) (pa_id a) = Some p.
  Proof.
    revert st. unfold vis. induction l as [|b l IH]; intros st Hnd Hin Hp; cbn [het_prefix filter] in Hin; [contradiction|].
    cbn [visit_atoms]. cbn [map] in Hnd. inversion Hnd as [|x y Hni Hnd']; subst.
    destruct (pa_het b); cbn [negb]; [|contradiction].
    cbn [filter] in Hin. unfold named at 1 in Hin.
    destruct (lookup (pa_name b) lig) as [pb|] eqn:Eb.
    - destruct Hin as [->|Hin].
      + rewrite visit_param_other.
        * cbn [ts_param]. rewrite Nat.eqb_refl. congruence.
        * intros c Hc Heq. apply Hni. rewrite <- Heq. apply in_map. exact (sub_In _ _ _ (sub_vis l) Hc).
      + apply IH; assumption.
    - apply IH; assumption.
  Qed.

  Lemma ff_param_in rs a :
    NoDup (map pa_id (all_atoms rs)) -> In a (all_atoms rs) -> ff_param rs (pa_id a) = pa_ff a.
  Proof.
    unfold ff_param, all_atoms. generalize (flat_map pr_atoms rs) as l.
    induction l as [|b l IH]; cbn [map find In]; intros Hnd Hin; [contradiction|].
    inversion Hnd as [|x y Hni Hnd']; subst.
    destruct Hin as [->|Hin]; [now rewrite Nat.eqb_refl|].
    destruct (Nat.eqb_spec (pa_id b) (pa_id a)) as [Heq|Hne]; [|now apply IH].
    exfalso. apply Hni. rewrite Heq. now apply in_map.
  Qed.

  Lemma nmem_In i l : nmem i l = true <-> In i l.
  Proof.
    unfold nmem. rewrite existsb_exists. split.
    - intros [x [Hx He]]. apply Nat.eqb_eq in He. now subst.
    - intros H. exists i. split; [exact H | apply Nat.eqb_refl].
  Qed.

  (* ================= the loop as coded now (after the repair of F4) ========= *)
  Section Selected.
    Context (names : list string).        (* lig_names: the selected residue names *)

    (* what the loop visits in one residue *)
    Definition rvis (r : presidue) : list patom :=
      if selected names r then vis (pr_atoms r) else [].
    Definition all_vis (rs : list presidue) : list patom := flat_map rvis rs.
    (* the atoms of the selected residues = "the ligand's atoms" *)
    Definition ligand_ids (rs : list presidue) : list nat :=
      map pa_id (flat_map pr_atoms (filter (selected names) rs)).

    Local Notation step := (fun st r => if selected names r then visit_atoms lig st (pr_atoms r) else st).

    Lemma sub_rvis r : sub (rvis r) (pr_atoms r).
    Proof. unfold rvis. destruct (selected names r); [apply sub_vis | apply sub_nil_l]. Qed.

    Lemma sub_all_vis rs : sub (all_vis rs) (all_atoms rs).
    Proof. apply sub_flat_map. intros r. apply sub_rvis. Qed.

    Lemma step_lig st r : ts_lig (step st r) = (ts_lig st ++ map pa_id (rvis r))%list.
    Proof. unfold rvis. destruct (selected names r); [apply visit_lig | now rewrite app_nil_r]. Qed.

    Lemma step_param_other st r i :
      (forall a, In a (rvis r) -> pa_id a <> i) -> ts_param (step st r) i = ts_param st i.
    Proof. unfold rvis. destruct (selected names r); intros H; [now apply visit_param_other | reflexivity]. Qed.

    Lemma loop_lig_gen rs st :
      ts_lig (fold_left step rs st) = (ts_lig st ++ map pa_id (all_vis rs))%list.
    Proof.
      revert st. induction rs as [|r rs IH]; intros st; cbn [fold_left all_vis flat_map map].
      - now rewrite app_nil_r.
      - rewrite IH, step_lig, map_app, app_assoc. reflexivity.
    Qed.

    Lemma loop_lig rs : ts_lig (transfer_loop_on names lig rs) = map pa_id (all_vis rs).
    Proof. unfold transfer_loop_on. rewrite loop_lig_gen. reflexivity. Qed.

    Lemma loop_param_other_gen rs st i :
      (forall a, In a (all_vis rs) -> pa_id a <> i) ->
      ts_param (fold_left step rs st) i = ts_param st i.
    Proof.
      revert st. induction rs as [|r rs IH]; intros st Hne; cbn [fold_left]; [reflexivity|].
      cbn [all_vis flat_map] in Hne.
      rewrite IH by (intros a Ha; apply Hne, in_or_app; now right).
      apply step_param_other. intros a Ha. apply Hne, in_or_app. now left.
    Qed.

    Lemma loop_param_hit_gen rs st a p :
      NoDup (map pa_id (all_atoms rs)) -> In a (all_vis rs) -> lookup (pa_name a) lig = Some p ->
      ts_param (fold_left step rs st) (pa_id a) = Some p.
    Proof.
      revert st. induction rs as [|r rs IH]; intros st Hnd Hin Hp; cbn [all_vis flat_map] in Hin; [contradiction|].
      cbn [fold_left]. cbn [all_atoms flat_map] in Hnd. rewrite map_app in Hnd.
      apply in_app_or in Hin as [Hin|Hin].
      - rewrite loop_param_other_gen.
        + unfold rvis in Hin. destruct (selected names r); [|contradiction].
          apply visit_param_hit; [exact (sub_NoDup _ _ (sub_app_l _ _) Hnd) | exact Hin | exact Hp].
        + intros b Hb Heq.
          apply (NoDup_app_In _ _ (pa_id a) Hnd).
          * apply in_map. exact (sub_In _ _ _ (sub_rvis _) Hin).
          * rewrite <- Heq. apply in_map. exact (sub_In _ _ _ (sub_all_vis rs) Hb).
      - apply IH; [exact (sub_NoDup _ _ (sub_app_r _ _) Hnd) | exact Hin | exact Hp].
    Qed.

    (* whatever the loop touches lies in a selected residue *)
    Lemma vis_in_ligand rs a : In a (all_vis rs) -> In (pa_id a) (ligand_ids rs).
    Proof.
      unfold all_vis, ligand_ids. intros Hin. apply in_flat_map in Hin as [r [Hr Ha]].
      unfold rvis in Ha. destruct (selected names r) eqn:Hs; [|contradiction].
      apply in_map, in_flat_map. exists r. split.
      - apply filter_In. split; assumption.
      - exact (sub_In _ _ _ (sub_vis _) Ha).
    Qed.

    (* ---- the property ----------------------------------------------------- *)

    (* (1) every atom line whose atom is outside the selected residues carries
           the force field's parameters,
       (2) no atom is written twice,
       (3) each atom of a selected residue (up to its first ATOM record) that
           the MOL2 file names is written with the MOL2 parameters,
       (4) ... exactly once *)
    Definition transfer_only_ligand_on (rs : list presidue) : Prop :=
      (forall i w, ~ In i (ligand_ids rs) -> In (i, w) (written_on names lig rs) -> w = ff_param rs i) /\
      NoDup (map fst (written_on names lig rs)) /\
      (forall r a p, In r rs -> selected names r = true -> In a (het_prefix (pr_atoms r)) ->
                     lookup (pa_name a) lig = Some p ->
                     In (pa_id a, Some p) (written_on names lig rs) /\
                     count_occ Nat.eq_dec (map fst (written_on names lig rs)) (pa_id a) = 1%nat).

    Lemma written_ids rs :
      map fst (written_on names lig rs) =
      (ff_hits rs ++ filter (fun i => negb (nmem i (ff_hits rs))) (map pa_id (all_vis rs)))%list.
    Proof. unfold written_on. rewrite loop_lig, map_map. cbn [fst]. now rewrite map_id. Qed.

    Lemma written_nodup rs : NoDup (map pa_id (all_atoms rs)) -> NoDup (map fst (written_on names lig rs)).
    Proof.
      intros Hnd. rewrite written_ids. apply NoDup_app_disjoint.
      - unfold ff_hits. fold (all_atoms rs). exact (sub_NoDup _ _ (sub_map pa_id _ _ (sub_filter _ _)) Hnd).
      - apply (sub_NoDup _ _ (sub_filter _ _)).
        exact (sub_NoDup _ _ (sub_map pa_id _ _ (sub_all_vis rs)) Hnd).
      - intros i H1 H2. apply filter_In in H2 as [_ H2]. apply negb_true_iff in H2.
        apply nmem_In in H1. congruence.
    Qed.

    Theorem transfer_only_ligand_on_holds rs :
      NoDup (map pa_id (all_atoms rs)) -> transfer_only_ligand_on rs.
    Proof.
      intros Hnd. split; [|split].
      - intros i w Hni Hin. unfold written_on in Hin. apply in_map_iff in Hin as [j [Hj _]]. injection Hj as -> <-.
        unfold transfer_loop_on. rewrite loop_param_other_gen; [reflexivity|].
        intros a Ha Heq. apply Hni. rewrite <- Heq. now apply vis_in_ligand.
      - now apply written_nodup.
      - intros r a p Hr Hs Ha Hp.
        assert (Hv : In a (all_vis rs)).
        { unfold all_vis. apply in_flat_map. exists r. split; [exact Hr|].
          unfold rvis. rewrite Hs. unfold vis. apply filter_In. split; [exact Ha|]. unfold named. now rewrite Hp. }
        assert (Hid : In (pa_id a) (map fst (written_on names lig rs))).
        { rewrite written_ids. apply in_or_app.
          destruct (nmem (pa_id a) (ff_hits rs)) eqn:Hm; [left; now apply nmem_In | right].
          apply filter_In. split; [now apply in_map | now rewrite Hm]. }
        split.
        + unfold written_on. unfold written_on in Hid. rewrite map_map in Hid. cbn [fst] in Hid. rewrite map_id in Hid.
          apply in_map_iff. exists (pa_id a). split; [|exact Hid].
          f_equal. unfold transfer_loop_on. now apply loop_param_hit_gen.
        + apply NoDup_count_occ'; [now apply written_nodup | exact Hid].
    Qed.

    (* a residue that is not selected is written exactly as without --ligand *)
    Lemma unselected_untouched rs r a w :
      NoDup (map pa_id (all_atoms rs)) -> In r rs -> selected names r = false -> In a (pr_atoms r) ->
      In (pa_id a, w) (written_on names lig rs) -> w = pa_ff a.
    Proof.
      intros Hnd Hr Hs Ha Hw.
      assert (Hall : In a (all_atoms rs)) by (apply in_flat_map; exists r; split; assumption).
      rewrite <- (ff_param_in rs a Hnd Hall).
      apply (proj1 (transfer_only_ligand_on_holds rs Hnd)); [|exact Hw].
      unfold ligand_ids. intro Hin. apply in_map_iff in Hin as [b [Hid Hb]].
      apply in_flat_map in Hb as [r' [Hr' Hb]]. apply filter_In in Hr' as [Hr' Hs'].
      assert (Hball : In b (all_atoms rs)) by (apply in_flat_map; exists r'; split; assumption).
      assert (b = a) by (apply (NoDup_map_inj pa_id _ b a Hnd Hball Hall Hid)). subst b.
      (* a lies in r (unselected) and in r' (selected): ids are unique, so r = r' positionally *)
      clear - Hnd Hr Hr' Hs Hs' Ha Hb.
      unfold all_atoms in Hnd. induction rs as [|r0 rs IH]; [contradiction|].
      cbn [flat_map] in Hnd. rewrite map_app in Hnd.
      pose proof (sub_NoDup _ _ (sub_app_r _ _) Hnd) as Hnd'.
      destruct Hr as [->|Hr]; destruct Hr' as [->|Hr'].
      - congruence.
      - apply (NoDup_app_In _ _ (pa_id a) Hnd); [now apply in_map|].
        apply in_map, in_flat_map. exists r'. split; assumption.
      - apply (NoDup_app_In _ _ (pa_id a) Hnd); [now apply in_map|].
        apply in_map, in_flat_map. exists r. split; assumption.
      - exact (IH Hnd' Hr Hr').
    Qed.
  End Selected.

  (* ---- how the selected names are chosen ---------------------------------- *)

  Lemma smem_In s l : smem s l = true <-> In s l.
  Proof.
    unfold smem. rewrite existsb_exists. split.
    - intros [x [Hx He]]. apply String.eqb_eq in He. now subst.
    - intros H. exists s. split; [exact H | apply String.eqb_refl].
  Qed.

  (* some residue carries a MOL2 residue name: exactly the residues with such a name are selected *)
  Lemma lig_names_by_name lnames heavy (rs : list presidue) :
    existsb (fun r : presidue => smem (pr_name r) lnames) rs = true ->
    lig_names lnames heavy lig rs = lnames.
  Proof. unfold lig_names. now intros ->. Qed.

  (* none does: a selected residue bears the name of a residue that the MOL2
     file describes atom by atom *)
  Lemma lig_names_fallback lnames heavy (rs : list presidue) (r : presidue) :
    existsb (fun r : presidue => smem (pr_name r) lnames) rs = false ->
    selected (lig_names lnames heavy lig rs) r = true ->
    exists r' : presidue, In r' rs /\ pr_name r' = pr_name r /\ describes heavy lig r' = true.
  Proof.
    unfold lig_names, selected. intros ->. rewrite smem_In, in_map_iff.
    intros [r' [Hn Hf]]. apply filter_In in Hf as [Hr' Hd]. exists r'. repeat split; assumption.
  Qed.

  (* main.non_trivial as coded: the property for the names the code computes *)
  Definition transfer_only_ligand (lnames heavy : list string) (rs : list presidue) : Prop :=
    transfer_only_ligand_on (lig_names lnames heavy lig rs) rs.

  Theorem transfer_only_ligand_holds lnames heavy rs :
    NoDup (map pa_id (all_atoms rs)) -> transfer_only_ligand lnames heavy rs.
  Proof. intros Hnd. apply transfer_only_ligand_on_holds, Hnd. Qed.

  (* waters, ions, other hetero groups: when the MOL2 residue name occurs in the
     structure, a residue with another name is written exactly as without
     --ligand, whatever its atoms are called *)
  Theorem other_residues_untouched lnames heavy (rs : list presidue) (r : presidue) (a : patom) w :
    NoDup (map pa_id (all_atoms rs)) ->
    existsb (fun r : presidue => smem (pr_name r) lnames) rs = true ->
    In r rs -> ~ In (pr_name r) lnames -> In a (pr_atoms r) ->
    In (pa_id a, w) (written lnames heavy lig rs) -> w = pa_ff a.
  Proof.
    intros Hnd Hex Hr Hn Ha Hw. unfold written in Hw. rewrite (lig_names_by_name _ _ _ Hex) in Hw.
    apply (unselected_untouched lnames rs r a w Hnd Hr); [|exact Ha|exact Hw].
    unfold selected. destruct (smem (pr_name r) lnames) eqn:E; [|reflexivity].
    exfalso. apply Hn. now apply smem_In.
  Qed.

  (* ... and when it does not (placeholder name), only residues named like one
     that consists of exactly the MOL2 file's heavy atoms (+ its hydrogens) *)
  Theorem other_residues_untouched_fallback lnames heavy (rs : list presidue) (r : presidue) (a : patom) w :
    NoDup (map pa_id (all_atoms rs)) ->
    existsb (fun r : presidue => smem (pr_name r) lnames) rs = false ->
    In r rs ->
    (forall r' : presidue, In r' rs -> pr_name r' = pr_name r -> describes heavy lig r' = false) ->
    In a (pr_atoms r) ->
    In (pa_id a, w) (written lnames heavy lig rs) -> w = pa_ff a.
  Proof.
    intros Hnd Hex Hr Hn Ha Hw. unfold written in Hw.
    apply (unselected_untouched (lig_names lnames heavy lig rs) rs r a w Hnd Hr); [|exact Ha|exact Hw].
    destruct (selected (lig_names lnames heavy lig rs) r) eqn:E; [|reflexivity].
    destruct (lig_names_fallback lnames heavy rs r Hex E) as [r' [H1 [H2 H3]]].
    rewrite (Hn r' H1 H2) in H3. discriminate.
  Qed.
End TransferProofs.

(* F4 (repaired): the loop BEFORE the repair visited every HETATM-led residue.
   A water whose H1 shares its name with a ligand atom took the ligand's
   parameters and was written twice.  Parameters are (charge, radius) in 1/10000. *)
Local Open Scope string_scope.
Definition f4_lig : list (string * (Z * Z)) := [("C1", (-1200, 18700)%Z); ("H1", (650, 11000)%Z)].
Definition f4_complex : list (presidue (Z * Z)) :=
  [ mkpres "PRO" [mkpatom 0 false "N" (Some (-4157, 18240)); mkpatom 1 false "CA" (Some (337, 19080))];
    mkpres "LIG" [mkpatom 2 true "C1" None; mkpatom 3 true "H1" None];
    mkpres "HOH" [mkpatom 4 true "O" (Some (-8340, 17683)); mkpatom 5 true "H1" (Some (4170, 0));
                  mkpatom 6 true "H2" (Some (4170, 0))] ]%Z.

(* about [transfer_loop_old]/[written_old] = the code before the repair, NOT the code as it is *)
Theorem transfer_old_loop_refuted :
  exists (lnames : list string) (lig : list (string * (Z * Z))) (rs : list (presidue (Z * Z))),
    NoDup (map pa_id (all_atoms rs)) /\
    (exists i w, ~ In i (ligand_ids lnames rs) /\ In (i, w) (written_old lig rs) /\ w <> ff_param rs i) /\
    ~ NoDup (map fst (written_old lig rs)).
Proof.
  exists ["LIG"], f4_lig, f4_complex. split; [|split].
  - vm_compute. repeat constructor; cbn; intuition discriminate.
  - exists 5%nat, (Some (650, 11000)%Z). split; [|split].
    + vm_compute. intuition discriminate.
    + vm_compute. intuition.
    + vm_compute. discriminate.
  - vm_compute. intro H.
    repeat match goal with H : NoDup (_ :: _) |- _ => inversion H; clear H; subst end.
    match goal with H : ~ In 5%nat _ |- _ => apply H; cbn; intuition end.
Qed.

(* ---- formal charges under relabelling of the atoms ------------------------ *)

Lemma flat_map_map_in {X Y Z} (f : Y -> list Z) (g : X -> Y) (h : X -> list Z) (s : Z -> Z) l :
  (forall x, In x l -> f (g x) = map s (h x)) -> flat_map f (map g l) = map s (flat_map h l).
Proof.
  induction l as [|x l IH]; cbn [map flat_map]; intros H; [reflexivity|].
  rewrite map_app, (H x (or_introl eq_refl)), IH; [reflexivity|]. intros; apply H; now right.
Qed.

Lemma filter_map_length {X Y} (p : Y -> bool) (g : X -> Y) l :
  length (filter p (map g l)) = length (filter (fun x => p (g x)) l).
Proof. induction l as [|x l IH]; cbn [map filter]; [reflexivity|]. destruct (p (g x)); cbn [length]; now rewrite IH. Qed.

Section FormalEquivariance.
  Context (m : mol) (sigma tau : nat -> nat).
  Local Notation n := (m_n m).
  Context (Hsigma : forall i, (i < n)%nat -> (sigma i < n)%nat).
  Context (Hts : forall i, (i < n)%nat -> tau (sigma i) = i).
  Context (Hok : mol_ok m = true).

  Definition rb (b : nat * nat * btype) : nat * nat * btype := (sigma (fst (fst b)), sigma (snd (fst b)), snd b).

  (* the same molecule with the atom at position i moved to position sigma i *)
  Definition relabel : mol :=
    mkmol (map (fun k => m_ty m (tau k)) (seq 0 n)) (map rb (m_bonds m)).

  Lemma relabel_n : m_n relabel = n.
  Proof. unfold m_n, relabel. cbn [m_types]. now rewrite map_length, seq_length. Qed.

  Lemma sig_inj i j : (i < n)%nat -> (j < n)%nat -> (sigma i =? sigma j)%nat = (i =? j)%nat.
  Proof.
    intros Hi Hj. destruct (Nat.eqb_spec i j) as [->|Hne]; [apply Nat.eqb_refl|].
    apply Nat.eqb_neq. intro H. apply Hne. rewrite <- (Hts i Hi), <- (Hts j Hj), H. reflexivity.
  Qed.

  Lemma ty_rel i : (i < n)%nat -> m_ty relabel (sigma i) = m_ty m i.
  Proof.
    intros Hi. unfold m_ty at 1. unfold relabel. cbn [m_types].
    rewrite nth_map_seq by (apply Hsigma, Hi). now rewrite Hts.
  Qed.

  Lemma mbonds_lt b : In b (m_bonds m) -> (fst (fst b) < n)%nat /\ (snd (fst b) < n)%nat.
  Proof.
    intros Hin. unfold mol_ok, bonds_ok, m_pairs in Hok. rewrite forallb_forall in Hok.
    specialize (Hok (fst b) (in_map fst _ _ Hin)). apply andb_true_iff in Hok as [Ha Hb].
    apply Nat.ltb_lt in Ha, Hb. split; assumption.
  Qed.

  Lemma atom_bonds_in i b : In b (atom_bonds m i) -> In b (m_bonds m).
  Proof.
    unfold atom_bonds. intros H. apply in_flat_map in H as [b' [Hb' H]].
    apply in_app_or in H as [H|H].
    - destruct (fst (fst b') =? i)%nat; [destruct H as [<-|[]]; exact Hb' | contradiction].
    - destruct (snd (fst b') =? i)%nat; [destruct H as [<-|[]]; exact Hb' | contradiction].
  Qed.

  Lemma atom_bonds_rel i : (i < n)%nat -> atom_bonds relabel (sigma i) = map rb (atom_bonds m i).
  Proof.
    intros Hi. unfold atom_bonds, relabel. cbn [m_bonds]. pose proof mbonds_lt as Hlt.
    induction (m_bonds m) as [|b bs IH]; [reflexivity|].
    cbn [map flat_map]. rewrite map_app, IH by (intros; apply Hlt; now right).
    destruct (Hlt b (or_introl eq_refl)) as [Ha Hb].
    unfold rb at 1 2 3 4. cbn [fst snd]. rewrite !sig_inj by assumption. rewrite map_app.
    destruct (fst (fst b) =? i)%nat; destruct (snd (fst b) =? i)%nat; reflexivity.
  Qed.

  Lemma bond_order_rel i : (i < n)%nat -> bond_order relabel (sigma i) = bond_order m i.
  Proof.
    intros Hi. unfold bond_order. rewrite atom_bonds_rel by exact Hi.
    rewrite fold_left_map, filter_map_length. reflexivity.
  Qed.

  Lemma phosphate_rel i : (i < n)%nat -> phosphate_rule relabel (sigma i) = phosphate_rule m i.
  Proof.
    intros Hi. unfold phosphate_rule. rewrite atom_bonds_rel by exact Hi.
    destruct (atom_bonds m i) as [|b0 l] eqn:Eb; [reflexivity|]. cbn [map].
    assert (Hb0 : In b0 (m_bonds m)) by (apply (atom_bonds_in i); rewrite Eb; now left).
    destruct (mbonds_lt b0 Hb0) as [H1 H2].
    unfold rb at 1 2 3 4. cbn [fst snd]. rewrite !ty_rel by assumption.
    assert (Hmain : forall p, (p < n)%nat ->
      match flat_map (fun b => filter (fun a => ((first_char (m_ty relabel a) =? "O")%string && (bond_order relabel a =? 1)%Z))
                                      [fst (fst b); snd (fst b)]) (atom_bonds relabel (sigma p)) with
      | [] => None
      | o :: _ => Some (if (o =? sigma i)%nat then (-2)%Z else 0%Z)
      end =
      match flat_map (fun b => filter (fun a => ((first_char (m_ty m a) =? "O")%string && (bond_order m a =? 1)%Z))
                                      [fst (fst b); snd (fst b)]) (atom_bonds m p) with
      | [] => None
      | o :: _ => Some (if (o =? i)%nat then (-2)%Z else 0%Z)
      end).
    { intros p Hp. rewrite atom_bonds_rel by exact Hp.
      rewrite (flat_map_map_in _ rb
                 (fun b => filter (fun a => ((first_char (m_ty m a) =? "O")%string && (bond_order m a =? 1)%Z))
                                  [fst (fst b); snd (fst b)]) sigma).
      - destruct (flat_map _ (atom_bonds m p)) as [|o os] eqn:Eo; [reflexivity|]. cbn [map].
        assert (Ho : (o < n)%nat).
        { assert (Hin : In o (flat_map (fun b => filter (fun a => ((first_char (m_ty m a) =? "O")%string && (bond_order m a =? 1)%Z))
                                  [fst (fst b); snd (fst b)]) (atom_bonds m p))) by (rewrite Eo; now left).
          apply in_flat_map in Hin as [b [Hb Hin]]. apply filter_In in Hin as [Hin _].
          destruct (mbonds_lt b (atom_bonds_in p b Hb)) as [Ha Hc].
          destruct Hin as [<-|[<-|[]]]; assumption. }
        now rewrite sig_inj.
      - intros b Hb. destruct (mbonds_lt b (atom_bonds_in p b Hb)) as [Ha Hc].
        unfold rb. cbn [fst snd filter map].
        rewrite !ty_rel, !bond_order_rel by assumption.
        destruct ((first_char (m_ty m (fst (fst b))) =? "O")%string && (bond_order m (fst (fst b)) =? 1)%Z);
          destruct ((first_char (m_ty m (snd (fst b))) =? "O")%string && (bond_order m (snd (fst b)) =? 1)%Z); reflexivity. }
    destruct (first_char (m_ty m (fst (fst b0))) =? "P")%string; [exact (Hmain _ H1)|].
    destruct (first_char (m_ty m (snd (fst b0))) =? "P")%string; [exact (Hmain _ H2) | reflexivity].
  Qed.

  (* Mol2Atom.formal_charge does not depend on where the atom stands in the file *)
  Theorem formal_charge_equivariant i :
    (i < n)%nat -> formal_charge2 relabel (sigma i) = formal_charge2 m i.
  Proof.
    intros Hi. unfold formal_charge2.
    rewrite ty_rel, bond_order_rel, phosphate_rel by exact Hi. reflexivity.
  Qed.
End FormalEquivariance.

(* ---- the radius rule for arbitrary (primary, secondary) tables ------------- *)

Lemma radius_of_from t : radius_of t = radius_from ZAP9 BONDI t.
Proof. reflexivity. Qed.

(* primary's entry when it has one (typed entry before element entry), else
   secondary's by the same rule; None (KeyError) iff neither table has either
   key; what the secondary table holds is irrelevant for atoms the primary covers *)
Theorem radius_rule (p s : list (string * Z)) (t : string) :
  let e := upper (before_dot t) in
  (forall r, lookup t p = Some r -> radius_from p s t = Some r) /\
  (lookup t p = None -> forall r, lookup e p = Some r -> radius_from p s t = Some r) /\
  (lookup t p = None -> lookup e p = None -> radius_from p s t = radius_from s [] t) /\
  (radius_from p s t = None <->
     lookup t p = None /\ lookup e p = None /\ lookup t s = None /\ lookup e s = None) /\
  (forall s', (lookup t p <> None \/ lookup e p <> None) -> radius_from p s t = radius_from p s' t).
Proof.
  cbv zeta. unfold radius_from. cbn [lookup].
  destruct (lookup t p) as [r1|]; destruct (lookup (upper (before_dot t)) p) as [r2|];
    destruct (lookup t s) as [r3|]; destruct (lookup (upper (before_dot t)) s) as [r4|];
    repeat split; intros; try congruence; try tauto;
    try match goal with H : _ /\ _ |- _ => decompose [and] H; congruence end;
    try match goal with H : _ \/ _ |- _ => destruct H; congruence end.
Qed.

