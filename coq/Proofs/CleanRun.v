(* E2E_Clean: pdb2pqr --clean end to end.  The theorems COMPOSE the record-level
   theorem of C07 (Proofs.Group.group_complete through Proofs.Ingest.read_guarded /
   spec_atoms / drop_water_is_deletion) with the file round trips of C08
   (Proofs.PqrFormat.fixed_file_roundtrip / ws_file_roundtrip); nothing of either
   is re-proved.  New here: the adapter between the two atom records, and the
   guard under which set_termini (the stage between them) is the identity. *)
From Coq Require Import String Ascii List Arith NArith ZArith Bool Lia Permutation.
From PV Require Import Lib.Strings Lib.Decimal Model.PdbRead Model.Group Model.PdbSpec
  Proofs.PdbRead Proofs.Group Proofs.Ingest Model.CleanRun.
From PV Require Model.PqrFormat Proofs.PqrFormat.
Import ListNotations.
Local Open Scope string_scope.
Local Open Scope list_scope.

Module MP := PV.Model.PqrFormat.
Module PP := PV.Proofs.PqrFormat.

(* ---- boolean guards -> facts ------------------------------------------------------ *)

Lemma atom_eqb_eq a b : atom_eqb a b = true -> a = b.
Proof.
  destruct a, b. unfold atom_eqb. cbn [PdbRead.a_het PdbRead.a_tok0 PdbRead.a_serial PdbRead.a_name
    PdbRead.a_alt PdbRead.a_resname PdbRead.a_chain PdbRead.a_resseq PdbRead.a_icode PdbRead.a_x
    PdbRead.a_y PdbRead.a_z PdbRead.a_src].
  rewrite !andb_true_iff. intros [[[[[[[[[[[[H1 H2] H3] H4] H5] H6] H7] H8] H9] H10] H11] H12] H13].
  apply Bool.eqb_prop in H1. apply String.eqb_eq in H2, H4, H5, H6, H7, H9, H10, H11, H12, H13.
  apply Z.eqb_eq in H3, H8. subst. reflexivity.
Qed.

Lemma list_eqb_eq {A} (e : A -> A -> bool) :
  (forall a b, e a b = true -> a = b) -> forall l1 l2, list_eqb e l1 l2 = true -> l1 = l2.
Proof.
  intros He. induction l1 as [|x r IH]; intros [|y r2]; simpl; try discriminate; [reflexivity|].
  intros H. apply andb_true_iff in H as [H1 H2]. rewrite (He _ _ H1), (IH _ H2). reflexivity.
Qed.

Lemma quiet_atoms tab pt near rs :
  termini_quiet tab pt near rs = true -> set_termini tab pt near rs = Some (all_atoms rs).
Proof.
  unfold termini_quiet. destruct (set_termini tab pt near rs) as [l|]; [|discriminate].
  intros H. rewrite (list_eqb_eq atom_eqb atom_eqb_eq _ _ H). reflexivity.
Qed.

Lemma all_okb_ok ok l : forall i, all_okb ok i l = true -> PP.all_ok ok i l.
Proof.
  induction l as [|a r IH]; intros i H; simpl in *; [exact I|].
  apply andb_true_iff in H as [H1 H2]. split; [exact H1 | apply IH; exact H2].
Qed.

(* ---- the written chunks of the default layout are the items' texts ---------------- *)

Lemma item_text_nonempty it : is_empty (MP.item_text it) = false.
Proof. destruct it as [l| |]; [destruct l|..]; reflexivity. Qed.

Lemma chunks_default its :
  MP.written_chunks false false (map MP.item_text its) = map MP.item_text its.
Proof.
  assert (W : forall s, MP.write_line false false s = s).
  { intros s. unfold MP.write_line. cbn [negb]. rewrite orb_true_r. reflexivity. }
  unfold MP.written_chunks. induction its as [|it r IH]; [reflexivity|].
  cbn [map filter]. rewrite W, item_text_nonempty. cbn [negb]. f_equal. exact IH.
Qed.

(* ---- adapter: what the C08 read-back of a converted C07 atom is ------------------ *)

Section Adapter.
  Variable r3 : string -> MP.fx.

  (* the column record of a C07 atom as the output will show it *)
  Definition crec_of (keep : bool) (a : atomrec) : crec :=
    mkC (if keep then a_chain a else "") (Some (a_resseq a)) (a_icode a)
        (pf3 r3 (a_x a)) (pf3 r3 (a_y a)) (pf3 r3 (a_z a)).

  Definition nrec_of (a : atomrec) : nrec := mkN (show_bool (a_het a)) (a_name a) (a_resname a).

  Lemma fixed_crec keep l : forall i,
    map out_crec (map (MP.expected_fixed keep) (PP.renumbered i (map (conv r3) l))) =
    map (crec_of keep) l.
  Proof. induction l as [|a r IH]; intros i; [reflexivity|]. cbn [map PP.renumbered]. rewrite IH. reflexivity. Qed.

  Lemma fixed_both keep l : forall i,
    map (fun f => (out_crec f, out_nrec f))
        (map (MP.expected_fixed keep) (PP.renumbered i (map (conv r3) l))) =
    map (fun a => (crec_of keep a, nrec_of a)) l.
  Proof. induction l as [|a r IH]; intros i; [reflexivity|]. cbn [map PP.renumbered]. rewrite IH. reflexivity. Qed.

  (* the --whitespace reader's atom as a column record *)
  Definition ws_crec (p : MP.patom) : crec :=
    mkC (match MP.p_chain p with Some c => c | None => "" end) (Some (MP.p_res_seq p))
        (match MP.p_ins p with Some c => c | None => "" end)
        (Some (MP.p_x p)) (Some (MP.p_y p)) (Some (MP.p_z p)).

  Lemma ws_crec_one keep n a :
    ws_crec (MP.expected_ws keep (MP.with_serial n (conv r3 a))) = crec_of keep a.
  Proof.
    unfold ws_crec, crec_of, MP.expected_ws, conv, MP.with_serial, pf3.
    cbn [MP.a_chain MP.a_ins MP.p_chain MP.p_ins MP.p_res_seq MP.p_x MP.p_y MP.p_z MP.a_res_seq MP.a_x MP.a_y MP.a_z].
    f_equal.
    - destruct keep; cbn [andb]; [|reflexivity].
      destruct (is_empty (a_chain a)) eqn:E; cbn [negb]; [|reflexivity].
      symmetry. apply Proofs.PdbRead.is_empty_true. exact E.
    - destruct (is_empty (a_icode a)) eqn:E; [|reflexivity].
      symmetry. apply Proofs.PdbRead.is_empty_true. exact E.
  Qed.

  Lemma ws_crec_all keep l : forall i,
    map ws_crec (map (MP.expected_ws keep) (PP.renumbered i (map (conv r3) l))) = map (crec_of keep) l.
  Proof.
    induction l as [|a r IH]; intros i; [reflexivity|]. cbn [map PP.renumbered].
    rewrite IH, ws_crec_one. reflexivity.
  Qed.

  (* a record the column parser made from line [raw] shows the columns of [raw] *)
  Lemma reads_crec keep a raw : reads a raw -> crec_of keep a = in_crec r3 keep raw.
  Proof.
    intros [_ [Ri [_ [_ [Rx [Ry Rz]]]]]]. unfold rident, line_ident in Ri. injection Ri as I1 I2 I3 _.
    unfold crec_of, in_crec. rewrite I1, I2, I3, Rx, Ry, Rz. reflexivity.
  Qed.

  Lemma reads_crec_all keep az ls :
    Forall2 reads az ls -> map (crec_of keep) az = map (in_crec r3 keep) ls.
  Proof.
    induction 1 as [|a l az ls R _ IH]; [reflexivity|]. cbn [map]. rewrite (reads_crec keep a l R), IH. reflexivity.
  Qed.

  Definition both_of (keep : bool) (a : atomrec) : crec * nrec := (crec_of keep a, in_nrec (a_src a)).

  Lemma reads_both_all keep az ls :
    Forall2 reads az ls ->
    map (both_of keep) az = map (fun l => (in_crec r3 keep l, in_nrec (strip l))) ls.
  Proof.
    induction 1 as [|a l az ls R _ IH]; [reflexivity|]. cbn [map]. unfold both_of at 1.
    rewrite (reads_crec keep a l R), IH. destruct R as [Rs _]. rewrite Rs. reflexivity.
  Qed.

  Lemma canon_nrec a : canon a = true -> nrec_of a = in_nrec (a_src a).
  Proof.
    unfold canon. rewrite !andb_true_iff. intros [[H1 H2] H3].
    apply String.eqb_eq in H1, H2, H3. unfold nrec_of, in_nrec. rewrite <- H1, <- H2, <- H3. reflexivity.
  Qed.

  Lemma canon_both keep l :
    forallb canon l = true ->
    map (fun a => (crec_of keep a, nrec_of a)) l = map (both_of keep) l.
  Proof.
    induction l as [|a r IH]; intros H; [reflexivity|]. cbn [forallb] in H.
    apply andb_true_iff in H as [Ha Hr]. cbn [map]. unfold both_of at 1.
    rewrite (canon_nrec a Ha), (IH Hr). reflexivity.
  Qed.
End Adapter.

(* ---- C07 with an arbitrary stable projection, as lines ---------------------------- *)

Section Compose.
  Variable fok : string -> bool.
  Variable tab : deftab.
  Variable pt : ptab.
  Variable near : atomrec -> atomrec -> bool.
  Variable r3 : string -> MP.fx.

  Lemma ingest_perm (B : Type) (p : atomrec -> B)
    (p_alt : forall a s, p (set_alt a s) = p a) (p_name : forall a s, p (set_name a s) = p a)
    (p_resname : forall a s, p (set_resname a s) = p a) (p_het : forall a h, p (set_het a h) = p a)
    lines :
    guard fok tab lines = true ->
    exists rs sa, ingest fok tab false lines = Done rs /\
      Permutation (map p (all_atoms rs)) (map p sa) /\ Forall2 reads sa (cols_read lines).
  Proof.
    unfold guard. intros H. apply andb_true_iff in H as [Hg H]. cbv zeta in H.
    apply andb_true_iff in H as [Hin Hal].
    destruct (read_guarded fok lines Hg) as [e Er].
    destruct (group_complete B p p_alt p_name p_resname p_het tab _ Hin Hal) as [rs [Gr P]].
    exists rs. eexists. split; [|split; [exact P | exact (spec_atoms fok lines Hg)]].
    unfold ingest. rewrite Er, Gr. reflexivity.
  Qed.

  Lemma e2e_guard_inv ok lines :
    e2e_guard fok tab pt near r3 ok lines = true ->
    guard fok tab lines = true /\
    exists rs, ingest fok tab false lines = Done rs /\
      set_termini tab pt near rs = Some (all_atoms rs) /\
      PP.all_ok ok 0 (map (conv r3) (all_atoms rs)).
  Proof.
    unfold e2e_guard. intros H. apply andb_true_iff in H as [Hg H]. split; [exact Hg|].
    destruct (ingest fok tab false lines) as [rs|]; [|discriminate].
    apply andb_true_iff in H as [Hq Hc]. exists rs. split; [reflexivity|].
    split; [apply quiet_atoms; exact Hq | apply all_okb_ok; exact Hc].
  Qed.

  (* the run, given what ingest and set_termini return *)
  Lemma clean_items_eq dropw keep lines rs :
    ingest fok tab dropw lines = Done rs -> set_termini tab pt near rs = Some (all_atoms rs) ->
    clean_items fok tab pt near r3 dropw keep lines =
    Some (MP.print_items keep (map (conv r3) (all_atoms rs))).
  Proof. intros Hi Ht. unfold clean_items, clean_atoms. rewrite Hi, Ht. reflexivity. Qed.

  (* ---- main theorem: default layout ------------------------------------------------ *)

  Theorem clean_run_faithful_partial keep lines :
    e2e_guard fok tab pt near r3 (MP.fixed_ok keep) lines = true ->
    exists its,
      clean_items fok tab pt near r3 false keep lines = Some its /\
      clean_run fok tab pt near r3 false keep false lines = Some (map MP.item_text its) /\
      Permutation (map out_crec (map MP.read_fixed (PP.atom_lines its)))
                  (map (in_crec r3 keep) (cols_read lines)).
  Proof.
    intros H. destruct (e2e_guard_inv _ _ H) as [Hg [rs [Hi [Ht Hc]]]].
    destruct (ingest_perm crec (crec_of r3 keep) (fun _ _ => eq_refl) (fun _ _ => eq_refl)
                (fun _ _ => eq_refl) (fun _ _ => eq_refl) lines Hg) as [rs' [sa [Hi' [P F2]]]].
    rewrite Hi in Hi'. injection Hi' as <-.
    eexists. split; [apply (clean_items_eq false keep lines rs Hi Ht)|]. split.
    - unfold clean_run. rewrite (clean_items_eq false keep lines rs Hi Ht). cbn [option_map].
      rewrite chunks_default. reflexivity.
    - rewrite (PP.fixed_file_roundtrip keep _ Hc), fixed_crec.
      rewrite <- (reads_crec_all r3 keep sa _ F2). exact P.
  Qed.

  (* record type, atom name and residue name too, when the residue classes left them
     as the columns have them *)
  Theorem clean_run_names_partial keep lines :
    e2e_guard fok tab pt near r3 (MP.fixed_ok keep) lines = true ->
    canon_guard fok tab lines = true ->
    exists its,
      clean_items fok tab pt near r3 false keep lines = Some its /\
      Permutation (map (fun f => (out_crec f, out_nrec f)) (map MP.read_fixed (PP.atom_lines its)))
                  (map (fun l => (in_crec r3 keep l, in_nrec (strip l))) (cols_read lines)).
  Proof.
    intros H Hn. destruct (e2e_guard_inv _ _ H) as [Hg [rs [Hi [Ht Hc]]]].
    unfold canon_guard in Hn. rewrite Hi in Hn.
    destruct (ingest_perm _ (both_of r3 keep) (fun _ _ => eq_refl) (fun _ _ => eq_refl)
                (fun _ _ => eq_refl) (fun _ _ => eq_refl) lines Hg) as [rs' [sa [Hi' [P F2]]]].
    rewrite Hi in Hi'. injection Hi' as <-.
    eexists. split; [apply (clean_items_eq false keep lines rs Hi Ht)|].
    rewrite (PP.fixed_file_roundtrip keep _ Hc), fixed_both, (canon_both r3 keep _ Hn).
    rewrite <- (reads_both_all r3 keep sa _ F2). exact P.
  Qed.

  (* ---- --drop-water ---------------------------------------------------------------- *)

  Lemma clean_run_drop_water keep ws lines :
    forallb (g_line fok) lines = true ->
    clean_run fok tab pt near r3 true keep ws lines =
    clean_run fok tab pt near r3 false keep ws (no_water lines).
  Proof.
    intros Hg. unfold clean_run, clean_items, clean_atoms.
    rewrite (drop_water_is_deletion fok tab lines Hg). reflexivity.
  Qed.

  Theorem clean_run_drop_water_partial keep lines :
    forallb (g_line fok) lines = true ->
    e2e_guard fok tab pt near r3 (MP.fixed_ok keep) (no_water lines) = true ->
    exists its,
      clean_run fok tab pt near r3 true keep false lines = Some (map MP.item_text its) /\
      Permutation (map out_crec (map MP.read_fixed (PP.atom_lines its)))
                  (map (in_crec r3 keep) (cols_read (no_water lines))).
  Proof.
    intros Hg H. destruct (clean_run_faithful_partial keep _ H) as [its [_ [Hr P]]].
    exists its. split; [|exact P]. rewrite (clean_run_drop_water keep false lines Hg). exact Hr.
  Qed.

  (* ---- --whitespace: pdb2pqr's own reader on the written file --------------------- *)

  Theorem clean_run_whitespace_partial keep lines :
    e2e_guard fok tab pt near r3 (MP.ws_ok keep) lines = true ->
    exists out ps,
      clean_run fok tab pt near r3 false keep true lines = Some out /\
      MP.read_pqr out = inl ps /\
      Permutation (map ws_crec ps) (map (in_crec r3 keep) (cols_read lines)).
  Proof.
    intros H. destruct (e2e_guard_inv _ _ H) as [Hg [rs [Hi [Ht Hc]]]].
    destruct (ingest_perm crec (crec_of r3 keep) (fun _ _ => eq_refl) (fun _ _ => eq_refl)
                (fun _ _ => eq_refl) (fun _ _ => eq_refl) lines Hg) as [rs' [sa [Hi' [P F2]]]].
    rewrite Hi in Hi'. injection Hi' as <-.
    pose proof (PP.ws_file_roundtrip keep false _ Hc) as R.
    unfold MP.file_chunks in R. rewrite app_nil_r in R.
    eexists. eexists. split; [|split; [exact R|]].
    - unfold clean_run. rewrite (clean_items_eq false keep lines rs Hi Ht). reflexivity.
    - rewrite ws_crec_all. rewrite <- (reads_crec_all r3 keep sa _ F2). exact P.
  Qed.

  (* ---- shape of the written file, ALL inputs (no guard) --------------------------- *)

  Theorem clean_file_shape dropw keep lines atoms :
    clean_atoms fok tab pt near dropw lines = Some atoms ->
    clean_run fok tab pt near r3 dropw keep false lines =
      Some (map MP.item_text (MP.print_items keep (map (conv r3) atoms))) /\
    PP.atom_lines (MP.print_items keep (map (conv r3) atoms)) = PP.numbered keep 0 (map (conv r3) atoms).
  Proof.
    intros H. split; [|apply PP.order_preserved].
    unfold clean_run, clean_items. rewrite H. cbn [option_map]. rewrite chunks_default. reflexivity.
  Qed.

End Compose.

(* ---- concrete witnesses -------------------------------------------------------------- *)

Local Open Scope string_scope.

Definition etab : deftab :=
  [("ALA", (KAmino, [("HN", "H")])); ("GLY", (KAmino, [])); ("SER", (KAmino, []));
   ("RA", (KNucleic, [])); ("HOH", (KWater, [("OW", "O")]))].

(* the terminal patches of /repo's PATCHES.xml (remove, altnames) *)
Definition ept : ptab :=
  mkPT ([], [("HT1", "H"); ("H1", "H"); ("1H", "H"); ("HT2", "H2"); ("2H", "H2"); ("HT3", "H3"); ("3H", "H3")])
       ([], [("O''", "OXT"); ("OT2", "OXT"); ("O'", "O"); ("OT1", "O")])
       (["O1P"; "P"; "O2P"], [])
       ([], []).

Definition er3 := r3_exec [].

(* three residues + a ligand in two chains, waters, alt-locs, a second model, a
   header, a blank line, a short line *)
Definition ex_clean : list string :=
  [ "HEADER    TEST" ++ nl;
    "MODEL        1" ++ nl;
    "ATOM      1  N  AALA A   1      11.000  12.000  13.000  1.00  0.00           N" ++ nl;
    "ATOM      2  N  BALA A   1      11.500  12.000  13.000  1.00  0.00           N" ++ nl;
    "   " ++ nl;
    "ATOM      3  CA  ALA A   1      12.000  12.000  13.000" ++ nl;
    "ATOM      4  N   GLY A  -2A     14.000 -12.500  13.125  1.00  0.00           N" ++ nl;
    "ATOM      5  CA  GLY A  -2A     15.000 -12.500  13.125  1.00  0.00           C" ++ nl;
    "HETATM    6  O   HOH A 100      20.000  12.000  13.000  1.00  0.00           O" ++ nl;
    "TER" ++ nl;
    "ATOM      7  N   SER B   5       1.000   2.000   3.000  1.00  0.00           N" ++ nl;
    "HETATM    8 ZN    ZN B   6       4.000   5.000   6.000  1.00  0.00          ZN" ++ nl;
    "HETATM    9  O   HOH B 101      21.000  12.000  13.000  1.00  0.00           O" ++ nl;
    "ENDMDL" ++ nl;
    "MODEL        2" ++ nl;
    "ATOM     10  N   ALA A   1      31.000  12.000  13.000  1.00  0.00           N" ++ nl;
    "ENDMDL" ++ nl;
    "END" ++ nl ].

Definition ex_clean_out : string :=
  "ATOM      1  N   ALA A   1      11.000  12.000  13.000  0.0000 0.0000" ++ nl ++
  "ATOM      2  CA  ALA A   1      12.000  12.000  13.000  0.0000 0.0000" ++ nl ++
  "ATOM      3  N   GLY A  -2A     14.000 -12.500  13.125  0.0000 0.0000" ++ nl ++
  "ATOM      4  CA  GLY A  -2A     15.000 -12.500  13.125  0.0000 0.0000" ++ nl ++
  "HETATM    5  O   HOH A 100      20.000  12.000  13.000  0.0000 0.0000" ++ nl ++
  "TER" ++ nl ++
  "ATOM      6  N   SER B   5       1.000   2.000   3.000  0.0000 0.0000" ++ nl ++
  "HETATM    7  ZN  ZN  B   6       4.000   5.000   6.000  0.0000 0.0000" ++ nl ++
  "HETATM    8  O   HOH B 101      21.000  12.000  13.000  0.0000 0.0000" ++ nl ++
  "TER" ++ nl ++ "END".

Definition ex_clean_out_dropw : string :=
  "ATOM      1  N   ALA A   1      11.000  12.000  13.000  0.0000 0.0000" ++ nl ++
  "ATOM      2  CA  ALA A   1      12.000  12.000  13.000  0.0000 0.0000" ++ nl ++
  "ATOM      3  N   GLY A  -2A     14.000 -12.500  13.125  0.0000 0.0000" ++ nl ++
  "ATOM      4  CA  GLY A  -2A     15.000 -12.500  13.125  0.0000 0.0000" ++ nl ++
  "TER" ++ nl ++
  "ATOM      5  N   SER B   5       1.000   2.000   3.000  0.0000 0.0000" ++ nl ++
  "HETATM    6  ZN  ZN  B   6       4.000   5.000   6.000  0.0000 0.0000" ++ nl ++
  "TER" ++ nl ++ "END".

Lemma ex_clean_ok :
  e2e_guard py_float_ok etab ept near_dec er3 (MP.fixed_ok true) ex_clean = true /\
  e2e_guard py_float_ok etab ept near_dec er3 (MP.ws_ok true) ex_clean = true /\
  canon_guard py_float_ok etab ex_clean = true /\
  forallb (g_line py_float_ok) ex_clean = true /\
  e2e_guard py_float_ok etab ept near_dec er3 (MP.fixed_ok true) (no_water ex_clean) = true /\
  List.length (cols_read ex_clean) = 8 /\
  List.length (cols_read (no_water ex_clean)) = 6 /\
  clean_file py_float_ok etab ept near_dec er3 false true false ex_clean = Some ex_clean_out /\
  clean_file py_float_ok etab ept near_dec er3 true true false ex_clean = Some ex_clean_out_dropw.
Proof. vm_compute. repeat split; reflexivity. Qed.

(* the full statement (no guard on set_termini) is refuted by the faithful model:
   the 5TERM patch removes the 5' phosphate of the first nucleotide of a chain; the
   file meets C07's guard and every column capacity, 4 coordinate records go in,
   3 come out, and the P record is not among them *)
Definition ex_5prime : list string :=
  [ "ATOM      1  P     A A   1       1.000   2.000   3.000  1.00  0.00           P" ++ nl;
    "ATOM      2  O5'   A A   1       4.000   2.000   3.000  1.00  0.00           O" ++ nl;
    "ATOM      3  P     A A   2       5.000   2.000   3.000  1.00  0.00           P" ++ nl;
    "ATOM      4  O5'   A A   2       6.000   2.000   3.000  1.00  0.00           O" ++ nl;
    "END" ++ nl ].

Definition ex_5prime_out : string :=
  "ATOM      1  O5' RA  A   1       4.000   2.000   3.000  0.0000 0.0000" ++ nl ++
  "ATOM      2  P   RA  A   2       5.000   2.000   3.000  0.0000 0.0000" ++ nl ++
  "ATOM      3  O5' RA  A   2       6.000   2.000   3.000  0.0000 0.0000" ++ nl ++
  "TER" ++ nl ++ "END".

Lemma five_prime_refuted :
  guard py_float_ok etab ex_5prime = true /\
  List.length (cols_read ex_5prime) = 4 /\
  clean_file py_float_ok etab ept near_dec er3 false true false ex_5prime = Some ex_5prime_out /\
  (exists its, clean_items py_float_ok etab ept near_dec er3 false true ex_5prime = Some its /\
     List.length (PP.atom_lines its) = 3 /\
     ~ Permutation (map out_crec (map MP.read_fixed (PP.atom_lines its)))
                   (map (in_crec er3 true) (cols_read ex_5prime))).
Proof.
  split; [vm_compute; reflexivity|]. split; [vm_compute; reflexivity|]. split; [vm_compute; reflexivity|].
  eexists. split; [vm_compute; reflexivity|]. split; [reflexivity|].
  intros P. apply Permutation_length in P. vm_compute in P. discriminate.
Qed.

(* a hidden chain: an internal OXT gives the residues in front of it a new chain id *)
Definition ex_hidden : list string :=
  [ "ATOM      1  N   ALA B   1       7.000   2.000   3.000  1.00  0.00           N" ++ nl;
    "ATOM      2  OXT ALA B   1       9.000   2.000   3.000  1.00  0.00           O" ++ nl;
    "ATOM      3  N   GLY B   2      20.000   2.000   3.000  1.00  0.00           N" ++ nl ].

Definition ex_hidden_out : string :=
  "ATOM      1  N   ALA A   1       7.000   2.000   3.000  0.0000 0.0000" ++ nl ++
  "ATOM      2  OXT ALA A   1       9.000   2.000   3.000  0.0000 0.0000" ++ nl ++
  "TER" ++ nl ++
  "ATOM      3  N   GLY B   2      20.000   2.000   3.000  0.0000 0.0000" ++ nl ++
  "TER" ++ nl ++ "END".

Lemma hidden_chain_refuted :
  guard py_float_ok etab ex_hidden = true /\
  clean_file py_float_ok etab ept near_dec er3 false true false ex_hidden = Some ex_hidden_out.
Proof. vm_compute. split; reflexivity. Qed.
