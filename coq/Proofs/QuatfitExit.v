(* C15, third layer: exit of the Jacobi iteration (uses the invariant of
   Proofs/QuatfitJacobi.v): exact exit => unit eigenvectors, the column qtrfit
   selects after the sort is a unit maximiser of q^T A0 q, so the
   [eigen_contract] hypothesis of [fit_exact_image] is discharged; residual
   identity for inexact exits; non-vacuity.  All over R. *)
From Coq Require Import Reals List ZArith Lra Lia Nsatz Psatz Bool.
From PV Require Import Model.Quatfit Proofs.Quatfit Proofs.QuatfitJacobi.
Import ListNotations.
Local Open Scope R_scope.

Definition mv (A : fmat) (r : nat -> R) : nat -> R := fun i => sum4 (fun j => A i j * r j).

(* EXIT THEOREM.  If the off-diagonal part is zero when the sweeps stop (the
   exact-arithmetic idealisation of `onorm/dnorm <= 1e-12`), then
     - V is orthogonal and its columns are eigenvectors of A0 = the symmetric
       matrix given by the upper triangle of the argument, eigenvalues dvec;
     - the vector q that qtrfit takes (column 3 of vmat AFTER the code's
       ascending selection sort) is a unit eigenvector for the value dvec[3]
       of the sorted dvec, that value is >= every eigenvalue found, and q
       maximises r^T A0 r over all unit r. *)
Theorem jacobi_exit_exact : forall (am : Rmat) (nrot : nat), wf4 am ->
  let A0 := A0_of am in
  let st := jsweeps RA nrot (jinit RA am) in
  offzero st ->
  let V := st_V st in
  let d := fun k => st_sym st k k in
  orth V /\
  (forall i k, (i < 4)%nat -> (k < 4)%nat -> mmul A0 V i k = d k * V i k) /\
  let res := jacobi RA am nrot in
  let q := fun i => mget RA (snd res) i 3 in
  let lam := vget RA (fst res) 3 in
  n2 q = 1 /\
  (forall i, (i < 4)%nat -> mv A0 q i = lam * q i) /\
  qf A0 q = lam /\
  (forall k, (k < 4)%nat -> d k <= lam) /\
  (forall r, n2 r = 1 -> qf A0 r <= qf A0 q).
Proof.
  intros am nrot Hwf A0 st Hz V d.
  destruct (jacobi_invariant am nrot Hwf) as (Wst & HO & HC). fold st in Wst, HO, HC. fold A0 in HC. fold V in HO, HC.
  assert (HD : meq (mmul (mT V) (mmul A0 V)) (mdiag d)).
  { apply (meq_trans _ _ _ HC). apply offzero_diag. exact Hz. }
  split; [ exact HO | ].
  split; [ apply eigen_columns; assumption | ].
  intros res q lam.
  destruct (wfst_tab st Wst) as (a & v & dd & Est).
  assert (Eres : res = (snd (fold_left (jsort_step RA) (seq 0 3) (tab4 v, tabv dd)),
                        fst (fold_left (jsort_step RA) (seq 0 3) (tab4 v, tabv dd)))).
  { unfold res, jacobi. fold st. rewrite Est.
    destruct (fold_left (jsort_step RA) (seq 0 3) (tab4 v, tabv dd)) as [vm2 dv2]. reflexivity. }
  destruct (jsort_spec v dd) as (k & Hk & Hmax & Hcol & Hlam).
  assert (EV : forall i j, (i < 4)%nat -> (j < 4)%nat -> V i j = v i j).
  { intros i j Hi Hj. unfold V. rewrite Est. cbn [st_V]. apply mget_tab4; assumption. }
  assert (Ed : forall j, (j < 4)%nat -> d j = dd j).
  { intros j Hj. unfold d. rewrite Est. cbn [st_sym]. unfold symf. rewrite Nat.eqb_refl. apply vget_tabv; exact Hj. }
  assert (Eq : forall i, (i < 4)%nat -> q i = V i k).
  { intros i Hi. unfold q. rewrite Eres. cbn [snd]. rewrite (Hcol i Hi). symmetry. apply EV; assumption. }
  assert (El : lam = d k).
  { unfold lam. rewrite Eres. cbn [fst]. rewrite Hlam. symmetry. apply Ed; exact Hk. }
  destruct (qf_column A0 V d k HO HD Hk) as [C1 C2].
  assert (N : n2 q = 1).
  { rewrite <- C1. unfold n2, sum4. rewrite !Eq by lia. reflexivity. }
  assert (Q : qf A0 q = lam).
  { rewrite El, <- C2. unfold qf, sum4. rewrite !Eq by lia. reflexivity. }
  split; [ exact N | ].
  split.
  { intros i Hi. rewrite El, (Eq i Hi), <- (eigen_columns A0 V d HO HD i k Hi Hk).
    unfold mv, sum4, mmul. rewrite !Eq by lia. reflexivity. }
  split; [ exact Q | ].
  assert (M : forall j, (j < 4)%nat -> d j <= lam).
  { intros j Hj. rewrite El, (Ed j Hj), (Ed k Hk). apply Hmax; exact Hj. }
  split; [ exact M | ].
  intros r Hr. rewrite Q.
  replace lam with (lam * n2 r) by (rewrite Hr; ring).
  apply (qf_le_max A0 V d r lam HO HD M).
Qed.

(* ------------------------------------------------------------------ *)
(* connection with qtrfit / eigen_contract                              *)

Definition qvec (q : Rquat) : nat -> R := fun i =>
  match i with 0%nat => q0 q | 1%nat => q1 q | 2%nat => q2 q | _ => q3 q end.

Lemma rayleigh_qf : forall (c : cm (A := R)) (q : Rquat),
  rayleigh RA c q = qf (A0_of (cm_rows RA c)) (qvec q).
Proof.
  intros c [[[a b] e] f]. unfold rayleigh, qf, sum4, A0_of, qvec.
  cbn [st_sym jinit]. unfold symf, cm_rows. cbn [Nat.eqb Nat.ltb Nat.leb mget vget List.nth map seq].
  unf. ring.
Qed.

Lemma qnorm2_n2 : forall q : Rquat, qnorm2 RA q = n2 (qvec q).
Proof. intros [[[a b] e] f]. unfold n2, sum4, qvec. unf. reflexivity. Qed.

Lemma cm_rows_wf : forall c : cm (A := R), wf4 (cm_rows RA c).
Proof. intro c. reflexivity. Qed.

(* the eigen-solver contract of Proofs/Quatfit.v, DISCHARGED for every call
   whose Jacobi iteration stops with zero off-diagonal part *)
Theorem jacobi_eigen_contract : forall (defrel refrel : list Rpt) (nrot : nat),
  offzero (jsweeps RA nrot (jinit RA (cm_rows RA (cmat RA defrel refrel)))) ->
  eigen_contract defrel refrel (qtrfit_quat RA nrot defrel refrel).
Proof.
  intros defrel refrel nrot Hz.
  set (c := cmat RA defrel refrel) in *.
  destruct (jacobi_exit_exact (cm_rows RA c) nrot (cm_rows_wf c) Hz) as (_ & _ & N & _ & _ & _ & Hmax).
  set (res := jacobi RA (cm_rows RA c) nrot) in *.
  set (q := fun i => mget RA (snd res) i 3) in *.
  assert (EQ : qtrfit_quat RA nrot defrel refrel = (q 0%nat, q 1%nat, q 2%nat, q 3%nat)).
  { unfold qtrfit_quat. fold c. fold res. destruct res as [dv vm]. reflexivity. }
  rewrite EQ. unfold eigen_contract. fold c.
  assert (En : forall g : nat -> R, n2 (qvec (g 0%nat, g 1%nat, g 2%nat, g 3%nat)) = n2 g) by (intro g; reflexivity).
  assert (Eq : forall g : nat -> R, qf (A0_of (cm_rows RA c)) (qvec (g 0%nat, g 1%nat, g 2%nat, g 3%nat))
                                    = qf (A0_of (cm_rows RA c)) g) by (intro g; reflexivity).
  split.
  - rewrite qnorm2_n2, En. exact N.
  - intros r Hr. rewrite !rayleigh_qf, Eq. apply Hmax. rewrite <- qnorm2_n2. exact Hr.
Qed.

(* fit_exact_image with the contract hypothesis replaced by "jacobi stops
   with zero off-diagonal part" *)
Theorem fit_exact_image_jacobi : forall (defs : list Rpt) (p : Rquat) (T atom : Rpt),
  qnorm2 RA p = 1 -> noncollinear defs ->
  let refs := map (rigid (q2mat RA p) T) defs in
  let defrel := snd (center RA defs) in
  let refrel := snd (center RA refs) in
  offzero (jsweeps RA NROT (jinit RA (cm_rows RA (cmat RA defrel refrel)))) ->
  (forall x, In x defrel ->
     rot1 RA (q2mat RA (qtrfit_quat RA NROT defrel refrel)) x = rot1 RA (q2mat RA p) x) /\
  find_coordinates RA (length defs) refs defs atom = Some (rigid (q2mat RA p) T atom).
Proof.
  intros defs p T atom Hp Hnc refs defrel refrel Hz.
  apply fit_exact_image; [ exact Hp | exact Hnc | ].
  apply jacobi_eigen_contract. exact Hz.
Qed.

(* ------------------------------------------------------------------ *)
(* what remains when the exit is NOT exact: the residual identity.
   Holds at EVERY exit (any fuel, converged or not, no hypothesis): column
   k of V is an approximate eigenvector of A0 for the value d_k = S_kk with
     | A0 v_k - d_k v_k |^2 = sum_{m <> k} S_mk^2   (S = the current matrix)
   so d_k is within sqrt(off-diagonal mass) of an eigenvalue of A0 (the last
   step is the classical residual bound for symmetric matrices, NOT proved
   here, as are convergence of S to diagonal form and rounding).          *)

Lemma AV_VS : forall (A0 V S : fmat),
  orth V -> meq (mmul (mT V) (mmul A0 V)) S ->
  forall i k, (i < 4)%nat -> (k < 4)%nat -> mmul A0 V i k = mmul V S i k.
Proof.
  intros A0 V S [V1 V2] HS i k Hi Hk.
  transitivity (mmul (mmul V (mT V)) (mmul A0 V) i k).
  - unfold mmul at 2. rewrite !(V2 i) by lia. unfold mI.
    idx4 i Hi; cbn [Nat.eqb]; ring.
  - transitivity (sum4 (fun m => V i m * mmul (mT V) (mmul A0 V) m k)).
    + unfold sum4, mmul, mT. ring.
    + unfold sum4. rewrite !HS by lia. unfold mmul. ring.
Qed.

Lemma residual_identity : forall (A0 V S : fmat) (k : nat),
  orth V -> meq (mmul (mT V) (mmul A0 V)) S -> (k < 4)%nat ->
  sum4 (fun i => (mmul A0 V i k - S k k * V i k) * (mmul A0 V i k - S k k * V i k))
  = sum4 (fun m => if (m =? k)%nat then 0 else S m k * S m k).
Proof.
  intros A0 V S k HO HS Hk.
  assert (E := AV_VS A0 V S HO HS). destruct HO as [V1 V2].
  unfold sum4 at 1. rewrite !E by lia.
  transitivity (sum4 (fun m => sum4 (fun m' =>
     (if (m =? k)%nat then 0 else S m k) * (if (m' =? k)%nat then 0 else S m' k) * mmul (mT V) V m m'))).
  - idx4 k Hk; unfold sum4, mmul, mT; cbn [Nat.eqb]; ring.
  - unfold sum4. rewrite !V1 by lia. unfold mI.
    idx4 k Hk; cbn [Nat.eqb]; ring.
Qed.

Theorem jacobi_exit_residual : forall (am : Rmat) (nrot k : nat), wf4 am -> (k < 4)%nat ->
  let A0 := A0_of am in
  let st := jsweeps RA nrot (jinit RA am) in
  let V := st_V st in
  let S := st_sym st in
  sum4 (fun i => (mv A0 (fun j => V j k) i - S k k * V i k) * (mv A0 (fun j => V j k) i - S k k * V i k))
  = sum4 (fun m => if (m =? k)%nat then 0 else S m k * S m k)
  /\ 2 * sum4 (fun m => if (m =? k)%nat then 0 else S m k * S m k) <= off2 S.
Proof.
  intros am nrot k Hwf Hk A0 st V S.
  destruct (jacobi_invariant am nrot Hwf) as (_ & HO & HC).
  split.
  - apply (residual_identity A0 V S k HO HC Hk).
  - assert (Hs : msym S).
    { unfold S. destruct st as [[am' vm'] dv']. apply symf_sym. }
    generalize (Rle_0_sqr (S 0%nat 1%nat)) (Rle_0_sqr (S 0%nat 2%nat)) (Rle_0_sqr (S 0%nat 3%nat))
               (Rle_0_sqr (S 1%nat 2%nat)) (Rle_0_sqr (S 1%nat 3%nat)) (Rle_0_sqr (S 2%nat 3%nat)).
    unfold Rsqr, off2, sum4. intros.
    idx4 k Hk; cbn [Nat.eqb];
    rewrite ?(Hs 1%nat 0%nat), ?(Hs 2%nat 0%nat), ?(Hs 3%nat 0%nat), ?(Hs 2%nat 1%nat), ?(Hs 3%nat 1%nat), ?(Hs 3%nat 2%nat);
    lra.
Qed.

(* ------------------------------------------------------------------ *)
(* non-vacuity of the exit hypothesis: a 6-point template whose second
   moments are diagonal, turned by 180 degrees about x and translated; the
   4x4 matrix of qtrfit is then diagonal (-24, 28, -12, 8), the iteration
   stops with zero off-diagonal part and the sort has to move column 1 (the
   eigenvalue 28) to position 3                                           *)

Lemma offzero_init_cm : forall c : cm (A := R),
  c01 c = 0 -> c02 c = 0 -> c03 c = 0 -> c12 c = 0 -> c13 c = 0 -> c23 c = 0 ->
  offzero (jinit RA (cm_rows RA c)).
Proof.
  intros c H01 H02 H03 H12 H13 H23 p q Hin. unfold pairs in Hin. cbn [In] in Hin.
  destruct Hin as [E | [E | [E | [E | [E | [E | []]]]]]]; inversion E; subst p q; assumption.
Qed.

Definition jex_defs : list Rpt := [(1, 0, 0); (-1, 0, 0); (0, 2, 0); (0, -2, 0); (0, 0, 3); (0, 0, -3)].
Definition jex_p : Rquat := (0, 1, 0, 0).
Definition jex_T : Rpt := (10, -20, 30).

Lemma jacobi_nonvacuous :
  qnorm2 RA jex_p = 1 /\ noncollinear jex_defs /\
  (let refs := map (rigid (q2mat RA jex_p) jex_T) jex_defs in
   let defrel := snd (center RA jex_defs) in
   let refrel := snd (center RA refs) in
   offzero (jsweeps RA NROT (jinit RA (cm_rows RA (cmat RA defrel refrel)))) /\
   c11 (cmat RA defrel refrel) = 28 /\ c00 (cmat RA defrel refrel) = -24 /\
   find_coordinates RA 6 refs jex_defs (1, 2, 3) = Some (11, -22, 27)).
Proof.
  assert (Hp : qnorm2 RA jex_p = 1) by (unfold jex_p; unf; ring).
  assert (Hnc : noncollinear jex_defs).
  { exists (1, 0, 0), (-1, 0, 0), (0, 2, 0). unfold jex_defs. cbn [In].
    repeat split; auto. unf. intro H. apply pt_inv in H. lra. }
  split; [ exact Hp | ]. split; [ exact Hnc | ].
  cbv zeta.
  set (c := cmat RA (snd (center RA jex_defs)) (snd (center RA (map (rigid (q2mat RA jex_p) jex_T) jex_defs)))).
  assert (E : c00 c = -24 /\ c11 c = 28 /\ c01 c = 0 /\ c02 c = 0 /\ c03 c = 0 /\ c12 c = 0 /\ c13 c = 0 /\ c23 c = 0).
  { unfold c. calc. repeat split; field. }
  destruct E as (E00 & E11 & E01 & E02 & E03 & E12 & E13 & E23).
  assert (Hz : offzero (jsweeps RA NROT (jinit RA (cm_rows RA c)))).
  { assert (Hz0 := offzero_init_cm c E01 E02 E03 E12 E13 E23).
    rewrite offzero_fixed; [ exact Hz0 | | exact Hz0 ].
    destruct (jinv_init (cm_rows RA c) (cm_rows_wf c)) as (W & _). exact W. }
  split; [ exact Hz | ]. split; [ exact E11 | ]. split; [ exact E00 | ].
  change 6%nat with (length jex_defs).
  rewrite (proj2 (fit_exact_image_jacobi jex_defs jex_p jex_T (1, 2, 3) Hp Hnc Hz)).
  f_equal. unfold rigid, jex_p, jex_T. unf. apply pt_eq; ring.
Qed.
