(* Proofs about the force-field model (C01). *)
From Coq Require Import ZArith List Bool PArith Permutation.
From PV Require Import Model.ForceField.
Import ListNotations.

(* ---- dict lemmas ------------------------------------------------------------ *)
Section DictFacts.
  Context {V : Type}.

  Lemma dget_dset (d : list (id * V)) k v k' :
    dget (dset d k v) k' = if Pos.eqb k' k then Some v else dget d k'.
  Proof.
    induction d as [|[k0 v0] r IH]; simpl.
    - destruct (Pos.eqb k' k); reflexivity.
    - destruct (Pos.eqb k k0) eqn:E; simpl.
      + apply Pos.eqb_eq in E. subst k0. destruct (Pos.eqb k' k); reflexivity.
      + rewrite IH. destruct (Pos.eqb k' k0) eqn:E0; [|reflexivity].
        apply Pos.eqb_eq in E0. subst k0.
        destruct (Pos.eqb k' k) eqn:E1; [|reflexivity].
        apply Pos.eqb_eq in E1. subst k'. rewrite Pos.eqb_refl in E. discriminate.
  Qed.

  Lemma dget_In (d : list (id * V)) k v : dget d k = Some v -> In (k, v) d.
  Proof.
    induction d as [|[k0 v0] r IH]; simpl; [discriminate|].
    destruct (Pos.eqb k k0) eqn:E.
    - apply Pos.eqb_eq in E. subst k0. intros [= ->]. left; reflexivity.
    - intros H. right. auto.
  Qed.

  (* values of a dict all satisfy P *)
  Definition AllV (P : V -> Prop) (d : list (id * V)) : Prop := Forall (fun kv => P (snd kv)) d.

  Lemma AllV_dset P d k v : AllV P d -> P v -> AllV P (dset d k v).
  Proof.
    intros H Hv. induction H as [|[k0 v0] r H0 Hr IH]; simpl.
    - repeat constructor. exact Hv.
    - destruct (Pos.eqb k k0); constructor; simpl; auto.
  Qed.

  Lemma AllV_dget P d k v : AllV P d -> dget d k = Some v -> P v.
  Proof.
    intros H Hg. apply dget_In in Hg. unfold AllV in H. rewrite Forall_forall in H.
    exact (H _ Hg).
  Qed.
End DictFacts.

(* ---- every entry of the built map is a row of the DAT file ----------------- *)
Section Sound.
  Variable rows : list row.

  Definition from_dat (e : entry) : Prop := exists w, In w rows /\ e = entry_of_row w.
  Definition GoodAtoms (a : atoms) : Prop := AllV from_dat a.
  Definition Good (m : ffmap) : Prop := AllV GoodAtoms m.

  Lemma good_nil_atoms : GoodAtoms [].
  Proof. constructor. Qed.

  Lemma good_get m k : Good m -> GoodAtoms (match dget m k with Some a => a | None => [] end).
  Proof.
    intros H. destruct (dget m k) eqn:E; [eapply AllV_dget; eauto | apply good_nil_atoms].
  Qed.

  Lemma good_load_row m w : Good m -> In w rows -> Good (load_row m w).
  Proof.
    intros H Hw. unfold load_row. apply AllV_dset; [exact H|].
    apply AllV_dset; [apply good_get; exact H|]. exists w. auto.
  Qed.

  Lemma good_load l : (forall w, In w l -> In w rows) -> forall m, Good m -> Good (fold_left load_row l m).
  Proof.
    induction l as [|w r IH]; intros Hl m Hm; simpl; [exact Hm|].
    apply IH; [intros; apply Hl; right; assumption|].
    apply good_load_row; [exact Hm | apply Hl; left; reflexivity].
  Qed.

  Lemma good_fold_dset (src tgt : atoms) :
    GoodAtoms src -> GoodAtoms tgt ->
    GoodAtoms (fold_left (fun t p => dset t (fst p) (snd p)) src tgt).
  Proof.
    intros Hs. revert tgt. induction Hs as [|[k e] r He Hr IH]; intros tgt Ht; simpl; [exact Ht|].
    apply IH. apply AllV_dset; assumption.
  Qed.

  Lemma good_copy m t f m' : Good m -> copy_residue m t f = Some m' -> Good m'.
  Proof.
    intros H. unfold copy_residue. destruct (dget m f) as [src|] eqn:E; [|discriminate].
    intros [= <-]. apply AllV_dset; [exact H|].
    apply good_fold_dset; [eapply AllV_dget; eauto | apply good_get; exact H].
  Qed.

  Lemma good_copies g cs : forall m m', Good m -> do_copies g m cs = Some m' -> Good m'.
  Proof.
    induction cs as [|[t f] r IH]; intros m m' H; simpl.
    - intros [= <-]. exact H.
    - destruct (g && negb (dhas m f)); [apply IH; exact H|].
      destruct (copy_residue m t f) as [m1|] eqn:E; [|discriminate].
      apply IH. eapply good_copy; eauto.
  Qed.

  Lemma good_alias_atoms al : forall a, GoodAtoms a -> GoodAtoms (alias_atoms a al).
  Proof.
    unfold alias_atoms. induction al as [|[n o] r IH]; intros a Ha; simpl; [exact Ha|].
    apply IH. destruct o as [old|]; simpl; [|exact Ha].
    destruct (dget a old) as [e|] eqn:E; [|exact Ha].
    apply AllV_dset; [exact Ha | eapply AllV_dget; eauto].
  Qed.

  Lemma good_do_alias m keys al : Good m -> Good (do_alias m keys al).
  Proof.
    intros H. unfold do_alias, Good, AllV in *. rewrite Forall_map.
    eapply Forall_impl; [|exact H]. intros [k a] Ha; simpl in *.
    destruct (mem_id k keys); simpl; [apply good_alias_atoms|]; exact Ha.
  Qed.

  Lemma good_rule m r m' : Good m -> apply_rule m r = Some m' -> Good m'.
  Proof.
    intros H. unfold apply_rule.
    destruct (if r_has_old r then do_copies (r_group r) m (r_copies r) else Some m) as [m1|] eqn:E; [|discriminate].
    assert (H1 : Good m1).
    { destruct (r_has_old r); [eapply good_copies; eauto | injection E as <-; exact H]. }
    destruct (atommap (r_alias r)); intros [= <-]; [exact H1 | apply good_do_alias; exact H1].
  Qed.

  Lemma good_rules rs : forall m m', Good m -> apply_rules m rs = Some m' -> Good m'.
  Proof.
    induction rs as [|r rest IH]; intros m m' H; simpl.
    - intros [= <-]. exact H.
    - destruct (apply_rule m r) as [m1|] eqn:E; [|discriminate].
      apply IH. eapply good_rule; eauto.
  Qed.

  (* no entry is invented, defaulted, or mixes the charge of one row with the
     radius / native names of another: it IS one row of the file *)
  Theorem build_sound rules m r a e :
    build rows rules = Some m -> lookup m r a = Some e ->
    exists w, In w rows /\ e = entry_of_row w.
  Proof.
    unfold build. intros Hb Hl.
    assert (G : Good m).
    { eapply good_rules; [|exact Hb]. apply good_load; [auto | constructor]. }
    unfold lookup in Hl. destruct (dget m r) as [ats|] eqn:E; [|discriminate].
    eapply (AllV_dget from_dat); [|exact Hl]. eapply AllV_dget; eauto.
  Qed.
End Sound.

(* ---- frame: a residue no rule touches keeps its atoms ------------------------ *)

Lemma dget_map_keep (m : ffmap) (f : id * atoms -> id * atoms) k :
  (forall kv, fst (f kv) = fst kv) ->
  dget (map f m) k = match dget m k with Some a => Some (snd (f (k, a))) | None => None end.
Proof.
  intros Hf. induction m as [|[k0 a0] r IH]; simpl; [reflexivity|].
  specialize (Hf (k0, a0)) as H0. destruct (f (k0, a0)) as [k1 a1] eqn:E. simpl in H0. subst k1.
  destruct (Pos.eqb k k0) eqn:Ek; [|exact IH].
  apply Pos.eqb_eq in Ek. subst k0. rewrite E. reflexivity.
Qed.

Lemma copies_frame g cs k : forall m m',
  ~ In k (map fst cs) -> do_copies g m cs = Some m' -> dget m' k = dget m k.
Proof.
  induction cs as [|[t f] r IH]; intros m m' Hk; simpl.
  - intros [= <-]. reflexivity.
  - simpl in Hk. destruct (g && negb (dhas m f)); [apply IH; tauto|].
    unfold copy_residue. destruct (dget m f) as [src|]; [|discriminate].
    intros H. rewrite (IH _ _ ltac:(tauto) H). rewrite dget_dset.
    destruct (Pos.eqb k t) eqn:E; [apply Pos.eqb_eq in E; subst; tauto | reflexivity].
Qed.

Lemma mem_id_false k l : ~ In k l -> mem_id k l = false.
Proof.
  intros H. unfold mem_id. destruct (existsb (Pos.eqb k) l) eqn:E; [|reflexivity].
  apply existsb_exists in E as [x [Hx Hk]]. apply Pos.eqb_eq in Hk. subst x. contradiction.
Qed.

Definition untouched (k : id) (r : rule) : Prop :=
  ~ In k (map fst (r_copies r)) /\ ~ In k (r_keys r).

Lemma rule_frame m r m' k : untouched k r -> apply_rule m r = Some m' -> dget m' k = dget m k.
Proof.
  intros [H1 H2]. unfold apply_rule.
  destruct (if r_has_old r then do_copies (r_group r) m (r_copies r) else Some m) as [m1|] eqn:E; [|discriminate].
  assert (F1 : dget m1 k = dget m k).
  { destruct (r_has_old r); [eapply copies_frame; eauto | injection E as <-; reflexivity]. }
  destruct (atommap (r_alias r)) as [|p l]; intros [= <-]; [exact F1|].
  unfold do_alias. rewrite dget_map_keep.
  - rewrite F1. destruct (dget m k); [|reflexivity]. simpl. rewrite (mem_id_false _ _ H2). reflexivity.
  - intros [k0 a0]; simpl. destruct (mem_id k0 (r_keys r)); reflexivity.
Qed.

Theorem build_frame rows rules m k :
  Forall (untouched k) rules -> build rows rules = Some m ->
  dget m k = dget (load_dat rows) k.
Proof.
  unfold build. generalize (load_dat rows) as m0. intros m0 H. revert m0.
  induction H as [|r rest Hr Hrest IH]; intros m0; simpl.
  - intros [= <-]. reflexivity.
  - destruct (apply_rule m0 r) as [m1|] eqn:E; [|discriminate].
    intros Hb. rewrite (IH _ Hb). eapply rule_frame; eauto.
Qed.

(* ---- assignment: hits carry exactly the looked-up entry, misses have none,
        and nothing is lost or duplicated ------------------------------------- *)
Section AssignFacts.
  Context {A : Type}.
  Variable m : ffmap.

  Definition all_atoms (rs : list (@res A)) : list A := flat_map (fun r => map fst (snd r)) rs.

  Lemma assign_res_perm (r : @res A) :
    Permutation (map fst (fst (assign_res m r)) ++ snd (assign_res m r)) (map fst (snd r)).
  Proof.
    unfold assign_res. destruct r as [rn ats]. cbn [fst snd].
    induction ats as [|[x n] rest IH]; cbn [fold_right map fst snd]; [constructor|].
    destruct (lookup m rn n); cbn [fst snd map].
    - constructor. exact IH.
    - eapply Permutation_trans; [apply Permutation_sym, Permutation_middle|]. constructor. exact IH.
  Qed.

  Lemma assign_cons (r : @res A) rest :
    assign m (r :: rest) =
    (fst (assign_res m r) ++ fst (assign m rest), snd (assign_res m r) ++ snd (assign m rest)).
  Proof. reflexivity. Qed.

  Theorem assign_partition (rs : list (@res A)) :
    Permutation (map fst (fst (assign m rs)) ++ snd (assign m rs)) (all_atoms rs).
  Proof.
    induction rs as [|r rest IH]; [constructor|].
    rewrite assign_cons. cbn [fst snd all_atoms flat_map]. rewrite map_app.
    apply Permutation_trans with
      ((map fst (fst (assign_res m r)) ++ snd (assign_res m r)) ++
       (map fst (fst (assign m rest)) ++ snd (assign m rest))).
    - rewrite <- !app_assoc. apply Permutation_app_head.
      rewrite !app_assoc. apply Permutation_app_tail. apply Permutation_app_comm.
    - apply Permutation_app; [apply assign_res_perm | exact IH].
  Qed.

  Lemma assign_res_hit (r : @res A) (x : A) e :
    In (x, e) (fst (assign_res m r)) -> exists n, In (x, n) (snd r) /\ lookup m (fst r) n = Some e.
  Proof.
    unfold assign_res. destruct r as [rn ats]. cbn [fst snd].
    induction ats as [|[y n] rest IH]; cbn [fold_right fst snd]; [intros []|].
    destruct (lookup m rn n) eqn:E; cbn [fst snd].
    - intros [[= -> ->] | H]; [exists n; split; [left; reflexivity | exact E]|].
      destruct (IH H) as [n' [H1 H2]]. exists n'. split; [right; exact H1 | exact H2].
    - intros H. destruct (IH H) as [n' [H1 H2]]. exists n'. split; [right; exact H1 | exact H2].
  Qed.

  Lemma assign_res_miss (r : @res A) (x : A) :
    In x (snd (assign_res m r)) -> exists n, In (x, n) (snd r) /\ lookup m (fst r) n = None.
  Proof.
    unfold assign_res. destruct r as [rn ats]. cbn [fst snd].
    induction ats as [|[y n] rest IH]; cbn [fold_right fst snd]; [intros []|].
    destruct (lookup m rn n) eqn:E; cbn [fst snd].
    - intros H. destruct (IH H) as [n' [H1 H2]]. exists n'. split; [right; exact H1 | exact H2].
    - intros [-> | H]; [exists n; split; [left; reflexivity | exact E]|].
      destruct (IH H) as [n' [H1 H2]]. exists n'. split; [right; exact H1 | exact H2].
  Qed.

  (* every atom that gets parameters gets exactly lookup(ffname, atom name) *)
  Theorem assign_hit_exact (rs : list (@res A)) (x : A) e :
    In (x, e) (fst (assign m rs)) ->
    exists r n, In r rs /\ In (x, n) (snd r) /\ lookup m (fst r) n = Some e.
  Proof.
    induction rs as [|r rest IH]; [intros []|]. rewrite assign_cons. cbn [fst snd].
    intros H. apply in_app_or in H as [H | H].
    - destruct (assign_res_hit _ _ _ H) as [n [H1 H2]]. exists r, n. split; [left; reflexivity | auto].
    - destruct (IH H) as [r' [n [H0 [H1 H2]]]]. exists r', n. split; [right; exact H0 | auto].
  Qed.

  (* an atom is reported unassigned only if the force field has no entry *)
  Theorem assign_miss_exact (rs : list (@res A)) (x : A) :
    In x (snd (assign m rs)) ->
    exists r n, In r rs /\ In (x, n) (snd r) /\ lookup m (fst r) n = None.
  Proof.
    induction rs as [|r rest IH]; [intros []|]. rewrite assign_cons. cbn [fst snd].
    intros H. apply in_app_or in H as [H | H].
    - destruct (assign_res_miss _ _ H) as [n [H1 H2]]. exists r, n. split; [left; reflexivity | auto].
    - destruct (IH H) as [r' [n [H0 [H1 H2]]]]. exists r', n. split; [right; exact H0 | auto].
  Qed.
End AssignFacts.

(* ---- the table check is sound: same_map = true means equal lookups ---------- *)

Lemma entry_eqb_eq a b : entry_eqb a b = true -> a = b.
Proof.
  destruct a, b. unfold entry_eqb; simpl. rewrite !andb_true_iff.
  intros [[[H1 H2] H3] H4]. apply Z.eqb_eq in H1, H2. apply Pos.eqb_eq in H3, H4. congruence.
Qed.

Theorem same_map_lookup m dump n r a e :
  same_map m dump n = true -> In (r, a, e) dump -> lookup m r a = Some e.
Proof.
  unfold same_map. rewrite !andb_true_iff. intros [[H _] _] Hin.
  rewrite forallb_forall in H. specialize (H _ Hin). unfold flat_in in H.
  destruct (lookup m r a) as [e'|]; [|discriminate]. apply entry_eqb_eq in H. congruence.
Qed.
