(* Proofs/StagesC09.v - the C09 proof obligations on the GENERATED stage table
   (Generated/Stages.v, rewritten from pdb2pqr/main.py on every check run).
   A code change such as handing args.keep_chain to a compute stage, or moving
   the --ffout renaming before the parameter lookup, makes a lemma here fail. *)
From Coq Require Import String List Bool Arith.
From PV Require Import Model.Pipeline Proofs.Pipeline Generated.Stages.
Import ListNotations.
Local Open Scope string_scope.

(* no Compute stage reads whitespace / keep_chain / include_header / pdb_output /
   apbs_input / ffout, no other option is derived from them, and no Compute
   stage follows the renaming *)
Lemma generated_c09_obligation : c09_obligation format_opts stages = true.
Proof. vm_compute. reflexivity. Qed.

(* the --ffout renaming comes after the parameter lookup and the charge guard,
   and before the PQR is written *)
Lemma generated_ffout_order :
  all_before "apply_force_field" "apply_name_scheme" stages = true
  /\ all_before "raise_if_charge_err" "apply_name_scheme" stages = true
  /\ all_before "apply_force_field" "raise_if_charge_err" stages = true
  /\ all_before "apply_name_scheme" "print_pqr" stages = true.
Proof. vm_compute. repeat split; reflexivity. Qed.

Lemma generated_ffout_after_params :
  forall i j k da db dc,
    nth_error stages i = Some da -> sd_name da = "apply_force_field" ->
    nth_error stages j = Some db -> sd_name db = "raise_if_charge_err" ->
    nth_error stages k = Some dc -> sd_name dc = "apply_name_scheme" ->
    i < j /\ j < k /\ sd_kind dc = Rename.
Proof.
  intros i j k da db dc Hi Ha Hj Hb Hk Hc.
  destruct generated_ffout_order as [_ [H2 [H3 _]]].
  destruct (all_before_spec _ _ _ H2) as [_ [_ L2]].
  destruct (all_before_spec _ _ _ H3) as [_ [_ L3]].
  split; [eapply L3; eauto|]. split; [eapply L2; eauto|].
  assert (Hall : forallb (fun d => negb (String.eqb (sd_name d) "apply_name_scheme")
                                   || kind_eqb (sd_kind d) Rename) stages = true)
    by (vm_compute; reflexivity).
  rewrite forallb_forall in Hall. apply nth_error_In in Hk. specialize (Hall dc Hk).
  rewrite Hc in Hall. cbn in Hall. now apply kind_eqb_eq in Hall.
Qed.

(* the generic theorem instantiated with the generated table *)
Lemma generated_noninterference :
  forall (value state M P : Type) (model : state -> M) (phys : M -> P)
         (sts : list (stage value state)),
    map desc sts = stages -> Forall (stage_ok model phys) sts ->
    forall (o1 o2 : store value) (s : state) r1 r2,
      agree_outside format_opts o1 o2 ->
      exec sts o1 s = Some r1 -> exec sts o2 s = Some r2 ->
      phys (model (snd r1)) = phys (model (snd r2)).
Proof.
  intros value state M P model phys sts Hd Hok o1 o2 s r1 r2 Ha H1 H2.
  assert (Hob : c09_obligation format_opts (map desc sts) = true)
    by (rewrite Hd; apply generated_c09_obligation).
  destruct (format_noninterference value state M P model phys format_opts sts Hok Hob o1 o2 s Ha)
    as [_ [H _]].
  now apply H.
Qed.
