(* C07: concrete inputs - non-vacuity of the guard, and the witnesses that
   refute the unguarded clauses (each replayed on /repo by the harness corpus). *)
From Coq Require Import String Ascii List Arith NArith ZArith Bool Lia Permutation.
From PV Require Import Lib.Strings Lib.Decimal Model.PdbRead Model.Group Model.PdbSpec
  Proofs.PdbRead Proofs.Group Proofs.Ingest.
Import ListNotations.
Local Open Scope string_scope.

Definition wtab : deftab :=
  [("ALA", (KAmino, [("HN", "H")])); ("GLY", (KAmino, [])); ("HOH", (KWater, [("OW", "O")]))].

Definition eol (l : list string) : list string := map (fun s => s ++ nl) l.

(* a non-trivial file meeting the whole guard: header, two models, alt-loc
   duplicate, blank line, CRLF, short line, unknown record, negative resSeq with
   insertion code, TER, water *)
Definition ex_ok : list string :=
  [ "HEADER    TEST" ++ nl;
    "MODEL        1" ++ nl;
    "ATOM      1  N  AALA A   1      11.000  12.000  13.000  1.00  0.00           N" ++ nl;
    "ATOM      2  N  BALA A   1      11.500  12.000  13.000  1.00  0.00           N" ++ nl;
    "   " ++ nl;
    "ATOM      3  CA  ALA A   1      12.000  12.000  13.000" ++ bs [13; 10]%N;
    "FOO bar" ++ nl;
    "ATOM      4  N   GLY A  -2A     14.000  12.000  13.000  1.00  0.00           N" ++ nl;
    "TER" ++ nl;
    "HETATM    5  O   HOH A 100      20.000  12.000  13.000  1.00  0.00           O" ++ nl;
    "ENDMDL" ++ nl;
    "MODEL        2" ++ nl;
    "ATOM      6  N   ALA A   1      31.000  12.000  13.000  1.00  0.00           N" ++ nl;
    "ENDMDL" ++ nl;
    "END" ++ nl ].

Lemma ex_ok_guard :
  guard py_float_ok wtab ex_ok = true /\
  guard_models py_float_ok ex_ok = true /\ guard_water py_float_ok ex_ok = true /\
  serials_of (ingest py_float_ok wtab false ex_ok) = [1; 3; 4; 5]%Z /\
  serials_of (ingest py_float_ok wtab true ex_ok) = [1; 3; 4]%Z /\
  List.length (cols_read ex_ok) = 4.
Proof. vm_compute. repeat split. Qed.

(* ---- END (or nothing pending) in front of the second MODEL ------------------- *)

Definition w_model : list string := eol
  [ "MODEL        1";
    "ATOM      1  N   ALA A   1      11.000  12.000  13.000  1.00  0.00           N";
    "ENDMDL";
    "END";
    "MODEL        2";
    "ATOM      2  N   ALA A   1      21.000  12.000  13.000  1.00  0.00           N";
    "ATOM      3  N   GLY A   2      22.000  12.000  13.000  1.00  0.00           N";
    "ENDMDL";
    "END" ].

Lemma later_models_refuted :
  exists lines,
    forallb (g_line py_float_ok) lines = true /\
    inert (flat_map (line_recs py_float_ok) lines) = true /\
    ingest py_float_ok wtab false lines <> ingest py_float_ok wtab false (first_model false lines) /\
    serials_of (ingest py_float_ok wtab false lines) = [1; 2; 3]%Z /\
    serials_of (ingest py_float_ok wtab false (first_model false lines)) = [1]%Z.
Proof.
  exists w_model. split; [vm_compute; reflexivity|]. split; [vm_compute; reflexivity|].
  assert (S1 : serials_of (ingest py_float_ok wtab false w_model) = [1; 2; 3]%Z) by (vm_compute; reflexivity).
  assert (S2 : serials_of (ingest py_float_ok wtab false (first_model false w_model)) = [1]%Z)
    by (vm_compute; reflexivity).
  split; [|split; assumption]. intros E. rewrite E, S2 in S1. discriminate.
Qed.

(* ---- HETATM water whose serial is fused to the record name ------------------- *)

Definition w_water : list string := eol
  [ "ATOM      1  N   ALA A   1      11.000  12.000  13.000  1.00  0.00           N";
    "HETATM 9999  O   HOH A 500      20.000  12.000  13.000  1.00  0.00           O";
    "HETATM10000  O   HOH A 501      21.000  12.000  13.000  1.00  0.00           O" ].

Lemma drop_water_refuted :
  exists lines,
    forallb (g_line py_float_ok) lines = true /\
    ingest py_float_ok wtab true lines <>
      ingest py_float_ok wtab false (filter (fun l => negb (is_water_line l)) lines) /\
    serials_of (ingest py_float_ok wtab true lines) = [1; 10000]%Z /\
    serials_of (ingest py_float_ok wtab false (filter (fun l => negb (is_water_line l)) lines)) = [1]%Z.
Proof.
  exists w_water. split; [vm_compute; reflexivity|].
  assert (S1 : serials_of (ingest py_float_ok wtab true w_water) = [1; 10000]%Z) by (vm_compute; reflexivity).
  assert (S2 : serials_of (ingest py_float_ok wtab false
                             (filter (fun l => negb (is_water_line l)) w_water)) = [1]%Z)
    by (vm_compute; reflexivity).
  split; [|split; assumption]. intros E. rewrite E, S2 in S1. discriminate.
Qed.

(* ---- the same identity listed in two separate residue runs -------------------- *)

Definition w_noncontig : list string := eol
  [ "ATOM      1  N  AALA A   1      11.000  12.000  13.000  1.00  0.00           N";
    "ATOM      2  N   GLY A   2      12.000  12.000  13.000  1.00  0.00           N";
    "ATOM      3  N  BALA A   1      11.500  12.000  13.000  1.00  0.00           N" ].

Definition conclusion (tab : deftab) (lines : list string) : Prop :=
  exists rs, ingest py_float_ok tab false lines = Done rs /\
    Permutation (map a_src (all_atoms rs)) (map strip (cols_read lines)).

Lemma noncontiguous_refuted :
  exists lines,
    forallb (g_line py_float_ok) lines = true /\
    (let recs := flat_map (line_recs py_float_ok) lines in
     inert recs = true /\ nm_ok 0 false recs = true /\
     forallb (alias_ok wtab) (lsegs 0 [] recs) = true) /\
    serials_of (ingest py_float_ok wtab false lines) = [1; 2; 3]%Z /\
    List.length (cols_read lines) = 2 /\
    ~ conclusion wtab lines.
Proof.
  exists w_noncontig. split; [vm_compute; reflexivity|]. split; [vm_compute; repeat split|].
  split; [vm_compute; reflexivity|]. split; [vm_compute; reflexivity|].
  intros [rs [E P]]. apply Permutation_length in P. rewrite !map_length in P.
  assert (L : List.length (cols_read w_noncontig) = 2) by (vm_compute; reflexivity).
  rewrite L in P.
  assert (S : serials_of (ingest py_float_ok wtab false w_noncontig) = [1; 2; 3]%Z) by (vm_compute; reflexivity).
  rewrite E in S. simpl in S. apply (f_equal (@List.length Z)) in S. rewrite map_length, P in S. discriminate.
Qed.

(* ---- a blank chain lettered onto an existing chain identifier ------------------ *)

Definition w_letter : list string := eol
  [ "ATOM      1  N   ALA     1      11.000  12.000  13.000  1.00  0.00           N";
    "ATOM      2  N   ALA A   1      12.000  12.000  13.000  1.00  0.00           N";
    "TER" ].

Lemma lettering_refuted :
  exists lines,
    forallb (g_line py_float_ok) lines = true /\
    (let recs := flat_map (line_recs py_float_ok) lines in
     nm_ok 0 false recs = true /\ runs_disjoint (lsegs 0 [] recs) = true /\
     forallb (alias_ok wtab) (lsegs 0 [] recs) = true) /\
    serials_of (ingest py_float_ok wtab false lines) = [1]%Z /\
    List.length (cols_read lines) = 2 /\
    ~ conclusion wtab lines.
Proof.
  exists w_letter. split; [vm_compute; reflexivity|]. split; [vm_compute; repeat split|].
  split; [vm_compute; reflexivity|]. split; [vm_compute; reflexivity|].
  intros [rs [E P]]. apply Permutation_length in P. rewrite !map_length in P.
  assert (L : List.length (cols_read w_letter) = 2) by (vm_compute; reflexivity).
  rewrite L in P.
  assert (S : serials_of (ingest py_float_ok wtab false w_letter) = [1]%Z) by (vm_compute; reflexivity).
  rewrite E in S. simpl in S. apply (f_equal (@List.length Z)) in S. rewrite map_length, P in S. discriminate.
Qed.
