(* C07: concrete inputs - non-vacuity of the guard, the witnesses that show the
   two design guards (G2 blank-chain segments, G5 alias names) cannot be dropped,
   and the former refutation witnesses of the repaired defects C07-F3..F6, which
   are now regression examples (each replayed on /repo by the harness corpus). *)
From Coq Require Import String Ascii List Arith NArith ZArith Bool Lia Permutation.
From PV Require Import Lib.Strings Lib.Decimal Model.PdbRead Model.Group Model.PdbSpec
  Proofs.PdbRead Proofs.Group Proofs.Ingest Proofs.Ingest2.
Import ListNotations.
Local Open Scope string_scope.

Definition wtab : deftab :=
  [("ALA", (KAmino, [("HN", "H")])); ("GLY", (KAmino, [])); ("HOH", (KWater, [("OW", "O")]))].

Definition eol (l : list string) : list string := map (fun s => s ++ nl) l.

(* a non-trivial file meeting the whole guard: header, two models, alt-loc
   duplicate, blank line, CRLF, short line, unknown record, negative resSeq with
   insertion code, TER, water *)
Definition ex_ok : list string :=
  [ "HEADER    TEST" ++ nl;
    "MODEL        1" ++ nl;
    "ATOM      1  N  AALA A   1      11.000  12.000  13.000  1.00  0.00           N" ++ nl;
    "ATOM      2  N  BALA A   1      11.500  12.000  13.000  1.00  0.00           N" ++ nl;
    "   " ++ nl;
    "ATOM      3  CA  ALA A   1      12.000  12.000  13.000" ++ bs [13; 10]%N;
    "FOO bar" ++ nl;
    "ATOM      4  N   GLY A  -2A     14.000  12.000  13.000  1.00  0.00           N" ++ nl;
    "TER" ++ nl;
    "HETATM    5  O   HOH A 100      20.000  12.000  13.000  1.00  0.00           O" ++ nl;
    "ENDMDL" ++ nl;
    "MODEL        2" ++ nl;
    "ATOM      6  N   ALA A   1      31.000  12.000  13.000  1.00  0.00           N" ++ nl;
    "ENDMDL" ++ nl;
    "END" ++ nl ].

Lemma ex_ok_guard :
  guard py_float_ok wtab ex_ok = true /\
  guard_models py_float_ok ex_ok = true /\
  serials_of (ingest py_float_ok wtab false ex_ok) = [1; 3; 4; 5]%Z /\
  serials_of (ingest py_float_ok wtab true ex_ok) = [1; 3; 4]%Z /\
  List.length (cols_read ex_ok) = 4.
Proof.
  split; [vm_compute; reflexivity|]. split; [vm_compute; reflexivity|].
  split; [vm_compute; reflexivity|]. split; vm_compute; reflexivity.
Qed.

Definition conclusion (tab : deftab) (lines : list string) : Prop :=
  exists rs, ingest py_float_ok tab false lines = Done rs /\
    Permutation (map a_src (all_atoms rs)) (map strip (cols_read lines)).

(* ---- regression: END in front of the second MODEL (was C07-F3) ----------------- *)

Definition w_model : list string := eol
  [ "MODEL        1";
    "ATOM      1  N   ALA A   1      11.000  12.000  13.000  1.00  0.00           N";
    "ENDMDL";
    "END";
    "MODEL        2";
    "ATOM      2  N   ALA A   1      21.000  12.000  13.000  1.00  0.00           N";
    "ATOM      3  N   GLY A   2      22.000  12.000  13.000  1.00  0.00           N";
    "ENDMDL";
    "END" ].

Lemma model_end_regression :
  guard py_float_ok wtab w_model = true /\
  serials_of (ingest py_float_ok wtab false w_model) = [1]%Z.
Proof. split; vm_compute; reflexivity. Qed.

(* ---- regression: HETATM water with a five-digit serial (was C07-F4) ------------ *)

Definition w_water : list string := eol
  [ "ATOM      1  N   ALA A   1      11.000  12.000  13.000  1.00  0.00           N";
    "HETATM 9999  O   HOH A 500      20.000  12.000  13.000  1.00  0.00           O";
    "HETATM10000  O   HOH A 501      21.000  12.000  13.000  1.00  0.00           O" ].

Lemma water_serial_regression :
  forallb (g_line py_float_ok) w_water = true /\
  serials_of (ingest py_float_ok wtab true w_water) = [1]%Z /\
  serials_of (ingest py_float_ok wtab false w_water) = [1; 9999; 10000]%Z.
Proof. split; [vm_compute; reflexivity|]. split; vm_compute; reflexivity. Qed.

(* ---- regression: an identity listed again after its residue (was C07-F5) ------- *)

Definition w_noncontig : list string := eol
  [ "ATOM      1  N  AALA A   1      11.000  12.000  13.000  1.00  0.00           N";
    "ATOM      2  N   GLY A   2      12.000  12.000  13.000  1.00  0.00           N";
    "ATOM      3  N  BALA A   1      11.500  12.000  13.000  1.00  0.00           N" ].

Lemma noncontiguous_regression :
  guard py_float_ok wtab w_noncontig = true /\
  serials_of (ingest py_float_ok wtab false w_noncontig) = [1; 2]%Z /\
  List.length (cols_read w_noncontig) = 2.
Proof. split; [vm_compute; reflexivity|]. split; vm_compute; reflexivity. Qed.

(* ---- regression: blank chain next to an explicit chain A (was C07-F6) ----------
   outside G2, but the conclusion holds on it since the fix: the blank chain gets
   the first letter the file does not use (B) *)

Definition w_letter : list string := eol
  [ "ATOM      1  N   ALA     1      11.000  12.000  13.000  1.00  0.00           N";
    "ATOM      2  N   ALA A   1      12.000  12.000  13.000  1.00  0.00           N";
    "TER" ].

Lemma lettering_regression :
  serials_of (ingest py_float_ok wtab false w_letter) = [2; 1]%Z /\
  List.length (cols_read w_letter) = 2 /\
  conclusion wtab w_letter.
Proof.
  split; [vm_compute; reflexivity|]. split; [vm_compute; reflexivity|].
  unfold conclusion. eexists. split; [vm_compute; reflexivity|].
  vm_compute. apply perm_swap.
Qed.

(* ---- design guard G2: blank chain ids in two TER segments ------------------------
   (TER ends a chain: the two records are atoms of two chains, lettered A and B;
   the raw-column identity of cols_read sees one identity.  By design.) *)

Definition w_segments : list string := eol
  [ "ATOM      1  N   ALA     1      11.000  12.000  13.000  1.00  0.00           N";
    "TER";
    "ATOM      2  N   ALA     1      12.000  12.000  13.000  1.00  0.00           N";
    "TER" ].

Lemma segments_refuted :
  exists lines,
    forallb (g_line py_float_ok) lines = true /\
    forallb (alias_ok wtab) (lsegs [] 0 [] (flat_map (line_recs py_float_ok) lines)) = true /\
    serials_of (ingest py_float_ok wtab false lines) = [1; 2]%Z /\
    List.length (cols_read lines) = 1 /\
    ~ conclusion wtab lines.
Proof.
  exists w_segments. split; [vm_compute; reflexivity|]. split; [vm_compute; reflexivity|].
  split; [vm_compute; reflexivity|]. split; [vm_compute; reflexivity|].
  intros [rs [E P]]. apply Permutation_length in P. rewrite !map_length in P.
  assert (L : List.length (cols_read w_segments) = 1) by (vm_compute; reflexivity).
  rewrite L in P.
  assert (S : serials_of (ingest py_float_ok wtab false w_segments) = [1; 2]%Z) by (vm_compute; reflexivity).
  rewrite E in S. simpl in S. apply (f_equal (@List.length Z)) in S. rewrite map_length, P in S. discriminate.
Qed.

(* ---- design guard G5: two alias names of one atom listed in one residue ----------
   (HN is the definition's alternative name of H: both records become "H" and
   the second is dropped.  By design of the naming scheme.) *)

Definition w_alias : list string := eol
  [ "ATOM      1  HN  ALA A   1      11.000  12.000  13.000  1.00  0.00           H";
    "ATOM      2  H   ALA A   1      12.000  12.000  13.000  1.00  0.00           H" ].

Lemma alias_refuted :
  exists lines,
    forallb (g_line py_float_ok) lines = true /\
    inert (flat_map (line_recs py_float_ok) lines) = true /\
    serials_of (ingest py_float_ok wtab false lines) = [1]%Z /\
    List.length (cols_read lines) = 2 /\
    ~ conclusion wtab lines.
Proof.
  exists w_alias. split; [vm_compute; reflexivity|]. split; [vm_compute; reflexivity|].
  split; [vm_compute; reflexivity|]. split; [vm_compute; reflexivity|].
  intros [rs [E P]]. apply Permutation_length in P. rewrite !map_length in P.
  assert (L : List.length (cols_read w_alias) = 2) by (vm_compute; reflexivity).
  rewrite L in P.
  assert (S : serials_of (ingest py_float_ok wtab false w_alias) = [1]%Z) by (vm_compute; reflexivity).
  rewrite E in S. simpl in S. apply (f_equal (@List.length Z)) in S. rewrite map_length, P in S. discriminate.
Qed.

(* ==== G1': all line lists ======================================================== *)

Definition conclusion2 (tab : deftab) (lines : list string) : Prop :=
  exists rs, ingest py_float_ok tab false lines = Done rs /\
    Permutation (map a_src (all_atoms rs)) (map strip (cols_read2 py_float_ok lines)).

(* non-vacuity of guard2 outside the old G1: leading blanks and a tab in front of
   coordinate lines, a whitespace-format line read through the fallback, a line cut
   inside the z field, a lower-case record name (unknown record), CRLF, blank line *)
Definition ex2 : list string :=
  [ "   ATOM      1  N   ALA A   1      11.000  12.000  13.000  1.00  0.00           N" ++ nl;
    bs [9]%N ++ "ATOM      2  CA  ALA A   1      12.000  12.000  13.000" ++ bs [13; 10]%N;
    "ATOM      3 1 2 3 4 5" ++ nl;
    "atom      4  O   ALA A   1      14.000  12.000  13.000  1.00  0.00           O" ++ nl;
    "  " ++ nl;
    "ATOM      5  N   GLY A   2      15.000  12.000  13.5" ++ nl;
    " END" ++ nl ].

Lemma ex2_guard :
  guard2 py_float_ok wtab ex2 = true /\
  forallb (g_line py_float_ok) ex2 = false /\
  existsb (raises py_float_ok) ex2 = false /\
  serials_of (ingest py_float_ok wtab false ex2) = [1; 2; 5; 3]%Z /\
  List.length (cols_read2 py_float_ok ex2) = 4 /\
  map (spec_line py_float_ok) (cols_read2 py_float_ok ex2) =
    [ Some "ATOM      1  N   ALA A   1      11.000  12.000  13.000  1.00  0.00           N";
      Some "ATOM      2  CA  ALA A   1      12.000  12.000  13.000";
      Some "ATOM      3 1 2 3 4 5   3          1       2       3     4     5";
      Some "ATOM      5  N   GLY A   2      15.000  12.000  13.5" ].
Proof.
  split; [vm_compute; reflexivity|]. split; [vm_compute; reflexivity|].
  split; [vm_compute; reflexivity|]. split; [vm_compute; reflexivity|].
  split; vm_compute; reflexivity.
Qed.

(* a line that raises makes the whole read fail loudly *)
Definition ex2_loud : list string :=
  [ "ATOM      1  N   ALA A   1      11.000  12.000  13.000  1.00  0.00           N" ++ nl;
    "ATOM      2  CA  ALA A   1      12.000  12.0" ++ nl ].

Lemma ex2_loud_raises :
  guard2 py_float_ok wtab ex2_loud = true /\ existsb (raises py_float_ok) ex2_loud = true /\
  ingest py_float_ok wtab false ex2_loud = Raised "ValueError".
Proof. split; [vm_compute; reflexivity|]. split; vm_compute; reflexivity. Qed.

(* ---- regression: a coordinate line without coordinates (was C07-F7) ------------- *)

Definition w_short : list string := eol
  [ "ATOM      1  N   ALA A   1      11.000  12.000  13.000  1.00  0.00           N";
    "ATOM      2  CA  ALA A   1";
    "ATOM      3  N   GLY A   2      13.000  12.000  13.000  1.00  0.00           N" ].

(* ---- regression: MODEL records without a number in columns 11-14 (was C07-F8) --- *)

Definition w_model_free : list string := eol
  [ "MODEL 1";
    "ATOM      1  N   ALA A   1      11.000  12.000  13.000  1.00  0.00           N";
    "ENDMDL";
    "MODEL 2";
    "ATOM      3  N   GLY A   2      13.000  12.000  13.000  1.00  0.00           N";
    "ENDMDL" ].

Lemma all_lines_regressions :
  (guard2 py_float_ok wtab w_short = true /\
   existsb (raises py_float_ok) w_short = true /\
   ingest py_float_ok wtab false w_short = Raised "ValueError") /\
  (guard2 py_float_ok wtab w_model_free = true /\
   existsb (raises py_float_ok) w_model_free = false /\
   serials_of (ingest py_float_ok wtab false w_model_free) = [1]%Z /\
   List.length (cols_read2 py_float_ok w_model_free) = 1).
Proof.
  split; [split; [vm_compute; reflexivity|]; split; vm_compute; reflexivity|].
  split; [vm_compute; reflexivity|]. split; [vm_compute; reflexivity|].
  split; vm_compute; reflexivity.
Qed.

(* a HET record its parser rejects (blank atom count) in front of HETATM records, with
   the other parsers' behaviour explicit: the HETATM records are all read *)
Definition w_het : list string := eol
  [ "HET    SO4  A 101           SULFATE";
    "ATOM      1  N   ALA A   1      11.000  12.000  13.000  1.00  0.00           N";
    "HETATM    2  S   SO4 A 101      12.000  12.000  13.000  1.00  0.00           S";
    "HET    SO4  A 102           SULFATE";
    "HETATM    3  S   SO4 A 102      13.000  12.000  13.000  1.00  0.00           S" ].

Lemma het_regression :
  serials_of (ingestG py_float_ok (fun _ => true) wtab false w_het) = [1; 2; 3]%Z /\
  serials_of (ingestG py_float_ok (fun _ => false) wtab false w_het) = [1; 2; 3]%Z.
Proof. split; vm_compute; reflexivity. Qed.

(* ---- regression: a UTF-8 byte order mark in front of the first record (was C07-F9) *)

Definition w_bom_text : string :=
  "ATOM      1  N   ALA A   1      11.000  12.000  13.000  1.00  0.00           N" ++ nl ++
  "ATOM      2  CA  ALA A   1      12.000  12.000  13.000  1.00  0.00           C" ++ nl.

Lemma bom_regression :
  serials_of (ingest py_float_ok wtab false (chunks_of_bytes w_bom_text)) = [1; 2]%Z /\
  serials_of (ingest py_float_ok wtab false (chunks_of_bytes (bom_bytes ++ w_bom_text))) = [1; 2]%Z.
Proof. split; vm_compute; reflexivity. Qed.

(* ---- --drop-water with serial numbers shared by waters and non-waters ------------- *)

Definition w_dupserial : list string := eol
  [ "MODEL        1";
    "ATOM      1  N   ALA A   1      11.000  12.000  13.000  1.00  0.00           N";
    "ATOM      2  CA  ALA A   1      12.000  12.000  13.000  1.00  0.00           C";
    "HETATM    1  O   HOH A 500      20.000  12.000  13.000  1.00  0.00           O";
    "HETATM    2  O   TIP A 501      21.000  12.000  13.000  1.00  0.00           O";
    "ENDMDL";
    "MODEL        2";
    "HETATM    2  O   WAT A 500      30.000  12.000  13.000  1.00  0.00           O";
    "ENDMDL" ].

Lemma dupserial_example :
  guard2 py_float_ok wtab (filter (fun l => negb (is_water_line2 py_float_ok l)) w_dupserial) = true /\
  existsb (raises py_float_ok) w_dupserial = false /\
  map (fun a => (a_serial a, a_resname a))
      (match ingest py_float_ok wtab true w_dupserial with Done rs => all_atoms rs | _ => [] end) =
    [(1, "ALA"); (2, "ALA"); (2, "TIP")]%Z /\
  serials_of (ingest py_float_ok wtab false w_dupserial) = [1; 2; 1; 2]%Z.
Proof.
  split; [vm_compute; reflexivity|]. split; [vm_compute; reflexivity|]. split; vm_compute; reflexivity.
Qed.
