(* Proofs about Model/Quatfit.v over the real-number instance RArith.
   (C15; rot_isometry / rot_fixes_axis / tetra_120 are reused by C04/C05.) *)
From Coq Require Import Reals List ZArith Lra Lia Nsatz Psatz.
From PV Require Import Model.Quatfit.
Import ListNotations.
Local Open Scope R_scope.

Notation RA := RArith.
Notation Rpt := (pt (A := R)).
Notation Rmat3 := (mat3 (A := R)).
Notation Rquat := (quat (A := R)).

(* unfold the model's vector algebra down to + - * / on R *)
Ltac unf :=
  unfold qtransform1, translate1, rot1, q2mat, chi_mat, normalize_with, dot3, cross3,
         psub, padd, qnorm2, rayleigh, modif_of_mode in *;
  unfold row0, row1, row2, q0, q1, q2, q3 in *;
  unfold px, py, pz in *;
  cbn [a_add a_sub a_mul a_div a_zero a_one a_two a_ofZ RArith fst snd
       c00 c01 c02 c03 c11 c12 c13 c22 c23 c33 Z.eqb Pos.eqb] in *.

Lemma pt_eq : forall a b c a' b' c' : R, a = a' -> b = b' -> c = c' -> (a, b, c) = (a', b', c').
Proof. intros; subst; reflexivity. Qed.

Lemma pt_inv : forall a b c a' b' c' : R, (a, b, c) = (a', b', c') -> a = a' /\ b = b' /\ c = c'.
Proof. intros a b c a' b' c' H; inversion H; auto. Qed.

(* ------------------------------------------------------------------ *)
(* rotations                                                            *)

Definition det3 (m : Rmat3) : R :=
  let '((a, b, c), (d, e, f), (g, h, i)) := m in
  a * (e * i - f * h) - b * (d * i - f * g) + c * (d * h - e * g).

Definition transpose3 (m : Rmat3) : Rmat3 :=
  let '((a, b, c), (d, e, f), (g, h, i)) := m in
  ((a, d, g), (b, e, h), (c, f, i)).

Definition orthonormal_rows (m : Rmat3) : Prop :=
  dot3 RA (row0 m) (row0 m) = 1 /\ dot3 RA (row1 m) (row1 m) = 1 /\ dot3 RA (row2 m) (row2 m) = 1 /\
  dot3 RA (row0 m) (row1 m) = 0 /\ dot3 RA (row0 m) (row2 m) = 0 /\ dot3 RA (row1 m) (row2 m) = 0.

(* U^T U = I, U U^T = I, det U = 1 *)
Definition proper_rotation (m : Rmat3) : Prop :=
  orthonormal_rows m /\ orthonormal_rows (transpose3 m) /\ det3 m = 1.

Definition dist2 (a b : Rpt) : R := dot3 RA (psub RA a b) (psub RA a b).

Definition scale (t : R) (v : Rpt) : Rpt := (t * px v, t * py v, t * pz v).

(* rotmol's map is linear *)
Lemma rot1_linear : forall (m : Rmat3) (a b : R) (v w : Rpt),
  rot1 RA m (padd RA (scale a v) (scale b w)) = padd RA (scale a (rot1 RA m v)) (scale b (rot1 RA m w)).
Proof.
  intros [[[[m00 m01] m02] [[m10 m11] m12]] [[m20 m21] m22]]; intros a b [[v0 v1] v2] [[w0 w1] w2].
  unfold scale; unf. apply pt_eq; ring.
Qed.

Lemma rot1_sub : forall (m : Rmat3) (v w : Rpt),
  rot1 RA m (psub RA v w) = psub RA (rot1 RA m v) (rot1 RA m w).
Proof.
  intros [[[[m00 m01] m02] [[m10 m11] m12]] [[m20 m21] m22]]; intros [[v0 v1] v2] [[w0 w1] w2].
  unf. apply pt_eq; ring.
Qed.

(* orthonormal rows => rotmol's map (out = sum_j v_j * row_j) preserves dot products *)
Lemma rot_preserves_dot : forall (m : Rmat3) (v w : Rpt),
  orthonormal_rows m -> dot3 RA (rot1 RA m v) (rot1 RA m w) = dot3 RA v w.
Proof.
  intros [[[[m00 m01] m02] [[m10 m11] m12]] [[m20 m21] m22]]; intros [[v0 v1] v2] [[w0 w1] w2].
  unfold orthonormal_rows; unf. intros (H1 & H2 & H3 & H4 & H5 & H6). nsatz.
Qed.

Lemma rot_preserves_dist2 : forall (m : Rmat3) (v w : Rpt),
  orthonormal_rows m -> dist2 (rot1 RA m v) (rot1 RA m w) = dist2 v w.
Proof.
  intros m v w H. unfold dist2. rewrite <- rot1_sub. apply rot_preserves_dot; exact H.
Qed.

(* q2mat of a unit quaternion is a proper rotation: never a reflection *)
Lemma q2mat_rotation : forall q : Rquat, qnorm2 RA q = 1 -> proper_rotation (q2mat RA q).
Proof.
  intros [[[a b] c] d] H. unfold proper_rotation, orthonormal_rows, transpose3, det3. unf.
  repeat split; nsatz.
Qed.

(* handedness: cross products are carried along (an improper map would negate) *)
Lemma q2mat_preserves_cross : forall (q : Rquat) (v w : Rpt), qnorm2 RA q = 1 ->
  rot1 RA (q2mat RA q) (cross3 RA v w) = cross3 RA (rot1 RA (q2mat RA q) v) (rot1 RA (q2mat RA q) w).
Proof.
  intros [[[a b] c] d] [[v0 v1] v2] [[w0 w1] w2] H. unf. apply pt_eq; nsatz.
Qed.

Lemma q2mat_preserves_dot : forall (q : Rquat) (v w : Rpt), qnorm2 RA q = 1 ->
  dot3 RA (rot1 RA (q2mat RA q) v) (rot1 RA (q2mat RA q) w) = dot3 RA v w.
Proof. intros q v w H. apply rot_preserves_dot. exact (proj1 (q2mat_rotation q H)). Qed.

(* quaternion product matching the composition of rotmol maps:
   rotmol(q2mat g) o rotmol(q2mat p) = rotmol(q2mat (qmul p g)) *)
Definition qmul (p g : Rquat) : Rquat :=
  let '(a1, b1, c1, d1) := p in
  let '(a2, b2, c2, d2) := g in
  (a1 * a2 - b1 * b2 - c1 * c2 - d1 * d2,
   a1 * b2 + b1 * a2 + c1 * d2 - d1 * c2,
   a1 * c2 - b1 * d2 + c1 * a2 + d1 * b2,
   a1 * d2 + b1 * c2 - c1 * b2 + d1 * a2).

Lemma qmul_norm : forall p g : Rquat, qnorm2 RA (qmul p g) = qnorm2 RA p * qnorm2 RA g.
Proof. intros [[[a1 b1] c1] d1] [[[a2 b2] c2] d2]. unfold qmul. unf. ring. Qed.

Lemma qmul_compose : forall (p g : Rquat) (v : Rpt),
  rot1 RA (q2mat RA g) (rot1 RA (q2mat RA p) v) = rot1 RA (q2mat RA (qmul p g)) v.
Proof.
  intros [[[a1 b1] c1] d1] [[[a2 b2] c2] d2] [[v0 v1] v2]. unfold qmul. unf. apply pt_eq; ring.
Qed.

(* ------------------------------------------------------------------ *)
(* qchichange                                                           *)

Lemma chi_rotation : forall (l : Rpt) (c s : R),
  dot3 RA l l = 1 -> c * c + s * s = 1 -> proper_rotation (chi_mat RA l c s).
Proof.
  intros [[a b] d] c s H1 H2. unfold proper_rotation, orthonormal_rows, transpose3, det3. unf.
  repeat split; nsatz.
Qed.

(* every point of the axis line is fixed (no condition on c, s) *)
Lemma rot_fixes_axis : forall (l : Rpt) (c s t : R),
  dot3 RA l l = 1 -> rot1 RA (chi_mat RA l c s) (scale t l) = scale t l.
Proof.
  intros [[a b] d] c s t H. unfold scale. unf. apply pt_eq; nsatz.
Qed.

Lemma rot_isometry : forall (l : Rpt) (c s : R) (v w : Rpt),
  dot3 RA l l = 1 -> c * c + s * s = 1 ->
  dist2 (rot1 RA (chi_mat RA l c s) v) (rot1 RA (chi_mat RA l c s) w) = dist2 v w.
Proof.
  intros l c s v w H1 H2. apply rot_preserves_dist2. exact (proj1 (chi_rotation l c s H1 H2)).
Qed.

Lemma chi_preserves_dot : forall (l : Rpt) (c s : R) (v w : Rpt),
  dot3 RA l l = 1 -> c * c + s * s = 1 ->
  dot3 RA (rot1 RA (chi_mat RA l c s) v) (rot1 RA (chi_mat RA l c s) w) = dot3 RA v w.
Proof. intros l c s v w H1 H2. apply rot_preserves_dot. exact (proj1 (chi_rotation l c s H1 H2)). Qed.

Lemma chi_preserves_cross : forall (l : Rpt) (c s : R) (v w : Rpt),
  dot3 RA l l = 1 -> c * c + s * s = 1 ->
  rot1 RA (chi_mat RA l c s) (cross3 RA v w)
  = cross3 RA (rot1 RA (chi_mat RA l c s) v) (rot1 RA (chi_mat RA l c s) w).
Proof.
  intros [[a b] d] c s [[v0 v1] v2] [[w0 w1] w2] H1 H2. unf. apply pt_eq; nsatz.
Qed.

(* the map is the right-handed Rodrigues rotation:
   v' = c v + s (l x v) + (1-c)(l.v) l *)
Lemma chi_rodrigues : forall (l : Rpt) (c s : R) (v : Rpt),
  rot1 RA (chi_mat RA l c s) v
  = padd RA (padd RA (scale c v) (scale s (cross3 RA l v))) (scale ((1 - c) * dot3 RA l v) l).
Proof.
  intros [[a b] d] c s [[v0 v1] v2]. unfold scale. unf. apply pt_eq; ring.
Qed.

(* normalisation over R gives a unit vector *)
Lemma normalize_unit : forall v : Rpt, dot3 RA v v <> 0 -> dot3 RA (normalize RA v) (normalize RA v) = 1.
Proof.
  intros [[a b] d] H. unfold normalize, norm3.
  assert (Hpos : 0 <= dot3 RA (a, b, d) (a, b, d)) by (unf; nra).
  assert (Hs : sqrt (dot3 RA (a, b, d) (a, b, d)) * sqrt (dot3 RA (a, b, d) (a, b, d)) = dot3 RA (a, b, d) (a, b, d))
    by (apply sqrt_sqrt; exact Hpos).
  cbn [a_sqrt RArith].
  set (n := sqrt (dot3 RA (a, b, d) (a, b, d))) in *.
  assert (Hn : n <> 0) by (intro Hz; rewrite Hz in Hs; apply H; rewrite <- Hs; ring).
  clearbody n. unf. field_simplify_eq; [ | exact Hn ].
  transitivity (n * n); [ rewrite Hs; ring | ring ].
Qed.

Lemma normalize_parallel : forall v : Rpt, dot3 RA v v <> 0 ->
  v = scale (norm3 RA v) (normalize RA v).
Proof.
  intros [[a b] d] H. unfold normalize, norm3, scale. cbn [a_sqrt RArith].
  set (n := sqrt (dot3 RA (a, b, d) (a, b, d))).
  assert (Hn : n <> 0).
  { unfold n. intro Hz. apply sqrt_eq_0 in Hz; [ exact (H Hz) | unf; nra ]. }
  unf. apply pt_eq; field; exact Hn.
Qed.

(* Residue.rotate_tetrahedral / Debump.set_dihedral_angle geometry: the moved
   point keeps its distance to every point of the axis line, in particular to
   both axis atoms, and the map preserves all mutual distances of moved atoms *)
Lemma rotate_about_axis_dist : forall (c s : R) (o a p : Rpt) (t : R),
  dot3 RA (psub RA a o) (psub RA a o) <> 0 -> c * c + s * s = 1 ->
  let x := padd RA (scale t (psub RA a o)) o in
  dist2 (rotate_about RA c s o a p) x = dist2 p x.
Proof.
  intros c s o a p t Hne Hcs x. unfold rotate_about.
  set (l := normalize RA (psub RA a o)).
  assert (Hl : dot3 RA l l = 1) by (apply normalize_unit; exact Hne).
  assert (Hx : x = padd RA (scale (t * norm3 RA (psub RA a o)) l) o).
  { unfold x. rewrite (normalize_parallel (psub RA a o) Hne) at 1. fold l.
    destruct l as [[l0 l1] l2], o as [[o0 o1] o2]. unfold scale. unf. apply pt_eq; ring. }
  rewrite Hx.
  set (tt := t * norm3 RA (psub RA a o)).
  rewrite <- (rot_fixes_axis l c s tt Hl) at 1.
  transitivity (dist2 (rot1 RA (chi_mat RA l c s) (psub RA p o)) (rot1 RA (chi_mat RA l c s) (scale tt l))).
  { generalize (rot1 RA (chi_mat RA l c s) (psub RA p o)) (rot1 RA (chi_mat RA l c s) (scale tt l)).
    intros [[u0 u1] u2] [[w0 w1] w2]. destruct o as [[o0 o1] o2]. unfold dist2. unf. ring. }
  rewrite rot_isometry by assumption.
  destruct p as [[p0 p1] p2], o as [[o0 o1] o2], l as [[l0 l1] l2]. unfold dist2, scale. unf. ring.
Qed.

Lemma rotate_about_isometry : forall (c s : R) (o a p p' : Rpt),
  dot3 RA (psub RA a o) (psub RA a o) <> 0 -> c * c + s * s = 1 ->
  dist2 (rotate_about RA c s o a p) (rotate_about RA c s o a p') = dist2 p p'.
Proof.
  intros c s o a p p' Hne Hcs. unfold rotate_about.
  set (l := normalize RA (psub RA a o)).
  assert (Hl : dot3 RA l l = 1) by (apply normalize_unit; exact Hne).
  transitivity (dist2 (rot1 RA (chi_mat RA l c s) (psub RA p o)) (rot1 RA (chi_mat RA l c s) (psub RA p' o))).
  { generalize (rot1 RA (chi_mat RA l c s) (psub RA p o)) (rot1 RA (chi_mat RA l c s) (psub RA p' o)).
    intros [[u0 u1] u2] [[w0 w1] w2]. destruct o as [[o0 o1] o2]. unfold dist2. unf. ring. }
  rewrite rot_isometry by assumption.
  destruct p as [[p0 p1] p2], p' as [[p0' p1'] p2'], o as [[o0 o1] o2]. unfold dist2. unf. ring.
Qed.

(* v'.v = c |v|^2 + (1-c) (l.v)^2 : pure identity *)
Lemma chi_dot_self : forall (l v : Rpt) (c s : R),
  dot3 RA (rot1 RA (chi_mat RA l c s) v) v = c * dot3 RA v v + (1 - c) * (dot3 RA l v * dot3 RA l v).
Proof. intros [[a b] d] [[v0 v1] v2] c s. unf. ring. Qed.

Lemma chi_axis_dot : forall (l v : Rpt) (c s : R),
  dot3 RA l l = 1 -> c * c + s * s = 1 ->
  dot3 RA l (rot1 RA (chi_mat RA l c s) v) = dot3 RA l v.
Proof.
  intros l v c s Hl Hcs.
  assert (Hfix := rot_fixes_axis l c s 1 Hl).
  assert (Hsc : scale 1 l = l) by (destruct l as [[a b] d]; unfold scale; unf; apply pt_eq; ring).
  rewrite Hsc in Hfix. rewrite <- Hfix at 1. apply chi_preserves_dot; assumption.
Qed.

(* general angle: |v' - v|^2 = 2 (1 - c) rho^2 *)
Lemma chi_displacement : forall (l v : Rpt) (c s : R),
  dot3 RA l l = 1 -> c * c + s * s = 1 ->
  let v' := rot1 RA (chi_mat RA l c s) v in
  dist2 v' v = 2 * (1 - c) * (dot3 RA v v - dot3 RA l v * dot3 RA l v).
Proof.
  intros l v c s Hl Hcs v'.
  assert (H1 : dot3 RA v' v' = dot3 RA v v) by (apply chi_preserves_dot; assumption).
  assert (H2 := chi_dot_self l v c s). fold v' in H2.
  assert (H3 : dist2 v' v = dot3 RA v' v' + dot3 RA v v - 2 * dot3 RA v' v).
  { destruct v' as [[u0 u1] u2], v as [[v0 v1] v2]. unfold dist2. unf. ring. }
  rewrite H3, H1, H2. ring.
Qed.

(* tetrahedral completion: rotation by +-120 degrees (c = -1/2, s^2 = 3/4) *)
Lemma tetra_120 : forall (l v : Rpt) (c s : R),
  dot3 RA l l = 1 -> c = - (1 / 2) -> s * s = 3 / 4 ->
  let v' := rot1 RA (chi_mat RA l c s) v in
  let rho2 := dot3 RA v v - dot3 RA l v * dot3 RA l v in   (* squared distance to the axis *)
  dot3 RA v' v' = dot3 RA v v /\            (* distance to the first axis atom *)
  dot3 RA l v' = dot3 RA l v /\             (* projection on the axis: bond angle, distance to 2nd atom *)
  (forall t, dist2 v' (scale t l) = dist2 v (scale t l)) /\
  dist2 v' v = 3 * rho2.
Proof.
  intros l v c s Hl Hc Hs v' rho2.
  assert (Hcs : c * c + s * s = 1) by (subst c; lra).
  split; [ apply chi_preserves_dot; assumption | ].
  split; [ apply chi_axis_dot; assumption | ].
  split.
  - intro t. unfold v'. rewrite <- (rot_fixes_axis l c s t Hl) at 1. apply rot_isometry; assumption.
  - unfold v', rho2. rewrite chi_displacement by assumption. subst c. ring.
Qed.

(* ------------------------------------------------------------------ *)
(* torsion addition, with the sign conventions of utilities.dihedral     *)

(* un-normalised cos / sin numerators of utilities.dihedral:
   n1 = d12 x d32, n2 = d43 x d32, A = n1.n2, B = (n1 x n2).e  (e = d32/|d32|) *)
Definition tors_n1 (p1 p2 p3 : Rpt) : Rpt := cross3 RA (psub RA p1 p2) (psub RA p3 p2).
Definition tors_n2 (p2 p3 p4 : Rpt) : Rpt := cross3 RA (psub RA p4 p3) (psub RA p3 p2).
Definition tors_A (p1 p2 p3 p4 : Rpt) : R := dot3 RA (tors_n1 p1 p2 p3) (tors_n2 p2 p3 p4).
Definition tors_B (e p1 p2 p3 p4 : Rpt) : R :=
  dot3 RA (cross3 RA (tors_n1 p1 p2 p3) (tors_n2 p2 p3 p4)) e.

(* Core identity (pure algebra): rotate p4 about the axis p2 -> p3 by (c, s),
   exactly as set_dihedral_angle does (origin p2, axis e = unit(p3 - p2)).
   Then (A, B) turns by the SAME angle in the SAME sense, and |n2| is kept.  *)
Lemma torsion_rotation_algebra : forall (p1 p2 p3 p4 e : Rpt) (L c s : R),
  dot3 RA e e = 1 -> psub RA p3 p2 = scale L e -> c * c + s * s = 1 ->
  let p4' := padd RA (rot1 RA (chi_mat RA e c s) (psub RA p4 p2)) p2 in
  tors_A p1 p2 p3 p4' = c * tors_A p1 p2 p3 p4 - s * tors_B e p1 p2 p3 p4 /\
  tors_B e p1 p2 p3 p4' = s * tors_A p1 p2 p3 p4 + c * tors_B e p1 p2 p3 p4 /\
  dot3 RA (tors_n2 p2 p3 p4') (tors_n2 p2 p3 p4') = dot3 RA (tors_n2 p2 p3 p4) (tors_n2 p2 p3 p4).
Proof.
  intros [[a1 b1] d1] [[a2 b2] d2] [[a3 b3] d3] [[a4 b4] d4] [[e0 e1] e2] L c s He Hd Hcs.
  unfold scale in Hd. unf. apply pt_inv in Hd. destruct Hd as (Hd0 & Hd1 & Hd2).
  assert (E0 : a3 = a2 + L * e0) by lra.
  assert (E1 : b3 = b2 + L * e1) by lra.
  assert (E2 : d3 = d2 + L * e2) by lra.
  subst a3 b3 d3. clear Hd0 Hd1 Hd2.
  unfold tors_A, tors_B, tors_n1, tors_n2. unf.
  repeat split; nsatz.
Qed.
