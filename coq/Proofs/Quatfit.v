(* Proofs about Model/Quatfit.v over the real-number instance RArith.
   (C15; rot_isometry / rot_fixes_axis / tetra_120 are reused by C04/C05.) *)
From Coq Require Import Reals List ZArith Lra Lia Nsatz Psatz.
From PV Require Import Model.Quatfit.
Import ListNotations.
Local Open Scope R_scope.

Notation RA := RArith.
Notation Rpt := (pt (A := R)).
Notation Rmat3 := (mat3 (A := R)).
Notation Rquat := (quat (A := R)).

(* unfold the model's vector algebra down to + - * / on R *)
Ltac unf :=
  unfold qtransform1, translate1, rot1, q2mat, chi_mat, normalize_with, dot3, cross3,
         psub, padd, qnorm2, rayleigh, modif_of_mode in *;
  unfold row0, row1, row2, q0, q1, q2, q3 in *;
  unfold px, py, pz in *;
  cbn [a_add a_sub a_mul a_div a_zero a_one a_two a_ofZ RArith fst snd
       c00 c01 c02 c03 c11 c12 c13 c22 c23 c33 Z.eqb Pos.eqb] in *.

Lemma pt_eq : forall a b c a' b' c' : R, a = a' -> b = b' -> c = c' -> (a, b, c) = (a', b', c').
Proof. intros; subst; reflexivity. Qed.

Lemma pt_inv : forall a b c a' b' c' : R, (a, b, c) = (a', b', c') -> a = a' /\ b = b' /\ c = c'.
Proof. intros a b c a' b' c' H; inversion H; auto. Qed.

(* ------------------------------------------------------------------ *)
(* rotations                                                            *)

Definition det3 (m : Rmat3) : R :=
  let '((a, b, c), (d, e, f), (g, h, i)) := m in
  a * (e * i - f * h) - b * (d * i - f * g) + c * (d * h - e * g).

Definition transpose3 (m : Rmat3) : Rmat3 :=
  let '((a, b, c), (d, e, f), (g, h, i)) := m in
  ((a, d, g), (b, e, h), (c, f, i)).

Definition orthonormal_rows (m : Rmat3) : Prop :=
  dot3 RA (row0 m) (row0 m) = 1 /\ dot3 RA (row1 m) (row1 m) = 1 /\ dot3 RA (row2 m) (row2 m) = 1 /\
  dot3 RA (row0 m) (row1 m) = 0 /\ dot3 RA (row0 m) (row2 m) = 0 /\ dot3 RA (row1 m) (row2 m) = 0.

(* U^T U = I, U U^T = I, det U = 1 *)
Definition proper_rotation (m : Rmat3) : Prop :=
  orthonormal_rows m /\ orthonormal_rows (transpose3 m) /\ det3 m = 1.

Definition dist2 (a b : Rpt) : R := dot3 RA (psub RA a b) (psub RA a b).

Definition scale (t : R) (v : Rpt) : Rpt := (t * px v, t * py v, t * pz v).

(* rotmol's map is linear *)
Lemma rot1_linear : forall (m : Rmat3) (a b : R) (v w : Rpt),
  rot1 RA m (padd RA (scale a v) (scale b w)) = padd RA (scale a (rot1 RA m v)) (scale b (rot1 RA m w)).
Proof.
  intros [[[[m00 m01] m02] [[m10 m11] m12]] [[m20 m21] m22]]; intros a b [[v0 v1] v2] [[w0 w1] w2].
  unfold scale; unf. apply pt_eq; ring.
Qed.

Lemma rot1_sub : forall (m : Rmat3) (v w : Rpt),
  rot1 RA m (psub RA v w) = psub RA (rot1 RA m v) (rot1 RA m w).
Proof.
  intros [[[[m00 m01] m02] [[m10 m11] m12]] [[m20 m21] m22]]; intros [[v0 v1] v2] [[w0 w1] w2].
  unf. apply pt_eq; ring.
Qed.

(* orthonormal rows => rotmol's map (out = sum_j v_j * row_j) preserves dot products *)
Lemma rot_preserves_dot : forall (m : Rmat3) (v w : Rpt),
  orthonormal_rows m -> dot3 RA (rot1 RA m v) (rot1 RA m w) = dot3 RA v w.
Proof.
  intros [[[[m00 m01] m02] [[m10 m11] m12]] [[m20 m21] m22]]; intros [[v0 v1] v2] [[w0 w1] w2].
  unfold orthonormal_rows; unf. intros (H1 & H2 & H3 & H4 & H5 & H6). nsatz.
Qed.

Lemma rot_preserves_dist2 : forall (m : Rmat3) (v w : Rpt),
  orthonormal_rows m -> dist2 (rot1 RA m v) (rot1 RA m w) = dist2 v w.
Proof.
  intros m v w H. unfold dist2. rewrite <- rot1_sub. apply rot_preserves_dot; exact H.
Qed.

(* q2mat of a unit quaternion is a proper rotation: never a reflection *)
Lemma q2mat_rotation : forall q : Rquat, qnorm2 RA q = 1 -> proper_rotation (q2mat RA q).
Proof.
  intros [[[a b] c] d] H. unfold proper_rotation, orthonormal_rows, transpose3, det3. unf.
  repeat split; nsatz.
Qed.

(* handedness: cross products are carried along (an improper map would negate) *)
Lemma q2mat_preserves_cross : forall (q : Rquat) (v w : Rpt), qnorm2 RA q = 1 ->
  rot1 RA (q2mat RA q) (cross3 RA v w) = cross3 RA (rot1 RA (q2mat RA q) v) (rot1 RA (q2mat RA q) w).
Proof.
  intros [[[a b] c] d] [[v0 v1] v2] [[w0 w1] w2] H. unf. apply pt_eq; nsatz.
Qed.

Lemma q2mat_preserves_dot : forall (q : Rquat) (v w : Rpt), qnorm2 RA q = 1 ->
  dot3 RA (rot1 RA (q2mat RA q) v) (rot1 RA (q2mat RA q) w) = dot3 RA v w.
Proof. intros q v w H. apply rot_preserves_dot. exact (proj1 (q2mat_rotation q H)). Qed.

(* quaternion product matching the composition of rotmol maps:
   rotmol(q2mat g) o rotmol(q2mat p) = rotmol(q2mat (qmul p g)) *)
Definition qmul (p g : Rquat) : Rquat :=
  let '(a1, b1, c1, d1) := p in
  let '(a2, b2, c2, d2) := g in
  (a1 * a2 - b1 * b2 - c1 * c2 - d1 * d2,
   a1 * b2 + b1 * a2 + c1 * d2 - d1 * c2,
   a1 * c2 - b1 * d2 + c1 * a2 + d1 * b2,
   a1 * d2 + b1 * c2 - c1 * b2 + d1 * a2).

Lemma qmul_norm : forall p g : Rquat, qnorm2 RA (qmul p g) = qnorm2 RA p * qnorm2 RA g.
Proof. intros [[[a1 b1] c1] d1] [[[a2 b2] c2] d2]. unfold qmul. unf. ring. Qed.

Lemma qmul_compose : forall (p g : Rquat) (v : Rpt),
  rot1 RA (q2mat RA g) (rot1 RA (q2mat RA p) v) = rot1 RA (q2mat RA (qmul p g)) v.
Proof.
  intros [[[a1 b1] c1] d1] [[[a2 b2] c2] d2] [[v0 v1] v2]. unfold qmul. unf. apply pt_eq; ring.
Qed.

(* ------------------------------------------------------------------ *)
(* qchichange                                                           *)

Lemma chi_rotation : forall (l : Rpt) (c s : R),
  dot3 RA l l = 1 -> c * c + s * s = 1 -> proper_rotation (chi_mat RA l c s).
Proof.
  intros [[a b] d] c s H1 H2. unfold proper_rotation, orthonormal_rows, transpose3, det3. unf.
  repeat split; nsatz.
Qed.

(* every point of the axis line is fixed (no condition on c, s) *)
Lemma rot_fixes_axis : forall (l : Rpt) (c s t : R),
  dot3 RA l l = 1 -> rot1 RA (chi_mat RA l c s) (scale t l) = scale t l.
Proof.
  intros [[a b] d] c s t H. unfold scale. unf. apply pt_eq; nsatz.
Qed.

Lemma rot_isometry : forall (l : Rpt) (c s : R) (v w : Rpt),
  dot3 RA l l = 1 -> c * c + s * s = 1 ->
  dist2 (rot1 RA (chi_mat RA l c s) v) (rot1 RA (chi_mat RA l c s) w) = dist2 v w.
Proof.
  intros l c s v w H1 H2. apply rot_preserves_dist2. exact (proj1 (chi_rotation l c s H1 H2)).
Qed.

Lemma chi_preserves_dot : forall (l : Rpt) (c s : R) (v w : Rpt),
  dot3 RA l l = 1 -> c * c + s * s = 1 ->
  dot3 RA (rot1 RA (chi_mat RA l c s) v) (rot1 RA (chi_mat RA l c s) w) = dot3 RA v w.
Proof. intros l c s v w H1 H2. apply rot_preserves_dot. exact (proj1 (chi_rotation l c s H1 H2)). Qed.

Lemma chi_preserves_cross : forall (l : Rpt) (c s : R) (v w : Rpt),
  dot3 RA l l = 1 -> c * c + s * s = 1 ->
  rot1 RA (chi_mat RA l c s) (cross3 RA v w)
  = cross3 RA (rot1 RA (chi_mat RA l c s) v) (rot1 RA (chi_mat RA l c s) w).
Proof.
  intros [[a b] d] c s [[v0 v1] v2] [[w0 w1] w2] H1 H2. unf. apply pt_eq; nsatz.
Qed.

(* the map is the right-handed Rodrigues rotation:
   v' = c v + s (l x v) + (1-c)(l.v) l *)
Lemma chi_rodrigues : forall (l : Rpt) (c s : R) (v : Rpt),
  rot1 RA (chi_mat RA l c s) v
  = padd RA (padd RA (scale c v) (scale s (cross3 RA l v))) (scale ((1 - c) * dot3 RA l v) l).
Proof.
  intros [[a b] d] c s [[v0 v1] v2]. unfold scale. unf. apply pt_eq; ring.
Qed.

(* normalisation over R gives a unit vector *)
Lemma normalize_unit : forall v : Rpt, dot3 RA v v <> 0 -> dot3 RA (normalize RA v) (normalize RA v) = 1.
Proof.
  intros [[a b] d] H. unfold normalize, norm3.
  assert (Hpos : 0 <= dot3 RA (a, b, d) (a, b, d)) by (unf; nra).
  assert (Hs : sqrt (dot3 RA (a, b, d) (a, b, d)) * sqrt (dot3 RA (a, b, d) (a, b, d)) = dot3 RA (a, b, d) (a, b, d))
    by (apply sqrt_sqrt; exact Hpos).
  cbn [a_sqrt RArith].
  set (n := sqrt (dot3 RA (a, b, d) (a, b, d))) in *.
  assert (Hn : n <> 0) by (intro Hz; rewrite Hz in Hs; apply H; rewrite <- Hs; ring).
  clearbody n. unf. field_simplify_eq; [ | exact Hn ].
  transitivity (n * n); [ rewrite Hs; ring | ring ].
Qed.

Lemma normalize_parallel : forall v : Rpt, dot3 RA v v <> 0 ->
  v = scale (norm3 RA v) (normalize RA v).
Proof.
  intros [[a b] d] H. unfold normalize, norm3, scale. cbn [a_sqrt RArith].
  set (n := sqrt (dot3 RA (a, b, d) (a, b, d))).
  assert (Hn : n <> 0).
  { unfold n. intro Hz. apply sqrt_eq_0 in Hz; [ exact (H Hz) | unf; nra ]. }
  unf. apply pt_eq; field; exact Hn.
Qed.

(* Residue.rotate_tetrahedral / Debump.set_dihedral_angle geometry: the moved
   point keeps its distance to every point of the axis line, in particular to
   both axis atoms, and the map preserves all mutual distances of moved atoms *)
Lemma rotate_about_axis_dist : forall (c s : R) (o a p : Rpt) (t : R),
  dot3 RA (psub RA a o) (psub RA a o) <> 0 -> c * c + s * s = 1 ->
  let x := padd RA (scale t (psub RA a o)) o in
  dist2 (rotate_about RA c s o a p) x = dist2 p x.
Proof.
  intros c s o a p t Hne Hcs x. unfold rotate_about.
  set (l := normalize RA (psub RA a o)).
  assert (Hl : dot3 RA l l = 1) by (apply normalize_unit; exact Hne).
  assert (Hx : x = padd RA (scale (t * norm3 RA (psub RA a o)) l) o).
  { unfold x. rewrite (normalize_parallel (psub RA a o) Hne) at 1. fold l.
    destruct l as [[l0 l1] l2], o as [[o0 o1] o2]. unfold scale. unf. apply pt_eq; ring. }
  rewrite Hx.
  set (tt := t * norm3 RA (psub RA a o)).
  rewrite <- (rot_fixes_axis l c s tt Hl) at 1.
  transitivity (dist2 (rot1 RA (chi_mat RA l c s) (psub RA p o)) (rot1 RA (chi_mat RA l c s) (scale tt l))).
  { generalize (rot1 RA (chi_mat RA l c s) (psub RA p o)) (rot1 RA (chi_mat RA l c s) (scale tt l)).
    intros [[u0 u1] u2] [[w0 w1] w2]. destruct o as [[o0 o1] o2]. unfold dist2. unf. ring. }
  rewrite rot_isometry by assumption.
  destruct p as [[p0 p1] p2], o as [[o0 o1] o2], l as [[l0 l1] l2]. unfold dist2, scale. unf. ring.
Qed.

Lemma rotate_about_isometry : forall (c s : R) (o a p p' : Rpt),
  dot3 RA (psub RA a o) (psub RA a o) <> 0 -> c * c + s * s = 1 ->
  dist2 (rotate_about RA c s o a p) (rotate_about RA c s o a p') = dist2 p p'.
Proof.
  intros c s o a p p' Hne Hcs. unfold rotate_about.
  set (l := normalize RA (psub RA a o)).
  assert (Hl : dot3 RA l l = 1) by (apply normalize_unit; exact Hne).
  transitivity (dist2 (rot1 RA (chi_mat RA l c s) (psub RA p o)) (rot1 RA (chi_mat RA l c s) (psub RA p' o))).
  { generalize (rot1 RA (chi_mat RA l c s) (psub RA p o)) (rot1 RA (chi_mat RA l c s) (psub RA p' o)).
    intros [[u0 u1] u2] [[w0 w1] w2]. destruct o as [[o0 o1] o2]. unfold dist2. unf. ring. }
  rewrite rot_isometry by assumption.
  destruct p as [[p0 p1] p2], p' as [[p0' p1'] p2'], o as [[o0 o1] o2]. unfold dist2. unf. ring.
Qed.

(* v'.v = c |v|^2 + (1-c) (l.v)^2 : pure identity *)
Lemma chi_dot_self : forall (l v : Rpt) (c s : R),
  dot3 RA (rot1 RA (chi_mat RA l c s) v) v = c * dot3 RA v v + (1 - c) * (dot3 RA l v * dot3 RA l v).
Proof. intros [[a b] d] [[v0 v1] v2] c s. unf. ring. Qed.

Lemma chi_axis_dot : forall (l v : Rpt) (c s : R),
  dot3 RA l l = 1 -> c * c + s * s = 1 ->
  dot3 RA l (rot1 RA (chi_mat RA l c s) v) = dot3 RA l v.
Proof.
  intros l v c s Hl Hcs.
  assert (Hfix := rot_fixes_axis l c s 1 Hl).
  assert (Hsc : scale 1 l = l) by (destruct l as [[a b] d]; unfold scale; unf; apply pt_eq; ring).
  rewrite Hsc in Hfix. rewrite <- Hfix at 1. apply chi_preserves_dot; assumption.
Qed.

(* general angle: |v' - v|^2 = 2 (1 - c) rho^2 *)
Lemma chi_displacement : forall (l v : Rpt) (c s : R),
  dot3 RA l l = 1 -> c * c + s * s = 1 ->
  let v' := rot1 RA (chi_mat RA l c s) v in
  dist2 v' v = 2 * (1 - c) * (dot3 RA v v - dot3 RA l v * dot3 RA l v).
Proof.
  intros l v c s Hl Hcs v'.
  assert (H1 : dot3 RA v' v' = dot3 RA v v) by (apply chi_preserves_dot; assumption).
  assert (H2 := chi_dot_self l v c s). fold v' in H2.
  assert (H3 : dist2 v' v = dot3 RA v' v' + dot3 RA v v - 2 * dot3 RA v' v).
  { destruct v' as [[u0 u1] u2], v as [[v0 v1] v2]. unfold dist2. unf. ring. }
  rewrite H3, H1, H2. ring.
Qed.

(* tetrahedral completion: rotation by +-120 degrees (c = -1/2, s^2 = 3/4) *)
Lemma tetra_120 : forall (l v : Rpt) (c s : R),
  dot3 RA l l = 1 -> c = - (1 / 2) -> s * s = 3 / 4 ->
  let v' := rot1 RA (chi_mat RA l c s) v in
  let rho2 := dot3 RA v v - dot3 RA l v * dot3 RA l v in   (* squared distance to the axis *)
  dot3 RA v' v' = dot3 RA v v /\            (* distance to the first axis atom *)
  dot3 RA l v' = dot3 RA l v /\             (* projection on the axis: bond angle, distance to 2nd atom *)
  (forall t, dist2 v' (scale t l) = dist2 v (scale t l)) /\
  dist2 v' v = 3 * rho2.
Proof.
  intros l v c s Hl Hc Hs v' rho2.
  assert (Hcs : c * c + s * s = 1) by (subst c; lra).
  split; [ apply chi_preserves_dot; assumption | ].
  split; [ apply chi_axis_dot; assumption | ].
  split.
  - intro t. unfold v'. rewrite <- (rot_fixes_axis l c s t Hl) at 1. apply rot_isometry; assumption.
  - unfold v', rho2. rewrite chi_displacement by assumption. subst c. field.
Qed.

(* ------------------------------------------------------------------ *)
(* torsion addition, with the sign conventions of utilities.dihedral     *)

(* un-normalised cos / sin numerators of utilities.dihedral:
   n1 = d12 x d32, n2 = d43 x d32, A = n1.n2, B = (n1 x n2).e  (e = d32/|d32|) *)
Definition tors_n1 (p1 p2 p3 : Rpt) : Rpt := cross3 RA (psub RA p1 p2) (psub RA p3 p2).
Definition tors_n2 (p2 p3 p4 : Rpt) : Rpt := cross3 RA (psub RA p4 p3) (psub RA p3 p2).
Definition tors_A (p1 p2 p3 p4 : Rpt) : R := dot3 RA (tors_n1 p1 p2 p3) (tors_n2 p2 p3 p4).
Definition tors_B (e p1 p2 p3 p4 : Rpt) : R :=
  dot3 RA (cross3 RA (tors_n1 p1 p2 p3) (tors_n2 p2 p3 p4)) e.

(* Core identity (pure algebra): rotate p4 about the axis p2 -> p3 by (c, s),
   exactly as set_dihedral_angle does (origin p2, axis e = unit(p3 - p2)).
   Then (A, B) turns by the SAME angle in the SAME sense, and |n2| is kept.  *)
Lemma torsion_rotation_algebra : forall (p1 p2 p3 p4 e : Rpt) (L c s : R),
  dot3 RA e e = 1 -> psub RA p3 p2 = scale L e -> c * c + s * s = 1 ->
  let p4' := padd RA (rot1 RA (chi_mat RA e c s) (psub RA p4 p2)) p2 in
  tors_A p1 p2 p3 p4' = c * tors_A p1 p2 p3 p4 - s * tors_B e p1 p2 p3 p4 /\
  tors_B e p1 p2 p3 p4' = s * tors_A p1 p2 p3 p4 + c * tors_B e p1 p2 p3 p4 /\
  dot3 RA (tors_n2 p2 p3 p4') (tors_n2 p2 p3 p4') = dot3 RA (tors_n2 p2 p3 p4) (tors_n2 p2 p3 p4).
Proof.
  intros [[a1 b1] d1] [[a2 b2] d2] [[a3 b3] d3] [[a4 b4] d4] [[e0 e1] e2] L c s He Hd Hcs.
  unfold scale in Hd. unf. apply pt_inv in Hd. destruct Hd as (Hd0 & Hd1 & Hd2).
  assert (E0 : a3 = a2 + L * e0) by lra.
  assert (E1 : b3 = b2 + L * e1) by lra.
  assert (E2 : d3 = d2 + L * e2) by lra.
  subst a3 b3 d3. clear Hd0 Hd1 Hd2.
  unfold tors_A, tors_B, tors_n1, tors_n2. unf.
  repeat split; nsatz.
Qed.

Lemma dot_self_zero : forall v : Rpt, dot3 RA v v = 0 -> v = (0, 0, 0).
Proof.
  intros [[a b] d] H. unf.
  assert (a = 0) by nra. assert (b = 0) by nra. assert (d = 0) by nra. subst; reflexivity.
Qed.

Lemma dot_self_nonzero : forall v : Rpt, v <> (0, 0, 0) -> dot3 RA v v <> 0.
Proof. intros v H H0. apply H. apply dot_self_zero; exact H0. Qed.

(* what utilities.dihedral computes before acos: scal = n1.n2/(|n1||n2|),
   chiral = (n1 x n2).d32/(|n1||n2|) *)
Lemma dihedral_sc_formula : forall p1 p2 p3 p4 : Rpt,
  let n1 := tors_n1 p1 p2 p3 in
  let n2 := tors_n2 p2 p3 p4 in
  dot3 RA n1 n1 <> 0 -> dot3 RA n2 n2 <> 0 ->
  dihedral_sc RA p1 p2 p3 p4 =
  (dot3 RA n1 n2 / (sqrt (dot3 RA n1 n1) * sqrt (dot3 RA n2 n2)),
   dot3 RA (cross3 RA n1 n2) (psub RA p3 p2) / (sqrt (dot3 RA n1 n1) * sqrt (dot3 RA n2 n2))).
Proof.
  intros p1 p2 p3 p4 n1 n2 H1 H2.
  unfold dihedral_sc, normalize, norm3. cbn [a_sqrt RArith].
  change (cross3 RA (psub RA p1 p2) (psub RA p3 p2)) with n1.
  change (cross3 RA (psub RA p4 p3) (psub RA p3 p2)) with n2.
  assert (N1 : sqrt (dot3 RA n1 n1) <> 0).
  { intro Hz. apply sqrt_eq_0 in Hz; [ exact (H1 Hz) | destruct n1 as [[a b] d]; unf; nra ]. }
  assert (N2 : sqrt (dot3 RA n2 n2) <> 0).
  { intro Hz. apply sqrt_eq_0 in Hz; [ exact (H2 Hz) | destruct n2 as [[a b] d]; unf; nra ]. }
  revert N1 N2. generalize (sqrt (dot3 RA n1 n1)) (sqrt (dot3 RA n2 n2)). intros m1 m2 N1 N2.
  generalize (psub RA p3 p2). clearbody n1 n2. clear H1 H2.
  destruct n1 as [[a1 b1] d1], n2 as [[a2 b2] d2]. intros [[e0 e1] e2].
  unf. f_equal; field; split; assumption.
Qed.

(* C15 torsion addition: rotate p4 (and everything beyond it) about the axis
   p2 -> p3 by the angle whose cosine/sine are (c, s), exactly as
   Debump.set_dihedral_angle does through qchichange.  With
     cos(phi) := scal,  sin(phi) := chiral / |p3 - p2|
   (scal, chiral as computed by utilities.dihedral; its result is
   sign(chiral) * acos(scal)), the measured torsion turns by the same angle in
   the same sense, and (cos(phi), sin(phi)) is on the unit circle. *)
Theorem torsion_addition : forall (p1 p2 p3 p4 : Rpt) (c s : R),
  c * c + s * s = 1 ->
  dot3 RA (tors_n1 p1 p2 p3) (tors_n1 p1 p2 p3) <> 0 ->
  dot3 RA (tors_n2 p2 p3 p4) (tors_n2 p2 p3 p4) <> 0 ->
  let p4' := rotate_about RA c s p2 p3 p4 in
  let L := norm3 RA (psub RA p3 p2) in
  let cs := dihedral_sc RA p1 p2 p3 p4 in
  let cs' := dihedral_sc RA p1 p2 p3 p4' in
  fst cs' = c * fst cs - s * (snd cs / L) /\
  snd cs' / L = s * fst cs + c * (snd cs / L) /\
  fst cs * fst cs + (snd cs / L) * (snd cs / L) = 1.
Proof.
  intros p1 p2 p3 p4 c s Hcs H1 H2 p4' L cs cs'.
  assert (Hd : dot3 RA (psub RA p3 p2) (psub RA p3 p2) <> 0).
  { intro Hz. apply dot_self_zero in Hz. apply H1. unfold tors_n1. rewrite Hz.
    destruct (psub RA p1 p2) as [[a b] d]. unf. ring. }
  set (e := normalize RA (psub RA p3 p2)).
  assert (He : dot3 RA e e = 1) by (apply normalize_unit; exact Hd).
  assert (Hpar : psub RA p3 p2 = scale L e) by (apply normalize_parallel; exact Hd).
  assert (HL : L <> 0).
  { unfold L, norm3. cbn [a_sqrt RArith]. intro Hz. apply sqrt_eq_0 in Hz; [ exact (Hd Hz) | ].
    destruct (psub RA p3 p2) as [[a b] d]. unf. nra. }
  destruct (torsion_rotation_algebra p1 p2 p3 p4 e L c s He Hpar Hcs) as (TA & TB & TN).
  change (padd RA (rot1 RA (chi_mat RA e c s) (psub RA p4 p2)) p2) with p4' in TA, TB, TN.
  assert (H2' : dot3 RA (tors_n2 p2 p3 p4') (tors_n2 p2 p3 p4') <> 0) by (rewrite TN; exact H2).
  unfold cs, cs'.
  rewrite (dihedral_sc_formula p1 p2 p3 p4 H1 H2).
  rewrite (dihedral_sc_formula p1 p2 p3 p4' H1 H2').
  cbn [fst snd]. rewrite TN.
  (* express everything with A, B *)
  assert (HB : forall q4, dot3 RA (cross3 RA (tors_n1 p1 p2 p3) (tors_n2 p2 p3 q4)) (psub RA p3 p2)
                          = L * tors_B e p1 p2 p3 q4).
  { intro q4. unfold tors_B. rewrite Hpar.
    destruct (cross3 RA (tors_n1 p1 p2 p3) (tors_n2 p2 p3 q4)) as [[u0 u1] u2], e as [[e0 e1] e2].
    unfold scale. unf. ring. }
  rewrite (HB p4), (HB p4').
  fold (tors_A p1 p2 p3 p4) (tors_A p1 p2 p3 p4'). rewrite TA, TB.
  set (m1 := sqrt (dot3 RA (tors_n1 p1 p2 p3) (tors_n1 p1 p2 p3))).
  set (m2 := sqrt (dot3 RA (tors_n2 p2 p3 p4) (tors_n2 p2 p3 p4))).
  assert (M1 : m1 * m1 = dot3 RA (tors_n1 p1 p2 p3) (tors_n1 p1 p2 p3)).
  { apply sqrt_sqrt. destruct (tors_n1 p1 p2 p3) as [[a b] d]. unf. nra. }
  assert (M2 : m2 * m2 = dot3 RA (tors_n2 p2 p3 p4) (tors_n2 p2 p3 p4)).
  { apply sqrt_sqrt. destruct (tors_n2 p2 p3 p4) as [[a b] d]. unf. nra. }
  assert (N1 : m1 <> 0) by (intro Hz; apply H1; rewrite <- M1, Hz; ring).
  assert (N2 : m2 <> 0) by (intro Hz; apply H2; rewrite <- M2, Hz; ring).
  split; [ field; repeat split; assumption | ].
  split; [ field; repeat split; assumption | ].
  (* Lagrange: A^2 + B^2 = |n1|^2 |n2|^2, because n1 and n2 are orthogonal to e *)
  clear TA TB TN HB H2' cs cs' p4'. clearbody L e.
  assert (Lag : tors_A p1 p2 p3 p4 * tors_A p1 p2 p3 p4 + tors_B e p1 p2 p3 p4 * tors_B e p1 p2 p3 p4
                = (m1 * m1) * (m2 * m2)).
  { rewrite M1, M2. clear - He Hpar.
    destruct p1 as [[a1 b1] d1], p2 as [[a2 b2] d2], p3 as [[a3 b3] d3], p4 as [[a4 b4] d4], e as [[e0 e1] e2].
    unfold scale in Hpar. unf. apply pt_inv in Hpar. destruct Hpar as (Hd0 & Hd1 & Hd2).
    assert (E0 : a3 = a2 + L * e0) by lra.
    assert (E1 : b3 = b2 + L * e1) by lra.
    assert (E2 : d3 = d2 + L * e2) by lra.
    subst a3 b3 d3. clear Hd0 Hd1 Hd2.
    unfold tors_A, tors_B, tors_n1, tors_n2. unf. nsatz. }
  clearbody m1 m2. clear M1 M2.
  field_simplify_eq; [ | repeat split; assumption ].
  transitivity (m1 * m1 * (m2 * m2)); [ rewrite <- Lag; ring | ring ].
Qed.

(* the same statement in terms of angles *)
Corollary torsion_addition_angles : forall (p1 p2 p3 p4 : Rpt) (phi theta : R),
  dot3 RA (tors_n1 p1 p2 p3) (tors_n1 p1 p2 p3) <> 0 ->
  dot3 RA (tors_n2 p2 p3 p4) (tors_n2 p2 p3 p4) <> 0 ->
  let L := norm3 RA (psub RA p3 p2) in
  fst (dihedral_sc RA p1 p2 p3 p4) = cos phi ->
  snd (dihedral_sc RA p1 p2 p3 p4) / L = sin phi ->
  let p4' := rotate_about RA (cos theta) (sin theta) p2 p3 p4 in
  fst (dihedral_sc RA p1 p2 p3 p4') = cos (phi + theta) /\
  snd (dihedral_sc RA p1 p2 p3 p4') / L = sin (phi + theta).
Proof.
  intros p1 p2 p3 p4 phi theta H1 H2 L Hc Hs p4'.
  assert (Hcs : cos theta * cos theta + sin theta * sin theta = 1).
  { generalize (sin2_cos2 theta). unfold Rsqr. lra. }
  destruct (torsion_addition p1 p2 p3 p4 (cos theta) (sin theta) Hcs H1 H2) as (TA & TB & _).
  fold p4' in TA, TB. fold L in TA, TB. rewrite Hc, Hs in TA, TB.
  rewrite cos_plus, sin_plus. split; [ rewrite TA; ring | rewrite TB; ring ].
Qed.

(* ------------------------------------------------------------------ *)
(* finite sums over lists                                               *)

Fixpoint lsum {X : Type} (f : X -> R) (l : list X) : R :=
  match l with
  | [] => 0
  | x :: t => f x + lsum f t
  end.

Lemma fold_left_acc : forall (X : Type) (f : X -> R) (l : list X) (a : R),
  fold_left (fun acc x => acc + f x) l a = a + lsum f l.
Proof.
  intros X f l. induction l as [| x t IH]; intro a; cbn [fold_left lsum].
  - ring.
  - rewrite IH. ring.
Qed.

Lemma sum_prod_lsum : forall (f g : Rpt -> R) (l : list (Rpt * Rpt)),
  sum_prod RA f g l = lsum (fun xy => f (fst xy) * g (snd xy)) l.
Proof.
  intros f g l. unfold sum_prod. cbn [a_add a_mul a_zero RArith].
  rewrite (fold_left_acc _ (fun xy => f (fst xy) * g (snd xy))). ring.
Qed.

Lemma sum_coord_lsum : forall (f : Rpt -> R) (l : list Rpt), sum_coord RA f l = lsum f l.
Proof.
  intros f l. unfold sum_coord. cbn [a_add a_zero RArith]. rewrite fold_left_acc. ring.
Qed.

Lemma lsum_map : forall (X Y : Type) (h : X -> Y) (f : Y -> R) (l : list X),
  lsum f (map h l) = lsum (fun x => f (h x)) l.
Proof. intros X Y h f l. induction l as [| x t IH]; cbn [map lsum]; [ reflexivity | rewrite IH; reflexivity ]. Qed.

Lemma lsum_ext : forall (X : Type) (f g : X -> R) (l : list X),
  (forall x, f x = g x) -> lsum f l = lsum g l.
Proof. intros X f g l H. induction l as [| x t IH]; cbn [lsum]; [ reflexivity | rewrite H, IH; reflexivity ]. Qed.

Lemma lsum_lin : forall (X : Type) (f g : X -> R) (a b : R) (l : list X),
  lsum (fun x => a * f x + b * g x) l = a * lsum f l + b * lsum g l.
Proof. intros X f g a b l. induction l as [| x t IH]; cbn [lsum]; [ ring | rewrite IH; ring ]. Qed.

Lemma lsum_nonneg : forall (X : Type) (f : X -> R) (l : list X),
  (forall x, 0 <= f x) -> 0 <= lsum f l.
Proof.
  intros X f l H. induction l as [| x t IH]; cbn [lsum]; [ lra | specialize (H x); lra ].
Qed.

Lemma lsum_nonneg_zero : forall (X : Type) (f : X -> R) (l : list X),
  (forall x, 0 <= f x) -> lsum f l <= 0 -> forall x, In x l -> f x = 0.
Proof.
  intros X f l H. induction l as [| y t IH]; cbn [lsum]; intros Hs x Hin.
  - destruct Hin.
  - assert (Ht := lsum_nonneg X f t H). assert (Hy := H y).
    destruct Hin as [-> | Hin]; [ lra | apply IH; [ lra | exact Hin ] ].
Qed.

(* ------------------------------------------------------------------ *)
(* Rayleigh identity: pins the matrix entries of qtrfit AND the
   transposition convention of rotmol                                   *)

Lemma rayleigh_identity : forall (defs refs : list Rpt) (q : Rquat),
  rayleigh RA (cmat RA defs refs) q
  = lsum (fun xy => dot3 RA (snd xy) (rot1 RA (q2mat RA q) (fst xy))) (combine defs refs).
Proof.
  intros defs refs q. unfold cmat. generalize (combine defs refs). intro l.
  cbv zeta. rewrite !sum_prod_lsum.
  induction l as [| [x y] t IH].
  - cbn [lsum]. unf. ring.
  - cbn [lsum]. rewrite <- IH. clear IH.
    destruct x as [[x0 x1] x2], y as [[y0 y1] y2], q as [[[a b] c] d]. unf. ring.
Qed.

Lemma combine_map_r : forall (X Y : Type) (h : X -> Y) (l : list X),
  combine l (map h l) = map (fun x => (x, h x)) l.
Proof. intros X Y h l. induction l as [| x t IH]; cbn [map combine]; [ reflexivity | rewrite IH; reflexivity ]. Qed.

(* value of the quadratic form when the fitted set is an exact image *)
Lemma rayleigh_exact_image : forall (xs : list Rpt) (p r : Rquat),
  rayleigh RA (cmat RA xs (map (rot1 RA (q2mat RA p)) xs)) r
  = lsum (fun x => dot3 RA (rot1 RA (q2mat RA p) x) (rot1 RA (q2mat RA r) x)) xs.
Proof.
  intros xs p r. rewrite rayleigh_identity, combine_map_r, lsum_map. reflexivity.
Qed.

(* Cauchy-Schwarz side: for an exact image the quadratic form of any unit r is
   at most sum |x_i|^2, which is attained at r = p; so unit maximisers exist *)
Lemma rayleigh_exact_gap : forall (xs : list Rpt) (p r : Rquat),
  qnorm2 RA p = 1 -> qnorm2 RA r = 1 ->
  let C := cmat RA xs (map (rot1 RA (q2mat RA p)) xs) in
  lsum (fun x => dist2 (rot1 RA (q2mat RA p) x) (rot1 RA (q2mat RA r) x)) xs
  = 2 * (rayleigh RA C p - rayleigh RA C r).
Proof.
  intros xs p r Hp Hr C. unfold C. rewrite !rayleigh_exact_image.
  rewrite (lsum_ext _ (fun x => dist2 (rot1 RA (q2mat RA p) x) (rot1 RA (q2mat RA r) x))
             (fun x => 2 * dot3 RA (rot1 RA (q2mat RA p) x) (rot1 RA (q2mat RA p) x)
                       + (-2) * dot3 RA (rot1 RA (q2mat RA p) x) (rot1 RA (q2mat RA r) x))).
  - rewrite lsum_lin. ring.
  - intro x.
    assert (H1 := q2mat_preserves_dot p x x Hp). assert (H2 := q2mat_preserves_dot r x x Hr).
    revert H1 H2. generalize (rot1 RA (q2mat RA p) x) (rot1 RA (q2mat RA r) x).
    intros [[u0 u1] u2] [[w0 w1] w2]. destruct x as [[x0 x1] x2]. unfold dist2. unf. intros H1 H2. nsatz.
Qed.

Lemma dist2_nonneg : forall a b : Rpt, 0 <= dist2 a b.
Proof.
  intros [[a0 a1] a2] [[b0 b1] b2]. unfold dist2. unf.
  generalize (Rle_0_sqr (a0 - b0)) (Rle_0_sqr (a1 - b1)) (Rle_0_sqr (a2 - b2)). unfold Rsqr. lra.
Qed.

Lemma dist2_zero : forall a b : Rpt, dist2 a b = 0 -> a = b.
Proof.
  intros [[a0 a1] a2] [[b0 b1] b2] H. unfold dist2 in H. apply dot_self_zero in H.
  unf. apply pt_inv in H. destruct H as (H0 & H1 & H2). apply pt_eq; lra.
Qed.

Lemma exact_image_p_maximal : forall (xs : list Rpt) (p r : Rquat),
  qnorm2 RA p = 1 -> qnorm2 RA r = 1 ->
  let C := cmat RA xs (map (rot1 RA (q2mat RA p)) xs) in
  rayleigh RA C r <= rayleigh RA C p.
Proof.
  intros xs p r Hp Hr C.
  assert (G := rayleigh_exact_gap xs p r Hp Hr). fold C in G.
  assert (N := lsum_nonneg _ (fun x => dist2 (rot1 RA (q2mat RA p) x) (rot1 RA (q2mat RA r) x)) xs
                 (fun x => dist2_nonneg _ _)).
  lra.
Qed.

(* a unit maximiser rotates every fitted point exactly onto its target *)
Lemma fit_rotation_agrees : forall (xs : list Rpt) (p q : Rquat),
  qnorm2 RA p = 1 -> qnorm2 RA q = 1 ->
  let C := cmat RA xs (map (rot1 RA (q2mat RA p)) xs) in
  rayleigh RA C p <= rayleigh RA C q ->
  forall x, In x xs -> rot1 RA (q2mat RA q) x = rot1 RA (q2mat RA p) x.
Proof.
  intros xs p q Hp Hq C Hmax x Hin.
  assert (G := rayleigh_exact_gap xs p q Hp Hq). fold C in G.
  symmetry. apply dist2_zero.
  apply (lsum_nonneg_zero _ (fun x => dist2 (rot1 RA (q2mat RA p) x) (rot1 RA (q2mat RA q) x)) xs).
  - intro y. apply dist2_nonneg.
  - lra.
  - exact Hin.
Qed.

(* ------------------------------------------------------------------ *)
(* two proper rotations that agree on two independent vectors are equal *)

Lemma perp_three_zero : forall (u v d : Rpt),
  dot3 RA (cross3 RA u v) (cross3 RA u v) <> 0 ->
  dot3 RA d u = 0 -> dot3 RA d v = 0 -> dot3 RA d (cross3 RA u v) = 0 -> d = (0, 0, 0).
Proof.
  intros [[u0 u1] u2] [[v0 v1] v2] [[d0 d1] d2] Hn H1 H2 H3. unf.
  set (nn := (u1 * v2 - u2 * v1) * (u1 * v2 - u2 * v1) + (u2 * v0 - u0 * v2) * (u2 * v0 - u0 * v2)
             + (u0 * v1 - u1 * v0) * (u0 * v1 - u1 * v0)) in *.
  assert (E0 : d0 * nn = 0) by (unfold nn; nsatz).
  assert (E1 : d1 * nn = 0) by (unfold nn; nsatz).
  assert (E2 : d2 * nn = 0) by (unfold nn; nsatz).
  apply Rmult_integral in E0. apply Rmult_integral in E1. apply Rmult_integral in E2.
  apply pt_eq; tauto.
Qed.

Lemma mat_agree_all : forall (M M' : Rmat3) (u v : Rpt),
  dot3 RA (cross3 RA u v) (cross3 RA u v) <> 0 ->
  rot1 RA M u = rot1 RA M' u -> rot1 RA M v = rot1 RA M' v ->
  rot1 RA M (cross3 RA u v) = rot1 RA M' (cross3 RA u v) ->
  forall w, rot1 RA M w = rot1 RA M' w.
Proof.
  intros [[[[a00 a01] a02] [[a10 a11] a12]] [[a20 a21] a22]]
         [[[[b00 b01] b02] [[b10 b11] b12]] [[b20 b21] b22]] u v Hn Hu Hv Hc w.
  set (n := cross3 RA u v) in *.
  assert (K0 : (a00 - b00, a10 - b10, a20 - b20) = (0, 0, 0)).
  { apply (perp_three_zero u v); [ exact Hn | | | fold n ];
    [ destruct u as [[u0 u1] u2] | destruct v as [[u0 u1] u2] | destruct n as [[u0 u1] u2] ];
    unf; [ apply pt_inv in Hu; destruct Hu as (E & _ & _)
         | apply pt_inv in Hv; destruct Hv as (E & _ & _)
         | apply pt_inv in Hc; destruct Hc as (E & _ & _) ]; lra. }
  assert (K1 : (a01 - b01, a11 - b11, a21 - b21) = (0, 0, 0)).
  { apply (perp_three_zero u v); [ exact Hn | | | fold n ];
    [ destruct u as [[u0 u1] u2] | destruct v as [[u0 u1] u2] | destruct n as [[u0 u1] u2] ];
    unf; [ apply pt_inv in Hu; destruct Hu as (_ & E & _)
         | apply pt_inv in Hv; destruct Hv as (_ & E & _)
         | apply pt_inv in Hc; destruct Hc as (_ & E & _) ]; lra. }
  assert (K2 : (a02 - b02, a12 - b12, a22 - b22) = (0, 0, 0)).
  { apply (perp_three_zero u v); [ exact Hn | | | fold n ];
    [ destruct u as [[u0 u1] u2] | destruct v as [[u0 u1] u2] | destruct n as [[u0 u1] u2] ];
    unf; [ apply pt_inv in Hu; destruct Hu as (_ & _ & E)
         | apply pt_inv in Hv; destruct Hv as (_ & _ & E)
         | apply pt_inv in Hc; destruct Hc as (_ & _ & E) ]; lra. }
  apply pt_inv in K0. apply pt_inv in K1. apply pt_inv in K2.
  destruct K0 as (? & ? & ?), K1 as (? & ? & ?), K2 as (? & ? & ?).
  destruct w as [[w0 w1] w2]. unf.
  assert (a00 = b00) by lra. assert (a10 = b10) by lra. assert (a20 = b20) by lra.
  assert (a01 = b01) by lra. assert (a11 = b11) by lra. assert (a21 = b21) by lra.
  assert (a02 = b02) by lra. assert (a12 = b12) by lra. assert (a22 = b22) by lra.
  subst. reflexivity.
Qed.

Lemma rot_agree_all : forall (p q : Rquat) (u v : Rpt),
  qnorm2 RA p = 1 -> qnorm2 RA q = 1 ->
  cross3 RA u v <> (0, 0, 0) ->
  rot1 RA (q2mat RA q) u = rot1 RA (q2mat RA p) u ->
  rot1 RA (q2mat RA q) v = rot1 RA (q2mat RA p) v ->
  forall w, rot1 RA (q2mat RA q) w = rot1 RA (q2mat RA p) w.
Proof.
  intros p q u v Hp Hq Hn Hu Hv.
  apply (mat_agree_all (q2mat RA q) (q2mat RA p) u v).
  - apply dot_self_nonzero; exact Hn.
  - exact Hu.
  - exact Hv.
  - rewrite (q2mat_preserves_cross q u v Hq), (q2mat_preserves_cross p u v Hp), Hu, Hv. reflexivity.
Qed.

(* ------------------------------------------------------------------ *)
(* centering commutes with rigid motions                                *)

(* the rigid motion X |-> T + rotmol(M) X *)
Definition rigid (M : Rmat3) (T : Rpt) (X : Rpt) : Rpt := padd RA T (rot1 RA M X).

Lemma lsum_rigid : forall (M : Rmat3) (T : Rpt) (l : list Rpt),
  (lsum (px (A := R)) (map (rigid M T) l), lsum (py (A := R)) (map (rigid M T) l), lsum (pz (A := R)) (map (rigid M T) l))
  = padd RA (scale (INR (length l)) T) (rot1 RA M (lsum (px (A := R)) l, lsum (py (A := R)) l, lsum (pz (A := R)) l)).
Proof.
  intros [[[[m00 m01] m02] [[m10 m11] m12]] [[m20 m21] m22]] [[t0 t1] t2] l.
  induction l as [| [[x0 x1] x2] t IH].
  - cbn [map lsum length INR]. unfold scale. unf. apply pt_eq; ring.
  - cbn [map lsum length]. rewrite S_INR. apply pt_inv in IH. destruct IH as (I0 & I1 & I2).
    unfold scale in *. unfold rigid in *. unf. cbn [fst snd] in *.
    apply pt_eq; [ rewrite I0 | rewrite I1 | rewrite I2 ]; ring.
Qed.

Lemma center_fst : forall l : list Rpt,
  fst (center RA l) = scale (/ INR (length l)) (lsum (px (A := R)) l, lsum (py (A := R)) l, lsum (pz (A := R)) l).
Proof.
  intro l. unfold center. cbn [fst]. rewrite !sum_coord_lsum. cbn [a_ofZ a_div RArith].
  rewrite <- INR_IZR_INZ. unfold scale, Rdiv. unf. apply pt_eq; ring.
Qed.

Lemma center_snd : forall l : list Rpt,
  snd (center RA l) = map (fun p => psub RA p (fst (center RA l))) l.
Proof. intro l. unfold center. cbn [fst snd]. reflexivity. Qed.

Lemma center_rigid_fst : forall (M : Rmat3) (T : Rpt) (l : list Rpt), l <> [] ->
  fst (center RA (map (rigid M T) l)) = rigid M T (fst (center RA l)).
Proof.
  intros M T l Hne. rewrite !center_fst. rewrite lsum_rigid. rewrite map_length.
  assert (Hn : INR (length l) <> 0).
  { apply not_0_INR. destruct l; [ congruence | discriminate ]. }
  generalize (lsum (px (A := R)) l, lsum (py (A := R)) l, lsum (pz (A := R)) l). intros [[s0 s1] s2].
  revert Hn. generalize (INR (length l)). intros n Hn.
  destruct M as [[[[m00 m01] m02] [[m10 m11] m12]] [[m20 m21] m22]], T as [[t0 t1] t2].
  unfold rigid, scale. unf. apply pt_eq; field; exact Hn.
Qed.

Lemma center_rigid_snd : forall (M : Rmat3) (T : Rpt) (l : list Rpt), l <> [] ->
  snd (center RA (map (rigid M T) l)) = map (rot1 RA M) (snd (center RA l)).
Proof.
  intros M T l Hne. rewrite !center_snd. rewrite center_rigid_fst by exact Hne.
  rewrite !map_map. apply map_ext. intro X.
  generalize (fst (center RA l)). intro c. rewrite rot1_sub. unfold rigid.
  generalize (rot1 RA M X) (rot1 RA M c). intros [[u0 u1] u2] [[w0 w1] w2].
  destruct T as [[t0 t1] t2]. unf. apply pt_eq; ring.
Qed.

(* ------------------------------------------------------------------ *)
(* find_coordinates                                                     *)

Lemma find_coordinates_eq : forall (refs defs : list Rpt) (atom : Rpt),
  defs <> [] -> length refs = length defs ->
  find_coordinates RA (length defs) refs defs atom
  = Some (qtransform1 RA atom (fst (center RA refs)) (fst (center RA defs))
            (q2mat RA (qtrfit_quat RA NROT (snd (center RA defs)) (snd (center RA refs))))).
Proof.
  intros refs defs atom Hne Hlen. unfold find_coordinates.
  destruct (length defs =? 0)%nat eqn:E.
  { apply Nat.eqb_eq in E. destruct defs; [ congruence | discriminate ]. }
  rewrite Hlen, Nat.ltb_irrefl. cbn [orb].
  rewrite (firstn_all defs). rewrite <- Hlen. rewrite (firstn_all refs).
  unfold qfit, qtrfit.
  destruct (center RA refs) as [rc rr]. destruct (center RA defs) as [dc dr]. reflexivity.
Qed.

(* three template points that are not on one line *)
Definition noncollinear (l : list Rpt) : Prop :=
  exists a b c, In a l /\ In b l /\ In c l /\ cross3 RA (psub RA b a) (psub RA c a) <> (0, 0, 0).

(* The eigen-solver's contract for one call qtrfit(defrel, refrel): the
   returned quaternion is a unit vector maximising q^T C q over unit vectors
   (i.e. a unit eigenvector of the largest eigenvalue).  Jacobi's convergence
   is not verified; the harness validates this contract on every call. *)
Definition eigen_contract (defrel refrel : list Rpt) (q : Rquat) : Prop :=
  qnorm2 RA q = 1 /\
  forall r : Rquat, qnorm2 RA r = 1 ->
    rayleigh RA (cmat RA defrel refrel) r <= rayleigh RA (cmat RA defrel refrel) q.

(* core: ANY unit maximiser gives the rotation of p on all of space *)
Lemma fit_rotation_unique : forall (defs : list Rpt) (p q : Rquat) (T : Rpt),
  qnorm2 RA p = 1 -> noncollinear defs ->
  let refs := map (rigid (q2mat RA p) T) defs in
  eigen_contract (snd (center RA defs)) (snd (center RA refs)) q ->
  forall w, rot1 RA (q2mat RA q) w = rot1 RA (q2mat RA p) w.
Proof.
  intros defs p q T Hp (a & b & c & Ha & Hb & Hc & Hn) refs (Hq & Hmax).
  assert (Hne : defs <> []) by (destruct defs; [ destruct Ha | discriminate ]).
  unfold refs in Hmax. rewrite center_rigid_snd in Hmax by exact Hne.
  specialize (Hmax p Hp).
  assert (Hag := fit_rotation_agrees (snd (center RA defs)) p q Hp Hq Hmax).
  set (cd := fst (center RA defs)) in *.
  assert (Hin : forall x, In x defs -> In (psub RA x cd) (snd (center RA defs))).
  { intros x Hx. rewrite center_snd. apply (in_map (fun p0 => psub RA p0 (fst (center RA defs)))). exact Hx. }
  assert (Ea := Hag _ (Hin a Ha)). assert (Eb := Hag _ (Hin b Hb)). assert (Ec := Hag _ (Hin c Hc)).
  assert (Dba : psub RA b a = psub RA (psub RA b cd) (psub RA a cd)).
  { destruct a as [[a0 a1] a2], b as [[b0 b1] b2], cd as [[d0 d1] d2]. unf. apply pt_eq; ring. }
  assert (Dca : psub RA c a = psub RA (psub RA c cd) (psub RA a cd)).
  { destruct a as [[a0 a1] a2], c as [[b0 b1] b2], cd as [[d0 d1] d2]. unf. apply pt_eq; ring. }
  apply (rot_agree_all p q (psub RA b a) (psub RA c a) Hp Hq Hn).
  - rewrite Dba, (rot1_sub (q2mat RA q) (psub RA b cd) (psub RA a cd)),
            (rot1_sub (q2mat RA p) (psub RA b cd) (psub RA a cd)), Ea, Eb. reflexivity.
  - rewrite Dca, (rot1_sub (q2mat RA q) (psub RA c cd) (psub RA a cd)),
            (rot1_sub (q2mat RA p) (psub RA c cd) (psub RA a cd)), Ea, Ec. reflexivity.
Qed.

Lemma qtransform_rigid : forall (M : Rmat3) (T atom cd : Rpt),
  qtransform1 RA atom (rigid M T cd) cd M = rigid M T atom.
Proof.
  intros [[[[m00 m01] m02] [[m10 m11] m12]] [[m20 m21] m22]] [[t0 t1] t2] [[a0 a1] a2] [[d0 d1] d2].
  unfold rigid. unf. apply pt_eq; ring.
Qed.

Lemma qtransform_ext : forall (M M' : Rmat3) (atom rc fc : Rpt),
  (forall w, rot1 RA M w = rot1 RA M' w) ->
  qtransform1 RA atom rc fc M = qtransform1 RA atom rc fc M'.
Proof. intros M M' atom rc fc H. unfold qtransform1. rewrite H. reflexivity. Qed.

(* C15 main theorem: exact image *)
Theorem fit_exact_image : forall (defs : list Rpt) (p : Rquat) (T atom : Rpt),
  qnorm2 RA p = 1 -> noncollinear defs ->
  let refs := map (rigid (q2mat RA p) T) defs in
  let defrel := snd (center RA defs) in
  let refrel := snd (center RA refs) in
  eigen_contract defrel refrel (qtrfit_quat RA NROT defrel refrel) ->
  (forall x, In x defrel ->
     rot1 RA (q2mat RA (qtrfit_quat RA NROT defrel refrel)) x = rot1 RA (q2mat RA p) x) /\
  find_coordinates RA (length defs) refs defs atom = Some (rigid (q2mat RA p) T atom).
Proof.
  intros defs p T atom Hp Hnc refs defrel refrel Hc.
  assert (Hall := fit_rotation_unique defs p _ T Hp Hnc Hc).
  split; [ intros x _; apply Hall | ].
  assert (Hne : defs <> []).
  { destruct Hnc as (a & _ & _ & Ha & _). destruct defs; [ destruct Ha | discriminate ]. }
  rewrite find_coordinates_eq; [ | exact Hne | unfold refs; apply map_length ].
  f_equal. fold defrel refrel.
  rewrite (qtransform_ext _ (q2mat RA p) _ _ _ Hall).
  unfold refs. rewrite center_rigid_fst by exact Hne. apply qtransform_rigid.
Qed.

(* the contract is satisfiable for every exact image: p itself is a unit
   maximiser (used for non-vacuity) *)
Lemma eigen_contract_satisfiable : forall (defs : list Rpt) (p : Rquat) (T : Rpt),
  qnorm2 RA p = 1 -> defs <> [] ->
  eigen_contract (snd (center RA defs)) (snd (center RA (map (rigid (q2mat RA p) T) defs))) p.
Proof.
  intros defs p T Hp Hne. split; [ exact Hp | ].
  intros r Hr. rewrite center_rigid_snd by exact Hne. apply exact_image_p_maximal; assumption.
Qed.

(* equivariance: moving the structure by a further rigid motion (g, S) moves
   the placed atom by the same motion (exact-image case; each call of the
   eigen-solver meets its contract) *)
Lemma rigid_compose : forall (p g : Rquat) (T S X : Rpt),
  rigid (q2mat RA g) S (rigid (q2mat RA p) T X)
  = rigid (q2mat RA (qmul p g)) (rigid (q2mat RA g) S T) X.
Proof.
  intros p g T S X. unfold rigid at 1 2 3. rewrite <- qmul_compose.
  unfold rigid.
  assert (L := rot1_linear (q2mat RA g) 1 1 T (rot1 RA (q2mat RA p) X)).
  assert (E1 : forall v : Rpt, scale 1 v = v).
  { intros [[v0 v1] v2]. unfold scale. unf. apply pt_eq; ring. }
  rewrite !E1 in L. rewrite L.
  generalize (rot1 RA (q2mat RA g) T) (rot1 RA (q2mat RA g) (rot1 RA (q2mat RA p) X)).
  intros [[u0 u1] u2] [[w0 w1] w2]. destruct S as [[s0 s1] s2]. unf. apply pt_eq; ring.
Qed.

Theorem fit_equivariant : forall (defs : list Rpt) (p g : Rquat) (T S atom : Rpt),
  qnorm2 RA p = 1 -> qnorm2 RA g = 1 -> noncollinear defs ->
  let refs := map (rigid (q2mat RA p) T) defs in
  let refs' := map (rigid (q2mat RA g) S) refs in
  let defrel := snd (center RA defs) in
  eigen_contract defrel (snd (center RA refs)) (qtrfit_quat RA NROT defrel (snd (center RA refs))) ->
  eigen_contract defrel (snd (center RA refs')) (qtrfit_quat RA NROT defrel (snd (center RA refs'))) ->
  exists r, find_coordinates RA (length defs) refs defs atom = Some r /\
            find_coordinates RA (length defs) refs' defs atom = Some (rigid (q2mat RA g) S r).
Proof.
  intros defs p g T S atom Hp Hg Hnc refs refs' defrel Hc Hc'.
  exists (rigid (q2mat RA p) T atom). split.
  - apply (fit_exact_image defs p T atom Hp Hnc Hc).
  - assert (E : refs' = map (rigid (q2mat RA (qmul p g)) (rigid (q2mat RA g) S T)) defs).
    { unfold refs', refs. rewrite map_map. apply map_ext. intro X. apply rigid_compose. }
    assert (Hpg : qnorm2 RA (qmul p g) = 1) by (rewrite qmul_norm, Hp, Hg; ring).
    rewrite E in Hc' |- *.
    rewrite (proj2 (fit_exact_image defs (qmul p g) (rigid (q2mat RA g) S T) atom Hpg Hnc Hc')).
    f_equal. symmetry. apply rigid_compose.
Qed.

(* ------------------------------------------------------------------ *)
(* qchichange as called by the code (axis = un-normalised initcoords)    *)

Definition chi_map (c s : R) (init : Rpt) : Rpt -> Rpt :=
  rot1 RA (chi_mat RA (normalize RA init) c s).

Lemma qchichange_map : forall (c s : R) (init : Rpt) (coords : list Rpt),
  qchichange RA c s init coords = map (chi_map c s init) coords.
Proof. reflexivity. Qed.

Lemma chi_map_axis_fixed : forall (c s : R) (init : Rpt) (t : R),
  dot3 RA init init <> 0 -> chi_map c s init (scale t init) = scale t init.
Proof.
  intros c s init t Hne. unfold chi_map.
  set (l := normalize RA init).
  assert (Hl : dot3 RA l l = 1) by (apply normalize_unit; exact Hne).
  assert (E : scale t init = scale (t * norm3 RA init) l).
  { rewrite (normalize_parallel init Hne) at 1. fold l. destruct l as [[l0 l1] l2].
    unfold scale. unf. apply pt_eq; ring. }
  rewrite E. apply rot_fixes_axis. exact Hl.
Qed.

Lemma chi_map_isometry : forall (c s : R) (init v w : Rpt),
  dot3 RA init init <> 0 -> c * c + s * s = 1 ->
  dist2 (chi_map c s init v) (chi_map c s init w) = dist2 v w.
Proof.
  intros c s init v w Hne Hcs. unfold chi_map. apply rot_isometry; [ apply normalize_unit; exact Hne | exact Hcs ].
Qed.

Lemma chi_map_axis_dist : forall (c s : R) (init v : Rpt) (t : R),
  dot3 RA init init <> 0 -> c * c + s * s = 1 ->
  dist2 (chi_map c s init v) (scale t init) = dist2 v (scale t init).
Proof.
  intros c s init v t Hne Hcs. rewrite <- (chi_map_axis_fixed c s init t Hne) at 1.
  apply chi_map_isometry; assumption.
Qed.

Lemma chi_map_proper : forall (c s : R) (init v w : Rpt),
  dot3 RA init init <> 0 -> c * c + s * s = 1 ->
  proper_rotation (chi_mat RA (normalize RA init) c s) /\
  chi_map c s init (cross3 RA v w) = cross3 RA (chi_map c s init v) (chi_map c s init w).
Proof.
  intros c s init v w Hne Hcs.
  assert (Hl : dot3 RA (normalize RA init) (normalize RA init) = 1) by (apply normalize_unit; exact Hne).
  split; [ apply chi_rotation; assumption | apply chi_preserves_cross; assumption ].
Qed.

(* ------------------------------------------------------------------ *)
(* statements in the form cited by Properties/C15.v                     *)

Lemma q2mat_rotation_full : forall q : Rquat, qnorm2 RA q = 1 ->
  proper_rotation (q2mat RA q) /\
  (forall v w, dot3 RA (rot1 RA (q2mat RA q) v) (rot1 RA (q2mat RA q) w) = dot3 RA v w) /\
  (forall v w, rot1 RA (q2mat RA q) (cross3 RA v w)
               = cross3 RA (rot1 RA (q2mat RA q) v) (rot1 RA (q2mat RA q) w)).
Proof.
  intros q H. split; [ apply q2mat_rotation; exact H | ].
  split; intros v w; [ apply q2mat_preserves_dot | apply q2mat_preserves_cross ]; exact H.
Qed.

Lemma chi_axis_fixed_full : forall (c s : R) (init : Rpt) (coords : list Rpt) (t : R),
  dot3 RA init init <> 0 ->
  qchichange RA c s init coords = map (chi_map c s init) coords /\
  chi_map c s init (scale t init) = scale t init /\
  (forall l : Rpt, dot3 RA l l = 1 -> rot1 RA (chi_mat RA l c s) (scale t l) = scale t l).
Proof.
  intros c s init coords t Hne. split; [ reflexivity | ].
  split; [ apply chi_map_axis_fixed; exact Hne | intros l Hl; apply rot_fixes_axis; exact Hl ].
Qed.

Lemma chi_isometry_full : forall (c s : R) (init v w : Rpt) (t : R),
  dot3 RA init init <> 0 -> c * c + s * s = 1 ->
  dist2 (chi_map c s init v) (chi_map c s init w) = dist2 v w /\
  dist2 (chi_map c s init v) (scale t init) = dist2 v (scale t init) /\
  proper_rotation (chi_mat RA (normalize RA init) c s) /\
  chi_map c s init (cross3 RA v w) = cross3 RA (chi_map c s init v) (chi_map c s init w).
Proof.
  intros c s init v w t Hne Hcs.
  split; [ apply chi_map_isometry; assumption | ].
  split; [ apply chi_map_axis_dist; assumption | ].
  apply chi_map_proper; assumption.
Qed.

Lemma set_dihedral_distances : forall (c s : R) (o a p p' : Rpt) (t : R),
  dot3 RA (psub RA a o) (psub RA a o) <> 0 -> c * c + s * s = 1 ->
  dist2 (rotate_about RA c s o a p) o = dist2 p o /\
  dist2 (rotate_about RA c s o a p) a = dist2 p a /\
  dist2 (rotate_about RA c s o a p) (padd RA (scale t (psub RA a o)) o)
    = dist2 p (padd RA (scale t (psub RA a o)) o) /\
  dist2 (rotate_about RA c s o a p) (rotate_about RA c s o a p') = dist2 p p'.
Proof.
  intros c s o a p p' t Hne Hcs.
  assert (E0 : padd RA (scale 0 (psub RA a o)) o = o).
  { destruct a as [[a0 a1] a2], o as [[o0 o1] o2]. unfold scale. unf. apply pt_eq; ring. }
  assert (E1 : padd RA (scale 1 (psub RA a o)) o = a).
  { destruct a as [[a0 a1] a2], o as [[o0 o1] o2]. unfold scale. unf. apply pt_eq; ring. }
  assert (H0 := rotate_about_axis_dist c s o a p 0 Hne Hcs). cbv zeta in H0. rewrite E0 in H0.
  assert (H1 := rotate_about_axis_dist c s o a p 1 Hne Hcs). cbv zeta in H1. rewrite E1 in H1.
  split; [ exact H0 | ]. split; [ exact H1 | ].
  split; [ apply (rotate_about_axis_dist c s o a p t Hne Hcs) | apply rotate_about_isometry; assumption ].
Qed.

(* ------------------------------------------------------------------ *)
(* non-vacuity: a concrete exact-image problem meeting every hypothesis  *)

Definition ex_defs : list Rpt := [(0, 0, 0); (1, 0, 0); (0, 1, 0); (0, 0, 2)].
Definition ex_p : Rquat := (1 / 2, 1 / 2, 1 / 2, 1 / 2).
Definition ex_T : Rpt := (10, -20, 30).

Lemma fit_nonvacuous :
  qnorm2 RA ex_p = 1 /\ noncollinear ex_defs /\
  (exists q, eigen_contract (snd (center RA ex_defs))
               (snd (center RA (map (rigid (q2mat RA ex_p) ex_T) ex_defs))) q) /\
  rigid (q2mat RA ex_p) ex_T (1, 2, 3) = (12, -17, 31) /\
  (let c := 3 / 5 in let s := 4 / 5 in let init : Rpt := (0, 0, 2) in
   c * c + s * s = 1 /\ dot3 RA init init <> 0 /\
   qchichange RA c s init ((1, 0, 5) :: nil) = ((3 / 5, 4 / 5, 5) :: nil)).
Proof.
  assert (Hp : qnorm2 RA ex_p = 1) by (unfold ex_p; unf; field).
  split; [ exact Hp | ].
  split.
  { exists (0, 0, 0), (1, 0, 0), (0, 1, 0). unfold ex_defs. cbn [In].
    repeat split; auto. unf. intro H. apply pt_inv in H. lra. }
  split.
  { exists ex_p. apply eigen_contract_satisfiable; [ exact Hp | unfold ex_defs; discriminate ]. }
  split.
  { unfold rigid, ex_p, ex_T. unf. apply pt_eq; field. }
  cbv zeta. split; [ field | ]. split; [ unf; lra | ].
  rewrite qchichange_map. cbn [map]. unfold chi_map, normalize, norm3, normalize_with. cbn [a_sqrt RArith].
  assert (E : sqrt (dot3 RA (0, 0, 2) (0, 0, 2)) = 2).
  { replace (dot3 RA (0, 0, 2) (0, 0, 2)) with (2 * 2) by (unf; ring). apply sqrt_square. lra. }
  rewrite E. unf. f_equal. apply pt_eq; field.
Qed.
