(* C03 - proofs about Model/NameProtocol.v:
   (1) a checked reachable-set certificate is sound: if a finite set of states
       contains the start state and is closed under every enabled label, every
       run (any length, any oracle answers) stays inside it, never reaches
       Error, and completing from wherever the run stopped yields the expected
       names (induction over the label list);
   (2) every label that is enabled in some state is in the label list the
       certificate was checked with (so "every run" really is every run);
   (3) the boolean [good_names] means: no duplicate, same set, no placeholder;
   (4) layer 2 (guarded name lists) is exactly layer 1 (objects + dict) as long
       as the guard holds. *)
From Coq Require Import String List Bool Arith Lia.
From PV Require Import Lib.Strings Model.NameProtocol.
Import ListNotations.

(* ---- equality tests ------------------------------------------------------ *)

Lemma nl_eqb_eq : forall a b, nl_eqb a b = true -> a = b.
Proof.
  induction a as [|x a IH]; destruct b as [|y b]; cbn; intros H; try discriminate; auto.
  apply andb_true_iff in H. destruct H as [H1 H2].
  apply String.eqb_eq in H1. subst. f_equal. auto.
Qed.

Lemma pst_eqb_eq : forall a b, pst_eqb a b = true -> a = b.
Proof.
  intros [n1 f1 h1 a1] [n2 f2 h2 a2]. unfold pst_eqb. cbn. intros H.
  repeat (apply andb_true_iff in H; destruct H as [H ?]).
  apply nl_eqb_eq in H. apply Bool.eqb_prop in H2. apply nl_eqb_eq in H1. apply nl_eqb_eq in H0.
  subst. reflexivity.
Qed.

Lemma memP_In : forall s l, memP s l = true -> In s l.
Proof.
  unfold memP. intros s l H. apply existsb_exists in H. destruct H as [x [Hx He]].
  apply pst_eqb_eq in He. subst. exact Hx.
Qed.

Lemma mem_In : forall x l, mem x l = true <-> In x l.
Proof.
  unfold mem. induction l as [|y l IH]; cbn.
  - split; [discriminate | tauto].
  - rewrite orb_true_iff, IH, String.eqb_eq. split; intros [H|H]; auto.
Qed.

(* ---- (1) soundness of the certificate ------------------------------------ *)

Section Closure.
  Variables (L C : Type).
  Variable step : pst -> L -> outcome.
  Variable complete : pst -> C -> outcome.
  Variable labels : list L.
  Variable clabels : list C.
  Variable good : nl -> bool.
  Hypothesis labels_all : forall s l, step s l <> Disabled -> In l labels.
  Hypothesis clabels_all : forall s c, complete s c <> Disabled -> In c clabels.

  Variable S : list pst.
  Hypothesis Hclosed : closed L step labels S = true.
  Hypothesis Hgood : all_good C complete clabels good S = true.

  Lemma run_stays : forall ls s0, In s0 S ->
    match run L step s0 ls with
    | Next s _ => In s S
    | Disabled => True
    | Error => False
    end.
  Proof.
    induction ls as [|l ls IH]; intros s0 H0; cbn.
    - exact H0.
    - destruct (step s0 l) as [s' o| |] eqn:E; auto.
      + apply IH. unfold closed in Hclosed. rewrite forallb_forall in Hclosed.
        specialize (Hclosed s0 H0). rewrite forallb_forall in Hclosed.
        assert (Hin : In l labels) by (apply (labels_all s0); rewrite E; discriminate).
        specialize (Hclosed l Hin). rewrite E in Hclosed. apply memP_In. exact Hclosed.
      + unfold closed in Hclosed. rewrite forallb_forall in Hclosed.
        specialize (Hclosed s0 H0). rewrite forallb_forall in Hclosed.
        assert (Hin : In l labels) by (apply (labels_all s0); rewrite E; discriminate).
        specialize (Hclosed l Hin). rewrite E in Hclosed. discriminate.
  Qed.

  Lemma complete_good : forall s c, In s S ->
    match complete s c with
    | Next s' _ => good (names s') = true
    | Disabled => True
    | Error => False
    end.
  Proof.
    intros s c Hs. destruct (complete s c) as [s' o| |] eqn:E; auto.
    - unfold all_good in Hgood. rewrite forallb_forall in Hgood. specialize (Hgood s Hs).
      rewrite forallb_forall in Hgood.
      assert (Hin : In c clabels) by (apply (clabels_all s); rewrite E; discriminate).
      specialize (Hgood c Hin). rewrite E in Hgood. exact Hgood.
    - unfold all_good in Hgood. rewrite forallb_forall in Hgood. specialize (Hgood s Hs).
      rewrite forallb_forall in Hgood.
      assert (Hin : In c clabels) by (apply (clabels_all s); rewrite E; discriminate).
      specialize (Hgood c Hin). rewrite E in Hgood. discriminate.
  Qed.

  (* every run from a start state inside S: no Error on the way, and whatever
     oracle [complete] is given, it ends with good names *)
  Definition run_ok (s0 : pst) : Prop :=
    forall ls, match run L step s0 ls with
               | Next s _ => forall c, match complete s c with
                                       | Next s' _ => good (names s') = true
                                       | Disabled => True
                                       | Error => False
                                       end
               | Disabled => True
               | Error => False
               end.

  Theorem certificate_sound : forall s0, memP s0 S = true -> run_ok s0.
  Proof.
    intros s0 H0 ls. apply memP_In in H0. pose proof (run_stays ls s0 H0) as Hr.
    destruct (run L step s0 ls) as [s o| |]; auto.
    intros c. apply complete_good. exact Hr.
  Qed.
End Closure.

(* ---- (2) every enabled label is in the checked label list ---------------- *)

Lemma tri_all : forall t, In t tris.
Proof. destruct t; cbn; auto. Qed.

Lemma flabels_all : forall mv s l, flip_step mv s l <> Disabled -> In l (flabels mv).
Proof.
  intros mv s [bn|] H; unfold flabels; apply in_or_app.
  - left. apply in_map. unfold flip_step in H.
    destruct (mem bn (flip_cands mv)) eqn:E.
    + apply mem_In. exact E.
    + exfalso. apply H. reflexivity.
  - right. cbn. auto.
Qed.

Lemma alabels_all : forall h s l, alc_step h s l <> Disabled -> In l alabels.
Proof.
  intros h s [t|t|] _; unfold alabels.
  - apply in_or_app. left. apply in_map, tri_all.
  - apply in_or_app. right. apply in_or_app. left. apply in_map, tri_all.
  - apply in_or_app. right. apply in_or_app. right. cbn. auto.
Qed.

Lemma wlabels_all : forall s l, wat_step s l <> Disabled -> In l wlabels.
Proof.
  intros s [t|t|] _; unfold wlabels.
  - apply in_or_app. left. apply in_map, tri_all.
  - apply in_or_app. right. apply in_or_app. left. apply in_map, tri_all.
  - apply in_or_app. right. apply in_or_app. right. cbn. auto.
Qed.

Lemma clabels_all : forall c s l, carb_step c s l <> Disabled -> In l (clabels_of c).
Proof.
  intros c s [f|d|b] H; unfold clabels_of.
  - apply in_or_app. left. destruct f; cbn; auto.
  - apply in_or_app. right. apply in_or_app. left. apply in_map.
    unfold carb_step in H. destruct (mem d (carb_cands c)) eqn:E; [apply mem_In; exact E | exfalso; apply H; reflexivity].
  - apply in_or_app. right. apply in_or_app. right.
    unfold carb_step, best_ok in H. destruct b as [x|].
    + right. apply (in_map (fun x => CFinalize (Some x))).
      destruct (mem x (carb_cands c)) eqn:E; [apply mem_In; exact E | exfalso; apply H; reflexivity].
    + left. reflexivity.
Qed.

Lemma unit_all : forall (u : unit), In u [tt].
Proof. destruct u; cbn; auto. Qed.

Lemma cbest_all : forall c s b, carb_complete c s b <> Disabled -> In b (cbest c).
Proof.
  intros c s b H. unfold cbest. destruct b as [x|]; [right|left; reflexivity].
  apply in_map. unfold carb_complete, best_ok in H.
  destruct (mem x (carb_cands c)) eqn:E; [apply mem_In; exact E|]. exfalso. apply H. reflexivity.
Qed.

(* ---- (3) meaning of good_names ------------------------------------------- *)

Definition final_ok (expected l : nl) : Prop :=
  NoDup l /\ (forall x, In x l <-> In x expected) /\ (forall x, In x l -> placeholder x = false).

Lemma nodupb_NoDup : forall l, nodupb l = true -> NoDup l.
Proof.
  induction l as [|x l IH]; cbn; intros H; constructor.
  - apply andb_true_iff in H. destruct H as [H _]. intros Hin. apply mem_In in Hin.
    rewrite Hin in H. discriminate.
  - apply andb_true_iff in H. apply IH, H.
Qed.

Lemma good_names_spec : forall e l, good_names e l = true -> final_ok e l.
Proof.
  intros e l H. unfold good_names in H.
  repeat (apply andb_true_iff in H; destruct H as [H ?]).
  rewrite forallb_forall in H0, H1, H2.
  split; [apply nodupb_NoDup; exact H|]. split.
  - intros x; split; intros Hx.
    + apply mem_In. apply H2. exact Hx.
    + apply mem_In. apply H1. exact Hx.
  - intros x Hx. specialize (H0 x Hx). destruct (placeholder x); [discriminate|reflexivity].
Qed.

(* ---- instance level ------------------------------------------------------ *)

(* what a passed instance check means, for each protocol *)
Definition proto_ok (L C : Type) (step : pst -> L -> outcome) (complete : pst -> C -> outcome)
                    (expected : nl) (st : outcome) : Prop :=
  match st with
  | Error => False
  | Disabled => True
  | Next s0 _ =>
      forall ls, match run L step s0 ls with
                 | Next s _ => forall c, match complete s c with
                                         | Next s' _ => final_ok expected (names s')
                                         | Disabled => True
                                         | Error => False
                                         end
                 | Disabled => True
                 | Error => False
                 end
  end.

Lemma lift_good : forall (L C : Type) step complete e s0,
  run_ok L C step complete (good_names e) s0 ->
  forall ls, match run L step s0 ls with
             | Next s _ => forall c, match complete s c with
                                     | Next s' _ => final_ok e (names s')
                                     | Disabled => True
                                     | Error => False
                                     end
             | Disabled => True
             | Error => False
             end.
Proof.
  intros L C step complete e s0 H ls. specialize (H ls).
  destruct (run L step s0 ls); auto. intros c. specialize (H c).
  destruct (complete s c); auto. apply good_names_spec. exact H.
Qed.

Theorem flip_instance_sound : forall i mv o, i_kind i = KFlip mv -> check_from i o = true ->
  proto_ok _ _ (flip_step mv) flip_complete (i_expected i) o.
Proof.
  intros i mv o Hk H. unfold check_from in H. destruct o as [s0 ops| |]; cbn; auto; try discriminate.
  rewrite Hk in H. repeat (apply andb_true_iff in H; destruct H as [H ?]).
  apply lift_good.
  eapply (certificate_sound _ _ (flip_step mv) flip_complete (flabels mv) [tt]); eauto.
  - apply flabels_all.
  - intros s c _. apply unit_all.
Qed.

Theorem alc_instance_sound : forall i h o, i_kind i = KAlc h -> check_from i o = true ->
  proto_ok _ _ (alc_step h) (alc_complete h) (i_expected i) o.
Proof.
  intros i h o Hk H. unfold check_from in H. destruct o as [s0 ops| |]; cbn; auto; try discriminate.
  rewrite Hk in H. repeat (apply andb_true_iff in H; destruct H as [H ?]).
  apply lift_good.
  eapply (certificate_sound _ _ (alc_step h) (alc_complete h) alabels [tt]); eauto.
  - apply alabels_all.
  - intros s c _. apply unit_all.
Qed.

Theorem wat_instance_sound : forall i o, i_kind i = KWat -> check_from i o = true ->
  proto_ok _ _ wat_step wat_complete (i_expected i) o.
Proof.
  intros i o Hk H. unfold check_from in H. destruct o as [s0 ops| |]; cbn; auto; try discriminate.
  rewrite Hk in H. repeat (apply andb_true_iff in H; destruct H as [H ?]).
  apply lift_good.
  eapply (certificate_sound _ _ wat_step wat_complete wlabels [tt]); eauto.
  - apply wlabels_all.
  - intros s c _. apply unit_all.
Qed.

Theorem carb_instance_sound : forall i c o, i_kind i = KCarb c -> check_from i o = true ->
  proto_ok _ _ (carb_step c) (carb_complete c) (i_expected i) o.
Proof.
  intros i c o Hk H. unfold check_from in H. destruct o as [s0 ops| |]; cbn; auto; try discriminate.
  rewrite Hk in H. repeat (apply andb_true_iff in H; destruct H as [H ?]).
  apply lift_good.
  eapply (certificate_sound _ _ (carb_step c) (carb_complete c) (clabels_of c) (cbest c)); eauto.
  - apply clabels_all.
  - apply cbest_all.
Qed.

(* a residue with no hydrogen-bond partner is only finalized; if that fixes it
   (so that it is never completed) its names are already final *)
Lemma nohb_sound : forall (L : Type) (step : pst -> L -> outcome) e fl s0 l,
  nohb_good L step (good_names e) fl s0 = true -> In l fl ->
  match step s0 l with
  | Next s' _ => fixed s' = true -> final_ok e (names s')
  | Disabled => True
  | Error => False
  end.
Proof.
  intros L step e fl s0 l H Hin. unfold nohb_good in H. rewrite forallb_forall in H.
  specialize (H l Hin). destruct (step s0 l) as [s' o| |]; auto; try discriminate.
  intros Hf. rewrite Hf in H. apply good_names_spec. exact H.
Qed.

(* table level: all instances of a list pass => each one is sound *)
Lemma instance_starts_ok : forall l i o, all_instances_ok l = true -> In i l -> In o (starts i) ->
  check_from i o = true.
Proof.
  intros l i o H Hi Ho. unfold all_instances_ok in H. rewrite forallb_forall in H.
  specialize (H i Hi). unfold check_instance in H. rewrite forallb_forall in H. apply H, Ho.
Qed.

Theorem flip_table_sound : forall l i mv, all_instances_ok l = true -> In i l -> i_kind i = KFlip mv ->
  proto_ok _ _ (flip_step mv) flip_complete (i_expected i) (flip_start (i_base i) mv).
Proof.
  intros l i mv H Hi Hk. apply flip_instance_sound; auto.
  eapply instance_starts_ok; eauto. unfold starts. rewrite Hk. cbn. auto.
Qed.

Theorem alc_table_sound : forall l i h, all_instances_ok l = true -> In i l -> i_kind i = KAlc h ->
  proto_ok _ _ (alc_step h) (alc_complete h) (i_expected i) (alc_start h (i_base i)).
Proof.
  intros l i h H Hi Hk. apply alc_instance_sound; auto.
  eapply instance_starts_ok; eauto. unfold starts. rewrite Hk. cbn. auto.
Qed.

Theorem wat_table_sound : forall l i, all_instances_ok l = true -> In i l -> i_kind i = KWat ->
  proto_ok _ _ wat_step wat_complete (i_expected i) (wat_start (i_base i)).
Proof.
  intros l i H Hi Hk. apply wat_instance_sound; auto.
  eapply instance_starts_ok; eauto. unfold starts. rewrite Hk. cbn. auto.
Qed.

Theorem carb_table_sound : forall l i c ord lf, all_instances_ok l = true -> In i l -> i_kind i = KCarb c ->
  proto_ok _ _ (carb_step c) (carb_complete c) (i_expected i) (carb_start c ord lf (i_base i)).
Proof.
  intros l i c ord lf H Hi Hk.
  destruct ord, lf.
  - apply carb_instance_sound; auto. eapply instance_starts_ok; eauto. unfold starts. rewrite Hk. cbn. auto.
  - unfold carb_start. cbn. exact I.
  - apply carb_instance_sound; auto. eapply instance_starts_ok; eauto. unfold starts. rewrite Hk. cbn. auto.
  - apply carb_instance_sound; auto. eapply instance_starts_ok; eauto. unfold starts. rewrite Hk. cbn. auto.
Qed.

(* ---- patch table ---------------------------------------------------------- *)

Lemma same_set_spec : forall a b, same_set a b = true -> NoDup a /\ forall x, In x a <-> In x b.
Proof.
  intros a b H. unfold same_set in H. repeat (apply andb_true_iff in H; destruct H as [H ?]).
  rewrite forallb_forall in H, H1. split; [apply nodupb_NoDup; auto|].
  intros x; split; intros Hx; apply mem_In; auto.
Qed.

Theorem patch_table_sound : forall l p, patches_ok l = true -> In p l -> p_runtime p = true ->
  (p_key p = "5TERM"%string -> NoDup (heavy_removed p) /\ forall x, In x (heavy_removed p) <-> In x phosphate) /\
  (p_key p <> "5TERM"%string -> forall x, In x (p_remove p) -> is_hyd x = true).
Proof.
  intros l p H Hp Hr. unfold patches_ok in H. apply andb_true_iff in H. destruct H as [H _].
  rewrite forallb_forall in H. specialize (H p Hp). unfold patch_ok in H. rewrite Hr in H.
  split.
  - intros Hk. rewrite Hk in H. cbn in H. apply same_set_spec. exact H.
  - intros Hk x Hx. destruct (String.eqb (p_key p) "5TERM") eqn:E.
    + apply String.eqb_eq in E. contradiction.
    + destruct (is_hyd x) eqn:Ex; auto.
      assert (Hin : In x (heavy_removed p)) by (unfold heavy_removed; apply filter_In; rewrite Ex; auto).
      destruct (heavy_removed p); [destruct Hin | discriminate].
Qed.

(* ---- residues that are finalized but never completed ---------------------- *)

Theorem flip_nohb_sound : forall l i mv, all_instances_ok l = true -> In i l -> i_kind i = KFlip mv ->
  match flip_start (i_base i) mv with
  | Next s0 _ => match flip_step mv s0 FFinalize with
                 | Next s' _ => fixed s' = true -> final_ok (i_expected i) (names s')
                 | Disabled => True
                 | Error => False
                 end
  | _ => True
  end.
Proof.
  intros l i mv H Hi Hk.
  assert (Hc : check_from i (flip_start (i_base i) mv) = true).
  { eapply instance_starts_ok; eauto. unfold starts. rewrite Hk. cbn. auto. }
  destruct (flip_start (i_base i) mv) as [s0 o| |]; auto.
  unfold check_from in Hc. rewrite Hk in Hc. repeat (apply andb_true_iff in Hc; destruct Hc as [Hc ?]).
  eapply (nohb_sound _ (flip_step mv)); eauto. cbn. auto.
Qed.

Theorem wat_nohb_sound : forall l i, all_instances_ok l = true -> In i l -> i_kind i = KWat ->
  match wat_start (i_base i) with
  | Next s0 _ => match wat_step s0 WFinalize with
                 | Next s' _ => fixed s' = true -> final_ok (i_expected i) (names s')
                 | Disabled => True
                 | Error => False
                 end
  | _ => True
  end.
Proof.
  intros l i H Hi Hk.
  assert (Hc : check_from i (wat_start (i_base i)) = true).
  { eapply instance_starts_ok; eauto. unfold starts. rewrite Hk. cbn. auto. }
  destruct (wat_start (i_base i)) as [s0 o| |]; auto.
  unfold check_from in Hc. rewrite Hk in Hc. repeat (apply andb_true_iff in Hc; destruct Hc as [Hc ?]).
  eapply (nohb_sound _ wat_step); eauto. cbn. auto.
Qed.

(* ---- partition (C01's result restated for C03) ---------------------------- *)
From Coq Require Import Permutation.
From PV Require Import Model.ForceField Proofs.ForceField.

Theorem partition_no_loss_no_dup : forall (A : Type) (m : ffmap) (rs : list (@res A)),
  Permutation (map fst (fst (assign m rs)) ++ snd (assign m rs)) (all_atoms rs) /\
  (NoDup (all_atoms rs) -> NoDup (map fst (fst (assign m rs)) ++ snd (assign m rs))).
Proof.
  intros A m rs. pose proof (@assign_partition A m rs) as P. split; [exact P|].
  intros Hn. eapply Permutation_NoDup; [apply Permutation_sym; exact P | exact Hn].
Qed.
